(* Extraction of the executable model and the specification oracles for the table-shaped correspondence
   streams.  ExtrOcamlBasic only (bool, option, list, prod, unit, sumbool mapped to OCaml's own types); no
   Extract Constant / Extract Inductive of ours; nat, N, Z, positive stay the extracted datatypes.
   Run from /verif/ocaml:  coqc -Q ../coq/Model Gopki.Model -Q ../coq/Spec Gopki.Spec ../coq/Extract/Extract.v *)
Require Extraction.
Require Import ExtrOcamlBasic.
From Gopki.Model Require Import Dir Plan Merge Validate Current.
From Gopki.Spec Require Import MergeSpec RegenSpec.

Definition validate_current {oid} (eqb : oid -> oid -> bool) :=
  if cur_validate then validate_fixed oid eqb else validate_faithful oid eqb.
Definition plan_current := plan cur_csr.

Extraction "model.ml" merge merge_spec validate_current validate_fixed validate_faithful
  plan_current plan is_consistent reachb regenb cur_csr cur_validate.
