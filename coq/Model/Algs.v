(* Name tables of config-v1.go (keyAlgorithms, sigAlgorithms, defaults) and the curve / size they must denote. *)
From Coq Require Import List NArith ZArith Bool String.
From Coq.Strings Require Import Byte.
From Gopki.Model Require Import Bytes Base64 Text.
Import ListNotations.
Open Scope N_scope.

Inductive keyalg :=
| RSA1024 | RSA2048 | RSA4096 | RSA8192 | P224 | P256 | P384 | P521
| BP256r1 | BP384r1 | BP512r1 | BP256t1 | BP384t1 | BP512t1.

Definition key_names : list string :=
  ["RSA-1024"; "RSA-2048"; "RSA-4096"; "RSA-8192"; "P-224"; "P-256"; "P-384"; "P-521";
   "brainpoolP256r1"; "brainpoolP384r1"; "brainpoolP512r1"; "brainpoolP256t1"; "brainpoolP384t1"; "brainpoolP512t1"]%string.

(* what the documentation says each name denotes *)
Definition spec_keyalg (s : string) : option keyalg :=
  match s with
  | "RSA-1024" => Some RSA1024 | "RSA-2048" => Some RSA2048 | "RSA-4096" => Some RSA4096 | "RSA-8192" => Some RSA8192
  | "P-224" => Some P224 | "P-256" => Some P256 | "P-384" => Some P384 | "P-521" => Some P521
  | "brainpoolP256r1" => Some BP256r1 | "brainpoolP384r1" => Some BP384r1 | "brainpoolP512r1" => Some BP512r1
  | "brainpoolP256t1" => Some BP256t1 | "brainpoolP384t1" => Some BP384t1 | "brainpoolP512t1" => Some BP512t1
  | _ => None
  end%string.

(* the table as written (F2): four brainpool names point at the 256-bit curves *)
Definition keyalg_of_name (fixed : bool) (s : string) : option keyalg :=
  match s with
  | "brainpoolP384r1" => Some (if fixed then BP384r1 else BP256r1)
  | "brainpoolP512r1" => Some (if fixed then BP512r1 else BP256r1)
  | "brainpoolP384t1" => Some (if fixed then BP384t1 else BP256t1)
  | "brainpoolP512t1" => Some (if fixed then BP512t1 else BP256t1)
  | _ => spec_keyalg s
  end%string.

Definition is_rsa (k : keyalg) : bool :=
  match k with RSA1024 | RSA2048 | RSA4096 | RSA8192 => true | _ => false end.

(* curve OIDs / modulus sizes of cert.go *)
Definition curve_oid (k : keyalg) : option (list N) :=
  match k with
  | P224 => Some [1;3;132;0;33] | P256 => Some [1;2;840;10045;3;1;7] | P384 => Some [1;3;132;0;34] | P521 => Some [1;3;132;0;35]
  | BP256r1 => Some [1;3;36;3;3;2;8;1;1;7] | BP384r1 => Some [1;3;36;3;3;2;8;1;1;11] | BP512r1 => Some [1;3;36;3;3;2;8;1;1;13]
  | BP256t1 => Some [1;3;36;3;3;2;8;1;1;8] | BP384t1 => Some [1;3;36;3;3;2;8;1;1;12] | BP512t1 => Some [1;3;36;3;3;2;8;1;1;14]
  | _ => None
  end.
Definition rsa_bits (k : keyalg) : option N :=
  match k with RSA1024 => Some 1024 | RSA2048 => Some 2048 | RSA4096 => Some 4096 | RSA8192 => Some 8192 | _ => None end.

Definition default_keyalg : keyalg := P256.
Definition effective_keyalg (fixed : bool) (s : string) : option keyalg :=
  match s with ""%string => Some default_keyalg | _ => keyalg_of_name fixed s end.

Definition sig_names : list string :=
  ["RSAwithSHA1"; "RSAwithSHA256"; "RSAwithSHA384"; "RSAwithSHA512";
   "ECDSAwithSHA1"; "ECDSAwithSHA256"; "ECDSAwithSHA384"; "ECDSAwithSHA512"]%string.
(* omitted signature algorithm: SHA-256 with the scheme named by the prefix of the configured key algorithm *)
Definition default_sig_name (keyalg_name : string) : string :=
  (if String.prefix "RSA" keyalg_name then "RSAwithSHA256" else "ECDSAwithSHA256")%string.
