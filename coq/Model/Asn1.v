(* Typed ASN.1 values on top of Der.v, following what Go's encoding/asn1 emits. *)
From Coq Require Import List NArith ZArith Bool.
From Coq.Strings Require Import Byte.
From Gopki.Model Require Import Bytes Der.
Import ListNotations.
Open Scope N_scope.

(* ---------------- INTEGER: minimal two's complement ---------------- *)
Definition pos_content (n : N) : bytes :=
  match be_digits n with
  | [] => [n2b 0]
  | h :: r => if b2n h <? 128 then h :: r else n2b 0 :: h :: r
  end.

Definition compl (b : byte) : byte := n2b (255 - b2n b).

Definition int_content (z : Z) : bytes :=
  if (0 <=? z)%Z then pos_content (Z.to_N z)
  else map compl (pos_content (Z.to_N (- z - 1))).

Definition int_of_content (l : bytes) : option Z :=
  match l with
  | [] => None
  | [h] => if b2n h <? 128 then Some (Z.of_N (b2n h)) else Some (Z.of_N (b2n h) - 256)%Z
  | h :: h2 :: r =>
    if (b2n h =? 0) && (b2n h2 <? 128) then None
    else if (b2n h =? 255) && (128 <=? b2n h2) then None
    else if b2n h <? 128 then Some (Z.of_N (be_value l))
         else Some (Z.of_N (be_value l) - Z.of_N (256 ^ blen l))%Z
  end.

Definition der_int (z : Z) : tlv := Prim Univ 2 (int_content z).

(* ---------------- OBJECT IDENTIFIER ---------------- *)
(* 7-bit groups of n, most significant first, minimal ([] for 0) *)
Fixpoint b128_digits_fuel (fuel : nat) (n : N) (acc : list N) : list N :=
  match fuel with
  | O => acc
  | S f => if n =? 0 then acc else b128_digits_fuel f (n / 128) ((n mod 128) :: acc)
  end.
Definition b128_digits (n : N) : list N :=
  match b128_digits_fuel (N.to_nat (N.size n)) n [] with [] => [0] | d => d end.

(* every group but the last carries the continuation bit *)
Fixpoint set_cont (gs : list N) : bytes :=
  match gs with
  | [] => []
  | [g] => [n2b g]
  | g :: r => n2b (128 + g) :: set_cont r
  end.
Definition base128 (n : N) : bytes := set_cont (b128_digits n).

(* Go: len >= 2, first <= 2, first < 2 -> second < 40 *)
Definition oid_ok (arcs : list N) : bool :=
  match arcs with
  | a :: b :: _ => (a <=? 2) && ((2 <=? a) || (b <? 40))
  | _ => false
  end.

Definition oid_content (arcs : list N) : option bytes :=
  match arcs with
  | a :: b :: r => if oid_ok arcs then Some (base128 (a * 40 + b) ++ flat_map base128 r) else None
  | _ => None
  end.

Fixpoint arcs_of (l : bytes) (acc : N) (started : bool) : option (list N) :=
  match l with
  | [] => if started then None else Some []
  | b :: r =>
    let n := b2n b in
    if (negb started) && (n =? 128) then None            (* leading 0x80: not minimal *)
    else let acc' := acc * 128 + (n mod 128) in
         if n <? 128 then match arcs_of r 0 false with
                          | Some t => Some (acc' :: t)
                          | None => None
                          end
         else arcs_of r acc' true
  end.

Definition oid_of_content (l : bytes) : option (list N) :=
  match arcs_of l 0 false with
  | Some (v :: r) => if v <? 40 then Some (0 :: v :: r)
                     else if v <? 80 then Some (1 :: (v - 40) :: r)
                     else Some (2 :: (v - 80) :: r)
  | _ => None
  end.

Definition der_oid (arcs : list N) : option tlv :=
  match oid_content arcs with Some c => Some (Prim Univ 6 c) | None => None end.

(* ---------------- BOOLEAN, NULL, OCTET STRING, BIT STRING ---------------- *)
Definition der_bool (b : bool) : tlv := Prim Univ 1 [n2b (if b then 255 else 0)].
Definition der_null : tlv := Prim Univ 5 [].
Definition der_octets (b : bytes) : tlv := Prim Univ 4 b.
(* asn1.BitString{Bytes, BitLength}: padding = (8 - BitLength mod 8) mod 8 *)
Definition der_bits (b : bytes) (bitlen : N) : tlv := Prim Univ 3 (n2b ((8 - bitlen mod 8) mod 8) :: b).
Definition der_bits_full (b : bytes) : tlv := der_bits b (8 * blen b).

(* ---------------- strings ---------------- *)
Definition is_printable_byte (b : byte) : bool :=
  let n := b2n b in
  ((97 <=? n) && (n <=? 122)) || ((65 <=? n) && (n <=? 90)) || ((48 <=? n) && (n <=? 57))
  || (n =? 32) || (n =? 39) || (n =? 40) || (n =? 41) || (n =? 43) || (n =? 44) || (n =? 45)
  || (n =? 46) || (n =? 47) || (n =? 58) || (n =? 61) || (n =? 63).

(* a Go string without explicit type: PrintableString if every byte is in the set, else UTF8String *)
Definition der_auto_string (s : bytes) : tlv :=
  if forallb is_printable_byte s then Prim Univ 19 s else Prim Univ 12 s.
Definition der_utf8 (s : bytes) : tlv := Prim Univ 12 s.
Definition der_ia5 (s : bytes) : option tlv :=
  if forallb (fun b => b2n b <? 128) s then Some (Prim Univ 22 s) else None.
Definition der_printable (s : bytes) : option tlv :=   (* explicit "printable": '*' and '&' tolerated *)
  if forallb (fun b => is_printable_byte b || (b2n b =? 42) || (b2n b =? 38)) s then Some (Prim Univ 19 s) else None.

(* ---------------- time ---------------- *)
Definition digit (n : N) : byte := n2b (48 + n mod 10).
Definition two_digits (n : N) : bytes := [digit (n / 10); digit n].
Definition four_digits (n : N) : bytes := [digit (n / 1000); digit (n / 100); digit (n / 10); digit n].

Record civil := mkCivil { cv_year : N; cv_month : N; cv_day : N; cv_hour : N; cv_min : N; cv_sec : N }.

Definition der_time (t : civil) : option tlv :=
  let tail := two_digits (cv_month t) ++ two_digits (cv_day t) ++ two_digits (cv_hour t)
              ++ two_digits (cv_min t) ++ two_digits (cv_sec t) ++ [n2b 90] in
  if (1950 <=? cv_year t) && (cv_year t <? 2050)
  then Some (Prim Univ 23 (two_digits (cv_year t mod 100) ++ tail))
  else if cv_year t <=? 9999 then Some (Prim Univ 24 (four_digits (cv_year t) ++ tail))
  else None.

(* ---------------- structure helpers ---------------- *)
Definition der_seq (l : list tlv) : tlv := Cons Univ 16 l.
Definition der_set (l : list tlv) : tlv := Cons Univ 17 l.
Definition der_explicit (tag : N) (x : tlv) : tlv := Cons Ctx tag [x].
Definition der_implicit_prim (tag : N) (content : bytes) : tlv := Prim Ctx tag content.
