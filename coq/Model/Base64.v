(* Standard base64 with padding (encoding/base64.StdEncoding). *)
From Coq Require Import List NArith Bool.
From Coq.Strings Require Import Byte.
From Gopki.Model Require Import Bytes.
Import ListNotations.
Open Scope N_scope.

Definition b64_char (s : N) : byte :=
  if s <? 26 then n2b (65 + s)
  else if s <? 52 then n2b (97 + (s - 26))
  else if s <? 62 then n2b (48 + (s - 52))
  else if s =? 62 then n2b 43 else n2b 47.

Definition b64_val (b : byte) : option N :=
  let n := b2n b in
  if (65 <=? n) && (n <=? 90) then Some (n - 65)
  else if (97 <=? n) && (n <=? 122) then Some (n - 97 + 26)
  else if (48 <=? n) && (n <=? 57) then Some (n - 48 + 52)
  else if n =? 43 then Some 62
  else if n =? 47 then Some 63
  else None.

Definition pad : byte := n2b 61.
Definition is_pad (b : byte) : bool := b2n b =? 61.

Fixpoint b64_encode (l : bytes) : bytes :=
  match l with
  | [] => []
  | [a] => let x := b2n a in [b64_char (x / 4); b64_char ((x mod 4) * 16); pad; pad]
  | [a; b] => let x := b2n a in let y := b2n b in
              [b64_char (x / 4); b64_char ((x mod 4) * 16 + y / 16); b64_char ((y mod 16) * 4); pad]
  | a :: b :: c :: r =>
    let x := b2n a in let y := b2n b in let z := b2n c in
    b64_char (x / 4) :: b64_char ((x mod 4) * 16 + y / 16) :: b64_char ((y mod 16) * 4 + z / 64)
      :: b64_char (z mod 64) :: b64_encode r
  end.

Definition dec3 (v1 v2 v3 v4 : N) : bytes :=
  [n2b (v1 * 4 + v2 / 16); n2b ((v2 mod 16) * 16 + v3 / 4); n2b ((v3 mod 4) * 64 + v4)].

Fixpoint b64_decode (l : bytes) : option bytes :=
  match l with
  | [] => Some []
  | c1 :: c2 :: c3 :: c4 :: r =>
    match b64_val c1, b64_val c2 with
    | Some v1, Some v2 =>
      match r with
      | [] =>
        if is_pad c3 && is_pad c4 then Some [n2b (v1 * 4 + v2 / 16)]
        else match b64_val c3 with
             | None => None
             | Some v3 =>
               if is_pad c4 then Some [n2b (v1 * 4 + v2 / 16); n2b ((v2 mod 16) * 16 + v3 / 4)]
               else match b64_val c4 with
                    | Some v4 => Some (dec3 v1 v2 v3 v4)
                    | None => None
                    end
             end
      | _ =>
        match b64_val c3, b64_val c4, b64_decode r with
        | Some v3, Some v4, Some rest => Some (dec3 v1 v2 v3 v4 ++ rest)
        | _, _, _ => None
        end
      end
    | _, _ => None
    end
  | _ => None
  end.

(* v1/extensions.go: readRawString *)
Definition binary_prefix : bytes := map n2b [33; 98; 105; 110; 97; 114; 121; 58].   (* "!binary:" *)
Definition empty_word : bytes := map n2b [33; 101; 109; 112; 116; 121].             (* "!empty" *)
Definition null_word : bytes := map n2b [33; 110; 117; 108; 108].                   (* "!null" *)

Fixpoint strip_prefix (p l : bytes) : option bytes :=
  match p, l with
  | [], _ => Some l
  | x :: p', y :: l' => if b2n x =? b2n y then strip_prefix p' l' else None
  | _ :: _, [] => None
  end.

Fixpoint bytes_eqb (a b : bytes) : bool :=
  match a, b with
  | [], [] => true
  | x :: a', y :: b' => (b2n x =? b2n y) && bytes_eqb a' b'
  | _, _ => false
  end.

(* as written: one Read through the decoder's 1024-character window; an empty payload is an EOF error *)
Definition read_raw_faithful (s : bytes) : option bytes :=
  match strip_prefix binary_prefix s with
  | Some b64 => match b64 with
                | [] => None
                | _ => b64_decode (firstn 1024 b64)
                end
  | None => if bytes_eqb s empty_word then Some []
            else if bytes_eqb s null_word then Some [n2b 5; n2b 0]
            else None
  end.

(* repaired: decode everything.  Go's base64 decoder skips CR and LF wherever they occur *)
Definition is_crlf (b : byte) : bool := (b2n b =? 13) || (b2n b =? 10).
Definition read_raw (s : bytes) : option bytes :=
  match strip_prefix binary_prefix s with
  | Some b64 => match b64 with [] => None | _ => b64_decode (filter (fun b => negb (is_crlf b)) b64) end
  | None => if bytes_eqb s empty_word then Some []
            else if bytes_eqb s null_word then Some [n2b 5; n2b 0]
            else None
  end.
