(* Octets and big-endian base-256 numbers.  Executable definitions only. *)
From Coq Require Import List NArith Bool.
From Coq.Strings Require Import Byte.
Import ListNotations.
Open Scope N_scope.

Definition bytes := list byte.

Definition b2n (b : byte) : N := Byte.to_N b.
Definition n2b (n : N) : byte :=
  match Byte.of_N n with Some b => b | None => x00 end.

Definition blen (l : bytes) : N := N.of_nat (length l).

(* big-endian value of a digit string *)
Fixpoint be_value_acc (l : bytes) (acc : N) : N :=
  match l with [] => acc | b :: r => be_value_acc r (acc * 256 + b2n b) end.
Definition be_value (l : bytes) : N := be_value_acc l 0.

(* minimal big-endian digits of n ([] for 0); fuel = number of bits of n *)
Fixpoint be_digits_fuel (fuel : nat) (n : N) (acc : bytes) : bytes :=
  match fuel with
  | O => acc
  | S f => if n =? 0 then acc
           else be_digits_fuel f (n / 256) (n2b (n mod 256) :: acc)
  end.
Definition be_digits (n : N) : bytes := be_digits_fuel (N.to_nat (N.size n)) n [].

(* split off exactly n elements *)
Fixpoint take {A} (n : nat) (l : list A) : option (list A * list A) :=
  match n with
  | O => Some ([], l)
  | S k => match l with
           | [] => None
           | x :: r => match take k r with
                       | Some (a, b) => Some (x :: a, b)
                       | None => None
                       end
           end
  end.

(* [take] with the count given as a binary number: an absurd length claim is refused without ever being converted to
   unary (a hostile DER length of 2^60 must not cost 2^60 steps) *)
Definition take_n {A} (n : N) (l : list A) : option (list A * list A) :=
  if N.ltb (N.of_nat (length l)) n then None else take (N.to_nat n) l.
