(* Support for the certificate-level correspondence check: one [cert_case] per certificate the real code
   produced (or refused to produce); [check_case] evaluates the model at the current repair switches on the same
   configuration and observed random material and reports every difference as a numeric code.
   Codes: 1 model yields a certificate, implementation none; 2 implementation yields one, model none;
   3 bytes differ; 4 the strict parser (Spec/X509Spec) rejects the implementation's bytes or re-encoding them gives
   different bytes; 1xx field xx of the strictly parsed implementation certificate differs from the model's typed
   certificate (101 version 102 serial 103 inner alg 104 issuer 105 notBefore 106 notAfter 107 subject 108 spki
   109 issuerUID 110 subjectUID 111 extension count 112 outer alg 113 signature, 120+i extension i);
   5 C02 shape rule violated on the implementation's certificate (version/inner=outer/params/serial);
   6 SubjectPublicKeyInfo algorithm is not the one the configured key algorithm demands. *)
From Coq Require Import List NArith ZArith Bool String.
From Coq.Strings Require Import Byte.
From Gopki.Model Require Import Bytes Base64 Der Asn1 Text Algs Ext Rdn Time X509 Generate Merge Validate Current Effective.
From Gopki.Spec Require Import X509Spec.
Import ListNotations.
Open Scope N_scope.

Record cert_case := mkCase {
  cs_profile : option profile;
  cs_cfg : cert_cfg;
  cs_obs : observed;
  cs_issuer : option (bytes * bytes);     (* issuer's subject string (effective config), issuer's public key bits *)
  cs_signer_key : bytes;                  (* key algorithm name of the key that signs ("" = default) *)
  cs_sha : list (bytes * bytes);          (* SHA-1 transcript computed by the harness with crypto/sha1 *)
  cs_expect : option bytes                (* the certificate the implementation wrote, None = it reported an error *)
}.

Definition sha_of (tbl : list (bytes * bytes)) (x : bytes) : bytes :=
  match find (fun p => bytes_eqb (fst p) x) tbl with Some p => snd p | None => [] end.

Definition spki_of (b : bytes) : spki :=
  match parse b with
  | Some (t, _) => match dec_spki t with Some s => s | None => mkSpki (mkAlg [] None) [] end
  | None => mkSpki (mkAlg [] None) []
  end.

Definition key_is_rsa (name : bytes) : bool := has_prefix (str "RSA") name.

(* cert.Sign: the signature algorithm must fit the type of the signing key *)
Definition sig_fits (c : cert_cfg) (signer_key : bytes) : bool :=
  match sig_oid (effective_sigalg c) with
  | Some (_, rsa) => Bool.eqb rsa (key_is_rsa signer_key)
  | None => false
  end.

Definition tlv_eqb (a b : tlv) : bool := bytes_eqb (enc a) (enc b).
Definition algid_eqb (a b : algid) : bool := list_eqb N.eqb (al_oid a) (al_oid b) && opt_eqb tlv_eqb (al_params a) (al_params b).
Definition atv_eqb (a b : atv_value) : bool :=
  match a, b with AvString x, AvString y => bytes_eqb x y | AvRaw x, AvRaw y => bytes_eqb x y | _, _ => false end.
Definition rdn_eqb (a b : rdn) : bool := list_eqb Z.eqb (r_type a) (r_type b) && atv_eqb (r_value a) (r_value b).
Definition civil_eqb (a b : civil) : bool :=
  (cv_year a =? cv_year b) && (cv_month a =? cv_month b) && (cv_day a =? cv_day b) && (cv_hour a =? cv_hour b)
  && (cv_min a =? cv_min b) && (cv_sec a =? cv_sec b).
Definition ext_eqb (a b : ext) : bool := list_eqb N.eqb (x_oid a) (x_oid b) && Bool.eqb (x_crit a) (x_crit b) && bytes_eqb (x_value a) (x_value b).

Fixpoint ext_diffs (i : N) (a b : list ext) : list N :=
  match a, b with
  | x :: a', y :: b' => (if ext_eqb x y then [] else [120 + i]) ++ ext_diffs (i + 1) a' b'
  | _, _ => []
  end.

Definition field_diffs (m i : tcert) : list N :=
  (if (t_version m =? t_version i)%Z then [] else [101]) ++ (if (t_serial m =? t_serial i)%Z then [] else [102])
  ++ (if algid_eqb (t_inner m) (t_inner i) then [] else [103]) ++ (if list_eqb rdn_eqb (t_issuer m) (t_issuer i) then [] else [104])
  ++ (if civil_eqb (t_nb m) (t_nb i) then [] else [105]) ++ (if civil_eqb (t_na m) (t_na i) then [] else [106])
  ++ (if list_eqb rdn_eqb (t_subject m) (t_subject i) then [] else [107])
  ++ (if algid_eqb (sp_alg (t_spki m)) (sp_alg (t_spki i)) && bytes_eqb (sp_bits (t_spki m)) (sp_bits (t_spki i)) then [] else [108])
  ++ (if opt_eqb bytes_eqb (t_iuid m) (t_iuid i) then [] else [109]) ++ (if opt_eqb bytes_eqb (t_suid m) (t_suid i) then [] else [110])
  ++ (if (List.length (t_exts m) =? List.length (t_exts i))%nat then [] else [111])
  ++ (if algid_eqb (t_outer m) (t_outer i) then [] else [112]) ++ (if bytes_eqb (t_sig m) (t_sig i) then [] else [113])
  ++ ext_diffs 0 (t_exts m) (t_exts i).

Definition has_manip (c : cert_cfg) : bool :=
  let m := cc_manip c in
  negb (match m_version m with None => true | Some _ => false end && seqb (m_outer_sigalg m) [] && seqb (m_sigvalue m) []
        && seqb (m_tbs_sigalg m) [] && seqb (m_tbs_pkalg m) [] && seqb (m_tbs_pk m) []).

Definition rsa_sig_oid (o : list N) : bool :=
  match o with [1;2;840;113549;1;1;x] => (x =? 5) || (x =? 11) || (x =? 12) || (x =? 13) | _ => false end.
Definition ecdsa_sig_oid (o : list N) : bool :=
  list_eqb N.eqb o [1;2;840;10045;4;1] || list_eqb N.eqb o [1;2;840;10045;4;3;2] || list_eqb N.eqb o [1;2;840;10045;4;3;3]
  || list_eqb N.eqb o [1;2;840;10045;4;3;4].

(* the shape rules of C02 for a manipulation-free certificate, evaluated on the strictly parsed implementation bytes *)
Definition c02_shape (t : tcert) : bool :=
  (t_version t =? 2)%Z && algid_eqb (t_inner t) (t_outer t)
  && (if rsa_sig_oid (al_oid (t_outer t)) then opt_eqb tlv_eqb (al_params (t_outer t)) (Some der_null)
      else if ecdsa_sig_oid (al_oid (t_outer t)) then opt_eqb tlv_eqb (al_params (t_outer t)) None else false)
  && (0 <=? t_serial t)%Z && (List.length (int_content (t_serial t)) <=? 20)%nat.

(* the SubjectPublicKeyInfo algorithm the configured key algorithm demands *)
Definition spki_alg_of_name (name : bytes) : option algid :=
  match effective_keyalg cur_keytab (string_of_list_byte name) with
  | None => None
  | Some k => if is_rsa k then Some (mkAlg [1;2;840;113549;1;1;1] (Some der_null))
              else match curve_oid k with
                   | Some co => match der_oid co with Some t => Some (mkAlg [1;2;840;10045;2;1] (Some t)) | None => None end
                   | None => None
                   end
  end.

Definition check_case (generated_key : bool) (cs : cert_case) : list N :=
  let sha := sha_of (cs_sha cs) in
  let issuer := match cs_issuer cs with
                | Some (s, bits) => match parse_rdn s with Some n => Some (Some (n, bits)) | None => None end
                | None => Some None
                end in
  let model : option (cert_cfg * tcert * bytes) :=
    if negb (files_convert (cs_profile cs) (cs_cfg cs)) then None else
    match effective (cs_profile cs) (cs_cfg cs), issuer with
    | Some c, Some iss =>
      if sig_fits c (cs_signer_key cs) then
        match gen_tcert cur_fx cur_mfx sha c (cs_obs cs) iss with
        | Some t => match cert_der t with Some b => Some (c, t, b) | None => None end
        | None => None
        end
      else None
    | _, _ => None
    end in
  match model, cs_expect cs with
  | None, None => []
  | Some _, None => [1]
  | None, Some _ => [2]
  | Some (c, t, b), Some e =>
    (if bytes_eqb b e then [] else
       3 :: match parse_cert e with
            | Some ti => field_diffs t ti
            | None => []
            end)
    ++ (match parse_cert e with
        | Some ti => (match cert_der ti with Some b2 => if bytes_eqb b2 e then [] else [4] | None => [4] end)
                     ++ (if has_manip c || c02_shape ti then [] else [5])
                     ++ (if generated_key && seqb (m_tbs_pkalg (cc_manip c)) []
                         then match spki_alg_of_name (cc_keyalg c) with
                              | Some a => if algid_eqb a (sp_alg (t_spki ti)) then [] else [6]
                              | None => [6]
                              end
                         else [])
        | None => if has_manip c then [] else [4]
        end)
  end.

Definition run_cases (l : list (bool * cert_case)) : list (nat * list N) :=
  filter (fun p => match snd p with [] => false | _ => true end)
         (combine (seq 0 (List.length l)) (map (fun gc => check_case (fst gc) (snd gc)) l)).
