(* cli/root.go: flag -> strategy mapping, the "nothing to do" exit, the overwrite prompt. *)
From Coq Require Import List Arith NArith Bool.
From Coq.Strings Require Import Byte.
From Gopki.Model Require Import Bytes Base64 Text Dir Plan Run.
Import ListNotations.

Record flags := mkFlags { fl_missing : bool; fl_all : bool; fl_expired : bool; fl_outdated : bool; fl_changed : bool }.
Definition default_flags : flags := mkFlags true false false false true.
Definition strat_of_flags (f : flags) : strat :=
  mkStrat (fl_missing f) (fl_expired f) (fl_outdated f) (fl_changed f) (fl_all f).

(* ToLower on ASCII *)
Definition to_lower (b : byte) : byte :=
  let n := b2n b in if (N.leb 65 n && N.leb n 90)%bool then n2b (n + 32) else b.

(* keyboardInput.ReadString('\n'): Some line (including the newline) or None on EOF before a newline *)
Definition consent (input : option bytes) : bool :=
  match input with
  | None => false
  | Some s => bytes_eqb (map to_lower (trim_space s)) [n2b 121]
  end.

Inductive cli_result := CliNothingToDo | CliOpenError | CliPlanError | CliAborted | CliDone (r : result).

(* is there a certificate already? -> ChangeReplace *)
Definition replaces (es : list ent) (a : alias) : bool :=
  match find_ent es a with
  | Some e => match f_cert (import_file (e_file e)) with Some _ => true | None => false end
  | None => false
  end.

Definition cli_sign (fix_csr fix_nilcert : bool) (d : dir) (f : flags) (input : option bytes) : cli_result * dir * list alias :=
  if negb (is_consistent (d_ents d)) then (CliOpenError, d, []) else
  let s := strat_of_flags f in
  if negb (s_any s) then (CliNothingToDo, d, []) else
  match plan fix_csr (d_ents d) s with
  | None => (CliPlanError, d, [])
  | Some ch =>
    if existsb (replaces (d_ents d)) ch && negb (consent input) then (CliAborted, d, [])
    else let '(r, d', w) := run fix_csr fix_nilcert d s None in (CliDone r, d', w)
  end.
