(* cert.CertificateContext.Sign: the signature step, over abstract signature primitives (C01). *)
From Coq Require Import List NArith ZArith Bool.
From Coq.Strings Require Import Byte.
From Gopki.Model Require Import Bytes Base64 Der Asn1 Text Ext Rdn Time X509 Generate.
Import ListNotations.

Section Crypto.
  Variables privkey pubkey : Type.
  Variable pub : privkey -> pubkey.
  Variable key_is_rsa : privkey -> bool.
  (* signature algorithm = (is RSA scheme, hash id); nonce = the randomness consumed *)
  Variable sig_sign : bool * N -> privkey -> bytes -> N -> bytes.
  Variable sig_verify : bool * N -> pubkey -> bytes -> bytes -> bool.

  Definition with_sig (c : tcert) (s : bytes) : tcert :=
    mkTcert (t_version c) (t_serial c) (t_inner c) (t_issuer c) (t_nb c) (t_na c) (t_subject c) (t_spki c)
            (t_iuid c) (t_suid c) (t_exts c) (t_outer c) s.

  (* Sign(alg): marshal the TBS, check that the issuer key fits the scheme, sign the TBS bytes *)
  Definition sign_cert (c : tcert) (alg : bool * N) (issuer_key : privkey) (nonce : N) : option tcert :=
    match enc_tbs c with
    | None => None
    | Some tbs =>
      if Bool.eqb (fst alg) (key_is_rsa issuer_key)
      then Some (with_sig c (sig_sign alg issuer_key (enc tbs) nonce))
      else None
    end.

  Hypothesis sig_correct : forall alg k m r,
    fst alg = key_is_rsa k -> sig_verify alg (pub k) m (sig_sign alg k m r) = true.

  Lemma enc_tbs_with_sig c s : enc_tbs (with_sig c s) = enc_tbs c.
  Proof. reflexivity. Qed.

  (* C01: the signature in the certificate verifies, under the issuer's public key, over exactly the
     TBSCertificate bytes that are in the certificate *)
  Theorem sign_verifies c alg k nonce c' : sign_cert c alg k nonce = Some c' ->
    exists tbs, enc_tbs c' = Some tbs /\ sig_verify alg (pub k) (enc tbs) (t_sig c') = true /\
                fst alg = key_is_rsa k.
  Proof.
    unfold sign_cert. destruct (enc_tbs c) as [tbs|] eqn:E; [|discriminate].
    destruct (Bool.eqb (fst alg) (key_is_rsa k)) eqn:F; [|discriminate].
    intros H. inversion H; subst. exists tbs. rewrite enc_tbs_with_sig. split; [exact E|].
    apply Bool.eqb_prop in F. split; [apply sig_correct; exact F|exact F].
  Qed.

  (* a signature algorithm that does not fit the signing key's type makes signing fail *)
  Theorem sign_mismatch_fails c alg k nonce : fst alg <> key_is_rsa k -> sign_cert c alg k nonce = None.
  Proof.
    intros H. unfold sign_cert. destruct (enc_tbs c); [|reflexivity].
    destruct (Bool.eqb (fst alg) (key_is_rsa k)) eqn:F; [|reflexivity]. apply Bool.eqb_prop in F. contradiction.
  Qed.
End Crypto.
