(* Which repair switches describe /repo as it is now.  The correspondence check evaluates the model with
   exactly these values, and the property theorems are stated at them, so reverting a repair in the code
   breaks the correspondence and flipping a switch here breaks the theorems that need it. *)
From Gopki.Model Require Import Ext Generate.

Definition cur_fx : fixes := mkFixes true true true true true true.   (* F6 F3 F4 F12 F21 F23 *)
Definition cur_mfx : more_fixes := mkMoreFixes true true true.        (* F1 F10 F18 *)
Definition cur_keytab : bool := true.       (* F2  brainpool 384/512 names map to their own curves *)
Definition cur_validate : bool := true.     (* F7/F8 Validate copies the subject and honours [optional] *)
Definition cur_csr : bool := true.          (* F9  a request counts as key material *)
Definition cur_nilcert : bool := true.      (* F17 issuer without certificate is an error *)
Definition cur_hview : bool := true.        (* F13/F14 pre-image covers until/duration and the extension kind *)
Definition cur_hash_marker : bool := true.  (* F16 stored hash is sliced relative to its marker *)
Definition cur_custom_oid : bool := true.   (* F15 custom OIDs that do not convert are configuration errors *)
