(* DER tag-length-value trees: canonical encoder and strict decoder. *)
From Coq Require Import List NArith Bool.
From Coq.Strings Require Import Byte.
From Gopki.Model Require Import Bytes.
Import ListNotations.
Open Scope N_scope.

Inductive cls := Univ | Appl | Ctx | Priv.

Definition cls_code (c : cls) : N :=
  match c with Univ => 0 | Appl => 1 | Ctx => 2 | Priv => 3 end.
Definition cls_of_code (n : N) : cls :=
  match n with 0 => Univ | 1 => Appl | 2 => Ctx | _ => Priv end.

Inductive tlv :=
| Prim (c : cls) (t : N) (v : bytes)
| Cons (c : cls) (t : N) (k : list tlv).

(* identifier octet, low tag numbers only (tag < 31) *)
Definition ident (c : cls) (constructed : bool) (t : N) : byte :=
  n2b (cls_code c * 64 + (if constructed then 32 else 0) + t).

Definition dec_ident (b : byte) : option (cls * bool * N) :=
  let n := b2n b in
  let t := n mod 32 in
  if t =? 31 then None
  else Some (cls_of_code (n / 64), N.testbit n 5, t).

(* definite length, minimal number of octets *)
Definition enc_len (n : N) : bytes :=
  if n <? 128 then [n2b n]
  else let d := be_digits n in n2b (128 + blen d) :: d.

Definition dec_len (l : bytes) : option (N * bytes) :=
  match l with
  | [] => None
  | b :: r =>
    let n := b2n b in
    if n <? 128 then Some (n, r)
    else if n =? 128 then None               (* indefinite form *)
    else if n =? 255 then None               (* reserved *)
    else match take (N.to_nat (n - 128)) r with
         | None => None
         | Some (ds, rest) =>
           match ds with
           | [] => None
           | d0 :: _ =>
             if b2n d0 =? 0 then None         (* leading zero: not minimal *)
             else let v := be_value ds in
                  if v <? 128 then None       (* short form was required *)
                  else Some (v, rest)
           end
         end
  end.

Fixpoint enc (x : tlv) : bytes :=
  match x with
  | Prim c t v => ident c false t :: enc_len (blen v) ++ v
  | Cons c t k =>
    let body := (fix encs (l : list tlv) : bytes :=
                   match l with [] => [] | y :: r => enc y ++ encs r end) k in
    ident c true t :: enc_len (blen body) ++ body
  end.

Fixpoint encs (l : list tlv) : bytes :=
  match l with [] => [] | y :: r => enc y ++ encs r end.

(* strict decoder; fuel bounds the recursion, [parse] supplies enough *)
Fixpoint dec (fuel : nat) (bs : bytes) {struct fuel} : option (tlv * bytes) :=
  match fuel with
  | O => None
  | S f =>
    match bs with
    | [] => None
    | i :: r =>
      match dec_ident i with
      | None => None
      | Some (c, constructed, t) =>
        match dec_len r with
        | None => None
        | Some (n, r2) =>
          match take_n n r2 with
          | None => None
          | Some (content, rest) =>
            if constructed then
              match dec_many f content with
              | Some k => Some (Cons c t k, rest)
              | None => None
              end
            else Some (Prim c t content, rest)
          end
        end
      end
    end
  end
with dec_many (fuel : nat) (bs : bytes) {struct fuel} : option (list tlv) :=
  match fuel with
  | O => None
  | S f =>
    match bs with
    | [] => Some []
    | _ => match dec f bs with
           | None => None
           | Some (x, r) => match dec_many f r with
                            | Some xs => Some (x :: xs)
                            | None => None
                            end
           end
    end
  end.

Definition parse (bs : bytes) : option (tlv * bytes) := dec (S (2 * length bs)) bs.
Definition parse_all (bs : bytes) : option tlv :=
  match parse bs with Some (t, []) => Some t | _ => None end.

(* well-formedness of trees the encoder is meant for *)
Fixpoint wf (x : tlv) : bool :=
  match x with
  | Prim _ t _ => t <? 31
  | Cons _ t k => (t <? 31) && (fix wfs (l : list tlv) : bool :=
                                  match l with [] => true | y :: r => wf y && wfs r end) k
  end.
Fixpoint wfs (l : list tlv) : bool :=
  match l with [] => true | y :: r => wf y && wfs r end.
