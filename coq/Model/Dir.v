(* Abstract directory state for whole `sign` runs (properties C10-C15, C18, C01 chain part).
   Mirrors generator/db/db.go and generator/db/filesystem/filesystem.go at the level of
   aliases, key identities, hash pre-images and modification-time order. *)
From Coq Require Import List Arith Bool.
Import ListNotations.

Definition alias := nat.
Inductive ktype := EC | RSA.
Definition ktype_eqb (a b : ktype) : bool :=
  match a, b with EC, EC | RSA, RSA => true | _, _ => false end.

Record key := mkKey { k_id : nat; k_typ : ktype }.

(* certificate-relevant part of an effective configuration *)
Record cfg := mkCfg {
  g_issuer : option alias;
  g_subj : nat;            (* subject DN *)
  g_vis : nat;             (* everything else the hash pre-image shows *)
  g_blind : nat;           (* certificate-relevant content the pre-image does not show (F13/F14); 0 when repaired *)
  g_kalg : ktype;
  g_salg : ktype;          (* key type the configured signature algorithm needs *)
  g_valid : bool;          (* profile validation succeeds *)
  g_until_future : bool;   (* configured end of validity lies in the future *)
  g_builds : bool          (* every extension builder succeeds *)
}.

(* the hash pre-image (HashSum's JSON) *)
Record hview := mkHv { h_issuer : option alias; h_subj : nat; h_vis : nat; h_kalg : ktype; h_salg : ktype }.
Definition hview_of (c : cfg) : hview :=
  mkHv (g_issuer c) (g_subj c) (g_vis c) (g_kalg c) (g_salg c).

Definition opt_nat_eqb (a b : option nat) : bool :=
  match a, b with
  | None, None => true
  | Some x, Some y => Nat.eqb x y
  | _, _ => false
  end.
Definition hview_eqb (a b : hview) : bool :=
  opt_nat_eqb (h_issuer a) (h_issuer b) && Nat.eqb (h_subj a) (h_subj b) && Nat.eqb (h_vis a) (h_vis b)
  && ktype_eqb (h_kalg a) (h_kalg b) && ktype_eqb (h_salg a) (h_salg b).

Record certv := mkCert {
  c_subj : nat; c_vis : nat; c_blind : nat;
  c_iss : nat;             (* issuer DN *)
  c_pub : nat;             (* identity of the certified public key *)
  c_signer : nat;          (* identity of the key that signed *)
  c_expired : bool
}.

Record file := mkFile {
  f_hash : option hview; f_cert : option certv; f_key : option key; f_req : option nat; f_mtime : nat
}.

Record ent := mkEnt { e_alias : alias; e_cfg : cfg; e_cfg_mtime : nat; e_file : option file }.

Record dir := mkDir { d_ents : list ent; d_clock : nat; d_nextkey : nat }.

Definition find_ent (es : list ent) (a : alias) : option ent :=
  find (fun e => Nat.eqb (e_alias e) a) es.

Definition issuer_of (e : ent) : option alias := g_issuer (e_cfg e).

Definition roots (es : list ent) : list alias :=
  map e_alias (filter (fun e => match issuer_of e with None => true | Some _ => false end) es).

Definition children (es : list ent) (a : alias) : list alias :=
  map e_alias (filter (fun e => match issuer_of e with Some p => Nat.eqb p a | None => false end) es).

(* importPem: a request is dropped when the file also holds a key *)
Definition import_file (f : option file) : file :=
  match f with
  | None => mkFile None None None None 0
  | Some f => match f_key f, f_req f with
              | Some _, Some _ => mkFile (f_hash f) (f_cert f) (f_key f) None (f_mtime f)
              | _, _ => f
              end
  end.

Definition mtime_of (f : option file) : nat :=
  match f with None => 0 | Some f => f_mtime f end.
