(* Support for the directory-level lockstep correspondence: a history of user operations and runs (with optional
   write faults) is executed on the model at the current repair switches; after every step the observable
   projection of the state is compared with what the real code left on the in-memory file system. *)
From Coq Require Import List Arith Bool.
From Gopki.Model Require Import Bytes Dir Plan Run Ops Cli Current.
From Gopki.Spec Require Import DirInv RegenSpec.
Import ListNotations.

Inductive hstep := U (o : op) | R (s : strat) (f : option (nat * outcome))
  | C (f : flags) (input : option bytes)    (* the command line: flags and what is typed at the prompt (None = end of input) *)
  | CF (f : flags) (k : keep).              (* the command line (answer y) under a file-size limit of the operating system: the first
                                               artifact write is cut after 512 octets - [k] says which parts survive - and fails *)

(* result code, aliases written in order, per entity: alias and flags
   [has hash; has cert; has key; has request; cert matches key; cert chains to issuer's current cert; cert matches request;
    key is the key of the previous state; request is the request of the previous state;
    certificate shows the subject and content of the entity's current configuration] *)
Definition obsT := (nat * list nat * list (nat * list bool))%type.
Definition has {A} (o : option A) : bool := match o with Some _ => true | None => false end.

Definition prev_file (prev : list ent) (a : alias) : option file :=
  match find_ent prev a with Some e => e_file e | None => None end.

Definition flags (prev es : list ent) (e : ent) : list bool :=
  match e_file e with
  | None => []
  | Some f =>
    let mtch := match f_cert f, f_key f with Some c, Some k => Nat.eqb (c_pub c) (k_id k) | _, _ => false end in
    let chain := match f_cert f with Some c => chain_okb es e c | None => false end in
    let mreq := match f_cert f, f_req f with Some c, Some r => Nat.eqb (c_pub c) r | _, _ => false end in
    let pf := prev_file prev (e_alias e) in
    let keysame := match f_key f, pf with
                   | Some k, Some p => match f_key p with Some k' => Nat.eqb (k_id k) (k_id k') | None => false end
                   | _, _ => false
                   end in
    let reqsame := match f_req f, pf with
                   | Some r, Some p => match f_req p with Some r' => Nat.eqb r r' | None => false end
                   | _, _ => false
                   end in
    let refl := match f_cert f with Some c => reflects e c | None => false end in
    [has (f_hash f); has (f_cert f); has (f_key f); has (f_req f); mtch; chain; mreq; keysame; reqsame; refl]
  end.

Definition observe (prev : list ent) (d : dir) : list (nat * list bool) :=
  map (fun e => (e_alias e, flags prev (d_ents d) e)) (d_ents d).

Definition res_code (r : result) : nat := match r with ROk => 1 | RErr => 2 | RPanic => 3 | RDied => 4 end.

(* command-line outcomes: 5 nothing to do (all flags off), 6 directory refused, 7 planning failed, 8 aborted at the prompt, else the run's code *)
Definition cli_code (r : cli_result) : nat :=
  match r with CliNothingToDo => 5 | CliOpenError => 6 | CliPlanError => 7 | CliAborted => 8 | CliDone x => res_code x end.
(* a library run: 6 when the directory itself is refused (FsDb.Open fails), else the run's code *)
Definition run_code (d : dir) (r : result) : nat := if negb (is_consistent (d_ents d)) then 6 else res_code r.
Fixpoint insert_nat (x : nat) (l : list nat) : list nat :=
  match l with [] => [x] | y :: r => if Nat.leb x y then x :: l else y :: insert_nat x r end.
Definition sort_nat (l : list nat) : list nat := fold_right insert_nat [] l.

Definition cli_sign_cut (d : dir) (f : Cli.flags) (k : keep) : cli_result * dir * list alias :=
  if negb (is_consistent (d_ents d)) then (CliOpenError, d, []) else
  let s := strat_of_flags f in
  if negb (s_any s) then (CliNothingToDo, d, []) else
  match plan cur_csr (d_ents d) s with
  | None => (CliPlanError, d, [])
  | Some _ => let '(r, d', w) := run cur_csr cur_nilcert d s (Some (0, Torn k)) in (CliDone r, d', w)
  end.

Fixpoint exec (d : dir) (ss : list hstep) : list obsT :=
  match ss with
  | [] => []
  | U o :: r => let d' := apply_op d o in (0, [], observe (d_ents d) d') :: exec d' r
  | R s f :: r => let '(res, d', w) := run cur_csr cur_nilcert d s f in
                  (run_code d res, w, observe (d_ents d) d') :: exec d' r
  | C f inp :: r => let '(res, d', w) := cli_sign cur_csr cur_nilcert d f inp in
                    (cli_code res, sort_nat w, observe (d_ents d) d') :: exec d' r
  | CF f k :: r => let '(res, d', w) := cli_sign_cut d f k in
                   (cli_code res, sort_nat w, observe (d_ents d) d') :: exec d' r
  end.

Fixpoint lb_eqb (a b : list bool) := match a, b with [], [] => true | x :: a', y :: b' => Bool.eqb x y && lb_eqb a' b' | _, _ => false end.
Fixpoint ln_eqb (a b : list nat) := match a, b with [], [] => true | x :: a', y :: b' => Nat.eqb x y && ln_eqb a' b' | _, _ => false end.
Fixpoint le_eqb (a b : list (nat * list bool)) :=
  match a, b with [], [] => true | (x, f) :: a', (y, g) :: b' => Nat.eqb x y && lb_eqb f g && le_eqb a' b' | _, _ => false end.
Definition obs_eqb (a b : obsT) := let '(r1, w1, e1) := a in let '(r2, w2, e2) := b in Nat.eqb r1 r2 && ln_eqb w1 w2 && le_eqb e1 e2.

(* indices of the steps whose observation differs *)
Fixpoint diff (i : nat) (a b : list obsT) : list nat :=
  match a, b with
  | x :: a', y :: b' => (if obs_eqb x y then [] else [i]) ++ diff (S i) a' b'
  | [], [] => []
  | _, _ => [i]
  end.

Definition empty_dir := mkDir [] 0 0.

(* specification side, evaluated on the model states of the same history: the history invariant after every step, and
   after every successful default run the goal state of C12 *)
Fixpoint spec_trace (d : dir) (ss : list hstep) (i : nat) : list (nat * nat) :=
  match ss with
  | [] => []
  | U o :: r => let d' := apply_op d o in (if dir_inv d' then [] else [(i, 1)]) ++ spec_trace d' r (S i)
  | R s f :: r => let '(res, d', w) := run cur_csr cur_nilcert d s f in
                  (if dir_inv d' then [] else [(i, 1)])
                  ++ (match res, f with
                      | ROk, None => if s_missing s && s_changed s && negb (s_all s) && negb (s_expired s) && negb (s_newer s)
                                     then (if good (d_ents d') then [] else [(i, 2)]) else []
                      | _, _ => []
                      end)
                  ++ spec_trace d' r (S i)
  | C f inp :: r => let '(_, d', _) := cli_sign cur_csr cur_nilcert d f inp in
                    (if dir_inv d' then [] else [(i, 1)]) ++ spec_trace d' r (S i)
  | CF f k :: r => let '(_, d', _) := cli_sign_cut d f k in
                   (if dir_inv d' then [] else [(i, 1)]) ++ spec_trace d' r (S i)
  end.

(* ---- the property statements evaluated directly on what the implementation left behind (no model involved):
   rule 1 (C01) a successful run leaves every entity it wrote with a certificate that chains;
   rule 2 (C10) a run with the same flags (not generate-all) right after a successful fault-free run writes nothing and succeeds;
   rule 3 (C12) after a successful fault-free default run every entity has a certificate and key material, hashed ones chain
                and show the current configuration;
   rule 4 (C14) a fault-free run keeps every key (same key, written certificates match it) and every key-less request
                (same request, no key appears, written certificates carry its key);
   rule 5 (C15) a run whose k-th write fails with an error is not reported as a success (unless it never got to that write) *)
Definition fl (es : list (nat * list bool)) (a : nat) : list bool :=
  match find (fun p => Nat.eqb (fst p) a) es with Some p => snd p | None => [] end.
Definition bit (n : nat) (l : list bool) : bool := nth n l false.
Definition strat_eqb (a b : strat) : bool :=
  Bool.eqb (s_missing a) (s_missing b) && Bool.eqb (s_expired a) (s_expired b) && Bool.eqb (s_newer a) (s_newer b)
  && Bool.eqb (s_changed a) (s_changed b) && Bool.eqb (s_all a) (s_all b).
Definition is_default (s : strat) : bool := strat_eqb s default_strat.

(* the rules of a run with strategy [s] and fault [f], whoever started it (library call or command line) *)
Definition run_rules (prev : option (hstep * obsT)) (s : strat) (f : option (nat * outcome)) (o : obsT) : list nat :=
    let '(res, w, es) := o in
    let pes := match prev with Some (_, (_, _, p)) => p | None => [] end in
    (if Nat.eqb res 1 && negb (forallb (fun a => bit 1 (fl es a) && bit 5 (fl es a)) w) then [1] else [])
    ++ (match prev with
        | Some (R s0 None, (1, _, _)) =>
          if strat_eqb s0 s && negb (s_all s) && negb (has f)
          then (if Nat.eqb res 1 && match w with [] => true | _ => false end then [] else [2])
          else []
        | _ => []
        end)
    ++ (if Nat.eqb res 1 && negb (has f) && is_default s
           && negb (forallb (fun p => let l := snd p in bit 1 l && (bit 2 l || bit 3 l) && (negb (bit 0 l) || (bit 5 l && bit 9 l))) es) then [3] else [])
    ++ (if negb (has f) && negb (forallb (fun p =>
             let a := fst p in let l := snd p in let pl := fl pes a in
             (if bit 2 pl then bit 2 l && bit 7 l && (negb (existsb (Nat.eqb a) w) || bit 4 l) else true)
             && (if bit 3 pl && negb (bit 2 pl) then bit 3 l && bit 8 l && negb (bit 2 l) && (negb (existsb (Nat.eqb a) w) || bit 6 l) else true)) es)
        then [4] else [])
    ++ (match f with
        | Some (k, FailNoWrite) => if Nat.eqb res 1 && Nat.ltb k (length w) then [5] else []
        | _ => []
        end)
    (* rule 8 (C15, C20): whatever the directory holds - torn files included - a run ends with a result, not with a panic *)
    ++ (if Nat.eqb res 3 then [8] else [])
    (* rule 11 (C03): a certificate a successful run has just written shows the subject, serial number, validity and content of
       the entity's current configuration - whether its key was generated, reused or taken from a request *)
    ++ (if Nat.eqb res 1 && negb (has f) && negb (forallb (fun a => bit 9 (fl es a)) w) then [11] else []).

Definition rules_at (prev : option (hstep * obsT)) (st : hstep) (o : obsT) : list nat :=
  match st with
  | U _ => []
  | C f inp =>
    (* rule 6 (C10): the prompt was shown (some entity would be replaced) and the answer is not y: nothing may be written.
       The harness reports code 8 when the tool printed its abort message; independent of that, with an answer other than y no
       entity that already had a certificate may have been written *)
    let '(res, w, es) := o in
    let pes := match prev with Some (_, (_, _, p)) => p | None => [] end in
    (if negb (consent inp) && existsb (fun a => bit 1 (fl pes a)) w then [6] else [])
    (* a command-line run is a run: rules 1, 3, 4 and 8 apply to what it leaves behind (rule 2 is stated for library runs, the
       command line repeats a run only after the prompt) *)
    ++ filter (fun r => negb (Nat.eqb r 2)) (run_rules prev (strat_of_flags f) None o)
  | CF _ _ => let '(res, _, _) := o in if Nat.eqb res 3 then [8] else []
  | R s f => run_rules prev s f o
  end.

Fixpoint impl_rules (prev : option (hstep * obsT)) (ss : list hstep) (os : list obsT) (i : nat) : list (nat * nat) :=
  match ss, os with
  | st :: ss', o :: os' => map (fun r => (i, r)) (rules_at prev st o) ++ impl_rules (Some (st, o)) ss' os' (S i)
  | _, _ => []
  end.

(* rule 7 (C11): the set of entities a successful fault-free run wrote is the set the statement of C11 demands (the relation
   [regen], through its proved-equivalent boolean form) for the flags given and the state the history has reached.  The state is
   the model's; it stands for the implementation's as long as every earlier step left the same observations, so the rule is only
   evaluated up to and including the first step that differs. *)
Definition spec_written (d : dir) (s : strat) : list nat :=
  sort_nat (map e_alias (filter (fun e => regenb (S (length (d_ents d))) (d_ents d) s (e_alias e)) (d_ents d))).

Fixpoint rule7 (d : dir) (ss : list hstep) (os : list obsT) (i : nat) : list (nat * nat) :=
  match ss, os with
  | st :: ss', o :: os' =>
    let '(res, w, _) := o in
    let '(d', mo, sopt) :=
      match st with
      | U op => let d' := apply_op d op in (d', (0, [], observe (d_ents d) d'), None)
      | R s f => let '(r, d', mw) := run cur_csr cur_nilcert d s f in
                 (d', (run_code d r, mw, observe (d_ents d) d'), if has f then None else Some s)
      | C f inp => let '(r, d', mw) := cli_sign cur_csr cur_nilcert d f inp in
                   (d', (cli_code r, sort_nat mw, observe (d_ents d) d'), Some (strat_of_flags f))
      | CF f k => let '(r, d', mw) := cli_sign_cut d f k in
                  (d', (cli_code r, sort_nat mw, observe (d_ents d) d'), None)
      end in
    (match sopt with
     | Some s => if Nat.eqb res 1 && negb (ln_eqb (sort_nat w) (spec_written d s)) then [(i, 7)] else []
     | None => []
     end)
    (* rule 9 (C09): while some entity violates its profile a run is refused before anything is generated;
       rule 10 (C18): a directory whose every entity reaches a root through defined issuers is not refused *)
    ++ (match st with
        | U _ => []
        | _ => (if existsb (fun e => negb (g_valid (e_cfg e))) (d_ents d) && is_consistent (d_ents d)
                   && (Nat.eqb res 1 || match w with [] => false | _ => true end) then [(i, 9)] else [])
               ++ (if is_consistent (d_ents d) && Nat.eqb res 6 then [(i, 10)] else [])
        end)
    ++ (if obs_eqb mo o then rule7 d' ss' os' (S i) else [])
  | _, _ => []
  end.

(* (steps where model and implementation differ, rule violations of the implementation) *)
Definition check_history (c : list hstep * list obsT) : list nat * list (nat * nat) :=
  (diff 0 (exec empty_dir (fst c)) (snd c), impl_rules None (fst c) (snd c) 0 ++ rule7 empty_dir (fst c) (snd c) 0).

Definition run_histories (l : list (list hstep * list obsT)) : list (nat * (list nat * list (nat * nat))) :=
  filter (fun p => match snd p with ([], []) => false | _ => true end)
         (combine (seq 0 (length l)) (map check_history l)).

(* the model's observations for one history, printed into a replay file *)
Definition model_trace (c : list hstep * list obsT) : list obsT := exec empty_dir (fst c).
