(* db.validateAndMerge at the level of whole configurations: profile validation of the subject, inheritance of
   the validity block, merging of the extension lists.  The result is the effective configuration that
   generator.BuildCertBody receives. *)
From Coq Require Import List NArith ZArith Bool String.
From Coq.Strings Require Import Byte.
From Gopki.Model Require Import Bytes Base64 Der Asn1 Text Ext Rdn Time X509 Generate Merge Validate Current.
Import ListNotations.

Fixpoint list_eqb {A} (eqb : A -> A -> bool) (a b : list A) : bool :=
  match a, b with
  | [], [] => true
  | x :: a', y :: b' => eqb x y && list_eqb eqb a' b'
  | _, _ => false
  end.
Definition opt_eqb {A} (eqb : A -> A -> bool) (a b : option A) : bool :=
  match a, b with None, None => true | Some x, Some y => eqb x y | _, _ => false end.
Definition pair_eqb {A B} (ea : A -> A -> bool) (eb : B -> B -> bool) (a b : A * B) : bool :=
  ea (fst a) (fst b) && eb (snd a) (snd b).

(* equality of the JSON images of two extension configurations of the same Go type = equality of their fields *)
Definition un_eqb (a b : user_notice) : bool :=
  seqb (un_org a) (un_org b) && opt_eqb (list_eqb Z.eqb) (un_numbers a) (un_numbers b) && seqb (un_text a) (un_text b).
Definition qual_eqb (a b : qualifier) : bool := seqb (q_cps a) (q_cps b) && opt_eqb un_eqb (q_notice a) (q_notice b).
Definition pol_eqb (a b : policy) : bool := seqb (p_oid a) (p_oid b) && opt_eqb (list_eqb qual_eqb) (p_quals a) (p_quals b).
Definition naming_eqb (a b : naming) : bool := seqb (na_oid a) (na_oid b) && seqb (na_url a) (na_url b) && seqb (na_text a) (na_text b).
Definition pi_eqb (a b : prof_info) : bool :=
  naming_eqb (pi_naming a) (pi_naming b) && list_eqb seqb (pi_items a) (pi_items b) && list_eqb seqb (pi_oids a) (pi_oids b)
  && seqb (pi_regnum a) (pi_regnum b) && seqb (pi_addinfo a) (pi_addinfo b).
Definition adms_eqb (a b : admissions) : bool :=
  pair_eqb seqb seqb (ad_auth a) (ad_auth b) && naming_eqb (ad_naming a) (ad_naming b) && list_eqb pi_eqb (ad_infos a) (ad_infos b).
Definition adm_eqb (a b : admission) : bool := pair_eqb seqb seqb (am_auth a) (am_auth b) && list_eqb adms_eqb (am_list a) (am_list b).

Definition any_ext_eqb (a b : any_ext) : bool :=
  match a, b with
  | XSki r1 c1 t1, XSki r2 c2 t2 => seqb r1 r2 && Bool.eqb c1 c2 && seqb t1 t2
  | XKu r1 c1 t1, XKu r2 c2 t2 => seqb r1 r2 && Bool.eqb c1 c2 && opt_eqb (list_eqb seqb) t1 t2
  | XSan r1 c1 t1, XSan r2 c2 t2 => seqb r1 r2 && Bool.eqb c1 c2 && opt_eqb (list_eqb (pair_eqb seqb seqb)) t1 t2
  | XBc r1 c1 t1, XBc r2 c2 t2 => seqb r1 r2 && Bool.eqb c1 c2 && opt_eqb (pair_eqb Bool.eqb Z.eqb) t1 t2
  | XCp r1 c1 t1, XCp r2 c2 t2 => seqb r1 r2 && Bool.eqb c1 c2 && opt_eqb (list_eqb pol_eqb) t1 t2
  | XAia r1 c1 t1, XAia r2 c2 t2 => seqb r1 r2 && Bool.eqb c1 c2 && opt_eqb (list_eqb seqb) t1 t2
  | XAki r1 c1 t1, XAki r2 c2 t2 => seqb r1 r2 && Bool.eqb c1 c2 && seqb t1 t2
  | XEku r1 c1 t1, XEku r2 c2 t2 => seqb r1 r2 && Bool.eqb c1 c2 && opt_eqb (list_eqb seqb) t1 t2
  | XAdm r1 c1 t1, XAdm r2 c2 t2 => seqb r1 r2 && Bool.eqb c1 c2 && opt_eqb adm_eqb t1 t2
  | XOcsp r1 c1, XOcsp r2 c2 => seqb r1 r2 && Bool.eqb c1 c2
  | XCustom o1 r1 c1, XCustom o2 r2 c2 => seqb o1 o2 && seqb r1 r2 && Bool.eqb c1 c2
  | _, _ => false
  end.

(* Oid(): the arcs an extension configuration answers with *)
Definition any_ext_oid (x : any_ext) : option (list N) :=
  match x with
  | XSki _ _ _ => Some oid_ski | XKu _ _ _ => Some oid_ku | XSan _ _ _ => Some oid_san
  | XBc _ _ _ => Some oid_bc | XCp _ _ _ => Some oid_cp | XAia _ _ _ => Some oid_aia
  | XAki _ _ _ => Some oid_aki | XEku _ _ _ => Some oid_eku | XAdm _ _ _ => Some oid_adm
  | XOcsp _ _ => Some oid_ocsp_nocheck
  | XCustom o _ _ => match oid_from_string o with Some zs => arcs_to_N zs | None => None end
  end.
Definition any_ext_oid_eqb (a b : any_ext) : bool :=
  match any_ext_oid a, any_ext_oid b with
  | Some x, Some y => list_eqb N.eqb x y
  | _, _ => false
  end.

Record profile := mkProfile {
  pr_validity : validity_cfg;
  pr_allow_other : bool;
  pr_attrs : option (list (bytes * bool));      (* attribute name (short name or dotted OID), optional *)
  pr_exts : list (pext any_ext)
}.

Definition validity_is_set (v : validity_cfg) : bool :=
  negb (seqb (v_from v) [] && seqb (v_until v) [] && seqb (v_duration v) []).

Definition resolve_attr (k : bytes) : option (list Z) :=
  match attr_oid k with Some o => Some o | None => oid_from_string k end.

Definition validate_subject (p : profile) (subject : list rdn) : bool :=
  let attrs := match pr_attrs p with
               | None => None
               | Some l => Some (map (fun a => mkPattr (list Z) (resolve_attr (fst a)) (snd a)) l)
               end in
  let types := map r_type subject in
  fst ((if cur_validate then validate_fixed (list Z) (list_eqb Z.eqb) else validate_faithful (list Z) (list_eqb Z.eqb))
         attrs (pr_allow_other p) types).

(* None = the entity is rejected (unparsable subject or profile violation) *)
Definition effective (p : option profile) (c : cert_cfg) : option cert_cfg :=
  match p with
  | None => Some c
  | Some pr =>
    match parse_rdn (cc_subject c) with
    | None => None
    | Some subj =>
      if validate_subject pr subj then
        Some (mkCertCfg (cc_subject c) (cc_serial c) (cc_issuer_uid c) (cc_subject_uid c)
                        (if negb (validity_is_set (cc_validity c)) && validity_is_set (pr_validity pr)
                         then pr_validity pr else cc_validity c)
                        (cc_keyalg c) (cc_sigalg c)
                        (merge any_ext any_ext_oid_eqb any_ext_eqb (pr_exts pr) (cc_exts c))
                        (cc_manip c))
      else None
    end
  end.

(* the v1 conversion refuses a custom extension whose object identifier does not convert (in the certificate file or in the
   profile file) before anything is merged or hashed *)
Definition custom_oids_ok (l : list any_ext) : bool :=
  forallb (fun x => match x with XCustom _ _ _ => match any_ext_oid x with Some _ => true | None => false end | _ => true end) l.

(* both files of an entity pass the conversion: its own configuration and, if it names one, its profile (a profile file that
   is refused is skipped, and the entity then references an unknown profile) *)
Definition files_convert (p : option profile) (c : cert_cfg) : bool :=
  custom_oids_ok (cc_exts c) && match p with Some pr => custom_oids_ok (map (@pe_ext any_ext) (pr_exts pr)) | None => true end.
