(* Extension builders: v1/extensions.go (YAML-level structs) -> cert/extensions.go (DER). Written to what the
   code does; each known defect is behind a switch in [fixes] so that the same definitions serve before and
   after the corresponding repair commit. *)
From Coq Require Import List NArith ZArith Bool String.
From Coq.Strings Require Import Byte.
From Gopki.Model Require Import Bytes Base64 Der Asn1 Text.
Import ListNotations.
Open Scope N_scope.

Record fixes := mkFixes {
  fx_raw : bool;          (* F6  readRawString decodes the whole payload *)
  fx_ku_critical : bool;  (* F3  keyUsage honours the critical flag *)
  fx_ku_bits : bool;      (* F4  keyUsage BIT STRING is a minimal named-bit list *)
  fx_adm_gn : bool;       (* F12 admission authorities keep their GeneralName kind *)
  fx_san_ip : bool;       (* F21 SAN ip octets are range-checked *)
  fx_empty_quals : bool   (* F23 an empty qualifier list emits nothing *)
}.

Definition s_mail := str "mail". Definition s_dns := str "dns". Definition s_ip := str "ip". Definition s_url := str "url".

Section Ext.
  Variable fx : fixes.
  Variable sha1 : bytes -> bytes.

  Definition raw_of (s : bytes) : option bytes := if fx_raw fx then read_raw s else read_raw_faithful s.

  Record ext := mkExt { x_oid : list N; x_crit : bool; x_value : bytes }.

  (* OIDs of cert/extensions.go *)
  Definition oid_ski := [2;5;29;14]. Definition oid_ku := [2;5;29;15]. Definition oid_eku := [2;5;29;37].
  Definition oid_aki := [2;5;29;35]. Definition oid_bc := [2;5;29;19]. Definition oid_san := [2;5;29;17].
  Definition oid_cp := [2;5;29;32]. Definition oid_aia := [1;3;6;1;5;5;7;1;1].
  Definition oid_adm := [1;3;36;8;3;3]. Definition oid_ocsp_nocheck := [1;3;6;1;5;5;7;48;1;5].

  Definition enc_oid_str (s : bytes) : option tlv :=
    match oid_from_string s with
    | Some zs => match arcs_to_N zs with Some ns => der_oid ns | None => None end
    | None => None
    end.

  (* ---- commonExtensionHandler: Some (Some e) = built; Some None = go on with the content; None = error;
     [need_override] is reported as an error at Compile time, i.e. the certificate is not produced *)
  Inductive common := CBuilt (e : ext) | CContent | COverride | CError.

  Definition common_handler (oid : list N) (raw : bytes) (crit : bool) (ct_exists : bool) (ct_binary : option bytes) : common :=
    match raw, ct_exists with
    | [], false => COverride
    | _ :: _, true => CError
    | _ :: _, false => match raw_of raw with Some v => CBuilt (mkExt oid crit v) | None => CError end
    | [], true => match ct_binary with
                  | Some s => match raw_of s with Some v => CBuilt (mkExt oid crit v) | None => CError end
                  | None => CContent
                  end
    end.

  Definition binary_content (s : bytes) : option bytes :=
    match s with [] => None | _ => if has_prefix binary_prefix s then Some s else None end.

  (* ---- GeneralName ---- *)
  Definition parse_ip (checked : bool) (s : bytes) : option bytes :=
    match split 46 s with
    | [a; b; c; d] =>
      match atoi a, atoi b, atoi c, atoi d with
      | Some x, Some y, Some z, Some w =>
        let ok v := (0 <=? v)%Z && (v <=? 255)%Z in
        if checked && negb (ok x && ok y && ok z && ok w) then None
        else Some (map (fun v => n2b (Z.to_N (v mod 256))) [x; y; z; w])
      | _, _, _, _ => None
      end
    | _ => None
    end.

  Definition san_name (ty name : bytes) : option tlv :=
    if seqb ty s_mail then Some (Prim Ctx 1 name)
    else if seqb ty s_dns then Some (Prim Ctx 2 name)
    else if seqb ty s_ip then
      match parse_ip (fx_san_ip fx) name with Some b => Some (Prim Ctx 7 b) | None => None end
    else None.

  (* v1 GeneralName.convert (admission): Some None = absent *)
  Definition adm_name (ty name : bytes) : option (option tlv) :=
    if seqb ty [] then Some None
    else if seqb ty s_ip then
      match parse_ip true name with Some b => Some (Some (Prim Ctx 7 b)) | None => None end
    else if seqb ty s_dns then Some (Some (Prim Ctx 2 name))
    else if seqb ty s_mail then Some (Some (Prim Ctx (if fx_adm_gn fx then 1 else 2) name))
    else if seqb ty s_url then Some (Some (Prim Ctx (if fx_adm_gn fx then 6 else 2) name))
    else None.

  (* ---- key usage ---- *)
  Definition ku_flag (s : bytes) : option N :=
    if seqb s (str "digitalSignature") then Some 128 else if seqb s (str "nonRepudiation") then Some 64
    else if seqb s (str "keyEncipherment") then Some 32 else if seqb s (str "dataEncipherment") then Some 16
    else if seqb s (str "keyAgreement") then Some 8 else if seqb s (str "keyCertSign") then Some 4
    else if seqb s (str "crlSign") then Some 2 else None.

  Fixpoint trailing_zeros (fuel : nat) (n : N) : N :=
    match fuel with
    | O => 0
    | S f => if N.odd n then 0 else 1 + trailing_zeros f (n / 2)
    end.

  Definition ku_tlv (flags : N) : tlv :=
    if fx_ku_bits fx then
      (if flags =? 0 then Prim Univ 3 [n2b 0]
       else Prim Univ 3 [n2b (trailing_zeros 8 flags); n2b flags])
    else der_bits [n2b flags] 7.
  Definition ku_value (flags : N) : bytes := enc (ku_tlv flags).

  Definition build_ku (crit : bool) (content : list bytes) : option ext :=
    match map_opt ku_flag content with
    | None => None
    | Some fl => let flags := fold_left N.lor fl 0 in
                 Some (mkExt oid_ku (if fx_ku_critical fx then crit else true) (ku_value flags))
    end.

  (* ---- the remaining RFC 5280 builders ---- *)
  Definition build_san (crit : bool) (content : list (bytes * bytes)) : option ext :=
    match map_opt (fun tn => san_name (fst tn) (snd tn)) content with
    | Some ns => Some (mkExt oid_san crit (enc (der_seq ns)))
    | None => None
    end.

  Definition build_bc (crit : bool) (ca : bool) (pathlen : Z) : ext :=
    mkExt oid_bc crit (enc (der_seq ((if ca then [der_bool true] else [])
                                       ++ (if (pathlen =? 0)%Z then [] else [der_int pathlen])))).

  Record user_notice := mkUn { un_org : bytes; un_numbers : option (list Z); un_text : bytes }.
  Record qualifier := mkQual { q_cps : bytes; q_notice : option user_notice }.
  Record policy := mkPol { p_oid : bytes; p_quals : option (list qualifier) }.

  Definition oid_qt_cps := [1;3;6;1;5;5;7;2;1]. Definition oid_qt_unotice := [1;3;6;1;5;5;7;2;2].
  Definition tlv_of_oid (o : list N) : tlv := match der_oid o with Some t => t | None => der_null end.

  Definition enc_qualifier (q : qualifier) : option tlv :=
    match q_cps q with
    | _ :: _ => match der_ia5 (q_cps q) with
                | Some s => Some (der_seq [tlv_of_oid oid_qt_cps; s])
                | None => None
                end
    | [] =>
      match q_notice q with
      | None => None
      | Some un =>
        let has_ref := match un_org un, un_numbers un with [], None => false | _, _ => true end in
        let ref := if has_ref
                   then [der_seq [der_utf8 (un_org un);
                                  der_seq (map der_int (match un_numbers un with Some l => l | None => [] end))]]
                   else [] in
        let txt := match un_text un with [] => [] | t => [der_utf8 t] end in
        match ref ++ txt with
        | [] => Some (der_seq [tlv_of_oid oid_qt_unotice])          (* zero struct omitted by `optional` *)
        | body => Some (der_seq [tlv_of_oid oid_qt_unotice; der_seq body])
        end
      end
    end.

  Definition enc_policy (p : policy) : option tlv :=
    match enc_oid_str (p_oid p) with
    | None => None
    | Some o =>
      match p_quals p with
      | None => Some (der_seq [o])
      | Some qs => match map_opt enc_qualifier qs with
                   | None => None
                   | Some [] => if fx_empty_quals fx then Some (der_seq [o]) else Some (der_seq [o; der_seq []])
                   | Some l => Some (der_seq [o; der_seq l])
                   end
      end
    end.

  Definition build_cp (crit : bool) (content : list policy) : option ext :=
    match map_opt enc_policy content with
    | Some ps => Some (mkExt oid_cp crit (enc (der_seq ps)))
    | None => None
    end.

  Definition oid_ad_ocsp := [1;3;6;1;5;5;7;48;1].
  Definition build_aia (crit : bool) (content : list bytes) : option ext :=
    match map_opt (fun u => match u with [] => None | _ => Some (der_seq [tlv_of_oid oid_ad_ocsp; Prim Ctx 6 u]) end) content with
    | Some ads => Some (mkExt oid_aia crit (enc (der_seq ads)))
    | None => None
    end.

  Definition eku_name (s : bytes) : option (list N) :=
    let kp := [1;3;6;1;5;5;7;3] in
    if seqb s (str "serverAuth") then Some (kp ++ [1]) else if seqb s (str "clientAuth") then Some (kp ++ [2])
    else if seqb s (str "codeSigning") then Some (kp ++ [3]) else if seqb s (str "emailProtection") then Some (kp ++ [4])
    else if seqb s (str "timeStamping") then Some (kp ++ [8]) else if seqb s (str "OCSPSigning") then Some (kp ++ [9])
    else None.
  Definition build_eku (crit : bool) (content : list bytes) : option ext :=
    match map_opt (fun s => match eku_name s with Some o => der_oid o | None => enc_oid_str s end) content with
    | Some us => Some (mkExt oid_eku crit (enc (der_seq us)))
    | None => None
    end.

  Definition build_ski_hash (crit : bool) (spki_bits : bytes) : ext :=
    mkExt oid_ski crit (enc (der_octets (sha1 spki_bits))).
  Definition build_aki_hash (crit : bool) (issuer_bits : bytes) : ext :=
    mkExt oid_aki crit (enc (der_seq [Prim Ctx 0 (sha1 issuer_bits)])).
  Definition build_aki_id (crit : bool) (id : bytes) : ext :=
    mkExt oid_aki crit (enc (der_seq (match id with [] => [] | _ => [Prim Ctx 0 id] end))).
  Definition build_ocsp_nocheck (crit : bool) : ext := mkExt oid_ocsp_nocheck crit [n2b 5; n2b 0].

  (* ---- admission (CommonPKI) ---- *)
  Record naming := mkNaming { na_oid : bytes; na_url : bytes; na_text : bytes }.
  Record prof_info := mkPi { pi_naming : naming; pi_items : list bytes; pi_oids : list bytes;
                             pi_regnum : bytes; pi_addinfo : bytes }.
  Record admissions := mkAdms { ad_auth : bytes * bytes; ad_naming : naming; ad_infos : list prof_info }.
  Record admission := mkAdm { am_auth : bytes * bytes; am_list : list admissions }.

  Definition enc_naming (tag : N) (n : naming) : option (list tlv) :=
    match na_oid n, na_url n, na_text n with
    | [], [], [] => Some []
    | _, _, _ =>
      match (match na_oid n with [] => Some [] | o => match enc_oid_str o with Some t => Some [t] | None => None end end),
            (match na_url n with [] => Some [] | u => match der_ia5 u with Some t => Some [t] | None => None end end) with
      | Some a, Some b =>
        Some [der_explicit tag (der_seq (a ++ b ++ match na_text n with [] => [] | t => [der_utf8 t] end))]
      | _, _ => None
      end
    end.

  Definition enc_prof_info (p : prof_info) : option tlv :=
    match enc_naming 0 (pi_naming p), map_opt enc_oid_str (pi_oids p),
          (match pi_regnum p with [] => Some [] | r => match der_printable r with Some t => Some [t] | None => None end end),
          (match pi_addinfo p with [] => Some [] | a => match raw_of a with
                                                       | Some [] => Some []
                                                       | Some b => Some [der_octets b]
                                                       | None => None end end) with
    | Some na, Some oids, Some rn, Some ai =>
      Some (der_seq (na ++ (match pi_items p with [] => [] | its => [der_seq (map der_utf8 its)] end)
                        ++ (match oids with [] => [] | _ => [der_seq oids] end) ++ rn ++ ai))
    | _, _, _, _ => None
    end.

  Definition enc_admissions (a : admissions) : option tlv :=
    match adm_name (fst (ad_auth a)) (snd (ad_auth a)), enc_naming 1 (ad_naming a), map_opt enc_prof_info (ad_infos a) with
    | Some g, Some na, Some pis =>
      Some (der_seq ((match g with Some t => [der_explicit 0 t] | None => [] end) ++ na
                       ++ (match pis with [] => [] | _ => [der_seq pis] end)))
    | _, _, _ => None
    end.

  Definition build_admission (crit : bool) (a : admission) : option ext :=
    match adm_name (fst (am_auth a)) (snd (am_auth a)), map_opt enc_admissions (am_list a) with
    | Some g, Some l =>
      Some (mkExt oid_adm crit (enc (der_seq ((match g with Some t => [t] | None => [] end) ++ [der_seq l]))))
    | _, _ => None
    end.

  (* ---- AnyExtension: what the YAML gives ---- *)
  Inductive any_ext :=
  | XSki (raw : bytes) (crit : bool) (content : bytes)
  | XKu (raw : bytes) (crit : bool) (content : option (list bytes))
  | XSan (raw : bytes) (crit : bool) (content : option (list (bytes * bytes)))
  | XBc (raw : bytes) (crit : bool) (content : option (bool * Z))
  | XCp (raw : bytes) (crit : bool) (content : option (list policy))
  | XAia (raw : bytes) (crit : bool) (content : option (list bytes))
  | XAki (raw : bytes) (crit : bool) (id : bytes)
  | XEku (raw : bytes) (crit : bool) (content : option (list bytes))
  | XAdm (raw : bytes) (crit : bool) (content : option admission)
  | XOcsp (raw : bytes) (crit : bool)
  | XCustom (oid : bytes) (raw : bytes) (crit : bool).

  Definition is_some {A} (o : option A) : bool := match o with Some _ => true | None => false end.

  (* Builder() followed by Compile(): None = the certificate is not produced *)
  Definition build_ext (x : any_ext) (spki_bits issuer_bits : bytes) : option ext :=
    let go oid raw crit ct_exists ct_bin (k : unit -> option ext) :=
        match common_handler oid raw crit ct_exists ct_bin with
        | CBuilt e => Some e
        | CContent => k tt
        | COverride | CError => None
        end in
    match x with
    | XSki raw crit ct =>
      go oid_ski raw crit (negb (seqb ct [])) (binary_content ct)
         (fun _ => if seqb ct (str "hash") then Some (build_ski_hash crit spki_bits) else None)
    | XKu raw crit ct => go oid_ku raw crit (is_some ct) None (fun _ => match ct with Some l => build_ku crit l | None => None end)
    | XSan raw crit ct => go oid_san raw crit (is_some ct) None (fun _ => match ct with Some l => build_san crit l | None => None end)
    | XBc raw crit ct => go oid_bc raw crit (is_some ct) None (fun _ => match ct with Some (ca, pl) => Some (build_bc crit ca pl) | None => None end)
    | XCp raw crit ct => go oid_cp raw crit (is_some ct) None (fun _ => match ct with Some l => build_cp crit l | None => None end)
    | XAia raw crit ct => go oid_aia raw crit (is_some ct) None (fun _ => match ct with Some l => build_aia crit l | None => None end)
    | XAki raw crit id =>
      go oid_aki raw crit (negb (seqb id [])) None
         (fun _ => if seqb id (str "hash") then Some (build_aki_hash crit issuer_bits)
                   else if has_prefix binary_prefix id then
                          match raw_of id with Some b => Some (build_aki_id crit b) | None => None end
                        else None)
    | XEku raw crit ct => go oid_eku raw crit (is_some ct) None (fun _ => match ct with Some l => build_eku crit l | None => None end)
    | XAdm raw crit ct => go oid_adm raw crit (is_some ct) None (fun _ => match ct with Some a => build_admission crit a | None => None end)
    | XOcsp raw crit =>
      match raw with
      | [] => Some (build_ocsp_nocheck crit)
      | _ => match raw_of raw with Some v => Some (mkExt oid_ocsp_nocheck crit v) | None => None end
      end
    | XCustom o raw crit =>
      match oid_from_string o with
      | None => None                      (* Oid() panics in the code as written (F15); modelled in Glue.v *)
      | Some zs => match arcs_to_N zs with
                   | None => None
                   | Some ns => go ns raw crit false None (fun _ => None)
                   end
      end
    end.

  (* pkix.Extension inside the certificate *)
  Definition enc_ext (e : ext) : option tlv :=
    match der_oid (x_oid e) with
    | Some o => Some (der_seq ([o] ++ (if x_crit e then [der_bool true] else []) ++ [der_octets (x_value e)]))
    | None => None
    end.
End Ext.
