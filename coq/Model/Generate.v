(* generator.BuildCertBody + cert.Sign + generator.SignCertBody: configuration -> certificate bytes.
   Random material (serial, key, signature) and the clock are inputs. *)
From Coq Require Import List NArith ZArith Bool String.
From Coq.Strings Require Import Byte.
From Gopki.Model Require Import Bytes Base64 Der Asn1 Text Ext Rdn Time X509.
Import ListNotations.
Open Scope N_scope.

Record manip := mkManip {
  m_version : option Z;
  m_outer_sigalg : bytes;       (* dotted OID or "" *)
  m_sigvalue : bytes;           (* raw string or "" *)
  m_tbs_sigalg : bytes;
  m_tbs_pkalg : bytes;
  m_tbs_pk : bytes
}.

Record cert_cfg := mkCertCfg {
  cc_subject : bytes;
  cc_serial : Z;
  cc_issuer_uid : bytes;
  cc_subject_uid : bytes;
  cc_validity : validity_cfg;
  cc_keyalg : bytes;
  cc_sigalg : bytes;
  cc_exts : list any_ext;
  cc_manip : manip
}.

Record more_fixes := mkMoreFixes {
  fx_date : bool;      (* F1  YYYY-MM-DD *)
  fx_rsa_null : bool;  (* F10 RSA AlgorithmIdentifiers carry NULL parameters *)
  fx_manip_err : bool  (* F18 a manipulation value that does not convert is an error *)
}.

Section Generate.
  Variable fx : fixes.
  Variable mfx : more_fixes.
  Variable sha1 : bytes -> bytes.

  Definition sig_oid (name : bytes) : option (list N * bool (* RSA? *)) :=
    let rsa x := Some ([1;2;840;113549;1;1;x], true) in
    if seqb name (str "RSAwithSHA1") then rsa 5 else if seqb name (str "RSAwithSHA256") then rsa 11
    else if seqb name (str "RSAwithSHA384") then rsa 12 else if seqb name (str "RSAwithSHA512") then rsa 13
    else if seqb name (str "ECDSAwithSHA1") then Some ([1;2;840;10045;4;1], false)
    else if seqb name (str "ECDSAwithSHA256") then Some ([1;2;840;10045;4;3;2], false)
    else if seqb name (str "ECDSAwithSHA384") then Some ([1;2;840;10045;4;3;3], false)
    else if seqb name (str "ECDSAwithSHA512") then Some ([1;2;840;10045;4;3;4], false)
    else None.

  (* default signature algorithm: by the textual prefix "RSA" of the configured key algorithm *)
  Definition effective_sigalg (c : cert_cfg) : bytes :=
    match cc_sigalg c with
    | [] => if has_prefix (str "RSA") (cc_keyalg c) then str "RSAwithSHA256" else str "ECDSAwithSHA256"
    | s => s
    end.

  Definition mk_algid (o : list N) (rsa : bool) : algid :=
    mkAlg o (if rsa && fx_rsa_null mfx then Some der_null else None).

  (* a manipulation OID: Some None = keep the default; a value that does not convert is dropped silently
     as written and is an error when repaired (F18) *)
  Definition manip_oid (s : bytes) : option (option algid) :=
    match s with
    | [] => Some None
    | _ => match oid_from_string s with
           | Some zs => match arcs_to_N zs with
                        | Some ns => Some (Some (mkAlg ns None))
                        | None => None
                        end
           | None => if fx_manip_err mfx then None else Some None
           end
    end.

  Record observed := mkObs {
    ob_serial : Z;            (* the random serial drawn by NewCertificateContext *)
    ob_spki : spki;           (* SubjectPublicKeyInfo of the key in use (generated, reused or from the request) *)
    ob_signature : bytes;
    ob_now_local : wall;      (* time.Now() at parse time, local wall clock *)
    ob_off_from : Z;          (* zone offsets (seconds east) of the two local times *)
    ob_off_until : Z
  }.

  Definition uid_field (s : bytes) : option (option bytes) :=
    match s with
    | [] => Some None
    | _ => match raw_of fx s with Some b => Some (Some b) | None => None end
    end.

  Definition or_default {A} (o : option A) (d : A) : A := match o with Some x => x | None => d end.

  (* the typed certificate; [issuer] = (DN, public key bits) taken from the issuer's stored certificate,
     None for a self-signed entity *)
  Definition gen_tcert (c : cert_cfg) (o : observed) (issuer : option (list rdn * bytes)) : option tcert :=
    let m := cc_manip c in
    if (cc_serial c <? 0)%Z || (9223372036854775807 <? cc_serial c)%Z then None else      (* a negative configured serial, or one the configuration's int64 cannot hold, is a configuration error *)
    match parse_rdn (cc_subject c), to_time_struct (negb (fx_date mfx)) (cc_validity c) (ob_now_local o),
          sig_oid (effective_sigalg c) with
    | Some subj, Some val, Some (so, rsa) =>
      let dflt := mk_algid so rsa in
      let pk_bits := match m_tbs_pk m with [] => Some (sp_bits (ob_spki o)) | s => raw_of fx s end in
      match pk_bits, uid_field (cc_issuer_uid c), uid_field (cc_subject_uid c),
            manip_oid (m_tbs_sigalg m), manip_oid (m_outer_sigalg m), manip_oid (m_tbs_pkalg m),
            (match m_sigvalue m with [] => Some (ob_signature o) | s => raw_of fx s end) with
      | Some bits, Some iuid, Some suid, Some inner, Some outer, Some pkalg, Some sigv =>
        let issuer_bits := match issuer with Some (_, b) => b | None => bits end in
        match map_opt (fun x => build_ext fx sha1 x bits issuer_bits) (cc_exts c) with
        | None => None
        | Some exts =>
          (* a date before the year 0 (a local date 0000-01-01 east of Greenwich) cannot be written as GeneralizedTime *)
          if ((w_y (to_utc (vl_from val) (ob_off_from o)) <? 0) || (w_y (to_utc (vl_until val) (ob_off_until o)) <? 0))%Z then None else
          Some (mkTcert (or_default (m_version m) 2%Z)
                        (if (cc_serial c =? 0)%Z then ob_serial o else cc_serial c)
                        (or_default inner dflt)
                        (match issuer with Some (n, _) => n | None => subj end)
                        (civil_of_wall (to_utc (vl_from val) (ob_off_from o)))
                        (civil_of_wall (to_utc (vl_until val) (ob_off_until o)))
                        subj
                        (mkSpki (or_default pkalg (sp_alg (ob_spki o))) bits)
                        iuid suid exts
                        (or_default outer dflt)
                        sigv)
        end
      | _, _, _, _, _, _, _ => None
      end
    | _, _, _ => None
    end.

  Definition cert_bytes (c : cert_cfg) (o : observed) (issuer : option (list rdn * bytes)) : option bytes :=
    match gen_tcert c o issuer with Some t => cert_der t | None => None end.
End Generate.
