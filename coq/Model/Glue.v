(* Go run-time behaviour of the glue code where a panic can originate (C20): slice expressions, the explicit
   panic in CustomExtension.Oid, the issuer certificate dereference (the latter is in Run.v as RPanic). *)
From Coq Require Import List Arith NArith Bool.
From Coq.Strings Require Import Byte.
From Gopki.Model Require Import Bytes Base64 Text.
Import ListNotations.

Inductive outcome (A : Type) := GOk (a : A) | GErr | GPanic.
Arguments GOk {A} a. Arguments GErr {A}. Arguments GPanic {A}.

(* s[lo:hi] on a byte slice: panics unless lo <= hi <= len *)
Definition go_slice (s : bytes) (lo hi : nat) : outcome bytes :=
  if Nat.leb lo hi && Nat.leb hi (length s) then GOk (firstn (hi - lo) (skipn lo s)) else GPanic.

(* bytes.Index *)
Fixpoint index_of (needle hay : bytes) (i : nat) : option nat :=
  match hay with
  | [] => match needle with [] => Some i | _ => None end
  | _ :: r => if has_prefix needle hay then Some i else index_of needle r (S i)
  end.

Fixpoint index_byte (c : N) (s : bytes) (i : nat) : option nat :=
  match s with
  | [] => None
  | b :: r => if N.eqb (b2n b) c then Some i else index_byte c r (S i)
  end.

Definition hash_prefix : bytes := map n2b [35; 72; 65; 83; 72; 58]%N.   (* "#HASH:" *)

(* filesystem.go importCertConfigFile: the stored configuration hash; [fixed] = F16 repaired.
   Result: the base64 text between the marker and the end of its line, or nothing *)
Definition stored_hash_text (fixed : bool) (content : bytes) : outcome (option bytes) :=
  match index_of hash_prefix content 0 with
  | None => GOk None
  | Some hash_ix =>
    match index_byte 10 (skipn hash_ix content) 0 with
    | None => GOk None
    | Some rel_end =>
      let hash_end := if fixed then Nat.add hash_ix rel_end else rel_end in
      match go_slice content (Nat.add hash_ix (length hash_prefix)) hash_end with
      | GOk t => GOk (Some t)
      | GErr => GErr
      | GPanic => GPanic
      end
    end
  end.

(* v1.CustomExtension.Oid(): panics when the OID string does not convert (F15);
   repaired: such a config is rejected by parseExtensions, Oid() is never reached *)
Definition custom_oid (fixed : bool) (s : bytes) : outcome (list Z) :=
  match oid_from_string s with
  | Some o => GOk o
  | None => if fixed then GErr else GPanic
  end.
