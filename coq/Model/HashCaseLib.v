(* Support for the change-detection correspondence (C13): the parsed content of an effective configuration, equality of
   hash pre-images, and the comparison of configuration pairs with what config.CertificateContent.HashSum said. *)
From Coq Require Import List NArith ZArith Bool String.
From Coq.Strings Require Import Byte.
From Gopki.Model Require Import Bytes Base64 Der Asn1 Text Algs Ext Rdn Time X509 Generate Merge Validate Current Effective HashView.
Import ListNotations.
Open Scope N_scope.

Definition index_of_name (names : list string) (s : bytes) : N :=
  (fix go (l : list string) (i : N) : N :=
     match l with
     | [] => 255
     | n :: r => if bytes_eqb (list_byte_of_string n) s then i else go r (i + 1)
     end) names 0.

Definition parse_manip (m : manip) : option pmanip :=
  let oid s := match s with [] => Some None | _ => match oid_from_string s with Some o => Some (Some o) | None => None end end in
  let raw s := match s with [] => Some None | _ => match raw_of cur_fx s with Some b => Some (Some b) | None => None end end in
  match oid (m_outer_sigalg m), raw (m_sigvalue m), oid (m_tbs_sigalg m), oid (m_tbs_pkalg m), raw (m_tbs_pk m) with
  | Some a, Some b, Some c, Some d, Some e => Some (mkPm (m_version m) a b c d e)
  | _, _, _, _, _ => None
  end.

(* v1 initCertificate followed by the profile merge: what config.CertificateContent holds when HashSum is called *)
Definition content_of (alias profile_name issuer : bytes) (p : option Effective.profile) (c : cert_cfg) (now : wall) : option content :=
  if negb (files_convert p c) then None else
  match effective p c with
  | None => None
  | Some e =>
    if (cc_serial e <? 0)%Z || (9223372036854775807 <? cc_serial e)%Z then None else
    match parse_rdn (cc_subject e), to_time_struct (negb (fx_date cur_mfx)) (cc_validity e) now,
          uid_field cur_fx (cc_issuer_uid e), uid_field cur_fx (cc_subject_uid e), parse_manip (cc_manip e) with
    | Some subj, Some v, Some iu, Some su, Some pm =>
      Some (mkContent alias profile_name (cc_serial e) iu su subj issuer
                      (vl_from v) (vl_until v) (vl_is_static v) (vl_is_set v)
                      (negb (seqb (v_until (cc_validity e)) [])) (v_duration (cc_validity e))
                      (match cc_keyalg e with [] => index_of_name key_names (list_byte_of_string "P-256") | k => index_of_name key_names k end)
                      (index_of_name sig_names (effective_sigalg e))
                      (cc_exts e) pm)
    | _, _, _, _, _ => None
    end
  end.

Definition wall_eqb (a b : wall) : bool := (w_y a =? w_y b)%Z && (w_m a =? w_m b)%Z && (w_d a =? w_d b)%Z && (w_sod a =? w_sod b)%Z.
Definition rdn_eqb (a b : rdn) : bool :=
  list_eqb Z.eqb (r_type a) (r_type b)
  && match r_value a, r_value b with AvString x, AvString y => bytes_eqb x y | AvRaw x, AvRaw y => bytes_eqb x y | _, _ => false end.
Definition cimg_eqb (a b : cimg) : bool :=
  match a, b with
  | CNull, CNull | CNone, CNone => true
  | CStr x, CStr y => bytes_eqb x y
  | CStrList x, CStrList y => list_eqb bytes_eqb x y
  | CNames x, CNames y => list_eqb (pair_eqb bytes_eqb bytes_eqb) x y
  | CBc c1 p1, CBc c2 p2 => Bool.eqb c1 c2 && (p1 =? p2)%Z
  | CCp x, CCp y => list_eqb pol_eqb x y
  | CAia x, CAia y => list_eqb bytes_eqb x y
  | CAkiId x, CAkiId y => bytes_eqb x y
  | CAdm x, CAdm y => adm_eqb x y
  | _, _ => false
  end.
Definition ext_oid_eqb (a b : ext_oid) : bool :=
  match a, b with
  | OBuiltin x, OBuiltin y => list_eqb N.eqb x y
  | OCustom x, OCustom y => bytes_eqb x y
  | _, _ => false
  end.
Definition img_eqb (a b : ext_img) : bool :=
  opt_eqb bytes_eqb (i_oid_field a) (i_oid_field b) && bytes_eqb (i_raw a) (i_raw b) && Bool.eqb (i_crit a) (i_crit b)
  && cimg_eqb (i_content a) (i_content b).
Definition pm_eqb (a b : pmanip) : bool :=
  opt_eqb Z.eqb (pm_version a) (pm_version b) && opt_eqb (list_eqb Z.eqb) (pm_outer a) (pm_outer b) && opt_eqb bytes_eqb (pm_sig a) (pm_sig b)
  && opt_eqb (list_eqb Z.eqb) (pm_inner a) (pm_inner b) && opt_eqb (list_eqb Z.eqb) (pm_pkalg a) (pm_pkalg b) && opt_eqb bytes_eqb (pm_pk a) (pm_pk b).
Definition hpre_eqb (a b : hpre) : bool :=
  (hp_serial a =? hp_serial b)%Z && opt_eqb bytes_eqb (hp_iuid a) (hp_iuid b) && opt_eqb bytes_eqb (hp_suid a) (hp_suid b)
  && list_eqb rdn_eqb (hp_subject a) (hp_subject b) && bytes_eqb (hp_issuer a) (hp_issuer b)
  && wall_eqb (hp_from a) (hp_from b) && wall_eqb (hp_until a) (hp_until b) && Bool.eqb (hp_is_static a) (hp_is_static b)
  && Bool.eqb (hp_is_set a) (hp_is_set b) && Bool.eqb (hp_until_static a) (hp_until_static b) && bytes_eqb (hp_duration a) (hp_duration b)
  && (hp_keyalg a =? hp_keyalg b) && (hp_sigalg a =? hp_sigalg b)
  && list_eqb (pair_eqb (opt_eqb ext_oid_eqb) img_eqb) (hp_exts a) (hp_exts b)
  && pm_eqb (hp_manip a) (hp_manip b).

(* one side of a pair: names, optional profile, configuration, the local wall clock when it was parsed *)
Record hside := mkHside { hs_alias : bytes; hs_profile_name : bytes; hs_issuer : bytes; hs_profile : option Effective.profile; hs_cfg : cert_cfg; hs_now : wall }.
Record hash_pair := mkHashPair {
  hp_a : hside; hp_b : hside;
  hp_relevant : bool;          (* the generator made an edit that changes the certificate that gets generated *)
  hp_impl_equal : option bool  (* HashSum of both sides equal; None = one side did not parse / validate *)
}.
Definition side_view (s : hside) : option hpre :=
  match content_of (hs_alias s) (hs_profile_name s) (hs_issuer s) (hs_profile s) (hs_cfg s) (hs_now s) with
  | Some c => Some (hview cur_hview c)
  | None => None
  end.
(* codes: 1 model and implementation disagree on equality of the two hashes; 2 the implementation's hashes are equal although the
   edit changes the certificate (C13 sensitivity); 3 they differ although nothing certificate-relevant differs (C13 stability);
   4 one side is rejected by exactly one of model / implementation *)
Definition check_pair (p : hash_pair) : list N :=
  match side_view (hp_a p), side_view (hp_b p), hp_impl_equal p with
  | Some va, Some vb, Some ie =>
    (if Bool.eqb (hpre_eqb va vb) ie then [] else [1])
    ++ (if hp_relevant p && ie then [2] else []) ++ (if negb (hp_relevant p) && negb ie then [3] else [])
  | None, _, None | _, None, None => []
  | _, _, _ => [4]
  end.
Definition run_pairs (l : list hash_pair) : list (nat * list N) :=
  filter (fun p => match snd p with [] => false | _ => true end) (combine (seq 0 (List.length l)) (map check_pair l)).
