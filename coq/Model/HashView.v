(* config.CertificateContent.HashSum: what the stored configuration hash depends on (its JSON pre-image),
   as written and as repaired (F13, F14). encoding/json is taken to be injective on a fixed Go type, so the
   pre-image is modelled as the structured value it serialises. *)
From Coq Require Import List NArith ZArith Bool.
From Coq.Strings Require Import Byte.
From Gopki.Model Require Import Bytes Base64 Der Asn1 Text Ext Rdn Time.
Import ListNotations.

(* what the JSON of an extension config shows of its content: typed by JSON *shape*, not by extension kind *)
Inductive cimg :=
| CNull | CNone
| CStr (s : bytes) | CStrList (l : list bytes) | CNames (l : list (bytes * bytes)) | CBc (ca : bool) (pl : Z)
| CCp (l : list policy) | CAia (l : list bytes) | CAkiId (id : bytes) | CAdm (a : admission).

Definition opt_img {A} (f : A -> cimg) (o : option A) : cimg := match o with Some x => f x | None => CNull end.

Record ext_img := mkImg { i_oid_field : option bytes; i_raw : bytes; i_crit : bool; i_content : cimg }.

Definition ext_image (x : any_ext) : ext_img :=
  match x with
  | XSki raw crit ct => mkImg None raw crit (CStr ct)
  | XKu raw crit ct => mkImg None raw crit (opt_img CStrList ct)
  | XSan raw crit ct => mkImg None raw crit (opt_img CNames ct)
  | XBc raw crit ct => mkImg None raw crit (opt_img (fun p => CBc (fst p) (snd p)) ct)
  | XCp raw crit ct => mkImg None raw crit (opt_img CCp ct)
  | XAia raw crit ct => mkImg None raw crit (opt_img CAia ct)
  | XAki raw crit id => mkImg None raw crit (CAkiId id)
  | XEku raw crit ct => mkImg None raw crit (opt_img CStrList ct)
  | XAdm raw crit ct => mkImg None raw crit (opt_img CAdm ct)
  | XOcsp raw crit => mkImg None raw crit CNone
  | XCustom o raw crit => mkImg (Some o) raw crit CNone
  end.

(* the OID an extension config answers with (Oid()); for custom extensions the configured string *)
Inductive ext_oid := OBuiltin (o : list N) | OCustom (s : bytes).
Definition ext_oid_of (x : any_ext) : ext_oid :=
  match x with
  | XSki _ _ _ => OBuiltin oid_ski | XKu _ _ _ => OBuiltin oid_ku | XSan _ _ _ => OBuiltin oid_san
  | XBc _ _ _ => OBuiltin oid_bc | XCp _ _ _ => OBuiltin oid_cp | XAia _ _ _ => OBuiltin oid_aia
  | XAki _ _ _ => OBuiltin oid_aki | XEku _ _ _ => OBuiltin oid_eku | XAdm _ _ _ => OBuiltin oid_adm
  | XOcsp _ _ => OBuiltin oid_ocsp_nocheck | XCustom o _ _ => OCustom o
  end.

(* parsed manipulations *)
Record pmanip := mkPm { pm_version : option Z; pm_outer : option (list Z); pm_sig : option bytes;
                        pm_inner : option (list Z); pm_pkalg : option (list Z); pm_pk : option bytes }.

(* config.CertificateContent *)
Record content := mkContent {
  ct_alias : bytes; ct_profile : bytes;
  ct_serial : Z; ct_iuid : option bytes; ct_suid : option bytes;
  ct_subject : list rdn; ct_issuer : bytes;
  ct_from : wall; ct_until : wall; ct_is_static : bool; ct_is_set : bool;
  ct_until_static : bool; ct_duration : bytes;      (* the two fields the F13 repair adds *)
  ct_keyalg : N; ct_sigalg : N;
  ct_exts : list any_ext;
  ct_manip : pmanip
}.

Definition zero_wall : wall := mkWall 1 1 1 0.

(* the hash pre-image *)
Record hpre := mkHpre {
  hp_serial : Z; hp_iuid : option bytes; hp_suid : option bytes; hp_subject : list rdn; hp_issuer : bytes;
  hp_from : wall; hp_until : wall; hp_is_static : bool; hp_is_set : bool; hp_until_static : bool; hp_duration : bytes;
  hp_keyalg : N; hp_sigalg : N;
  hp_exts : list (option ext_oid * ext_img);
  hp_manip : pmanip
}.

Definition hview (fixed : bool) (c : content) : hpre :=
  let '(frm, unt) :=
    if fixed then
      (if negb (ct_is_set c) then (zero_wall, zero_wall)
       else if negb (ct_is_static c) then (zero_wall, if ct_until_static c then ct_until c else zero_wall)
       else (ct_from c, ct_until c))
    else
      (if negb (ct_is_static c) || negb (ct_is_set c) then (zero_wall, zero_wall) else (ct_from c, ct_until c)) in
  mkHpre (ct_serial c) (ct_iuid c) (ct_suid c) (ct_subject c) (ct_issuer c)
         frm unt (ct_is_static c) (ct_is_set c)
         (if fixed then ct_until_static c else false) (if fixed then ct_duration c else [])
         (ct_keyalg c) (ct_sigalg c)
         (map (fun x => (if fixed then Some (ext_oid_of x) else None, ext_image x)) (ct_exts c))
         (ct_manip c).

(* what the generator reads from a content, apart from the clock: everything but alias and profile name,
   with run-relative times replaced by what determines them *)
Record relevant := mkRel {
  rl_serial : Z; rl_iuid : option bytes; rl_suid : option bytes; rl_subject : list rdn; rl_issuer : bytes;
  rl_static_from : option wall;    (* explicit "from" *)
  rl_static_until : option wall;   (* explicit "until", or from+duration when "from" is explicit *)
  rl_duration : bytes;             (* configured duration *)
  rl_is_set : bool;
  rl_keyalg : N; rl_sigalg : N; rl_exts : list any_ext; rl_manip : pmanip
}.

Definition relevant_of (c : content) : relevant :=
  mkRel (ct_serial c) (ct_iuid c) (ct_suid c) (ct_subject c) (ct_issuer c)
        (if ct_is_set c && ct_is_static c then Some (ct_from c) else None)
        (if ct_is_set c && (ct_is_static c || ct_until_static c) then Some (ct_until c) else None)
        (ct_duration c) (ct_is_set c)
        (ct_keyalg c) (ct_sigalg c) (ct_exts c) (ct_manip c).
