(* Support for the PKCS#8 and PEM-container correspondence streams (C17, C14/C15 byte level). *)
From Coq Require Import List NArith ZArith Bool.
From Coq.Strings Require Import Byte.
From Gopki.Model Require Import Bytes Base64 Der Asn1 Text Algs Pkcs8 Pem Glue Names Current.
Import ListNotations.
Open Scope N_scope.

(* ---- PKCS#8.  A key case: the key as numbers, the bytes gopki wrote for it, the curve arithmetic transcript
   (scalar -> public point) and group orders supplied by the harness from the standard library. *)
Record key_case := mkKeyCase {
  kc_key : privkey;
  kc_written : option bytes;          (* cert.MarshalPKCS8PrivateKey, None = error *)
  kc_order : N;                       (* group order of the key's curve (0 for RSA) *)
}.

Definition privkey_eqb (a b : privkey) : bool :=
  match a, b with
  | KEc c1 d1 p1, KEc c2 d2 p2 =>
    (match curve_oid c1, curve_oid c2 with Some x, Some y => oid_eqb x y | _, _ => false end) && (d1 =? d2) && bytes_eqb p1 p2
  | KRsa n e d p q dp dq qi, KRsa n' e' d' p' q' dp' dq' qi' =>
    (n =? n') && (e =? e') && (d =? d') && (p =? p') && (q =? q') && (dp =? dp') && (dq =? dq') && (qi =? qi')
  | _, _ => false
  end.

(* codes: 1 written bytes differ from the model's; 2 the model's parser does not read the written bytes back as the same key *)
Definition check_key (k : key_case) : list N :=
  let pub := match kc_key k with KEc _ _ p => p | _ => [] end in
  let m := marshal_pkcs8 (kc_key k) in
  (match m, kc_written k with
   | Some a, Some b => if bytes_eqb a b then [] else [1]
   | None, None => []
   | _, _ => [1]
   end)
  ++ (match kc_written k with
      | Some b => match parse_pkcs8 (fun _ _ => pub) (fun _ => kc_order k) b with
                  | Some k' => if privkey_eqb k' (kc_key k) then [] else [2]
                  | None => [2]
                  end
      | None => []
      end).

(* a parse case: arbitrary bytes, curve transcript for the scalar they may hold, and what gopki's parser said *)
Record parse_case := mkParseCase {
  pc_hostile : bool;                  (* a mutated / truncated / hand-damaged encoding: whether it is still a key is not known in advance *)
  pc_bytes : bytes;
  pc_pub : bytes;
  pc_order : keyalg -> N;
  pc_result : option privkey          (* cert.ParsePKCS8PrivateKey, None = error *)
}.
Definition check_parse (p : parse_case) : list N :=
  match parse_pkcs8 (fun _ _ => pc_pub p) (pc_order p) (pc_bytes p), pc_result p with
  | Some a, Some b =>
    if privkey_eqb a b then []
    else match a, b with
         | KEc c d _, KEc c' d' pub' =>
           (* same curve and scalar, but the public point gopki hands out is not the one the harness computed from the scalar *)
           if (N.eqb d d') && negb (bytes_eqb pub' (pc_pub p)) then [6] else [3]
         | _, _ => [3]
         end
  | None, None => []
  | Some _, None => [4]    (* the model accepts, gopki rejects *)
  | None, Some _ => [5]     (* gopki accepts what the model (and the property) rejects *)
  end.

Definition run_keys (l : list key_case) : list (nat * list N) :=
  filter (fun p => match snd p with [] => false | _ => true end) (combine (seq 0 (length l)) (map check_key l)).
Definition run_parses (l : list parse_case) : list (nat * list N) :=
  filter (fun p => match snd p with [] => false | _ => true end) (combine (seq 0 (length l)) (map check_parse l)).

(* ---- PEM container.  A case: file bytes, the blocks Go's pem.Decode loop returned and whether undecodable data was
   left, the DER values known to be valid objects, and which objects cert.ReadPem / the directory import reported. *)
Record pem_case := mkPemCase {
  pm_data : bytes;
  pm_blocks : list (bytes * bytes);
  pm_clean : bool;
  pm_valid : list bytes;
  pm_readpem : (bool * bool * bool) * bool;     (* certificate, key, request present; error reported *)
  pm_import : bool * bool * bool                (* what the directory import keeps: request dropped when a key is present *)
}.

Definition blk_eqb (a b : bytes * bytes) : bool := bytes_eqb (fst a) (fst b) && bytes_eqb (snd a) (snd b).
Fixpoint blks_eqb (a b : list (bytes * bytes)) : bool :=
  match a, b with [], [] => true | x :: a', y :: b' => blk_eqb x y && blks_eqb a' b' | _, _ => false end.

Definition s_cert := map n2b [67;69;82;84;73;70;73;67;65;84;69].                         (* CERTIFICATE *)
Definition s_req := s_cert ++ map n2b [32;82;69;81;85;69;83;84].                        (* CERTIFICATE REQUEST *)
Definition s_privkey := map n2b [80;82;73;86;65;84;69;32;75;69;89].                     (* PRIVATE KEY *)
Fixpoint contains (needle hay : bytes) : bool :=
  match hay with
  | [] => match needle with [] => true | _ => false end
  | _ :: r => has_prefix needle hay || contains needle r
  end.

(* cert.ReadPem over the decoded blocks: the first block whose content is not a valid object stops with an error *)
Fixpoint read_objects (valid : list bytes) (bl : list (bytes * bytes)) (acc : bool * bool * bool) : (bool * bool * bool) * bool :=
  match bl with
  | [] => (acc, false)
  | (ty, der) :: r =>
    let ok := existsb (bytes_eqb der) valid in
    let '(c, k, q) := acc in
    if bytes_eqb ty s_cert then (if ok then read_objects valid r (true, k, q) else (acc, true))
    else if bytes_eqb ty s_req then (if ok then read_objects valid r (c, k, true) else (acc, true))
    else if contains s_privkey ty then (if ok then read_objects valid r (c, true, q) else (acc, true))
    else read_objects valid r acc
  end.

Definition b3_eqb (a b : bool * bool * bool) : bool :=
  let '(a1, a2, a3) := a in let '(b1, b2, b3) := b in Bool.eqb a1 b1 && Bool.eqb a2 b2 && Bool.eqb a3 b3.

(* codes: 1 block list differs from Go's pem.Decode loop; 2 "undecodable data left" differs; 3 ReadPem objects/error differ;
   4 the directory import keeps different objects *)
Definition check_pem (p : pem_case) : list N :=
  let '(bl, clean) := read_pem (pm_data p) in
  let '(objs, err) := read_objects (pm_valid p) bl (false, false, false) in
  let err := err || (negb clean && negb err) in
  let '(c, k, q) := objs in
  (if blks_eqb bl (pm_blocks p) then [] else [1]) ++ (if Bool.eqb clean (pm_clean p) then [] else [2])
  ++ (if b3_eqb objs (fst (pm_readpem p)) && Bool.eqb err (snd (pm_readpem p)) then [] else [3])
  ++ (if b3_eqb (c, k, q && negb k) (pm_import p) then [] else [4]).

Definition run_pems (l : list pem_case) : list (nat * list N) :=
  filter (fun p => match snd p with [] => false | _ => true end) (combine (seq 0 (length l)) (map check_pem l)).


(* ---- the stored configuration hash of an artifact file (filesystem.go importCertConfigFile) *)
Inductive hash_obs := HPanic | HErr | HNone | HSome (h : bytes).
Record hash_case := mkHashCase { hc_content : bytes; hc_seen : hash_obs }.
Definition model_hash (content : bytes) : hash_obs :=
  match stored_hash_text cur_hash_marker content with
  | GPanic => HPanic
  | GErr => HErr
  | GOk None => HNone
  | GOk (Some t) => match b64_decode (filter (fun b => negb (is_crlf b)) t) with Some h => HSome h | None => HNone end
    (* Go's decoder skips CR and LF; an empty hash is still a (stale) hash *)
  end.
Definition hash_obs_eqb (a b : hash_obs) : bool :=
  match a, b with
  | HPanic, HPanic | HErr, HErr | HNone, HNone => true
  | HSome x, HSome y => bytes_eqb x y
  | _, _ => false
  end.
(* codes: 1 differs from the model; 2 the implementation panicked *)
Definition check_hash (c : hash_case) : list N :=
  (if hash_obs_eqb (model_hash (hc_content c)) (hc_seen c) then [] else [1])
  ++ (match hc_seen c with HPanic => [2] | _ => [] end).
Definition run_hashes (l : list hash_case) : list (nat * list N) :=
  filter (fun p => match snd p with [] => false | _ => true end) (combine (seq 0 (length l)) (map check_hash l)).


(* ---- names (C18): a file of the directory, the explicit alias of its configuration if any, and what the implementation made of
   it: None = not read as a configuration; Some (alias, artifact path written by a run) *)
Record name_case := mkNameCase { nc_path : bytes; nc_explicit : bytes; nc_seen : option (bytes * bytes) }.
Definition base_name (p : bytes) : bytes :=
  match last_index 47 p with Some i => skipn (S i) p | None => p end.
(* codes: 1 read / ignored differs from the suffix rule; 2 alias differs; 3 artifact path differs; 4 the derivation would panic *)
Definition check_name (c : name_case) : list N :=
  if negb (is_config_name (base_name (nc_path c))) then (match nc_seen c with None => [] | Some _ => [1] end)
  else match nc_seen c with
       | None => [1]
       | Some (alias, pem) =>
         (match nc_explicit c, alias_of_path (nc_path c) with
          | _ :: _, _ => if bytes_eqb alias (nc_explicit c) then [] else [2]
          | [], GOk a => if bytes_eqb alias a then [] else [2]
          | [], _ => [4]
          end)
         ++ (match artifact_path (nc_path c) with GOk a => if bytes_eqb pem a then [] else [3] | _ => [4] end)
       end.
Definition run_names (l : list name_case) : list (nat * list N) :=
  filter (fun p => match snd p with [] => false | _ => true end) (combine (seq 0 (length l)) (map check_name l)).
