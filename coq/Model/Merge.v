(* config.Merge: profile/certificate extension merging, as written (index bookkeeping). *)
From Coq Require Import List Arith Bool.
Import ListNotations.

Section Merge.
  Variable ext : Type.
  Variable oid_eqb : ext -> ext -> bool.     (* Oid().Equal *)
  Variable json_eqb : ext -> ext -> bool.    (* equality of the JSON images *)

  Record pext := mkPext { pe_ext : ext; pe_optional : bool; pe_override : bool }.

  Definition mem (i : nat) (l : list nat) : bool := existsb (Nat.eqb i) l.

  (* inner loop: first certificate position not yet handled whose OID equals the profile entry's *)
  Fixpoint find_match (p : ext) (cert : list ext) (i : nat) (handled : list nat) : option (nat * ext) :=
    match cert with
    | [] => None
    | c :: rest => if mem i handled then find_match p rest (S i) handled
                   else if oid_eqb p c then Some (i, c)
                   else find_match p rest (S i) handled
    end.

  (* outer loop; state = (handled, overridden, output in reverse) *)
  Fixpoint merge_loop (prof : list pext) (cert : list ext) (handled overridden : list nat) (out : list ext)
    : list nat * list ext :=
    match prof with
    | [] => (overridden, out)
    | pe :: rest =>
      match find_match (pe_ext pe) cert 0 handled with
      | Some (i, c) =>
        if pe_override pe
        then merge_loop rest cert (i :: handled) (i :: overridden) (c :: out)
        else merge_loop rest cert (i :: handled) overridden
                        (if json_eqb c (pe_ext pe) then out else pe_ext pe :: out)
      | None =>
        merge_loop rest cert handled overridden (if pe_optional pe then out else pe_ext pe :: out)
      end
    end.

  Fixpoint not_overridden (cert : list ext) (i : nat) (overridden : list nat) : list ext :=
    match cert with
    | [] => []
    | c :: rest => if mem i overridden then not_overridden rest (S i) overridden
                   else c :: not_overridden rest (S i) overridden
    end.

  Definition merge (prof : list pext) (cert : list ext) : list ext :=
    let '(ov, out) := merge_loop prof cert [] [] [] in
    rev out ++ not_overridden cert 0 ov.
End Merge.
