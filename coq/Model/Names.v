(* filesystem.go: which files are read as configurations, how an entity's default alias is derived from the path of its
   configuration file, and where its artifact is written (C18). *)
From Coq Require Import List Arith NArith Bool String.
From Coq.Strings Require Import Byte.
From Gopki.Model Require Import Bytes Base64 Text Glue.
Import ListNotations.

(* strings.LastIndex for a one-byte separator *)
Fixpoint last_index_from (c : N) (s : bytes) (i : nat) (found : option nat) : option nat :=
  match s with
  | [] => found
  | b :: r => last_index_from c r (S i) (if N.eqb (b2n b) c then Some i else found)
  end.
Definition last_index (c : N) (s : bytes) : option nat := last_index_from c s O None.

Definition to_lower_ascii (b : byte) : byte :=
  let n := b2n b in if (N.leb 65 n && N.leb n 90)%bool then n2b (n + 32) else b.

Definition has_suffix (suf s : bytes) : bool := has_prefix (rev suf) (rev s).

(* importFiles: the base name, lower-cased, ends in .yaml, .yml or .json *)
Definition is_config_name (name : bytes) : bool :=
  let l := map to_lower_ascii name in
  has_suffix (str ".yaml") l || has_suffix (str ".yml") l || has_suffix (str ".json") l.

(* configPath[strings.LastIndex(configPath, "/")+1 : strings.LastIndex(configPath, ".")]; LastIndex = -1 when absent *)
Definition alias_of_path (p : bytes) : outcome bytes :=
  let lo := match last_index 47 p with Some i => S i | None => O end in
  match last_index 46 p with
  | Some hi => go_slice p lo hi
  | None => GPanic            (* p[lo:-1] *)
  end.

(* configFileName[:strings.LastIndex(configFileName, ".")] + ".pem" *)
Definition artifact_path (p : bytes) : outcome bytes :=
  match last_index 46 p with
  | Some hi => match go_slice p O hi with GOk s => GOk (s ++ str ".pem") | GErr => GErr | GPanic => GPanic end
  | None => GPanic
  end.
