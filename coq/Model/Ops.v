(* User operations on a directory between runs (the histories of C12). Every operation is stamped with a
   fresh clock tick, strictly later than everything in the directory. *)
From Coq Require Import List Arith Bool.
From Gopki.Model Require Import Dir Run.
Import ListNotations.

Inductive op :=
| OpEditCfg (a : alias) (c : cfg)            (* any edit of the entity's (effective) configuration, incl. issuer / profile edits *)
| OpTouchCfg (a : alias)
| OpDeleteFile (a : alias)
| OpTear (a : alias) (k : keep)              (* truncate / strip-key / any loss of blocks of the existing artifact *)
| OpReplaceUser (a : alias) (c : certv) (k : key)   (* user-supplied certificate+key, no hash line *)
| OpSupplyCsr (a : alias) (r : nat)
| OpAdd (e : ent)
| OpRemove (a : alias)
| OpEditProfile (l : list (alias * cfg)).    (* a profile (one other file) is edited: every entity that references it gets a new effective
                                                configuration, its own configuration file keeps its modification time *)

Definition set_cfg (es : list ent) (a : alias) (c : cfg) (now : nat) : list ent :=
  map (fun e => if Nat.eqb (e_alias e) a then mkEnt (e_alias e) c now (e_file e) else e) es.
Definition touch_cfg (es : list ent) (a : alias) (now : nat) : list ent :=
  map (fun e => if Nat.eqb (e_alias e) a then mkEnt (e_alias e) (e_cfg e) now (e_file e) else e) es.

Definition retime (f : file) (now : nat) : file := mkFile (f_hash f) (f_cert f) (f_key f) (f_req f) now.

Definition apply_op (d : dir) (o : op) : dir :=
  let now := S (d_clock d) in
  let es := d_ents d in
  let es' :=
    match o with
    | OpEditCfg a c => set_cfg es a c now
    | OpTouchCfg a => touch_cfg es a now
    | OpDeleteFile a => set_file es a None
    | OpTear a k => match find_ent es a with
                    | Some e => match e_file e with
                                | Some f => set_file es a (Some (retime (torn_file k f) now))
                                | None => es
                                end
                    | None => es
                    end
    | OpReplaceUser a c k => set_file es a (Some (mkFile None (Some c) (Some k) None now))
    | OpSupplyCsr a r => set_file es a (Some (mkFile None None None (Some r) now))
    | OpAdd e => match find_ent es (e_alias e) with
                 | Some _ => es
                 | None => es ++ [mkEnt (e_alias e) (e_cfg e) now None]
                 end
    | OpRemove a => filter (fun e => negb (Nat.eqb (e_alias e) a)) es
    | OpEditProfile l => map (fun e => match find (fun p => Nat.eqb (fst p) (e_alias e)) l with
                                       | Some p => mkEnt (e_alias e) (snd p) (e_cfg_mtime e) (e_file e)
                                       | None => e
                                       end) es
    end in
  mkDir es' now (d_nextkey d).
