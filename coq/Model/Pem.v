(* encoding/pem as used by cert.WritePem / cert.ReadPem and the `#HASH:` line of exportPemFile *)
From Coq Require Import List NArith Bool Arith.
From Coq.Strings Require Import Byte.
From Gopki.Model Require Import Bytes Base64.
Import ListNotations.
Open Scope N_scope.

Definition nl : byte := n2b 10.
Definition is_nl (b : byte) : bool := b2n b =? 10.
Definition is_st (b : byte) : bool := (b2n b =? 32) || (b2n b =? 9).          (* " \t" *)
Definition dash5 : bytes := map n2b [45;45;45;45;45].
Definition begin_tail : bytes := dash5 ++ map n2b [66;69;71;73;78;32].        (* "-----BEGIN " *)
Definition end_tail : bytes := dash5 ++ map n2b [69;78;68;32].                (* "-----END " *)
Definition begin_pat : bytes := nl :: begin_tail.
Definition end_pat : bytes := nl :: end_tail.

(* ---- pem.Encode (no headers): 64-column lines, each terminated by \n ---- *)
Fixpoint brk (k : nat) (s : bytes) : bytes :=       (* k = characters already on the current line *)
  match s with
  | [] => match k with O => [] | _ => [nl] end
  | b :: r => if Nat.eqb (S k) 64 then b :: nl :: brk 0 r else b :: brk (S k) r
  end.

Definition pem_encode (ty der : bytes) : bytes :=
  begin_tail ++ ty ++ dash5 ++ [nl] ++ brk 0 (b64_encode der) ++ end_tail ++ ty ++ dash5 ++ [nl].

(* ---- pem.Decode ---- *)
(* bytes.Cut: first occurrence *)
Fixpoint cut (pat s : bytes) : option (bytes * bytes) :=
  match strip_prefix pat s with
  | Some after => Some ([], after)
  | None => match s with
            | [] => None
            | b :: r => match cut pat r with Some (bf, af) => Some (b :: bf, af) | None => None end
            end
  end.

Fixpoint span_nl (s : bytes) : bytes * option bytes :=
  match s with
  | [] => ([], None)
  | b :: r => if is_nl b then ([], Some r) else let '(l, t) := span_nl r in (b :: l, t)
  end.

Fixpoint drop_while (f : byte -> bool) (s : bytes) : bytes :=
  match s with [] => [] | b :: r => if f b then drop_while f r else s end.
Definition trim_right (f : byte -> bool) (s : bytes) : bytes := rev (drop_while f (rev s)).
Definition strip_cr (l : bytes) : bytes :=
  match rev l with c :: t => if b2n c =? 13 then rev t else l | [] => l end.

Definition get_line (s : bytes) : bytes * bytes :=
  match span_nl s with
  | (l, Some r) => (trim_right is_st (strip_cr l), r)
  | (l, None) => (trim_right is_st l, [])
  end.

Definition strip_suffix (suf s : bytes) : option bytes :=
  match strip_prefix (rev suf) (rev s) with Some r => Some (rev r) | None => None end.

Definition has_colon (l : bytes) : bool := existsb (fun b => b2n b =? 58) l.

(* the header loop: None = input exhausted (Decode gives up); Some (n, rest) = n header lines skipped *)
Fixpoint headers (fuel : nat) (rest : bytes) (n : nat) : option (nat * bytes) :=
  match fuel with
  | O => None
  | S f =>
    match rest with
    | [] => None
    | _ => let '(line, next) := get_line rest in
           if has_colon line then headers f next (S n) else Some (n, rest)
    end
  end.

(* base64.StdEncoding.Decode skips \r and \n; pem removes blanks and tabs first *)
Definition pem_body (data : bytes) : option bytes :=
  b64_decode (filter (fun b => negb (is_st b || is_nl b || (b2n b =? 13))) data).

Fixpoint decode_loop (fuel : nat) (rest : bytes) : option ((bytes * bytes) * bytes) :=
  match fuel with
  | O => None
  | S f =>
    let start := match strip_prefix begin_tail rest with
                 | Some r => Some r
                 | None => match cut begin_pat rest with Some (_, after) => Some after | None => None end
                 end in
    match start with
    | None => None
    | Some rest1 =>
      let '(type_line, rest2) := get_line rest1 in
      match strip_suffix dash5 type_line with
      | None => decode_loop f rest2
      | Some ty =>
        match headers (S (length rest2)) rest2 O with
        | None => None
        | Some (nh, rest3) =>
          let found := if Nat.eqb nh 0 && (match strip_prefix end_tail rest3 with Some _ => true | None => false end)
                       then match strip_prefix end_tail rest3 with Some a => Some ([], a) | None => None end
                       else cut end_pat rest3 in
          match found with
          | None => decode_loop f rest3
          | Some (body, trailer) =>
            match strip_prefix ty trailer with
            | None => decode_loop f rest3
            | Some t1 =>
              match strip_prefix dash5 t1 with
              | None => decode_loop f rest3
              | Some rest_of_end_line =>
                match fst (get_line rest_of_end_line) with
                | _ :: _ => decode_loop f rest3
                | [] =>
                  match pem_body body with
                  | None => decode_loop f rest3
                  | Some der => Some ((ty, der), snd (get_line trailer))
                  end
                end
              end
            end
          end
        end
      end
    end
  end.

(* pem.Decode: None = (nil, data) *)
Definition pem_decode (data : bytes) : option ((bytes * bytes) * bytes) := decode_loop (S (length data)) data.

(* cert.ReadPem's loop: all blocks in order; the flag tells whether undecodable data was left over *)
Fixpoint read_blocks (fuel : nat) (data : bytes) : list (bytes * bytes) * bool :=
  match fuel with
  | O => ([], false)
  | S f =>
    match pem_decode data with
    | None => ([], match data with [] => true | _ => false end)
    | Some (blk, rest) => let '(l, ok) := read_blocks f rest in (blk :: l, ok)
    end
  end.
Definition read_pem (data : bytes) : list (bytes * bytes) * bool := read_blocks (S (length data)) data.

Definition hash_line (h : bytes) : bytes := map n2b [35;72;65;83;72;58] ++ b64_encode h ++ [nl].
