(* cert.MarshalPKCS8PrivateKey / ParsePKCS8PrivateKey for elliptic-curve and RSA keys (RFC 5208, RFC 5915, PKCS#1). *)
From Coq Require Import List NArith ZArith Bool.
From Coq.Strings Require Import Byte.
From Gopki.Model Require Import Bytes Base64 Der Asn1 Text Algs.
Import ListNotations.
Open Scope N_scope.

Definition oid_ec_public_key := [1;2;840;10045;2;1].
Definition oid_rsa_encryption := [1;2;840;113549;1;1;1].

(* order bit lengths of the ten curves -> scalar width in octets *)
Definition scalar_width (k : keyalg) : option nat :=
  match k with
  | P224 => Some 28%nat | P256 | BP256r1 | BP256t1 => Some 32%nat | P384 | BP384r1 | BP384t1 => Some 48%nat
  | P521 => Some 66%nat | BP512r1 | BP512t1 => Some 64%nat
  | _ => None
  end.

(* big.Int.FillBytes: big-endian, left-padded with zeros to exactly [w] octets (panics if it does not fit) *)
Definition fill_bytes (w : nat) (d : N) : option bytes :=
  let ds := be_digits d in
  if Nat.leb (length ds) w then Some (repeat (n2b 0) (w - length ds) ++ ds) else None.

Inductive privkey :=
| KEc (curve : keyalg) (d : N) (pub : bytes)      (* pub = uncompressed point 04 || X || Y *)
| KRsa (n e d p q dp dq qinv : N).

Definition tlv_oid (o : list N) : tlv := match der_oid o with Some t => t | None => der_null end.

Definition ec_private_key (w : nat) (d : N) (pub : bytes) : option tlv :=
  match fill_bytes w d with
  | Some sc => Some (der_seq [der_int 1; der_octets sc; der_explicit 1 (der_bits_full pub)])
  | None => None
  end.

Definition marshal_pkcs8 (k : privkey) : option bytes :=
  match k with
  | KEc c d pub =>
    match scalar_width c, curve_oid c with
    | Some w, Some co =>
      match ec_private_key w d pub with
      | Some inner =>
        Some (enc (der_seq [der_int 0; der_seq [tlv_oid oid_ec_public_key; tlv_oid co]; der_octets (enc inner)]))
      | None => None
      end
    | _, _ => None
    end
  | KRsa n e d p q dp dq qinv =>
    let pkcs1 := der_seq (map (fun x => der_int (Z.of_N x)) [0; n; e; d; p; q; dp; dq; qinv]) in
    Some (enc (der_seq [der_int 0; der_seq [tlv_oid oid_rsa_encryption; der_null]; der_octets (enc pkcs1)]))
  end.

Definition curve_of_oid (o : list N) : option keyalg :=
  find (fun c => match curve_oid c with
                 | Some co => (length co =? length o)%nat && forallb (fun p => fst p =? snd p) (combine co o)
                 | None => false end)
       [P224; P256; P384; P521; BP256r1; BP384r1; BP512r1; BP256t1; BP384t1; BP512t1].

Definition oid_eqb (a b : list N) : bool :=
  (length a =? length b)%nat && forallb (fun p => fst p =? snd p) (combine a b).

(* the parser recomputes the public point from the scalar; [base_mult] is the curve arithmetic oracle *)
Section Parse.
  Variable base_mult : keyalg -> N -> bytes.
  Variable order : keyalg -> N.

  Definition dec_oid' (t : tlv) : option (list N) :=
    match t with Prim Univ 6 c => oid_of_content c | _ => None end.

  (* Go's asn1 on the two optional, explicitly tagged members of ECPrivateKey: an element tagged [0] (resp. [1]) whose first inner
     element is a universal OBJECT IDENTIFIER (resp. BIT STRING) must hold a well-formed one; an empty explicit tag is an error;
     anything else is skipped, and elements that follow are ignored *)
  Definition go_bits_ok (v : bytes) : bool :=
    match v with
    | [] => false
    | p :: r => let pad := b2n p in
                (pad <=? 7) && negb ((0 <? pad) && match r with [] => true | _ => false end)
                && match r with [] => true | _ => (b2n (last r p)) mod (2 ^ pad) =? 0 end
    end.
  Definition go_oid_ok (c : bytes) : bool :=
    match arcs_of c 0 false with
    | Some (v :: r) => forallb (fun a => a <=? 2147483647) (v :: r)
    | _ => false
    end.
  Definition opt_fields_ok (rest : list tlv) : bool :=
    let after0 := match rest with
                  | Cons Ctx 0 [] :: _ => None
                  | Cons Ctx 0 (Prim Univ 6 c :: _) :: r => if go_oid_ok c then Some r else None
                  | _ => Some rest
                  end in
    match after0 with
    | None => false
    | Some (Cons Ctx 1 [] :: _) => false
    | Some (Cons Ctx 1 (Prim Univ 3 v :: _) :: _) => go_bits_ok v
    | Some _ => true
    end.

  (* asn1.Unmarshal returns trailing bytes instead of rejecting them, and the callers (as in crypto/x509) drop them *)
  Definition parse_ec_private_key (outer_curve : option keyalg) (b : bytes) : option privkey :=
    match parse b with
    | Some (Cons Univ 16 (Prim Univ 2 v :: Prim Univ 4 sc :: rest), _) =>
      match int_of_content v with
      | Some 1%Z =>
        if negb (opt_fields_ok rest) then None else
        let inner_curve :=
            match rest with
            | Cons Ctx 0 [o] :: _ => match dec_oid' o with Some co => curve_of_oid co | None => None end
            | _ => None
            end in
        match (match outer_curve with Some c => Some c | None => inner_curve end) with
        | None => None
        | Some c =>
          let d := be_value sc in
          match scalar_width c with
          | None => None
          | Some w =>
            (* longer than the field width is tolerated only as leading zeros *)
            if (d <? order c) && (Nat.leb (length sc) w || (be_value (firstn (length sc - w) sc) =? 0))
            then Some (KEc c d (base_mult c d)) else None
          end
        end
      | _ => None
      end
    | _ => None
    end.

  Definition parse_pkcs8 (b : bytes) : option privkey :=
    match parse b with
    | Some (Cons Univ 16 [Prim Univ 2 v; Cons Univ 16 (alg :: params); Prim Univ 4 body], _) =>
      match dec_oid' alg with
      | Some a =>
        if oid_eqb a oid_rsa_encryption then
          match parse_all body with
          | Some (Cons Univ 16 (ver :: ints)) =>
            match map_opt (fun t => match t with Prim Univ 2 c => int_of_content c | _ => None end) (ver :: ints) with
            | Some [0%Z; n; e; d; p; q; dp; dq; qinv] =>
              if forallb (fun z => (0 <=? z)%Z) [n; e; d; p; q; dp; dq; qinv]
              then Some (KRsa (Z.to_N n) (Z.to_N e) (Z.to_N d) (Z.to_N p) (Z.to_N q) (Z.to_N dp) (Z.to_N dq) (Z.to_N qinv))
              else None
            | _ => None
            end
          | _ => None
          end
        else if oid_eqb a oid_ec_public_key then
          let outer := match params with
                       | [p] => match dec_oid' p with Some co => curve_of_oid co | None => None end
                       | _ => None
                       end in
          parse_ec_private_key outer body
        else None
      | None => None
      end
    | _ => None
    end.
End Parse.
