(* cert.MarshalPKCS8PrivateKey / ParsePKCS8PrivateKey for elliptic-curve and RSA keys (RFC 5208, RFC 5915, PKCS#1). *)
From Coq Require Import List NArith ZArith Bool.
From Coq.Strings Require Import Byte.
From Gopki.Model Require Import Bytes Base64 Der Asn1 Text Algs.
Import ListNotations.
Open Scope N_scope.

Definition oid_ec_public_key := [1;2;840;10045;2;1].
Definition oid_rsa_encryption := [1;2;840;113549;1;1;1].

(* order bit lengths of the ten curves -> scalar width in octets *)
Definition scalar_width (k : keyalg) : option nat :=
  match k with
  | P224 => Some 28%nat | P256 | BP256r1 | BP256t1 => Some 32%nat | P384 | BP384r1 | BP384t1 => Some 48%nat
  | P521 => Some 66%nat | BP512r1 | BP512t1 => Some 64%nat
  | _ => None
  end.

(* big.Int.FillBytes: big-endian, left-padded with zeros to exactly [w] octets (panics if it does not fit) *)
Definition fill_bytes (w : nat) (d : N) : option bytes :=
  let ds := be_digits d in
  if Nat.leb (length ds) w then Some (repeat (n2b 0) (w - length ds) ++ ds) else None.

Inductive privkey :=
| KEc (curve : keyalg) (d : N) (pub : bytes)      (* pub = uncompressed point 04 || X || Y *)
| KRsa (n e d p q dp dq qinv : N).

Definition tlv_oid (o : list N) : tlv := match der_oid o with Some t => t | None => der_null end.

Definition ec_private_key (w : nat) (d : N) (pub : bytes) : option tlv :=
  match fill_bytes w d with
  | Some sc => Some (der_seq [der_int 1; der_octets sc; der_explicit 1 (der_bits_full pub)])
  | None => None
  end.

Definition marshal_pkcs8 (k : privkey) : option bytes :=
  match k with
  | KEc c d pub =>
    match scalar_width c, curve_oid c with
    | Some w, Some co =>
      match ec_private_key w d pub with
      | Some inner =>
        Some (enc (der_seq [der_int 0; der_seq [tlv_oid oid_ec_public_key; tlv_oid co]; der_octets (enc inner)]))
      | None => None
      end
    | _, _ => None
    end
  | KRsa n e d p q dp dq qinv =>
    let pkcs1 := der_seq (map (fun x => der_int (Z.of_N x)) [0; n; e; d; p; q; dp; dq; qinv]) in
    Some (enc (der_seq [der_int 0; der_seq [tlv_oid oid_rsa_encryption; der_null]; der_octets (enc pkcs1)]))
  end.

Definition curve_of_oid (o : list N) : option keyalg :=
  find (fun c => match curve_oid c with
                 | Some co => (length co =? length o)%nat && forallb (fun p => fst p =? snd p) (combine co o)
                 | None => false end)
       [P224; P256; P384; P521; BP256r1; BP384r1; BP512r1; BP256t1; BP384t1; BP512t1].

Definition oid_eqb (a b : list N) : bool :=
  (length a =? length b)%nat && forallb (fun p => fst p =? snd p) (combine a b).

(* the parser recomputes the public point from the scalar; [base_mult] is the curve arithmetic oracle *)
Section Parse.
  Variable base_mult : keyalg -> N -> bytes.
  Variable order : keyalg -> N.

  Definition dec_oid' (t : tlv) : option (list N) :=
    match t with Prim Univ 6 c => oid_of_content c | _ => None end.

  (* ---- encoding/asn1 as gopki uses it here.  Unmarshal is directed by the Go struct, not by the nesting of the input:
     it reads the header of each member in turn, checks class/tag/constructed bit against what the member's type expects,
     bounds a member's content by the enclosing SEQUENCE only, never looks at bytes that follow the last member it knows
     (inside the SEQUENCE or after it), and for an optional member whose tag does not match leaves the member unset and
     continues at the same offset.  The three functions below transcribe parseTagAndLength and parseField for the member
     kinds that occur in pkcs8, pkix.AlgorithmIdentifier and ecPrivateKey. *)

  (* parseBase128Int as used for tag numbers: at most five octets, no leading 0x80, value at most 2^31 - 1 *)
  Fixpoint go_b128 (fuel : nat) (bs : bytes) (acc : N) (first : bool) : option (N * bytes) :=
    match fuel with
    | O => None
    | S f => match bs with
             | [] => None
             | b :: r => let n := b2n b in
                         if first && (n =? 128) then None
                         else let acc' := acc * 128 + n mod 128 in
                              if n <? 128 then (if acc' <=? 2147483647 then Some (acc', r) else None)
                              else go_b128 f r acc' false
             end
    end.

  (* parseTagAndLength: identifier and length octets.  The high-tag-number form (identifier octet xxx11111 followed by the
     tag number in base 128, which must be 31 or more) is read as Go reads it; no member here expects such a tag, so it only
     matters for where the element ends and for "tag does not match: optional member absent".  Lengths of 2^31 and more are
     "length too large". *)
  Definition go_hdr (bs : bytes) : option (cls * bool * N * N * bytes) :=
    match bs with
    | [] => None
    | i :: r =>
      let tagged : option (cls * bool * N * bytes) :=
          match dec_ident i with
          | Some (c, k, t) => Some (c, k, t, r)
          | None => match go_b128 5 r 0 true with
                    | Some (t, r1) => if t <? 31 then None else Some (cls_of_code (b2n i / 64), N.testbit (b2n i) 5, t, r1)
                    | None => None
                    end
          end in
      match tagged with
      | None => None
      | Some (c, k, t, r1) => match dec_len r1 with
                              | Some (n, r2) => if n <? 2147483648 then Some (c, k, t, n, r2) else None
                              | None => None
                              end
      end
    end.

  Definition is_univ (c : cls) : bool := match c with Univ => true | _ => false end.
  Definition is_ctx (c : cls) : bool := match c with Ctx => true | _ => false end.

  (* a required member of universal type [t] (constructed or not as the type demands): content and what follows it *)
  Definition go_req (t : N) (cons : bool) (bs : bytes) : option (bytes * bytes) :=
    match go_hdr bs with
    | Some (c, k, t', n, r) => if is_univ c && (t' =? t) && Bool.eqb k cons then take_n n r else None
    | None => None
    end.

  (* an optional member `explicit,tag:N` of primitive universal type [ut] *)
  Inductive opt_res := OAbsent | OErr | OPresent (content rest : bytes).
  Definition go_opt_explicit (tag ut : N) (bs : bytes) : opt_res :=
    match bs with
    | [] => OAbsent                                            (* no data left: the default value *)
    | _ =>
      match go_hdr bs with
      | None => OErr
      | Some (c, k, t, n, r) =>
        match r with
        | [] => OErr                                           (* "explicit tag has no child", whatever the tag *)
        | _ =>
          if is_ctx c && (t =? tag) && ((n =? 0) || k) then
            if n =? 0 then OErr                                (* "zero length explicit tag was not an asn1.Flag" *)
            else match go_hdr r with                           (* the wrapper's own length is not looked at again *)
                 | None => OErr
                 | Some (c', k', t', n', r') =>
                   if is_univ c' && (t' =? ut) && negb k'
                   then match take_n n' r' with                (* bounded by the enclosing SEQUENCE only *)
                        | Some (v, rest) => OPresent v rest
                        | None => OErr
                        end
                   else OAbsent                                (* inner tag differs: member unset, offset rewound *)
                 end
          else OAbsent
        end
      end
    end.

  (* parseInt64 for an `int` member: minimal two's complement of at most eight octets *)
  Definition go_int (v : bytes) : option Z := if Nat.leb (length v) 8 then int_of_content v else None.

  (* parseBitString / parseObjectIdentifier *)
  Definition go_bits_ok (v : bytes) : bool :=
    match v with
    | [] => false
    | p :: r => let pad := b2n p in
                (pad <=? 7) && negb ((0 <? pad) && match r with [] => true | _ => false end)
                && match r with [] => true | _ => (b2n (last r p)) mod (2 ^ pad) =? 0 end
    end.
  Definition go_oid_ok (c : bytes) : bool :=
    match arcs_of c 0 false with
    | Some (v :: r) => forallb (fun a => a <=? 2147483647) (v :: r)
    | _ => false
    end.
  Definition go_oid (c : bytes) : option (list N) := if go_oid_ok c then oid_of_content c else None.

  (* asn1.Unmarshal(der, &ecPrivateKey{}): version, scalar octets, the curve of an inner [0] if there is one *)
  Definition go_ec_struct (b : bytes) : option (Z * bytes * option (list N)) :=
    match go_req 16 true b with
    | None => None
    | Some (content, _) =>                                     (* bytes after the SEQUENCE are returned as "rest" and dropped *)
      match go_req 2 false content with
      | None => None
      | Some (v, c1) =>
        match go_int v with
        | None => None
        | Some ver =>
          match go_req 4 false c1 with
          | None => None
          | Some (sc, c2) =>
            let after0 := match go_opt_explicit 0 6 c2 with
                          | OErr => None
                          | OAbsent => Some (None, c2)
                          | OPresent o rest => match go_oid o with Some a => Some (Some a, rest) | None => None end
                          end in
            match after0 with
            | None => None
            | Some (curve, c3) =>
              match go_opt_explicit 1 3 c3 with
              | OErr => None
              | OAbsent => Some (ver, sc, curve)
              | OPresent v1 _ => if go_bits_ok v1 then Some (ver, sc, curve) else None
              end
            end
          end
        end
      end
    end.

  Definition parse_ec_private_key (outer_curve : option (list N)) (b : bytes) : option privkey :=
    match go_ec_struct b with
    | Some (1%Z, sc, inner) =>
      (* namedCurveFromOID of the outer identifier when the PKCS#8 parameters held one, else of the inner one *)
      match (match outer_curve with Some o => curve_of_oid o
                               | None => match inner with Some o => curve_of_oid o | None => None end end) with
      | None => None
      | Some c =>
        let d := be_value sc in
        match scalar_width c with
        | None => None
        | Some w =>
          (* a private key is a number from 1 to order - 1; longer than the field width is tolerated only as leading zeros *)
          if (0 <? d) && (d <? order c) && (Nat.leb (length sc) w || (be_value (firstn (length sc - w) sc) =? 0))
          then Some (KEc c d (base_mult c d)) else None
        end
      end
    | _ => None
    end.

  (* asn1.Unmarshal(der, &pkcs8{}): algorithm identifier, its parameters as a raw element (header and content), key octets *)
  Definition go_pkcs8_struct (b : bytes) : option (list N * bytes * bytes) :=
    match go_req 16 true b with
    | None => None
    | Some (content, _) =>
      match go_req 2 false content with
      | None => None
      | Some (v, c1) =>
        match go_int v with
        | None => None
        | Some _ =>                                            (* the version is not looked at *)
          match go_req 16 true c1 with
          | None => None
          | Some (alg, c2) =>
            match go_req 6 false alg with
            | None => None
            | Some (oc, a1) =>
              match go_oid oc with
              | None => None
              | Some a =>
                let params := match a1 with
                              | [] => Some []                  (* optional RawValue: absent *)
                              | _ => match go_hdr a1 with
                                     | Some (_, _, _, n, r) =>
                                       match take_n n r with
                                       | Some (_, rest) => Some (firstn (length a1 - length rest) a1)
                                       | None => None
                                       end
                                     | None => None
                                     end
                              end in
                match params with
                | None => None
                | Some full =>
                  match go_req 4 false c2 with
                  | Some (body, _) => Some (a, full, body)
                  | None => None
                  end
                end
              end
            end
          end
        end
      end
    end.

  Definition parse_pkcs8 (b : bytes) : option privkey :=
    match go_pkcs8_struct b with
    | None => None
    | Some (a, params, body) =>
      if oid_eqb a oid_rsa_encryption then
        (* x509.ParsePKCS1PrivateKey: the modelled part is the strict structure and the sign checks *)
        match parse_all body with
        | Some (Cons Univ 16 (ver :: ints)) =>
          match map_opt (fun t => match t with Prim Univ 2 c => int_of_content c | _ => None end) (ver :: ints) with
          | Some [0%Z; n; e; d; p; q; dp; dq; qinv] =>
            if forallb (fun z => (0 <=? z)%Z) [n; e; d; p; q; dp; dq; qinv]
            then Some (KRsa (Z.to_N n) (Z.to_N e) (Z.to_N d) (Z.to_N p) (Z.to_N q) (Z.to_N dp) (Z.to_N dq) (Z.to_N qinv))
            else None
          | _ => None
          end
        | _ => None
        end
      else if oid_eqb a oid_ec_public_key then
        (* asn1.Unmarshal(params.FullBytes, new(ObjectIdentifier)); on any error the inner identifier is used *)
        let outer := match go_req 6 false params with
                     | Some (oc, _) => go_oid oc
                     | None => None
                     end in
        parse_ec_private_key outer body
      else None
    end.
End Parse.
