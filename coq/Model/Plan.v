(* needsUpdate, IsConsistent and PlanBulkUpdate. *)
From Coq Require Import List Arith Bool.
From Gopki.Model Require Import Dir.
Import ListNotations.

Record strat := mkStrat { s_missing : bool; s_expired : bool; s_newer : bool; s_changed : bool; s_all : bool }.
Definition s_any (s : strat) : bool := s_missing s || s_expired s || s_newer s || s_changed s || s_all s.
Definition default_strat : strat := mkStrat true false false true false.

Section WithRepairs.
  (* repair switches: the faithful model has both false *)
  Variable fix_csr : bool.      (* F9: a request counts as key material *)

  Definition is_missing (f : file) : bool :=
    match f_cert f with
    | None => true
    | Some _ => match f_key f with
                | Some _ => false
                | None => if fix_csr then (match f_req f with Some _ => false | None => true end) else true
                end
    end.

  (* same order of tests as db.go:needsUpdate *)
  Definition needs_update (es : list ent) (s : strat) (e : ent) : bool :=
    if s_all s then true else
    let f := import_file (e_file e) in
    let lastbuild := mtime_of (e_file e) in
    let issuer_newer :=
      match issuer_of e with
      | None => false
      | Some p => match find_ent es p with
                  | None => false
                  | Some pe => s_any s && Nat.ltb lastbuild (mtime_of (e_file pe))
                  end
      end in
    if issuer_newer then true else
    if s_newer s && Nat.ltb lastbuild (e_cfg_mtime e) then true else
    if s_expired s && (match f_cert f with Some c => c_expired c | None => false end) && g_until_future (e_cfg e) then true else
    if s_missing s && is_missing f then true else
    if s_changed s && (match f_hash f with Some h => negb (hview_eqb h (hview_of (e_cfg e))) | None => false end) then true else
    false.

  (* IsConsistent: count what the BFS from the roots reaches *)
  Fixpoint count_loop (fuel : nat) (es : list ent) (queue : list alias) (n : nat) : option nat :=
    match fuel with
    | O => None
    | S f => match queue with
             | [] => Some n
             | a :: q => count_loop f es (q ++ children es a) (S n)
             end
    end.
  Definition is_consistent (es : list ent) : bool :=
    match count_loop (S (length es)) es (roots es) 0 with
    | Some n => Nat.eqb n (length es)
    | None => false
    end.

  (* PlanBulkUpdate: (updated set, change list in reverse) *)
  Fixpoint plan_loop (fuel : nat) (es : list ent) (s : strat) (queue : list alias)
           (updated : list alias) (changes : list alias) : option (option (list alias)) :=
    match fuel with
    | O => None                                   (* cannot happen on a consistent directory *)
    | S f => match queue with
             | [] => Some (Some (rev changes))
             | a :: q =>
               match find_ent es a with
               | None => Some None                 (* validateAndMerge: alias does not exist *)
               | Some e =>
                 if negb (g_valid (e_cfg e)) then Some None   (* profile violation aborts planning *)
                 else
                   let upd := match issuer_of e with
                              | Some p => if existsb (Nat.eqb p) updated then true else needs_update es s e
                              | None => needs_update es s e
                              end in
                   plan_loop f es s (q ++ children es a)
                             (if upd then a :: updated else updated)
                             (if upd then a :: changes else changes)
               end
             end
    end.
  Definition plan (es : list ent) (s : strat) : option (list alias) :=
    match plan_loop (S (length es)) es s (roots es) [] [] with
    | Some r => r
    | None => None
    end.
End WithRepairs.
