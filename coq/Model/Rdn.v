(* config.ParseRDNSequence and the DER form of a Name. *)
From Coq Require Import List NArith ZArith Bool String.
From Coq.Strings Require Import Byte.
From Gopki.Model Require Import Bytes Base64 Der Asn1 Text.
Import ListNotations.
Open Scope N_scope.

Inductive atv_value := AvString (s : bytes) | AvRaw (b : bytes).
Record rdn := mkRdn { r_type : list Z; r_value : atv_value }.

Definition attr_oid (k : bytes) : option (list Z) :=
  let t x := Some [2; 5; 4; x]%Z in
  if seqb k (str "C") then t 6%Z else if seqb k (str "O") then t 10%Z else if seqb k (str "OU") then t 11%Z
  else if seqb k (str "CN") then t 3%Z else if seqb k (str "SERIALNUMBER") then t 5%Z
  else if seqb k (str "L") then t 7%Z else if seqb k (str "ST") then t 8%Z
  else if seqb k (str "STREET") then t 9%Z else if seqb k (str "POSTALCODE") then t 17%Z else None.

(* split at commas that are not preceded by a backslash; the first character is never a separator *)
Fixpoint split_commas (s : bytes) (prev : option byte) (cur : bytes) : list bytes :=
  match s with
  | [] => [rev cur]
  | b :: r =>
    let is_sep := match prev with
                  | None => false
                  | Some p => (b2n b =? 44) && negb (b2n p =? 92)
                  end in
    if is_sep then rev cur :: split_commas r (Some b) [] else split_commas r (Some b) (b :: cur)
  end.

Definition is_hex_digit (b : byte) : bool :=
  let n := b2n b in ((48 <=? n) && (n <=? 57)) || ((97 <=? n) && (n <=? 102)) || ((65 <=? n) && (n <=? 70)).

Definition parse_assertion (a : bytes) : option rdn :=
  let a := trim_space a in
  match split 61 a with
  | [k; v] =>
    let k := trim_space k in
    match (match attr_oid k with Some o => Some o | None => oid_from_string k end) with
    | None => None
    | Some o =>
      match v with
      | h :: (_ :: _) as ds =>
        if (b2n h =? 35) && forallb is_hex_digit ds then
          (if Nat.even (List.length ds) then
             let raw := unhex_bytes ds in
             match raw with
             | t :: _ => if b2n t =? 19
                         then match parse raw with
                              | Some (Prim Univ 19 s, _) => Some (mkRdn o (AvString s))
                              | _ => None
                              end
                         else Some (mkRdn o (AvRaw raw))
             | [] => None
             end
           else None)
        else Some (mkRdn o (AvString v))
      | _ => Some (mkRdn o (AvString v))
      end
    end
  | _ => None
  end.

(* result in DER order = reverse of the written order *)
Definition parse_rdn (s : bytes) : option (list rdn) :=
  match map_opt parse_assertion (split_commas s None []) with
  | Some l => Some (rev l)
  | None => None
  end.

Definition enc_rdn (r : rdn) : option tlv :=
  match arcs_to_N (r_type r) with
  | None => None
  | Some ns =>
    match der_oid ns with
    | None => None
    | Some o => Some (der_set [der_seq [o; match r_value r with
                                           | AvString s => der_auto_string s
                                           | AvRaw b => der_octets b
                                           end]])
    end
  end.
Definition enc_name (n : list rdn) : option tlv :=
  match map_opt enc_rdn n with Some l => Some (der_seq l) | None => None end.
