(* GenerateArtifacts / BulkUpdate / whole runs, with write faults. *)
From Coq Require Import List Arith Bool.
From Gopki.Model Require Import Dir Plan.
Import ListNotations.

Inductive result := ROk | RErr | RDied | RPanic.

(* what survives of a file whose write was interrupted *)
Record keep := mkKeep { kp_hash : bool; kp_cert : bool; kp_key : bool; kp_req : bool }.
Inductive outcome := FailNoWrite | Torn (k : keep) | DoneThenDie.

Definition torn_file (k : keep) (f : file) : file :=
  mkFile (if kp_hash k then f_hash f else None) (if kp_cert k then f_cert f else None)
         (if kp_key k then f_key f else None) (if kp_req k then f_req f else None) (f_mtime f).

Definition set_file (es : list ent) (a : alias) (f : option file) : list ent :=
  map (fun e => if Nat.eqb (e_alias e) a then mkEnt (e_alias e) (e_cfg e) (e_cfg_mtime e) f else e) es.

Section WithRepairs.
  Variable fix_csr : bool.       (* F9 *)
  Variable fix_nilcert : bool.   (* F17: issuer without certificate is an error, not a nil dereference *)

  (* memory image of the artifacts during BulkUpdate = the directory's entities, updated as we go *)
  Definition art (es : list ent) (a : alias) : file :=
    match find_ent es a with Some e => import_file (e_file e) | None => import_file None end.

  (* GenerateArtifacts for one entity, against the current memory image [mem];
     returns the new file (stamped [now]) and the next fresh key id *)
  Definition generate (mem : list ent) (e : ent) (now nextkey : nat) : result * option file * nat :=
    let c := e_cfg e in
    if negb (g_builds c) then (RErr, None, nextkey) else
    let a := art mem (e_alias e) in
    let '(key, nextkey') :=
      match f_key a, f_req a with
      | Some k, _ => (Some k, nextkey)
      | None, Some _ => (None, nextkey)
      | None, None => (Some (mkKey nextkey (g_kalg c)), S nextkey)
      end in
    let pub := match key with Some k => k_id k | None => match f_req a with Some r => r | None => 0 end end in
    let sign_with : result * option (nat * nat) :=   (* signer key id, issuer DN *)
      match g_issuer c with
      | Some p =>
        let pa := art mem p in
        match f_cert pa with
        | None => (if fix_nilcert then RErr else RPanic, None)
        | Some pc =>
          match f_key pa with
          | None => (RErr, None)
          | Some pk => if ktype_eqb (k_typ pk) (g_salg c) then (ROk, Some (k_id pk, c_subj pc)) else (RErr, None)
          end
        end
      | None =>
        match key with
        | None => (RErr, None)
        | Some k => if ktype_eqb (k_typ k) (g_salg c) then (ROk, Some (k_id k, g_subj c)) else (RErr, None)
        end
      end in
    match sign_with with
    | (ROk, Some (signer, iss)) =>
      (* a certificate whose configured end of validity has already passed is expired the moment it is written *)
      let crt := mkCert (g_subj c) (g_vis c) (g_blind c) iss pub signer (negb (g_until_future c)) in
      (ROk, Some (mkFile (Some (hview_of c)) (Some crt) key (f_req a) now), nextkey')
    | (r, _) => (r, None, nextkey)
    end.

  (* BulkUpdate over the change list; [fault] = (index of the faulty write, outcome) *)
  Fixpoint bulk (es : list ent) (changes : list alias) (clock nextkey : nat) (idx : nat)
           (fault : option (nat * outcome)) (written : list alias)
    : result * list ent * nat * nat * list alias :=
    match changes with
    | [] => (ROk, es, clock, nextkey, rev written)
    | a :: rest =>
      match find_ent es a with
      | None => (RErr, es, clock, nextkey, rev written)
      | Some e =>
        let now := S clock in
        match generate es e now nextkey with
        | (ROk, Some f, nk) =>
          match fault with
          | Some (k, o) =>
            if Nat.eqb k idx then
              match o with
              | FailNoWrite => (RErr, es, now, nk, rev written)
              | Torn kp => (RDied, set_file es a (Some (torn_file kp f)), now, nk, rev (a :: written))
              | DoneThenDie => (RDied, set_file es a (Some f), now, nk, rev (a :: written))
              end
            else bulk (set_file es a (Some f)) rest now nk (S idx) fault (a :: written)
          | None => bulk (set_file es a (Some f)) rest now nk (S idx) fault (a :: written)
          end
        | (ROk, None, nk) => (RErr, es, clock, nk, rev written)
        | (r, _, nk) => (r, es, clock, nk, rev written)
        end
      end
    end.

  Definition run (d : dir) (s : strat) (fault : option (nat * outcome)) : result * dir * list alias :=
    if negb (is_consistent (d_ents d)) then (RErr, d, []) else
    match plan fix_csr (d_ents d) s with
    | None => (RErr, d, [])
    | Some ch =>
      let '(r, es, clock, nk, w) := bulk (d_ents d) ch (d_clock d) (d_nextkey d) 0 fault [] in
      (r, mkDir es clock nk, w)
    end.
End WithRepairs.
