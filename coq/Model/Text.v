(* Go string helpers used by the configuration layer: literals, comparison, splitting, strconv.Atoi. *)
From Coq Require Import List NArith ZArith Bool String.
From Coq.Strings Require Import Byte.
From Gopki.Model Require Import Bytes Base64.
Import ListNotations.
Open Scope N_scope.

Definition str (s : string) : bytes := list_byte_of_string s.
Definition seqb (a b : bytes) : bool := bytes_eqb a b.
Definition has_prefix (p s : bytes) : bool := match strip_prefix p s with Some _ => true | None => false end.

(* strings.Split on a single byte *)
Fixpoint split_on (c : N) (s : bytes) (cur : bytes) : list bytes :=
  match s with
  | [] => [rev cur]
  | b :: r => if b2n b =? c then rev cur :: split_on c r [] else split_on c r (b :: cur)
  end.
Definition split (c : N) (s : bytes) : list bytes := split_on c s [].

(* strconv.Atoi on a 64-bit platform: optional sign, at least one digit, value must fit int64 *)
Fixpoint digits_value (s : bytes) (acc : N) : option N :=
  match s with
  | [] => Some acc
  | b :: r => let n := b2n b in
              if (48 <=? n) && (n <=? 57) then digits_value r (acc * 10 + (n - 48)) else None
  end.
Definition atoi (s : bytes) : option Z :=
  let '(neg, ds) := match s with
                    | b :: r => if b2n b =? 45 then (true, r) else if b2n b =? 43 then (false, r) else (false, s)
                    | [] => (false, s)
                    end in
  match ds with
  | [] => None
  | _ => match digits_value ds 0 with
         | None => None
         | Some v => if neg then (if v <=? 9223372036854775808 then Some (- Z.of_N v)%Z else None)
                     else (if v <=? 9223372036854775807 then Some (Z.of_N v) else None)
         end
  end.

(* cert.OidFromString: "" is the empty OID; every dot-separated part goes through Atoi *)
Fixpoint map_opt {A B} (f : A -> option B) (l : list A) : option (list B) :=
  match l with
  | [] => Some []
  | x :: r => match f x, map_opt f r with Some y, Some t => Some (y :: t) | _, _ => None end
  end.
Definition oid_from_string (s : bytes) : option (list Z) :=
  match s with [] => Some [] | _ => map_opt atoi (split 46 s) end.

(* the arcs Go's marshaller accepts are non-negative; negative arcs make base-128 encoding loop forever in Go?
   no: appendBase128Int handles n < 0 by emitting nothing sensible; the harness excludes signs (schema forbids them) *)
Definition arcs_to_N (l : list Z) : option (list N) :=
  map_opt (fun z => if (0 <=? z)%Z then Some (Z.to_N z) else None) l.

(* hex literals for test vectors and correspondence cases *)
Definition hexval (b : byte) : N :=
  let n := b2n b in
  if (48 <=? n) && (n <=? 57) then n - 48 else if (97 <=? n) && (n <=? 102) then n - 87
  else if (65 <=? n) && (n <=? 70) then n - 55 else 0.
Fixpoint unhex_bytes (l : bytes) : bytes :=
  match l with
  | a :: b :: r => n2b (hexval a * 16 + hexval b) :: unhex_bytes r
  | _ => []
  end.
Definition B (s : string) : bytes := unhex_bytes (str s).

Definition is_space (b : byte) : bool :=
  let n := b2n b in (n =? 32) || ((9 <=? n) && (n <=? 13)).
Fixpoint trim_left (s : bytes) : bytes :=
  match s with b :: r => if is_space b then trim_left r else s | [] => [] end.
Definition trim_space (s : bytes) : bytes := rev (trim_left (rev (trim_left s))).
