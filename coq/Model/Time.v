(* Calendar arithmetic (proleptic Gregorian, as Go's time package), date parsing, validity computation. *)
From Coq Require Import List NArith ZArith Bool String.
From Coq.Strings Require Import Byte.
From Gopki.Model Require Import Bytes Base64 Der Asn1 Text.
Import ListNotations.
Open Scope Z_scope.

Definition is_leap (y : Z) : bool := (y mod 4 =? 0) && (negb (y mod 100 =? 0) || (y mod 400 =? 0)).
Definition days_in_month (y m : Z) : Z :=
  if m =? 2 then (if is_leap y then 29 else 28)
  else if (m =? 4) || (m =? 6) || (m =? 9) || (m =? 11) then 30 else 31.

(* days since 1970-01-01 (H. Hinnant's algorithm) *)
Definition days_from_civil (y m d : Z) : Z :=
  let y' := if m <=? 2 then y - 1 else y in
  let era := y' / 400 in
  let yoe := y' - era * 400 in
  let mp := (m + 9) mod 12 in
  let doy := (153 * mp + 2) / 5 + d - 1 in
  let doe := yoe * 365 + yoe / 4 - yoe / 100 + doy in
  era * 146097 + doe - 719468.

Definition civil_from_days (z : Z) : Z * Z * Z :=
  let z := z + 719468 in
  let era := z / 146097 in
  let doe := z - era * 146097 in
  let yoe := (doe - doe / 1460 + doe / 36524 - doe / 146096) / 365 in
  let y := yoe + era * 400 in
  let doy := doe - (365 * yoe + yoe / 4 - yoe / 100) in
  let mp := (5 * doy + 2) / 153 in
  let d := doy - (153 * mp + 2) / 5 + 1 in
  let m := if mp <? 10 then mp + 3 else mp - 9 in
  ((if m <=? 2 then y + 1 else y), m, d).

(* a wall-clock time: date + seconds of the day *)
Record wall := mkWall { w_y : Z; w_m : Z; w_d : Z; w_sod : Z }.

(* time.Time.AddDate: month overflow normalised first, then days *)
Definition add_date (t : wall) (dy dm dd : Z) : wall :=
  let m0 := w_m t - 1 + dm in
  let y1 := w_y t + dy + m0 / 12 in
  let m1 := m0 mod 12 + 1 in
  let '(y2, m2, d2) := civil_from_days (days_from_civil y1 m1 1 + (w_d t + dd - 1)) in
  mkWall y2 m2 d2 (w_sod t).

Definition civil_of_wall (t : wall) : civil :=
  mkCivil (Z.to_N (w_y t)) (Z.to_N (w_m t)) (Z.to_N (w_d t))
          (Z.to_N (w_sod t / 3600)) (Z.to_N ((w_sod t / 60) mod 60)) (Z.to_N (w_sod t mod 60)).

(* local wall clock -> UTC wall clock, given the zone offset (seconds east) valid at that local time *)
Definition to_utc (t : wall) (offset : Z) : wall :=
  let secs := days_from_civil (w_y t) (w_m t) (w_d t) * 86400 + w_sod t - offset in
  let '(y, m, d) := civil_from_days (secs / 86400) in
  mkWall y m d (secs mod 86400).

(* YYYY-MM-DD; [swapped] = the layout "2006-02-01" of the code as written (F1) *)
Definition parse_date (swapped : bool) (s : bytes) : option (Z * Z * Z) :=
  match split 45 s with
  | [ys; as_; bs] =>
    match atoi ys, atoi as_, atoi bs with
    | Some y, Some a, Some b =>
      if negb ((List.length ys =? 4)%nat && (List.length as_ =? 2)%nat && (List.length bs =? 2)%nat) then None else
      let '(m, d) := if swapped then (b, a) else (a, b) in
      if (1 <=? m) && (m <=? 12) && (1 <=? d) && (d <=? days_in_month y m) then Some (y, m, d) else None
    | _, _, _ => None
    end
  | _ => None
  end.

(* duration "^(([0-9]+)y)?(([0-9]+)m)?(([0-9]+)d)?$" -> (years, months, days) *)
Fixpoint take_digits (s : bytes) (acc : bytes) : bytes * bytes :=
  match s with
  | b :: r => if (48 <=? Z.of_N (b2n b)) && (Z.of_N (b2n b) <=? 57) then take_digits r (b :: acc) else (rev acc, s)
  | [] => (rev acc, [])
  end.
Definition duration_part (unit_ : N) (s : bytes) : option (Z * bytes) :=
  match take_digits s [] with
  | ([], _) => Some (0, s)
  | (ds, u :: r) => if (b2n u =? unit_)%N then match atoi ds with Some v => Some (v, r) | None => Some (9223372036854775807, r) end
                    else None
  | (_, []) => None
  end.
Definition parse_duration (s : bytes) : option (Z * Z * Z) :=
  match duration_part 121 s with
  | Some (y, r1) =>
    match duration_part 109 r1 with
    | Some (m, r2) =>
      match duration_part 100 r2 with
      | Some (d, []) => Some (y, m, d)
      | _ => None
      end
    | None => (* digits followed by something other than 'm': may still be days *)
      match duration_part 100 r1 with Some (d, []) => Some (y, 0, d) | _ => None end
    end
  | None =>
    match duration_part 109 s with
    | Some (m, r2) => match duration_part 100 r2 with Some (d, []) => Some (0, m, d) | _ => None end
    | None => match duration_part 100 s with Some (d, []) => Some (0, 0, d) | _ => None end
    end
  end.

Record validity_cfg := mkVal { v_from : bytes; v_until : bytes; v_duration : bytes }.
Record validity := mkValidity { vl_from : wall; vl_until : wall; vl_is_set : bool; vl_is_static : bool }.

(* CertValidity.toTimeStruct; [now] = local wall clock at parse time *)
Definition to_time_struct_dates (swapped : bool) (v : validity_cfg) (now : wall) : option validity :=
  let from_r := match v_from v with
                | [] => Some (now, false)
                | s => match parse_date swapped s with Some (y, m, d) => Some (mkWall y m d 0, true) | None => None end
                end in
  match from_r with
  | None => None
  | Some (frm, has_from) =>
    match v_until v, v_duration v with
    | _ :: _, _ :: _ => None
    | (_ :: _) as u, [] =>
      match parse_date swapped u with
      | Some (y, m, d) => Some (mkValidity frm (mkWall y m d 0) true has_from)
      | None => None
      end
    | [], (_ :: _) as du =>
      match parse_duration du with
      | Some (y, m, d) =>
        (* a component that does not fit an int or exceeds what X.509 dates can reach is a configuration error *)
        if (y <=? 9999) && (m <=? 9999 * 12) && (d <=? 9999 * 366)
        then Some (mkValidity frm (add_date frm y m d) true has_from) else None
      | None => None
      end
    | [], [] => Some (mkValidity frm (add_date frm 5 0 0) has_from has_from)
    end
  end.

(* neither X.509 nor the JSON form the configuration hash is made from can express a date after the year 9999 (F28) *)
Definition to_time_struct (swapped : bool) (v : validity_cfg) (now : wall) : option validity :=
  match to_time_struct_dates swapped v now with
  | Some r => if w_y (vl_until r) <=? 9999 then Some r else None
  | None => None
  end.
