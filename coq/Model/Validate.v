(* config.Validate: profile constraints on the subject DN. [validate_faithful] is the code as written
   (including the in-place reversal of the shared subject slice, returned as second component);
   [validate_fixed] is the intended repair (F7, F8). Subjects are given in DER order. *)
From Coq Require Import List Bool.
Import ListNotations.

Section Validate.
  Variable oid : Type.
  Variable oid_eqb : oid -> oid -> bool.

  (* a profile attribute: its resolved type (None when the name is neither a short name nor an OID) and its optional flag *)
  Record pattr := mkPattr { pa_oid : option oid; pa_optional : bool }.

  Fixpoint walk (allow : bool) (want : list pattr) (have : list oid) {struct have} : bool :=
    match want, have with
    | [], [] => true
    | [], _ :: _ => allow
    | _ :: _, [] => true
    | w :: ws, h :: hs =>
      match pa_oid w with
      | None => false
      | Some o => if oid_eqb o h then walk allow ws hs
                  else if allow then walk allow want hs else false
      end
    end.

  Definition validate_faithful (attrs : option (list pattr)) (allow : bool) (subject : list oid)
    : bool * list oid :=
    match attrs with
    | None => (true, subject)
    | Some ats => let s := rev subject in (walk allow ats s, s)
    end.

  (* repaired *)
  Fixpoint resolve_all (ats : list pattr) : option (list (oid * bool)) :=
    match ats with
    | [] => Some []
    | a :: r => match pa_oid a, resolve_all r with
                | Some o, Some l => Some ((o, pa_optional a) :: l)
                | _, _ => None
                end
    end.

  Fixpoint drop_until (h : oid) (want : list (oid * bool)) : option (list (oid * bool)) :=
    match want with
    | [] => None
    | (o, _) :: ws => if oid_eqb o h then Some ws else drop_until h ws
    end.

  Fixpoint in_order (want : list (oid * bool)) (have : list oid) : bool :=
    match have with
    | [] => true
    | h :: hs => match drop_until h want with
                 | Some ws => in_order ws hs
                 | None => false
                 end
    end.

  Definition required_present (want : list (oid * bool)) (have : list oid) : bool :=
    forallb (fun w => snd w || existsb (oid_eqb (fst w)) have) want.

  Definition validate_fixed (attrs : option (list pattr)) (allow : bool) (subject : list oid) : bool * list oid :=
    match attrs with
    | None => (true, subject)
    | Some ats =>
      match resolve_all ats with
      | None => (false, subject)
      | Some want => let s := rev subject in
                     ((allow || in_order want s) && required_present want s, subject)
      end
    end.
End Validate.
