(* Typed X.509 certificate and its DER form, mirroring the struct tags of cert.Certificate / TbsCertificate. *)
From Coq Require Import List NArith ZArith Bool.
From Coq.Strings Require Import Byte.
From Gopki.Model Require Import Bytes Base64 Der Asn1 Text Ext Rdn.
Import ListNotations.
Open Scope N_scope.

Record algid := mkAlg { al_oid : list N; al_params : option tlv }.
Record spki := mkSpki { sp_alg : algid; sp_bits : bytes }.

Record tcert := mkTcert {
  t_version : Z;
  t_serial : Z;
  t_inner : algid;
  t_issuer : list rdn;
  t_nb : civil;
  t_na : civil;
  t_subject : list rdn;
  t_spki : spki;
  t_iuid : option bytes;
  t_suid : option bytes;
  t_exts : list ext;
  t_outer : algid;
  t_sig : bytes
}.

Definition enc_algid (a : algid) : option tlv :=
  match der_oid (al_oid a) with
  | Some o => Some (der_seq (o :: match al_params a with Some p => [p] | None => [] end))
  | None => None
  end.

Definition enc_spki (s : spki) : option tlv :=
  match enc_algid (sp_alg s) with
  | Some a => Some (der_seq [a; der_bits_full (sp_bits s)])
  | None => None
  end.

Definition enc_uid (tag : N) (u : option bytes) : list tlv :=
  match u with Some b => [Prim Ctx tag (n2b 0 :: b)] | None => [] end.

Definition enc_tbs (c : tcert) : option tlv :=
  match enc_algid (t_inner c), enc_name (t_issuer c), der_time (t_nb c), der_time (t_na c),
        enc_name (t_subject c), enc_spki (t_spki c), map_opt enc_ext (t_exts c) with
  | Some inner, Some issuer, Some nb, Some na, Some subject, Some sp, Some exts =>
    Some (der_seq ((if (t_version c =? 0)%Z then [] else [der_explicit 0 (der_int (t_version c))])
                     ++ [der_int (t_serial c); inner; issuer; der_seq [nb; na]; subject; sp]
                     ++ enc_uid 1 (t_iuid c) ++ enc_uid 2 (t_suid c)
                     ++ (match exts with [] => [] | _ => [der_explicit 3 (der_seq exts)] end)))
  | _, _, _, _, _, _, _ => None
  end.

Definition enc_cert (c : tcert) : option tlv :=
  match enc_tbs c, enc_algid (t_outer c) with
  | Some tbs, Some outer => Some (der_seq [tbs; outer; der_bits_full (t_sig c)])
  | _, _ => None
  end.

Definition cert_der (c : tcert) : option bytes :=
  match enc_cert c with Some t => Some (enc t) | None => None end.
