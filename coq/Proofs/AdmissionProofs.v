From Coq Require Import List Arith NArith ZArith Bool Lia.
From Coq.Strings Require Import Byte.
From Gopki.Model Require Import Bytes Base64 Der Asn1 Text Ext Rdn X509.
From Gopki.Spec Require Import X509Spec ExtSpec AdmissionSpec.
From Gopki.Proofs Require Import BytesProofs DerProofs Asn1Proofs X509Proofs ExtProofs.
Import ListNotations.
Open Scope N_scope.

Definition opt_bytes (s : bytes) : option bytes := match s with [] => None | _ => Some s end.

Definition view_oid_str (s : bytes) : option (list N) :=
  match oid_from_string s with Some zs => arcs_to_N zs | None => None end.

(* what was configured, in the vocabulary of the specification *)
Definition view_naming (n : naming) : option (option s_naming) :=
  match na_oid n, na_url n, na_text n with
  | [], [], [] => Some None
  | _, _, _ =>
    match (match na_oid n with [] => Some None | o => match view_oid_str o with Some x => Some (Some x) | None => None end end) with
    | Some o => Some (Some (mkSn o (opt_bytes (na_url n)) (opt_bytes (na_text n))))
    | None => None
    end
  end.

Lemma enc_oid_str_dec s t : enc_oid_str s = Some t -> exists o, view_oid_str s = Some o /\ dec_oid t = Some o.
Proof.
  unfold enc_oid_str, view_oid_str. destruct (oid_from_string s) as [zs|]; [|discriminate].
  destruct (arcs_to_N zs) as [ns|]; [|discriminate]. intros H. exists ns. split; [reflexivity|].
  apply dec_oid_der_oid. exact H.
Qed.

Lemma der_ia5_dec s t : der_ia5 s = Some t -> t = Prim Univ 22 s /\ p_ia5 t = Some s.
Proof.
  unfold der_ia5. destruct (forallb (fun b => b2n b <? 128) s) eqn:E; [|discriminate].
  intros H. inversion H; subst. split; [reflexivity|]. cbn. rewrite E. reflexivity.
Qed.

Lemma dec_oid_not_ia5 s : dec_oid (Prim Univ 22 s) = None. Proof. reflexivity. Qed.

(* NamingAuthority: decoding a body assembled from its three optional members *)
Lemma dec_naming_parts (oo : option (list N * tlv)) (uu tt : option bytes) :
  (forall o t, oo = Some (o, t) -> dec_oid t = Some o) ->
  (forall u, uu = Some u -> forallb (fun b => b2n b <? 128) u = true) ->
  dec_naming (der_seq ((match oo with Some (_, t) => [t] | None => [] end)
                         ++ (match uu with Some u => [Prim Univ 22 u] | None => [] end)
                         ++ (match tt with Some x => [der_utf8 x] | None => [] end)))
  = Some (mkSn (option_map fst oo) uu tt).
Proof.
  intros Ho Hu. unfold dec_naming, der_seq, der_utf8.
  destruct oo as [[o t]|].
  - cbn [app take_opt]. rewrite (Ho o t eq_refl).
    destruct uu as [u|]; cbn [app take_opt p_ia5].
    + rewrite (Hu u eq_refl). destruct tt; reflexivity.
    + destruct tt; reflexivity.
  - cbn [app]. destruct uu as [u|]; cbn [app take_opt dec_oid p_ia5].
    + rewrite (Hu u eq_refl). destruct tt; reflexivity.
    + destruct tt; reflexivity.
Qed.

Lemma naming_decodes tag n l : enc_naming tag n = Some l ->
  (l = [] /\ view_naming n = Some None) \/
  (exists body v, l = [der_explicit tag (der_seq body)] /\ dec_naming (der_seq body) = Some v /\ view_naming n = Some (Some v)).
Proof.
  unfold enc_naming, view_naming.
  destruct (na_oid n) as [|o0 os] eqn:Eo, (na_url n) as [|u0 us] eqn:Eu, (na_text n) as [|t0 ts] eqn:Et;
    try (intros H; inversion H; subst; left; split; reflexivity); intros H; right.
  all: try (destruct (enc_oid_str (o0 :: os)) as [to|] eqn:Eos; [|discriminate];
            destruct (enc_oid_str_dec _ _ Eos) as (ov & Vo & Do); rewrite Vo).
  all: try (destruct (der_ia5 (u0 :: us)) as [tu|] eqn:Eus; [|discriminate];
            destruct (der_ia5_dec _ _ Eus) as (-> & Du);
            assert (forallb (fun b => b2n b <? 128) (u0 :: us) = true) as Fu
              by (unfold der_ia5 in Eus; destruct (forallb _ (u0 :: us)); [reflexivity|discriminate])).
  all: inversion H; subst; clear H.
  - eexists _, _. split; [reflexivity|]. split; [|reflexivity].
    apply (dec_naming_parts None None (Some (t0 :: ts))); intros; discriminate.
  - eexists _, _. split; [reflexivity|]. split; [|reflexivity].
    apply (dec_naming_parts None (Some (u0 :: us)) None); intros; try discriminate. congruence.
  - eexists _, _. split; [reflexivity|]. split; [|reflexivity].
    apply (dec_naming_parts None (Some (u0 :: us)) (Some (t0 :: ts))); intros; try discriminate. congruence.
  - eexists _, _. split; [reflexivity|]. split; [|reflexivity].
    apply (dec_naming_parts (Some (ov, to)) None None); intros; try discriminate. congruence.
  - eexists _, _. split; [reflexivity|]. split; [|reflexivity].
    apply (dec_naming_parts (Some (ov, to)) None (Some (t0 :: ts))); intros; try discriminate. congruence.
  - eexists _, _. split; [reflexivity|]. split; [|reflexivity].
    apply (dec_naming_parts (Some (ov, to)) (Some (u0 :: us)) None); intros; try discriminate; congruence.
  - eexists _, _. split; [reflexivity|]. split; [|reflexivity].
    apply (dec_naming_parts (Some (ov, to)) (Some (u0 :: us)) (Some (t0 :: ts))); intros; try discriminate; congruence.
Qed.

(* ProfessionInfo *)
Lemma map_opt_utf8 l : map_opt p_utf8 (map der_utf8 l) = Some l.
Proof. induction l as [|x l IH]; [reflexivity|]. cbn [map map_opt der_utf8 p_utf8]. rewrite IH. reflexivity. Qed.

Lemma p_items_utf8 its : its <> [] -> p_items (der_seq (map der_utf8 its)) = Some its.
Proof.
  intros H. destruct its as [|x xs]; [congruence|]. unfold der_seq. cbn [map p_items].
  apply (map_opt_utf8 (x :: xs)).
Qed.

Lemma dec_oid_shape t o : dec_oid t = Some o -> exists c, t = Prim Univ 6 c.
Proof.
  destruct t as [c tg v|c tg k]; cbn; [|discriminate].
  destruct c; try discriminate. destruct tg as [|p]; try discriminate.
  do 3 (destruct p; try discriminate). eauto.
Qed.

Lemma dec_pinfo_parts (na : option (list tlv * s_naming)) (it : option (list bytes))
      (oi : option (list tlv * list (list N))) (rg ad : option bytes) :
  (forall body v, na = Some (body, v) -> dec_naming (Cons Univ 16 body) = Some v) ->
  (forall its, it = Some its -> its <> []) ->
  (forall ts os, oi = Some (ts, os) -> ts <> [] /\ map_opt dec_oid ts = Some os) ->
  dec_pinfo (der_seq ((match na with Some (b, _) => [der_explicit 0 (der_seq b)] | None => [] end)
                        ++ (match it with Some its => [der_seq (map der_utf8 its)] | None => [] end)
                        ++ (match oi with Some (ts, _) => [der_seq ts] | None => [] end)
                        ++ (match rg with Some r => [Prim Univ 19 r] | None => [] end)
                        ++ (match ad with Some a => [der_octets a] | None => [] end)))
  = Some (mkSp (option_map snd na) (match it with Some x => x | None => [] end)
               (match oi with Some (_, os) => os | None => [] end) rg ad).
Proof.
  intros Hna Hit Hoi. unfold dec_pinfo. cbn [der_seq].
  (* normalise each member once *)
  assert (forall its, it = Some its -> p_items (Cons Univ 16 (map der_utf8 its)) = Some its) as Pit
      by (intros its E; apply (p_items_utf8 its (Hit its E))).
  assert (forall ts os, oi = Some (ts, os) -> p_oids (Cons Univ 16 ts) = Some os /\ p_items (Cons Univ 16 ts) = None) as Poi.
  { intros ts os E. destruct (Hoi ts os E) as [Hne Hm]. destruct ts as [|t1 tr]; [congruence|].
    split; [exact Hm|]. cbn [p_items]. cbn [map_opt] in Hm. destruct (dec_oid t1) as [o1|] eqn:D1; [|discriminate].
    destruct (dec_oid_shape t1 o1 D1) as (c & ->). reflexivity. }
  destruct na as [[body v]|]; unfold p_explicit, der_explicit, der_seq; cbn [app take_opt option_map snd].
  - rewrite N.eqb_refl, (Hna body v eq_refl).
    destruct it as [its|]; cbn [app take_opt].
    + rewrite (Pit its eq_refl).
      destruct oi as [[ts os]|]; cbn [app take_opt].
      * destruct (Poi ts os eq_refl) as [Po _]. rewrite Po. destruct rg, ad; reflexivity.
      * destruct rg, ad; reflexivity.
    + destruct oi as [[ts os]|]; cbn [app take_opt].
      * destruct (Poi ts os eq_refl) as [Po Pi]. rewrite Pi. cbn [take_opt]. rewrite Po. destruct rg, ad; reflexivity.
      * destruct rg, ad; reflexivity.
  - destruct it as [its|]; cbn [app take_opt p_explicit].
    + rewrite (Pit its eq_refl).
      destruct oi as [[ts os]|]; cbn [app take_opt].
      * destruct (Poi ts os eq_refl) as [Po _]. rewrite Po. destruct rg, ad; reflexivity.
      * destruct rg, ad; reflexivity.
    + destruct oi as [[ts os]|]; cbn [app take_opt p_explicit].
      * destruct (Poi ts os eq_refl) as [Po Pi]. rewrite Pi. cbn [take_opt]. rewrite Po. destruct rg, ad; reflexivity.
      * destruct rg, ad; reflexivity.
Qed.

Lemma oid_strs_decode l ts : map_opt enc_oid_str l = Some ts ->
  exists os, map_opt view_oid_str l = Some os /\ map_opt dec_oid ts = Some os /\ length ts = length l.
Proof.
  revert ts. induction l as [|s r IH]; intros ts H; cbn [map_opt] in H.
  - inversion H; subst. exists []. repeat split.
  - destruct (enc_oid_str s) as [t|] eqn:E; [|discriminate]. destruct (map_opt enc_oid_str r) as [tr|] eqn:Er; [|discriminate].
    inversion H; subst. destruct (IH tr eq_refl) as (os & V & D & L). destruct (enc_oid_str_dec s t E) as (o & Vo & Do).
    exists (o :: os). cbn [map_opt length]. rewrite Vo, V, Do, D, L. repeat split.
Qed.

Section Views.
  Variable fx : fixes.

  Definition view_addinfo (a : bytes) : option (option bytes) :=
    match a with
    | [] => Some None
    | _ => match raw_of fx a with Some [] => Some None | Some b => Some (Some b) | None => None end
    end.

  Definition view_pinfo (p : prof_info) : option s_pinfo :=
    match view_naming (pi_naming p), map_opt view_oid_str (pi_oids p), view_addinfo (pi_addinfo p) with
    | Some na, Some os, Some ai =>
      match pi_regnum p with
      | [] => Some (mkSp na (pi_items p) os None ai)
      | r => if forallb (fun b => is_printable_byte b || (b2n b =? 42) || (b2n b =? 38)) r
             then Some (mkSp na (pi_items p) os (Some r) ai) else None
      end
    | _, _, _ => None
    end.

  Theorem pinfo_decodes p t : enc_prof_info fx p = Some t ->
    exists v, dec_pinfo t = Some v /\ view_pinfo p = Some v.
  Proof.
    unfold enc_prof_info, view_pinfo.
    destruct (enc_naming 0 (pi_naming p)) as [nal|] eqn:En; [|discriminate].
    destruct (map_opt enc_oid_str (pi_oids p)) as [ots|] eqn:Eo; [|discriminate].
    destruct (oid_strs_decode _ _ Eo) as (os & Vos & Dos & Los). rewrite Vos.
    set (rn := match pi_regnum p with [] => Some [] | r => match der_printable r with Some t0 => Some [t0] | None => None end end).
    destruct rn as [rnl|] eqn:Ern; [|discriminate]. subst rn.
    set (ai := match pi_addinfo p with [] => Some [] | a => match raw_of fx a with Some [] => Some [] | Some b => Some [der_octets b] | None => None end end).
    destruct ai as [ail|] eqn:Eai; [|discriminate]. subst ai.
    intros H. injection H as <-.
    (* the optional members, as options *)
    assert (exists rg, rnl = (match rg with Some r => [Prim Univ 19 r] | None => [] end) /\
              (match pi_regnum p with
               | [] => rg = None
               | r => rg = Some r /\ forallb (fun b => is_printable_byte b || (b2n b =? 42) || (b2n b =? 38)) r = true end)) as (rg & Erg & Vrg).
    { destruct (pi_regnum p) as [|r0 rs] eqn:Er.
      - inversion Ern; subst. exists None. split; reflexivity.
      - unfold der_printable in Ern.
        destruct (forallb (fun b => is_printable_byte b || (b2n b =? 42) || (b2n b =? 38)) (r0 :: rs)) eqn:F; [|discriminate].
        inversion Ern; subst. exists (Some (r0 :: rs)). split; [reflexivity|split; [reflexivity|exact F]]. }
    assert (exists ad, ail = (match ad with Some a => [der_octets a] | None => [] end) /\ view_addinfo (pi_addinfo p) = Some ad) as (ad & Ead & Vad).
    { unfold view_addinfo. destruct (pi_addinfo p) as [|a0 as_] eqn:Ea.
      - inversion Eai; subst. exists None. split; reflexivity.
      - destruct (raw_of fx (a0 :: as_)) as [[|b0 bs]|]; [| |discriminate]; inversion Eai; subst.
        + exists None. split; reflexivity.
        + exists (Some (b0 :: bs)). split; reflexivity. }
    rewrite Vad. subst rnl ail.
    remember (match pi_items p with [] => None | its => Some its end) as it eqn:Hit.
    assert ((match pi_items p with [] => [] | b :: l => [der_seq (der_utf8 b :: map der_utf8 l)] end) =
            (match it with Some its => [der_seq (map der_utf8 its)] | None => [] end)) as Eit
        by (rewrite Hit; destruct (pi_items p); reflexivity).
    assert (pi_items p = match it with Some x => x | None => [] end) as Vit by (rewrite Hit; destruct (pi_items p); reflexivity).
    remember (match ots with [] => None | _ => Some (ots, os) end) as oi eqn:Hoi.
    assert ((match ots with [] => [] | _ => [der_seq ots] end) = (match oi with Some (ts, _) => [der_seq ts] | None => [] end)) as Eoi
        by (rewrite Hoi; destruct ots; reflexivity).
    assert (os = match oi with Some (_, o) => o | None => [] end) as Voi.
    { rewrite Hoi. destruct ots; [cbn in Dos; inversion Dos; reflexivity|reflexivity]. }
    rewrite Eit, Eoi.
    destruct (naming_decodes 0 _ _ En) as [[-> Vn]|(body & v & -> & Dn & Vn)]; rewrite Vn.
    - eexists. split.
      + apply (dec_pinfo_parts None it oi rg ad); [intros; discriminate| |].
        * intros its E. rewrite Hit in E. destruct (pi_items p); [discriminate|inversion E; discriminate].
        * intros ts o E. rewrite Hoi in E. destruct ots as [|t1 tr]; [discriminate|]. inversion E; subst ts o. split; [discriminate|exact Dos].
      + cbn [option_map]. rewrite <- Vit, <- Voi.
        destruct (pi_regnum p) as [|r0 rs]; [subst rg; reflexivity|]. destruct Vrg as [-> F]. rewrite F. reflexivity.
    - eexists. split.
      + apply (dec_pinfo_parts (Some (body, v)) it oi rg ad).
        * intros b0 v0 E. inversion E; subst. exact Dn.
        * intros its E. rewrite Hit in E. destruct (pi_items p); [discriminate|inversion E; discriminate].
        * intros ts o E. rewrite Hoi in E. destruct ots as [|t1 tr]; [discriminate|]. inversion E; subst ts o. split; [discriminate|exact Dos].
      + cbn [option_map snd]. rewrite <- Vit, <- Voi.
        destruct (pi_regnum p) as [|r0 rs]; [subst rg; reflexivity|]. destruct Vrg as [-> F]. rewrite F. reflexivity.
  Qed.
End Views.

Section Views2.
  Variable fx : fixes.
  Hypothesis fixed_gn : fx_adm_gn fx = true.

  Definition view_adm_name (tn : bytes * bytes) : option (option gen_name) :=
    let '(ty, name) := tn in
    if seqb ty [] then Some None
    else if seqb ty s_ip then match parse_ip true name with Some b => Some (Some (GnIp b)) | None => None end
    else if seqb ty s_dns then Some (Some (GnDns name))
    else if seqb ty s_mail then Some (Some (GnRfc822 name))
    else if seqb ty s_url then Some (Some (GnUri name))
    else None.

  Lemma adm_name_decodes tn g : adm_name fx (fst tn) (snd tn) = Some g ->
    match g with
    | None => view_adm_name tn = Some None
    | Some t => exists gn, dec_gen_name t = Some gn /\ view_adm_name tn = Some (Some gn)
    end.
  Proof.
    destruct tn as [ty name]. unfold adm_name, view_adm_name. cbn [fst snd]. rewrite fixed_gn.
    destruct (seqb ty []); [intros H; inversion H; reflexivity|].
    destruct (seqb ty s_ip).
    { destruct (parse_ip true name) as [b|] eqn:P; [|discriminate]. intros H. inversion H; subst.
      exists (GnIp b). split; [|reflexivity]. cbn [dec_gen_name]. rewrite (parse_ip_length _ _ _ P). reflexivity. }
    destruct (seqb ty s_dns); [intros H; inversion H; subst; eexists; split; reflexivity|].
    destruct (seqb ty s_mail); [intros H; inversion H; subst; eexists; split; reflexivity|].
    destruct (seqb ty s_url); [intros H; inversion H; subst; eexists; split; reflexivity|].
    discriminate.
  Qed.

  Definition view_adms (a : admissions) : option s_adms :=
    match view_adm_name (ad_auth a), view_naming (ad_naming a), map_opt (view_pinfo fx) (ad_infos a) with
    | Some au, Some na, Some pis => Some (mkSa au na pis)
    | _, _, _ => None
    end.

  Lemma pinfos_decode l ts : map_opt (enc_prof_info fx) l = Some ts ->
    exists vs, map_opt dec_pinfo ts = Some vs /\ map_opt (view_pinfo fx) l = Some vs /\ length ts = length l.
  Proof.
    revert ts. induction l as [|p r IH]; intros ts H; cbn [map_opt] in H.
    - inversion H; subst. exists []. repeat split.
    - destruct (enc_prof_info fx p) as [t|] eqn:E; [|discriminate].
      destruct (map_opt (enc_prof_info fx) r) as [tr|] eqn:Er; [|discriminate]. inversion H; subst.
      destruct (IH tr eq_refl) as (vs & D & V & L). destruct (pinfo_decodes fx p t E) as (v & Dv & Vv).
      exists (v :: vs). cbn [map_opt length]. rewrite Dv, D, Vv, V, L. repeat split.
  Qed.

  Lemma dec_adms_parts (au : option (tlv * gen_name)) (na : option (list tlv * s_naming)) (pi : option (list tlv * list s_pinfo)) :
    (forall t g, au = Some (t, g) -> dec_gen_name t = Some g) ->
    (forall b v, na = Some (b, v) -> dec_naming (Cons Univ 16 b) = Some v) ->
    (forall ts vs, pi = Some (ts, vs) -> ts <> [] /\ map_opt dec_pinfo ts = Some vs) ->
    dec_adms (der_seq ((match au with Some (t, _) => [der_explicit 0 t] | None => [] end)
                         ++ (match na with Some (b, _) => [der_explicit 1 (der_seq b)] | None => [] end)
                         ++ (match pi with Some (ts, _) => [der_seq ts] | None => [] end)))
    = Some (mkSa (option_map snd au) (option_map snd na) (match pi with Some (_, vs) => vs | None => [] end)).
  Proof.
    intros Hau Hna Hpi. unfold dec_adms, p_explicit, der_explicit, der_seq.
    assert (forall ts vs, pi = Some (ts, vs) -> p_pinfos (Cons Univ 16 ts) = Some vs) as Ppi.
    { intros ts vs E. destruct (Hpi ts vs E) as [Hne Hm]. destruct ts; [congruence|exact Hm]. }
    destruct au as [[t g]|]; cbn [app take_opt option_map snd N.eqb Pos.eqb].
    - rewrite (Hau t g eq_refl).
      destruct na as [[b v]|]; cbn [app take_opt option_map snd N.eqb Pos.eqb].
      + rewrite (Hna b v eq_refl). destruct pi as [[ts vs]|]; cbn [app take_opt]; [rewrite (Ppi ts vs eq_refl)|]; reflexivity.
      + destruct pi as [[ts vs]|]; cbn [app take_opt]; [rewrite (Ppi ts vs eq_refl)|]; reflexivity.
    - destruct na as [[b v]|]; cbn [app take_opt option_map snd N.eqb Pos.eqb].
      + rewrite (Hna b v eq_refl). destruct pi as [[ts vs]|]; cbn [app take_opt]; [rewrite (Ppi ts vs eq_refl)|]; reflexivity.
      + destruct pi as [[ts vs]|]; cbn [app take_opt]; [rewrite (Ppi ts vs eq_refl)|]; reflexivity.
  Qed.

  Theorem adms_decodes a t : enc_admissions fx a = Some t ->
    exists v, dec_adms t = Some v /\ view_adms a = Some v.
  Proof.
    unfold enc_admissions, view_adms.
    destruct (adm_name fx (fst (ad_auth a)) (snd (ad_auth a))) as [g|] eqn:Eg; [|discriminate].
    destruct (enc_naming 1 (ad_naming a)) as [nal|] eqn:En; [|discriminate].
    destruct (map_opt (enc_prof_info fx) (ad_infos a)) as [pis|] eqn:Ep; [|discriminate].
    destruct (pinfos_decode _ _ Ep) as (vs & Dp & Vp & Lp). rewrite Vp.
    pose proof (adm_name_decodes (ad_auth a) g Eg) as Ag.
    intros H. injection H as <-.
    remember (match pis with [] => None | _ => Some (pis, vs) end) as pi eqn:Hpi.
    assert ((match pis with [] => [] | _ => [der_seq pis] end) = (match pi with Some (ts, _) => [der_seq ts] | None => [] end)) as Epi
        by (rewrite Hpi; destruct pis; reflexivity).
    assert (vs = match pi with Some (_, x) => x | None => [] end) as Vpi.
    { rewrite Hpi. destruct pis; [cbn in Dp; inversion Dp; reflexivity|reflexivity]. }
    assert (forall ts x, pi = Some (ts, x) -> ts <> [] /\ map_opt dec_pinfo ts = Some x) as Hp.
    { intros ts x E. rewrite Hpi in E. destruct pis as [|p1 pr]; [discriminate|]. inversion E; subst ts x. split; [discriminate|exact Dp]. }
    rewrite Epi.
    destruct (naming_decodes 1 _ _ En) as [[-> Vn]|(body & v & -> & Dn & Vn)]; rewrite Vn;
      destruct g as [tg|].
    - destruct Ag as (gn & Dg & Vg). rewrite Vg. eexists. split.
      + apply (dec_adms_parts (Some (tg, gn)) None pi); [intros ? ? E; inversion E; subst; exact Dg|intros; discriminate|exact Hp].
      + cbn [option_map snd]. rewrite <- Vpi. reflexivity.
    - rewrite Ag. eexists. split.
      + apply (dec_adms_parts None None pi); [intros; discriminate|intros; discriminate|exact Hp].
      + cbn [option_map]. rewrite <- Vpi. reflexivity.
    - destruct Ag as (gn & Dg & Vg). rewrite Vg. eexists. split.
      + apply (dec_adms_parts (Some (tg, gn)) (Some (body, v)) pi); [intros ? ? E; inversion E; subst; exact Dg|intros ? ? E; inversion E; subst; exact Dn|exact Hp].
      + cbn [option_map snd]. rewrite <- Vpi. reflexivity.
    - rewrite Ag. eexists. split.
      + apply (dec_adms_parts None (Some (body, v)) pi); [intros; discriminate|intros ? ? E; inversion E; subst; exact Dn|exact Hp].
      + cbn [option_map snd]. rewrite <- Vpi. reflexivity.
  Qed.

  Definition view_admission (a : admission) : option s_adm :=
    match view_adm_name (am_auth a), map_opt view_adms (am_list a) with
    | Some au, Some l => Some (mkSm au l)
    | _, _ => None
    end.

  (* C16: the admission extension value is the CommonPKI AdmissionSyntax of exactly the configured content *)
  Theorem admission_decodes crit a e : build_admission fx crit a = Some e ->
    exists t v, x_value e = enc t /\ spec_dec_admission t = Some v /\ view_admission a = Some v /\ x_crit e = crit.
  Proof.
    unfold build_admission, view_admission.
    destruct (adm_name fx (fst (am_auth a)) (snd (am_auth a))) as [g|] eqn:Eg; [|discriminate].
    destruct (map_opt (enc_admissions fx) (am_list a)) as [l|] eqn:El; [|discriminate].
    intros H. injection H as <-. cbn [x_value x_crit].
    pose proof (adm_name_decodes (am_auth a) g Eg) as Ag.
    assert (exists vs, map_opt dec_adms l = Some vs /\ map_opt view_adms (am_list a) = Some vs) as (vs & Dl & Vl).
    { revert l El. induction (am_list a) as [|x r IH]; intros l El; cbn [map_opt] in El.
      - inversion El; subst. exists []. split; reflexivity.
      - destruct (enc_admissions fx x) as [t|] eqn:E; [|discriminate].
        destruct (map_opt (enc_admissions fx) r) as [tr|] eqn:Er; [|discriminate]. inversion El; subst.
        destruct (IH tr eq_refl) as (ws & D & V). destruct (adms_decodes x t E) as (v & Dv & Vv).
        exists (v :: ws). cbn [map_opt]. rewrite Dv, D, Vv, V. split; reflexivity. }
    rewrite Vl. destruct g as [tg|].
    - destruct Ag as (gn & Dg & Vg). rewrite Vg.
      exists (der_seq ([tg] ++ [der_seq l])), (mkSm (Some gn) vs). split; [reflexivity|]. split; [|split; reflexivity].
      unfold spec_dec_admission, der_seq. cbn [app take_opt]. rewrite Dg, Dl. reflexivity.
    - rewrite Ag. exists (der_seq ([] ++ [der_seq l])), (mkSm None vs). split; [reflexivity|]. split; [|split; reflexivity].
      unfold spec_dec_admission, der_seq. cbn [app take_opt dec_gen_name]. rewrite Dl. reflexivity.
  Qed.
End Views2.

(* F12: as written, a mail (or url) authority is emitted under the dNSName tag *)
Example C16_refuted_faithful :
  adm_name none_fixed s_mail [n2b 97] = Some (Some (Prim Ctx 2 [n2b 97])) /\
  adm_name all_fixed s_mail [n2b 97] = Some (Some (Prim Ctx 1 [n2b 97])).
Proof. vm_compute. split; reflexivity. Qed.
