From Coq Require Import List NArith Bool String.
From Gopki.Model Require Import Algs.
Import ListNotations.

Definition keyalg_eqb (a b : option keyalg) : bool :=
  match a, b with
  | Some x, Some y => match x, y with
                      | RSA1024, RSA1024 | RSA2048, RSA2048 | RSA4096, RSA4096 | RSA8192, RSA8192
                      | P224, P224 | P256, P256 | P384, P384 | P521, P521
                      | BP256r1, BP256r1 | BP384r1, BP384r1 | BP512r1, BP512r1
                      | BP256t1, BP256t1 | BP384t1, BP384t1 | BP512t1, BP512t1 => true
                      | _, _ => false end
  | None, None => true
  | _, _ => false
  end.

(* C05 (finite domain = the schema's enum, enumerated completely) *)
Theorem key_table_repaired : forall s, In s key_names -> keyalg_of_name true s = spec_keyalg s /\ spec_keyalg s <> None.
Proof.
  assert (forallb (fun s => keyalg_eqb (keyalg_of_name true s) (spec_keyalg s) &&
                            match spec_keyalg s with Some _ => true | None => false end) key_names = true) as S
      by (vm_compute; reflexivity).
  intros s Hs. rewrite forallb_forall in S. specialize (S s Hs). apply andb_prop in S as [S1 S2].
  split.
  - destruct (keyalg_of_name true s) as [[]|], (spec_keyalg s) as [[]|]; try discriminate; reflexivity.
  - destruct (spec_keyalg s); [discriminate|discriminate].
Qed.

(* F2: as written, brainpoolP384r1 (and three more names) do not denote their curve *)
Example C05_refuted_faithful :
  keyalg_of_name false "brainpoolP384r1" = Some BP256r1 /\ spec_keyalg "brainpoolP384r1" = Some BP384r1.
Proof. split; reflexivity. Qed.

Theorem default_sig_scheme : forall s, In s key_names ->
  default_sig_name s = (match spec_keyalg s with
                        | Some k => if is_rsa k then "RSAwithSHA256" else "ECDSAwithSHA256"
                        | None => "ECDSAwithSHA256" end)%string.
Proof.
  assert (forallb (fun s => String.eqb (default_sig_name s)
            (match spec_keyalg s with Some k => if is_rsa k then "RSAwithSHA256" else "ECDSAwithSHA256" | None => "ECDSAwithSHA256" end)%string) key_names = true) as S
      by (vm_compute; reflexivity).
  intros s Hs. rewrite forallb_forall in S. apply String.eqb_eq. apply S. exact Hs.
Qed.
