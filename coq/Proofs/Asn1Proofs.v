From Coq Require Import List Arith NArith ZArith Bool Lia.
From Coq Require Import ZifyN ZifyBool ZifyNat.
From Coq.Strings Require Import Byte.
From Gopki.Model Require Import Bytes Der Asn1.
From Gopki.Proofs Require Import BytesProofs.
Import ListNotations.
Open Scope N_scope.

(* ------------------------------------------------------------ INTEGER *)
Lemma pos_content_spec n :
  exists h r, pos_content n = h :: r /\ b2n h < 128 /\ be_value (pos_content n) = n /\
              (r <> [] -> b2n h = 0 -> exists h2 r2, r = h2 :: r2 /\ 128 <= b2n h2).
Proof.
  unfold pos_content. destruct (be_digits_spec n) as [V M].
  destruct (be_digits n) as [|d ds] eqn:E.
  - exists (n2b 0), []. unfold be_value in V. cbn in V. subst n.
    split; [reflexivity|]. split; [rewrite b2n_n2b; lia|]. split.
    + vm_compute. reflexivity.
    + intros H. congruence.
  - destruct (b2n d <? 128) eqn:L.
    + exists d, ds. split; [reflexivity|]. split; [lia|]. split; [exact V|]. intros _ H0. cbn in M. congruence.
    + exists (n2b 0), (d :: ds). split; [reflexivity|]. split; [rewrite b2n_n2b; lia|]. split.
      * rewrite be_value_cons, b2n_n2b by lia. lia.
      * intros _ _. exists d, ds. split; [reflexivity|lia].
Qed.

Lemma compl_b2n b : b2n (compl b) = 255 - b2n b.
Proof. unfold compl. pose proof (b2n_lt b). rewrite b2n_n2b; lia. Qed.

Lemma be_value_compl l : be_value (map compl l) + be_value l + 1 = 256 ^ blen l.
Proof.
  induction l as [|x l IH]; [reflexivity|].
  cbn [map]. rewrite !be_value_cons, compl_b2n. unfold blen in *. rewrite map_length. cbn [length].
  rewrite Nat2N.inj_succ, N.pow_succ_r'. pose proof (b2n_lt x).
  set (P := 256 ^ N.of_nat (length l)) in *. nia.
Qed.

Theorem int_roundtrip z : int_of_content (int_content z) = Some z.
Proof.
  unfold int_content. destruct (0 <=? z)%Z eqn:S.
  - destruct (pos_content_spec (Z.to_N z)) as (h & r & E & Hh & V & Min). rewrite E in *.
    unfold int_of_content. destruct r as [|h2 r2].
    + replace (b2n h <? 128) with true by lia. f_equal. unfold be_value in V. cbn in V. lia.
    + destruct ((b2n h =? 0) && (b2n h2 <? 128)) eqn:A.
      * apply andb_prop in A as [A1 A2]. destruct Min as (h2' & r2' & E2 & G); [discriminate|lia|].
        inversion E2; subst. lia.
      * replace ((b2n h =? 255) && (128 <=? b2n h2)) with false by lia.
        replace (b2n h <? 128) with true by lia. f_equal. lia.
  - set (m := Z.to_N (- z - 1)).
    destruct (pos_content_spec m) as (h & r & E & Hh & V & Min). rewrite E in *.
    cbn [map]. unfold int_of_content.
    pose proof (be_value_compl (h :: r)) as C. cbn [map] in C. rewrite V in C.
    destruct r as [|h2 r2]; cbn [map].
    + rewrite compl_b2n. replace (255 - b2n h <? 128) with false by lia. f_equal.
      unfold be_value in V. cbn in V. subst m. lia.
    + rewrite !compl_b2n.
      replace ((255 - b2n h =? 0) && (255 - b2n h2 <? 128)) with false by lia.
      destruct ((255 - b2n h =? 255) && (128 <=? 255 - b2n h2)) eqn:A.
      * apply andb_prop in A as [A1 A2]. destruct Min as (h2' & r2' & E2 & G); [discriminate|lia|].
        inversion E2; subst. pose proof (b2n_lt h2'). lia.
      * replace (255 - b2n h <? 128) with false by lia. f_equal.
        unfold blen in *. cbn [length map] in *. rewrite ?map_length in *.
        subst m. lia.
Qed.


(* ------------------------------------------------------------ OBJECT IDENTIFIER *)
Fixpoint gval (l : list N) (acc : N) : N :=
  match l with [] => acc | g :: r => gval r (acc * 128 + g) end.

Lemma gval_app a : forall b acc, gval (a ++ b) acc = gval b (gval a acc).
Proof. induction a as [|x a IH]; intros; cbn; [reflexivity|apply IH]. Qed.

Lemma b128_digits_fuel_spec fuel : forall n acc,
  n < 2 ^ N.of_nat fuel ->
  exists ds, b128_digits_fuel fuel n acc = ds ++ acc /\ gval ds 0 = n /\ Forall (fun g => g < 128) ds /\
             (match ds with [] => n = 0 | d :: _ => d <> 0 end).
Proof.
  induction fuel as [|f IH]; intros n acc Hn.
  - cbn in Hn. assert (n = 0) by lia. subst. exists []. cbn. auto.
  - cbn [b128_digits_fuel]. destruct (n =? 0) eqn:E.
    + assert (n = 0) by lia. subst. exists []. cbn. auto.
    + assert (n <> 0) as Hn0 by lia.
      assert (n / 128 < 2 ^ N.of_nat f) as Hq.
      { rewrite Nat2N.inj_succ, N.pow_succ_r' in Hn.
        assert (n / 128 <= n / 2) by (apply N.div_le_compat_l; lia).
        assert (n / 2 < 2 ^ N.of_nat f) by (apply N.div_lt_upper_bound; lia). lia. }
      destruct (IH (n / 128) ((n mod 128) :: acc) Hq) as (ds & E1 & E2 & E3 & E4).
      exists (ds ++ [n mod 128]). split; [|split; [|split]].
      * rewrite E1, <- app_assoc. reflexivity.
      * rewrite gval_app, E2. cbn. pose proof (N.div_mod n 128). lia.
      * apply Forall_app. split; [exact E3|]. constructor; [apply N.mod_lt; lia|constructor].
      * destruct ds as [|d ds']; cbn; [|exact E4]. pose proof (N.div_mod n 128). lia.
Qed.

Lemma b128_digits_spec n :
  let ds := b128_digits n in
  ds <> [] /\ gval ds 0 = n /\ Forall (fun g => g < 128) ds /\
  (forall d r, ds = d :: r -> r <> [] -> d <> 0).
Proof.
  unfold b128_digits.
  destruct (b128_digits_fuel_spec (N.to_nat (N.size n)) n []) as (ds & E1 & E2 & E3 & E4).
  { rewrite N2Nat.id. apply N.size_gt. }
  rewrite E1, app_nil_r. destruct ds as [|d ds'].
  - subst n. cbn. repeat split; try discriminate; [repeat constructor; lia|].
    intros d r H. inversion H; subst. congruence.
  - cbn zeta. split; [discriminate|]. split; [exact E2|]. split; [exact E3|].
    intros d0 r H _. inversion H; subst. exact E4.
Qed.

Lemma arcs_of_set_cont : forall gs acc st rest,
  gs <> [] -> Forall (fun g => g < 128) gs ->
  (st = false -> forall d r, gs = d :: r -> r <> [] -> d <> 0) ->
  arcs_of (set_cont gs ++ rest) acc st =
  match arcs_of rest 0 false with Some t => Some (gval gs acc :: t) | None => None end.
Proof.
  induction gs as [|g r IH]; intros acc st rest Hne Hf Hst; [congruence|].
  inversion Hf as [|? ? Hg Hr]; subst.
  destruct r as [|g2 r2].
  - cbn [set_cont app arcs_of gval]. rewrite b2n_n2b by lia.
    replace (negb st && (g =? 128)) with false by (destruct st; cbn [negb andb]; [reflexivity|symmetry; apply N.eqb_neq; lia]).
    replace (g <? 128) with true by lia. replace (g mod 128) with g by (symmetry; apply N.mod_small; lia).
    reflexivity.
  - cbn [set_cont app arcs_of gval]. rewrite b2n_n2b by lia.
    assert (negb st && (128 + g =? 128) = false) as L.
    { destruct st; [reflexivity|]. cbn [negb andb]. assert (g <> 0) by (apply (Hst eq_refl g (g2 :: r2) eq_refl); discriminate). apply N.eqb_neq. lia. }
    rewrite L. replace (128 + g <? 128) with false by lia.
    replace ((128 + g) mod 128) with g by (rewrite N.add_mod by lia; rewrite N.mod_same by lia; rewrite N.add_0_l, N.mod_mod by lia; symmetry; apply N.mod_small; lia).
    apply (IH (acc * 128 + g) true rest); [discriminate|exact Hr|discriminate].
Qed.

Lemma arcs_of_base128 n rest :
  arcs_of (base128 n ++ rest) 0 false =
  match arcs_of rest 0 false with Some t => Some (n :: t) | None => None end.
Proof.
  unfold base128. destruct (b128_digits_spec n) as (Hne & Hv & Hf & Hm).
  rewrite (arcs_of_set_cont (b128_digits n) 0 false rest Hne Hf (fun _ => Hm)). rewrite Hv. reflexivity.
Qed.

Lemma arcs_of_flat_map l : arcs_of (flat_map base128 l) 0 false = Some l.
Proof.
  induction l as [|x l IH]; [reflexivity|]. cbn [flat_map]. rewrite arcs_of_base128, IH. reflexivity.
Qed.

Theorem oid_roundtrip arcs c : oid_content arcs = Some c -> oid_of_content c = Some arcs.
Proof.
  unfold oid_content, oid_of_content. destruct arcs as [|a [|b r]]; try discriminate.
  destruct (oid_ok (a :: b :: r)) eqn:Ok; [|discriminate]. intros H. inversion H; subst c.
  rewrite arcs_of_base128, arcs_of_flat_map.
  unfold oid_ok in Ok. apply andb_prop in Ok as [O1 O2].
  destruct (a * 40 + b <? 40) eqn:E1.
  - assert (a = 0) by lia. subst. repeat f_equal; try lia.
  - destruct (a * 40 + b <? 80) eqn:E2.
    + assert (a = 1) by lia. subst. repeat f_equal; try lia.
    + assert (a = 2) by lia. subst. repeat f_equal; try lia.
Qed.

(* C02: a serial drawn below 2^159 occupies at most 20 content octets (and one drawn below 2^160 may need 21) *)
Theorem serial_octets z : (0 <= z < 2 ^ 159)%Z -> (length (int_content z) <= 20)%nat.
Proof.
  intros [H0 H1]. unfold int_content. replace (0 <=? z)%Z with true by lia.
  set (n := Z.to_N z). assert (n < 2 ^ 159) as Hn.
  { unfold n. apply N2Z.inj_lt. rewrite Z2N.id by lia. rewrite N2Z.inj_pow. exact H1. }
  unfold pos_content. destruct (be_digits_spec n) as [V M].
  destruct (be_digits n) as [|h r] eqn:E; [cbn; lia|].
  assert (h :: r <> []) as Hne by discriminate.
  pose proof (be_value_ge (h :: r) Hne M) as G. rewrite V in G.
  assert (blen (h :: r) <= 20) as L.
  { destruct (N.le_gt_cases (blen (h :: r)) 20) as [|Hgt]; [assumption|exfalso].
    assert (256 ^ 20 <= 256 ^ (blen (h :: r) - 1)) by (apply N.pow_le_mono_r; lia).
    assert (2 ^ 159 < 256 ^ 20) by (vm_compute; reflexivity). lia. }
  destruct (b2n h <? 128) eqn:Hh.
  - unfold blen in L. lia.
  - (* a leading octet >= 0x80 with 20 octets would make the value >= 2^159 *)
    assert (blen (h :: r) <= 19) as L2.
    { destruct (N.le_gt_cases (blen (h :: r)) 19) as [|Hgt]; [assumption|exfalso].
      assert (blen (h :: r) = 20) as E20 by lia.
      rewrite be_value_cons in V. unfold blen in E20. cbn [length] in E20.
      assert (blen r = 19) as Er by (unfold blen; lia). rewrite Er in V.
      assert (128 * 256 ^ 19 <= n) by nia.
      assert (128 * 256 ^ 19 = 2 ^ 159) by (vm_compute; reflexivity). lia. }
    unfold blen in L2. cbn [length] in *. lia.
Qed.

Example serial_21_octets_possible : length (int_content (2 ^ 159)) = 21%nat.
Proof. vm_compute. reflexivity. Qed.
