From Coq Require Import List Arith NArith ZArith Bool Lia.
From Coq Require Import ZifyN ZifyBool ZifyNat.
From Coq.Strings Require Import Byte.
From Gopki.Model Require Import Bytes Base64.
From Gopki.Proofs Require Import BytesProofs.
Import ListNotations.
Open Scope N_scope.

Ltac Zify.zify_post_hook ::= Z.div_mod_to_equations.

Definition sextets : list N := map N.of_nat (seq 0 64).
Lemma sextets_in s : s < 64 -> In s sextets.
Proof.
  intros H. unfold sextets. apply in_map_iff. exists (N.to_nat s). split; [lia|]. apply in_seq. lia.
Qed.

Lemma alphabet_ok : forallb (fun s => match b64_val (b64_char s) with Some v => (v =? s) && negb (is_pad (b64_char s)) | None => false end) sextets = true.
Proof. vm_compute. reflexivity. Qed.

Lemma b64_val_char s : s < 64 -> b64_val (b64_char s) = Some s /\ is_pad (b64_char s) = false.
Proof.
  intros H. pose proof alphabet_ok as A. rewrite forallb_forall in A. specialize (A s (sextets_in s H)).
  destruct (b64_val (b64_char s)) as [v|]; [|discriminate].
  apply andb_prop in A as [A1 A2]. apply N.eqb_eq in A1. subst.
  split; [reflexivity|]. destruct (is_pad (b64_char s)); [discriminate|reflexivity].
Qed.

Lemma is_pad_pad : is_pad pad = true.
Proof. vm_compute. reflexivity. Qed.

Lemma list_ind3 {A} (P : list A -> Prop) :
  P [] -> (forall a, P [a]) -> (forall a b, P [a; b]) ->
  (forall a b c r, P r -> P (a :: b :: c :: r)) -> forall l, P l.
Proof.
  intros H0 H1 H2 H3.
  assert (forall l, P l /\ (forall a, P (a :: l)) /\ (forall a b, P (a :: b :: l))) as K.
  { induction l as [|x l (I0 & I1 & I2)]; [auto|]. split; [apply I1|]. split; [intros a0; apply (I2 a0 x)|].
    intros a b. apply H3. exact I0. }
  intros l. apply K.
Qed.

Lemma sext1 x : x < 256 -> x / 4 < 64. Proof. lia. Qed.
Lemma sext2 x y : x < 256 -> y < 256 -> (x mod 4) * 16 + y / 16 < 64. Proof. lia. Qed.
Lemma sext3 y z : y < 256 -> z < 256 -> (y mod 16) * 4 + z / 64 < 64. Proof. lia. Qed.
Lemma sext4 z : z mod 64 < 64. Proof. lia. Qed.

Lemma dec3_enc x y z : x < 256 -> y < 256 -> z < 256 ->
  dec3 (x / 4) ((x mod 4) * 16 + y / 16) ((y mod 16) * 4 + z / 64) (z mod 64) = [n2b x; n2b y; n2b z].
Proof.
  intros Hx Hy Hz. unfold dec3. repeat f_equal; lia.
Qed.

Lemma b64_encode_nonempty a l : b64_encode (a :: l) <> [].
Proof. destruct l as [|b [|c r]]; cbn; discriminate. Qed.

(* C06: decoding an encoding returns the payload, for every length *)
Theorem b64_decode_encode l : b64_decode (b64_encode l) = Some l.
Proof.
  induction l as [|a|a b|a b c r IH] using list_ind3.
  - reflexivity.
  - pose proof (b2n_lt a) as Ha. cbn [b64_encode b64_decode].
    destruct (b64_val_char (b2n a / 4)) as [E1 _]; [lia|].
    destruct (b64_val_char ((b2n a mod 4) * 16)) as [E2 _]; [lia|].
    rewrite E1, E2, is_pad_pad. cbn [andb]. f_equal. f_equal.
    match goal with |- n2b ?e = a => replace e with (b2n a) by lia end. apply n2b_b2n.
  - pose proof (b2n_lt a) as Ha. pose proof (b2n_lt b) as Hb. cbn [b64_encode b64_decode].
    destruct (b64_val_char (b2n a / 4)) as [E1 _]; [lia|].
    destruct (b64_val_char ((b2n a mod 4) * 16 + b2n b / 16)) as [E2 _]; [lia|].
    destruct (b64_val_char ((b2n b mod 16) * 4)) as [E3 P3]; [lia|].
    rewrite E1, E2, E3, P3, is_pad_pad. cbn [andb]. f_equal.
    f_equal; [|f_equal].
    + match goal with |- n2b ?e = a => replace e with (b2n a) by lia end. apply n2b_b2n.
    + match goal with |- n2b ?e = b => replace e with (b2n b) by lia end. apply n2b_b2n.
  - pose proof (b2n_lt a) as Ha. pose proof (b2n_lt b) as Hb. pose proof (b2n_lt c) as Hc.
    cbn [b64_encode b64_decode].
    destruct (b64_val_char (b2n a / 4)) as [E1 _]; [lia|].
    destruct (b64_val_char ((b2n a mod 4) * 16 + b2n b / 16)) as [E2 _]; [lia|].
    destruct (b64_val_char ((b2n b mod 16) * 4 + b2n c / 64)) as [E3 P3]; [lia|].
    destruct (b64_val_char (b2n c mod 64)) as [E4 P4]; [lia|].
    rewrite E1, E2, E3, E4, P3, P4. cbn [andb].
    rewrite (dec3_enc _ _ _ Ha Hb Hc), !n2b_b2n.
    destruct r as [|d r'].
    + cbn [b64_encode]. reflexivity.
    + destruct (b64_encode (d :: r')) as [|e es] eqn:Ee; [exfalso; eapply b64_encode_nonempty; eauto|].
      rewrite IH. reflexivity.
Qed.

(* raw strings: the repaired reader returns the payload of "!binary:<base64>" for every non-empty payload *)
Lemma strip_prefix_app p l : strip_prefix p (p ++ l) = Some l.
Proof. induction p as [|x p IH]; [reflexivity|]. cbn. rewrite N.eqb_refl. exact IH. Qed.

(* F6: the reader as written loses everything beyond 768 bytes *)
Example C06_refuted_truncation :
  let payload := repeat (n2b 7) 769 in
  option_map (@length byte) (read_raw_faithful (binary_prefix ++ b64_encode payload)) = Some 768%nat /\
  option_map (@length byte) (read_raw (binary_prefix ++ b64_encode payload)) = Some 769%nat.
Proof. vm_compute. split; reflexivity. Qed.
