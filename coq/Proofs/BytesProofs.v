From Coq Require Import List Arith NArith Bool Lia.
From Coq Require Import ZifyN ZifyBool ZifyNat.
From Coq.Strings Require Import Byte.
From Gopki.Model Require Import Bytes.
Import ListNotations.
Open Scope N_scope.

(* ---------------------------------------------------------------- bytes *)
Lemma b2n_lt b : b2n b < 256.
Proof. unfold b2n. pose proof (Byte.to_N_bounded b). lia. Qed.

Lemma n2b_b2n b : n2b (b2n b) = b.
Proof. unfold n2b, b2n. rewrite Byte.of_to_N. reflexivity. Qed.

Lemma b2n_n2b n : n < 256 -> b2n (n2b n) = n.
Proof.
  intros H. unfold n2b, b2n.
  destruct (Byte.of_N n) as [b|] eqn:E.
  - apply Byte.to_of_N. exact E.
  - apply Byte.of_N_None_iff in E. lia.
Qed.

Lemma b2n_inj a b : b2n a = b2n b -> a = b.
Proof. intros H. rewrite <- (n2b_b2n a), <- (n2b_b2n b), H. reflexivity. Qed.

(* ---------------------------------------------------------------- take *)
Lemma take_app {A} (a b : list A) : take (length a) (a ++ b) = Some (a, b).
Proof. induction a as [|x a IH]; simpl; [reflexivity|]. rewrite IH. reflexivity. Qed.

Lemma take_none_short {A} : forall n (l : list A), (length l < n)%nat -> take n l = None.
Proof.
  induction n as [|n IH]; intros l H; [inversion H|].
  destruct l as [|x r]; [reflexivity|]. cbn [take]. rewrite IH by (cbn [length] in H; lia). reflexivity.
Qed.
Lemma take_n_take {A} n (l : list A) : take_n n l = take (N.to_nat n) l.
Proof.
  unfold take_n. destruct (N.ltb_spec (N.of_nat (length l)) n) as [H|H]; [|reflexivity].
  symmetry. apply take_none_short. lia.
Qed.

Lemma take_spec {A} n : forall (l a b : list A),
  take n l = Some (a, b) -> l = a ++ b /\ length a = n.
Proof.
  induction n as [|n IH]; intros l a b H; simpl in H.
  - inversion H; subst. split; reflexivity.
  - destruct l as [|x r]; [discriminate|].
    destruct (take n r) as [[a' b']|] eqn:E; [|discriminate].
    inversion H; subst. destruct (IH _ _ _ E) as [-> <-]. split; reflexivity.
Qed.

(* ---------------------------------------------------------------- base 256 *)
Lemma be_value_acc_app a : forall b acc,
  be_value_acc (a ++ b) acc = be_value_acc b (be_value_acc a acc).
Proof. induction a as [|x a IH]; intros; simpl; [reflexivity|apply IH]. Qed.

Lemma be_value_acc_split l : forall acc,
  be_value_acc l acc = acc * 256 ^ blen l + be_value l.
Proof.
  unfold be_value, blen.
  induction l as [|x l IH]; intros acc.
  - simpl. lia.
  - cbn [be_value_acc length]. rewrite IH. rewrite (IH (0 * 256 + b2n x)).
    rewrite Nat2N.inj_succ, N.pow_succ_r'. lia.
Qed.

Lemma be_value_cons x l : be_value (x :: l) = b2n x * 256 ^ blen l + be_value l.
Proof. unfold be_value at 1. cbn [be_value_acc]. rewrite be_value_acc_split. lia. Qed.

Lemma be_value_snoc l x : be_value (l ++ [x]) = be_value l * 256 + b2n x.
Proof. unfold be_value. rewrite be_value_acc_app. reflexivity. Qed.

Lemma be_value_lt l : be_value l < 256 ^ blen l.
Proof.
  induction l as [|x l IH].
  - cbn. lia.
  - rewrite be_value_cons. unfold blen in *. cbn [length].
    rewrite Nat2N.inj_succ, N.pow_succ_r'. pose proof (b2n_lt x). nia.
Qed.

Definition minimal (l : bytes) : Prop :=
  match l with [] => True | d :: _ => b2n d <> 0 end.

Lemma be_value_ge l : l <> [] -> minimal l -> 256 ^ (blen l - 1) <= be_value l.
Proof.
  destruct l as [|x l]; [congruence|]. intros _ Hm. cbn in Hm.
  rewrite be_value_cons. unfold blen. cbn [length]. rewrite Nat2N.inj_succ.
  replace (N.succ (N.of_nat (length l)) - 1) with (N.of_nat (length l)) by lia.
  assert (1 <= b2n x) by lia. nia.
Qed.

Lemma be_value_eq_len : forall a b, length a = length b -> be_value a = be_value b -> a = b.
Proof.
  induction a as [|x a IH]; intros [|y b] Hl Hv; try discriminate; [reflexivity|].
  injection Hl as Hl.
  rewrite !be_value_cons in Hv. unfold blen in Hv. rewrite Hl in Hv.
  pose proof (be_value_lt a) as Ha. pose proof (be_value_lt b) as Hb.
  unfold blen in Ha, Hb. rewrite Hl in Ha.
  set (P := 256 ^ N.of_nat (length b)) in *.
  assert (b2n x = b2n y) as E1.
  { destruct (N.lt_trichotomy (b2n x) (b2n y)) as [L|[L|L]]; [exfalso|exact L|exfalso].
    - assert ((b2n x + 1) * P <= b2n y * P) by (apply N.mul_le_mono_r; lia). lia.
    - assert ((b2n y + 1) * P <= b2n x * P) by (apply N.mul_le_mono_r; lia). lia. }
  assert (be_value a = be_value b) as E2 by (rewrite E1 in Hv; lia).
  apply b2n_inj in E1. subst. f_equal. apply IH; assumption.
Qed.

Lemma minimal_unique a b : minimal a -> minimal b -> be_value a = be_value b -> a = b.
Proof.
  intros Ha Hb Hv.
  apply be_value_eq_len; [|exact Hv].
  destruct (PeanoNat.Nat.eq_dec (length a) (length b)) as [|Hne]; [assumption|exfalso].
  assert (forall p q, minimal p -> minimal q -> (length p < length q)%nat ->
                      be_value p = be_value q -> False) as K.
  { intros p q Hp Hq Hlt E.
    assert (q <> []) as Hq0 by (destruct q; simpl in Hlt; [lia|congruence]).
    pose proof (be_value_lt p) as Hu. pose proof (be_value_ge q Hq0 Hq) as Hl.
    unfold blen in *.
    assert (256 ^ N.of_nat (length p) <= 256 ^ (N.of_nat (length q) - 1)).
    { apply N.pow_le_mono_r; lia. }
    lia. }
  destruct (PeanoNat.Nat.lt_ge_cases (length a) (length b)) as [H|H].
  - exact (K a b Ha Hb H Hv).
  - apply (K b a Hb Ha); [lia|symmetry; exact Hv].
Qed.

Lemma be_digits_fuel_spec fuel : forall n acc,
  n < 2 ^ N.of_nat fuel ->
  exists ds, be_digits_fuel fuel n acc = ds ++ acc /\ be_value ds = n /\ minimal ds.
Proof.
  induction fuel as [|f IH]; intros n acc Hn.
  - cbn in Hn. assert (n = 0) by lia. subst. exists []. cbn. auto.
  - cbn [be_digits_fuel].
    destruct (n =? 0) eqn:E.
    + assert (n = 0) by lia. subst. exists []. cbn. auto.
    + assert (n <> 0) as Hn0 by lia.
      assert (n / 256 < 2 ^ N.of_nat f) as Hq.
      { rewrite Nat2N.inj_succ, N.pow_succ_r' in Hn.
        assert (n / 256 <= n / 2).
        { apply N.div_le_compat_l. lia. }
        assert (n / 2 < 2 ^ N.of_nat f) by (apply N.div_lt_upper_bound; lia).
        lia. }
      destruct (IH (n / 256) (n2b (n mod 256) :: acc) Hq) as (ds & E1 & E2 & E3).
      exists (ds ++ [n2b (n mod 256)]). split; [|split].
      * rewrite E1, <- app_assoc. reflexivity.
      * rewrite be_value_snoc, E2, b2n_n2b by (apply N.mod_lt; lia).
        pose proof (N.div_mod n 256). lia.
      * destruct ds as [|d ds']; [|exact E3].
        cbn. cbn in E2. unfold be_value in E2. cbn in E2.
        rewrite b2n_n2b by (apply N.mod_lt; lia).
        pose proof (N.div_mod n 256). lia.
Qed.

Lemma be_digits_spec n : be_value (be_digits n) = n /\ minimal (be_digits n).
Proof.
  unfold be_digits.
  destruct (be_digits_fuel_spec (N.to_nat (N.size n)) n []) as (ds & E1 & E2 & E3).
  - rewrite N2Nat.id. apply N.size_gt.
  - rewrite E1, app_nil_r. auto.
Qed.

Lemma be_digits_value ds : minimal ds -> be_digits (be_value ds) = ds.
Proof.
  intros H. destruct (be_digits_spec (be_value ds)) as [E M].
  apply minimal_unique; assumption.
Qed.

Lemma be_digits_nonempty n : n <> 0 -> be_digits n <> [].
Proof.
  intros H E. destruct (be_digits_spec n) as [V _]. rewrite E in V. cbn in V. congruence.
Qed.

Lemma be_digits_len_small n : n < 2 ^ 1008 -> blen (be_digits n) <= 126.
Proof.
  intros H. destruct (be_digits_spec n) as [V M].
  destruct (be_digits n) as [|d r] eqn:E; [cbn; lia|].
  assert (d :: r <> []) as Hne by congruence.
  pose proof (be_value_ge (d :: r) Hne M) as G. rewrite V in G.
  destruct (N.le_gt_cases (blen (d :: r)) 126) as [|Hgt]; [assumption|exfalso].
  assert (256 ^ 126 <= 256 ^ (blen (d :: r) - 1)) by (apply N.pow_le_mono_r; lia).
  assert (256 ^ 126 = 2 ^ 1008) by (vm_compute; reflexivity).
  lia.
Qed.
