(* Canonical forms, decoder side: whatever the strict typed decoders of Spec/X509Spec.v accept is the one encoding the encoders
   produce.  Together with the TLV-level statement (parse_all_canonical) this is the "every INTEGER, BOOLEAN, BIT STRING, OID
   and time is in canonical DER form" clause of C02, for every certificate the independent parser accepts. *)
From Coq Require Import List Arith NArith ZArith Bool Lia.
From Coq Require Import ZifyN ZifyBool ZifyNat.
From Coq.Strings Require Import Byte.
From Gopki.Model Require Import Bytes Der Asn1.
From Gopki.Proofs Require Import BytesProofs DerProofs Asn1Proofs.
Import ListNotations.
Open Scope N_scope.

(* ------------------------------------------------------------ INTEGER *)
Lemma compl_invol b : compl (compl b) = b.
Proof. apply b2n_inj. rewrite !compl_b2n. pose proof (b2n_lt b). lia. Qed.

Lemma map_compl_invol l : map compl (map compl l) = l.
Proof. induction l as [|x l IH]; [reflexivity|]. cbn. rewrite compl_invol, IH. reflexivity. Qed.

Lemma b2n_zero b : b2n b = 0 -> b = n2b 0.
Proof. intros H. apply b2n_inj. rewrite H. rewrite b2n_n2b; lia. Qed.

(* the positive case: a byte string whose first byte is below 128 and which has no redundant leading zero *)
Lemma pos_content_value h r :
  b2n h < 128 -> (forall h2 r2, r = h2 :: r2 -> b2n h = 0 -> 128 <= b2n h2) ->
  pos_content (be_value (h :: r)) = h :: r.
Proof.
  intros Hh Hmin. unfold pos_content.
  destruct (N.eq_dec (b2n h) 0) as [Z|NZ].
  - (* leading zero: either the whole value is the single byte 0, or the next byte has its top bit set *)
    destruct r as [|h2 r2].
    + rewrite be_value_cons, Z. cbn. rewrite (b2n_zero h Z). reflexivity.
    + specialize (Hmin h2 r2 eq_refl Z).
      assert (be_value (h :: h2 :: r2) = be_value (h2 :: r2)) as E by (rewrite be_value_cons, Z; lia).
      rewrite E. rewrite be_digits_value by (cbn; lia).
      replace (b2n h2 <? 128) with false by lia. rewrite (b2n_zero h Z). reflexivity.
  - rewrite be_digits_value by (cbn; exact NZ). replace (b2n h <? 128) with true by lia. reflexivity.
Qed.

Lemma int_content_pos l : (exists h r, l = h :: r /\ b2n h < 128 /\ (forall h2 r2, r = h2 :: r2 -> b2n h = 0 -> 128 <= b2n h2)) ->
  int_content (Z.of_N (be_value l)) = l.
Proof.
  intros (h & r & -> & Hh & Hm). unfold int_content.
  replace (0 <=? Z.of_N (be_value (h :: r)))%Z with true by lia. rewrite N2Z.id. apply pos_content_value; assumption.
Qed.

Lemma int_content_neg l : (exists h r, l = h :: r /\ 128 <= b2n h /\ (forall h2 r2, r = h2 :: r2 -> b2n h = 255 -> b2n h2 < 128)) ->
  int_content (Z.of_N (be_value l) - Z.of_N (256 ^ blen l)) = l.
Proof.
  intros (h & r & -> & Hh & Hm). unfold int_content.
  pose proof (be_value_lt (h :: r)) as Lt. pose proof (be_value_compl (h :: r)) as C. pose proof (b2n_lt h) as Lh.
  replace (0 <=? Z.of_N (be_value (h :: r)) - Z.of_N (256 ^ blen (h :: r)))%Z with false by lia.
  replace (Z.to_N (- (Z.of_N (be_value (h :: r)) - Z.of_N (256 ^ blen (h :: r))) - 1)) with (be_value (map compl (h :: r))) by lia.
  cbn [map]. rewrite pos_content_value.
  - cbn [map]. rewrite compl_invol, map_compl_invol. reflexivity.
  - rewrite compl_b2n. lia.
  - intros x y E Z. destruct r as [|h2 r2]; [discriminate|]. cbn [map] in E. inversion E; subst.
    rewrite !compl_b2n in *. pose proof (b2n_lt h2). specialize (Hm h2 r2 eq_refl). lia.
Qed.

Theorem int_content_of_content l z : int_of_content l = Some z -> int_content z = l.
Proof.
  unfold int_of_content. destruct l as [|h [|h2 r]]; [discriminate| |].
  - pose proof (b2n_lt h) as Lh. destruct (b2n h <? 128) eqn:S; intros H; injection H as <-.
    + replace (b2n h) with (be_value [h]) by (unfold be_value; cbn; lia).
      apply int_content_pos. exists h, []. split; [reflexivity|]. split; [lia|intros ? ? E; discriminate E].
    + replace (Z.of_N (b2n h) - 256)%Z with (Z.of_N (be_value [h]) - Z.of_N (256 ^ blen [h]))%Z
        by (unfold be_value; cbn; lia).
      apply int_content_neg. exists h, []. split; [reflexivity|]. split; [lia|intros ? ? E; discriminate E].
  - pose proof (b2n_lt h) as Lh. pose proof (b2n_lt h2) as Lh2.
    destruct ((b2n h =? 0) && (b2n h2 <? 128)) eqn:A; [discriminate|].
    destruct ((b2n h =? 255) && (128 <=? b2n h2)) eqn:B; [discriminate|].
    destruct (b2n h <? 128) eqn:S; intros H; injection H as <-.
    + apply int_content_pos. exists h, (h2 :: r). split; [reflexivity|]. split; [lia|].
      intros x y E Z. inversion E; subst. lia.
    + apply (int_content_neg (h :: h2 :: r)). exists h, (h2 :: r). split; [reflexivity|]. split; [lia|].
      intros x y E Z. inversion E; subst. lia.
Qed.

(* ------------------------------------------------------------ OBJECT IDENTIFIER *)
(* digit lists in base 128: value, bounds, uniqueness of the representation without superfluous leading zero *)
Definition glen (l : list N) : N := N.of_nat (length l).

Lemma gval_acc l : forall acc, gval l acc = acc * 128 ^ glen l + gval l 0.
Proof.
  unfold glen. induction l as [|x l IH]; intros acc; cbn [gval length]; [cbn; lia|].
  rewrite IH, (IH (0 * 128 + x)). rewrite Nat2N.inj_succ, N.pow_succ_r'. lia.
Qed.

Lemma gval_cons x l : gval (x :: l) 0 = x * 128 ^ glen l + gval l 0.
Proof. cbn [gval]. rewrite gval_acc. lia. Qed.

Lemma gval_lt l : Forall (fun g => g < 128) l -> gval l 0 < 128 ^ glen l.
Proof.
  induction 1 as [|x l Hx _ IH]; [cbn; lia|].
  rewrite gval_cons. unfold glen in *. cbn [length]. rewrite Nat2N.inj_succ, N.pow_succ_r'. nia.
Qed.

Lemma gval_eq_len : forall a b, length a = length b -> Forall (fun g => g < 128) a -> Forall (fun g => g < 128) b ->
  gval a 0 = gval b 0 -> a = b.
Proof.
  induction a as [|x a IH]; intros [|y b] Hl Fa Fb Hv; try discriminate; [reflexivity|].
  injection Hl as Hl. inversion Fa; subst. inversion Fb; subst.
  rewrite !gval_cons in Hv. unfold glen in Hv. rewrite Hl in Hv.
  pose proof (gval_lt a ltac:(assumption)) as La. pose proof (gval_lt b ltac:(assumption)) as Lb.
  unfold glen in La, Lb. rewrite Hl in La. set (P := 128 ^ N.of_nat (length b)) in *.
  assert (x = y) by nia. subst. f_equal. apply IH; auto. nia.
Qed.

(* no superfluous leading zero: a single digit, or a first digit other than zero *)
Definition gmin (l : list N) : Prop := forall d r, l = d :: r -> r <> [] -> d <> 0.

Lemma gval_ge x l : Forall (fun g => g < 128) (x :: l) -> x <> 0 -> 128 ^ glen l <= gval (x :: l) 0.
Proof. intros _ Hx. rewrite gval_cons. nia. Qed.

Lemma gmin_unique a b : a <> [] -> b <> [] -> Forall (fun g => g < 128) a -> Forall (fun g => g < 128) b -> gmin a -> gmin b ->
  gval a 0 = gval b 0 -> a = b.
Proof.
  intros Na Nb Fa Fb Ma Mb Hv. apply gval_eq_len; auto.
  destruct (Nat.lt_trichotomy (length a) (length b)) as [L|[E|L]]; [exfalso| exact E |exfalso].
  - destruct b as [|y b]; [congruence|]. destruct b as [|y2 b2]; [cbn in L; destruct a; [congruence|cbn in L; lia]|].
    assert (y <> 0) by (apply (Mb y (y2 :: b2) eq_refl); discriminate).
    pose proof (gval_ge y (y2 :: b2) Fb H). pose proof (gval_lt a Fa).
    assert (128 ^ glen a <= 128 ^ glen (y2 :: b2)) by (apply N.pow_le_mono_r; unfold glen; cbn [length] in *; lia). lia.
  - destruct a as [|x a]; [congruence|]. destruct a as [|x2 a2]; [cbn in L; destruct b; [congruence|cbn in L; lia]|].
    assert (x <> 0) by (apply (Ma x (x2 :: a2) eq_refl); discriminate).
    pose proof (gval_ge x (x2 :: a2) Fa H). pose proof (gval_lt b Fb).
    assert (128 ^ glen b <= 128 ^ glen (x2 :: a2)) by (apply N.pow_le_mono_r; unfold glen; cbn [length] in *; lia). lia.
Qed.

Lemma b128_digits_value gs : gs <> [] -> Forall (fun g => g < 128) gs -> gmin gs -> b128_digits (gval gs 0) = gs.
Proof.
  intros Ne Fg Mg. destruct (b128_digits_spec (gval gs 0)) as (Hne & Hv & Hf & Hm).
  apply gmin_unique; auto.
Qed.

(* what the arc scanner accepts is a sequence of groups, each the canonical base-128 form of its arc *)
Lemma arcs_of_shape : forall l acc st vs, arcs_of l acc st = Some vs ->
  (st = false /\ l = [] /\ vs = []) \/
  exists gs rest t, l = set_cont gs ++ rest /\ gs <> [] /\ Forall (fun g => g < 128) gs /\
                    (st = false -> gmin gs) /\ vs = gval gs acc :: t /\ arcs_of rest 0 false = Some t.
Proof.
  induction l as [|b l IH]; intros acc st vs H; cbn [arcs_of] in H.
  - destruct st; [discriminate|]. inversion H; subst. left. auto.
  - right. pose proof (b2n_lt b) as Lb.
    destruct (negb st && (b2n b =? 128)) eqn:Lead; [discriminate|].
    destruct (b2n b <? 128) eqn:Last.
    + destruct (arcs_of l 0 false) as [t|] eqn:R; [|discriminate]. inversion H; subst.
      exists [b2n b], l, t. cbn [set_cont app gval]. rewrite n2b_b2n.
      replace (b2n b mod 128) with (b2n b) by (symmetry; apply N.mod_small; lia).
      repeat split; auto; [discriminate|repeat constructor; lia|intros _ d r E Hr; inversion E; subst; congruence].
    + destruct (IH _ _ _ H) as [(Hst & _)|(gs & rest & t & El & Ne & Fg & _ & Ev & Er)]; [discriminate|].
      exists ((b2n b - 128) :: gs), rest, t.
      destruct gs as [|g0 gs0]; [congruence|].
      split.
      { cbn [set_cont app]. rewrite El. f_equal. replace (128 + (b2n b - 128)) with (b2n b) by lia. symmetry. apply n2b_b2n. }
      split; [discriminate|]. split; [constructor; [lia|exact Fg]|].
      split.
      { intros -> d r E Hr. inversion E; subst. cbn [negb andb] in Lead. lia. }
      split; [|exact Er].
      rewrite Ev. cbn [gval]. f_equal. f_equal.
      replace (b2n b mod 128) with (b2n b - 128); [reflexivity|].
      replace (b2n b) with (128 + (b2n b - 128)) at 2 by lia.
      rewrite N.add_mod by lia. rewrite N.mod_same by lia. rewrite N.add_0_l, N.mod_mod by lia. symmetry. apply N.mod_small. lia.
Qed.

Lemma arcs_of_canonical : forall n l vs, (length l <= n)%nat -> arcs_of l 0 false = Some vs -> l = flat_map base128 vs.
Proof.
  induction n as [|n IH]; intros l vs Hl H.
  - destruct l; [|cbn in Hl; lia]. cbn in H. inversion H. reflexivity.
  - destruct (arcs_of_shape l 0 false vs H) as [(_ & -> & ->)|(gs & rest & t & El & Ne & Fg & Mg & Ev & Er)]; [reflexivity|].
    subst vs. cbn [flat_map]. unfold base128. rewrite b128_digits_value by auto.
    rewrite El. f_equal. apply IH; [|exact Er].
    rewrite El in Hl. rewrite app_length in Hl.
    assert (1 <= length (set_cont gs))%nat.
    { destruct gs as [|g [|g2 gs']]; [congruence|cbn; lia|cbn [set_cont length]; lia]. }
    lia.
Qed.

Theorem oid_content_of_content c arcs : oid_of_content c = Some arcs -> oid_content arcs = Some c.
Proof.
  unfold oid_of_content. destruct (arcs_of c 0 false) as [[|v r]|] eqn:A; try discriminate.
  pose proof (arcs_of_canonical (length c) c (v :: r) (le_n _) A) as Ec. cbn [flat_map] in Ec.
  destruct (v <? 40) eqn:E1; [|destruct (v <? 80) eqn:E2]; intros H; inversion H; subst arcs; unfold oid_content, oid_ok.
  - replace ((0 <=? 2) && ((2 <=? 0) || (v <? 40))) with true by lia. rewrite Ec. repeat f_equal; lia.
  - replace ((1 <=? 2) && ((2 <=? 1) || (v - 40 <? 40))) with true by lia. rewrite Ec. repeat f_equal; lia.
  - replace ((2 <=? 2) && ((2 <=? 2) || (v - 80 <? 40))) with true by lia. rewrite Ec. repeat f_equal; lia.
Qed.

(* ------------------------------------------------------------ time *)
From Gopki.Model Require Import Base64 Text Ext Rdn X509.
From Gopki.Spec Require Import X509Spec.

Lemma digit_val_inv b d : digit_val b = Some d -> d < 10 /\ b = digit d.
Proof.
  unfold digit_val. pose proof (b2n_lt b) as Lb. destruct ((48 <=? b2n b) && (b2n b <=? 57)) eqn:E; [|discriminate].
  intros H. inversion H; subst. split; [lia|]. unfold digit. apply b2n_inj. rewrite b2n_n2b.
  - rewrite N.mod_small by lia. lia.
  - rewrite N.mod_small by lia. lia.
Qed.

Lemma two_inv a b n : two a b = Some n -> n < 100 /\ two_digits n = [a; b].
Proof.
  unfold two. cbn [digits_val]. destruct (digit_val a) as [da|] eqn:Ea; [|discriminate].
  destruct (digit_val b) as [db|] eqn:Eb; [|discriminate]. intros H. inversion H; subst.
  apply digit_val_inv in Ea as [La ->]. apply digit_val_inv in Eb as [Lb ->].
  split; [lia|]. match goal with |- two_digits ?x = _ => set (n := x) end.
  assert (n / 10 = da) as E1 by (subst n; symmetry; apply N.div_unique with db; lia).
  assert (n mod 10 = db) as E2 by (subst n; symmetry; apply N.mod_unique with da; lia).
  unfold two_digits, digit. rewrite E1, E2, (N.mod_small db) by lia. reflexivity.
Qed.

Lemma four_inv a b c d n : digits_val [a; b; c; d] 0 = Some n -> n < 10000 /\ four_digits n = [a; b; c; d].
Proof.
  cbn [digits_val]. destruct (digit_val a) as [da|] eqn:Ea; [|discriminate].
  destruct (digit_val b) as [db|] eqn:Eb; [|discriminate]. destruct (digit_val c) as [dc|] eqn:Ec; [|discriminate].
  destruct (digit_val d) as [dd|] eqn:Ed; [|discriminate]. intros H. inversion H; subst.
  apply digit_val_inv in Ea as [La ->]. apply digit_val_inv in Eb as [Lb ->].
  apply digit_val_inv in Ec as [Lc ->]. apply digit_val_inv in Ed as [Ld ->].
  split; [lia|]. match goal with |- four_digits ?x = _ => set (n := x) end. unfold four_digits, digit.
  assert (n / 1000 = da) as E1 by (subst n; symmetry; apply N.div_unique with (db * 100 + dc * 10 + dd); lia).
  assert ((n / 100) mod 10 = db) as E2.
  { assert (n / 100 = da * 10 + db) as -> by (subst n; symmetry; apply N.div_unique with (dc * 10 + dd); lia).
    rewrite N.add_comm, N.mod_add by lia. apply N.mod_small. lia. }
  assert ((n / 10) mod 10 = dc) as E3.
  { assert (n / 10 = (da * 100 + db * 10) + dc) as -> by (subst n; symmetry; apply N.div_unique with dd; lia).
    replace (da * 100 + db * 10 + dc) with (dc + (da * 10 + db) * 10) by lia. rewrite N.mod_add by lia. apply N.mod_small. lia. }
  assert (n mod 10 = dd) as E4.
  { subst n. symmetry. apply N.mod_unique with (da * 100 + db * 10 + dc); lia. }
  rewrite E2, E3, E4. rewrite E1. rewrite !N.mod_small by lia. reflexivity.
Qed.

Theorem der_time_of_dec_time t c : dec_time t = Some c -> der_time c = Some t.
Proof.
  unfold dec_time.
  assert (forall l y c0,
    (match l with
     | [m1; m2; d1; d2; h1; h2; i1; i2; s1; s2; z] =>
       if b2n z =? 90 then
         match two m1 m2, two d1 d2, two h1 h2, two i1 i2, two s1 s2 with
         | Some mo, Some d, Some h, Some mi, Some s =>
           if (1 <=? mo) && (mo <=? 12) && (1 <=? d) && (d <=? 31) && (h <? 24) && (mi <? 60) && (s <? 60)
           then Some (mkCivil y mo d h mi s) else None
         | _, _, _, _, _ => None
         end
       else None
     | _ => None
     end) = Some c0 ->
    cv_year c0 = y /\
    l = two_digits (cv_month c0) ++ two_digits (cv_day c0) ++ two_digits (cv_hour c0)
        ++ two_digits (cv_min c0) ++ two_digits (cv_sec c0) ++ [n2b 90]) as Tail.
  { intros l y c0 H.
    do 11 (destruct l as [|? l]; try discriminate). destruct l; [|discriminate].
    destruct (b2n b9 =? 90) eqn:Z; [|discriminate].
    destruct (two b b0) as [mo|] eqn:T1; [|discriminate]. destruct (two b1 b2) as [d|] eqn:T2; [|discriminate].
    destruct (two b3 b4) as [h|] eqn:T3; [|discriminate]. destruct (two b5 b6) as [mi|] eqn:T4; [|discriminate].
    destruct (two b7 b8) as [s|] eqn:T5; [|discriminate].
    destruct ((1 <=? mo) && (mo <=? 12) && (1 <=? d) && (d <=? 31) && (h <? 24) && (mi <? 60) && (s <? 60)); [|discriminate].
    inversion H; subst. cbn [cv_year cv_month cv_day cv_hour cv_min cv_sec].
    apply two_inv in T1 as [_ ->]. apply two_inv in T2 as [_ ->]. apply two_inv in T3 as [_ ->].
    apply two_inv in T4 as [_ ->]. apply two_inv in T5 as [_ ->].
    split; [reflexivity|]. cbn [app]. repeat f_equal. apply b2n_inj. rewrite b2n_n2b by lia. lia. }
  destruct t as [cl tg v|]; [|discriminate]. destruct cl; try discriminate.
  destruct tg as [|tg]; [discriminate|].
  destruct (Pos.eq_dec tg 23) as [->|N23].
  - destruct v as [|y1 [|y2 rest]]; try discriminate.
    destruct (two y1 y2) as [yy|] eqn:Ty; [|discriminate]. intros H.
    apply Tail in H as [Hy ->]. apply two_inv in Ty as [Lyy Ey].
    unfold der_time. rewrite Hy.
    destruct (yy <? 50) eqn:E.
    + replace ((1950 <=? 2000 + yy) && (2000 + yy <? 2050)) with true by lia.
      replace ((2000 + yy) mod 100) with yy by (rewrite N.add_comm; change 2000 with (20 * 100); rewrite N.mod_add by lia; symmetry; apply N.mod_small; lia).
      rewrite Ey. reflexivity.
    + replace ((1950 <=? 1900 + yy) && (1900 + yy <? 2050)) with true by lia.
      replace ((1900 + yy) mod 100) with yy by (rewrite N.add_comm; change 1900 with (19 * 100); rewrite N.mod_add by lia; symmetry; apply N.mod_small; lia).
      rewrite Ey. reflexivity.
  - destruct (Pos.eq_dec tg 24) as [->|N24].
    + destruct v as [|y1 [|y2 [|y3 [|y4 rest]]]]; try discriminate.
      destruct (digits_val [y1; y2; y3; y4] 0) as [y|] eqn:Ty; [|discriminate].
      destruct ((1950 <=? y) && (y <? 2050)) eqn:R; [discriminate|]. intros H.
      apply Tail in H as [Hy ->]. apply four_inv in Ty as [Ly Ey].
      unfold der_time. rewrite Hy, R. replace (y <=? 9999) with true by lia. rewrite Ey. reflexivity.
    + intros H. exfalso.
      repeat (destruct tg as [tg|tg|]; try discriminate H; try congruence).
Qed.

(* ------------------------------------------------------------ structures *)
Ltac peel H :=
  repeat match type of H with
         | (match ?X with _ => _ end) = Some _ => let E := fresh "E" in destruct X eqn:E; try discriminate H
         | (if ?X then _ else _) = Some _ => let E := fresh "E" in destruct X eqn:E; try discriminate H
         end.

Lemma der_oid_of_dec t a : dec_oid t = Some a -> der_oid a = Some t.
Proof.
  unfold dec_oid. intros H. peel H. subst. unfold der_oid. rewrite (oid_content_of_content _ _ H). reflexivity.
Qed.

Lemma der_int_of_dec t z : dec_int t = Some z -> der_int z = t.
Proof.
  unfold dec_int. intros H. peel H. subst. unfold der_int. rewrite (int_content_of_content _ _ H). reflexivity.
Qed.

Lemma der_bool_of_dec t : dec_bool_true t = true -> t = der_bool true.
Proof.
  unfold dec_bool_true. intros H.
  repeat match type of H with
         | (match ?X with _ => _ end) = true => destruct X; try discriminate H
         end.
  unfold der_bool. f_equal. f_equal. apply b2n_inj. rewrite b2n_n2b by lia. lia.
Qed.

Lemma der_bits_of_dec t b : dec_bits_full t = Some b -> t = der_bits_full b.
Proof.
  unfold dec_bits_full. intros H. peel H. inversion H; subst. unfold der_bits_full, der_bits.
  replace ((8 - (8 * blen b) mod 8) mod 8) with 0.
  - f_equal. f_equal. apply b2n_inj. rewrite b2n_n2b by lia. lia.
  - rewrite N.mul_comm, N.mod_mul by lia. reflexivity.
Qed.

Lemma enc_algid_of_dec t a : dec_algid t = Some a -> enc_algid a = Some t.
Proof.
  unfold dec_algid. intros H. peel H; inversion H; subst; unfold enc_algid; cbn [al_oid al_params];
    match goal with E : dec_oid _ = Some _ |- _ => rewrite (der_oid_of_dec _ _ E) end; reflexivity.
Qed.

Lemma arcs_to_N_of_N a : arcs_to_N (map Z.of_N a) = Some a.
Proof.
  unfold arcs_to_N. induction a as [|x a IH]; [reflexivity|]. cbn [map map_opt].
  replace (0 <=? Z.of_N x)%Z with true by lia. rewrite N2Z.id, IH. reflexivity.
Qed.

Lemma enc_rdn_of_dec t r : dec_rdn t = Some r -> enc_rdn r = Some t.
Proof.
  unfold dec_rdn. intros H. peel H. inversion H; subst. unfold enc_rdn. cbn [r_type r_value].
  rewrite arcs_to_N_of_N.
  match goal with E : dec_oid _ = Some _ |- _ => rewrite (der_oid_of_dec _ _ E) end.
  match goal with E : dec_atv_value _ = Some _ |- _ => unfold dec_atv_value in E; peel E; inversion E; subst end;
    unfold der_set, der_seq, der_auto_string, der_octets;
    repeat match goal with E : forallb is_printable_byte _ = _ |- _ => rewrite E end; reflexivity.
Qed.

Lemma map_opt_converse {A B} (f : A -> option B) (g : B -> option A) :
  (forall a b, f a = Some b -> g b = Some a) -> forall l l', map_opt f l = Some l' -> map_opt g l' = Some l.
Proof.
  intros Hfg. induction l as [|x l IH]; intros l' H; cbn [map_opt] in H.
  - inversion H. reflexivity.
  - destruct (f x) as [y|] eqn:Fx; [|discriminate]. destruct (map_opt f l) as [t|] eqn:Fl; [|discriminate].
    inversion H; subst. cbn [map_opt]. rewrite (Hfg _ _ Fx), (IH _ eq_refl). reflexivity.
Qed.

Lemma enc_name_of_dec t n : dec_name t = Some n -> enc_name n = Some t.
Proof.
  unfold dec_name. intros H. peel H. subst. unfold enc_name.
  rewrite (map_opt_converse dec_rdn enc_rdn enc_rdn_of_dec _ _ H). reflexivity.
Qed.

Lemma enc_spki_of_dec t s : dec_spki t = Some s -> enc_spki s = Some t.
Proof.
  unfold dec_spki. intros H. peel H. inversion H; subst. unfold enc_spki. cbn [sp_alg sp_bits].
  match goal with E : dec_algid _ = Some _ |- _ => rewrite (enc_algid_of_dec _ _ E) end.
  match goal with E : dec_bits_full _ = Some _ |- _ => rewrite <- (der_bits_of_dec _ _ E) end. reflexivity.
Qed.

Lemma enc_ext_of_dec t e : dec_ext t = Some e -> enc_ext e = Some t.
Proof.
  unfold dec_ext. intros H. peel H; inversion H; subst; unfold enc_ext; cbn [x_oid x_crit x_value];
    match goal with E : dec_oid _ = Some _ |- _ => rewrite (der_oid_of_dec _ _ E) end; cbn [app].
  - reflexivity.
  - match goal with E : dec_bool_true _ = true |- _ => rewrite (der_bool_of_dec _ E) end. reflexivity.
Qed.

Lemma enc_uid_of_dec tag l u r : dec_uid tag l = Some (u, r) -> l = enc_uid tag u ++ r.
Proof.
  unfold dec_uid. intros H. peel H; inversion H; subst; cbn [enc_uid app]; try reflexivity.
  match goal with E : (_ =? tag) = true |- _ => apply N.eqb_eq in E; subst end.
  f_equal. f_equal. f_equal. apply b2n_inj. rewrite b2n_n2b by lia. lia.
Qed.

Lemma enc_exts_of_dec l exts : dec_exts l = Some exts ->
  exists ts, map_opt enc_ext exts = Some ts /\ l = match ts with [] => [] | _ => [der_explicit 3 (der_seq ts)] end.
Proof.
  unfold dec_exts. intros H. peel H.
  - inversion H; subst. exists []. split; reflexivity.
  - subst. match goal with |- context [map_opt enc_ext exts] => idtac end.
    match type of H with map_opt dec_ext ?L = Some _ => exists L end.
    split; [eapply map_opt_converse; [exact enc_ext_of_dec|exact H]|reflexivity].
Qed.

Definition ver_split (l : list tlv) : option Z * list tlv :=
  match l with
  | Cons Ctx 0 [v] :: r => (match dec_int v with
                            | Some z => if (z =? 0)%Z then None else Some z
                            | None => None end, r)
  | _ => (Some 0%Z, l)
  end.

Definition tbs_body (ver : option Z) (l1 : list tlv) :=
  match ver, l1 with
  | Some version, ser :: inner :: iss :: Cons Univ 16 [nb; na] :: subj :: sp :: rest =>
    match dec_int ser, dec_algid inner, dec_name iss, dec_time nb, dec_time na, dec_name subj, dec_spki sp,
          dec_uid 1 rest with
    | Some serial, Some al, Some issuer, Some t1, Some t2, Some subject, Some pk, Some (iuid, r1) =>
      match dec_uid 2 r1 with
      | Some (suid, r2) =>
        match dec_exts r2 with
        | Some exts => Some (version, serial, al, issuer, t1, t2, subject, pk, iuid, suid, exts)
        | None => None
        end
      | None => None
      end
    | _, _, _, _, _, _, _, _ => None
    end
  | _, _ => None
  end.

Lemma dec_tbs_unfold l : dec_tbs (Cons Univ 16 l) = let '(ver, l1) := ver_split l in tbs_body ver l1.
Proof. reflexivity. Qed.

Lemma ver_split_inv l ver l1 : ver_split l = (Some ver, l1) ->
  l = (if (ver =? 0)%Z then [] else [der_explicit 0 (der_int ver)]) ++ l1.
Proof.
  unfold ver_split. intros H.
  repeat match type of H with
         | (match ?X with _ => _ end) = _ => destruct X eqn:?; try discriminate H
         | (match ?X with _ => _ end, _) = _ => destruct X eqn:?; try discriminate H
         | (if ?X then _ else _, _) = _ => destruct X eqn:?; try discriminate H
         end; inversion H; subst; try reflexivity.
  match goal with E : (ver =? 0)%Z = false |- _ => rewrite E end. cbn [app].
  match goal with E : dec_int _ = Some _ |- _ => rewrite (der_int_of_dec _ _ E) end. reflexivity.
Qed.

Theorem enc_tbs_of_dec t ver serial al issuer t1 t2 subject pk iuid suid exts outer sg :
  dec_tbs t = Some (ver, serial, al, issuer, t1, t2, subject, pk, iuid, suid, exts) ->
  enc_tbs (mkTcert ver serial al issuer t1 t2 subject pk iuid suid exts outer sg) = Some t.
Proof.
  intros H.
  assert (exists l, t = Cons Univ 16 l) as (l & ->).
  { unfold dec_tbs in H. destruct t as [|cl tg l]; [discriminate|]. destruct cl; try discriminate.
    destruct tg as [|tg]; [discriminate|]. exists l.
    repeat (destruct tg as [tg|tg|]; try discriminate H; try reflexivity). }
  rewrite dec_tbs_unfold in H. destruct (ver_split l) as [ov l1] eqn:V.
  unfold tbs_body in H. destruct ov as [v0|]; [|discriminate].
  peel H. inversion H; subst; clear H.
  apply ver_split_inv in V. subst l.
  unfold enc_tbs. cbn [t_version t_serial t_inner t_issuer t_nb t_na t_subject t_spki t_iuid t_suid t_exts].
  repeat match goal with
         | E : dec_algid _ = Some _ |- _ => rewrite (enc_algid_of_dec _ _ E); clear E
         | E : dec_name _ = Some _ |- _ => rewrite (enc_name_of_dec _ _ E); clear E
         | E : dec_time _ = Some _ |- _ => rewrite (der_time_of_dec_time _ _ E); clear E
         | E : dec_spki _ = Some _ |- _ => rewrite (enc_spki_of_dec _ _ E); clear E
         end.
  match goal with E : dec_exts _ = Some _ |- _ => destruct (enc_exts_of_dec _ _ E) as (ts & Ets & ->) end. rewrite Ets.
  repeat match goal with E : dec_uid _ _ = Some _ |- _ => apply enc_uid_of_dec in E; rewrite E; clear E end.
  match goal with E : dec_int _ = Some _ |- _ => rewrite (der_int_of_dec _ _ E) end.
  reflexivity.
Qed.


(* C02: whatever the independent strict parser accepts is the canonical encoding of what it read: re-encoding the typed
   certificate reproduces the input byte for byte *)
Theorem enc_cert_of_dec t c : dec_cert t = Some c -> enc_cert c = Some t.
Proof.
  unfold dec_cert. intros H. peel H. inversion H; subst; clear H.
  unfold enc_cert. cbn [t_outer t_sig].
  match goal with E : dec_tbs _ = Some _ |- _ => rewrite (enc_tbs_of_dec _ _ _ _ _ _ _ _ _ _ _ _ _ _ E) end.
  match goal with E : dec_algid _ = Some _ |- _ => rewrite (enc_algid_of_dec _ _ E) end.
  match goal with E : dec_bits_full _ = Some _ |- _ => rewrite <- (der_bits_of_dec _ _ E) end.
  reflexivity.
Qed.

Theorem parse_cert_canonical bs c : parse_cert bs = Some c -> cert_der c = Some bs.
Proof.
  unfold parse_cert, cert_der. destruct (parse_all bs) as [t|] eqn:P; [|discriminate]. intros H.
  rewrite (enc_cert_of_dec _ _ H). f_equal. unfold parse_all in P.
  destruct (parse bs) as [[t' r]|] eqn:Pb; [|discriminate]. destruct r; [|discriminate]. inversion P; subst.
  apply enc_parse in Pb as [-> _]. rewrite app_nil_r. reflexivity.
Qed.
