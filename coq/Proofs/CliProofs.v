From Coq Require Import List Arith NArith Bool.
From Gopki.Model Require Import Bytes Base64 Text Dir Plan Run Cli.
Import ListNotations.

(* C10 (consent): when an existing certificate would be replaced and the answer is not "y", nothing changes *)
Theorem no_consent_no_change a b d f input ch :
  is_consistent (d_ents d) = true -> s_any (strat_of_flags f) = true ->
  plan a (d_ents d) (strat_of_flags f) = Some ch ->
  existsb (replaces (d_ents d)) ch = true -> consent input = false ->
  cli_sign a b d f input = (CliAborted, d, []).
Proof.
  intros C A P R N. unfold cli_sign. rewrite C, A, P, R, N. reflexivity.
Qed.

(* all flags false: the command exits before planning *)
Theorem all_flags_off d a b input : is_consistent (d_ents d) = true ->
  cli_sign a b d (mkFlags false false false false false) input = (CliNothingToDo, d, []).
Proof. intros C. unfold cli_sign. rewrite C. reflexivity. Qed.

(* the accepted answers are exactly "y"/"Y" surrounded by white space and terminated by a newline *)
Example consent_examples :
  consent (Some (map n2b [121; 10]%N)) = true /\ consent (Some (map n2b [32; 89; 32; 13; 10]%N)) = true /\
  consent (Some (map n2b [110; 10]%N)) = false /\ consent (Some (map n2b [121; 101; 115; 10]%N)) = false /\
  consent (Some (map n2b [10]%N)) = false /\ consent None = false.
Proof. vm_compute. repeat split. Qed.

Example default_flags_strategy : strat_of_flags default_flags = default_strat.
Proof. reflexivity. Qed.
