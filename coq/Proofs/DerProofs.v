From Coq Require Import List Arith NArith Bool Lia.
From Coq Require Import ZifyN ZifyBool ZifyNat.
From Coq.Strings Require Import Byte.
From Gopki.Model Require Import Bytes Der.
From Gopki.Proofs Require Import BytesProofs.
Import ListNotations.
Open Scope N_scope.

(* ------------------------------------------------------------ identifier octet *)
Definition all_tags : list N := map N.of_nat (seq 0 31).

Lemma all_tags_in t : t < 31 -> In t all_tags.
Proof.
  intros H. unfold all_tags. apply in_map_iff. exists (N.to_nat t). split; [lia|].
  apply in_seq. lia.
Qed.

Definition cls_eqb (a b : cls) : bool :=
  match a, b with Univ, Univ | Appl, Appl | Ctx, Ctx | Priv, Priv => true | _, _ => false end.

Definition ident_check (t : N) : bool :=
  forallb (fun c => forallb (fun b =>
    match dec_ident (ident c b t) with
    | Some (c', b', t') => cls_eqb c c' && Bool.eqb b b' && (t =? t')
    | None => false
    end) [true; false]) [Univ; Appl; Ctx; Priv].

Lemma ident_check_all : forallb ident_check all_tags = true.
Proof. vm_compute. reflexivity. Qed.

Lemma dec_ident_ident c b t : t < 31 -> dec_ident (ident c b t) = Some (c, b, t).
Proof.
  intros H. pose proof ident_check_all as A.
  rewrite forallb_forall in A. specialize (A t (all_tags_in t H)).
  unfold ident_check in A. rewrite forallb_forall in A.
  assert (In c [Univ; Appl; Ctx; Priv]) as Hc by (destruct c; simpl; tauto).
  specialize (A c Hc). rewrite forallb_forall in A.
  assert (In b [true; false]) as Hb by (destruct b; simpl; tauto).
  specialize (A b Hb).
  destruct (dec_ident (ident c b t)) as [[[c' b'] t']|]; [|discriminate].
  apply andb_prop in A as [A A3]. apply andb_prop in A as [A1 A2].
  apply N.eqb_eq in A3. apply Bool.eqb_prop in A2.
  destruct c, c'; try discriminate; subst; reflexivity.
Qed.

Lemma ident_dec_ident i c b t : dec_ident i = Some (c, b, t) -> i = ident c b t /\ t < 31.
Proof.
  destruct i; vm_compute; intros H; inversion H; subst; split; reflexivity.
Qed.

(* ------------------------------------------------------------ lengths *)
Definition len_ok (n : N) : Prop := n < 2 ^ 1008.

Lemma blen_app (a b : bytes) : blen (a ++ b) = blen a + blen b.
Proof. unfold blen. rewrite app_length. lia. Qed.

Lemma dec_len_enc_len n r : len_ok n -> dec_len (enc_len n ++ r) = Some (n, r).
Proof.
  intros Hn. unfold enc_len.
  destruct (n <? 128) eqn:E.
  - cbn [app dec_len]. rewrite b2n_n2b by lia. rewrite E. reflexivity.
  - assert (128 <= n) as Hge by lia.
    pose proof (be_digits_len_small n Hn) as Hl.
    destruct (be_digits_spec n) as [V M].
    assert (be_digits n <> []) as Hne by (apply be_digits_nonempty; lia).
    cbn [app dec_len].
    rewrite b2n_n2b by lia.
    assert (blen (be_digits n) <> 0) as Hb.
    { unfold blen. destruct (be_digits n); [congruence|cbn; lia]. }
    replace (128 + blen (be_digits n) <? 128) with false by lia.
    replace (128 + blen (be_digits n) =? 128) with false by lia.
    replace (128 + blen (be_digits n) =? 255) with false by lia.
    replace (128 + blen (be_digits n) - 128) with (blen (be_digits n)) by lia.
    unfold blen at 1. rewrite Nat2N.id, take_app.
    destruct (be_digits n) as [|d ds] eqn:Ed; [congruence|].
    cbn in M. replace (b2n d =? 0) with false by lia.
    rewrite V. rewrite E. reflexivity.
Qed.

Lemma enc_len_dec_len bs n r : dec_len bs = Some (n, r) -> bs = enc_len n ++ r.
Proof.
  destruct bs as [|b bs]; [discriminate|]. cbn [dec_len].
  destruct (b2n b <? 128) eqn:E1.
  - intros H. inversion H; subst. unfold enc_len. rewrite E1. cbn. rewrite n2b_b2n. reflexivity.
  - destruct (b2n b =? 128) eqn:E2; [discriminate|].
    destruct (b2n b =? 255) eqn:E3; [discriminate|].
    destruct (take (N.to_nat (b2n b - 128)) bs) as [[ds rest]|] eqn:Et; [|discriminate].
    destruct ds as [|d0 ds']; [discriminate|].
    destruct (b2n d0 =? 0) eqn:E4; [discriminate|].
    destruct (be_value (d0 :: ds') <? 128) eqn:E5; [discriminate|].
    intros H. inversion H; subst.
    apply take_spec in Et as [-> Hlen].
    unfold enc_len. rewrite E5.
    rewrite be_digits_value by (cbn; lia).
    replace (128 + blen (d0 :: ds')) with (b2n b).
    + rewrite n2b_b2n. reflexivity.
    + unfold blen. rewrite Hlen. pose proof (b2n_lt b). lia.
Qed.

(* ------------------------------------------------------------ trees *)
Lemma enc_Cons c t k : enc (Cons c t k) = ident c true t :: enc_len (blen (encs k)) ++ encs k.
Proof. reflexivity. Qed.

Lemma wf_Cons c t k : wf (Cons c t k) = (t <? 31) && wfs k.
Proof. reflexivity. Qed.

Section tlv_ind.
  Variable P : tlv -> Prop.
  Variable Q : list tlv -> Prop.
  Hypothesis HP : forall c t v, P (Prim c t v).
  Hypothesis HC : forall c t k, Q k -> P (Cons c t k).
  Hypothesis HN : Q [].
  Hypothesis HS : forall x xs, P x -> Q xs -> Q (x :: xs).
  Fixpoint tlv_ind2 (x : tlv) : P x :=
    match x with
    | Prim c t v => HP c t v
    | Cons c t k => HC c t k ((fix go (l : list tlv) : Q l :=
                                match l with [] => HN | y :: r => HS y r (tlv_ind2 y) (go r) end) k)
    end.
  Fixpoint tlvs_ind2 (l : list tlv) : Q l :=
    match l with [] => HN | y :: r => HS y r (tlv_ind2 y) (tlvs_ind2 r) end.
End tlv_ind.

Lemma enc_nonempty x : exists i r, enc x = i :: r.
Proof. destruct x; cbn; eauto. Qed.

Lemma enc_length_pos x : (1 <= length (enc x))%nat.
Proof. destruct (enc_nonempty x) as (i & r & ->). cbn. lia. Qed.

(* D1: decoding an encoding gives the tree back *)
Lemma dec_enc_gen :
  (forall x, wf x = true -> len_ok (blen (enc x)) ->
     forall r fuel, (2 * length (enc x ++ r) <= fuel)%nat -> dec fuel (enc x ++ r) = Some (x, r))
  /\
  (forall k, wfs k = true -> len_ok (blen (encs k)) ->
     forall fuel, (2 * length (encs k) + 1 <= fuel)%nat -> dec_many fuel (encs k) = Some k).
Proof.
  set (P := fun x => wf x = true -> len_ok (blen (enc x)) ->
     forall r fuel, (2 * length (enc x ++ r) <= fuel)%nat -> dec fuel (enc x ++ r) = Some (x, r)).
  set (Q := fun k => wfs k = true -> len_ok (blen (encs k)) ->
     forall fuel, (2 * length (encs k) + 1 <= fuel)%nat -> dec_many fuel (encs k) = Some k).
  assert (HP : forall c t v, P (Prim c t v)).
  { unfold P. intros c t v Hwf Hlen r fuel Hf. cbn in Hwf.
    destruct fuel as [|f]; [cbn in Hf; lia|].
    cbn [enc app dec].
    rewrite dec_ident_ident by lia.
    rewrite <- app_assoc, dec_len_enc_len.
    + rewrite take_n_take. unfold blen. rewrite Nat2N.id, take_app. reflexivity.
    + unfold len_ok in *. cbn [enc] in Hlen. unfold blen in *. cbn [length] in Hlen.
      rewrite app_length in Hlen. lia. }
  assert (HC : forall c t k, Q k -> P (Cons c t k)).
  { unfold P, Q. intros c t k IH Hwf Hlen r fuel Hf.
    rewrite wf_Cons in Hwf. apply andb_prop in Hwf as [Ht Hk].
    destruct fuel as [|f]; [cbn in Hf; lia|].
    rewrite enc_Cons in *. cbn [app dec].
    rewrite dec_ident_ident by lia.
    assert (len_ok (blen (encs k))) as Hlk.
    { unfold len_ok, blen in *. cbn [length] in Hlen. rewrite app_length in Hlen. lia. }
    rewrite <- app_assoc, dec_len_enc_len by exact Hlk.
    rewrite take_n_take. unfold blen at 1. rewrite Nat2N.id, take_app.
    rewrite IH; [reflexivity|exact Hk|exact Hlk|].
    repeat (rewrite app_length in Hf || cbn [length] in Hf). lia. }
  assert (HN : Q []).
  { unfold Q. intros _ _ fuel Hf. destruct fuel; [lia|reflexivity]. }
  assert (HS : forall x xs, P x -> Q xs -> Q (x :: xs)).
  { unfold P, Q. intros x xs IHx IHxs Hwf Hlen fuel Hf.
    cbn [wfs] in Hwf. apply andb_prop in Hwf as [Hx Hxs].
    cbn [encs] in *.
    destruct fuel as [|f]; [lia|].
    cbn [dec_many].
    destruct (enc_nonempty x) as (i & r0 & Ei).
    assert (len_ok (blen (enc x)) /\ len_ok (blen (encs xs))) as [L1 L2].
    { unfold len_ok in *. rewrite blen_app in Hlen. split; lia. }
    rewrite Ei. cbn [app]. rewrite (app_comm_cons r0 (encs xs) i), <- Ei.
    rewrite IHx; [|exact Hx|exact L1|lia].
    rewrite IHxs; [reflexivity|exact Hxs|exact L2|].
    rewrite app_length in Hf. pose proof (enc_length_pos x). lia. }
  split; [exact (tlv_ind2 P Q HP HC HN HS)|exact (tlvs_ind2 P Q HP HC HN HS)].
Qed.

Theorem parse_enc x r : wf x = true -> len_ok (blen (enc x)) -> parse (enc x ++ r) = Some (x, r).
Proof.
  intros Hw Hl. unfold parse. apply (proj1 dec_enc_gen); [assumption|assumption|lia].
Qed.

(* D2: whatever the strict decoder accepts is the canonical encoding of its result *)
Lemma enc_dec_gen : forall fuel,
  (forall bs x r, dec fuel bs = Some (x, r) -> bs = enc x ++ r /\ wf x = true) /\
  (forall bs k, dec_many fuel bs = Some k -> bs = encs k /\ wfs k = true).
Proof.
  induction fuel as [|f [IHd IHm]]; [split; intros; discriminate|].
  split.
  - intros bs x r H. cbn [dec] in H.
    destruct bs as [|i bs]; [discriminate|].
    destruct (dec_ident i) as [[[c b] t]|] eqn:Ei; [|discriminate].
    apply ident_dec_ident in Ei as [-> Ht].
    destruct (dec_len bs) as [[n r2]|] eqn:El; [|discriminate].
    apply enc_len_dec_len in El. subst bs.
    rewrite take_n_take in H.
    destruct (take (N.to_nat n) r2) as [[content rest]|] eqn:Et; [|discriminate].
    apply take_spec in Et as [-> Hn].
    assert (n = blen content) as -> by (unfold blen; lia).
    destruct b.
    + destruct (dec_many f content) as [k|] eqn:Em; [|discriminate].
      inversion H; subst. apply IHm in Em as [-> Hk].
      rewrite enc_Cons, wf_Cons. split.
      * cbn [app]. rewrite <- app_assoc. reflexivity.
      * rewrite Hk. replace (t <? 31) with true by lia. reflexivity.
    + inversion H; subst. cbn [enc wf app]. split.
      * rewrite <- app_assoc. reflexivity.
      * lia.
  - intros bs k H. cbn [dec_many] in H.
    destruct bs as [|i bs]; [inversion H; subst; split; reflexivity|].
    destruct (dec f (i :: bs)) as [[x r]|] eqn:Ed; [|discriminate].
    destruct (dec_many f r) as [xs|] eqn:Em; [|discriminate].
    inversion H; subst.
    apply IHd in Ed as [Ed Hx]. apply IHm in Em as [-> Hxs].
    cbn [encs wfs]. rewrite Ed, Hx, Hxs. split; reflexivity.
Qed.

Theorem enc_parse bs x r : parse bs = Some (x, r) -> bs = enc x ++ r /\ wf x = true.
Proof. unfold parse. apply (proj1 (enc_dec_gen _)). Qed.

Corollary enc_injective x y :
  wf x = true -> wf y = true -> len_ok (blen (enc x)) -> len_ok (blen (enc y)) ->
  enc x = enc y -> x = y.
Proof.
  intros Hx Hy Lx Ly E.
  pose proof (parse_enc x [] Hx Lx) as Px. pose proof (parse_enc y [] Hy Ly) as Py.
  rewrite !app_nil_r in *. rewrite E in Px. rewrite Px in Py. inversion Py. reflexivity.
Qed.
