(* db.validateAndMerge on whole configurations (Model/Effective.v): what a profile can and cannot change.
   C03: identity fields are independent of the profile; C04/C08: the certificate's own validity wins iff it is set;
   C08: the effective extension list is the documented merge; a content-less extension that remains makes generation fail;
   C09: an entity is rejected exactly when its subject does not parse or violates the profile. *)
From Coq Require Import List NArith ZArith Bool Lia.
From Coq.Strings Require Import Byte.
From Gopki.Model Require Import Bytes Base64 Der Asn1 Text Ext Rdn Time X509 Generate Merge Validate Current Effective.
From Gopki.Spec Require Import MergeSpec ValidateSpec.
From Gopki.Proofs Require Import MergeProofs ValidateProofs.
Import ListNotations.

Theorem effective_no_profile c : effective None c = Some c.
Proof. reflexivity. Qed.

Theorem effective_keeps_identity p c c' : effective p c = Some c' ->
  cc_subject c' = cc_subject c /\ cc_serial c' = cc_serial c /\ cc_issuer_uid c' = cc_issuer_uid c /\
  cc_subject_uid c' = cc_subject_uid c /\ cc_keyalg c' = cc_keyalg c /\ cc_sigalg c' = cc_sigalg c /\ cc_manip c' = cc_manip c.
Proof.
  unfold effective. destruct p as [pr|]; [|intros H; inversion H; subst; repeat split].
  destruct (parse_rdn (cc_subject c)); [|discriminate]. destruct (validate_subject pr l); [|discriminate].
  intros H. inversion H; subst. cbn. repeat split.
Qed.

Theorem effective_extensions_are_the_documented_merge pr c c' : effective (Some pr) c = Some c' ->
  cc_exts c' = merge_spec any_ext any_ext_oid_eqb any_ext_eqb (pr_exts pr) (cc_exts c).
Proof.
  unfold effective. destruct (parse_rdn (cc_subject c)); [|discriminate]. destruct (validate_subject pr l); [|discriminate].
  intros H. inversion H; subst. cbn [cc_exts]. apply merge_refines_spec.
Qed.

Theorem effective_validity pr c c' : effective (Some pr) c = Some c' ->
  cc_validity c' = if validity_is_set (cc_validity c) then cc_validity c
                   else if validity_is_set (pr_validity pr) then pr_validity pr else cc_validity c.
Proof.
  unfold effective. destruct (parse_rdn (cc_subject c)); [|discriminate]. destruct (validate_subject pr l); [|discriminate].
  intros H. inversion H; subst. cbn [cc_validity].
  destruct (validity_is_set (cc_validity c)), (validity_is_set (pr_validity pr)); reflexivity.
Qed.

Theorem effective_rejects_iff pr c :
  effective (Some pr) c = None <->
  parse_rdn (cc_subject c) = None \/ exists subj, parse_rdn (cc_subject c) = Some subj /\ validate_subject pr subj = false.
Proof.
  unfold effective. destruct (parse_rdn (cc_subject c)) as [subj|]; [|split; auto].
  destruct (validate_subject pr subj) eqn:V; split.
  - discriminate.
  - intros [H|(s & Hs & Hv)]; [discriminate|]. inversion Hs; subst. congruence.
  - intros _. right. exists subj. auto.
  - reflexivity.
Qed.

(* with the repaired Validate the subject test is the documented rule *)
Theorem validate_subject_is_the_rule pr subj :
  validate_subject pr subj = true <->
  accepts (list Z) (match pr_attrs pr with
                    | None => None
                    | Some l => Some (map (fun a => mkPattr (list Z) (resolve_attr (fst a)) (snd a)) l)
                    end) (pr_allow_other pr) (map r_type subj).
Proof.
  unfold validate_subject. change cur_validate with true. cbn iota.
  apply (validate_fixed_spec (list Z) (list_eqb Z.eqb)).
  intros a b. revert b. induction a as [|x a IH]; intros [|y b]; cbn; split; try congruence; try discriminate.
  - intros H. apply andb_prop in H as [H1 H2]. apply Z.eqb_eq in H1. apply IH in H2. congruence.
  - intros H. inversion H; subst. rewrite Z.eqb_refl. apply IH. reflexivity.
Qed.

(* ---- a content-less extension cannot be generated (C08: never emitted empty, never silently dropped) *)
Definition contentless (x : any_ext) : bool :=
  match x with
  | XSki raw _ ct | XAki raw _ ct => seqb raw [] && seqb ct []
  | XKu raw _ ct | XEku raw _ ct | XAia raw _ ct => seqb raw [] && negb (is_some ct)
  | XSan raw _ ct => seqb raw [] && negb (is_some ct)
  | XBc raw _ ct => seqb raw [] && negb (is_some ct)
  | XCp raw _ ct => seqb raw [] && negb (is_some ct)
  | XAdm raw _ ct => seqb raw [] && negb (is_some ct)
  | XOcsp _ _ => false
  | XCustom _ raw _ => seqb raw []
  end.

Lemma seqb_nil s : seqb s [] = true -> s = [].
Proof. destruct s; [reflexivity|discriminate]. Qed.

Theorem contentless_does_not_build fx sha1 x bits ibits : contentless x = true -> build_ext fx sha1 x bits ibits = None.
Proof.
  destruct x; cbn [contentless]; intros H; try discriminate;
    try (apply andb_prop in H as [H1 H2]; apply seqb_nil in H1; subst).
  - apply seqb_nil in H2. subst. reflexivity.
  - destruct content; [discriminate|reflexivity].
  - destruct content; [discriminate|reflexivity].
  - destruct content; [discriminate|reflexivity].
  - destruct content; [discriminate|reflexivity].
  - destruct content; [discriminate|reflexivity].
  - apply seqb_nil in H2. subst. reflexivity.
  - destruct content; [discriminate|reflexivity].
  - destruct content; [discriminate|reflexivity].
  - apply seqb_nil in H. subst. cbn [build_ext]. destruct (oid_from_string oid); [|reflexivity].
    destruct (arcs_to_N l); reflexivity.
Qed.

Lemma map_opt_none_in {A B} (f : A -> option B) l x : In x l -> f x = None -> map_opt f l = None.
Proof.
  induction l as [|y l IH]; intros Hin Hx; [destruct Hin|]. cbn [map_opt].
  destruct Hin as [->|Hin].
  - rewrite Hx. reflexivity.
  - destruct (f y); [|reflexivity]. rewrite (IH Hin Hx). reflexivity.
Qed.

Theorem contentless_extension_fails_generation fx mfx sha1 c o iss x :
  In x (cc_exts c) -> contentless x = true -> gen_tcert fx mfx sha1 c o iss = None.
Proof.
  intros Hin Hc. unfold gen_tcert.
  destruct ((cc_serial c <? 0)%Z || (9223372036854775807 <? cc_serial c)%Z); [reflexivity|].
  destruct (parse_rdn (cc_subject c)); [|reflexivity].
  destruct (to_time_struct _ _ _); [|reflexivity].
  destruct (sig_oid _) as [[so rsa]|]; [|reflexivity].
  destruct (match m_tbs_pk (cc_manip c) with [] => _ | _ => _ end) as [bits|]; [|reflexivity].
  destruct (uid_field fx (cc_issuer_uid c)); [|reflexivity].
  destruct (uid_field fx (cc_subject_uid c)); [|reflexivity].
  destruct (manip_oid mfx (m_tbs_sigalg (cc_manip c))); [|reflexivity].
  destruct (manip_oid mfx (m_outer_sigalg (cc_manip c))); [|reflexivity].
  destruct (manip_oid mfx (m_tbs_pkalg (cc_manip c))); [|reflexivity].
  destruct (match m_sigvalue (cc_manip c) with [] => _ | _ => _ end); [|reflexivity].
  rewrite (map_opt_none_in _ _ x Hin); [reflexivity|].
  apply contentless_does_not_build. exact Hc.
Qed.
