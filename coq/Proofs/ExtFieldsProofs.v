(* C06: every extension that is built carries the OID of its kind (or the configured OID of a custom extension), the
   configured critical flag, and - when given as raw - exactly the decoded raw value. *)
From Coq Require Import List NArith ZArith Bool Lia.
From Coq.Strings Require Import Byte.
From Gopki.Model Require Import Bytes Base64 Der Asn1 Text Ext Current Effective.
Import ListNotations.

Definition cfg_crit (x : any_ext) : bool :=
  match x with
  | XSki _ c _ | XKu _ c _ | XSan _ c _ | XBc _ c _ | XCp _ c _ | XAia _ c _ | XAki _ c _ | XEku _ c _ | XAdm _ c _
  | XOcsp _ c | XCustom _ _ c => c
  end.
Definition cfg_raw (x : any_ext) : bytes :=
  match x with
  | XSki r _ _ | XKu r _ _ | XSan r _ _ | XBc r _ _ | XCp r _ _ | XAia r _ _ | XAki r _ _ | XEku r _ _ | XAdm r _ _
  | XOcsp r _ | XCustom _ r _ => r
  end.

Ltac crush_common :=
  repeat match goal with
         | H : match ?X with _ => _ end = _ |- _ => let E := fresh "E" in destruct X eqn:E; try discriminate H
         | H : (if ?X then _ else _) = _ |- _ => let E := fresh "E" in destruct X eqn:E; try discriminate H
         | H : Some _ = Some _ |- _ => inversion H; subst; clear H
         | H : CBuilt _ = CBuilt _ |- _ => inversion H; subst; clear H
         end.

Lemma build_ku_fields crit l e : build_ku cur_fx crit l = Some e -> x_oid e = oid_ku /\ x_crit e = crit.
Proof. unfold build_ku. intros H. crush_common. split; reflexivity. Qed.
Lemma build_san_fields crit l e : build_san cur_fx crit l = Some e -> x_oid e = oid_san /\ x_crit e = crit.
Proof. unfold build_san. intros H. crush_common. split; reflexivity. Qed.
Lemma build_cp_fields crit l e : build_cp cur_fx crit l = Some e -> x_oid e = oid_cp /\ x_crit e = crit.
Proof. unfold build_cp. intros H. crush_common. split; reflexivity. Qed.
Lemma build_aia_fields crit l e : build_aia crit l = Some e -> x_oid e = oid_aia /\ x_crit e = crit.
Proof. unfold build_aia. intros H. crush_common. split; reflexivity. Qed.
Lemma build_eku_fields crit l e : build_eku crit l = Some e -> x_oid e = oid_eku /\ x_crit e = crit.
Proof. unfold build_eku. intros H. crush_common. split; reflexivity. Qed.
Lemma build_adm_fields crit a e : build_admission cur_fx crit a = Some e -> x_oid e = oid_adm /\ x_crit e = crit.
Proof. unfold build_admission. intros H. crush_common. split; reflexivity. Qed.

Theorem built_extension_oid_and_critical sha1 x bits ibits e :
  build_ext cur_fx sha1 x bits ibits = Some e ->
  Some (x_oid e) = any_ext_oid x /\ x_crit e = cfg_crit x.
Proof.
  destruct x; cbn [build_ext any_ext_oid cfg_crit]; unfold common_handler; intros H.
  - crush_common; split; reflexivity.
  - crush_common; try (split; reflexivity). apply build_ku_fields in H as [-> ->]. split; reflexivity.
  - crush_common; try (split; reflexivity). apply build_san_fields in H as [-> ->]. split; reflexivity.
  - crush_common; split; reflexivity.
  - crush_common; try (split; reflexivity). apply build_cp_fields in H as [-> ->]. split; reflexivity.
  - crush_common; try (split; reflexivity). apply build_aia_fields in H as [-> ->]. split; reflexivity.
  - crush_common; split; reflexivity.
  - crush_common; try (split; reflexivity). apply build_eku_fields in H as [-> ->]. split; reflexivity.
  - crush_common; try (split; reflexivity). apply build_adm_fields in H as [-> ->]. split; reflexivity.
  - crush_common; split; reflexivity.
  - crush_common; split; reflexivity.
Qed.

(* a value given as raw is the extension's value byte for byte (for ocspNoCheck an absent raw means the fixed NULL value) *)
Theorem raw_value_reaches_the_extension sha1 x bits ibits e :
  cfg_raw x <> [] -> build_ext cur_fx sha1 x bits ibits = Some e -> raw_of cur_fx (cfg_raw x) = Some (x_value e).
Proof.
  destruct x; cbn [build_ext cfg_raw]; unfold common_handler; intros Hr H;
    destruct raw as [|r0 raw]; try congruence; crush_common; reflexivity.
Qed.
