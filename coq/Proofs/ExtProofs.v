From Coq Require Import List Arith NArith ZArith Bool Lia.
From Coq Require Import ZifyN ZifyBool ZifyNat.
From Coq.Strings Require Import Byte.
From Gopki.Model Require Import Bytes Base64 Der Asn1 Text Ext Rdn X509.
From Gopki.Spec Require Import X509Spec ExtSpec.
From Gopki.Proofs Require Import BytesProofs DerProofs Asn1Proofs X509Proofs.
Import ListNotations.
Open Scope N_scope.

Definition all_fixed : fixes := mkFixes true true true true true true.
Definition none_fixed : fixes := mkFixes false false false false false false.

(* ------------------------------------------------------------ keyUsage: finite domain, exhaustive *)
Lemma ku_sweep :
  forallb (fun f => if N.even f then match spec_dec_ku (ku_tlv all_fixed f) with Some v => v =? f | None => false end else true)
          (below 256) = true.
Proof. vm_compute. reflexivity. Qed.

(* C07 (keyUsage, repaired): every set of flags is encoded as the minimal named bit list and reads back exactly *)
Theorem ku_decodes fx f : fx_ku_bits fx = true -> f < 256 -> N.even f = true ->
  spec_dec_ku (ku_tlv fx f) = Some f.
Proof.
  intros Hx Hf He. assert (ku_tlv fx f = ku_tlv all_fixed f) as -> by (unfold ku_tlv; rewrite Hx; reflexivity).
  pose proof ku_sweep as S. rewrite forallb_forall in S. specialize (S f (below_in 256 f ltac:(lia))).
  rewrite He in S. destruct (spec_dec_ku _) as [v|]; [|discriminate]. apply N.eqb_eq in S. congruence.
Qed.

(* F4: as written, digitalSignature alone (0x80) is emitted with one unused bit instead of seven *)
Example C07_ku_refuted_faithful : spec_dec_ku (ku_tlv none_fixed 128) = None.
Proof. vm_compute. reflexivity. Qed.

(* the flag names map to the RFC 5280 bit positions; any list of names gives an even value below 256 *)
Lemma ku_flag_range s v : ku_flag s = Some v -> v < 256 /\ N.even v = true.
Proof.
  unfold ku_flag. repeat (destruct (seqb s _); [intros H; inversion H; subst; split; [lia|reflexivity]|]).
  discriminate.
Qed.

(* ------------------------------------------------------------ basicConstraints *)
Theorem bc_decodes crit ca pl : (0 <= pl)%Z ->
  exists t, x_value (build_bc crit ca pl) = enc t /\
            spec_dec_bc t = Some (ca, if (pl =? 0)%Z then None else Some pl) /\
            x_crit (build_bc crit ca pl) = crit.
Proof.
  intros Hp. unfold build_bc. cbn [x_value x_crit]. eexists. split; [reflexivity|]. split; [|reflexivity].
  destruct ca, (pl =? 0)%Z eqn:E; cbn [app spec_dec_bc der_seq].
  - unfold der_bool. cbn [dec_bool_true]. rewrite b2n_n2b by lia. reflexivity.
  - unfold der_bool at 1. cbn [dec_bool_true]. rewrite b2n_n2b by lia. cbn [N.eqb Pos.eqb].
    unfold dec_int, der_int. rewrite int_roundtrip. replace (0 <=? pl)%Z with true by lia. reflexivity.
  - reflexivity.
  - unfold der_int at 1. cbn [dec_bool_true]. unfold dec_int, der_int. rewrite int_roundtrip.
    replace (0 <=? pl)%Z with true by lia. reflexivity.
Qed.

(* F5: a configured pathLen of 0 cannot be expressed - the decoder reads "no constraint" *)
Example C07_bc_pathlen0_refuted :
  exists t, x_value (build_bc false true 0) = enc t /\ spec_dec_bc t = Some (true, None).
Proof. destruct (bc_decodes false true 0 ltac:(lia)) as (t & E & D & _). exists t. split; assumption. Qed.

(* ------------------------------------------------------------ key identifiers, ocspNoCheck *)
Theorem ski_decodes sha1 crit bits :
  exists t, x_value (build_ski_hash sha1 crit bits) = enc t /\ spec_dec_ski t = Some (sha1 bits).
Proof. eexists. split; reflexivity. Qed.

Theorem aki_hash_decodes sha1 crit bits :
  exists t, x_value (build_aki_hash sha1 crit bits) = enc t /\ spec_dec_aki t = Some (Some (sha1 bits)).
Proof. eexists. split; reflexivity. Qed.

Theorem aki_id_decodes crit id : id <> [] ->
  exists t, x_value (build_aki_id crit id) = enc t /\ spec_dec_aki t = Some (Some id).
Proof. intros H. destruct id; [congruence|]. eexists. split; reflexivity. Qed.

(* C01: a child's hashed authority key identifier is its issuer's hashed subject key identifier *)
Theorem aki_is_ski sha1 c1 c2 issuer_bits :
  exists t1 t2, x_value (build_aki_hash sha1 c1 issuer_bits) = enc t1 /\
                x_value (build_ski_hash sha1 c2 issuer_bits) = enc t2 /\
                spec_dec_aki t1 = Some (spec_dec_ski t2).
Proof. eexists _, _. repeat split. Qed.

(* ------------------------------------------------------------ extendedKeyUsage *)
Theorem eku_decodes crit content e : content <> [] -> build_eku crit content = Some e ->
  exists t oids, x_value e = enc t /\ spec_dec_eku t = Some oids /\ length oids = length content /\ x_crit e = crit.
Proof.
  intros Hne H. unfold build_eku in H.
  destruct (map_opt _ content) as [us|] eqn:M; [|discriminate]. inversion H; subst. cbn [x_value x_crit].
  assert (exists oids, map_opt dec_oid us = Some oids /\ length oids = length content) as (oids & D & L).
  { clear H Hne. revert us M. induction content as [|s r IH]; intros us M; cbn in M.
    - inversion M; subst. exists []. split; reflexivity.
    - destruct (match eku_name s with Some o => der_oid o | None => enc_oid_str s end) as [t|] eqn:Et; [|discriminate].
      destruct (map_opt _ r) as [ts|] eqn:Er; [|discriminate]. inversion M; subst.
      destruct (IH ts eq_refl) as (os & D & L).
      assert (exists o, dec_oid t = Some o) as (o & Do).
      { destruct (eku_name s) as [o|].
        - exists o. apply dec_oid_der_oid. exact Et.
        - unfold enc_oid_str in Et. destruct (oid_from_string s) as [zs|]; [|discriminate].
          destruct (arcs_to_N zs) as [ns|]; [|discriminate]. exists ns. apply dec_oid_der_oid. exact Et. }
      exists (o :: os). cbn. rewrite Do, D. split; [reflexivity|cbn; congruence]. }
  exists (der_seq us), oids. split; [reflexivity|]. split; [|split; [exact L|reflexivity]].
  destruct us as [|u us']; [|exact D].
  cbn in D. inversion D; subst. destruct content; [congruence|discriminate L].
Qed.

(* ------------------------------------------------------------ subjectAlternativeName, authorityInformationAccess *)
Definition view_san_name (fx : fixes) (tn : bytes * bytes) : option gen_name :=
  let '(ty, name) := tn in
  if seqb ty s_mail then Some (GnRfc822 name)
  else if seqb ty s_dns then Some (GnDns name)
  else if seqb ty s_ip then match parse_ip (fx_san_ip fx) name with Some b => Some (GnIp b) | None => None end
  else None.

Lemma parse_ip_length chk s b : parse_ip chk s = Some b -> length b = 4%nat.
Proof.
  unfold parse_ip. destruct (split 46 s) as [|a [|b0 [|c [|d [|e r]]]]]; try discriminate.
  destruct (atoi a), (atoi b0), (atoi c), (atoi d); try discriminate.
  destruct (chk && _); [discriminate|]. intros H. inversion H. reflexivity.
Qed.

Lemma san_name_decodes fx tn t : san_name fx (fst tn) (snd tn) = Some t -> 
  exists g, dec_gen_name t = Some g /\ view_san_name fx tn = Some g.
Proof.
  destruct tn as [ty name]. unfold san_name, view_san_name. cbn [fst snd].
  destruct (seqb ty s_mail); [intros H; inversion H; subst; eexists; split; reflexivity|].
  destruct (seqb ty s_dns); [intros H; inversion H; subst; eexists; split; reflexivity|].
  destruct (seqb ty s_ip); [|discriminate].
  destruct (parse_ip (fx_san_ip fx) name) as [b|] eqn:P; [|discriminate].
  intros H. inversion H; subst. exists (GnIp b). split; [|reflexivity].
  cbn [dec_gen_name]. rewrite (parse_ip_length _ _ _ P). reflexivity.
Qed.

(* C07 (SAN): every configured name is read back with its own GeneralName kind and bytes, in order *)
Theorem san_decodes fx crit content e : build_san fx crit content = Some e ->
  exists t names, x_value e = enc t /\ spec_dec_san t = Some names /\
                  map_opt (view_san_name fx) content = Some names /\ x_crit e = crit.
Proof.
  unfold build_san. destruct (map_opt _ content) as [ns|] eqn:M; [|discriminate].
  intros H. inversion H; subst. cbn [x_value x_crit].
  assert (exists names, map_opt dec_gen_name ns = Some names /\ map_opt (view_san_name fx) content = Some names) as (names & D & V).
  { clear H. revert ns M. induction content as [|tn r IH]; intros ns M; cbn in M.
    - inversion M; subst. exists []. split; reflexivity.
    - destruct (san_name fx (fst tn) (snd tn)) as [t|] eqn:Et; [|discriminate].
      destruct (map_opt _ r) as [ts|] eqn:Er; [|discriminate]. inversion M; subst.
      destruct (IH ts eq_refl) as (gs & D & V). destruct (san_name_decodes fx tn t Et) as (g & Dg & Vg).
      exists (g :: gs). cbn. rewrite Dg, D, Vg, V. split; reflexivity. }
  exists (der_seq ns), names. repeat split; assumption.
Qed.

(* C07 (AIA): every OCSP location is a URI under the id-ad-ocsp access method *)
Theorem aia_decodes crit content e : build_aia crit content = Some e ->
  exists t, x_value e = enc t /\
            spec_dec_aia t = Some (map (fun u => (oid_ad_ocsp, GnUri u)) content) /\ x_crit e = crit.
Proof.
  unfold build_aia. match goal with |- context[map_opt ?f content] => destruct (map_opt f content) as [ads|] eqn:M end; [|discriminate].
  intros H. inversion H; subst. cbn [x_value x_crit]. exists (der_seq ads). split; [reflexivity|]. split; [|reflexivity].
  cbn [spec_dec_aia der_seq]. clear H. revert ads M. induction content as [|u r IH]; intros ads M; cbn [map_opt] in M.
  - inversion M; subst. reflexivity.
  - destruct u as [|b0 u']; [discriminate|].
    match type of M with context[map_opt ?f r] => destruct (map_opt f r) as [ts|] eqn:Er end; [|discriminate].
    inversion M; subst.
    cbn [map_opt map der_seq]. rewrite (IH ts eq_refl).
    assert (dec_oid (tlv_of_oid oid_ad_ocsp) = Some oid_ad_ocsp) as -> by (vm_compute; reflexivity).
    reflexivity.
Qed.

(* F21: as written an out-of-range octet wraps instead of being refused *)
Example C07_san_ip_refuted :
  parse_ip false (map n2b [51; 48; 48; 46; 49; 46; 50; 46; 51]%N) = Some (map n2b [44; 1; 2; 3]%N) /\
  parse_ip true (map n2b [51; 48; 48; 46; 49; 46; 50; 46; 51]%N) = None.
Proof. vm_compute. split; reflexivity. Qed.
