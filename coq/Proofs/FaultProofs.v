From Coq Require Import List Arith Bool Lia.
From Gopki.Model Require Import Dir Plan Run.
From Gopki.Spec Require Import RegenSpec DirInv.
From Gopki.Proofs Require Import PlanProofs RunProofs.
Import ListNotations.

(* facts about a fault-free BulkUpdate over an arbitrary issuer-first change list (a prefix of a plan) *)
Record pfacts (es es' : list ent) (clock clock' : nat) (ch : list alias) : Prop := {
  pf_skel : same_skeleton es es';
  pf_clock : clock' = clock + length ch;
  pf_untouched : forall a, ~ In a ch -> file_at es' a = file_at es a;
  pf_written : forall i a, nth_error ch i = Some a ->
     exists e f, find_ent es a = Some e /\ file_at es' a = Some f /\
                 gen_post es' e (art es a) f /\ f_mtime f = clock + S i
}.

Lemma bulk_pfacts fn ch es clock nk idx wr es' clock' nk' w :
  wf_dir es -> NoDup ch -> issuers_first es ch ->
  bulk fn es ch clock nk idx None wr = (ROk, es', clock', nk', w) ->
  pfacts es es' clock clock' ch.
Proof.
  intros W N O H. destruct (bulk_post fn ch es clock nk idx wr es' clock' nk' w W N O H) as (S & _ & C & U & G).
  constructor; auto.
Qed.

Lemma pf_inv3 es es' clock clock' ch : pfacts es es' clock clock' ch -> all_inv3 es -> all_inv3 es'.
Proof.
  intros F I a. destruct (in_dec Nat.eq_dec a ch) as [Hin|Hn].
  - apply In_nth_error in Hin as (i & Hi).
    destruct (pf_written _ _ _ _ _ F i a Hi) as (e & f & _ & Ff & GP & _).
    rewrite art_of_file_at in GP. rewrite art_of_file_at, Ff, (gen_post_import _ _ _ _ GP).
    eapply gen_post_inv3; eauto.
  - rewrite art_of_file_at, (pf_untouched _ _ _ _ _ F a Hn), <- art_of_file_at. apply I.
Qed.

(* the certificate produced by a generation chains to the issuer as seen in [es'] *)
Lemma gen_post_chain es' e e' x f c :
  e_cfg e' = e_cfg e -> all_inv3 es' -> gen_post es' e x f -> f_cert f = Some c -> chain_okb es' e' c = true.
Proof.
  intros A2 I' (_ & _ & _ & c0 & C1 & C2 & _ & _ & _ & C6 & C7) Hc.
  rewrite C1 in Hc. inversion Hc; subst c0.
  unfold chain_okb, chain_with, issuer_of. rewrite A2.
  destruct (g_issuer (e_cfg e)) as [p|].
  - destruct C7 as (pc & pk & P1 & P2 & _ & P4 & P5).
    assert (cert_at es' p = Some pc) as CP.
    { unfold cert_at. rewrite art_of_file_at, import_file_cert in P1.
      destruct (file_at es' p); [exact P1|discriminate]. }
    rewrite CP. specialize (I' p). unfold inv3 in I'. rewrite P1, P2 in I'.
    apply andb_prop in I' as [I' _]. apply Nat.eqb_eq in I'. rewrite P4, P5, I', !Nat.eqb_refl. reflexivity.
  - destruct C7 as (k & K1 & _ & K3 & K4). rewrite K1 in C6.
    rewrite K3, C6, K4, C2, !Nat.eqb_refl. reflexivity.
Qed.

Lemma dir_inv_mono es c c' nk nk' : dir_inv (mkDir es c nk) = true -> c <= c' -> dir_inv (mkDir es c' nk') = true.
Proof.
  unfold dir_inv. cbn [d_ents d_clock]. rewrite !forallb_forall. intros H L e He. specialize (H e He).
  unfold inv_ent in *. apply andb_prop in H as [H1 H2]. apply Nat.leb_le in H2.
  replace (e_cfg_mtime e <=? c') with true by (symmetry; apply Nat.leb_le; lia). rewrite andb_true_r.
  destruct (e_file e) as [f0|]; [|reflexivity].
  apply andb_prop in H1 as [H1 H3]. apply Nat.leb_le in H3. rewrite H1. cbn [andb].
  apply Nat.leb_le. lia.
Qed.

(* the invariant survives any issuer-first prefix of a BulkUpdate *)
Lemma pfacts_inv es es' clock clock' nk nk' ch :
  wf_dir es -> dir_inv (mkDir es clock nk) = true -> blind_free es ->
  pfacts es es' clock clock' ch -> dir_inv (mkDir es' clock' nk') = true.
Proof.
  intros W I BF F.
  pose proof (pf_skel _ _ _ _ _ F) as S.
  assert (wf_dir es') as W' by (eapply skel_wf; eauto).
  pose proof (dir_inv_clock _ I) as C. unfold clock_ok in C. cbn [d_ents d_clock] in C.
  pose proof (pf_inv3 _ _ _ _ _ F (dir_inv_inv3 _ I)) as I3'.
  unfold dir_inv. cbn [d_ents d_clock]. apply forallb_forall. intros e' He'.
  set (a := e_alias e').
  pose proof (find_ent_in _ _ W' He') as Fe'. fold a in Fe'.
  pose proof (same_skeleton_find _ _ a S) as SF. rewrite Fe' in SF.
  destruct (find_ent es a) as [e|] eqn:Fe; [|contradiction]. destruct SF as (A1 & A2 & A3).
  assert (In e es) as He by (apply find_ent_some in Fe; tauto).
  unfold inv_ent. rewrite (pf_clock _ _ _ _ _ F).
  assert (Nat.leb (e_cfg_mtime e') (clock + length ch) = true) as Cm.
  { apply Nat.leb_le. rewrite A3. destruct (C e He). lia. }
  rewrite Cm, andb_true_r.
  destruct (e_file e') as [f0'|] eqn:Ef'; [|reflexivity].
  destruct (in_dec Nat.eq_dec a ch) as [Hin|Hn].
  - (* regenerated *)
    destruct (In_nth_error _ _ Hin) as (i & Hi).
    destruct (pf_written _ _ _ _ _ F i a Hi) as (e0 & f & Fe0 & Ff & GP & Hm).
    rewrite Fe in Fe0. inversion Fe0; subst e0.
    rewrite (file_at_find _ _ _ Fe'), Ef' in Ff. inversion Ff; subst f0'.
    pose proof GP as GP0. rewrite art_of_file_at in GP0.
    rewrite (gen_post_import _ _ _ _ GP0), (gen_post_inv3 _ _ _ _ GP0). cbn [andb].
    destruct (gen_post_material _ _ _ _ GP0) as (c & Cc & _ & _).
    pose proof (gen_post_chain es' e e' _ f c A2 I3' GP Cc) as Ch.
    destruct GP as (Hh & _ & _ & c0 & C1 & C2 & C3 & C4 & _).
    rewrite Cc in C1. inversion C1; subst c0.
    unfold inv2, inv1. rewrite Hh, Cc. cbn [hview_of h_subj h_vis h_issuer].
    rewrite C2, C3, C4, (BF e He), !Nat.eqb_refl. cbn [andb].
    unfold chain_okb, issuer_of in Ch. rewrite A2 in Ch. rewrite Ch. cbn [orb].
    assert (i < length ch) as Hlt.
    { apply (proj1 (nth_error_Some ch i)). intros E. pose proof (eq_trans (eq_sym E) Hi) as X. discriminate X. }
    replace (f_mtime f <=? clock + length ch) with true by (symmetry; apply Nat.leb_le; lia).
    destruct (has_key_material f); reflexivity.
  - (* untouched *)
    assert (e_file e = Some f0') as Ef.
    { rewrite <- (file_at_find _ _ _ Fe), <- (pf_untouched _ _ _ _ _ F a Hn), (file_at_find _ _ _ Fe'). exact Ef'. }
    unfold dir_inv in I. cbn [d_ents d_clock] in I. rewrite forallb_forall in I. specialize (I e He).
    apply inv_ent_facts in I as [_ I]. rewrite Ef in I. cbn zeta in I. destruct I as (I3 & I2 & I1 & Im).
    rewrite I3, I2. cbn [andb].
    replace (f_mtime f0' <=? clock + length ch) with true by (symmetry; apply Nat.leb_le; lia).
    rewrite andb_true_r.
    unfold inv1 in *.
    destruct (f_hash (import_file (Some f0'))) as [h|]; [|reflexivity].
    destruct (f_cert (import_file (Some f0'))) as [c|]; [|reflexivity].
    destruct (has_key_material (import_file (Some f0'))); [|reflexivity].
    destruct (h_issuer h) as [p|] eqn:Hi; [|exact I1].
    destruct (in_dec Nat.eq_dec p ch) as [Hp|Hp].
    + (* the recorded issuer was rewritten in this prefix: it is newer now *)
      apply orb_true_iff. right.
      destruct (In_nth_error _ _ Hp) as (j & Hj).
      destruct (pf_written _ _ _ _ _ F j p Hj) as (pe & pf & Fp & Fpf & GPp & Hmp).
      rewrite art_of_file_at in GPp. destruct (gen_post_material _ _ _ _ GPp) as (pc & Pc & _ & _).
      pose proof (same_skeleton_find _ _ p S) as SP. rewrite Fp in SP.
      destruct (find_ent es' p) as [pe'|] eqn:Fp'; [|contradiction].
      unfold escape_with. rewrite Fp'.
      rewrite (file_at_find _ _ _ Fp') in Fpf. rewrite Fpf, Pc.
      apply Nat.ltb_lt. rewrite import_file_mtime. cbn [mtime_of]. lia.
    + rewrite <- I1. f_equal.
      * apply chain_with_transfer. intros q Hq. inversion Hq; subst q.
        unfold cert_at. rewrite (pf_untouched _ _ _ _ _ F p Hp). reflexivity.
      * apply escape_with_transfer. intros q Hq. inversion Hq; subst q.
        pose proof (same_skeleton_find _ _ p S) as SP.
        destruct (find_ent es p) as [pe|] eqn:Fp, (find_ent es' p) as [pe'|] eqn:Fp'; try contradiction; [|exact Logic.I].
        rewrite <- (file_at_find _ _ _ Fp'), <- (file_at_find _ _ _ Fp). apply (pf_untouched _ _ _ _ _ F). exact Hp.
Qed.

(* ------------------------------------------------------------ one interrupted write *)
Lemma torn_full f : torn_file (mkKeep true true true true) f = f.
Proof. destruct f; reflexivity. Qed.

Lemma inv3_torn f kp : inv3 f = true -> inv3 (torn_file kp f) = true.
Proof.
  destruct f as [h c k r m], kp as [a b x y].
  destruct a, b, x, y, c as [c|], k as [k|], r as [r|]; cbn; intros H1;
    try reflexivity; try assumption;
    try (apply andb_prop in H1 as [H1 H2]; rewrite ?H1, ?H2; reflexivity).
Qed.

Lemma torn_inv fn es clock nk a e f nk1 kp :
  wf_dir es -> dir_inv (mkDir es clock nk) = true -> blind_free es ->
  find_ent es a = Some e -> (forall p, issuer_of e = Some p -> p <> a) ->
  generate fn es e (S clock) nk = (ROk, Some f, nk1) ->
  dir_inv (mkDir (set_file es a (Some (torn_file kp f))) (S clock) nk1) = true.
Proof.
  intros W I BF Fe Hne G.
  destruct (generate_ok fn es e (S clock) nk f nk1 G) as (GP & Gm & _).
  assert (e_alias e = a) as Ea by (apply find_ent_some in Fe; tauto). rewrite Ea in GP.
  assert (In e es) as He by (apply find_ent_some in Fe; tauto).
  pose proof (dir_inv_clock _ I) as C. unfold clock_ok in C. cbn [d_ents d_clock] in C.
  pose proof (dir_inv_inv3 _ I) as I3. cbn [d_ents] in I3.
  set (tf := torn_file kp f). set (es' := set_file es a (Some tf)).
  assert (same_skeleton es es') as Sk by apply same_skeleton_set_file.
  assert (wf_dir es') as W' by (apply set_file_wf; exact W).
  assert (forall b, b <> a -> file_at es' b = file_at es b) as U.
  { intros b Hb. unfold es'. rewrite file_at_set_file by eauto.
    destruct (Nat.eqb b a) eqn:E; [apply Nat.eqb_eq in E; contradiction|reflexivity]. }
  assert (file_at es' a = Some tf) as Ua.
  { unfold es'. rewrite file_at_set_file by eauto. rewrite Nat.eqb_refl. reflexivity. }
  pose proof GP as GP0. rewrite art_of_file_at in GP0.
  pose proof (gen_post_import _ _ _ _ GP0) as Imp.
  destruct (gen_post_material _ _ _ _ GP0) as (c & Cc & Km & _).
  pose proof (gen_post_inv3 _ _ _ _ GP0) as J3f.
  (* the certificate chains to the issuer, whose file is not the one being written *)
  assert (chain_with es' (g_issuer (e_cfg e)) c = true) as Chain.
  { rewrite (chain_with_transfer es es').
    - apply (gen_post_chain es e e (art es a) f c eq_refl I3 GP Cc).
    - intros p Hp. unfold cert_at. rewrite (U p (Hne p Hp)). reflexivity. }
  unfold dir_inv. cbn [d_ents d_clock]. apply forallb_forall. intros e' He'.
  set (b := e_alias e').
  pose proof (find_ent_in _ _ W' He') as Fe'. fold b in Fe'.
  pose proof (same_skeleton_find _ _ b Sk) as SF. rewrite Fe' in SF.
  destruct (find_ent es b) as [eb|] eqn:Feb; [|contradiction]. destruct SF as (A1 & A2 & A3).
  assert (In eb es) as Heb by (apply find_ent_some in Feb; tauto).
  unfold inv_ent.
  assert (Nat.leb (e_cfg_mtime e') (S clock) = true) as Cm.
  { apply Nat.leb_le. rewrite A3. destruct (C eb Heb). lia. }
  rewrite Cm, andb_true_r.
  destruct (Nat.eq_dec b a) as [Eb|Nb].
  - (* the entity whose write was interrupted *)
    subst b. rewrite Eb in *. rewrite Fe in Feb. inversion Feb; subst eb.
    assert (e_file e' = Some tf) as Ef' by (rewrite <- (file_at_find _ _ _ Fe'); exact Ua).
    rewrite Ef'.
    assert (f_mtime tf = S clock) as Tm by (unfold tf; cbn; exact Gm).
    replace (f_mtime tf <=? S clock) with true by (symmetry; apply Nat.leb_le; lia). rewrite andb_true_r.
    destruct GP0 as (Hh & Rq & Kk & c0 & C1 & C2 & C3 & C4 & _ & C6 & _).
    rewrite Cc in C1. inversion C1; subst c0.
    (* the three local invariants of the torn file, by cases on what survived *)
    assert (inv3 tf = true) as T3 by (apply inv3_torn; assumption).
    rewrite T3. cbn [andb].
    assert (inv2 (import_file (Some tf)) = true) as T2.
    { unfold inv2. rewrite import_file_hash, import_file_cert. unfold tf. cbn [torn_file f_hash f_cert].
      destruct (kp_hash kp); [|reflexivity]. destruct (kp_cert kp); [|rewrite Hh; reflexivity].
      rewrite Hh, Cc. cbn [hview_of h_subj h_vis]. rewrite C2, C3, C4, (BF e He), !Nat.eqb_refl. reflexivity. }
    rewrite T2. cbn [andb].
    unfold inv1. rewrite import_file_hash, import_file_cert. unfold tf at 1 2. cbn [torn_file f_hash f_cert].
    destruct (kp_hash kp); [|reflexivity]. destruct (kp_cert kp); [|rewrite Hh; reflexivity].
    rewrite Hh, Cc. cbn [hview_of h_issuer]. rewrite Chain. cbn [orb].
    destruct (has_key_material (import_file (Some tf))); reflexivity.
  - (* every other entity keeps its file; if [a] is its recorded issuer, that issuer is now newer or certificate-less *)
    assert (e_file e' = e_file eb) as Ef.
    { rewrite <- (file_at_find _ _ _ Fe'), <- (file_at_find _ _ _ Feb). apply U. exact Nb. }
    rewrite Ef.
    unfold dir_inv in I. cbn [d_ents d_clock] in I. rewrite forallb_forall in I. specialize (I eb Heb).
    apply inv_ent_facts in I as [_ I].
    destruct (e_file eb) as [f0|] eqn:Ef0; [|reflexivity].
    cbn zeta in I. destruct I as (J3 & J2 & J1 & Jm).
    rewrite J3, J2. cbn [andb].
    replace (f_mtime f0 <=? S clock) with true by (symmetry; apply Nat.leb_le; lia). rewrite andb_true_r.
    unfold inv1 in *.
    destruct (f_hash (import_file (Some f0))) as [h|]; [|reflexivity].
    destruct (f_cert (import_file (Some f0))) as [cb|]; [|reflexivity].
    destruct (has_key_material (import_file (Some f0))); [|reflexivity].
    destruct (h_issuer h) as [p|] eqn:Hi; [|exact J1].
    destruct (Nat.eq_dec p a) as [Ep|Np].
    + subst p. apply orb_true_iff. right.
      unfold escape_with.
      pose proof (same_skeleton_find _ _ a Sk) as SA. rewrite Fe in SA.
      destruct (find_ent es' a) as [ea'|] eqn:Fa'; [|contradiction].
      rewrite (file_at_find _ _ _ Fa') in Ua. rewrite Ua.
      destruct (f_cert tf); [|reflexivity].
      apply Nat.ltb_lt. rewrite import_file_mtime. cbn [mtime_of]. unfold tf. cbn [torn_file f_mtime]. lia.
    + rewrite <- J1. f_equal.
      * apply chain_with_transfer. intros q Hq. inversion Hq; subst q. unfold cert_at. rewrite (U p Np). reflexivity.
      * apply escape_with_transfer. intros q Hq. inversion Hq; subst q.
        pose proof (same_skeleton_find _ _ p Sk) as SP.
        destruct (find_ent es p) as [pe|] eqn:Fp, (find_ent es' p) as [pe'|] eqn:Fp'; try contradiction; [|exact Logic.I].
        rewrite <- (file_at_find _ _ _ Fp'), <- (file_at_find _ _ _ Fp). apply U. exact Np.
Qed.

(* ------------------------------------------------------------ any BulkUpdate = a fault-free prefix + at most one interrupted write *)
Lemma bulk_decompose fn : forall ch es clock nk idx fault wr r es' clock' nk' w,
  bulk fn es ch clock nk idx fault wr = (r, es', clock', nk', w) ->
  exists j es_j nk_j w_j, j <= length ch /\
    bulk fn es (firstn j ch) clock nk idx None wr = (ROk, es_j, clock + j, nk_j, w_j) /\
    ((es' = es_j /\ clock + j <= clock' /\ clock' <= S (clock + j)) \/
     (exists a e f nk1 kp, nth_error ch j = Some a /\ find_ent es_j a = Some e /\
        generate fn es_j e (S (clock + j)) nk_j = (ROk, Some f, nk1) /\
        es' = set_file es_j a (Some (torn_file kp f)) /\ clock' = S (clock + j))).
Proof.
  induction ch as [|a rest IH]; intros es clock nk idx fault wr r es' clock' nk' w H.
  - cbn in H. inversion H; subst. exists 0, es', nk', (rev wr). cbn. rewrite Nat.add_0_r.
    split; [lia|]. split; [reflexivity|]. left. repeat split; lia.
  - cbn [bulk] in H.
    assert (forall r0 c0 n0 w0, (r0, es, c0, n0, w0) = (r, es', clock', nk', w) -> clock <= c0 <= S clock ->
              exists j es_j nk_j w_j, j <= length (a :: rest) /\
                bulk fn es (firstn j (a :: rest)) clock nk idx None wr = (ROk, es_j, clock + j, nk_j, w_j) /\
                ((es' = es_j /\ clock + j <= clock' /\ clock' <= S (clock + j)) \/
                 (exists a0 e f nk1 kp, nth_error (a :: rest) j = Some a0 /\ find_ent es_j a0 = Some e /\
                    generate fn es_j e (S (clock + j)) nk_j = (ROk, Some f, nk1) /\
                    es' = set_file es_j a0 (Some (torn_file kp f)) /\ clock' = S (clock + j)))) as Exit.
    { intros r0 c0 n0 w0 E Hc. inversion E; subst. exists 0, es', nk, (rev wr). cbn. rewrite Nat.add_0_r.
      split; [lia|]. split; [reflexivity|]. left. repeat split; lia. }
    destruct (find_ent es a) as [e|] eqn:Fe; [|apply (Exit _ _ _ _ H); lia].
    destruct (generate fn es e (S clock) nk) as [[r0 fo] nk1] eqn:G.
    destruct r0; try (apply (Exit _ _ _ _ H); lia).
    destruct fo as [f|]; [|apply (Exit _ _ _ _ H); lia].
    assert (forall idx' wr', bulk fn (set_file es a (Some f)) rest (S clock) nk1 idx' fault wr' = (r, es', clock', nk', w) ->
              exists j es_j nk_j w_j, j <= length (a :: rest) /\
                bulk fn es (firstn j (a :: rest)) clock nk idx None wr = (ROk, es_j, clock + j, nk_j, w_j) /\
                ((es' = es_j /\ clock + j <= clock' /\ clock' <= S (clock + j)) \/
                 (exists a0 e0 f0 nk2 kp, nth_error (a :: rest) j = Some a0 /\ find_ent es_j a0 = Some e0 /\
                    generate fn es_j e0 (S (clock + j)) nk_j = (ROk, Some f0, nk2) /\
                    es' = set_file es_j a0 (Some (torn_file kp f0)) /\ clock' = S (clock + j)))) as Rec.
    { intros idx' wr' H'. destruct (IH _ _ _ _ _ _ _ _ _ _ _ H') as (j & es_j & nk_j & w_j & Hj & P & D).
      exists (S j), es_j, nk_j. 
      assert (bulk fn es (firstn (S j) (a :: rest)) clock nk idx None wr =
              bulk fn (set_file es a (Some f)) (firstn j rest) (S clock) nk1 (S idx) None (a :: wr)) as U.
      { cbn [firstn bulk]. rewrite Fe, G. reflexivity. }
      (* the prefix run does not depend on the index counter or the pending list when there is no fault *)
      assert (forall l es0 c0 n0 i1 i2 w1 w2,
                let '(r1, e1, c1, n1, _) := bulk fn es0 l c0 n0 i1 None w1 in
                let '(r2, e2, c2, n2, _) := bulk fn es0 l c0 n0 i2 None w2 in
                (r1, e1, c1, n1) = (r2, e2, c2, n2)) as Indep.
      { induction l as [|x l IHl]; intros; cbn [bulk]; [reflexivity|].
        destruct (find_ent es0 x); [|reflexivity].
        destruct (generate fn es0 e0 (S c0) n0) as [[rr ff] nn]. destruct rr; try reflexivity.
        destruct ff; [|reflexivity]. apply IHl. }
      specialize (Indep (firstn j rest) (set_file es a (Some f)) (S clock) nk1 (S idx) idx' (a :: wr) wr').
      rewrite P in Indep.
      destruct (bulk fn (set_file es a (Some f)) (firstn j rest) (S clock) nk1 (S idx) None (a :: wr)) as [[[[r1 e1] c1] n1] w1] eqn:B1.
      inversion Indep; subst.
      exists w1. split; [cbn; lia|]. split.
      - rewrite U. replace (clock + S j) with (S clock + j) by lia. reflexivity.
      - replace (clock + S j) with (S clock + j) by lia. cbn [nth_error]. exact D. }
    destruct fault as [[k o]|]; [|apply (Rec _ _ H)].
    destruct (Nat.eqb k idx); [|apply (Rec _ _ H)].
    destruct o.
    + apply (Exit _ _ _ _ H). lia.
    + inversion H; subst. exists 0, es, nk, (rev wr). cbn [firstn bulk length]. rewrite Nat.add_0_r.
      split; [lia|]. split; [reflexivity|]. right. exists a, e, f, nk', k0. cbn [nth_error]. auto.
    + inversion H; subst. exists 0, es, nk, (rev wr). cbn [firstn bulk length]. rewrite Nat.add_0_r.
      split; [lia|]. split; [reflexivity|]. right. exists a, e, f, nk', (mkKeep true true true true).
      cbn [nth_error]. rewrite torn_full. auto.
Qed.

(* ------------------------------------------------------------ C15: the invariant survives every run, faulty or not *)
Lemma NoDup_firstn {A} j (l : list A) : NoDup l -> NoDup (firstn j l).
Proof.
  revert l. induction j as [|j IH]; intros l N; [constructor|].
  destruct l as [|x l]; [constructor|]. cbn. inversion N as [|? ? Hx N']; subst. constructor; [|apply IH; exact N'].
  intros Hin. apply Hx. clear -Hin. revert l Hin. induction j; intros l Hin; [contradiction|].
  destruct l; [contradiction|]. cbn in Hin. destruct Hin as [->|Hin]; [left; reflexivity|right; apply IHj; exact Hin].
Qed.

Lemma firstn_incl {A} j (l : list A) x : In x (firstn j l) -> In x l.
Proof.
  revert l. induction j as [|j IH]; intros l H; [contradiction|].
  destruct l as [|y l]; [contradiction|]. cbn in H. destruct H as [->|H]; [left; reflexivity|right; apply IH; exact H].
Qed.

Lemma issuers_first_firstn es j ch : issuers_first es ch -> issuers_first es (firstn j ch).
Proof.
  revert ch. induction j as [|j IH]; intros ch O; [constructor|].
  destruct ch as [|a rest]; [constructor|]. cbn. inversion O as [|? ? H O']; subst. constructor; [|apply IH; exact O'].
  intros e p Fe Hi Hin. apply (H e p Fe Hi). destruct Hin as [->|Hin]; [left; reflexivity|right; eapply firstn_incl; eauto].
Qed.

Lemma issuers_first_nth es ch j a e p : issuers_first es ch -> nth_error ch j = Some a ->
  find_ent es a = Some e -> issuer_of e = Some p -> p <> a.
Proof.
  intros O. revert j. induction O as [|x rest H _ IH]; intros j Hj Fe Hi; [destruct j; discriminate|].
  destruct j as [|j].
  - cbn in Hj. inversion Hj; subst x. intros ->. apply (H e a Fe Hi). left. reflexivity.
  - cbn in Hj. eapply IH; eauto.
Qed.

Lemma skel_blind_free es es' : same_skeleton es es' -> blind_free es -> blind_free es'.
Proof.
  intros Sk B. induction Sk as [|x y l l' (A1 & A2 & A3) H IH]; intros e He; [contradiction|].
  destruct He as [<-|He]; [rewrite A2; apply B; left; reflexivity|].
  apply IH; [|exact He]. intros e' He'. apply B. right. exact He'.
Qed.

Theorem any_run_preserves_inv d s fault r d' w :
  wf_dir (d_ents d) -> dir_inv d = true -> blind_free (d_ents d) ->
  Run d s fault = (r, d', w) -> dir_inv d' = true.
Proof.
  intros W I BF H. unfold Run, run in H.
  destruct (is_consistent (d_ents d)) eqn:C; cbn [negb] in H; [|inversion H; subst; exact I].
  assert (forest (d_ents d)) as F by (split; [exact W|apply is_consistent_iff; assumption]).
  destruct (plan true (d_ents d) s) as [ch|] eqn:P; [|inversion H; subst; exact I].
  assert (all_valid (d_ents d)) as V.
  { destruct (all_valid_dec (d_ents d)) as [V|X]; [exact V|].
    rewrite (plan_invalid _ s F X) in P. discriminate. }
  destruct (plan_spec (d_ents d) s F V) as (ch' & P' & _ & N & O).
  rewrite P in P'. inversion P'; subst ch'.
  pose proof (issuers_first_of_index _ _ N O) as IF.
  destruct (bulk true (d_ents d) ch (d_clock d) (d_nextkey d) 0 fault []) as [[[[r0 es'] clock'] nk'] w'] eqn:B.
  inversion H; subst r0 d' w'.
  destruct (bulk_decompose true _ _ _ _ _ _ _ _ _ _ _ _ B) as (j & es_j & nk_j & w_j & Hj & Pj & D).
  pose proof (bulk_pfacts true (firstn j ch) (d_ents d) (d_clock d) (d_nextkey d) 0 [] es_j _ nk_j w_j W
                (NoDup_firstn j ch N) (issuers_first_firstn _ j ch IF) Pj) as PF.
  assert (dir_inv (mkDir (d_ents d) (d_clock d) (d_nextkey d)) = true) as I0 by (destruct d; exact I).
  pose proof (pfacts_inv _ _ _ _ _ nk_j _ W I0 BF PF) as Ij.
  destruct D as [(E1 & E2 & E3)|(a & e & f & nk1 & kp & Hn & Fe & G & E1 & E2)].
  - subst es'. eapply dir_inv_mono; [exact Ij|lia].
  - subst es' clock'.
    pose proof (pf_skel _ _ _ _ _ PF) as Sk.
    apply (dir_inv_mono _ (S (d_clock d + j)) _ nk1 nk'); [|lia].
    eapply (torn_inv true es_j (d_clock d + j) nk_j a e f).
    + eapply skel_wf; eauto.
    + eapply dir_inv_mono; [exact Ij|lia].
    + eapply skel_blind_free; eauto.
    + exact Fe.
    + intros p Hp.
      pose proof (same_skeleton_find _ _ a Sk) as SF. rewrite Fe in SF.
      destruct (find_ent (d_ents d) a) as [e0|] eqn:Fe0; [|contradiction]. destruct SF as (_ & A2 & _).
      apply (issuers_first_nth (d_ents d) ch j a e0 p IF Hn Fe0). unfold issuer_of in *. rewrite <- A2. exact Hp.
    + exact G.
Qed.

(* a write error is never reported as success *)
Theorem write_error_reported d s k r d' w :
  Run d s (Some (k, FailNoWrite)) = (r, d', w) -> r = ROk ->
  Run d s None = (ROk, d', w).
Proof.
  (* if the faulty write index is never reached the run is the fault-free run; otherwise the result is an error *)
  intros H ->. unfold Run, run in *.
  destruct (is_consistent (d_ents d)); cbn [negb] in *; [|discriminate].
  destruct (plan true (d_ents d) s) as [ch|]; [|discriminate].
  assert (forall l es c n i wr es' c' n' w', bulk true es l c n i (Some (k, FailNoWrite)) wr = (ROk, es', c', n', w') ->
            bulk true es l c n i None wr = (ROk, es', c', n', w')) as X.
  { induction l as [|a l IH]; intros es c n i wr es' c' n' w' B; cbn [bulk] in *; [exact B|].
    destruct (find_ent es a); [|exact B].
    destruct (generate true es e (S c) n) as [[rr ff] nn]. destruct rr; try exact B.
    destruct ff; [|exact B].
    destruct (Nat.eqb k i); [discriminate|]. eapply IH; eauto. }
  destruct (bulk true (d_ents d) ch (d_clock d) (d_nextkey d) 0 (Some (k, FailNoWrite)) []) as [[[[r0 es'] c'] n'] w'] eqn:B.
  inversion H; subst. rewrite (X _ _ _ _ _ _ _ _ _ _ B). reflexivity.
Qed.
