From Coq Require Import List NArith ZArith Bool Lia.
From Coq.Strings Require Import Byte.
From Gopki.Model Require Import Bytes Base64 Der Asn1 Text Ext Rdn Time X509 Generate.
Import ListNotations.

Section Props.
  Variable fx : fixes.
  Variable mfx : more_fixes.
  Variable sha1 : bytes -> bytes.

  Notation gen := (gen_tcert fx mfx sha1).

  Lemma map_opt_length {A B} (f : A -> option B) l r : map_opt f l = Some r -> length r = length l.
  Proof.
    revert r. induction l as [|x l IH]; intros r H; cbn in H; [inversion H; reflexivity|].
    destruct (f x); [|discriminate]. destruct (map_opt f l) as [t|]; [|discriminate].
    inversion H; subst. cbn. f_equal. apply IH. reflexivity.
  Qed.

  (* C06 (list and order) / C03 (subject, serial, unique ids): the certificate carries exactly the configured
     extension list, one extension per entry, in that order; the subject is the parsed subject string;
     a configured serial is used as is, otherwise the drawn one; unique ids are the decoded raw strings *)
  Theorem gen_fields c o iss t : gen c o iss = Some t ->
    exists bits,
      map_opt (fun x => build_ext fx sha1 x bits (match iss with Some (_, b) => b | None => bits end)) (cc_exts c) = Some (t_exts t) /\
      length (t_exts t) = length (cc_exts c) /\
      parse_rdn (cc_subject c) = Some (t_subject t) /\
      t_serial t = (if (cc_serial c =? 0)%Z then ob_serial o else cc_serial c) /\
      (match cc_issuer_uid c with [] => t_iuid t = None | s => exists b, raw_of fx s = Some b /\ t_iuid t = Some b end) /\
      (match cc_subject_uid c with [] => t_suid t = None | s => exists b, raw_of fx s = Some b /\ t_suid t = Some b end) /\
      t_issuer t = (match iss with Some (n, _) => n | None => t_subject t end).
  Proof.
    unfold gen_tcert. intros H.
    destruct ((cc_serial c <? 0)%Z || (9223372036854775807 <? cc_serial c)%Z); [discriminate|].
    destruct (parse_rdn (cc_subject c)) as [subj|]; [|discriminate].
    destruct (to_time_struct _ _ _) as [val|]; [|discriminate].
    destruct (sig_oid _) as [[so rsa]|]; [|discriminate].
    destruct (match m_tbs_pk (cc_manip c) with [] => _ | _ => _ end) as [bits|]; [|discriminate].
    destruct (uid_field fx (cc_issuer_uid c)) as [iuid|] eqn:Ui; [|discriminate].
    destruct (uid_field fx (cc_subject_uid c)) as [suid|] eqn:Us; [|discriminate].
    destruct (manip_oid mfx (m_tbs_sigalg (cc_manip c))) as [inner|]; [|discriminate].
    destruct (manip_oid mfx (m_outer_sigalg (cc_manip c))) as [outer|]; [|discriminate].
    destruct (manip_oid mfx (m_tbs_pkalg (cc_manip c))) as [pkalg|]; [|discriminate].
    destruct (match m_sigvalue (cc_manip c) with [] => _ | _ => _ end) as [sigv|]; [|discriminate].
    destruct (map_opt _ (cc_exts c)) as [exts|] eqn:Ex; [|discriminate].
    match goal with H : (if ?X then None else _) = Some _ |- _ => destruct X eqn:?; [discriminate H|] end.
    inversion H; subst; cbn. exists bits.
    split; [exact Ex|]. split; [eapply map_opt_length; eauto|]. split; [reflexivity|]. split; [reflexivity|].
    split; [|split; [|reflexivity]].
    - unfold uid_field in Ui. destruct (cc_issuer_uid c) as [|b0 l0]; [inversion Ui; reflexivity|].
      destruct (raw_of fx (b0 :: l0)) as [v|]; [|discriminate]. inversion Ui. eauto.
    - unfold uid_field in Us. destruct (cc_subject_uid c) as [|b0 l0]; [inversion Us; reflexivity|].
      destruct (raw_of fx (b0 :: l0)) as [v|]; [|discriminate]. inversion Us. eauto.
  Qed.

  (* C19: every manipulation entry replaces exactly the field it names *)
  Definition no_manip : manip := mkManip None [] [] [] [] [].
  Definition strip (c : cert_cfg) : cert_cfg :=
    mkCertCfg (cc_subject c) (cc_serial c) (cc_issuer_uid c) (cc_subject_uid c) (cc_validity c)
              (cc_keyalg c) (cc_sigalg c) (cc_exts c) no_manip.

  Theorem manipulations_exact c o iss t : gen c o iss = Some t ->
    (* the fields no manipulation can touch *)
    (forall t0, gen (strip c) o iss = Some t0 ->
       t_serial t = t_serial t0 /\ t_issuer t = t_issuer t0 /\ t_subject t = t_subject t0 /\
       t_nb t = t_nb t0 /\ t_na t = t_na t0 /\ t_iuid t = t_iuid t0 /\ t_suid t = t_suid t0 /\
       (* each manipulable field: the given value if the entry is present, else the unmanipulated one *)
       t_version t = match m_version (cc_manip c) with Some v => v | None => t_version t0 end /\
       (m_tbs_sigalg (cc_manip c) = [] -> t_inner t = t_inner t0) /\
       (m_outer_sigalg (cc_manip c) = [] -> t_outer t = t_outer t0) /\
       (m_tbs_pkalg (cc_manip c) = [] -> sp_alg (t_spki t) = sp_alg (t_spki t0)) /\
       (m_tbs_pk (cc_manip c) = [] -> sp_bits (t_spki t) = sp_bits (t_spki t0)) /\
       (m_sigvalue (cc_manip c) = [] -> t_sig t = t_sig t0) /\
       (m_tbs_pk (cc_manip c) = [] -> t_exts t = t_exts t0)) /\
    (* the given values *)
    (forall s, m_tbs_pk (cc_manip c) = s -> s <> [] -> raw_of fx s = Some (sp_bits (t_spki t))) /\
    (forall s, m_sigvalue (cc_manip c) = s -> s <> [] -> raw_of fx s = Some (t_sig t)).
  Proof.
    unfold gen_tcert. intros H.
    destruct ((cc_serial c <? 0)%Z || (9223372036854775807 <? cc_serial c)%Z) eqn:Esn; [discriminate|].
    destruct (parse_rdn (cc_subject c)) as [subj|] eqn:Es; [|discriminate].
    destruct (to_time_struct _ _ _) as [val|] eqn:Ev; [|discriminate].
    destruct (sig_oid _) as [[so rsa]|] eqn:Eg; [|discriminate].
    destruct (match m_tbs_pk (cc_manip c) with [] => _ | _ => _ end) as [bits|] eqn:Eb; [|discriminate].
    destruct (uid_field fx (cc_issuer_uid c)) as [iuid|] eqn:Ui; [|discriminate].
    destruct (uid_field fx (cc_subject_uid c)) as [suid|] eqn:Us; [|discriminate].
    destruct (manip_oid mfx (m_tbs_sigalg (cc_manip c))) as [inner|] eqn:Ei; [|discriminate].
    destruct (manip_oid mfx (m_outer_sigalg (cc_manip c))) as [outer|] eqn:Eo; [|discriminate].
    destruct (manip_oid mfx (m_tbs_pkalg (cc_manip c))) as [pkalg|] eqn:Ep; [|discriminate].
    destruct (match m_sigvalue (cc_manip c) with [] => _ | _ => _ end) as [sigv|] eqn:Esv; [|discriminate].
    destruct (map_opt _ (cc_exts c)) as [exts|] eqn:Ex; [|discriminate].
    match goal with H : (if ?X then None else _) = Some _ |- _ => destruct X eqn:?; [discriminate H|] end.
    inversion H; subst; clear H. cbn [t_serial t_issuer t_subject t_nb t_na t_iuid t_suid t_version t_inner t_outer t_spki t_sig t_exts sp_alg sp_bits].
    split; [|split].
    - intros t0 H0. unfold gen_tcert in H0. cbn [strip cc_subject cc_serial cc_issuer_uid cc_subject_uid cc_validity cc_keyalg cc_sigalg cc_exts cc_manip
                         no_manip m_version m_outer_sigalg m_sigvalue m_tbs_sigalg m_tbs_pkalg m_tbs_pk manip_oid effective_sigalg] in H0.
      unfold effective_sigalg in Eg. rewrite ?Esn, ?Es, ?Ev, ?Eg, ?Ui, ?Us in H0.
      destruct (map_opt _ (cc_exts c)) as [exts0|] eqn:Ex0 in H0; [|discriminate].
      try match type of H0 with (if ?X then None else _) = Some _ => destruct X eqn:?; [discriminate H0|] end.
      inversion H0; subst; clear H0. cbn.
      do 7 (split; [reflexivity|]).
      split; [destruct (m_version (cc_manip c)); reflexivity|].
      split; [intros E; rewrite E in Ei; cbn in Ei; inversion Ei; subst; reflexivity|].
      split; [intros E; rewrite E in Eo; cbn in Eo; inversion Eo; subst; reflexivity|].
      split; [intros E; rewrite E in Ep; cbn in Ep; inversion Ep; subst; reflexivity|].
      split; [intros E; rewrite E in Eb; inversion Eb; subst; reflexivity|].
      split; [intros E; rewrite E in Esv; inversion Esv; subst; reflexivity|].
      intros E. rewrite E in Eb. inversion Eb; subst bits. rewrite Ex in Ex0. inversion Ex0. reflexivity.
    - intros s E Hs. rewrite E in Eb. destruct s; [congruence|exact Eb].
    - intros s E Hs. rewrite E in Esv. destruct s; [congruence|exact Esv].
  Qed.
  (* C19: a manipulation that names an algorithm puts exactly that identifier, without parameters, into the field it names
     (with the repaired error handling a value that is no object identifier never gets this far) *)
  Lemma manip_oid_given s r : fx_manip_err mfx = true -> s <> [] -> manip_oid mfx s = Some r ->
    exists zs ns, oid_from_string s = Some zs /\ arcs_to_N zs = Some ns /\ r = Some (mkAlg ns None).
  Proof.
    intros Hf Hs H. unfold manip_oid in H. destruct s as [|b bs]; [congruence|].
    destruct (oid_from_string (b :: bs)) as [zs|] eqn:Eo.
    - destruct (arcs_to_N zs) as [ns|] eqn:En; [|discriminate H].
      inversion H; subst. exists zs, ns. auto.
    - rewrite Hf in H. discriminate H.
  Qed.

  Theorem manipulated_oids_exact c o iss t : fx_manip_err mfx = true -> gen c o iss = Some t ->
    (forall s, m_tbs_sigalg (cc_manip c) = s -> s <> [] ->
       exists zs ns, oid_from_string s = Some zs /\ arcs_to_N zs = Some ns /\ t_inner t = mkAlg ns None) /\
    (forall s, m_outer_sigalg (cc_manip c) = s -> s <> [] ->
       exists zs ns, oid_from_string s = Some zs /\ arcs_to_N zs = Some ns /\ t_outer t = mkAlg ns None) /\
    (forall s, m_tbs_pkalg (cc_manip c) = s -> s <> [] ->
       exists zs ns, oid_from_string s = Some zs /\ arcs_to_N zs = Some ns /\ sp_alg (t_spki t) = mkAlg ns None) /\
    (forall v, m_version (cc_manip c) = Some v -> t_version t = v).
  Proof.
    unfold gen_tcert. intros Hf H.
    destruct ((cc_serial c <? 0)%Z || (9223372036854775807 <? cc_serial c)%Z) eqn:Esn; [discriminate|].
    destruct (parse_rdn (cc_subject c)) as [subj|] eqn:Es; [|discriminate].
    destruct (to_time_struct _ _ _) as [val|] eqn:Ev; [|discriminate].
    destruct (sig_oid _) as [[so rsa]|] eqn:Eg; [|discriminate].
    destruct (match m_tbs_pk (cc_manip c) with [] => _ | _ => _ end) as [bits|] eqn:Eb; [|discriminate].
    destruct (uid_field fx (cc_issuer_uid c)) as [iuid|] eqn:Ui; [|discriminate].
    destruct (uid_field fx (cc_subject_uid c)) as [suid|] eqn:Us; [|discriminate].
    destruct (manip_oid mfx (m_tbs_sigalg (cc_manip c))) as [inner|] eqn:Ei; [|discriminate].
    destruct (manip_oid mfx (m_outer_sigalg (cc_manip c))) as [outer|] eqn:Eo; [|discriminate].
    destruct (manip_oid mfx (m_tbs_pkalg (cc_manip c))) as [pkalg|] eqn:Ep; [|discriminate].
    destruct (match m_sigvalue (cc_manip c) with [] => _ | _ => _ end) as [sigv|] eqn:Esv; [|discriminate].
    destruct (map_opt _ (cc_exts c)) as [exts|] eqn:Ex; [|discriminate].
    match goal with H : (if ?X then None else _) = Some _ |- _ => destruct X eqn:?; [discriminate H|] end.
    inversion H; subst; clear H. cbn [t_version t_inner t_outer t_spki sp_alg].
    split; [|split; [|split]].
    - intros s E Hs. rewrite E in Ei. destruct (manip_oid_given s inner Hf Hs Ei) as (zs & ns & A & B & C).
      exists zs, ns. subst inner. auto.
    - intros s E Hs. rewrite E in Eo. destruct (manip_oid_given s outer Hf Hs Eo) as (zs & ns & A & B & C).
      exists zs, ns. subst outer. auto.
    - intros s E Hs. rewrite E in Ep. destruct (manip_oid_given s pkalg Hf Hs Ep) as (zs & ns & A & B & C).
      exists zs, ns. subst pkalg. auto.
    - intros v E. rewrite E. reflexivity.
  Qed.
  (* C19: outer manipulations leave the signed bytes untouched - the to-be-signed part of the certificate is the same
     whatever the outer signature algorithm and the signature value are set to *)
  Definition with_outer (c : cert_cfg) (x y : bytes) : cert_cfg :=
    mkCertCfg (cc_subject c) (cc_serial c) (cc_issuer_uid c) (cc_subject_uid c) (cc_validity c)
              (cc_keyalg c) (cc_sigalg c) (cc_exts c)
              (mkManip (m_version (cc_manip c)) x y (m_tbs_sigalg (cc_manip c)) (m_tbs_pkalg (cc_manip c)) (m_tbs_pk (cc_manip c))).

  Theorem outer_manipulations_leave_tbs c x y o iss t t' :
    gen c o iss = Some t -> gen (with_outer c x y) o iss = Some t' -> enc_tbs t = enc_tbs t'.
  Proof.
    unfold gen_tcert. intros H H'.
    cbn [with_outer cc_subject cc_serial cc_issuer_uid cc_subject_uid cc_validity cc_keyalg cc_sigalg cc_exts cc_manip
         m_version m_outer_sigalg m_sigvalue m_tbs_sigalg m_tbs_pkalg m_tbs_pk] in H'.
    unfold effective_sigalg in *.
    cbn [with_outer cc_subject cc_serial cc_issuer_uid cc_subject_uid cc_validity cc_keyalg cc_sigalg cc_exts cc_manip
         m_version m_outer_sigalg m_sigvalue m_tbs_sigalg m_tbs_pkalg m_tbs_pk] in H'.
    destruct ((cc_serial c <? 0)%Z || (9223372036854775807 <? cc_serial c)%Z) eqn:Esn; [discriminate|].
    destruct (parse_rdn (cc_subject c)) as [subj|] eqn:Es; [|discriminate].
    destruct (to_time_struct _ _ _) as [val|] eqn:Ev; [|discriminate].
    destruct (sig_oid _) as [[so rsa]|] eqn:Eg; [|discriminate].
    destruct (match m_tbs_pk (cc_manip c) with [] => _ | _ => _ end) as [bits|] eqn:Eb; [|discriminate].
    destruct (uid_field fx (cc_issuer_uid c)) as [iuid|] eqn:Ui; [|discriminate].
    destruct (uid_field fx (cc_subject_uid c)) as [suid|] eqn:Us; [|discriminate].
    destruct (manip_oid mfx (m_tbs_sigalg (cc_manip c))) as [inner|] eqn:Ei; [|discriminate].
    destruct (manip_oid mfx (m_outer_sigalg (cc_manip c))) as [outer|] eqn:Eo; [|discriminate].
    destruct (manip_oid mfx x) as [outer'|] eqn:Eo'; [|discriminate].
    destruct (manip_oid mfx (m_tbs_pkalg (cc_manip c))) as [pkalg|] eqn:Ep; [|discriminate].
    destruct (match m_sigvalue (cc_manip c) with [] => _ | _ => _ end) as [sigv|] eqn:Esv; [|discriminate].
    destruct (match y with [] => _ | _ => _ end) as [sigv'|] eqn:Esv'; [|discriminate].
    destruct (map_opt _ (cc_exts c)) as [exts|] eqn:Ex; [|discriminate].
    match goal with H : (if ?X then None else _) = Some _ |- _ => destruct X eqn:?; [discriminate H|] end.
    inversion H; subst; clear H. inversion H'; subst; clear H'. reflexivity.
  Qed.
End Props.
