From Coq Require Import List Arith NArith Bool Lia.
From Coq.Strings Require Import Byte.
From Gopki.Model Require Import Bytes Base64 Text Glue.
Import ListNotations.
Open Scope nat_scope.

Lemma index_byte_bound c : forall s i k, index_byte c s i = Some k -> i <= k < i + length s.
Proof.
  induction s as [|b r IH]; intros i k H; cbn in H; [discriminate|].
  destruct (N.eqb (b2n b) c).
  - inversion H; subst. cbn. lia.
  - apply IH in H. cbn. lia.
Qed.

Lemma index_of_bound needle : needle <> [] -> forall hay i k,
  index_of needle hay i = Some k -> i <= k /\ k + length needle <= i + length hay /\
  (* the needle's characters are at that position *)
  has_prefix needle (skipn (k - i) hay) = true.
Proof.
  intros Hn. induction hay as [|b r IH]; intros i k H; cbn [index_of] in H.
  - destruct needle; [congruence|discriminate].
  - destruct (has_prefix needle (b :: r)) eqn:P.
    + inversion H; subst. replace (k - k) with 0 by lia. cbn [skipn]. split; [lia|]. split; [|exact P].
      unfold has_prefix in P. destruct (strip_prefix needle (b :: r)) as [rest|] eqn:Sp; [|discriminate].
      clear -Sp. revert Sp. generalize (b :: r). induction needle as [|x p IHp]; intros l Sp; [cbn; lia|].
      destruct l as [|y l']; cbn in Sp; [discriminate|]. destruct (N.eqb (b2n x) (b2n y)); [|discriminate].
      apply IHp in Sp. cbn. lia.
    + apply IH in H as (H1 & H2 & H3). split; [lia|]. split; [cbn; lia|].
      replace (k - i) with (S (k - S i)) by lia. exact H3.
Qed.

(* a needle without the byte [c] pushes the first [c] beyond itself *)
Lemma index_byte_after_prefix c p : Forall (fun b => b2n b <> c) p ->
  forall hay rest i k, strip_prefix p hay = Some rest -> index_byte c hay i = Some k -> i + length p <= k.
Proof.
  induction 1 as [|x p Hx Hp IH]; intros hay rest i k Sp H.
  - apply index_byte_bound in H. cbn. lia.
  - destruct hay as [|y hay']; cbn [strip_prefix] in Sp; [discriminate|].
    destruct (N.eqb (b2n x) (b2n y)) eqn:E; [|discriminate]. apply N.eqb_eq in E.
    cbn [index_byte] in H. replace (N.eqb (b2n y) c) with false in H by (symmetry; apply N.eqb_neq; congruence).
    specialize (IH hay' rest (S i) k Sp H). cbn [length]. lia.
Qed.

Lemma hash_prefix_no_newline : Forall (fun b => b2n b <> 10%N) hash_prefix.
Proof. unfold hash_prefix. repeat constructor; vm_compute; discriminate. Qed.

Lemma skipn_length_le {A} n (l : list A) : length (skipn n l) = length l - n.
Proof. apply skipn_length. Qed.

(* C20: whatever bytes an artifact file holds, reading its stored hash does not panic (repaired, F16) *)
Theorem stored_hash_never_panics content : stored_hash_text true content <> GPanic.
Proof.
  unfold stored_hash_text.
  destruct (index_of hash_prefix content 0) as [ix|] eqn:I; [|discriminate].
  destruct (index_byte 10 (skipn ix content) 0) as [rel|] eqn:R; [|discriminate].
  assert (hash_prefix <> []) as Hn by discriminate.
  destruct (index_of_bound hash_prefix Hn content 0 ix I) as (_ & B2 & B3).
  replace (ix - 0) with ix in B3 by lia.
  unfold has_prefix in B3. destruct (strip_prefix hash_prefix (skipn ix content)) as [rest|] eqn:Sp; [|discriminate].
  pose proof (index_byte_after_prefix 10%N hash_prefix hash_prefix_no_newline _ _ 0 rel Sp R) as L.
  pose proof (index_byte_bound 10%N _ 0 rel R) as [_ U]. rewrite skipn_length in U.
  unfold go_slice.
  replace (Nat.leb (ix + length hash_prefix) (ix + rel) && Nat.leb (ix + rel) (length content)) with true
    by (symmetry; apply andb_true_iff; split; apply Nat.leb_le; lia).
  discriminate.
Qed.

(* F16: as written, a marker that is not at offset 0 makes the slice bounds inconsistent *)
Example C20_hash_marker_refuted :
  stored_hash_text false (map n2b [120; 120; 120; 120; 120; 120; 120; 120; 10; 35; 72; 65; 83; 72; 58; 97; 98; 10]%N) = GPanic.
Proof. vm_compute. reflexivity. Qed.

(* F15 *)
Example C20_custom_oid_refuted : custom_oid false (map n2b [49; 46; 50; 46; 57; 57; 57; 57; 57; 57; 57; 57; 57; 57; 57; 57; 57; 57; 57; 57; 57; 57; 57; 57; 57; 57; 57]%N) = GPanic.
Proof. vm_compute. reflexivity. Qed.
Theorem custom_oid_never_panics s : custom_oid true s <> GPanic.
Proof. unfold custom_oid. destruct (oid_from_string s); discriminate. Qed.
