From Coq Require Import List NArith ZArith Bool.
From Coq.Strings Require Import Byte.
From Gopki.Model Require Import Bytes Base64 Der Asn1 Text Ext Rdn Time HashView.
Import ListNotations.

Definition ext_view_fixed (x : any_ext) : option ext_oid * ext_img := (Some (ext_oid_of x), ext_image x).

(* with the OID hashed alongside (F14 repaired) the pre-image determines the extension configuration *)
Lemma ext_view_fixed_inj x1 x2 : ext_view_fixed x1 = ext_view_fixed x2 -> x1 = x2.
Proof.
  unfold ext_view_fixed.
  destruct x1 as [r1 c1 t1|r1 c1 t1|r1 c1 t1|r1 c1 t1|r1 c1 t1|r1 c1 t1|r1 c1 t1|r1 c1 t1|r1 c1 t1|r1 c1|o1 r1 c1],
           x2 as [r2 c2 t2|r2 c2 t2|r2 c2 t2|r2 c2 t2|r2 c2 t2|r2 c2 t2|r2 c2 t2|r2 c2 t2|r2 c2 t2|r2 c2|o2 r2 c2];
    cbn [ext_oid_of ext_image]; intros H; try (inversion H; fail);
    try (inversion H; subst; reflexivity);
    try (destruct t1 as [a1|], t2 as [a2|]; cbn [opt_img] in H; inversion H; subst; reflexivity);
    try (destruct t1 as [[a1 b1]|], t2 as [[a2 b2]|]; cbn [opt_img fst snd] in H; inversion H; subst; reflexivity).
Qed.

Lemma map_inj {A B} (f : A -> B) : (forall x y, f x = f y -> x = y) -> forall l1 l2, map f l1 = map f l2 -> l1 = l2.
Proof.
  intros Hf. induction l1 as [|x l1 IH]; intros [|y l2] H; cbn in H; try discriminate; [reflexivity|].
  inversion H. f_equal; [apply Hf; assumption|apply IH; assumption].
Qed.

(* C13 (sensitivity, repaired): two configurations with the same hash pre-image give the generator the same input *)
Theorem hview_sensitive c1 c2 : hview true c1 = hview true c2 -> relevant_of c1 = relevant_of c2.
Proof.
  unfold hview, relevant_of. cbn [negb].
  destruct c1 as [al1 pr1 se1 iu1 su1 sb1 is1 fr1 un1 st1 set1 us1 du1 ka1 sa1 ex1 ma1],
           c2 as [al2 pr2 se2 iu2 su2 sb2 is2 fr2 un2 st2 set2 us2 du2 ka2 sa2 ex2 ma2].
  cbn [ct_serial ct_iuid ct_suid ct_subject ct_issuer ct_from ct_until ct_is_static ct_is_set ct_until_static
       ct_duration ct_keyalg ct_sigalg ct_exts ct_manip].
  destruct set1, set2, st1, st2, us1, us2; cbn [negb andb orb]; intros H; inversion H; subst;
    try match goal with E : map _ ex1 = map _ ex2 |- _ => apply (map_inj _ ext_view_fixed_inj) in E; subst end;
    reflexivity.
Qed.

(* C13 (stability): the pre-image does not mention the alias or the profile name *)
Theorem hview_ignores_alias_profile fixed c a p :
  hview fixed (mkContent a p (ct_serial c) (ct_iuid c) (ct_suid c) (ct_subject c) (ct_issuer c) (ct_from c) (ct_until c)
                         (ct_is_static c) (ct_is_set c) (ct_until_static c) (ct_duration c) (ct_keyalg c) (ct_sigalg c)
                         (ct_exts c) (ct_manip c)) = hview fixed c.
Proof. destruct c; reflexivity. Qed.

(* ... nor the run-relative times: a configuration without explicit "from" hashes the same whenever it is read *)
Theorem hview_ignores_relative_times fixed c f u :
  ct_is_static c = false -> ct_until_static c = false ->
  hview fixed (mkContent (ct_alias c) (ct_profile c) (ct_serial c) (ct_iuid c) (ct_suid c) (ct_subject c) (ct_issuer c) f u
                         false (ct_is_set c) false (ct_duration c) (ct_keyalg c) (ct_sigalg c)
                         (ct_exts c) (ct_manip c)) = hview fixed c.
Proof.
  intros H1 H2. destruct c. cbn in *. subst. unfold hview. cbn. destruct fixed, ct_is_set; reflexivity.
Qed.

(* F14: as written, keyUsage and extendedKeyUsage given by the same raw bytes have the same pre-image *)
Example C13_refuted_kind :
  let a := XKu null_word true None in let b := XEku null_word true None in
  (None, ext_image a) = (None : option ext_oid, ext_image b) /\ a <> b.
Proof. split; [reflexivity|discriminate]. Qed.

(* F13: as written, an "until" date without "from" is blanked: two different end dates, one pre-image *)
Example C13_refuted_until :
  let mk u := mkContent [] [] 0 None None [] [] zero_wall u false true true [] 5 5 [] (mkPm None None None None None None) in
  hview false (mk (mkWall 2030 1 1 0)) = hview false (mk (mkWall 2031 1 1 0)) /\
  hview true (mk (mkWall 2030 1 1 0)) <> hview true (mk (mkWall 2031 1 1 0)).
Proof. split; [reflexivity|discriminate]. Qed.
