From Coq Require Import List Arith Bool Lia.
From Gopki.Model Require Import Dir Plan Run Ops.
From Gopki.Spec Require Import RegenSpec DirInv.
From Gopki.Proofs Require Import PlanProofs RunProofs FaultProofs OpsProofs.
Import ListNotations.

Lemma bulk_skel fn : forall ch es clock nk idx fault wr r es' clock' nk' w,
  bulk fn es ch clock nk idx fault wr = (r, es', clock', nk', w) -> same_skeleton es es'.
Proof.
  induction ch as [|a rest IH]; intros es clock nk idx fault wr r es' clock' nk' w H.
  - cbn in H. inversion H; subst. apply same_skeleton_refl.
  - cbn [bulk] in H.
    destruct (find_ent es a) as [e|]; [|inversion H; subst; apply same_skeleton_refl].
    destruct (generate fn es e (S clock) nk) as [[r0 fo] nk1].
    destruct r0; try (inversion H; subst; apply same_skeleton_refl).
    destruct fo as [f|]; [|inversion H; subst; apply same_skeleton_refl].
    assert (forall i' w', bulk fn (set_file es a (Some f)) rest (S clock) nk1 i' fault w' = (r, es', clock', nk', w) ->
              same_skeleton es es') as Rec.
    { intros i' w' H'. eapply same_skeleton_trans; [apply same_skeleton_set_file|eapply IH; eauto]. }
    destruct fault as [[k o]|]; [|eapply Rec; eauto].
    destruct (Nat.eqb k idx); [|eapply Rec; eauto].
    destruct o; inversion H; subst; try apply same_skeleton_refl; apply same_skeleton_set_file.
Qed.

Lemma run_skel d s fault r d' w : Run d s fault = (r, d', w) -> same_skeleton (d_ents d) (d_ents d').
Proof.
  unfold Run, run. destruct (is_consistent (d_ents d)); cbn [negb]; [|intros H; inversion H; apply same_skeleton_refl].
  destruct (plan true (d_ents d) s) as [ch|]; [|intros H; inversion H; apply same_skeleton_refl].
  destruct (bulk true (d_ents d) ch (d_clock d) (d_nextkey d) 0 fault []) as [[[[r0 es'] c'] n'] w'] eqn:B.
  intros H. inversion H; subst. cbn [d_ents]. eapply bulk_skel; eauto.
Qed.

(* ------------------------------------------------------------ histories *)
Inductive event := EvOp (o : op) | EvRun (s : strat) (fault : option (nat * outcome)).

Definition step (d : dir) (ev : event) : dir :=
  match ev with
  | EvOp o => apply_op d o
  | EvRun s f => snd (fst (Run d s f))
  end.

Definition ev_ok (d : dir) (ev : event) : Prop :=
  match ev with
  | EvOp o => op_ok d o /\
              match o with
              | OpEditCfg _ c => g_blind c = 0
              | OpEditProfile l => Forall (fun p => g_blind (snd p) = 0) l
              | OpAdd e => g_blind (e_cfg e) = 0
              | _ => True
              end
  | EvRun _ _ => True
  end.

Fixpoint hist_ok (d : dir) (evs : list event) : Prop :=
  match evs with
  | [] => True
  | ev :: rest => ev_ok d ev /\ hist_ok (step d ev) rest
  end.

Definition state_ok (d : dir) : Prop := wf_dir (d_ents d) /\ dir_inv d = true /\ blind_free (d_ents d).

Lemma op_wf d o : wf_dir (d_ents d) -> wf_dir (d_ents (apply_op d o)).
Proof.
  intros W. unfold wf_dir, apply_op in *. cbn [d_ents].
  destruct o as [a c|a|a|a k|a c k|a r|e|a|l].
  9:{ rewrite map_map. erewrite map_ext; [exact W|]. intros e0. destruct (find (fun p => Nat.eqb (fst p) (e_alias e0)) l); reflexivity. }
  - unfold set_cfg. rewrite map_map. erewrite map_ext; [exact W|]. intros e0. destruct (Nat.eqb (e_alias e0) a); reflexivity.
  - unfold touch_cfg. rewrite map_map. erewrite map_ext; [exact W|]. intros e0. destruct (Nat.eqb (e_alias e0) a); reflexivity.
  - rewrite set_file_aliases. exact W.
  - destruct (find_ent (d_ents d) a) as [e|]; [|exact W]. destruct (e_file e); [|exact W]. rewrite set_file_aliases. exact W.
  - rewrite set_file_aliases. exact W.
  - rewrite set_file_aliases. exact W.
  - destruct (find_ent (d_ents d) (e_alias e)) as [e0|] eqn:Fe; [exact W|].
    rewrite map_app. cbn [map]. apply NoDup_app_intro; [exact W|repeat constructor; intros []|].
    intros x [<-|[]] Hin. apply in_map_iff in Hin as (e1 & E1 & He1).
    assert (find_ent (d_ents d) (e_alias e1) = Some e1) as F1 by (apply find_ent_in; assumption).
    rewrite E1 in F1. cbn in F1. congruence.
  - apply NoDup_map_filter. exact W.
Qed.

Lemma op_blind_free d o : blind_free (d_ents d) -> ev_ok d (EvOp o) -> blind_free (d_ents (apply_op d o)).
Proof.
  intros B [_ OK]. unfold apply_op. cbn [d_ents].
  assert (forall a nf, blind_free (set_file (d_ents d) a nf)) as SF.
  { intros a nf. eapply skel_blind_free; [apply same_skeleton_set_file|exact B]. }
  destruct o as [a c|a|a|a k|a c k|a r|e|a|l]; auto.
  - intros e0 He0. unfold set_cfg in He0. apply in_map_iff in He0 as (e1 & <- & He1).
    destruct (Nat.eqb (e_alias e1) a); cbn; [exact OK|apply B; exact He1].
  - intros e0 He0. unfold touch_cfg in He0. apply in_map_iff in He0 as (e1 & <- & He1).
    destruct (Nat.eqb (e_alias e1) a); cbn; apply B; exact He1.
  - destruct (find_ent (d_ents d) a) as [e|]; [|exact B]. destruct (e_file e); [apply SF|exact B].
  - destruct (find_ent (d_ents d) (e_alias e)); [exact B|].
    intros e0 He0. apply in_app_or in He0 as [He0|[<-|[]]]; [apply B; exact He0|exact OK].
  - intros e0 He0. apply filter_In in He0 as [He0 _]. apply B. exact He0.
  - intros e0 He0. apply in_map_iff in He0 as (e1 & <- & He1).
    destruct (find (fun p => Nat.eqb (fst p) (e_alias e1)) l) as [p|] eqn:Fp; cbn; [|apply B; exact He1].
    apply find_some in Fp as [Hin _]. rewrite Forall_forall in OK. apply OK. exact Hin.
Qed.

Lemma step_ok d ev : state_ok d -> ev_ok d ev -> state_ok (step d ev).
Proof.
  intros (W & I & B) OK. destruct ev as [o|s f].
  - cbn [step]. split; [apply op_wf; exact W|]. split; [apply op_preserves_inv; [exact W|exact I|apply OK]|].
    apply op_blind_free; assumption.
  - cbn [step]. destruct (Run d s f) as [[r d'] w] eqn:R. cbn [fst snd].
    pose proof (run_skel d s f r d' w R) as Sk.
    split; [eapply skel_wf; eauto|]. split; [eapply any_run_preserves_inv; eauto|eapply skel_blind_free; eauto].
Qed.

(* C12 (with C15 folded in): after ANY history of admissible user operations and runs - under any flags,
   successful, failing or interrupted at any write - the invariant holds, so a successful default run
   leaves the directory good, and running again is a no-op *)
Theorem history_inv evs : forall d, state_ok d -> hist_ok d evs -> state_ok (fold_left step evs d).
Proof.
  induction evs as [|ev rest IH]; intros d S H; [exact S|].
  cbn [fold_left]. destruct H as [H1 H2]. apply IH; [apply step_ok; assumption|exact H2].
Qed.

Theorem history_converges evs d0 d' w :
  state_ok d0 -> hist_ok d0 evs ->
  Run (fold_left step evs d0) default_strat None = (ROk, d', w) ->
  good (d_ents d') = true /\ Run d' default_strat None = (ROk, d', []).
Proof.
  intros S H R. destruct (history_inv evs d0 S H) as (W & I & B).
  split; [eapply converges_good; eauto|].
  eapply run_idempotent; eauto. apply dir_inv_clock. exact I.
Qed.

(* the empty directory is a valid starting point *)
Example empty_state_ok : state_ok (mkDir [] 0 0).
Proof. repeat split; [constructor|intros e []]. Qed.

(* the command line is a run or nothing at all, so it preserves the history invariant as well *)
From Gopki.Model Require Import Cli.
Lemma cli_preserves_inv d f input r d' w :
  wf_dir (d_ents d) -> dir_inv d = true -> blind_free (d_ents d) ->
  cli_sign true true d f input = (r, d', w) -> dir_inv d' = true.
Proof.
  intros W I B H. unfold cli_sign in H.
  destruct (negb (is_consistent (d_ents d))); [inversion H; subst; exact I|].
  destruct (negb (s_any (strat_of_flags f))); [inversion H; subst; exact I|].
  destruct (plan true (d_ents d) (strat_of_flags f)) as [ch|]; [|inversion H; subst; exact I].
  destruct (existsb (replaces (d_ents d)) ch && negb (consent input)); [inversion H; subst; exact I|].
  destruct (run true true d (strat_of_flags f) None) as [[r0 d0] w0] eqn:R. inversion H; subst.
  eapply (any_run_preserves_inv d (strat_of_flags f) None r0 d' w); eauto.
Qed.
