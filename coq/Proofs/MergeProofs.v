From Coq Require Import List Arith Bool Lia.
From Gopki.Model Require Import Merge.
From Gopki.Spec Require Import MergeSpec.
Import ListNotations.

Section Proofs.
  Variable ext : Type.
  Variable oid_eqb : ext -> ext -> bool.
  Variable json_eqb : ext -> ext -> bool.

  Notation pext := (pext ext).
  Notation find_match := (find_match ext oid_eqb).
  Notation merge_loop := (merge_loop ext oid_eqb json_eqb).
  Notation not_overridden := (not_overridden ext).
  Notation merge := (merge ext oid_eqb json_eqb).
  Notation take_first := (take_first ext oid_eqb).
  Notation spec_loop := (spec_loop ext oid_eqb json_eqb).
  Notation merge_spec := (merge_spec ext oid_eqb json_eqb).

  (* abstraction: index bookkeeping -> marks *)
  Definition mark_of (i : nat) (H O : list nat) : mark :=
    if mem i O then Placed else if mem i H then Matched else Free.

  Fixpoint marks_of (cert : list ext) (i : nat) (H O : list nat) : list (ext * mark) :=
    match cert with
    | [] => []
    | c :: r => (c, mark_of i H O) :: marks_of r (S i) H O
    end.

  Lemma mem_cons i j l : mem i (j :: l) = Nat.eqb i j || mem i l.
  Proof. reflexivity. Qed.

  Lemma marks_of_skip cert : forall i j H O (bH bO : bool), j < i ->
    marks_of cert i (if bH then j :: H else H) (if bO then j :: O else O) = marks_of cert i H O.
  Proof.
    induction cert as [|c r IH]; intros i j H O bH bO Hlt; [reflexivity|].
    cbn [marks_of]. rewrite (IH (S i) j H O bH bO) by lia. f_equal. f_equal.
    unfold mark_of. assert (Nat.eqb i j = false) as E by (apply Nat.eqb_neq; lia).
    destruct bH, bO; rewrite ?mem_cons, ?E; reflexivity.
  Qed.

  Definition is_placed (m : mark) : bool := match m with Placed => true | _ => false end.

  Lemma find_match_marks p m : m <> Free -> forall cert i H O,
    (forall x, mem x O = true -> mem x H = true) ->
    match find_match p cert i H with
    | Some (j, c) =>
      take_first p m (marks_of cert i H O) =
        Some (c, marks_of cert i (j :: H) (if is_placed m then j :: O else O))
      /\ i <= j /\ mem j H = false
    | None => take_first p m (marks_of cert i H O) = None
    end.
  Proof.
    intros Hm. induction cert as [|c r IH]; intros i H O Sub; [reflexivity|].
    cbn [find_match marks_of].
    destruct (mem i H) eqn:EH.
    - (* already handled: the spec sees Matched or Placed and moves on *)
      specialize (IH (S i) H O Sub).
      assert (mark_of i H O <> Free) as NF.
      { unfold mark_of. destruct (mem i O); [discriminate|]. rewrite EH. discriminate. }
      destruct (find_match p r (S i) H) as [[j c']|].
      + destruct IH as (T & Hle & Hj). split; [|split; [lia|exact Hj]].
        cbn [take_first]. destruct (mark_of i H O) eqn:Mk; [congruence| |]; rewrite T;
          (f_equal; f_equal; f_equal; f_equal;
           unfold mark_of in *; assert (Nat.eqb i j = false) as E by (apply Nat.eqb_neq; lia);
           destruct (is_placed m); rewrite ?mem_cons, ?E; cbn [orb]; exact (eq_sym Mk) || (symmetry; exact Mk) || reflexivity).
      + cbn [take_first]. destruct (mark_of i H O); [congruence| |]; rewrite IH; reflexivity.
    - assert (mem i O = false) as EO.
      { destruct (mem i O) eqn:E; [|reflexivity]. rewrite (Sub i E) in EH. discriminate. }
      assert (mark_of i H O = Free) as Mk by (unfold mark_of; rewrite EO, EH; reflexivity).
      rewrite Mk. cbn [take_first].
      destruct (oid_eqb p c) eqn:Eo.
      + split; [|split; [lia|exact EH]]. f_equal. f_equal. f_equal.
        * f_equal. unfold mark_of. rewrite !mem_cons, Nat.eqb_refl. cbn [orb].
          destruct m; [congruence| |]; cbn [is_placed]; rewrite ?mem_cons, ?Nat.eqb_refl, ?EO; reflexivity.
        * destruct (is_placed m).
          -- symmetry. apply (marks_of_skip r (S i) i H O true true). lia.
          -- symmetry. apply (marks_of_skip r (S i) i H O true false). lia.
      + specialize (IH (S i) H O Sub).
        destruct (find_match p r (S i) H) as [[j c']|].
        * destruct IH as (T & Hle & Hj). split; [|split; [lia|exact Hj]].
          rewrite T. f_equal. f_equal. f_equal. f_equal.
          unfold mark_of. assert (Nat.eqb i j = false) as E by (apply Nat.eqb_neq; lia).
          destruct (is_placed m); rewrite ?mem_cons, ?E, ?EO, ?EH; reflexivity.
        * rewrite IH. reflexivity.
  Qed.

  Lemma sub_cons (H O : list nat) j (b : bool) :
    (forall x, mem x O = true -> mem x H = true) ->
    forall x, mem x (if b then j :: O else O) = true -> mem x (j :: H) = true.
  Proof.
    intros Sub x Hx. rewrite mem_cons. destruct b.
    - rewrite mem_cons in Hx. apply orb_true_iff in Hx as [Hx|Hx]; [rewrite Hx; reflexivity|].
      rewrite (Sub x Hx). apply orb_true_r.
    - rewrite (Sub x Hx). apply orb_true_r.
  Qed.

  Lemma loop_refines cert : forall prof H O out,
    (forall x, mem x O = true -> mem x H = true) ->
    exists H', (forall x, mem x (fst (merge_loop prof cert H O out)) = true -> mem x H' = true) /\
      rev (snd (merge_loop prof cert H O out)) = rev out ++ fst (spec_loop prof (marks_of cert 0 H O)) /\
      snd (spec_loop prof (marks_of cert 0 H O)) = marks_of cert 0 H' (fst (merge_loop prof cert H O out)).
  Proof.
    induction prof as [|pe rest IH]; intros H O out Sub.
    - exists H. cbn. rewrite app_nil_r. auto.
    - cbn [merge_loop spec_loop].
      destruct (pe_override ext pe) eqn:Ov.
      + pose proof (find_match_marks (pe_ext ext pe) Placed ltac:(discriminate) cert 0 H O Sub) as FM.
        destruct (find_match (pe_ext ext pe) cert 0 H) as [[j c]|].
        * destruct FM as (T & _ & _). rewrite T. cbn [is_placed].
          destruct (IH (j :: H) (j :: O) (c :: out) (sub_cons H O j true Sub)) as (H' & S' & R' & F').
          exists H'. destruct (spec_loop rest (marks_of cert 0 (j :: H) (j :: O))) as [o fin] eqn:E.
          cbn [fst snd] in *. split; [exact S'|]. split; [|exact F'].
          rewrite R'. cbn [rev]. rewrite <- app_assoc. reflexivity.
        * rewrite FM.
          destruct (IH H O (if pe_optional ext pe then out else pe_ext ext pe :: out) Sub) as (H' & S' & R' & F').
          exists H'. destruct (spec_loop rest (marks_of cert 0 H O)) as [o fin] eqn:E.
          cbn [fst snd] in *. split; [exact S'|]. split; [|exact F'].
          rewrite R'. destruct (pe_optional ext pe); [reflexivity|]. cbn [rev]. rewrite <- app_assoc. reflexivity.
      + pose proof (find_match_marks (pe_ext ext pe) Matched ltac:(discriminate) cert 0 H O Sub) as FM.
        destruct (find_match (pe_ext ext pe) cert 0 H) as [[j c]|].
        * destruct FM as (T & _ & _). rewrite T. cbn [is_placed].
          destruct (IH (j :: H) O (if json_eqb c (pe_ext ext pe) then out else pe_ext ext pe :: out)
                       (sub_cons H O j false Sub)) as (H' & S' & R' & F').
          exists H'. destruct (spec_loop rest (marks_of cert 0 (j :: H) O)) as [o fin] eqn:E.
          cbn [fst snd] in *. split; [exact S'|]. split; [|exact F'].
          rewrite R'. destruct (json_eqb c (pe_ext ext pe)); [reflexivity|]. cbn [rev]. rewrite <- app_assoc. reflexivity.
        * rewrite FM.
          destruct (IH H O (if pe_optional ext pe then out else pe_ext ext pe :: out) Sub) as (H' & S' & R' & F').
          exists H'. destruct (spec_loop rest (marks_of cert 0 H O)) as [o fin] eqn:E.
          cbn [fst snd] in *. split; [exact S'|]. split; [|exact F'].
          rewrite R'. destruct (pe_optional ext pe); [reflexivity|]. cbn [rev]. rewrite <- app_assoc. reflexivity.
  Qed.

  Lemma not_overridden_marks cert : forall i H O,
    not_overridden cert i O =
    map fst (filter (fun cm => match snd cm with Placed => false | _ => true end) (marks_of cert i H O)).
  Proof.
    induction cert as [|c r IH]; intros i H O; [reflexivity|].
    cbn [not_overridden marks_of filter]. unfold mark_of at 1. cbn [snd].
    destruct (mem i O); [apply IH|].
    destruct (mem i H); cbn [map fst]; rewrite <- IH; reflexivity.
  Qed.

  Lemma marks_of_nil cert : forall i, marks_of cert i [] [] = map (fun c => (c, Free)) cert.
  Proof. induction cert as [|c r IH]; intros i; [reflexivity|]. cbn. rewrite IH. reflexivity. Qed.

  (* C08: the implementation's index bookkeeping computes exactly the documented rule *)
  Theorem merge_refines_spec prof cert : merge prof cert = merge_spec prof cert.
  Proof.
    unfold merge, merge_spec.
    destruct (loop_refines cert prof [] [] []) as (H' & _ & R & F); [intros x Hx; discriminate|].
    rewrite <- marks_of_nil with (i := 0).
    destruct (merge_loop prof cert [] [] []) as [ov out] eqn:E1.
    destruct (spec_loop prof (marks_of cert 0 [] [])) as [o fin] eqn:E2.
    cbn [fst snd] in *. rewrite R, F. cbn [rev app]. f_equal. apply not_overridden_marks.
  Qed.
End Proofs.

Check merge_refines_spec.
Print Assumptions merge_refines_spec.
