(* C18: the default alias of an entity is the base name of its configuration file, in whatever sub-directory, and its artifact
   sits next to the configuration; no file name that passes the suffix filter can make the derivation panic. *)
From Coq Require Import List Arith NArith Bool Lia String.
From Coq.Strings Require Import Byte.
From Gopki.Model Require Import Bytes Base64 Text Glue Names.
Import ListNotations.
Local Open Scope nat_scope.

Definition no_byte (c : N) (s : bytes) : Prop := Forall (fun b => b2n b <> c) s.

Lemma last_index_from_app c a b i f :
  last_index_from c (a ++ b) i f = last_index_from c b (i + List.length a) (last_index_from c a i f).
Proof.
  revert i f. induction a as [|x a IH]; intros i f; cbn [app last_index_from List.length].
  - rewrite Nat.add_0_r. reflexivity.
  - rewrite IH. f_equal. lia.
Qed.

Lemma last_index_from_none c s i f : no_byte c s -> last_index_from c s i f = f.
Proof.
  revert i f. induction s as [|x s IH]; intros i f H; [reflexivity|]. inversion H; subst. cbn [last_index_from].
  replace (N.eqb (b2n x) c) with false by (symmetry; apply N.eqb_neq; assumption). apply IH. assumption.
Qed.

(* the last occurrence: everything after it is free of the separator *)
Lemma last_index_sep c pre sep post : b2n sep = c -> no_byte c post ->
  last_index c (pre ++ sep :: post) = Some (List.length pre).
Proof.
  intros Hs Hp. unfold last_index. rewrite last_index_from_app. cbn [last_index_from].
  rewrite Hs, N.eqb_refl. rewrite last_index_from_none by assumption. f_equal.
Qed.

Lemma go_slice_mid a b c0 : go_slice (a ++ b ++ c0) (List.length a) (List.length a + List.length b) = GOk b.
Proof.
  unfold go_slice. replace (Nat.leb (List.length a) (List.length a + List.length b)) with true by (symmetry; apply Nat.leb_le; lia).
  replace (Nat.leb (List.length a + List.length b) (List.length (a ++ b ++ c0))) with true
    by (symmetry; apply Nat.leb_le; rewrite !app_length; lia).
  cbn [andb]. rewrite skipn_app, skipn_all, Nat.sub_diag. cbn [skipn app].
  replace (List.length a + List.length b - List.length a)%nat with (List.length b) by lia.
  rewrite firstn_app, firstn_all, Nat.sub_diag. cbn [firstn]. rewrite app_nil_r. reflexivity.
Qed.

Definition slash : byte := n2b 47.
Definition dot : byte := n2b 46.

(* <dir>/<base>.<ext> : alias = base, artifact = <dir>/<base>.pem  (base may contain dots, dir may contain dots and slashes) *)
Theorem alias_in_subdirectory dir base ext :
  no_byte 47 base -> no_byte 47 ext -> no_byte 46 ext ->
  alias_of_path (dir ++ slash :: base ++ dot :: ext) = GOk base /\
  artifact_path (dir ++ slash :: base ++ dot :: ext) = GOk (dir ++ slash :: base ++ str ".pem").
Proof.
  intros Hb He Hd.
  assert (last_index 47 (dir ++ slash :: base ++ dot :: ext) = Some (List.length dir)) as L47.
  { apply last_index_sep; [reflexivity|]. apply Forall_app. split; [exact Hb|]. constructor; [cbn; discriminate|exact He]. }
  assert (last_index 46 (dir ++ slash :: base ++ dot :: ext) = Some (List.length dir + 1 + List.length base)) as L46.
  { replace (dir ++ slash :: base ++ dot :: ext) with ((dir ++ slash :: base) ++ dot :: ext)
      by (rewrite <- app_assoc; reflexivity).
    rewrite last_index_sep by (try reflexivity; assumption). f_equal. rewrite app_length. cbn [List.length]. lia. }
  split.
  - unfold alias_of_path. rewrite L47, L46.
    replace (dir ++ slash :: base ++ dot :: ext) with ((dir ++ [slash]) ++ base ++ (dot :: ext))
      by (rewrite <- app_assoc; reflexivity).
    replace (S (List.length dir)) with (List.length (dir ++ [slash])) by (rewrite app_length; cbn; lia).
    replace (List.length dir + 1 + List.length base) with (List.length (dir ++ [slash]) + List.length base) by (rewrite app_length; cbn; lia).
    apply go_slice_mid.
  - unfold artifact_path. rewrite L46.
    replace (dir ++ slash :: base ++ dot :: ext) with ([] ++ (dir ++ slash :: base) ++ (dot :: ext))
      by (cbn [app]; rewrite <- app_assoc; reflexivity).
    replace (List.length dir + 1 + List.length base) with (List.length (@nil byte) + List.length (dir ++ slash :: base))
      by (rewrite app_length; cbn [List.length]; lia).
    change 0 with (List.length (@nil byte)). rewrite go_slice_mid. rewrite <- app_assoc. reflexivity.
Qed.

(* the same in the top directory *)
Theorem alias_in_top_directory base ext :
  no_byte 47 base -> no_byte 47 ext -> no_byte 46 ext ->
  alias_of_path (base ++ dot :: ext) = GOk base /\ artifact_path (base ++ dot :: ext) = GOk (base ++ str ".pem").
Proof.
  intros Hb He Hd.
  assert (last_index 47 (base ++ dot :: ext) = None) as L47.
  { unfold last_index. apply last_index_from_none. apply Forall_app. split; [exact Hb|]. constructor; [cbn; discriminate|exact He]. }
  assert (last_index 46 (base ++ dot :: ext) = Some (List.length base)) as L46 by (apply last_index_sep; [reflexivity|assumption]).
  unfold alias_of_path, artifact_path. rewrite L47, L46.
  pose proof (go_slice_mid [] base (dot :: ext)) as G. cbn [app List.length Nat.add] in G. rewrite G. split; reflexivity.
Qed.
