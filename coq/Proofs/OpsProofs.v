From Coq Require Import List Arith Bool Lia.
From Gopki.Model Require Import Dir Plan Run Ops.
From Gopki.Spec Require Import RegenSpec DirInv.
From Gopki.Proofs Require Import PlanProofs RunProofs FaultProofs.
Import ListNotations.

(* the premise of I1 is false for this file: it carries no hash line, or no certificate, or no key material *)
Definition i1_vacuous (f : file) : bool :=
  match f_hash f, f_cert f with
  | Some _, Some _ => negb (has_key_material (import_file (Some f)))
  | _, _ => true
  end.

Lemma i1_vacuous_inv1 es f : i1_vacuous f = true -> inv1 es (import_file (Some f)) = true.
Proof.
  unfold i1_vacuous, inv1. rewrite import_file_hash, import_file_cert.
  destruct (f_hash f); [|reflexivity]. destruct (f_cert f); [|reflexivity].
  intros H. destruct (has_key_material (import_file (Some f))); [discriminate|reflexivity].
Qed.

(* replacing one entity's artifact by a file stamped [now] that owes nothing to I1 *)
Lemma replace_file_inv es clock nk nk' a e nf :
  wf_dir es -> dir_inv (mkDir es clock nk) = true -> find_ent es a = Some e ->
  match nf with
  | None => True
  | Some f => inv3 f = true /\ inv2 (import_file (Some f)) = true /\ i1_vacuous f = true /\ f_mtime f = S clock
  end ->
  dir_inv (mkDir (set_file es a nf) (S clock) nk') = true.
Proof.
  intros W I Fe Hnf.
  assert (In e es) as He by (apply find_ent_some in Fe; tauto).
  pose proof (dir_inv_clock _ I) as C. unfold clock_ok in C. cbn [d_ents d_clock] in C.
  set (es' := set_file es a nf).
  assert (same_skeleton es es') as Sk by apply same_skeleton_set_file.
  assert (wf_dir es') as W' by (apply set_file_wf; exact W).
  assert (forall b, b <> a -> file_at es' b = file_at es b) as U.
  { intros b Hb. unfold es'. rewrite file_at_set_file by eauto.
    destruct (Nat.eqb b a) eqn:E; [apply Nat.eqb_eq in E; contradiction|reflexivity]. }
  assert (file_at es' a = nf) as Ua.
  { unfold es'. rewrite file_at_set_file by eauto. rewrite Nat.eqb_refl. reflexivity. }
  unfold dir_inv. cbn [d_ents d_clock]. apply forallb_forall. intros e' He'.
  set (b := e_alias e').
  pose proof (find_ent_in _ _ W' He') as Fe'. fold b in Fe'.
  pose proof (same_skeleton_find _ _ b Sk) as SF. rewrite Fe' in SF.
  destruct (find_ent es b) as [eb|] eqn:Feb; [|contradiction]. destruct SF as (A1 & A2 & A3).
  assert (In eb es) as Heb by (apply find_ent_some in Feb; tauto).
  unfold inv_ent.
  assert (Nat.leb (e_cfg_mtime e') (S clock) = true) as Cm.
  { apply Nat.leb_le. rewrite A3. destruct (C eb Heb). lia. }
  rewrite Cm, andb_true_r.
  destruct (Nat.eq_dec b a) as [Eb|Nb].
  - subst b. rewrite Eb in *.
    assert (e_file e' = nf) as Ef' by (rewrite <- (file_at_find _ _ _ Fe'); exact Ua).
    rewrite Ef'. destruct nf as [f|]; [|reflexivity].
    destruct Hnf as (H3 & H2 & H1 & Hm). rewrite H3, H2, (i1_vacuous_inv1 es' f H1), Hm, Nat.leb_refl. reflexivity.
  - assert (e_file e' = e_file eb) as Ef.
    { rewrite <- (file_at_find _ _ _ Fe'), <- (file_at_find _ _ _ Feb). apply U. exact Nb. }
    rewrite Ef.
    unfold dir_inv in I. cbn [d_ents d_clock] in I. rewrite forallb_forall in I. specialize (I eb Heb).
    apply inv_ent_facts in I as [_ I].
    destruct (e_file eb) as [f0|] eqn:Ef0; [|reflexivity].
    cbn zeta in I. destruct I as (J3 & J2 & J1 & Jm).
    rewrite J3, J2. cbn [andb].
    replace (f_mtime f0 <=? S clock) with true by (symmetry; apply Nat.leb_le; lia). rewrite andb_true_r.
    unfold inv1 in *.
    destruct (f_hash (import_file (Some f0))) as [h|]; [|reflexivity].
    destruct (f_cert (import_file (Some f0))) as [cb|]; [|reflexivity].
    destruct (has_key_material (import_file (Some f0))); [|reflexivity].
    destruct (h_issuer h) as [p|] eqn:Hi; [|exact J1].
    destruct (Nat.eq_dec p a) as [Ep|Np].
    + subst p. apply orb_true_iff. right.
      unfold escape_with.
      pose proof (same_skeleton_find _ _ a Sk) as SA. rewrite Fe in SA.
      destruct (find_ent es' a) as [ea'|] eqn:Fa'; [|contradiction].
      rewrite (file_at_find _ _ _ Fa') in Ua. rewrite Ua.
      destruct nf as [f|]; [|reflexivity]. destruct Hnf as (_ & _ & _ & Hm).
      destruct (f_cert f); [|reflexivity].
      apply Nat.ltb_lt. rewrite import_file_mtime. cbn [mtime_of]. lia.
    + rewrite <- J1. f_equal.
      * apply chain_with_transfer. intros q Hq. inversion Hq; subst q. unfold cert_at. rewrite (U p Np). reflexivity.
      * apply escape_with_transfer. intros q Hq. inversion Hq; subst q.
        pose proof (same_skeleton_find _ _ p Sk) as SP.
        destruct (find_ent es p) as [pe|] eqn:Fp, (find_ent es' p) as [pe'|] eqn:Fp'; try contradiction; [|exact Logic.I].
        rewrite <- (file_at_find _ _ _ Fp'), <- (file_at_find _ _ _ Fp). apply U. exact Np.
Qed.

(* ------------------------------------------------------------ operations that leave every artifact file alone *)
Lemma inv_transfer es es' clock clock' nk nk' :
  dir_inv (mkDir es clock nk) = true -> clock <= clock' ->
  (forall e', In e' es' -> e_cfg_mtime e' <= clock' /\ (e_file e' = None \/ exists e, In e es /\ e_file e' = e_file e)) ->
  (forall q c f, chain_with es q c || escape_with es q f = true -> chain_with es' q c || escape_with es' q f = true) ->
  dir_inv (mkDir es' clock' nk') = true.
Proof.
  intros I L HE HC. unfold dir_inv in *. cbn [d_ents d_clock] in *. rewrite forallb_forall in *.
  intros e' He'. destruct (HE e' He') as (Hm & Hf). unfold inv_ent.
  replace (e_cfg_mtime e' <=? clock') with true by (symmetry; apply Nat.leb_le; lia). rewrite andb_true_r.
  destruct Hf as [->|(e & He & Ef)]; [reflexivity|]. rewrite Ef.
  specialize (I e He). apply inv_ent_facts in I as [_ I].
  destruct (e_file e) as [f0|]; [|reflexivity]. cbn zeta in I. destruct I as (I3 & I2 & I1 & Im).
  rewrite I3, I2. cbn [andb].
  replace (f_mtime f0 <=? clock') with true by (symmetry; apply Nat.leb_le; lia). rewrite andb_true_r.
  unfold inv1 in *.
  destruct (f_hash (import_file (Some f0))) as [h|]; [|reflexivity].
  destruct (f_cert (import_file (Some f0))) as [c|]; [|reflexivity].
  destruct (has_key_material (import_file (Some f0))); [|reflexivity].
  apply HC. exact I1.
Qed.

Lemma find_ent_map_file es (g : ent -> ent) q :
  (forall e, e_alias (g e) = e_alias e) ->
  find_ent (map g es) q = option_map g (find_ent es q).
Proof.
  intros A. unfold find_ent. induction es as [|x es IH]; [reflexivity|].
  cbn [map find]. rewrite A. destruct (Nat.eqb (e_alias x) q); [reflexivity|exact IH].
Qed.

Lemma map_keeps_chain es (g : ent -> ent) :
  (forall e, e_alias (g e) = e_alias e) -> (forall e, e_file (g e) = e_file e) ->
  forall q c f, chain_with (map g es) q c = chain_with es q c /\ escape_with (map g es) q f = escape_with es q f.
Proof.
  intros A Fl q c f. unfold chain_with, escape_with, cert_at, file_at.
  destruct q as [q|]; [|split; reflexivity].
  rewrite (find_ent_map_file es g q A). destruct (find_ent es q) as [pe|]; cbn [option_map]; [|split; reflexivity].
  rewrite Fl. split; reflexivity.
Qed.

Definition op_ok (d : dir) (o : op) : Prop :=
  match o with
  | OpTear a k => match find_ent (d_ents d) a with
                  | Some e => match e_file e with
                              | Some f => i1_vacuous (torn_file k f) = true
                              | None => True
                              end
                  | None => True
                  end
  | OpReplaceUser _ c k => c_pub c = k_id k
  | _ => True
  end.

Lemma inv2_torn f kp : inv2 (import_file (Some f)) = true -> inv2 (import_file (Some (torn_file kp f))) = true.
Proof.
  unfold inv2. rewrite !import_file_hash, !import_file_cert. cbn [torn_file f_hash f_cert].
  destruct (kp_hash kp), (kp_cert kp), (f_hash f), (f_cert f); auto.
Qed.

Lemma retime_props f now :
  inv3 (retime f now) = inv3 f /\ inv2 (import_file (Some (retime f now))) = inv2 (import_file (Some f)) /\
  i1_vacuous (retime f now) = i1_vacuous f /\ f_mtime (retime f now) = now.
Proof.
  destruct f as [h c k r m]. unfold retime, inv3, inv2, i1_vacuous. cbn.
  destruct h, c, k, r; cbn; auto.
Qed.

Lemma set_file_absent es a nf : find_ent es a = None -> set_file es a nf = es.
Proof.
  unfold find_ent, set_file. induction es as [|x es IH]; [reflexivity|]. cbn [find map].
  destruct (Nat.eqb (e_alias x) a) eqn:E; [discriminate|]. intros H. rewrite (IH H). reflexivity.
Qed.

Lemma find_app' {A} (p : A -> bool) l1 l2 :
  find p (l1 ++ l2) = match find p l1 with Some x => Some x | None => find p l2 end.
Proof. induction l1 as [|x l IH]; [reflexivity|]. cbn. destruct (p x); [reflexivity|exact IH]. Qed.

Lemma find_ent_filter es a q :
  find_ent (filter (fun e => negb (Nat.eqb (e_alias e) a)) es) q = if Nat.eqb q a then None else find_ent es q.
Proof.
  unfold find_ent. induction es as [|x es IH]; [destruct (Nat.eqb q a); reflexivity|].
  cbn [filter find].
  destruct (Nat.eqb (e_alias x) a) eqn:Ea; cbn [negb].
  - rewrite IH. destruct (Nat.eqb (e_alias x) q) eqn:Eq; [|reflexivity].
    apply Nat.eqb_eq in Ea, Eq. subst. rewrite Nat.eqb_refl. reflexivity.
  - cbn [find]. destruct (Nat.eqb (e_alias x) q) eqn:Eq; [|exact IH].
    apply Nat.eqb_eq in Eq. subst q. rewrite Ea. reflexivity.
Qed.

Lemma cfg_map_inv es clock nk (g : ent -> ent) :
  dir_inv (mkDir es clock nk) = true ->
  (forall e, e_alias (g e) = e_alias e) -> (forall e, e_file (g e) = e_file e) ->
  (forall e, e_cfg_mtime (g e) = e_cfg_mtime e \/ e_cfg_mtime (g e) = S clock) ->
  dir_inv (mkDir (map g es) (S clock) nk) = true.
Proof.
  intros I A Fl M. apply (inv_transfer es _ clock (S clock) nk nk I); [lia| |].
  - intros e' He'. apply in_map_iff in He' as (e & <- & He).
    pose proof (dir_inv_clock _ I e He) as [C1 _]. cbn [d_clock] in C1.
    split; [destruct (M e) as [->| ->]; lia|right; exists e; auto].
  - intros q c f H. destruct (map_keeps_chain es g A Fl q c f) as [E1 E2]. rewrite E1, E2. exact H.
Qed.

Theorem op_preserves_inv d o : wf_dir (d_ents d) -> dir_inv d = true -> op_ok d o -> dir_inv (apply_op d o) = true.
Proof.
  intros W I OK. destruct d as [es clock nk]. cbn [d_ents d_clock d_nextkey] in *.
  unfold apply_op. cbn [d_ents d_clock d_nextkey].
  assert (dir_inv (mkDir es (S clock) nk) = true) as I1 by (eapply dir_inv_mono; [exact I|lia]).
  destruct o as [a c|a|a|a k|a c k|a r|e|a|l].
  - (* edit configuration *)
    unfold set_cfg. apply cfg_map_inv; [exact I| | |]; intros e0; destruct (Nat.eqb (e_alias e0) a); cbn; auto.
  - (* touch configuration *)
    unfold touch_cfg. apply cfg_map_inv; [exact I| | |]; intros e0; destruct (Nat.eqb (e_alias e0) a); cbn; auto.
  - (* delete artifact *)
    destruct (find_ent es a) as [e|] eqn:Fe; [|rewrite set_file_absent by exact Fe; exact I1].
    apply (replace_file_inv es clock nk nk a e None W I Fe). exact Logic.I.
  - (* tear *)
    unfold op_ok in OK. cbn [d_ents] in OK. destruct (find_ent es a) as [e|] eqn:Fe; [|exact I1].
    destruct (e_file e) as [f|] eqn:Ef; [|exact I1].
    apply (replace_file_inv es clock nk nk a e _ W I Fe).
    destruct (retime_props (torn_file k f) (S clock)) as (R3 & R2 & R1 & Rm).
    rewrite R3, R2, R1, Rm.
    assert (In e es) as He by (apply find_ent_some in Fe; tauto).
    unfold dir_inv in I. cbn [d_ents d_clock] in I. rewrite forallb_forall in I. specialize (I e He).
    apply inv_ent_facts in I as [_ I]. rewrite Ef in I. cbn zeta in I. destruct I as (J3 & J2 & _).
    split; [apply inv3_torn; exact J3|]. split; [apply inv2_torn; exact J2|]. split; [exact OK|reflexivity].
  - (* user-supplied certificate and key *)
    unfold op_ok in OK. destruct (find_ent es a) as [e|] eqn:Fe; [|rewrite set_file_absent by exact Fe; exact I1].
    apply (replace_file_inv es clock nk nk a e _ W I Fe). cbn. rewrite OK, Nat.eqb_refl. auto.
  - (* user-supplied request *)
    destruct (find_ent es a) as [e|] eqn:Fe; [|rewrite set_file_absent by exact Fe; exact I1].
    apply (replace_file_inv es clock nk nk a e _ W I Fe). cbn. auto.
  - (* add an entity *)
    destruct (find_ent es (e_alias e)) as [e0|] eqn:Fe; [exact I1|].
    apply (inv_transfer es _ clock (S clock) nk nk I); [lia| |].
    + intros e' He'. apply in_app_or in He' as [He'|[<-|[]]].
      * pose proof (dir_inv_clock _ I e' He') as [C1 _]. cbn [d_clock] in C1. split; [lia|right; exists e'; auto].
      * cbn. split; [lia|left; reflexivity].
    + intros q c f H. destruct q as [q|]; [|exact H].
      unfold chain_with, escape_with, cert_at, file_at in *.
      assert (find_ent (es ++ [mkEnt (e_alias e) (e_cfg e) (S clock) None]) q =
              match find_ent es q with Some x => Some x | None => if Nat.eqb (e_alias e) q then Some (mkEnt (e_alias e) (e_cfg e) (S clock) None) else None end) as FF.
      { unfold find_ent. rewrite find_app'. destruct (find (fun e1 => Nat.eqb (e_alias e1) q) es); [reflexivity|].
        cbn. destruct (Nat.eqb (e_alias e) q); reflexivity. }
      rewrite FF. destruct (find_ent es q) as [pe|]; [exact H|].
      destruct (Nat.eqb (e_alias e) q); cbn; [reflexivity|exact H].
  - (* remove an entity *)
    apply (inv_transfer es _ clock (S clock) nk nk I); [lia| |].
    + intros e' He'. apply filter_In in He' as [He' _].
      pose proof (dir_inv_clock _ I e' He') as [C1 _]. cbn [d_clock] in C1. split; [lia|right; exists e'; auto].
    + intros q c f H. destruct q as [q|]; [|exact H].
      unfold chain_with, escape_with, cert_at, file_at in *.
      rewrite find_ent_filter. destruct (Nat.eqb q a); [apply orb_true_r|exact H].
  - (* profile edit: configuration changes, its file time does not *)
    apply cfg_map_inv; [exact I| | |]; intros e0; destruct (find (fun p => Nat.eqb (fst p) (e_alias e0)) l); cbn; auto.
Qed.
