From Coq Require Import List Arith NArith Bool Lia.
From Coq Require Import ZifyN ZifyBool ZifyNat.
From Coq.Strings Require Import Byte.
From Gopki.Model Require Import Bytes Base64 Pem.
From Gopki.Proofs Require Import BytesProofs Base64Proofs.
Import ListNotations.
Open Scope N_scope.

(* sanity on a real shape: 70 octets -> two lines *)
Example pem_example :
  let der := map n2b (repeat 7 70) in
  pem_decode (hash_line [n2b 1; n2b 2] ++ pem_encode (map n2b [67;69;82;84]) der ++ [n2b 120])
  = Some ((map n2b [67;69;82;84], der), [n2b 120]).
Proof. vm_compute. reflexivity. Qed.

(* ------------------------------------------------------------ characters *)
Definition b64_alpha (b : byte) : bool := match b64_val b with Some _ => true | None => is_pad b end.
(* not one of  - : blank tab CR LF *)
Definition plain (b : byte) : bool :=
  let n := b2n b in negb ((n =? 45) || (n =? 58) || (n =? 32) || (n =? 9) || (n =? 13) || (n =? 10)).

Lemma alpha_plain b : b64_alpha b = true -> plain b = true.
Proof. destruct b; vm_compute; intros H; try reflexivity; discriminate H. Qed.

Lemma b64_char_alpha s : s < 64 -> b64_alpha (b64_char s) = true.
Proof. intros H. unfold b64_alpha. destruct (b64_val_char s H) as [-> _]. reflexivity. Qed.

Lemma pad_alpha : b64_alpha pad = true. Proof. reflexivity. Qed.

Lemma b64_encode_alpha l : Forall (fun b => b64_alpha b = true) (b64_encode l).
Proof.
  induction l as [|a|a b|a b c r IH] using list_ind3; cbn [b64_encode].
  - constructor.
  - pose proof (b2n_lt a). repeat constructor; try apply pad_alpha; apply b64_char_alpha; lia.
  - pose proof (b2n_lt a). pose proof (b2n_lt b). repeat constructor; try apply pad_alpha; apply b64_char_alpha; lia.
  - pose proof (b2n_lt a). pose proof (b2n_lt b). pose proof (b2n_lt c).
    repeat (apply Forall_cons; [apply b64_char_alpha; lia|]). exact IH.
Qed.

Lemma b64_encode_plain l : Forall (fun b => plain b = true) (b64_encode l).
Proof. eapply Forall_impl; [|apply b64_encode_alpha]. intros b. apply alpha_plain. Qed.

(* a !binary: raw value of any length is read back byte for byte (the CR/LF filter of Go's decoder leaves base64 text alone) *)
Lemma filter_all {A} (f : A -> bool) l : Forall (fun x => f x = true) l -> filter f l = l.
Proof. induction 1 as [|x l Hx _ IH]; [reflexivity|]. cbn. rewrite Hx, IH. reflexivity. Qed.

Theorem read_raw_binary payload : payload <> [] ->
  read_raw (binary_prefix ++ b64_encode payload) = Some payload.
Proof.
  intros H. unfold read_raw. rewrite strip_prefix_app.
  destruct payload as [|a l]; [congruence|].
  destruct (b64_encode (a :: l)) eqn:E; [exfalso; eapply b64_encode_nonempty; eauto|].
  rewrite <- E. rewrite filter_all; [apply b64_decode_encode|].
  eapply Forall_impl; [|apply b64_encode_plain]. intros c Hc. unfold plain in Hc. unfold is_crlf. lia.
Qed.

Lemma plain_facts b : plain b = true ->
  b2n b <> 45 /\ b2n b <> 58 /\ is_st b = false /\ b2n b <> 13 /\ is_nl b = false.
Proof. unfold plain, is_st, is_nl. intros H. repeat split; lia. Qed.

(* ------------------------------------------------------------ prefixes and cuts *)
Lemma strip_prefix_head_ne x p y s : b2n x <> b2n y -> strip_prefix (x :: p) (y :: s) = None.
Proof. intros H. cbn [strip_prefix]. replace (b2n x =? b2n y) with false by lia. reflexivity. Qed.

Lemma cut_eq pat s : cut pat s =
  match strip_prefix pat s with
  | Some after => Some ([], after)
  | None => match s with
            | [] => None
            | b :: r => match cut pat r with Some (bf, af) => Some (b :: bf, af) | None => None end
            end
  end.
Proof. destruct s; reflexivity. Qed.

Lemma cut_skip k1 k2 p a r : b2n k1 <> b2n k2 -> Forall (fun b => b2n b <> b2n k2) a ->
  cut (k1 :: k2 :: p) (a ++ (k1 :: k2 :: p) ++ r) = Some (a, r).
Proof.
  intros Hk Ha. induction a as [|x a IH].
  - rewrite app_nil_l, cut_eq, strip_prefix_app. reflexivity.
  - inversion Ha as [|? ? Hx Ha']; subst. specialize (IH Ha').
    assert (strip_prefix (k1 :: k2 :: p) ((x :: a) ++ (k1 :: k2 :: p) ++ r) = None) as N.
    { cbn [strip_prefix app]. destruct (b2n k1 =? b2n x) eqn:E1; [|reflexivity].
      destruct a as [|y a'].
      - cbn [app]. replace (b2n k2 =? b2n k1) with false by lia. reflexivity.
      - inversion Ha' as [|? ? Hy _]; subst. cbn [app]. replace (b2n k2 =? b2n y) with false by lia. reflexivity. }
    rewrite cut_eq, N. rewrite <- app_comm_cons. rewrite IH. reflexivity.
Qed.

(* ------------------------------------------------------------ lines *)
Lemma span_nl_app l r : Forall (fun b => is_nl b = false) l -> span_nl (l ++ nl :: r) = (l, Some r).
Proof.
  induction l as [|x l IH]; intros H.
  - reflexivity.
  - inversion H as [|? ? Hx Hl]; subst. cbn [app span_nl]. rewrite Hx, (IH Hl). reflexivity.
Qed.

Lemma trim_right_id f l d : l <> [] -> f (last l d) = false -> trim_right f l = l.
Proof.
  intros Hne Hl. unfold trim_right.
  assert (exists t, rev l = last l d :: t) as (t & E).
  { clear Hl. induction l as [|x l IH]; [congruence|]. destruct l as [|y l'].
    - exists []. reflexivity.
    - destruct (IH ltac:(discriminate)) as (t & E). cbn [rev] in *. cbn [last]. rewrite E. eexists. reflexivity. }
  rewrite E. cbn [drop_while]. rewrite Hl, <- E. apply rev_involutive.
Qed.

Lemma strip_cr_id l d : l <> [] -> b2n (last l d) <> 13 -> strip_cr l = l.
Proof.
  intros Hne Hl. unfold strip_cr.
  assert (exists t, rev l = last l d :: t) as (t & E).
  { clear Hl. induction l as [|x l IH]; [congruence|]. destruct l as [|y l'].
    - exists []. reflexivity.
    - destruct (IH ltac:(discriminate)) as (t & E). cbn [rev] in *. cbn [last]. rewrite E. eexists. reflexivity. }
  rewrite E. replace (b2n (last l d) =? 13) with false by lia. reflexivity.
Qed.

Lemma get_line_simple l r d : Forall (fun b => is_nl b = false) l -> l <> [] ->
  is_st (last l d) = false -> b2n (last l d) <> 13 -> get_line (l ++ nl :: r) = (l, r).
Proof.
  intros Hn Hne Hs Hc. unfold get_line. rewrite span_nl_app by exact Hn.
  rewrite (strip_cr_id l d Hne Hc), (trim_right_id is_st l d Hne Hs). reflexivity.
Qed.

Lemma get_line_nl r : get_line (nl :: r) = ([], r).
Proof. reflexivity. Qed.

Lemma drop_while_in f l x : In x (drop_while f l) -> In x l.
Proof. induction l as [|y l IH]; [auto|]. cbn [drop_while]. destruct (f y); [intros H; right; auto|auto]. Qed.

Lemma trim_right_in f l x : In x (trim_right f l) -> In x l.
Proof. unfold trim_right. intros H. apply in_rev in H. apply drop_while_in in H. apply in_rev. exact H. Qed.

Lemma strip_cr_in l x : In x (strip_cr l) -> In x l.
Proof.
  unfold strip_cr. destruct (rev l) as [|c t] eqn:E; [auto|]. destruct (b2n c =? 13); [|auto].
  intros H. apply in_rev in H. apply in_rev. rewrite E. right. exact H.
Qed.

Lemma span_nl_in A r x : In x (fst (span_nl (A ++ nl :: r))) -> In x A.
Proof.
  induction A as [|y A IH]; cbn [app span_nl].
  - replace (is_nl nl) with true by reflexivity. cbn. auto.
  - destruct (is_nl y); [cbn; tauto|]. destruct (span_nl (A ++ nl :: r)) as [l t]. cbn [fst] in *.
    intros [->|H]; [left; reflexivity|right; apply IH; exact H].
Qed.

Lemma get_line_in A r x : In x (fst (get_line (A ++ nl :: r))) -> In x A.
Proof.
  unfold get_line. pose proof (span_nl_in A r x) as S1.
  destruct (span_nl (A ++ nl :: r)) as [l [t|]]; cbn [fst] in *; intros H; apply S1.
  - apply strip_cr_in. eapply trim_right_in. exact H.
  - eapply trim_right_in. exact H.
Qed.

Lemma has_colon_false l : (forall x, In x l -> b2n x <> 58) -> has_colon l = false.
Proof.
  induction l as [|y l IH]; intros H; [reflexivity|]. cbn [has_colon existsb].
  replace (b2n y =? 58) with false by (specialize (H y (or_introl eq_refl)); lia).
  apply IH. intros x Hx. apply H. right. exact Hx.
Qed.

(* ------------------------------------------------------------ line breaking *)
Lemma brk_shape : forall s k, (s <> [] \/ k <> O) ->
  exists A, brk k s = A ++ [nl] /\ (forall x, In x A -> In x s \/ x = nl).
Proof.
  induction s as [|b r IH]; intros k H.
  - destruct H as [H|H]; [congruence|]. destruct k; [congruence|]. exists []. split; [reflexivity|]. intros x [].
  - cbn [brk]. destruct (Nat.eqb (S k) 64).
    + destruct r as [|c r'].
      * exists [b]. split; [reflexivity|]. intros x [->|[]]. left. left. reflexivity.
      * assert (c :: r' <> [] \/ O <> O) as Hd by (left; discriminate).
        destruct (IH O Hd) as (A & E & HA). rewrite E.
        exists (b :: nl :: A). split; [reflexivity|]. intros x [->|[->|Hx]]; [left; left; reflexivity|right; reflexivity|].
        destruct (HA x Hx) as [Hi| ->]; [left; right; exact Hi|right; reflexivity].
    + assert (r <> [] \/ S k <> O) as Hd by (right; discriminate).
      destruct (IH (S k) Hd) as (A & E & HA). rewrite E.
      exists (b :: A). split; [reflexivity|]. intros x [->|Hx]; [left; left; reflexivity|].
      destruct (HA x Hx) as [Hi| ->]; [left; right; exact Hi|right; reflexivity].
Qed.

Definition keep (b : byte) : bool := negb (is_st b || is_nl b || (b2n b =? 13)).

Lemma filter_brk : forall s k, Forall (fun b => plain b = true) s -> filter keep (brk k s) = s.
Proof.
  induction s as [|b r IH]; intros k H.
  - cbn [brk]. destruct k; reflexivity.
  - inversion H as [|? ? Hb Hr]; subst. destruct (plain_facts b Hb) as (_ & _ & H1 & H2 & H3).
    assert (keep b = true) as Kb by (unfold keep; rewrite H1, H3; replace (b2n b =? 13) with false by lia; reflexivity).
    cbn [brk]. destruct (Nat.eqb (S k) 64); cbn [filter]; rewrite Kb.
    + replace (keep nl) with false by reflexivity. rewrite (IH O Hr). reflexivity.
    + rewrite (IH (S k) Hr). reflexivity.
Qed.

(* ------------------------------------------------------------ one block *)
Definition ty_ok (ty : bytes) : Prop := Forall (fun b => is_nl b = false) ty.
(* text before the first block: nothing, or one line without '-' (the `#HASH:` line) *)
Definition pre_ok (pre : bytes) : Prop :=
  pre = [] \/ exists a, pre = a ++ [nl] /\ Forall (fun b => b2n b <> 45) a.

Lemma strip_suffix_app s suf : strip_suffix suf (s ++ suf) = Some s.
Proof. unfold strip_suffix. rewrite rev_app_distr, strip_prefix_app, rev_involutive. reflexivity. Qed.

Lemma last_dash5 ty d : last (ty ++ dash5) d = n2b 45.
Proof. change dash5 with (map n2b [45;45;45;45] ++ [n2b 45]). rewrite app_assoc. apply last_last. Qed.

Lemma dash5_line ty : ty_ok ty -> forall r, get_line ((ty ++ dash5) ++ nl :: r) = (ty ++ dash5, r).
Proof.
  intros Ht r. apply (get_line_simple _ _ nl).
  - apply Forall_app. split; [exact Ht|]. repeat constructor.
  - destruct ty; discriminate.
  - rewrite last_dash5. reflexivity.
  - rewrite last_dash5. vm_compute. discriminate.
Qed.

Lemma cut_marker pat a r : (exists p, pat = nl :: n2b 45 :: p) -> Forall (fun b => b2n b <> 45) a ->
  cut pat (a ++ pat ++ r) = Some (a, r).
Proof.
  intros (p & ->) Ha. apply cut_skip; [vm_compute; discriminate|].
  eapply Forall_impl; [|exact Ha]. intros b Hb. rewrite b2n_n2b by lia. exact Hb.
Qed.
Lemma begin_pat_shape : exists p, begin_pat = nl :: n2b 45 :: p. Proof. eexists. reflexivity. Qed.
Lemma end_pat_shape : exists p, end_pat = nl :: n2b 45 :: p. Proof. eexists. reflexivity. Qed.

Theorem pem_decode_block fuel pre ty der more :
  pre_ok pre -> ty_ok ty -> der <> [] ->
  decode_loop (S fuel) (pre ++ pem_encode ty der ++ more) = Some ((ty, der), more).
Proof.
  intros Hpre Hty Hder.
  (* the body lines *)
  destruct (b64_encode der) as [|c cs] eqn:Eb.
  { destruct der; [congruence|]. exfalso. exact (b64_encode_nonempty _ _ Eb). }
  pose proof (b64_encode_plain der) as Pl. rewrite Eb in Pl.
  assert (c :: cs <> [] \/ O <> O) as Hd0 by (left; discriminate).
  destruct (brk_shape (c :: cs) O Hd0) as (A & EA & HA).
  assert (forall x, In x A -> plain x = true \/ x = nl) as PA.
  { intros x Hx. destruct (HA x Hx) as [Hi| ->]; [left|right; reflexivity].
    rewrite Forall_forall in Pl. apply Pl. exact Hi. }
  inversion Pl as [|? ? Pc Pcs]; subst. destruct (plain_facts c Pc) as (Cd & Cc & Cs & Cr & Cn).
  assert (exists A', A = c :: A') as (A' & EA').
  { cbn [brk] in EA. replace (Nat.eqb 1 64) with false in EA by reflexivity.
    destruct A as [|a0 A0].
    - cbn [app] in EA. injection EA as -> _. discriminate Cn.
    - cbn [app] in EA. injection EA as <- _. eexists. reflexivity. }
  subst A.
  (* the input, regrouped *)
  set (tail := ty ++ dash5 ++ [nl] ++ more).
  assert (pem_encode ty der ++ more = begin_tail ++ (ty ++ dash5) ++ nl :: (c :: A') ++ end_pat ++ tail) as Shape.
  { unfold pem_encode, tail, end_pat. rewrite Eb, EA. repeat rewrite <- app_assoc. cbn [app]. repeat rewrite <- app_assoc. reflexivity. }
  rewrite Shape. clear Shape.
  set (rest2 := (c :: A') ++ end_pat ++ tail).
  set (rest1 := (ty ++ dash5) ++ nl :: rest2).
  (* 1. find the BEGIN marker *)
  assert ((match strip_prefix begin_tail (pre ++ begin_tail ++ rest1) with
           | Some r => Some r
           | None => match cut begin_pat (pre ++ begin_tail ++ rest1) with Some (_, after) => Some after | None => None end
           end) = Some rest1) as Start.
  { destruct Hpre as [->|(a & -> & Ha)].
    - rewrite app_nil_l, strip_prefix_app. reflexivity.
    - assert (strip_prefix begin_tail ((a ++ [nl]) ++ begin_tail ++ rest1) = None) as N.
      { destruct a as [|x a']; [reflexivity|]. inversion Ha as [|? ? Hx _]; subst.
        apply strip_prefix_head_ne. rewrite b2n_n2b by lia. lia. }
      rewrite N. rewrite <- app_assoc. change ([nl] ++ begin_tail ++ rest1) with (begin_pat ++ rest1).
      rewrite (cut_marker begin_pat a rest1 begin_pat_shape Ha). reflexivity. }
  cbn [decode_loop]. rewrite Start. unfold rest1. rewrite (dash5_line ty Hty), strip_suffix_app.
  (* 2. no headers *)
  assert (headers (S (length rest2)) rest2 O = Some (O, rest2)) as Hd.
  { cbn [headers]. unfold rest2 at 1. cbn [app].
    change (c :: A' ++ end_pat ++ tail) with rest2.
    assert (rest2 = (c :: A') ++ nl :: (end_tail ++ tail)) as R2 by reflexivity.
    destruct (get_line rest2) as [line next] eqn:G.
    assert (has_colon line = false) as ->; [|reflexivity].
    apply has_colon_false. intros x Hx.
    assert (In x (c :: A')) as Hin by (apply (get_line_in (c :: A') (end_tail ++ tail)); rewrite <- R2, G; exact Hx).
    destruct (PA x Hin) as [Hp| ->]; [apply plain_facts in Hp; tauto|vm_compute; discriminate]. }
  rewrite Hd.
  (* 3. the END marker *)
  assert (strip_prefix end_tail rest2 = None) as NE.
  { unfold rest2. cbn [app]. apply strip_prefix_head_ne. rewrite b2n_n2b by lia. lia. }
  rewrite NE. cbn [Nat.eqb andb].
  assert (cut end_pat rest2 = Some (c :: A', tail)) as CE.
  { unfold rest2. apply (cut_marker end_pat (c :: A') tail end_pat_shape).
    apply Forall_forall. intros x Hx.
    destruct (PA x Hx) as [Hp| ->]; [apply plain_facts in Hp; tauto|vm_compute; discriminate]. }
  rewrite CE. unfold tail. rewrite strip_prefix_app, strip_prefix_app. cbn [app]. rewrite get_line_nl. cbn [fst].
  (* 4. the body *)
  assert (pem_body (c :: A') = Some der) as Bd.
  { unfold pem_body. fold keep.
    assert (filter keep (c :: A') = c :: cs) as F.
    { pose proof (filter_brk (c :: cs) O Pl) as Fb. rewrite EA, filter_app in Fb.
      change (filter keep [nl]) with (@nil byte) in Fb. rewrite app_nil_r in Fb. exact Fb. }
    rewrite F, <- Eb. apply b64_decode_encode. }
  rewrite Bd.
  change (ty ++ dash5 ++ nl :: more) with (ty ++ dash5 ++ [nl] ++ more).
  replace (ty ++ dash5 ++ [nl] ++ more) with ((ty ++ dash5) ++ nl :: more) by (rewrite <- app_assoc; reflexivity).
  rewrite (dash5_line ty Hty). reflexivity.
Qed.
Print Assumptions pem_decode_block.

(* ------------------------------------------------------------ the whole file *)
Definition blk_ok (b : bytes * bytes) : Prop := ty_ok (fst b) /\ snd b <> [].
Definition enc_blk (b : bytes * bytes) : bytes := pem_encode (fst b) (snd b).
Definition export (bl : list (bytes * bytes)) : bytes := concat (map enc_blk bl).

Lemma enc_blk_length b : (1 <= length (enc_blk b))%nat.
Proof. unfold enc_blk, pem_encode, begin_tail, dash5. cbn [map app length]. lia. Qed.

Lemma export_length bl : (length bl <= length (export bl))%nat.
Proof.
  induction bl as [|b bl IH]; [cbn; lia|]. unfold export in *. cbn [map concat length]. rewrite app_length.
  pose proof (enc_blk_length b). lia.
Qed.

Lemma read_blocks_all : forall bl fuel, (length bl < fuel)%nat -> Forall blk_ok bl ->
  read_blocks fuel (export bl) = (bl, true).
Proof.
  induction bl as [|[ty der] bl IH]; intros fuel Hf Hok.
  - destruct fuel; [lia|]. reflexivity.
  - destruct fuel as [|f]; [lia|]. inversion Hok as [|? ? [Ht Hd] Hok']; subst. cbn [fst snd] in *.
    cbn [read_blocks]. unfold export. cbn [map concat]. fold (export bl). unfold enc_blk at 1. cbn [fst snd].
    unfold pem_decode.
    rewrite <- (app_nil_l (pem_encode ty der ++ export bl)) at 2.
    rewrite (pem_decode_block _ [] ty der (export bl) (or_introl eq_refl) Ht Hd).
    rewrite (IH f ltac:(cbn [length] in Hf; lia) Hok'). reflexivity.
Qed.

Lemma hash_line_ok h : pre_ok (hash_line h).
Proof.
  right. exists (map n2b [35;72;65;83;72;58] ++ b64_encode h). split; [unfold hash_line; rewrite app_assoc; reflexivity|].
  apply Forall_app. split.
  - repeat constructor; vm_compute; discriminate.
  - eapply Forall_impl; [|apply b64_encode_plain]. intros b Hb. apply plain_facts in Hb. tauto.
Qed.

(* C17: what exportPemFile writes – the `#HASH:` line followed by one PEM block per artifact – is read back by
   cert.ReadPem's loop as exactly those blocks, in order, with nothing left over; for every hash value, every
   block content and any number of blocks *)
Theorem read_pem_export h ty der bl : ty_ok ty -> der <> [] -> Forall blk_ok bl ->
  read_pem (hash_line h ++ export ((ty, der) :: bl)) = ((ty, der) :: bl, true).
Proof.
  intros Ht Hd Hok. unfold read_pem. cbn [read_blocks]. unfold pem_decode.
  unfold export. cbn [map concat]. fold (export bl). unfold enc_blk at 1 3. cbn [fst snd].
  rewrite (pem_decode_block _ (hash_line h) ty der (export bl) (hash_line_ok h) Ht Hd).
  rewrite read_blocks_all; [reflexivity| |exact Hok].
  rewrite !app_length. pose proof (export_length bl). pose proof (enc_blk_length (ty, der)). unfold enc_blk in *. cbn [fst snd] in *. lia.
Qed.
Print Assumptions read_pem_export.

(* without the hash line (files written by other tools) *)
Theorem read_pem_plain bl : Forall blk_ok bl -> read_pem (export bl) = (bl, true).
Proof. intros H. unfold read_pem. apply read_blocks_all; [pose proof (export_length bl); lia|exact H]. Qed.
