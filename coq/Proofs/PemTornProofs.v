(* C15, byte level: a torn PEM block is dropped whole. Failure paths of pem_decode. *)
From Coq Require Import List Arith NArith Bool Lia.
From Coq Require Import ZifyN ZifyBool ZifyNat.
From Coq.Strings Require Import Byte.
From Gopki.Model Require Import Bytes Base64 Pem.
From Gopki.Proofs Require Import BytesProofs Base64Proofs PemProofs.
Import ListNotations.
Open Scope N_scope.

(* ---- when a marker cannot be found ---- *)
Lemma strip_prefix_short p s : (length s < length p)%nat -> strip_prefix p s = None.
Proof.
  revert s. induction p as [|x p IH]; intros s H; [cbn in H; lia|].
  destruct s as [|y s]; [reflexivity|]. cbn [strip_prefix]. destruct (b2n x =? b2n y); [|reflexivity].
  apply IH. cbn [length] in H. lia.
Qed.

Lemma strip_prefix_length p s r : strip_prefix p s = Some r -> length s = (length p + length r)%nat.
Proof.
  revert s. induction p as [|x p IH]; intros s H.
  - cbn in H. injection H as <-. reflexivity.
  - destruct s as [|y s]; [discriminate|]. cbn [strip_prefix] in H. destruct (b2n x =? b2n y); [|discriminate].
    cbn [length]. rewrite (IH s H). reflexivity.
Qed.

Lemma strip_prefix_forall (P : byte -> Prop) p s r : strip_prefix p s = Some r -> Forall P s -> Forall P r.
Proof.
  revert s. induction p as [|x p IH]; intros s H F.
  - cbn in H. injection H as <-. exact F.
  - destruct s as [|y s]; [discriminate|]. cbn [strip_prefix] in H. destruct (b2n x =? b2n y); [|discriminate].
    inversion F; subst. eapply IH; eassumption.
Qed.

(* the pattern's first character does not occur *)
Lemma cut_none_k1 k1 p s : Forall (fun b => b2n b <> b2n k1) s -> cut (k1 :: p) s = None.
Proof.
  induction s as [|x s IH]; intros H; [reflexivity|]. inversion H as [|? ? Hx Hs]; subst.
  rewrite cut_eq. cbn [strip_prefix]. replace (b2n k1 =? b2n x) with false by lia. rewrite (IH Hs). reflexivity.
Qed.

(* the pattern's second character does not occur *)
Lemma cut_none_k2 k1 k2 p s : Forall (fun b => b2n b <> b2n k2) s -> cut (k1 :: k2 :: p) s = None.
Proof.
  induction s as [|x s IH]; intros H; [reflexivity|]. inversion H as [|? ? Hx Hs]; subst.
  rewrite cut_eq. rewrite (IH Hs).
  assert (strip_prefix (k1 :: k2 :: p) (x :: s) = None) as ->; [|reflexivity].
  cbn [strip_prefix]. destruct (b2n k1 =? b2n x); [|reflexivity].
  destruct s as [|y s']; [reflexivity|]. inversion Hs; subst. replace (b2n k2 =? b2n y) with false by lia. reflexivity.
Qed.

(* a part without the second character, then a part without an occurrence, no occurrence across the seam *)
Lemma cut_none_app k1 k2 p a w : Forall (fun b => b2n b <> b2n k2) a ->
  cut (k1 :: k2 :: p) w = None -> strip_prefix (k2 :: p) w = None ->
  cut (k1 :: k2 :: p) (a ++ w) = None.
Proof.
  intros Ha Hw Hs. induction a as [|x a IH]; [exact Hw|]. inversion Ha as [|? ? Hx Ha']; subst.
  rewrite <- app_comm_cons, cut_eq, (IH Ha').
  assert (strip_prefix (k1 :: k2 :: p) (x :: a ++ w) = None) as ->; [|reflexivity].
  cbn [strip_prefix]. destruct (b2n k1 =? b2n x); [|reflexivity].
  destruct a as [|y a'].
  - exact Hs.
  - inversion Ha'; subst. cbn [app strip_prefix]. replace (b2n k2 =? b2n y) with false by lia. reflexivity.
Qed.

Lemma decode_loop_nil fuel : decode_loop fuel [] = None.
Proof. destruct fuel; reflexivity. Qed.

Lemma span_nl_none s : Forall (fun b => is_nl b = false) s -> span_nl s = (s, None).
Proof.
  induction s as [|x s IH]; intros H; [reflexivity|]. inversion H as [|? ? Hx Hs]; subst.
  cbn [span_nl]. rewrite Hx, (IH Hs). reflexivity.
Qed.

Lemma get_line_none s : Forall (fun b => is_nl b = false) s -> snd (get_line s) = [].
Proof. intros H. unfold get_line. rewrite (span_nl_none s H). reflexivity. Qed.

Lemma nl_free_ne s : Forall (fun b => is_nl b = false) s -> Forall (fun b => b2n b <> b2n nl) s.
Proof. apply Forall_impl. intros b H. unfold is_nl in H. change (b2n nl) with 10. lia. Qed.

(* T1: no newline at all (a cut inside the BEGIN line, or inside the hash line) *)
Theorem torn_no_newline fuel u : Forall (fun b => is_nl b = false) u -> decode_loop fuel u = None.
Proof.
  intros H. destruct fuel as [|f]; [reflexivity|]. cbn [decode_loop].
  assert (cut begin_pat u = None) as -> by (apply cut_none_k1, nl_free_ne, H).
  destruct (strip_prefix begin_tail u) as [r|] eqn:E; [|reflexivity].
  pose proof (strip_prefix_forall _ _ _ _ E H) as Hr.
  pose proof (get_line_none r Hr) as G. destruct (get_line r) as [tl rest2]. cbn [snd] in G. subst rest2.
  destruct (strip_suffix dash5 tl); [reflexivity|apply decode_loop_nil].
Qed.
Print Assumptions torn_no_newline.

(* ---- after the BEGIN line ---- *)
Definition after_type (f : nat) (ty rest2 : bytes) : option ((bytes * bytes) * bytes) :=
  match headers (S (length rest2)) rest2 O with
  | None => None
  | Some (nh, rest3) =>
    let found := if Nat.eqb nh 0 && (match strip_prefix end_tail rest3 with Some _ => true | None => false end)
                 then match strip_prefix end_tail rest3 with Some a => Some ([], a) | None => None end
                 else cut end_pat rest3 in
    match found with
    | None => decode_loop f rest3
    | Some (body, trailer) =>
      match strip_prefix ty trailer with
      | None => decode_loop f rest3
      | Some t1 =>
        match strip_prefix dash5 t1 with
        | None => decode_loop f rest3
        | Some rest_of_end_line =>
          match fst (get_line rest_of_end_line) with
          | _ :: _ => decode_loop f rest3
          | [] => match pem_body body with
                  | None => decode_loop f rest3
                  | Some der => Some ((ty, der), snd (get_line trailer))
                  end
          end
        end
      end
    end
  end.

Lemma decode_after_begin f ty v : ty_ok ty ->
  decode_loop (S f) (begin_tail ++ (ty ++ dash5) ++ nl :: v) = after_type f ty v.
Proof.
  intros Ht. cbn [decode_loop]. rewrite strip_prefix_app, (dash5_line ty Ht), strip_suffix_app. reflexivity.
Qed.

Lemma no_begin_none f s : strip_prefix begin_tail s = None -> cut begin_pat s = None -> decode_loop f s = None.
Proof. intros H1 H2. destruct f; [reflexivity|]. cbn [decode_loop]. rewrite H1, H2. reflexivity. Qed.

Lemma span_nl_in_all s x : In x (fst (span_nl s)) -> In x s.
Proof.
  induction s as [|y s IH]; [auto|]. cbn [span_nl]. destruct (is_nl y); [intros []|].
  destruct (span_nl s) as [l t]. cbn [fst] in *. intros [->|H]; [left; reflexivity|right; auto].
Qed.

Lemma get_line_in_all s x : In x (fst (get_line s)) -> In x s.
Proof.
  unfold get_line. pose proof (span_nl_in_all s x) as S1.
  destruct (span_nl s) as [l [t|]]; cbn [fst] in *; intros H; apply S1.
  - apply strip_cr_in. eapply trim_right_in. exact H.
  - eapply trim_right_in. exact H.
Qed.

Lemma headers_none_colon v c v' : v = c :: v' -> Forall (fun b => b2n b <> 58) v ->
  headers (S (length v)) v O = Some (O, v).
Proof.
  intros -> Hc. cbn [headers]. destruct (get_line (c :: v')) as [line next] eqn:G.
  assert (has_colon line = false) as ->; [|reflexivity].
  apply has_colon_false. intros x Hx. rewrite Forall_forall in Hc. apply Hc.
  apply get_line_in_all. rewrite G. exact Hx.
Qed.

Definition body_char (b : byte) : Prop := plain b = true \/ b = nl.
Lemma body_char_facts b : body_char b -> b2n b <> 45 /\ b2n b <> 58.
Proof. intros [H| ->]; [apply plain_facts in H; tauto|split; vm_compute; discriminate]. Qed.

Lemma forall_ne45 s : Forall body_char s -> Forall (fun b => b2n b <> b2n (n2b 45)) s.
Proof. apply Forall_impl. intros b H. apply body_char_facts in H. rewrite b2n_n2b by lia. tauto. Qed.
Lemma forall_ne58 s : Forall body_char s -> Forall (fun b => b2n b <> 58) s.
Proof. apply Forall_impl. intros b H. apply body_char_facts in H. tauto. Qed.

(* T2: the cut falls inside the base64 body *)
Theorem torn_in_body f ty c v' : plain c = true -> Forall body_char v' -> after_type f ty (c :: v') = None.
Proof.
  intros Pc Hv. assert (Forall body_char (c :: v')) as Hall by (constructor; [left; exact Pc|exact Hv]).
  destruct (plain_facts c Pc) as (Cd & _).
  unfold after_type. rewrite (headers_none_colon (c :: v') c v' eq_refl (forall_ne58 _ Hall)).
  assert (strip_prefix end_tail (c :: v') = None) as -> by (apply strip_prefix_head_ne; rewrite b2n_n2b by lia; lia).
  cbn [Nat.eqb andb].
  destruct end_pat_shape as (p & Ep). rewrite Ep. rewrite (cut_none_k2 nl (n2b 45) p _ (forall_ne45 _ Hall)).
  apply no_begin_none; [apply strip_prefix_head_ne; rewrite b2n_n2b by lia; lia|].
  destruct begin_pat_shape as (q & Eq). rewrite Eq. apply cut_none_k2, forall_ne45, Hall.
Qed.
Print Assumptions torn_in_body.

(* ---- the cut falls inside the END line: v = body ++ nl :: w ---- *)
Definition line_char (b : byte) : Prop := is_nl b = false /\ b2n b <> 58.

Lemma line_no_nl w : Forall line_char w -> Forall (fun b => is_nl b = false) w.
Proof. apply Forall_impl. intros b [H _]. exact H. Qed.

Lemma strip_prefix_same x p s : strip_prefix (x :: p) (x :: s) = strip_prefix p s.
Proof. cbn [strip_prefix]. rewrite N.eqb_refl. reflexivity. Qed.

Lemma seam_ne45 w p : strip_prefix (n2b 45 :: p) (nl :: w) = None.
Proof. apply strip_prefix_head_ne. vm_compute. discriminate. Qed.

Lemma end_line_colon_free c A' w : Forall body_char (c :: A') -> Forall line_char w ->
  Forall (fun b => b2n b <> 58) ((c :: A') ++ nl :: w).
Proof.
  intros Ha Hw. apply Forall_app. split; [apply forall_ne58, Ha|].
  constructor; [vm_compute; discriminate|]. eapply Forall_impl; [|exact Hw]. intros b [_ H]. exact H.
Qed.

(* no BEGIN marker in  body ++ nl :: w  when w neither contains a newline nor starts like one *)
Lemma no_begin_after_body c A' w : plain c = true -> Forall body_char (c :: A') -> Forall line_char w ->
  strip_prefix begin_tail w = None ->
  forall f, decode_loop f ((c :: A') ++ nl :: w) = None.
Proof.
  intros Pc Ha Hw Hs f. destruct (plain_facts c Pc) as (Cd & _).
  apply no_begin_none.
  - rewrite <- app_comm_cons. apply strip_prefix_head_ne. rewrite b2n_n2b by lia. lia.
  - destruct begin_pat_shape as (q & Eq). rewrite Eq. apply cut_none_app.
    + apply forall_ne45, Ha.
    + rewrite cut_eq.
      assert (strip_prefix (nl :: n2b 45 :: q) (nl :: w) = None) as ->.
      { assert (begin_tail = n2b 45 :: q) as Eb by (unfold begin_pat in Eq; injection Eq as <-; reflexivity).
        rewrite strip_prefix_same, <- Eb. exact Hs. }
      rewrite (cut_none_k1 nl (n2b 45 :: q) w (nl_free_ne w (line_no_nl w Hw))). reflexivity.
    + apply seam_ne45.
Qed.

(* T3: not even the END marker is complete *)
Theorem torn_in_end_marker f ty c A' w : plain c = true -> Forall body_char (c :: A') -> Forall line_char w ->
  (length w < length end_tail)%nat -> after_type f ty ((c :: A') ++ nl :: w) = None.
Proof.
  intros Pc Ha Hw Hl. destruct (plain_facts c Pc) as (Cd & _).
  unfold after_type. rewrite <- app_comm_cons.
  rewrite (headers_none_colon _ c (A' ++ nl :: w) eq_refl (end_line_colon_free c A' w Ha Hw)).
  assert (strip_prefix end_tail (c :: A' ++ nl :: w) = None) as -> by (apply strip_prefix_head_ne; rewrite b2n_n2b by lia; lia).
  cbn [Nat.eqb andb].
  assert (cut end_pat (c :: A' ++ nl :: w) = None) as ->.
  { destruct end_pat_shape as (p & Ep). rewrite Ep. rewrite app_comm_cons. apply cut_none_app.
    - apply forall_ne45, Ha.
    - rewrite cut_eq.
      assert (strip_prefix (nl :: n2b 45 :: p) (nl :: w) = None) as ->.
      { assert (end_tail = n2b 45 :: p) as Eb by (unfold end_pat in Ep; injection Ep as <-; reflexivity).
        rewrite strip_prefix_same, <- Eb. apply strip_prefix_short. exact Hl. }
      rewrite (cut_none_k1 nl (n2b 45 :: p) w (nl_free_ne w (line_no_nl w Hw))). reflexivity.
    - apply seam_ne45. }
  rewrite app_comm_cons. apply (no_begin_after_body c A' w Pc Ha Hw).
  apply strip_prefix_short. unfold begin_tail, end_tail, dash5 in *. cbn [map app length] in *. lia.
Qed.
Print Assumptions torn_in_end_marker.

(* T4: the END marker is complete, the type or the closing dashes are not *)
Theorem torn_in_end_type f ty c A' x : plain c = true -> Forall body_char (c :: A') -> Forall line_char x ->
  ty_ok ty -> (length x < length ty + 5)%nat ->
  after_type f ty ((c :: A') ++ nl :: end_tail ++ x) = None.
Proof.
  intros Pc Ha Hx Ht Hl. destruct (plain_facts c Pc) as (Cd & _).
  assert (Forall line_char (end_tail ++ x)) as Hw.
  { apply Forall_app. split; [|exact Hx]. unfold end_tail, dash5. cbn [map app].
    repeat constructor; vm_compute; discriminate. }
  assert (forall g, decode_loop g ((c :: A') ++ nl :: end_tail ++ x) = None) as Loop.
  { intros g. apply (no_begin_after_body c A' (end_tail ++ x) Pc Ha Hw). reflexivity. }
  unfold after_type. rewrite <- app_comm_cons.
  rewrite (headers_none_colon _ c (A' ++ nl :: end_tail ++ x) eq_refl (end_line_colon_free c A' _ Ha Hw)).
  assert (strip_prefix end_tail (c :: A' ++ nl :: end_tail ++ x) = None) as -> by (apply strip_prefix_head_ne; rewrite b2n_n2b by lia; lia).
  cbn [Nat.eqb andb].
  assert (cut end_pat (c :: A' ++ nl :: end_tail ++ x) = Some (c :: A', x)) as ->.
  { rewrite app_comm_cons. change (nl :: end_tail ++ x) with (end_pat ++ x).
    apply (cut_marker end_pat (c :: A') x end_pat_shape).
    eapply Forall_impl; [|apply forall_ne45, Ha]. intros b Hb. rewrite b2n_n2b in Hb by lia. exact Hb. }
  rewrite app_comm_cons in *.
  destruct (strip_prefix ty x) as [t1|] eqn:E1; [|apply Loop].
  apply strip_prefix_length in E1.
  rewrite strip_prefix_short; [apply Loop|]. unfold dash5. cbn [map length]. lia.
Qed.
Print Assumptions torn_in_end_type.

(* T5: only the final newline is missing – the block is still read *)
Theorem torn_last_newline f ty der c A' : plain c = true -> Forall body_char (c :: A') -> ty_ok ty ->
  Forall (fun b => b2n b <> 58) ty -> pem_body (c :: A') = Some der ->
  after_type f ty ((c :: A') ++ nl :: end_tail ++ ty ++ dash5) = Some ((ty, der), []).
Proof.
  intros Pc Ha Ht Hc Hb. destruct (plain_facts c Pc) as (Cd & _).
  assert (Forall line_char (end_tail ++ ty ++ dash5)) as Hw.
  { apply Forall_app. split; [unfold end_tail, dash5; cbn [map app]; repeat constructor; vm_compute; discriminate|].
    apply Forall_app. split.
    - apply Forall_forall. intros b Hin. split.
      + pose proof Ht as Ht'. unfold ty_ok in Ht'. rewrite Forall_forall in Ht'. apply Ht'. exact Hin.
      + pose proof Hc as Hc'. rewrite Forall_forall in Hc'. apply Hc'. exact Hin.
    - unfold dash5. cbn [map]. repeat constructor; vm_compute; discriminate. }
  unfold after_type. rewrite <- app_comm_cons.
  rewrite (headers_none_colon _ c (A' ++ nl :: end_tail ++ ty ++ dash5) eq_refl (end_line_colon_free c A' _ Ha Hw)).
  assert (strip_prefix end_tail (c :: A' ++ nl :: end_tail ++ ty ++ dash5) = None) as -> by (apply strip_prefix_head_ne; rewrite b2n_n2b by lia; lia).
  cbn [Nat.eqb andb].
  assert (cut end_pat (c :: A' ++ nl :: end_tail ++ ty ++ dash5) = Some (c :: A', ty ++ dash5)) as ->.
  { rewrite app_comm_cons. change (nl :: end_tail ++ ty ++ dash5) with (end_pat ++ ty ++ dash5).
    apply (cut_marker end_pat (c :: A') (ty ++ dash5) end_pat_shape).
    eapply Forall_impl; [|apply forall_ne45, Ha]. intros b Hb'. rewrite b2n_n2b in Hb' by lia. exact Hb'. }
  rewrite strip_prefix_app. replace (strip_prefix dash5 dash5) with (Some (@nil byte)) by reflexivity.
  replace (fst (get_line [])) with (@nil byte) by reflexivity. rewrite Hb.
  assert (Forall (fun b => is_nl b = false) (ty ++ dash5)) as Hn.
  { apply Forall_app. split; [exact Ht|]. unfold dash5. cbn [map]. repeat constructor. }
  rewrite (get_line_none _ Hn). reflexivity.
Qed.
Print Assumptions torn_last_newline.

(* ---- text before a block is skipped without influence ---- *)
Lemma cut_app_skip k1 k2 p a w : Forall (fun b => b2n b <> b2n k2) a -> strip_prefix (k2 :: p) w = None ->
  cut (k1 :: k2 :: p) (a ++ w) =
  match cut (k1 :: k2 :: p) w with Some (bf, af) => Some (a ++ bf, af) | None => None end.
Proof.
  intros Ha Hs. induction a as [|x a IH].
  - cbn [app]. destruct (cut (k1 :: k2 :: p) w) as [[bf af]|]; reflexivity.
  - inversion Ha as [|? ? Hx Ha']; subst. rewrite <- app_comm_cons, cut_eq, (IH Ha').
    assert (strip_prefix (k1 :: k2 :: p) (x :: a ++ w) = None) as ->.
    { cbn [strip_prefix]. destruct (b2n k1 =? b2n x); [|reflexivity].
      destruct a as [|y a'].
      - exact Hs.
      - inversion Ha'; subst. cbn [app strip_prefix]. replace (b2n k2 =? b2n y) with false by lia. reflexivity. }
    destruct (cut (k1 :: k2 :: p) w) as [[bf af]|]; reflexivity.
Qed.

Lemma decode_skip_pre f pre u : pre_ok pre -> decode_loop (S f) (pre ++ u) = decode_loop (S f) u.
Proof.
  intros [->|(a & -> & Ha)]; [reflexivity|].
  rewrite <- app_assoc. change ([nl] ++ u) with (nl :: u).
  assert (strip_prefix begin_tail (a ++ nl :: u) = None) as N.
  { destruct a as [|x a']; [apply strip_prefix_head_ne; vm_compute; discriminate|].
    inversion Ha; subst. apply strip_prefix_head_ne. rewrite b2n_n2b by lia. lia. }
  assert (match cut begin_pat (a ++ nl :: u) with Some (_, af) => Some af | None => None end =
          match strip_prefix begin_tail u with
          | Some r => Some r
          | None => match cut begin_pat u with Some (_, af) => Some af | None => None end
          end) as C.
  { destruct begin_pat_shape as (q & Eq). rewrite Eq.
    assert (begin_tail = n2b 45 :: q) as Eb by (unfold begin_pat in Eq; injection Eq as <-; reflexivity).
    rewrite cut_app_skip; [| eapply Forall_impl; [|exact Ha]; intros b Hb; rewrite b2n_n2b by lia; exact Hb | apply seam_ne45].
    rewrite (cut_eq _ (nl :: u)), strip_prefix_same, <- Eb.
    destruct (strip_prefix begin_tail u) as [r|]; [reflexivity|].
    destruct (cut (nl :: begin_tail) u) as [[bf af]|]; reflexivity. }
  cbn [decode_loop]. rewrite N, C. reflexivity.
Qed.

(* ---- the file: complete blocks followed by an undecodable tail ---- *)
Definition undecodable (u : bytes) : Prop := forall f, decode_loop f u = None.

Lemma read_blocks_tail : forall bl fuel u, (length bl < fuel)%nat -> Forall blk_ok bl -> undecodable u ->
  fst (read_blocks fuel (export bl ++ u)) = bl.
Proof.
  induction bl as [|[ty der] bl IH]; intros fuel u Hf Hok Hu.
  - destruct fuel as [|f]; [lia|]. cbn [export map concat app read_blocks]. unfold pem_decode. rewrite Hu. reflexivity.
  - destruct fuel as [|f]; [lia|]. inversion Hok as [|? ? [Ht Hd] Hok']; subst. cbn [fst snd] in *.
    cbn [read_blocks]. unfold export. cbn [map concat]. fold (export bl). unfold enc_blk at 1. cbn [fst snd].
    unfold pem_decode. rewrite <- app_assoc.
    rewrite <- (app_nil_l (pem_encode ty der ++ export bl ++ u)) at 2.
    rewrite (pem_decode_block _ [] ty der (export bl ++ u) (or_introl eq_refl) Ht Hd).
    specialize (IH f u ltac:(cbn [length] in Hf; lia) Hok' Hu).
    destruct (read_blocks f (export bl ++ u)) as [l ok]. cbn [fst] in *. rewrite IH. reflexivity.
Qed.

(* C15 (bytes): whatever is left of a file after a torn write – the hash line, some complete blocks and an
   undecodable remainder – is read as exactly the complete blocks *)
Theorem torn_file_reads_complete_blocks h bl u : Forall blk_ok bl -> undecodable u ->
  fst (read_pem (hash_line h ++ export bl ++ u)) = bl.
Proof.
  intros Hok Hu. unfold read_pem. destruct bl as [|[ty der] bl].
  - cbn [export map concat app read_blocks]. unfold pem_decode.
    rewrite (decode_skip_pre _ (hash_line h) u (hash_line_ok h)), Hu. reflexivity.
  - inversion Hok as [|? ? [Ht Hd] Hok']; subst. cbn [fst snd] in *.
    assert (hash_line h ++ export ((ty, der) :: bl) ++ u = hash_line h ++ pem_encode ty der ++ export bl ++ u) as ->.
    { unfold export. cbn [map concat]. unfold enc_blk at 1. cbn [fst snd]. rewrite <- app_assoc. reflexivity. }
    cbn [read_blocks]. unfold pem_decode.
    rewrite (pem_decode_block _ (hash_line h) ty der (export bl ++ u) (hash_line_ok h) Ht Hd).
    pose proof (read_blocks_tail bl (length (hash_line h ++ pem_encode ty der ++ export bl ++ u)) u) as R.
    destruct (read_blocks _ (export bl ++ u)) as [l ok]. cbn [fst] in *. rewrite R; [reflexivity| |exact Hok'|exact Hu].
    rewrite !app_length. pose proof (export_length bl). pose proof (enc_blk_length (ty, der)). unfold enc_blk in *. cbn [fst snd] in *. lia.
Qed.
Print Assumptions torn_file_reads_complete_blocks.

(* the remainders a truncation can leave are undecodable (T1-T4), stated on the pieces of one block *)
Theorem torn_tail_undecodable ty :
  ty_ok ty ->
  (forall u, Forall (fun b => is_nl b = false) u -> undecodable u) /\
  undecodable (begin_tail ++ (ty ++ dash5) ++ [nl]) /\
  (forall c v', plain c = true -> Forall body_char v' -> undecodable (begin_tail ++ (ty ++ dash5) ++ nl :: c :: v')) /\
  (forall c A' w, plain c = true -> Forall body_char (c :: A') -> Forall line_char w ->
     (length w < length end_tail)%nat -> undecodable (begin_tail ++ (ty ++ dash5) ++ nl :: (c :: A') ++ nl :: w)) /\
  (forall c A' x, plain c = true -> Forall body_char (c :: A') -> Forall line_char x ->
     (length x < length ty + 5)%nat -> undecodable (begin_tail ++ (ty ++ dash5) ++ nl :: (c :: A') ++ nl :: end_tail ++ x)).
Proof.
  intros Ht. repeat split.
  - intros u Hu f. apply torn_no_newline. exact Hu.
  - intros [|f]; [reflexivity|]. rewrite (decode_after_begin f ty [] Ht). reflexivity.
  - intros c v' Pc Hv [|f]; [reflexivity|]. rewrite (decode_after_begin f ty _ Ht). apply torn_in_body; assumption.
  - intros c A' w Pc Ha Hw Hl [|f]; [reflexivity|]. rewrite (decode_after_begin f ty _ Ht). apply torn_in_end_marker; assumption.
  - intros c A' x Pc Ha Hx Hl [|f]; [reflexivity|]. rewrite (decode_after_begin f ty _ Ht). apply torn_in_end_type; assumption.
Qed.
Print Assumptions torn_tail_undecodable.
