From Coq Require Import List Arith NArith ZArith Bool Lia.
From Coq Require Import ZifyN ZifyBool ZifyNat.
From Coq.Strings Require Import Byte.
From Gopki.Model Require Import Bytes Base64 Der Asn1 Text Algs Pkcs8.
From Gopki.Proofs Require Import BytesProofs DerProofs Asn1Proofs.
Import ListNotations.
Open Scope N_scope.

Lemma be_digits_length n w : n < 256 ^ N.of_nat w -> (length (be_digits n) <= w)%nat.
Proof.
  intros H. destruct (be_digits_spec n) as [V M].
  destruct (be_digits n) as [|h r] eqn:E; [cbn; lia|].
  assert (h :: r <> []) as Hne by discriminate.
  pose proof (be_value_ge (h :: r) Hne M) as G. rewrite V in G.
  destruct (Nat.le_gt_cases (length (h :: r)) w) as [|Hgt]; [assumption|exfalso].
  assert (256 ^ N.of_nat w <= 256 ^ (blen (h :: r) - 1)) by (apply N.pow_le_mono_r; unfold blen; lia). lia.
Qed.

Lemma be_value_zeros k l : be_value (repeat (n2b 0) k ++ l) = be_value l.
Proof.
  induction k as [|k IH]; [reflexivity|]. cbn [repeat app]. rewrite be_value_cons, IH.
  rewrite b2n_n2b by lia. lia.
Qed.

Lemma fill_bytes_spec w d : d < 256 ^ N.of_nat w ->
  exists sc, fill_bytes w d = Some sc /\ length sc = w /\ be_value sc = d.
Proof.
  intros H. unfold fill_bytes. pose proof (be_digits_length d w H) as L.
  replace (Nat.leb (length (be_digits d)) w) with true by (symmetry; apply Nat.leb_le; exact L).
  eexists. split; [reflexivity|]. split.
  - rewrite app_length, repeat_length. lia.
  - rewrite be_value_zeros. apply be_digits_spec.
Qed.

Definition ec_curves := [P224; P256; P384; P521; BP256r1; BP384r1; BP512r1; BP256t1; BP384t1; BP512t1].

Lemma curve_tables : forallb (fun c =>
    match scalar_width c, curve_oid c with
    | Some _, Some co => (match curve_of_oid co with Some c' => oid_eqb (match curve_oid c' with Some x => x | None => [] end) co | None => false end)
                         && (match der_oid co with Some t => match dec_oid' t with Some o => oid_eqb o co | None => false end | None => false end)
    | _, _ => false end) ec_curves = true.
Proof. vm_compute. reflexivity. Qed.

Lemma curve_of_oid_roundtrip c co : In c ec_curves -> curve_oid c = Some co -> curve_of_oid co = Some c.
Proof.
  intros Hin H. destruct c; cbn in Hin; try (exfalso; intuition discriminate); cbn in H; inversion H; subst; reflexivity.
Qed.

Lemma wf_tlv_oid o : wf (tlv_oid o) = true.
Proof.
  unfold tlv_oid, der_oid. destruct (oid_content o); reflexivity.
Qed.

Lemma blen_prim c t v : blen v <= blen (enc (Prim c t v)).
Proof. cbn [enc]. unfold blen. cbn [length]. rewrite app_length. lia. Qed.

Lemma blen_encs_in x k : In x k -> blen (enc x) <= blen (encs k).
Proof.
  induction k as [|y k IH]; intros H; [contradiction|]. cbn [encs]. rewrite blen_app.
  destruct H as [->|H]; [lia|]. specialize (IH H). lia.
Qed.

Lemma blen_cons_in c t x k : In x k -> blen (enc x) <= blen (enc (Cons c t k)).
Proof.
  intros H. rewrite enc_Cons. pose proof (blen_encs_in x k H). unfold blen in *. cbn [length]. rewrite app_length. lia.
Qed.

(* ---- the struct-directed reader on what the strict encoder writes *)
Definition go_len (n : N) : Prop := n < 2147483648.

Lemma go_len_ok n : go_len n -> len_ok n.
Proof. unfold go_len, len_ok. intros H. assert (2147483648 <= 2 ^ 1008) by (apply N.leb_le; vm_compute; reflexivity). lia. Qed.

Lemma take_n_app (a b : bytes) : take_n (blen a) (a ++ b) = Some (a, b).
Proof. rewrite take_n_take. unfold blen. rewrite Nat2N.id. apply take_app. Qed.

Lemma go_hdr_enc c k t body r : t < 31 -> go_len (blen body) ->
  go_hdr (ident c k t :: enc_len (blen body) ++ body ++ r) = Some (c, k, t, blen body, body ++ r).
Proof.
  intros Ht Hl. unfold go_hdr. rewrite dec_ident_ident by exact Ht.
  rewrite dec_len_enc_len by (apply go_len_ok; exact Hl).
  replace (blen body <? 2147483648) with true by (unfold go_len in Hl; lia). reflexivity.
Qed.

Lemma go_hdr_enc_nil c k t body : t < 31 -> go_len (blen body) ->
  go_hdr (ident c k t :: enc_len (blen body) ++ body) = Some (c, k, t, blen body, body).
Proof. intros Ht Hl. pose proof (go_hdr_enc c k t body [] Ht Hl) as H. rewrite !app_nil_r in H. exact H. Qed.

Lemma take_n_all (a : bytes) : take_n (blen a) a = Some (a, []).
Proof. pose proof (take_n_app a []) as H. rewrite app_nil_r in H. exact H. Qed.

Lemma go_req_prim t v r : t < 31 -> go_len (blen v) -> go_req t false (enc (Prim Univ t v) ++ r) = Some (v, r).
Proof.
  intros Ht Hl. unfold go_req. cbn [enc]. cbn [app]. rewrite <- app_assoc. rewrite go_hdr_enc by assumption.
  cbn [is_univ andb]. rewrite N.eqb_refl. cbn [Bool.eqb andb]. apply take_n_app.
Qed.

Lemma go_req_cons t k r : t < 31 -> go_len (blen (encs k)) -> go_req t true (enc (Cons Univ t k) ++ r) = Some (encs k, r).
Proof.
  intros Ht Hl. unfold go_req. rewrite enc_Cons. cbn [app]. rewrite <- app_assoc. rewrite go_hdr_enc by assumption.
  cbn [is_univ andb]. rewrite N.eqb_refl. cbn [Bool.eqb andb]. apply take_n_app.
Qed.

Lemma encs_cons x k : encs (x :: k) = enc x ++ encs k.
Proof. reflexivity. Qed.

Lemma blen_enc_pos x : 1 <= blen (enc x).
Proof. pose proof (enc_length_pos x). unfold blen. lia. Qed.

(* sizes: every part of an encoding is no longer than the whole *)
Lemma blen_encs_cons x k : blen (encs (x :: k)) = blen (enc x) + blen (encs k).
Proof. rewrite encs_cons. apply blen_app. Qed.

Lemma blen_nil : blen (@nil byte) = 0.
Proof. reflexivity. Qed.

Ltac norm_sizes := repeat rewrite blen_encs_cons in *; cbn [encs] in *; rewrite ?blen_nil in *.

Lemma blen_cons_body c t k : blen (encs k) <= blen (enc (Cons c t k)).
Proof. rewrite enc_Cons. unfold blen. cbn [length]. rewrite app_length. lia. Qed.

(* the [1] member gopki writes: not taken for a [0] member, read as a BIT STRING without unused bits *)
Lemma go_bits_full pub : go_bits_ok (n2b ((8 - (8 * blen pub) mod 8) mod 8) :: pub) = true.
Proof.
  replace ((8 - (8 * blen pub) mod 8) mod 8) with 0 by (rewrite N.mul_comm, N.mod_mul by lia; reflexivity).
  unfold go_bits_ok. rewrite b2n_n2b by lia. cbn [N.leb N.ltb andb negb].
  destruct pub as [|x pub]; [reflexivity|]. cbn [N.pow]. rewrite N.mod_1_r. reflexivity.
Qed.

Lemma optional_members_generated pub r : go_len (blen (enc (der_explicit 1 (der_bits_full pub)))) ->
  go_opt_explicit 0 6 (enc (der_explicit 1 (der_bits_full pub)) ++ r) = OAbsent /\
  exists v, go_opt_explicit 1 3 (enc (der_explicit 1 (der_bits_full pub)) ++ r) = OPresent v r /\ go_bits_ok v = true.
Proof.
  intros Hl. unfold der_explicit, der_bits_full, der_bits in *.
  set (v := n2b ((8 - (8 * blen pub) mod 8) mod 8) :: pub) in *.
  pose proof (blen_cons_body Ctx 1 [Prim Univ 3 v]) as B1.
  pose proof (blen_prim Univ 3 v) as B2.
  assert (encs [Prim Univ 3 v] = enc (Prim Univ 3 v)) as E1 by (cbn [encs]; apply app_nil_r).
  rewrite E1 in B1.
  assert (go_len (blen (encs [Prim Univ 3 v]))) as L1 by (rewrite E1; unfold go_len in *; lia).
  assert (go_len (blen v)) as L2 by (unfold go_len in *; lia).
  assert (exists i rest, enc (Prim Univ 3 v) ++ r = i :: rest) as (i0 & rest0 & Ne) by (cbn [enc app]; eauto).
  assert (blen (encs [Prim Univ 3 v]) <> 0) as Nz by (rewrite E1; pose proof (blen_enc_pos (Prim Univ 3 v)); lia).
  rewrite enc_Cons. cbn [app]. rewrite <- app_assoc.
  split.
  - unfold go_opt_explicit. rewrite go_hdr_enc by (try lia; assumption). rewrite E1, Ne.
    cbn [is_ctx andb]. replace (1 =? 0) with false by reflexivity. reflexivity.
  - exists v. split; [|apply go_bits_full].
    unfold go_opt_explicit. rewrite go_hdr_enc by (try lia; assumption). rewrite E1 in *. rewrite Ne.
    cbn [is_ctx andb]. rewrite N.eqb_refl. cbn [orb andb].
    replace (blen (enc (Prim Univ 3 v)) =? 0) with false by (symmetry; apply N.eqb_neq; exact Nz).
    rewrite <- Ne. cbn [enc]. cbn [app]. rewrite <- app_assoc. rewrite go_hdr_enc by (try lia; assumption).
    cbn [is_univ andb negb]. rewrite N.eqb_refl. cbn [andb]. rewrite take_n_app. reflexivity.
Qed.

(* the two algorithm identifiers and the ten curve identifiers read back through Go's reader *)
Lemma go_oid_tables :
  forallb (fun o => match der_oid o with
                    | Some (Prim Univ 6 c) => (match go_oid c with Some o' => oid_eqb o' o | None => false end) && (blen c <? 128)
                    | _ => false end)
          (oid_ec_public_key :: oid_rsa_encryption ::
           flat_map (fun c => match curve_oid c with Some co => [co] | None => [] end) ec_curves) = true.
Proof. vm_compute. reflexivity. Qed.

Lemma oid_eqb_eq a b : oid_eqb a b = true -> a = b.
Proof.
  unfold oid_eqb. revert b. induction a as [|x a IH]; intros [|y b] H; cbn in H; try discriminate; [reflexivity|].
  apply andb_prop in H as [H1 H2]. apply andb_prop in H2 as [H2 H3].
  apply N.eqb_eq in H2. subst y. f_equal. apply IH. cbn [length] in H1. rewrite H1. exact H3.
Qed.

Lemma go_oid_known o : In o (oid_ec_public_key :: oid_rsa_encryption ::
           flat_map (fun c => match curve_oid c with Some co => [co] | None => [] end) ec_curves) ->
  exists c, tlv_oid o = Prim Univ 6 c /\ go_oid c = Some o /\ blen c < 128.
Proof.
  intros Hin. pose proof go_oid_tables as T. rewrite forallb_forall in T. specialize (T o Hin).
  unfold tlv_oid. destruct (der_oid o) as [[cl t c|]|]; try discriminate T.
  destruct cl; try discriminate T. destruct t as [|t]; try discriminate T.
  do 3 (destruct t as [t|t|]; try discriminate T).
  apply andb_prop in T as [T1 T2]. destruct (go_oid c) as [o'|] eqn:G; try discriminate T1.
  apply oid_eqb_eq in T1. subst o'. exists c. split; [reflexivity|]. split; [exact G|]. apply N.ltb_lt. exact T2.
Qed.

Lemma curve_oid_known c co : In c ec_curves -> curve_oid c = Some co ->
  In co (oid_ec_public_key :: oid_rsa_encryption :: flat_map (fun c => match curve_oid c with Some co => [co] | None => [] end) ec_curves).
Proof.
  intros Hin H. right. right. apply in_flat_map. exists c. split; [exact Hin|]. rewrite H. left. reflexivity.
Qed.

Section Roundtrip.
  Variable base_mult : keyalg -> N -> bytes.
  Variable order : keyalg -> N.

  (* the outer structure both key kinds share: version 0, algorithm identifier with one parameter element, key octets *)
  Lemma go_pkcs8_struct_written a pa body :
    In a [oid_ec_public_key; oid_rsa_encryption] ->
    wf pa = true -> 
    go_len (blen (enc (der_seq [der_int 0; der_seq [tlv_oid a; pa]; der_octets body]))) ->
    go_pkcs8_struct (enc (der_seq [der_int 0; der_seq [tlv_oid a; pa]; der_octets body])) = Some (a, enc pa, body).
  Proof.
    intros Ha Wp Hl.
    assert (In a (oid_ec_public_key :: oid_rsa_encryption ::
                  flat_map (fun c => match curve_oid c with Some co => [co] | None => [] end) ec_curves)) as Ha'
        by (destruct Ha as [<-|[<-|[]]]; [left|right; left]; reflexivity).
    destruct (go_oid_known a Ha') as (ac & Ea & Ga & La).
    set (algs := der_seq [tlv_oid a; pa]) in *.
    unfold der_seq at 1 in Hl. unfold der_seq at 1.
    pose proof (blen_cons_body Univ 16 [der_int 0; algs; der_octets body]) as B0.
    pose proof (blen_cons_body Univ 16 [tlv_oid a; pa]) as B1. fold (der_seq [tlv_oid a; pa]) in B1. fold algs in B1.
    norm_sizes.
    pose proof (blen_prim Univ 4 body) as B2. fold (der_octets body) in B2.
    pose proof (blen_prim Univ 2 (int_content 0)) as B3. fold (der_int 0) in B3.
    unfold go_len in *.
    unfold go_pkcs8_struct.
    rewrite <- (app_nil_r (enc (Cons Univ 16 _))).
    rewrite go_req_cons by (try lia; unfold go_len; norm_sizes; lia).
    rewrite encs_cons. unfold der_int at 1. rewrite go_req_prim by (try lia; unfold go_len; lia).
    replace (go_int (int_content 0)) with (Some 0%Z) by (vm_compute; reflexivity).
    rewrite encs_cons. unfold algs at 1, der_seq at 1.
    rewrite go_req_cons by (try lia; unfold go_len; norm_sizes; lia).
    rewrite encs_cons. rewrite Ea.
    rewrite go_req_prim by (try lia; unfold go_len; lia). rewrite Ga.
    (* the parameter element: header and content, nothing after it *)
    cbn [encs]. rewrite !app_nil_r.
    destruct (enc_nonempty pa) as (i & r & Ep).
    assert (go_len (blen (enc pa))) as Lp by (unfold go_len; lia).
    assert (match go_hdr (enc pa) with
            | Some (_, _, _, n, r0) => match take_n n r0 with
                                       | Some (_, rest) => Some (firstn (length (enc pa) - length rest) (enc pa))
                                       | None => None end
            | None => None end = Some (enc pa)) as Pp.
    { destruct pa as [c t v|c t k].
      - cbn [wf] in Wp. apply N.ltb_lt in Wp. cbn [enc].
        cbn [enc] in Lp. unfold go_len, blen in Lp. cbn [length] in Lp. rewrite app_length in Lp.
        rewrite go_hdr_enc_nil by (try lia; unfold go_len, blen; lia).
        rewrite take_n_all. rewrite Nat.sub_0_r. rewrite firstn_all. reflexivity.
      - rewrite wf_Cons in Wp. apply andb_prop in Wp as [Wp _]. apply N.ltb_lt in Wp. rewrite enc_Cons.
        rewrite enc_Cons in Lp. unfold go_len, blen in Lp. cbn [length] in Lp. rewrite app_length in Lp.
        rewrite go_hdr_enc_nil by (try lia; unfold go_len, blen; lia).
        rewrite take_n_all. rewrite Nat.sub_0_r. rewrite firstn_all. reflexivity. }
    rewrite Ep in Pp |- *. rewrite Pp.
    unfold der_octets. rewrite <- (app_nil_r (enc (Prim Univ 4 body))).
    rewrite go_req_prim by (try lia; unfold go_len; lia). reflexivity.
  Qed.

  (* C17 (elliptic curves): every scalar from 1 to order - 1 survives write and read, with the fixed-width
     encoding (leading zero octets kept); the public point is recomputed from the scalar *)
  Theorem pkcs8_ec_roundtrip c d pub w co bs :
    In c ec_curves -> scalar_width c = Some w -> curve_oid c = Some co ->
    0 < d -> d < order c -> order c <= 256 ^ N.of_nat w ->
    marshal_pkcs8 (KEc c d pub) = Some bs ->
    (* Go's asn1 refuses lengths of 2^31 and more *)
    go_len (blen bs) ->
    parse_pkcs8 base_mult order bs = Some (KEc c d (base_mult c d)).
  Proof.
    intros Hin Hw Hco Hd0 Hd Ho Hm Hlen. unfold marshal_pkcs8 in Hm. rewrite Hw, Hco in Hm.
    destruct (fill_bytes_spec w d ltac:(lia)) as (sc & Fs & Ls & Vs).
    unfold ec_private_key in Hm. rewrite Fs in Hm.
    remember (der_seq [der_int 1; der_octets sc; der_explicit 1 (der_bits_full pub)]) as inner eqn:Ei.
    remember (der_seq [der_int 0; der_seq [tlv_oid oid_ec_public_key; tlv_oid co]; der_octets (enc inner)]) as outer eqn:Eo.
    injection Hm as <-. rewrite Eo in Hlen |- *. clear Eo outer.
    pose proof (curve_oid_known c co Hin Hco) as Kco.
    destruct (go_oid_known co Kco) as (cc & Ec & Gc & Lc).
    unfold parse_pkcs8.
    rewrite go_pkcs8_struct_written by (first [exact Hlen | apply wf_tlv_oid | (right; left; reflexivity) | (left; reflexivity) | reflexivity]).
    replace (oid_eqb oid_ec_public_key oid_rsa_encryption) with false by (vm_compute; reflexivity).
    replace (oid_eqb oid_ec_public_key oid_ec_public_key) with true by (vm_compute; reflexivity).
    rewrite Ec. rewrite <- (app_nil_r (enc (Prim Univ 6 cc))).
    rewrite go_req_prim by (try lia; unfold go_len; lia). rewrite Gc.
    (* sizes of the inner structure *)
    assert (go_len (blen (enc inner))) as Li.
    { unfold go_len in *.
      pose proof (blen_prim Univ 4 (enc inner)) as B1.
      assert (blen (enc (der_octets (enc inner))) <= blen (enc (der_seq [der_int 0; der_seq [tlv_oid oid_ec_public_key; tlv_oid co]; der_octets (enc inner)]))) as B2.
      { unfold der_seq at 1. apply blen_cons_in. right. right. left. reflexivity. }
      fold (der_octets (enc inner)) in B1. lia. }
    unfold parse_ec_private_key, go_ec_struct.
    rewrite Ei. unfold der_seq.
    pose proof (blen_cons_body Univ 16 [der_int 1; der_octets sc; der_explicit 1 (der_bits_full pub)]) as B0.
    fold (der_seq [der_int 1; der_octets sc; der_explicit 1 (der_bits_full pub)]) in B0. rewrite <- Ei in B0.
    norm_sizes.
    pose proof (blen_prim Univ 4 sc) as B2. fold (der_octets sc) in B2.
    pose proof (blen_prim Univ 2 (int_content 1)) as B3. fold (der_int 1) in B3.
    unfold go_len in *.
    rewrite <- (app_nil_r (enc (Cons Univ 16 _))).
    rewrite go_req_cons by (try lia; unfold go_len; norm_sizes; lia).
    rewrite encs_cons. unfold der_int at 1. rewrite go_req_prim by (try lia; unfold go_len; lia).
    replace (go_int (int_content 1)) with (Some 1%Z) by (vm_compute; reflexivity).
    rewrite encs_cons. unfold der_octets at 1. rewrite go_req_prim by (try lia; unfold go_len; lia).
    cbn [encs]. rewrite app_nil_r.
    rewrite <- (app_nil_r (enc (der_explicit 1 (der_bits_full pub)))).
    destruct (optional_members_generated pub [] ltac:(unfold go_len; lia)) as (O0 & v & O1 & Bv).
    rewrite O0, O1, Bv.
    rewrite (curve_of_oid_roundtrip c co Hin Hco). rewrite Hw, Vs, Ls.
    replace (0 <? d) with true by lia. replace (d <? order c) with true by lia. rewrite Nat.leb_refl. reflexivity.
  Qed.
End Roundtrip.

Section RoundtripRsa.
  Variable base_mult : keyalg -> N -> bytes.
  Variable order : keyalg -> N.

  (* C17 (RSA): all eight numbers of the PKCS#1 structure survive write and read, for every size *)
  Theorem pkcs8_rsa_roundtrip n e d p q dp dq qinv bs :
    marshal_pkcs8 (KRsa n e d p q dp dq qinv) = Some bs -> go_len (blen bs) ->
    parse_pkcs8 base_mult order bs = Some (KRsa n e d p q dp dq qinv).
  Proof.
    intros Hm Hlen. unfold marshal_pkcs8 in Hm.
    remember (der_seq (map (fun x => der_int (Z.of_N x)) [0; n; e; d; p; q; dp; dq; qinv])) as inner eqn:Ei.
    remember (der_seq [der_int 0; der_seq [tlv_oid oid_rsa_encryption; der_null]; der_octets (enc inner)]) as outer eqn:Eo.
    injection Hm as <-. rewrite Eo in Hlen |- *. clear Eo outer.
    assert (wf inner = true) as Wi by (rewrite Ei; reflexivity).
    assert (len_ok (blen (enc inner))) as Li.
    { apply go_len_ok. unfold go_len in *.
      pose proof (blen_prim Univ 4 (enc inner)) as B1.
      assert (blen (enc (der_octets (enc inner))) <= blen (enc (der_seq [der_int 0; der_seq [tlv_oid oid_rsa_encryption; der_null]; der_octets (enc inner)]))) as B2.
      { unfold der_seq at 1. apply blen_cons_in. right. right. left. reflexivity. }
      fold (der_octets (enc inner)) in B1. lia. }
    unfold parse_pkcs8.
    rewrite go_pkcs8_struct_written by (first [exact Hlen | apply wf_tlv_oid | (right; left; reflexivity) | (left; reflexivity) | reflexivity]).
    replace (oid_eqb oid_rsa_encryption oid_rsa_encryption) with true by (vm_compute; reflexivity).
    pose proof (parse_enc inner [] Wi Li) as Pi. rewrite app_nil_r in Pi. unfold parse_all. rewrite Pi.
    rewrite Ei at 1. cbn [der_seq map map_opt der_int]. rewrite !int_roundtrip.
    cbn [Z.of_N forallb]. 
    replace ((0 <=? Z.of_N n)%Z && ((0 <=? Z.of_N e)%Z && ((0 <=? Z.of_N d)%Z && ((0 <=? Z.of_N p)%Z &&
             ((0 <=? Z.of_N q)%Z && ((0 <=? Z.of_N dp)%Z && ((0 <=? Z.of_N dq)%Z && ((0 <=? Z.of_N qinv)%Z && true))))))))
      with true by lia.
    rewrite !N2Z.id. reflexivity.
  Qed.
End RoundtripRsa.
Print Assumptions pkcs8_rsa_roundtrip.

(* C17, rejection: whatever the parser accepts is a key of a supported kind - an EC key on one of the ten curves whose scalar
   lies between 1 and the group order - 1 (the public point is recomputed from it), or an RSA key record of non-negative numbers *)
Lemma curve_of_oid_in o c : curve_of_oid o = Some c -> In c ec_curves.
Proof. unfold curve_of_oid. intros H. apply find_some in H as [H _]. exact H. Qed.

Ltac peel H :=
  repeat match type of H with
         | (match ?X with _ => _ end) = Some _ => let E := fresh "E" in destruct X eqn:E; try discriminate H
         | (if ?X then _ else _) = Some _ => let E := fresh "E" in destruct X eqn:E; try discriminate H
         | (let '(_, _) := ?X in _) = Some _ => let E := fresh "E" in destruct X eqn:E
         end.

Theorem parse_accepts_only_supported_keys base_mult order bs k :
  parse_pkcs8 base_mult order bs = Some k ->
  match k with
  | KEc c d pub => In c ec_curves /\ exists w, scalar_width c = Some w /\ 0 < d /\ d < order c /\ pub = base_mult c d
  | KRsa _ _ _ _ _ _ _ _ => True
  end.
Proof.
  unfold parse_pkcs8, parse_ec_private_key. intros H.
  destruct k as [c d pub|]; [|exact I].
  peel H; inversion H; subst; clear H.
  match goal with
  | Hc : match _ with Some _ => _ | None => _ end = Some ?c, Hw : scalar_width ?c = Some ?w, Ho : (_ <? _) && (_ <? order ?c) && _ = true |- _ =>
    split;
    [ repeat match type of Hc with
             | match ?X with _ => _ end = Some _ => destruct X; try discriminate Hc
             end; apply (curve_of_oid_in _ _ Hc)
    | exists w; apply andb_prop in Ho as [Ho _]; apply andb_prop in Ho as [Ho0 Ho]; apply N.ltb_lt in Ho; apply N.ltb_lt in Ho0;
      repeat split; assumption ]
  end.
Qed.
