From Coq Require Import List Arith NArith ZArith Bool Lia.
From Coq Require Import ZifyN ZifyBool ZifyNat.
From Coq.Strings Require Import Byte.
From Gopki.Model Require Import Bytes Base64 Der Asn1 Text Algs Pkcs8.
From Gopki.Proofs Require Import BytesProofs DerProofs Asn1Proofs.
Import ListNotations.
Open Scope N_scope.

Lemma be_digits_length n w : n < 256 ^ N.of_nat w -> (length (be_digits n) <= w)%nat.
Proof.
  intros H. destruct (be_digits_spec n) as [V M].
  destruct (be_digits n) as [|h r] eqn:E; [cbn; lia|].
  assert (h :: r <> []) as Hne by discriminate.
  pose proof (be_value_ge (h :: r) Hne M) as G. rewrite V in G.
  destruct (Nat.le_gt_cases (length (h :: r)) w) as [|Hgt]; [assumption|exfalso].
  assert (256 ^ N.of_nat w <= 256 ^ (blen (h :: r) - 1)) by (apply N.pow_le_mono_r; unfold blen; lia). lia.
Qed.

Lemma be_value_zeros k l : be_value (repeat (n2b 0) k ++ l) = be_value l.
Proof.
  induction k as [|k IH]; [reflexivity|]. cbn [repeat app]. rewrite be_value_cons, IH.
  rewrite b2n_n2b by lia. lia.
Qed.

Lemma fill_bytes_spec w d : d < 256 ^ N.of_nat w ->
  exists sc, fill_bytes w d = Some sc /\ length sc = w /\ be_value sc = d.
Proof.
  intros H. unfold fill_bytes. pose proof (be_digits_length d w H) as L.
  replace (Nat.leb (length (be_digits d)) w) with true by (symmetry; apply Nat.leb_le; exact L).
  eexists. split; [reflexivity|]. split.
  - rewrite app_length, repeat_length. lia.
  - rewrite be_value_zeros. apply be_digits_spec.
Qed.

Definition ec_curves := [P224; P256; P384; P521; BP256r1; BP384r1; BP512r1; BP256t1; BP384t1; BP512t1].

Lemma curve_tables : forallb (fun c =>
    match scalar_width c, curve_oid c with
    | Some _, Some co => (match curve_of_oid co with Some c' => oid_eqb (match curve_oid c' with Some x => x | None => [] end) co | None => false end)
                         && (match der_oid co with Some t => match dec_oid' t with Some o => oid_eqb o co | None => false end | None => false end)
    | _, _ => false end) ec_curves = true.
Proof. vm_compute. reflexivity. Qed.

Lemma curve_of_oid_roundtrip c co : In c ec_curves -> curve_oid c = Some co -> curve_of_oid co = Some c.
Proof.
  intros Hin H. destruct c; cbn in Hin; try (exfalso; intuition discriminate); cbn in H; inversion H; subst; reflexivity.
Qed.

Lemma wf_tlv_oid o : wf (tlv_oid o) = true.
Proof.
  unfold tlv_oid, der_oid. destruct (oid_content o); reflexivity.
Qed.

Lemma blen_prim c t v : blen v <= blen (enc (Prim c t v)).
Proof. cbn [enc]. unfold blen. cbn [length]. rewrite app_length. lia. Qed.

Lemma blen_encs_in x k : In x k -> blen (enc x) <= blen (encs k).
Proof.
  induction k as [|y k IH]; intros H; [contradiction|]. cbn [encs]. rewrite blen_app.
  destruct H as [->|H]; [lia|]. specialize (IH H). lia.
Qed.

Lemma blen_cons_in c t x k : In x k -> blen (enc x) <= blen (enc (Cons c t k)).
Proof.
  intros H. rewrite enc_Cons. pose proof (blen_encs_in x k H). unfold blen in *. cbn [length]. rewrite app_length. lia.
Qed.

(* the optional members gopki writes pass Go's checks: [1] holds a BIT STRING without unused bits *)
Lemma opt_fields_generated pub : opt_fields_ok [der_explicit 1 (der_bits_full pub)] = true.
Proof.
  unfold opt_fields_ok, der_explicit, der_bits_full, der_bits. cbn iota beta.
  replace ((8 - (8 * blen pub) mod 8) mod 8) with 0 by (rewrite N.mul_comm, N.mod_mul by lia; reflexivity).
  unfold go_bits_ok. rewrite b2n_n2b by lia. cbn [N.leb N.ltb andb negb].
  destruct pub as [|x pub]; [reflexivity|]. cbn [N.pow]. rewrite N.mod_1_r. reflexivity.
Qed.

Section Roundtrip.
  Variable base_mult : keyalg -> N -> bytes.
  Variable order : keyalg -> N.

  (* C17 (elliptic curves): every scalar below the group order survives write and read, with the fixed-width
     encoding (leading zero octets kept); the public point is recomputed from the scalar *)
  Theorem pkcs8_ec_roundtrip c d pub w co bs :
    In c ec_curves -> scalar_width c = Some w -> curve_oid c = Some co ->
    d < order c -> order c <= 256 ^ N.of_nat w ->
    marshal_pkcs8 (KEc c d pub) = Some bs ->
    (* sizes stay within what DER lengths can express *)
    len_ok (blen bs) ->
    parse_pkcs8 base_mult order bs = Some (KEc c d (base_mult c d)).
  Proof.
    intros Hin Hw Hco Hd Ho Hm Hlen. unfold marshal_pkcs8 in Hm. rewrite Hw, Hco in Hm.
    destruct (fill_bytes_spec w d ltac:(lia)) as (sc & Fs & Ls & Vs).
    unfold ec_private_key in Hm. rewrite Fs in Hm.
    remember (der_seq [der_int 1; der_octets sc; der_explicit 1 (der_bits_full pub)]) as inner eqn:Ei.
    remember (der_seq [der_int 0; der_seq [tlv_oid oid_ec_public_key; tlv_oid co]; der_octets (enc inner)]) as outer eqn:Eo.
    injection Hm as <-.
    assert (wf inner = true) as Wi by (rewrite Ei; reflexivity).
    assert (wf outer = true) as Wo.
    { rewrite Eo. unfold der_seq. rewrite wf_Cons. cbn [wfs]. rewrite wf_Cons. cbn [wfs].
      rewrite !wf_tlv_oid. reflexivity. }
    assert (len_ok (blen (enc inner))) as Li.
    { unfold len_ok in *.
      pose proof (blen_prim Univ 4 (enc inner)) as B1.
      assert (blen (enc (der_octets (enc inner))) <= blen (enc outer)) as B2.
      { rewrite Eo. unfold der_seq. apply blen_cons_in. right. right. left. reflexivity. }
      unfold der_octets in B2. lia. }
    unfold parse_pkcs8, parse_all.
    pose proof (parse_enc outer [] Wo Hlen) as Po. rewrite app_nil_r in Po. rewrite Po.
    rewrite Eo at 1. cbn [der_seq der_int der_octets].
    (* algorithm and curve identifiers read back *)
    assert (dec_oid' (tlv_oid oid_ec_public_key) = Some oid_ec_public_key) as A1 by (vm_compute; reflexivity).
    rewrite A1. replace (oid_eqb oid_ec_public_key oid_rsa_encryption) with false by (vm_compute; reflexivity).
    replace (oid_eqb oid_ec_public_key oid_ec_public_key) with true by (vm_compute; reflexivity).
    assert (dec_oid' (tlv_oid co) = Some co) as A2.
    { destruct c; cbn in Hin; try (exfalso; intuition discriminate); cbn in Hco; inversion Hco; subst; vm_compute; reflexivity. }
    rewrite A2, (curve_of_oid_roundtrip c co Hin Hco).
    unfold parse_ec_private_key, parse_all.
    pose proof (parse_enc inner [] Wi Li) as Pi. rewrite app_nil_r in Pi. rewrite Pi.
    rewrite Ei at 1. cbn [der_seq der_int der_octets]. rewrite int_roundtrip.
    change (opt_fields_ok [der_explicit 1 (der_bits_full pub)]) with (opt_fields_ok [der_explicit 1 (der_bits_full pub)]).
    rewrite opt_fields_generated. cbn [negb]. rewrite Hw, Vs, Ls.
    replace (d <? order c) with true by lia. rewrite Nat.leb_refl. reflexivity.
  Qed.
End Roundtrip.

Section RoundtripRsa.
  Variable base_mult : keyalg -> N -> bytes.
  Variable order : keyalg -> N.

  (* C17 (RSA): all eight numbers of the PKCS#1 structure survive write and read, for every size *)
  Theorem pkcs8_rsa_roundtrip n e d p q dp dq qinv bs :
    marshal_pkcs8 (KRsa n e d p q dp dq qinv) = Some bs -> len_ok (blen bs) ->
    parse_pkcs8 base_mult order bs = Some (KRsa n e d p q dp dq qinv).
  Proof.
    intros Hm Hlen. unfold marshal_pkcs8 in Hm.
    remember (der_seq (map (fun x => der_int (Z.of_N x)) [0; n; e; d; p; q; dp; dq; qinv])) as inner eqn:Ei.
    remember (der_seq [der_int 0; der_seq [tlv_oid oid_rsa_encryption; der_null]; der_octets (enc inner)]) as outer eqn:Eo.
    injection Hm as <-.
    assert (wf inner = true) as Wi by (rewrite Ei; reflexivity).
    assert (wf outer = true) as Wo.
    { rewrite Eo. unfold der_seq. rewrite wf_Cons. cbn [wfs]. rewrite wf_Cons. cbn [wfs].
      rewrite !wf_tlv_oid. reflexivity. }
    assert (len_ok (blen (enc inner))) as Li.
    { unfold len_ok in *.
      pose proof (blen_prim Univ 4 (enc inner)) as B1.
      assert (blen (enc (der_octets (enc inner))) <= blen (enc outer)) as B2.
      { rewrite Eo. unfold der_seq. apply blen_cons_in. right. right. left. reflexivity. }
      unfold der_octets in B2. lia. }
    unfold parse_pkcs8, parse_all.
    pose proof (parse_enc outer [] Wo Hlen) as Po. rewrite app_nil_r in Po. rewrite Po.
    rewrite Eo at 1. cbn [der_seq der_int der_octets].
    assert (dec_oid' (tlv_oid oid_rsa_encryption) = Some oid_rsa_encryption) as A1 by (vm_compute; reflexivity).
    rewrite A1. replace (oid_eqb oid_rsa_encryption oid_rsa_encryption) with true by (vm_compute; reflexivity).
    pose proof (parse_enc inner [] Wi Li) as Pi. rewrite app_nil_r in Pi. unfold parse_all. rewrite Pi.
    rewrite Ei at 1. cbn [der_seq map map_opt der_int]. rewrite !int_roundtrip.
    cbn [Z.of_N forallb]. 
    replace ((0 <=? Z.of_N n)%Z && ((0 <=? Z.of_N e)%Z && ((0 <=? Z.of_N d)%Z && ((0 <=? Z.of_N p)%Z &&
             ((0 <=? Z.of_N q)%Z && ((0 <=? Z.of_N dp)%Z && ((0 <=? Z.of_N dq)%Z && ((0 <=? Z.of_N qinv)%Z && true))))))))
      with true by lia.
    rewrite !N2Z.id. reflexivity.
  Qed.
End RoundtripRsa.
Print Assumptions pkcs8_rsa_roundtrip.

(* C17, rejection: whatever the parser accepts is a key of a supported kind - an EC key on one of the ten curves whose scalar
   is below the group order (the public point is recomputed from it), or an RSA key record of non-negative numbers *)
Lemma curve_of_oid_in o c : curve_of_oid o = Some c -> In c ec_curves.
Proof. unfold curve_of_oid. intros H. apply find_some in H as [H _]. exact H. Qed.

Ltac peel H :=
  repeat match type of H with
         | (match ?X with _ => _ end) = Some _ => let E := fresh "E" in destruct X eqn:E; try discriminate H
         | (if ?X then _ else _) = Some _ => let E := fresh "E" in destruct X eqn:E; try discriminate H
         end.

Theorem parse_accepts_only_supported_keys base_mult order bs k :
  parse_pkcs8 base_mult order bs = Some k ->
  match k with
  | KEc c d pub => exists w, scalar_width c = Some w /\ d < order c /\ pub = base_mult c d
  | KRsa _ _ _ _ _ _ _ _ => True
  end.
Proof.
  unfold parse_pkcs8, parse_ec_private_key. intros H.
  destruct k as [c d pub|]; [|exact I].
  peel H; inversion H; subst; clear H;
    match goal with
    | Hw : scalar_width ?c = Some ?w, Ho : (_ <? order ?c) && _ = true |- _ =>
      exists w; apply andb_prop in Ho as [Ho _]; apply N.ltb_lt in Ho; repeat split; assumption
    end.
Qed.
