From Coq Require Import List Arith Bool Lia.
From Gopki.Model Require Import Dir Plan.
From Gopki.Spec Require Import RegenSpec.
Import ListNotations.

(* ------------------------------------------------------------ lookup facts *)
Lemma find_ent_some es a e : find_ent es a = Some e -> In e es /\ e_alias e = a.
Proof.
  unfold find_ent. intros H. apply find_some in H as [H1 H2].
  apply Nat.eqb_eq in H2. auto.
Qed.

Lemma find_ent_in es e : wf_dir es -> In e es -> find_ent es (e_alias e) = Some e.
Proof.
  unfold wf_dir, find_ent. induction es as [|x es IH]; intros Hnd Hin; [contradiction|].
  cbn in Hnd. inversion Hnd as [|? ? Hx Hnd']; subst.
  cbn [find]. destruct Hin as [->|Hin].
  - rewrite Nat.eqb_refl. reflexivity.
  - destruct (Nat.eqb (e_alias x) (e_alias e)) eqn:E.
    + apply Nat.eqb_eq in E. exfalso. apply Hx. rewrite E. apply in_map. exact Hin.
    + apply IH; assumption.
Qed.

Lemma alias_inj es e1 e2 : wf_dir es -> In e1 es -> In e2 es -> e_alias e1 = e_alias e2 -> e1 = e2.
Proof.
  intros W H1 H2 E. pose proof (find_ent_in es e1 W H1) as F1.
  pose proof (find_ent_in es e2 W H2) as F2. rewrite E in F1. congruence.
Qed.

Lemma in_roots es a : In a (roots es) <-> exists e, In e es /\ e_alias e = a /\ issuer_of e = None.
Proof.
  unfold roots. rewrite in_map_iff. split.
  - intros (e & E & H). apply filter_In in H as [H1 H2]. exists e. repeat split; auto.
    destruct (issuer_of e); [discriminate|reflexivity].
  - intros (e & H1 & H2 & H3). exists e. split; [assumption|]. apply filter_In. split; [assumption|].
    rewrite H3. reflexivity.
Qed.

Lemma in_children es p c : In c (children es p) <-> exists e, In e es /\ e_alias e = c /\ issuer_of e = Some p.
Proof.
  unfold children. rewrite in_map_iff. split.
  - intros (e & E & H). apply filter_In in H as [H1 H2]. exists e. repeat split; auto.
    destruct (issuer_of e) as [q|]; [|discriminate]. apply Nat.eqb_eq in H2. subst. reflexivity.
  - intros (e & H1 & H2 & H3). exists e. split; [assumption|]. apply filter_In. split; [assumption|].
    rewrite H3. apply Nat.eqb_refl.
Qed.

Lemma NoDup_map_filter {A B} (f : A -> B) (p : A -> bool) l : NoDup (map f l) -> NoDup (map f (filter p l)).
Proof.
  induction l as [|x l IH]; intros H; cbn; [constructor|].
  cbn in H. inversion H as [|? ? Hx Hl]; subst.
  destruct (p x); cbn; [constructor|]; auto.
  intros Hin. apply Hx. apply in_map_iff in Hin as (y & E & Hy). apply filter_In in Hy as [Hy _].
  rewrite <- E. apply in_map. exact Hy.
Qed.

Lemma NoDup_app_intro {A} (a b : list A) :
  NoDup a -> NoDup b -> (forall x, In x b -> ~ In x a) -> NoDup (a ++ b).
Proof.
  induction a as [|x a IH]; intros Ha Hb Hd; cbn; [exact Hb|].
  inversion Ha as [|? ? Hx Ha']; subst. constructor.
  - intros Hin. apply in_app_or in Hin as [Hin|Hin]; [auto|]. apply (Hd x Hin). left. reflexivity.
  - apply IH; auto. intros y Hy Hya. apply (Hd y Hy). right. exact Hya.
Qed.

Lemma NoDup_app_l {A} (a b : list A) : NoDup (a ++ b) -> NoDup a.
Proof.
  induction a as [|x a IH]; intros H; [constructor|].
  cbn in H. inversion H as [|? ? Hx H']; subst. constructor.
  - intros Hin. apply Hx. apply in_or_app. left. exact Hin.
  - apply IH. exact H'.
Qed.

Lemma NoDup_roots es : wf_dir es -> NoDup (roots es).
Proof. intros W. apply NoDup_map_filter. exact W. Qed.
Lemma NoDup_children es p : wf_dir es -> NoDup (children es p).
Proof. intros W. apply NoDup_map_filter. exact W. Qed.

(* ------------------------------------------------------------ the traversal *)
Fixpoint bfs_order (fuel : nat) (es : list ent) (queue : list alias) : option (list alias) :=
  match fuel with
  | O => None
  | S f => match queue with
           | [] => Some []
           | a :: q => option_map (cons a) (bfs_order f es (q ++ children es a))
           end
  end.

Lemma count_loop_bfs fuel es : forall q n,
  count_loop fuel es q n = option_map (fun l => n + length l) (bfs_order fuel es q).
Proof.
  induction fuel as [|f IH]; intros q n; [reflexivity|].
  cbn [count_loop bfs_order]. destruct q as [|a q]; [cbn; f_equal; lia|].
  rewrite IH. destruct (bfs_order f es (q ++ children es a)); cbn; [f_equal; lia|reflexivity].
Qed.

(* invariant of the queue loop: P = processed, q = queue *)
Definition binv (es : list ent) (P q : list alias) : Prop :=
  NoDup (P ++ q) /\
  (forall c, In c (P ++ q) -> exists e, find_ent es c = Some e /\ (forall p, issuer_of e = Some p -> In p P)) /\
  (forall p, In p P -> incl (children es p) (P ++ q)).

Lemma binv_init es : wf_dir es -> binv es [] (roots es).
Proof.
  intros W. split; [|split].
  - cbn. apply NoDup_roots. exact W.
  - cbn. intros c Hc. apply in_roots in Hc as (e & H1 & H2 & H3). exists e. split.
    + rewrite <- H2. apply find_ent_in; assumption.
    + intros p Hp. congruence.
  - intros p [].
Qed.

Lemma binv_step es P a q : wf_dir es -> binv es P (a :: q) -> binv es (P ++ [a]) (q ++ children es a).
Proof.
  intros W (N & M & C).
  assert (forall c, In c (children es a) -> ~ In c (P ++ a :: q)) as Hfresh.
  { intros c Hc Hin. apply in_children in Hc as (e & He1 & He2 & He3).
    destruct (M c Hin) as (e' & Fe & Hiss).
    apply find_ent_some in Fe as [Fe1 Fe2].
    assert (e' = e) by (apply (alias_inj es); auto; congruence). subst e'.
    specialize (Hiss a He3).
    apply NoDup_remove_2 in N. apply N. apply in_or_app. left. exact Hiss. }
  split; [|split].
  - rewrite <- app_assoc. cbn [app].
    assert (NoDup ((P ++ a :: q) ++ children es a)) as N2.
    { apply NoDup_app_intro; auto. apply NoDup_children; exact W. }
    revert N2. rewrite <- !app_assoc. cbn [app]. auto.
  - intros c Hc. rewrite <- app_assoc in Hc. cbn [app] in Hc.
    assert (In c (P ++ a :: q) \/ In c (children es a)) as [H|H].
    { apply in_app_or in Hc as [H|H]; [left; apply in_or_app; left; exact H|].
      cbn in H. destruct H as [->|H]; [left; apply in_or_app; right; left; reflexivity|].
      apply in_app_or in H as [H|H]; [left; apply in_or_app; right; right; exact H|right; exact H]. }
    + destruct (M c H) as (e & Fe & Hiss). exists e. split; [exact Fe|].
      intros p Hp. apply in_or_app. left. apply Hiss. exact Hp.
    + apply in_children in H as (e & He1 & He2 & He3). exists e. split.
      * rewrite <- He2. apply find_ent_in; assumption.
      * intros p Hp. assert (p = a) by congruence. subst. apply in_or_app. right. left. reflexivity.
  - intros p Hp c Hc. rewrite <- app_assoc. cbn [app].
    apply in_app_or in Hp as [Hp|[<-|[]]].
    + specialize (C p Hp c Hc). apply in_app_or in C as [C|C]; [apply in_or_app; left; exact C|].
      apply in_or_app. right. cbn in C. destruct C as [->|C]; [left; reflexivity|].
      right. apply in_or_app. left. exact C.
    + apply in_or_app. right. right. apply in_or_app. right. exact Hc.
Qed.

(* each element's issuer (if any) occurs earlier *)
Inductive ordered (es : list ent) : list alias -> list alias -> Prop :=
| ord_nil P : ordered es P []
| ord_cons P c l e :
    find_ent es c = Some e -> (forall p, issuer_of e = Some p -> In p P) ->
    ordered es (P ++ [c]) l -> ordered es P (c :: l).

Lemma bfs_inv es : wf_dir es -> forall fuel P q l,
  binv es P q -> bfs_order fuel es q = Some l -> ordered es P l /\ binv es (P ++ l) [].
Proof.
  intros W. induction fuel as [|f IH]; intros P q l B H; [discriminate|].
  cbn [bfs_order] in H. destruct q as [|a q].
  - inversion H; subst. split; [constructor|]. rewrite app_nil_r. exact B.
  - destruct (bfs_order f es (q ++ children es a)) as [l'|] eqn:E; [|discriminate].
    cbn in H. inversion H; subst.
    pose proof (binv_step es P a q W B) as B'.
    destruct (IH _ _ _ B' E) as [O B2].
    split.
    + destruct B as (_ & M & _).
      destruct (M a) as (e & Fe & Hiss); [apply in_or_app; right; left; reflexivity|].
      econstructor; eauto.
    + rewrite <- app_assoc in B2. exact B2.
Qed.

Lemma bfs_queue_incl es : forall fuel q l, bfs_order fuel es q = Some l -> incl q l.
Proof.
  induction fuel as [|f IH]; intros q l H; [discriminate|].
  cbn [bfs_order] in H. destruct q as [|a q]; [intros x []|].
  destruct (bfs_order f es (q ++ children es a)) as [l'|] eqn:E; [|discriminate].
  cbn in H. inversion H; subst. intros x [<-|Hx]; [left; reflexivity|].
  right. apply (IH _ _ E). apply in_or_app. left. exact Hx.
Qed.

Lemma binv_aliases es P q c : binv es P q -> In c (P ++ q) -> In c (map e_alias es).
Proof.
  intros (_ & M & _) H. destruct (M c H) as (e & Fe & _).
  apply find_ent_some in Fe as [F1 F2]. rewrite <- F2. apply in_map. exact F1.
Qed.

Lemma bfs_fuel es : wf_dir es -> forall fuel P q,
  binv es P q -> length es < length P + fuel -> exists l, bfs_order fuel es q = Some l.
Proof.
  intros W. induction fuel as [|f IH]; intros P q B Hf.
  - exfalso.
    assert (length P <= length (map e_alias es)) as Hle.
    { apply NoDup_incl_length.
      - destruct B as (N & _). apply NoDup_app_l in N. exact N.
      - intros c Hc. apply (binv_aliases es P q); [exact B|apply in_or_app; left; exact Hc]. }
    rewrite map_length in Hle. lia.
  - cbn [bfs_order]. destruct q as [|a q]; [eauto|].
    destruct (IH (P ++ [a]) (q ++ children es a)) as (l & E).
    + apply binv_step; assumption.
    + rewrite app_length. cbn. lia.
    + rewrite E. cbn. eauto.
Qed.

Lemma ordered_reach es : forall P l, ordered es P l ->
  (forall p, In p P -> reaches_root es p) -> forall a, In a l -> reaches_root es a.
Proof.
  induction 1 as [|P c l e Fe Hiss O IH]; intros HP a Ha; [contradiction|].
  assert (reaches_root es c) as Rc.
  { destruct (issuer_of e) as [p|] eqn:Ei.
    - eapply rr_step; eauto.
    - eapply rr_root; eauto. }
  destruct Ha as [<-|Ha]; [exact Rc|].
  apply IH; [|exact Ha]. intros p Hp. apply in_app_or in Hp as [Hp|[<-|[]]]; auto.
Qed.

Lemma reach_in_final es l : wf_dir es -> binv es l [] -> incl (roots es) l ->
  forall a, reaches_root es a -> In a l.
Proof.
  intros W (_ & _ & C) R a H. induction H as [a e Fe Hi|a e p Fe Hi Hp IH].
  - apply R. apply in_roots. apply find_ent_some in Fe as [F1 F2]. eauto.
  - specialize (C p IH a). rewrite app_nil_r in C. apply C.
    apply in_children. apply find_ent_some in Fe as [F1 F2]. eauto.
Qed.

(* the traversal from the roots: existence and its properties *)
Lemma bfs_roots es : wf_dir es ->
  exists l, bfs_order (S (length es)) es (roots es) = Some l /\
            ordered es [] l /\ NoDup l /\ incl l (map e_alias es) /\
            (forall a, In a l <-> reaches_root es a).
Proof.
  intros W.
  destruct (bfs_fuel es W (S (length es)) [] (roots es) (binv_init es W)) as (l & E); [cbn; lia|].
  exists l. split; [exact E|].
  destruct (bfs_inv es W _ _ _ _ (binv_init es W) E) as [O B]. cbn [app] in B.
  split; [exact O|]. split; [|split].
  - destruct B as (N & _). rewrite app_nil_r in N. exact N.
  - intros c Hc. apply (binv_aliases es l []); [exact B|rewrite app_nil_r; exact Hc].
  - intros a. split.
    + apply (ordered_reach es [] l O). intros p [].
    + apply reach_in_final; auto. apply (bfs_queue_incl es _ _ _ E).
Qed.

(* C18: the consistency check accepts exactly the hierarchies in which every entity reaches a root *)
Theorem is_consistent_iff es : wf_dir es ->
  (is_consistent es = true <-> forall e, In e es -> reaches_root es (e_alias e)).
Proof.
  intros W. destruct (bfs_roots es W) as (l & E & _ & N & I & R).
  unfold is_consistent. rewrite count_loop_bfs, E. cbn [option_map plus].
  rewrite Nat.eqb_eq. split.
  - intros Hlen e He. apply R.
    assert (incl (map e_alias es) l) as I2.
    { apply NoDup_length_incl; [exact N| |exact I]. rewrite map_length. lia. }
    apply I2. apply in_map. exact He.
  - intros Hall.
    assert (incl (map e_alias es) l) as I2.
    { intros a Ha. apply in_map_iff in Ha as (e & <- & He). apply R. apply Hall. exact He. }
    pose proof (NoDup_incl_length W I2) as L1. pose proof (NoDup_incl_length N I) as L2.
    rewrite map_length in *. lia.
Qed.

(* ------------------------------------------------------------ C11: the decision *)
Lemma is_missing_spec f : is_missing true f = key_material_missing f.
Proof.
  unfold is_missing, key_material_missing.
  destruct (f_cert f); [|reflexivity]. destruct (f_key f), (f_req f); reflexivity.
Qed.

Lemma needs_update_spec es s e :
  needs_update true es s e = s_all s || local_reason es s e.
Proof.
  unfold needs_update, local_reason. rewrite is_missing_spec.
  destruct (s_all s) eqn:Ea; [reflexivity|]. cbn [orb].
  set (f := import_file (e_file e)).
  set (m := key_material_missing f).
  set (ch := match f_hash f with Some h => negb (hview_eqb h (hview_of (e_cfg e))) | None => false end).
  set (nw := Nat.ltb (mtime_of (e_file e)) (e_cfg_mtime e)).
  set (ex := match f_cert f with Some c => c_expired c | None => false end).
  destruct (issuer_of e) as [p|].
  - destruct (find_ent es p) as [pe|].
    + set (inw := Nat.ltb (mtime_of (e_file e)) (mtime_of (e_file pe))).
      destruct (s_any s), inw, (s_newer s), nw, (s_expired s), ex, (g_until_future (e_cfg e)),
               (s_missing s), m, (s_changed s), ch; reflexivity.
    + destruct (s_any s), (s_newer s), nw, (s_expired s), ex, (g_until_future (e_cfg e)),
               (s_missing s), m, (s_changed s), ch; reflexivity.
  - destruct (s_any s), (s_newer s), nw, (s_expired s), ex, (g_until_future (e_cfg e)),
             (s_missing s), m, (s_changed s), ch; reflexivity.
Qed.

(* one step of PlanBulkUpdate on an existing, valid entity *)
Definition plan_step (es : list ent) (s : strat) (st : list alias * list alias) (a : alias)
  : list alias * list alias :=
  match find_ent es a with
  | None => st
  | Some e =>
    let upd := match issuer_of e with
               | Some p => if existsb (Nat.eqb p) (fst st) then true else needs_update true es s e
               | None => needs_update true es s e
               end in
    if upd then (a :: fst st, a :: snd st) else st
  end.

Definition all_valid (es : list ent) : Prop := forall e, In e es -> g_valid (e_cfg e) = true.

Lemma plan_loop_fold es s : all_valid es -> forall fuel q u c l,
  bfs_order fuel es q = Some l ->
  (forall a, In a l -> exists e, find_ent es a = Some e) ->
  plan_loop true fuel es s q u c = Some (Some (rev (snd (fold_left (plan_step es s) l (u, c))))).
Proof.
  intros V. induction fuel as [|f IH]; intros q u c l H F; [discriminate|].
  cbn [bfs_order] in H. cbn [plan_loop]. destruct q as [|a q].
  - inversion H; subst. reflexivity.
  - destruct (bfs_order f es (q ++ children es a)) as [l'|] eqn:E; [|discriminate].
    cbn in H. inversion H; subst.
    destruct (F a (or_introl eq_refl)) as (e & Fe). rewrite Fe.
    rewrite (V e) by (apply find_ent_some in Fe; tauto). cbn [negb].
    cbn [fold_left]. unfold plan_step at 2. rewrite Fe. cbn [fst snd].
    set (upd := match issuer_of e with
                | Some p => if existsb (Nat.eqb p) u then true else needs_update true es s e
                | None => needs_update true es s e end).
    rewrite (IH _ _ _ l' E) by (intros x Hx; apply F; right; exact Hx).
    destruct upd; reflexivity.
Qed.

Lemma regen_inv es s a e : find_ent es a = Some e ->
  (regen es s a <-> s_all s = true \/ (exists p, issuer_of e = Some p /\ regen es s p) \/ local_reason es s e = true).
Proof.
  intros Fe. split.
  - intros H. inversion H as [? e' Fe' Ha|? e' p Fe' Hi Hp|? e' Fe' Hl]; subst;
      rewrite Fe in Fe'; inversion Fe'; subst; eauto.
  - intros [H|[(p & Hi & Hp)|H]]; [eapply regen_all|eapply regen_issuer|eapply regen_local]; eauto.
Qed.

Lemma existsb_eqb_in p u : existsb (Nat.eqb p) u = true <-> In p u.
Proof.
  rewrite existsb_exists. split.
  - intros (x & Hx & E). apply Nat.eqb_eq in E. subst. exact Hx.
  - intros H. exists p. split; [exact H|apply Nat.eqb_refl].
Qed.

(* shape of the fold: the updated ones, in traversal order *)
Lemma fold_shape es s : forall l P u c,
  ordered es P l -> NoDup (P ++ l) ->
  (forall p, In p P -> (In p u <-> regen es s p)) -> incl u P ->
  exists d, fold_left (plan_step es s) l (u, c) = (rev d ++ u, rev d ++ c) /\
            (forall a, In a d <-> In a l /\ regen es s a) /\
            (forall x y i j, nth_error d i = Some x -> nth_error d j = Some y -> i < j ->
                              exists i' j', nth_error l i' = Some x /\ nth_error l j' = Some y /\ i' < j') /\
            NoDup d.
Proof.
  induction l as [|a l IH]; intros P u c O N HU IU.
  - exists []. cbn. split; [reflexivity|]. split; [|split].
    + intros a. split; [intros []|intros [[] _]].
    + intros x y i j Hi. destruct i; discriminate.
    + constructor.
  - inversion O as [|? ? ? e Fe Hiss O']; subst.
    cbn [fold_left]. unfold plan_step at 2. rewrite Fe. cbn [fst snd].
    set (upd := match issuer_of e with
                | Some p => if existsb (Nat.eqb p) u then true else needs_update true es s e
                | None => needs_update true es s e end).
    assert (upd = true <-> regen es s a) as Hupd.
    { rewrite (regen_inv es s a e Fe). unfold upd.
      destruct (issuer_of e) as [p|] eqn:Ei.
      - specialize (Hiss p eq_refl).
        destruct (existsb (Nat.eqb p) u) eqn:Ex.
        + apply existsb_eqb_in in Ex. apply (HU p Hiss) in Ex. split; [intros _|reflexivity].
          right. left. eauto.
        + rewrite needs_update_spec, orb_true_iff. split.
          * intros [H|H]; auto.
          * intros [H|[(p' & Hp' & R)|H]]; auto.
            exfalso. inversion Hp'; subst p'. apply (HU p Hiss) in R. apply existsb_eqb_in in R. congruence.
      - rewrite needs_update_spec, orb_true_iff. split.
        + intros [H|H]; auto.
        + intros [H|[(p' & Hp' & _)|H]]; auto. discriminate. }
    assert (~ In a P) as HaP.
    { intros Hin. apply NoDup_remove_2 in N. apply N. apply in_or_app. left. exact Hin. }
    assert (NoDup ((P ++ [a]) ++ l)) as N' by (rewrite <- app_assoc; exact N).
    destruct upd eqn:Eu.
    + destruct (IH (P ++ [a]) (a :: u) (a :: c) O' N') as (d & E & D1 & D2 & D3).
      * intros p Hp. apply in_app_or in Hp as [Hp|[<-|[]]].
        -- rewrite <- (HU p Hp). split; [intros [->|H]; [contradiction|exact H]|intros H; right; exact H].
        -- split; [intros _; apply Hupd; reflexivity|intros _; left; reflexivity].
      * intros x [<-|Hx]; apply in_or_app; [right; left; reflexivity|left; apply IU; exact Hx].
      * exists (a :: d). split; [|split; [|split]].
        -- rewrite E. cbn [rev]. rewrite <- !app_assoc. reflexivity.
        -- intros x. cbn [In]. rewrite D1. split.
           ++ intros [<-|[H1 H2]]; [split; [left; reflexivity|apply Hupd; reflexivity]|split; [right|]; assumption].
           ++ intros [[<-|H1] H2]; [left; reflexivity|right; split; assumption].
        -- intros x y i j Hi Hj Hij. destruct i as [|i].
           ++ cbn in Hi. inversion Hi; subst x. destruct j as [|j]; [lia|]. cbn in Hj.
              assert (In y l) as Hy by (apply D1; eapply nth_error_In; exact Hj).
              apply In_nth_error in Hy as (k & Hk). exists 0, (S k). cbn. repeat split; auto; lia.
           ++ destruct j as [|j]; [lia|]. cbn in Hi, Hj.
              destruct (D2 x y i j Hi Hj) as (i' & j' & A & B & C); [lia|].
              exists (S i'), (S j'). cbn. repeat split; auto; lia.
        -- constructor; [|exact D3]. intros Hin. apply D1 in Hin as [Hin _].
           apply NoDup_remove_2 in N. apply N. apply in_or_app. right. exact Hin.
    + destruct (IH (P ++ [a]) u c O' N') as (d & E & D1 & D2 & D3).
      * intros p Hp. apply in_app_or in Hp as [Hp|[<-|[]]]; [apply HU; exact Hp|].
        split; [intros H; exfalso; apply HaP; apply IU; exact H|intros R; apply Hupd in R; discriminate].
      * intros x Hx. apply in_or_app. left. apply IU. exact Hx.
      * exists d. split; [exact E|split; [|split]].
        -- intros x. rewrite D1. cbn [In]. split.
           ++ intros [H1 H2]. split; [right|]; assumption.
           ++ intros [[<-|H1] H2]; [apply Hupd in H2; discriminate|split; assumption].
        -- intros x y i j Hi Hj Hij. destruct (D2 x y i j Hi Hj Hij) as (i' & j' & A & B & C).
           exists (S i'), (S j'). cbn. repeat split; auto; lia.
        -- exact D3.
Qed.

Lemma ordered_pos es : forall P l, ordered es P l ->
  forall j c e p, nth_error l j = Some c -> find_ent es c = Some e -> issuer_of e = Some p ->
  In p P \/ exists i, i < j /\ nth_error l i = Some p.
Proof.
  induction 1 as [|P c0 l e0 Fe0 Hiss O IH]; intros j c e p Hj Fe Hi.
  - destruct j; discriminate.
  - destruct j as [|j].
    + cbn in Hj. inversion Hj; subst c0. rewrite Fe in Fe0. inversion Fe0; subst e0.
      left. apply Hiss. exact Hi.
    + cbn in Hj. destruct (IH j c e p Hj Fe Hi) as [H|(i & Hlt & Hn)].
      * apply in_app_or in H as [H|[<-|[]]]; [left; exact H|].
        right. exists 0. split; [lia|reflexivity].
      * right. exists (S i). split; [lia|exact Hn].
Qed.

Lemma NoDup_nth_error_inj {A} (l : list A) i j x :
  NoDup l -> nth_error l i = Some x -> nth_error l j = Some x -> i = j.
Proof.
  intros N Hi Hj. apply (proj1 (NoDup_nth_error l) N); [|congruence].
  apply nth_error_Some. congruence.
Qed.

(* C11: on a well-formed, valid hierarchy the plan is exactly the set the statement describes,
   without repetition, every issuer before the entities it signs *)
Theorem plan_spec es s : forest es -> all_valid es ->
  exists ch, plan true es s = Some ch /\
    (forall a, In a ch <-> regen es s a) /\
    NoDup ch /\
    (forall i j x y e, nth_error ch i = Some x -> nth_error ch j = Some y ->
                       find_ent es y = Some e -> issuer_of e = Some x -> i < j).
Proof.
  intros [W R] V.
  destruct (bfs_roots es W) as (l & E & O & N & I & RR).
  assert (forall a, In a l -> exists e, find_ent es a = Some e) as F.
  { intros a Ha. apply I in Ha. apply in_map_iff in Ha as (e & <- & He).
    exists e. apply find_ent_in; assumption. }
  unfold plan. rewrite (plan_loop_fold es s V _ _ [] [] l E F).
  destruct (fold_shape es s l [] [] [] O) as (d & Ed & D1 & D2 & D3).
  { cbn. exact N. } { intros p []. } { intros x []. }
  rewrite Ed. cbn [snd]. rewrite app_nil_r, rev_involutive.
  exists d. split; [reflexivity|]. split; [|split; [exact D3|]].
  - intros a. rewrite D1. split; [tauto|]. intros Hr. split; [|exact Hr].
    apply RR.
    assert (exists e, find_ent es a = Some e) as (e & Fe) by (inversion Hr; eauto).
    apply find_ent_some in Fe as [Fe1 <-]. apply R. exact Fe1.
  - intros i j x y e Hi Hj Fe Hiss.
    destruct (Nat.lt_trichotomy i j) as [H|[H|H]]; [exact H| |]; exfalso.
    + subst j. rewrite Hi in Hj. inversion Hj; subst y.
      (* an entity that is its own issuer cannot be in a forest *)
      assert (In x l) as Hx by (apply D1; eapply nth_error_In; exact Hi).
      apply In_nth_error in Hx as (k & Hk).
      destruct (ordered_pos es [] l O k x e x Hk Fe Hiss) as [[]|(i' & Hlt & Hn)].
      pose proof (NoDup_nth_error_inj l i' k x N Hn Hk). lia.
    + destruct (D2 y x j i Hj Hi H) as (j' & i' & Aj & Ai & Hlt).
      destruct (ordered_pos es [] l O j' y e x Aj Fe Hiss) as [[]|(i'' & Hlt' & Hn)].
      pose proof (NoDup_nth_error_inj l i'' i' x N Hn Ai). lia.
Qed.

(* C09 (abort): a profile violation anywhere in the hierarchy makes planning fail *)
Lemma plan_loop_invalid es s : forall fuel q u c l,
  bfs_order fuel es q = Some l ->
  (forall a, In a l -> exists e, find_ent es a = Some e) ->
  (exists a e, In a l /\ find_ent es a = Some e /\ g_valid (e_cfg e) = false) ->
  plan_loop true fuel es s q u c = Some None.
Proof.
  induction fuel as [|f IH]; intros q u c l H F X; [discriminate|].
  cbn [bfs_order] in H. cbn [plan_loop]. destruct q as [|a q].
  - inversion H; subst. destruct X as (a & e & [] & _).
  - destruct (bfs_order f es (q ++ children es a)) as [l'|] eqn:E; [|discriminate].
    cbn in H. inversion H; subst.
    destruct (F a (or_introl eq_refl)) as (e & Fe). rewrite Fe.
    destruct (g_valid (e_cfg e)) eqn:Ev; [|reflexivity]. cbn [negb].
    apply (IH _ _ _ l' E).
    + intros x Hx. apply F. right. exact Hx.
    + destruct X as (b & eb & [<-|Hb] & Fb & Vb).
      * rewrite Fe in Fb. inversion Fb; subst. congruence.
      * eauto.
Qed.

Theorem plan_invalid es s : forest es -> (exists e, In e es /\ g_valid (e_cfg e) = false) ->
  plan true es s = None.
Proof.
  intros [W R] (e & He & Ve).
  destruct (bfs_roots es W) as (l & E & O & N & I & RR).
  unfold plan. rewrite (plan_loop_invalid es s _ _ [] [] l E); [reflexivity| |].
  - intros a Ha. apply I in Ha. apply in_map_iff in Ha as (e' & <- & He').
    exists e'. apply find_ent_in; assumption.
  - exists (e_alias e), e. split; [apply RR; apply R; exact He|]. split; [apply find_ent_in; assumption|exact Ve].
Qed.
