From Coq Require Import List Arith NArith ZArith Bool Lia.
From Coq.Strings Require Import Byte.
From Gopki.Model Require Import Bytes Base64 Der Asn1 Text Ext Rdn X509.
From Gopki.Spec Require Import X509Spec ExtSpec AdmissionSpec PolicySpec.
From Gopki.Proofs Require Import BytesProofs DerProofs Asn1Proofs X509Proofs ExtProofs AdmissionProofs.
Import ListNotations.
Open Scope N_scope.

(* what was configured, in the vocabulary of the specification *)
Definition notice_ref_view (un : user_notice) : option (bytes * list Z) :=
  match un_org un, un_numbers un with
  | [], None => None
  | _, _ => Some (un_org un, match un_numbers un with Some l => l | None => [] end)
  end.

Definition view_qual (q : qualifier) : option qual_view :=
  match q_cps q with
  | _ :: _ => Some (QvCps (q_cps q))
  | [] => match q_notice q with
          | None => None
          | Some un => Some (QvNotice (notice_ref_view un) (opt_bytes (un_text un)))
          end
  end.

(* a user notice with neither reference nor text has no RFC 5280 encoding through this builder (F22) *)
Definition qual_expressible (q : qualifier) : Prop :=
  q_cps q <> [] \/ exists un, q_notice q = Some un /\ (notice_ref_view un <> None \/ un_text un <> []).

Lemma dec_ints l : map_opt dec_int (map der_int l) = Some l.
Proof.
  induction l as [|z l IH]; [reflexivity|]. cbn [map map_opt]. rewrite IH.
  unfold der_int at 1, dec_int. rewrite int_roundtrip. reflexivity.
Qed.

Lemma dec_cps_id : dec_oid (tlv_of_oid oid_qt_cps) = Some oid_qt_cps. Proof. vm_compute. reflexivity. Qed.
Lemma dec_un_id : dec_oid (tlv_of_oid oid_qt_unotice) = Some oid_qt_unotice. Proof. vm_compute. reflexivity. Qed.

Theorem qualifier_decodes q t : enc_qualifier q = Some t -> qual_expressible q -> spec_dec_qual t = view_qual q.
Proof.
  unfold enc_qualifier, view_qual, qual_expressible. intros H X.
  destruct (q_cps q) as [|c cs] eqn:Ec.
  - destruct X as [X|(un & Eu & X)]; [congruence|]. rewrite Eu in *.
    unfold notice_ref_view in *.
    destruct (un_org un) as [|o os] eqn:Eo; destruct (un_numbers un) as [ns|] eqn:En; destruct (un_text un) as [|x xs] eqn:Ex;
      try (destruct X as [X|X]; congruence);
      cbn [app] in H; injection H as <-;
      unfold spec_dec_qual, der_seq; cbv beta iota; rewrite dec_un_id;
      replace (arcs_eqb oid_qt_unotice oid_qt_cps) with false by (vm_compute; reflexivity);
      replace (arcs_eqb oid_qt_unotice oid_qt_unotice) with true by (vm_compute; reflexivity);
      unfold spec_dec_user_notice, spec_dec_notice_ref, der_utf8, dec_display_text, opt_bytes; cbv beta iota;
      try rewrite dec_ints; try reflexivity.
  - destruct (der_ia5 (c :: cs)) as [s|] eqn:Ei; [|discriminate]. injection H as <-.
    apply der_ia5_dec in Ei. destruct Ei as [-> _].
    unfold spec_dec_qual, der_seq; cbv beta iota. rewrite dec_cps_id.
    replace (arcs_eqb oid_qt_cps oid_qt_cps) with true by (vm_compute; reflexivity). reflexivity.
Qed.
Print Assumptions qualifier_decodes.

(* F22: the empty user notice is emitted without its mandatory qualifier member *)
Example C07_empty_notice_refuted :
  exists t, enc_qualifier (mkQual [] (Some (mkUn [] None []))) = Some t /\ spec_dec_qual t = None.
Proof. eexists. split; vm_compute; reflexivity. Qed.

Definition view_policy (p : policy) : option (list N * list qual_view) :=
  match view_oid_str (p_oid p), (match p_quals p with None => Some [] | Some qs => map_opt view_qual qs end) with
  | Some o, Some l => Some (o, l)
  | _, _ => None
  end.

Definition policy_expressible (p : policy) : Prop :=
  forall qs, p_quals p = Some qs -> Forall qual_expressible qs.

Lemma quals_decode : forall qs l, map_opt enc_qualifier qs = Some l -> Forall qual_expressible qs ->
  map_opt spec_dec_qual l = map_opt view_qual qs /\ length l = length qs.
Proof.
  induction qs as [|q r IH]; intros l M X; cbn [map_opt] in M.
  - injection M as <-. split; reflexivity.
  - destruct (enc_qualifier q) as [t|] eqn:Eq; [|discriminate].
    destruct (map_opt enc_qualifier r) as [ts|] eqn:Er; [|discriminate]. injection M as <-.
    inversion X as [|? ? Xq Xr]; subst. destruct (IH ts eq_refl Xr) as [D L].
    cbn [map_opt length]. rewrite (qualifier_decodes q t Eq Xq), D. split; [reflexivity|congruence].
Qed.

Theorem policy_decodes fx p t : fx_empty_quals fx = true -> enc_policy fx p = Some t -> policy_expressible p ->
  spec_dec_policy t = view_policy p.
Proof.
  intros Hfx H X. unfold enc_policy in H. unfold view_policy.
  destruct (enc_oid_str (p_oid p)) as [ot|] eqn:Eo; [|discriminate].
  destruct (enc_oid_str_dec _ _ Eo) as (o & Vo & Do). rewrite Vo.
  destruct (p_quals p) as [qs|] eqn:Eq.
  - destruct (map_opt enc_qualifier qs) as [l|] eqn:Em; [|discriminate].
    destruct (quals_decode qs l Em (X qs Eq)) as [D L]. rewrite <- D.
    destruct l as [|q l'].
    + rewrite Hfx in H. injection H as <-. unfold spec_dec_policy, der_seq; cbv beta iota. rewrite Do. reflexivity.
    + injection H as <-. unfold spec_dec_policy, der_seq; cbv beta iota. rewrite Do. reflexivity.
  - injection H as <-. unfold spec_dec_policy, der_seq; cbv beta iota. rewrite Do. reflexivity.
Qed.

Theorem cp_decodes fx crit content e : fx_empty_quals fx = true -> content <> [] ->
  Forall policy_expressible content -> build_cp fx crit content = Some e ->
  exists t, x_value e = enc t /\ spec_dec_cp t = map_opt view_policy content /\ x_crit e = crit.
Proof.
  intros Hfx Hne X H. unfold build_cp in H.
  destruct (map_opt (enc_policy fx) content) as [ps|] eqn:M; [|discriminate]. injection H as <-.
  exists (der_seq ps). cbn [x_value x_crit]. split; [reflexivity|]. split; [|reflexivity].
  assert (map_opt spec_dec_policy ps = map_opt view_policy content /\ length ps = length content) as [D L].
  { clear Hne. revert ps M X. induction content as [|p r IH]; intros ps M X; cbn [map_opt] in M.
    - injection M as <-. split; reflexivity.
    - destruct (enc_policy fx p) as [t|] eqn:Ep; [|discriminate].
      destruct (map_opt (enc_policy fx) r) as [ts|] eqn:Er; [|discriminate]. injection M as <-.
      inversion X as [|? ? Xp Xr]; subst. destruct (IH ts eq_refl Xr) as [D L].
      cbn [map_opt length]. rewrite (policy_decodes fx p t Hfx Ep Xp), D. split; [reflexivity|congruence]. }
  destruct ps as [|t ts]; [destruct content; [congruence|discriminate L]|].
  unfold spec_dec_cp, der_seq. exact D.
Qed.
Print Assumptions cp_decodes.

(* F23: `qualifiers: []` is emitted as an empty SEQUENCE, which SIZE (1..MAX) forbids *)
Example C07_empty_qualifiers_refuted :
  exists t, enc_policy none_fixed (mkPol (map n2b [49;46;50;46;51]) (Some [])) = Some t /\ spec_dec_policy t = None.
Proof. eexists. split; vm_compute; reflexivity. Qed.
(* ... and decodes once repaired *)
Example C07_empty_qualifiers_fixed :
  exists t, enc_policy all_fixed (mkPol (map n2b [49;46;50;46;51]) (Some [])) = Some t /\ spec_dec_policy t = Some ([1;2;3], []).
Proof. eexists. split; vm_compute; reflexivity. Qed.
