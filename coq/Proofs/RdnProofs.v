From Coq Require Import List Arith NArith ZArith Bool Lia.
From Coq Require Import ZifyN ZifyBool ZifyNat.
From Coq.Strings Require Import Byte.
From Gopki.Model Require Import Bytes Base64 Der Asn1 Text Rdn.
From Gopki.Proofs Require Import BytesProofs.
Import ListNotations.
Open Scope N_scope.

Definition comma := n2b 44. Definition eqsign := n2b 61. Definition space := n2b 32.

(* the documented grammar of one KEY=value pair *)
Record good_pair (k v : bytes) : Prop := {
  gp_key_chars : Forall (fun b => b2n b <> 44 /\ b2n b <> 61 /\ is_space b = false) k;
  gp_key_nonempty : k <> [];
  gp_val_chars : Forall (fun b => b2n b <> 44 /\ b2n b <> 61 /\ b2n b <> 92) v;
  gp_val_nonempty : v <> [];
  gp_val_no_hash : forall h r, v = h :: r -> b2n h <> 35;
  gp_val_edges : forall h r, v = h :: r -> is_space h = false /\ is_space (last v h) = false
}.

Definition assertion (kv : bytes * bytes) : bytes := fst kv ++ eqsign :: snd kv.

(* "K1=v1, K2=v2, ..." *)
Fixpoint render (ps : list (bytes * bytes)) : bytes :=
  match ps with
  | [] => []
  | [p] => assertion p
  | p :: r => assertion p ++ comma :: space :: render r
  end.

Definition resolve (k : bytes) : option (list Z) :=
  match attr_oid k with Some o => Some o | None => oid_from_string k end.

Definition rdn_of (kv : bytes * bytes) : option rdn :=
  match resolve (fst kv) with Some o => Some (mkRdn o (AvString (snd kv))) | None => None end.

(* ---- splitting at commas ---- *)
Lemma sc_cons b r prev cur :
  split_commas (b :: r) prev cur =
  if match prev with None => false | Some p => (b2n b =? 44) && negb (b2n p =? 92) end
  then rev cur :: split_commas r (Some b) [] else split_commas r (Some b) (b :: cur).
Proof. reflexivity. Qed.

Lemma last_default {A} (l : list A) d1 d2 : l <> [] -> last l d1 = last l d2.
Proof.
  induction l as [|x l IH]; intros H; [congruence|]. destruct l as [|y l']; [reflexivity|].
  cbn [last] in *. apply IH. discriminate.
Qed.

Lemma split_commas_field : forall a x rest prev cur,
  Forall (fun b => b2n b <> 44) (x :: a) -> b2n (last (x :: a) x) <> 92 ->
  split_commas ((x :: a) ++ comma :: rest) prev cur = (rev cur ++ x :: a) :: split_commas rest (Some comma) [].
Proof.
  induction a as [|y a IH]; intros x rest prev cur Hc Hl.
  - inversion Hc as [|? ? Hx _]; subst. cbn [app]. rewrite sc_cons.
    assert ((match prev with None => false | Some p => (b2n x =? 44) && negb (b2n p =? 92) end) = false) as E1
        by (destruct prev; [replace (b2n x =? 44) with false by lia|]; reflexivity).
    rewrite E1, sc_cons. unfold comma at 1. rewrite b2n_n2b by lia.
    cbn [last] in Hl. replace (b2n x =? 92) with false by lia. cbn [N.eqb Pos.eqb negb andb rev]. reflexivity.
  - inversion Hc as [|? ? Hx Hc']; subst. cbn [app]. rewrite sc_cons.
    assert ((match prev with None => false | Some p => (b2n x =? 44) && negb (b2n p =? 92) end) = false) as E1
        by (destruct prev; [replace (b2n x =? 44) with false by lia|]; reflexivity).
    rewrite E1. change (y :: a ++ comma :: rest) with ((y :: a) ++ comma :: rest).
    rewrite (IH y rest (Some x) (x :: cur) Hc').
    + cbn [rev]. rewrite <- app_assoc. reflexivity.
    + cbn [last] in Hl |- *. destruct a as [|z a']; [exact Hl|]. rewrite (last_default (z :: a') y x) by discriminate. exact Hl.
Qed.

Lemma split_commas_last : forall a prev cur, Forall (fun b => b2n b <> 44) a ->
  split_commas a prev cur = [rev cur ++ a].
Proof.
  induction a as [|x a IH]; intros prev cur Hc; [cbn; rewrite app_nil_r; reflexivity|].
  inversion Hc as [|? ? Hx Hc']; subst. rewrite sc_cons.
  assert ((match prev with None => false | Some p => (b2n x =? 44) && negb (b2n p =? 92) end) = false) as E1
      by (destruct prev; [replace (b2n x =? 44) with false by lia|]; reflexivity).
  rewrite E1, (IH (Some x) (x :: cur) Hc'). cbn [rev]. rewrite <- app_assoc. reflexivity.
Qed.

(* ---- one assertion ---- *)
Lemma trim_left_id s : (forall h r, s = h :: r -> is_space h = false) -> trim_left s = s.
Proof. destruct s as [|h r]; [reflexivity|]. intros H. cbn. rewrite (H h r eq_refl). reflexivity. Qed.

Lemma last_rev_head {A} (l : list A) d : l <> [] -> exists r, rev l = last l d :: r.
Proof.
  induction l as [|x l IH]; intros H; [congruence|]. destruct l as [|y l'].
  - exists []. reflexivity.
  - destruct (IH ltac:(discriminate)) as (r & E). cbn [rev] in *. cbn [last]. rewrite E. eexists. reflexivity.
Qed.

Lemma trim_space_id s d : s <> [] ->
  (forall h r, s = h :: r -> is_space h = false) -> is_space (last s d) = false -> trim_space s = s.
Proof.
  intros Hne Hh Hl. unfold trim_space. rewrite (trim_left_id s Hh).
  destruct (last_rev_head s d Hne) as (r & E). rewrite E. cbn [trim_left]. rewrite Hl, <- E. apply rev_involutive.
Qed.

Lemma trim_space_leading s : (forall h r, s = h :: r -> is_space h = false) -> s <> [] ->
  forall d, is_space (last s d) = false -> trim_space (space :: s) = s.
Proof.
  intros Hh Hne d Hl. unfold trim_space. cbn [trim_left].
  replace (is_space space) with true by (vm_compute; reflexivity).
  fold (trim_space s). apply (trim_space_id s d); assumption.
Qed.

Lemma split_eq_field a : forall rest cur, Forall (fun b => b2n b <> 61) a ->
  split_on 61 (a ++ eqsign :: rest) cur = (rev cur ++ a) :: split_on 61 rest [].
Proof.
  induction a as [|x a IH]; intros rest cur H.
  - cbn [app split_on]. unfold eqsign. rewrite b2n_n2b by lia. cbn. rewrite app_nil_r. reflexivity.
  - inversion H as [|? ? Hx Ha]; subst. cbn [app split_on].
    replace (b2n x =? 61) with false by lia. rewrite IH by exact Ha. cbn [rev]. rewrite <- app_assoc. reflexivity.
Qed.
Lemma split_eq_last a : forall cur, Forall (fun b => b2n b <> 61) a -> split_on 61 a cur = [rev cur ++ a].
Proof.
  induction a as [|x a IH]; intros cur H; [cbn; rewrite app_nil_r; reflexivity|].
  inversion H as [|? ? Hx Ha]; subst. cbn [split_on]. replace (b2n x =? 61) with false by lia.
  rewrite IH by exact Ha. cbn [rev]. rewrite <- app_assoc. reflexivity.
Qed.

Lemma forall_weaken {A} (P Q : A -> Prop) l : (forall x, P x -> Q x) -> Forall P l -> Forall Q l.
Proof. intros H F. induction F; constructor; auto. Qed.

Lemma last_app_cons {A} (a : list A) x b d : last (a ++ x :: b) d = last (x :: b) d.
Proof.
  induction a as [|y a IH]; [reflexivity|]. cbn [app].
  remember (a ++ x :: b) as l eqn:E. destruct l as [|z l']; [destruct a; discriminate|].
  change (last (y :: z :: l') d) with (last (z :: l') d). exact IH.
Qed.

Lemma forall_last {A} (P : A -> Prop) l d : Forall P l -> P d -> P (last l d).
Proof. intros F Pd. induction F as [|x l Hx F IH]; [exact Pd|]. destruct l; [exact Hx|exact IH]. Qed.

Lemma forall_last_ne {A} (P : A -> Prop) l d : l <> [] -> Forall P l -> P (last l d).
Proof. intros Hne F. induction F as [|x l Hx F IH]; [congruence|]. destruct l; [exact Hx|apply IH; discriminate]. Qed.

Lemma parse_assertion_pair k v (lead : bool) : good_pair k v ->
  parse_assertion ((if lead then [space] else []) ++ assertion (k, v)) = rdn_of (k, v).
Proof.
  intros G. destruct G as [Kc Kn Vc Vn Vh Ve].
  destruct k as [|k0 kr]; [congruence|]. destruct v as [|v0 vr]; [congruence|].
  destruct (Ve v0 vr eq_refl) as [Ve1 Ve2].
  assert (is_space k0 = false) as Kh by (inversion Kc as [|? ? (_ & _ & Hs) _]; exact Hs).
  unfold parse_assertion, assertion. cbn [fst snd].
  assert (trim_space ((if lead then [space] else []) ++ (k0 :: kr) ++ eqsign :: v0 :: vr) = (k0 :: kr) ++ eqsign :: v0 :: vr) as T.
  { assert (is_space (last ((k0 :: kr) ++ eqsign :: v0 :: vr) k0) = false) as L.
    { rewrite last_app_cons. change (last (eqsign :: v0 :: vr) k0) with (last (v0 :: vr) k0). rewrite (last_default (v0 :: vr) k0 v0) by discriminate. exact Ve2. }
    destruct lead; cbn [app].
    - apply (trim_space_leading ((k0 :: kr) ++ eqsign :: v0 :: vr)) with (d := k0); [|discriminate|exact L].
      intros h r E. cbn [app] in E. inversion E; subst. exact Kh.
    - apply (trim_space_id _ k0); [discriminate| |exact L]. intros h r E. inversion E; subst. exact Kh. }
  rewrite T. unfold split.
  rewrite (split_eq_field (k0 :: kr)) by (eapply forall_weaken; [|exact Kc]; intros x (_ & H & _); exact H).
  rewrite (split_eq_last (v0 :: vr)) by (eapply forall_weaken; [|exact Vc]; intros x (_ & H & _); exact H).
  cbn [rev app].
  assert (trim_space (k0 :: kr) = k0 :: kr) as Tk.
  { apply (trim_space_id _ k0); [discriminate|intros h r E; inversion E; subst; exact Kh|].
    assert (Forall (fun b => is_space b = false) (k0 :: kr)) as Ks by (eapply forall_weaken; [|exact Kc]; intros x (_ & _ & H); exact H).
    apply (forall_last _ (k0 :: kr) k0 Ks Kh). }
  rewrite Tk. unfold rdn_of, resolve. cbn [fst snd].
  destruct (match attr_oid (k0 :: kr) with Some o => Some o | None => oid_from_string (k0 :: kr) end) as [o|]; [|reflexivity].
  destruct vr as [|v1 vr']; [reflexivity|].
  replace (b2n v0 =? 35) with false by (specialize (Vh v0 (v1 :: vr') eq_refl); lia). reflexivity.
Qed.

(* ---- the whole subject string ---- *)
Definition lead_bytes (lead : bool) : bytes := if lead then [space] else [].

Fixpoint pieces (lead : bool) (ps : list (bytes * bytes)) : list bytes :=
  match ps with
  | [] => []
  | p :: r => (lead_bytes lead ++ assertion p) :: pieces true r
  end.

Definition good (p : bytes * bytes) : Prop := good_pair (fst p) (snd p).

Lemma piece_no_comma lead p : good p -> Forall (fun b => b2n b <> 44) (lead_bytes lead ++ assertion p).
Proof.
  intros [Kc _ Vc _ _ _]. apply Forall_app. split.
  - destruct lead; cbn; [constructor; [vm_compute; discriminate|constructor]|constructor].
  - unfold assertion. apply Forall_app. split.
    + eapply forall_weaken; [|exact Kc]. intros x (H & _); exact H.
    + constructor; [vm_compute; discriminate|]. eapply forall_weaken; [|exact Vc]. intros x (H & _); exact H.
Qed.

Lemma piece_last lead p d : good p -> b2n (last (lead_bytes lead ++ assertion p) d) <> 92.
Proof.
  intros [Kc _ Vc Vn _ _]. unfold assertion. rewrite app_assoc, last_app_cons.
  destruct (snd p) as [|v0 vr]; [congruence|]. change (last (eqsign :: v0 :: vr) d) with (last (v0 :: vr) d).
  apply (forall_last_ne (fun b => b2n b <> 92) (v0 :: vr) d); [discriminate|].
  eapply forall_weaken; [|exact Vc]. intros x (_ & _ & H); exact H.
Qed.

Lemma lead_piece_cons lead p : good p -> exists x a, lead_bytes lead ++ assertion p = x :: a.
Proof.
  intros [_ Kn _ _ _ _]. destruct lead; cbn [lead_bytes app]; [eauto|].
  unfold assertion. destruct (fst p); [congruence|]. cbn [app]. eauto.
Qed.

Lemma split_render : forall ps lead prev, ps <> [] -> Forall good ps ->
  split_commas (lead_bytes lead ++ render ps) prev [] = pieces lead ps.
Proof.
  induction ps as [|p r IH]; intros lead prev Hne G; [congruence|].
  inversion G as [|? ? Gp Gr]; subst. destruct r as [|q r'].
  - cbn [render pieces]. rewrite split_commas_last by (apply piece_no_comma; exact Gp). reflexivity.
  - change (render (p :: q :: r')) with (assertion p ++ comma :: space :: render (q :: r')).
    rewrite app_assoc. destruct (lead_piece_cons lead p Gp) as (x & a & E).
    pose proof (piece_no_comma lead p Gp) as Nc. pose proof (piece_last lead p x Gp) as Nl.
    rewrite E in *. rewrite split_commas_field by assumption. cbn [rev app pieces]. rewrite E. f_equal.
    change (space :: render (q :: r')) with (lead_bytes true ++ render (q :: r')).
    apply IH; [discriminate|exact Gr].
Qed.

Lemma map_opt_pieces : forall ps lead, Forall good ps ->
  map_opt parse_assertion (pieces lead ps) = map_opt rdn_of ps.
Proof.
  induction ps as [|p r IH]; intros lead G; [reflexivity|]. inversion G as [|? ? Gp Gr]; subst.
  cbn [pieces map_opt]. destruct p as [k v].
  assert (parse_assertion (lead_bytes lead ++ assertion (k, v)) = rdn_of (k, v)) as E
    by exact (parse_assertion_pair k v lead Gp).
  rewrite E, (IH true Gr). reflexivity.
Qed.

(* C03: a subject written in the documented grammar parses to exactly the written
   attribute/value pairs, in reverse (DER) order *)
Theorem parse_rdn_render ps : ps <> [] -> Forall good ps ->
  parse_rdn (render ps) = match map_opt rdn_of ps with Some l => Some (rev l) | None => None end.
Proof.
  intros Hne G. unfold parse_rdn. change (render ps) with (lead_bytes false ++ render ps).
  rewrite split_render by assumption. rewrite map_opt_pieces by assumption. reflexivity.
Qed.
Print Assumptions parse_rdn_render.

(* non-vacuity: "CN=Test CA, O=Acme" *)
Definition ex_cn := map n2b [67;78]. Definition ex_o := map n2b [79].
Definition ex_v1 := map n2b [84;101;115;116;32;67;65]. Definition ex_v2 := map n2b [65;99;109;101].
Example good_example : Forall good [(ex_cn, ex_v1); (ex_o, ex_v2)].
Proof.
  assert (forall n m : N, (n =? m) = false -> n <> m) as ne by (intros n m H; lia).
  repeat (apply Forall_cons; [|]); try apply Forall_nil;
  (constructor;
   [ repeat (apply Forall_cons; [repeat split; try (apply ne; vm_compute; reflexivity); vm_compute; reflexivity|]); apply Forall_nil
   | discriminate
   | repeat (apply Forall_cons; [repeat split; apply ne; vm_compute; reflexivity|]); apply Forall_nil
   | discriminate
   | intros h r E; inversion E; subst; apply ne; vm_compute; reflexivity
   | intros h r E; inversion E; subst; split; vm_compute; reflexivity ]).
Qed.
Example parse_example : parse_rdn (render [(ex_cn, ex_v1); (ex_o, ex_v2)]) =
  Some [mkRdn [2;5;4;10]%Z (AvString ex_v2); mkRdn [2;5;4;3]%Z (AvString ex_v1)].
Proof. vm_compute. reflexivity. Qed.
