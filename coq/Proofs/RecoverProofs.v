From Coq Require Import List Arith Bool Lia.
From Gopki.Model Require Import Dir Plan Run.
From Gopki.Spec Require Import RegenSpec DirInv.
From Gopki.Model Require Import Ops.
From Gopki.Proofs Require Import PlanProofs RunProofs FaultProofs OpsProofs HistoryProofs.
Import ListNotations.

(* the hierarchy can be generated: builders succeed, algorithms fit each other and the existing keys,
   no signer is request-only.  This is what "completes without manual clean-up" presupposes (C15). *)
Definition req_only (f : file) : bool :=
  match f_key f, f_req f with None, Some _ => true | _, _ => false end.

Record generable (es : list ent) : Prop := {
  gn_builds : forall e, In e es -> g_builds (e_cfg e) = true;
  gn_keytype : forall e k, In e es -> f_key (art es (e_alias e)) = Some k -> k_typ k = g_kalg (e_cfg e);
  gn_root : forall e, In e es -> issuer_of e = None ->
            g_kalg (e_cfg e) = g_salg (e_cfg e) /\ req_only (art es (e_alias e)) = false;
  gn_sub : forall e p, In e es -> issuer_of e = Some p ->
           exists pe, find_ent es p = Some pe /\ g_kalg (e_cfg pe) = g_salg (e_cfg e) /\ req_only (art es p) = false
}.

Definition ready (es : list ent) (p : alias) : Prop :=
  f_cert (art es p) <> None /\ f_key (art es p) <> None.

Lemma ktype_eqb_true a b : a = b -> ktype_eqb a b = true.
Proof. intros ->. apply ktype_eqb_refl. Qed.

Lemma generate_succeeds es e now nk :
  wf_dir es -> generable es -> In e es ->
  (forall p, issuer_of e = Some p -> ready es p) ->
  exists f nk', generate true es e now nk = (ROk, Some f, nk').
Proof.
  intros W G He R. unfold generate. rewrite (gn_builds _ G e He). cbn [negb].
  set (a := art es (e_alias e)).
  unfold issuer_of in *.
  destruct (g_issuer (e_cfg e)) as [p|] eqn:Hi.
  - destruct (R p eq_refl) as [Rc Rk].
    destruct (gn_sub _ G e p He Hi) as (pe & Fp & Ht & _).
    assert (In pe es /\ e_alias pe = p) as [Hpe Hpa] by (apply find_ent_some; exact Fp).
    destruct (f_cert (art es p)) as [pc|] eqn:Epc; [|congruence].
    destruct (f_key (art es p)) as [pk|] eqn:Epk; [|congruence].
    assert (k_typ pk = g_salg (e_cfg e)) as Tk.
    { rewrite <- Ht. apply (gn_keytype _ G pe pk Hpe). rewrite Hpa. exact Epk. }
    rewrite (ktype_eqb_true _ _ Tk).
    destruct (f_key a), (f_req a); eauto.
  - destruct (gn_root _ G e He Hi) as (Ht & Hr). fold a in Hr. unfold req_only in Hr.
    destruct (f_key a) as [k|] eqn:Ek.
    + assert (k_typ k = g_salg (e_cfg e)) as Tk by (rewrite <- Ht; apply (gn_keytype _ G e k He); exact Ek).
      rewrite (ktype_eqb_true _ _ Tk). eauto.
    + destruct (f_req a) as [r|]; [discriminate|]. cbn [k_typ].
      rewrite (ktype_eqb_true _ _ Ht). eauto.
Qed.

Lemma art_set_file_same es a f : (exists e, find_ent es a = Some e) -> art (set_file es a (Some f)) a = import_file (Some f).
Proof.
  intros (e & Fe). unfold art. rewrite find_ent_set_file, Fe, Nat.eqb_refl. reflexivity.
Qed.

Lemma in_set_file es a nf e' : In e' (set_file es a nf) ->
  exists e, In e es /\ e_alias e' = e_alias e /\ e_cfg e' = e_cfg e.
Proof.
  unfold set_file. intros H. apply in_map_iff in H as (e & <- & He). exists e.
  destruct (Nat.eqb (e_alias e) a); cbn; auto.
Qed.

(* a generated file keeps an existing key, never turns a keyed entity into a request-only one,
   and a fresh key has the configured type *)
Lemma gen_post_keys es' e x f :
  gen_post es' e (import_file x) f ->
  req_only f = req_only (import_file x) /\
  (forall k, f_key f = Some k -> f_key (import_file x) = Some k \/ k_typ k = g_kalg (e_cfg e)).
Proof.
  intros (_ & R & K & _). unfold req_only. rewrite R.
  destruct (f_key (import_file x)) as [k0|] eqn:Ek.
  - rewrite K. split; [reflexivity|]. intros k Hk. left. exact Hk.
  - destruct (f_req (import_file x)) as [r|] eqn:Er.
    + rewrite K. split; [reflexivity|]. intros k Hk. discriminate.
    + destruct K as (id & ->). split; [reflexivity|]. intros k Hk. inversion Hk; subst. right. reflexivity.
Qed.

Lemma generable_set_file es a e f :
  wf_dir es -> generable es -> find_ent es a = Some e -> gen_post es e (art es a) f ->
  generable (set_file es a (Some f)).
Proof.
  intros W G Fe GP. rewrite art_of_file_at in GP.
  pose proof (gen_post_import _ _ _ _ GP) as Imp.
  destruct (gen_post_keys _ _ _ _ GP) as (RO & KT).
  assert (In e es /\ e_alias e = a) as [He Ea] by (apply find_ent_some; exact Fe).
  assert (forall b, art (set_file es a (Some f)) b = if Nat.eqb b a then f else art es b) as A.
  { intros b. destruct (Nat.eqb b a) eqn:E.
    - apply Nat.eqb_eq in E. subst b. rewrite art_set_file_same by eauto. exact Imp.
    - apply art_set_file_other. intros ->. rewrite Nat.eqb_refl in E. discriminate. }
  constructor.
  - intros e' He'. destruct (in_set_file _ _ _ _ He') as (e0 & H0 & _ & C0). rewrite C0. apply (gn_builds _ G). exact H0.
  - intros e' k He' Hk. destruct (in_set_file _ _ _ _ He') as (e0 & H0 & A0 & C0). rewrite C0.
    rewrite A, A0 in Hk. destruct (Nat.eqb (e_alias e0) a) eqn:E.
    + apply Nat.eqb_eq in E. assert (e0 = e) by (apply (alias_inj es); auto; congruence). subst e0.
      destruct (KT k Hk) as [Hold|Hnew]; [|exact Hnew].
      apply (gn_keytype _ G e k He). rewrite Ea, art_of_file_at. exact Hold.
    + apply (gn_keytype _ G e0 k H0). exact Hk.
  - intros e' He' Hi. destruct (in_set_file _ _ _ _ He') as (e0 & H0 & A0 & C0).
    assert (issuer_of e0 = None) as Hi0 by (unfold issuer_of in *; rewrite <- C0; exact Hi).
    destruct (gn_root _ G e0 H0 Hi0) as (T & R). rewrite C0. split; [exact T|].
    rewrite A, A0. destruct (Nat.eqb (e_alias e0) a) eqn:E; [|exact R].
    apply Nat.eqb_eq in E. rewrite RO, <- art_of_file_at, <- E. exact R.
  - intros e' p He' Hi. destruct (in_set_file _ _ _ _ He') as (e0 & H0 & A0 & C0).
    assert (issuer_of e0 = Some p) as Hi0 by (unfold issuer_of in *; rewrite <- C0; exact Hi).
    destruct (gn_sub _ G e0 p H0 Hi0) as (pe & Fp & T & R).
    rewrite find_ent_set_file, Fp.
    eexists. split; [reflexivity|]. rewrite C0. split.
    + destruct (Nat.eqb p a); cbn; exact T.
    + rewrite A. destruct (Nat.eqb p a) eqn:E; [|exact R].
      apply Nat.eqb_eq in E. subst p. rewrite RO, <- art_of_file_at. exact R.
Qed.

Lemma bulk_generable : forall ch es clock nk idx wr,
  wf_dir es -> generable es -> NoDup ch -> issuers_first es ch ->
  (forall a, In a ch -> exists e, find_ent es a = Some e) ->
  (forall a e p, In a ch -> find_ent es a = Some e -> issuer_of e = Some p -> In p ch \/ ready es p) ->
  exists es' clock' nk' w, bulk true es ch clock nk idx None wr = (ROk, es', clock', nk', w).
Proof.
  induction ch as [|a rest IH]; intros es clock nk idx wr W G N O F R.
  - cbn. eauto.
  - cbn [bulk]. destruct (F a (or_introl eq_refl)) as (e & Fe). rewrite Fe.
    assert (In e es /\ e_alias e = a) as [He Ea] by (apply find_ent_some; exact Fe).
    inversion N as [|? ? Ha N']; subst. inversion O as [|? ? Hiss O']; subst.
    destruct (generate_succeeds es e (S clock) nk W G He) as (f & nk1 & Gn).
    { intros p Hp. destruct (R (e_alias e) e p (or_introl eq_refl) Fe Hp) as [Hin|Hr]; [|exact Hr].
      exfalso. apply (Hiss e p Fe Hp). exact Hin. }
    rewrite Gn.
    destruct (generate_ok true es e (S clock) nk f nk1 Gn) as (GP & _ & _).
    set (es1 := set_file es (e_alias e) (Some f)).
    apply (IH es1 (S clock) nk1 (S idx) (e_alias e :: wr)); auto.
    + apply set_file_wf. exact W.
    + apply (generable_set_file es (e_alias e) e f W G Fe GP).
    + eapply issuers_first_skeleton; [apply same_skeleton_set_file|exact O'].
    + intros b Hb. destruct (F b (or_intror Hb)) as (eb & Fb). unfold es1. rewrite find_ent_set_file, Fb. eauto.
    + intros b eb' p Hb Fb' Hp.
      unfold es1 in Fb'. rewrite find_ent_set_file in Fb'.
      destruct (find_ent es b) as [eb|] eqn:Fb; [|discriminate].
      assert (issuer_of eb = Some p) as Hp0.
      { inversion Fb'; subst eb'. destruct (Nat.eqb b (e_alias e)); exact Hp. }
      destruct (R b eb p (or_intror Hb) Fb Hp0) as [[<-|Hin]|Hr]; [|left; exact Hin|].
      * (* the issuer is the entity just written: it now has a certificate and, not being request-only, a key *)
        right. unfold ready, es1. rewrite art_set_file_same by eauto.
        pose proof GP as GP0. rewrite art_of_file_at in GP0.
        rewrite (gen_post_import _ _ _ _ GP0).
        destruct (gen_post_material _ _ _ _ GP0) as (c & Cc & Km & _).
        destruct (gen_post_keys _ _ _ _ GP0) as (RO & _).
        assert (In eb es) as Heb by (apply find_ent_some in Fb; tauto).
        destruct (gn_sub _ G eb (e_alias e) Heb Hp0) as (pe & _ & _ & Rq).
        rewrite art_of_file_at, <- RO in Rq.
        split; [congruence|]. unfold req_only, has_key_material in *.
        destruct (f_key f), (f_req f); try discriminate; congruence.
      * right. unfold ready, es1 in *.
        destruct (Nat.eq_dec p (e_alias e)) as [->|Np].
        -- rewrite art_set_file_same by eauto.
           pose proof GP as GP0. rewrite art_of_file_at in GP0.
           rewrite (gen_post_import _ _ _ _ GP0).
           destruct (gen_post_material _ _ _ _ GP0) as (c & Cc & Km & _).
           destruct (gen_post_keys _ _ _ _ GP0) as (RO & _).
           assert (In eb es) as Heb by (apply find_ent_some in Fb; tauto).
           destruct (gn_sub _ G eb (e_alias e) Heb Hp0) as (pe & _ & _ & Rq).
           rewrite art_of_file_at, <- RO in Rq.
           split; [congruence|]. unfold req_only, has_key_material in *.
           destruct (f_key f), (f_req f); try discriminate; congruence.
        -- rewrite art_set_file_other by exact Np. exact Hr.
Qed.

(* C15 (recovery): on a generable hierarchy the default run succeeds from ANY directory state -
   in particular from whatever an interrupted run left behind *)
Theorem default_run_succeeds d :
  forest (d_ents d) -> all_valid (d_ents d) -> generable (d_ents d) ->
  exists d' w, Run d default_strat None = (ROk, d', w).
Proof.
  intros F V G. destruct F as [W R].
  destruct (plan_spec (d_ents d) default_strat (conj W R) V) as (ch & P & Rg & N & O).
  unfold Run, run.
  assert (is_consistent (d_ents d) = true) as IC by (apply is_consistent_iff; assumption).
  rewrite IC, P. cbn [negb].
  destruct (bulk_generable ch (d_ents d) (d_clock d) (d_nextkey d) 0 [] W G N (issuers_first_of_index _ _ N O)) as (es' & c' & n' & w & B).
  - intros a Ha. apply Rg in Ha. inversion Ha; eauto.
  - intros a e p Ha Fe Hp.
    destruct (in_dec Nat.eq_dec p ch) as [Hin|Hn]; [left; exact Hin|right].
    assert (~ regen (d_ents d) default_strat p) as NR by (rewrite <- Rg; exact Hn).
    assert (In e (d_ents d)) as He by (apply find_ent_some in Fe; tauto).
    destruct (gn_sub _ G e p He Hp) as (pe & Fp & _ & Rq).
    destruct (untouched_default _ _ _ Fp NR) as (f0 & c & Ef & Ec & Km & _).
    unfold ready. rewrite art_of_file_at, (file_at_find _ _ _ Fp), Ef in *.
    rewrite import_file_cert, Ec. split; [congruence|].
    rewrite <- has_material_import in Km. unfold req_only, has_key_material in *.
    destruct (f_key (import_file (Some f0))), (f_req (import_file (Some f0))); try discriminate; congruence.
  - rewrite B. eauto.
Qed.

(* ------------------------------------------------------------ generability survives every run *)
Lemma generable_replace es a e g :
  wf_dir es -> generable es -> find_ent es a = Some e ->
  (forall k, f_key (import_file (Some g)) = Some k -> f_key (art es a) = Some k \/ k_typ k = g_kalg (e_cfg e)) ->
  (req_only (import_file (Some g)) = true -> req_only (art es a) = true) ->
  generable (set_file es a (Some g)).
Proof.
  intros W G Fe KT RO.
  assert (In e es /\ e_alias e = a) as [He Ea] by (apply find_ent_some; exact Fe).
  assert (forall b, art (set_file es a (Some g)) b = if Nat.eqb b a then import_file (Some g) else art es b) as A.
  { intros b. destruct (Nat.eqb b a) eqn:E.
    - apply Nat.eqb_eq in E. subst b. apply art_set_file_same. eauto.
    - apply art_set_file_other. intros ->. rewrite Nat.eqb_refl in E. discriminate. }
  assert (forall b, req_only (art es b) = false -> req_only (if Nat.eqb b a then import_file (Some g) else art es b) = false) as RF.
  { intros b Hb. destruct (Nat.eqb b a) eqn:E; [|exact Hb]. apply Nat.eqb_eq in E. subst b.
    destruct (req_only (import_file (Some g))) eqn:Rg; [|reflexivity]. rewrite (RO eq_refl) in Hb. discriminate. }
  constructor.
  - intros e' He'. destruct (in_set_file _ _ _ _ He') as (e0 & H0 & _ & C0). rewrite C0. apply (gn_builds _ G). exact H0.
  - intros e' k He' Hk. destruct (in_set_file _ _ _ _ He') as (e0 & H0 & A0 & C0). rewrite C0.
    rewrite A, A0 in Hk. destruct (Nat.eqb (e_alias e0) a) eqn:E.
    + apply Nat.eqb_eq in E. assert (e0 = e) by (apply (alias_inj es); auto; congruence). subst e0.
      destruct (KT k Hk) as [Hold|Hnew]; [|exact Hnew].
      apply (gn_keytype _ G e k He). rewrite Ea. exact Hold.
    + apply (gn_keytype _ G e0 k H0). exact Hk.
  - intros e' He' Hi. destruct (in_set_file _ _ _ _ He') as (e0 & H0 & A0 & C0).
    assert (issuer_of e0 = None) as Hi0 by (unfold issuer_of in *; rewrite <- C0; exact Hi).
    destruct (gn_root _ G e0 H0 Hi0) as (T & R). rewrite C0. split; [exact T|].
    rewrite A, A0. apply RF. exact R.
  - intros e' p He' Hi. destruct (in_set_file _ _ _ _ He') as (e0 & H0 & A0 & C0).
    assert (issuer_of e0 = Some p) as Hi0 by (unfold issuer_of in *; rewrite <- C0; exact Hi).
    destruct (gn_sub _ G e0 p H0 Hi0) as (pe & Fp & T & R).
    rewrite find_ent_set_file, Fp.
    eexists. split; [reflexivity|]. rewrite C0. split.
    + destruct (Nat.eqb p a); cbn; exact T.
    + rewrite A. apply RF. exact R.
Qed.

Lemma torn_keys kp f k : f_key (import_file (Some (torn_file kp f))) = Some k -> f_key f = Some k.
Proof.
  rewrite import_file_key. cbn [torn_file f_key]. destruct (kp_key kp); [auto|discriminate].
Qed.

Lemma torn_req_only kp f : import_file (Some f) = f ->
  req_only (import_file (Some (torn_file kp f))) = true -> req_only f = true.
Proof.
  destruct f as [h c k r m], kp as [a b x y]. unfold req_only. cbn.
  destruct x, y, k, r; cbn; try discriminate; auto.
Qed.

Lemma generable_torn es a e f kp :
  wf_dir es -> generable es -> find_ent es a = Some e -> gen_post es e (art es a) f ->
  generable (set_file es a (Some (torn_file kp f))).
Proof.
  intros W G Fe GP. pose proof GP as GP0. rewrite art_of_file_at in GP0.
  pose proof (gen_post_import _ _ _ _ GP0) as Imp.
  destruct (gen_post_keys _ _ _ _ GP0) as (RO & KT).
  apply (generable_replace es a e _ W G Fe).
  - intros k Hk. apply torn_keys in Hk. rewrite art_of_file_at. apply KT. exact Hk.
  - intros H. apply (torn_req_only kp f Imp) in H. rewrite art_of_file_at, <- RO. exact H.
Qed.

Lemma bulk_keeps_generable : forall ch es clock nk idx wr es' clock' nk' w,
  wf_dir es -> generable es ->
  bulk true es ch clock nk idx None wr = (ROk, es', clock', nk', w) -> generable es'.
Proof.
  induction ch as [|a rest IH]; intros es clock nk idx wr es' clock' nk' w W G H.
  - cbn in H. inversion H; subst. exact G.
  - cbn [bulk] in H. destruct (find_ent es a) as [e|] eqn:Fe; [|discriminate].
    destruct (generate true es e (S clock) nk) as [[r fo] nk1] eqn:Gn.
    destruct r; try discriminate. destruct fo as [f|]; [|discriminate].
    destruct (generate_ok true es e (S clock) nk f nk1 Gn) as (GP & _ & _).
    assert (e_alias e = a) as Ea by (apply find_ent_some in Fe; tauto). rewrite Ea in GP.
    eapply IH; [| |exact H].
    + apply set_file_wf. exact W.
    + rewrite <- (torn_full f). apply (generable_torn es a e f _ W G Fe GP).
Qed.

Theorem any_run_keeps_generable d s fault r d' w :
  wf_dir (d_ents d) -> generable (d_ents d) -> Run d s fault = (r, d', w) -> generable (d_ents d').
Proof.
  intros W G H. unfold Run, run in H.
  destruct (is_consistent (d_ents d)); cbn [negb] in H; [|inversion H; subst; exact G].
  destruct (plan true (d_ents d) s) as [ch|]; [|inversion H; subst; exact G].
  destruct (bulk true (d_ents d) ch (d_clock d) (d_nextkey d) 0 fault []) as [[[[r0 es'] clock'] nk'] w'] eqn:B.
  inversion H; subst. cbn [d_ents].
  destruct (bulk_decompose true _ _ _ _ _ _ _ _ _ _ _ _ B) as (j & es_j & nk_j & w_j & Hj & Pj & D).
  pose proof (bulk_keeps_generable _ _ _ _ _ _ _ _ _ _ W G Pj) as Gj.
  destruct D as [(E1 & _)|(a & e & f & nk1 & kp & Hn & Fe & Gn & E1 & _)]; subst es'; [exact Gj|].
  destruct (generate_ok true es_j e _ _ f nk1 Gn) as (GP & _ & _).
  assert (e_alias e = a) as Ea by (apply find_ent_some in Fe; tauto). rewrite Ea in GP.
  apply (generable_torn es_j a e f kp); auto.
  eapply skel_wf; [|exact W]. eapply bulk_skel; eauto.
Qed.

(* C15, assembled: interrupt any run anywhere; the next default run completes, leaves a good directory,
   and the run after that does nothing *)
Theorem crash_recovery d s fault r d1 w :
  wf_dir (d_ents d) -> dir_inv d = true -> blind_free (d_ents d) ->
  forest (d_ents d) -> all_valid (d_ents d) -> generable (d_ents d) ->
  Run d s fault = (r, d1, w) ->
  exists d2 w2, Run d1 default_strat None = (ROk, d2, w2) /\ good (d_ents d2) = true /\
                Run d2 default_strat None = (ROk, d2, []).
Proof.
  intros W I B F V G R.
  pose proof (run_skel d s fault r d1 w R) as Sk.
  assert (wf_dir (d_ents d1)) as W1 by (eapply skel_wf; eauto).
  assert (forest (d_ents d1)) as F1.
  { split; [exact W1|]. apply is_consistent_iff; [exact W1|]. rewrite (skel_consistent _ _ Sk).
    apply is_consistent_iff; [exact W|apply F]. }
  assert (all_valid (d_ents d1)) as V1 by (eapply skel_valid; eauto).
  pose proof (any_run_preserves_inv d s fault r d1 w W I B R) as I1.
  pose proof (any_run_keeps_generable d s fault r d1 w W G R) as G1.
  destruct (default_run_succeeds d1 F1 V1 G1) as (d2 & w2 & R2).
  exists d2, w2. split; [exact R2|]. split.
  - eapply converges_good; eauto. eapply skel_blind_free; eauto.
  - eapply run_idempotent; eauto. apply dir_inv_clock. exact I1.
Qed.
