(* The executable search oracles of Spec/RegenSpec.v agree with the relations they stand for. *)
From Coq Require Import List Arith Bool Lia.
From Gopki.Model Require Import Dir Plan.
From Gopki.Spec Require Import RegenSpec.
Import ListNotations.

Lemma reachb_sound es : forall fuel a, reachb fuel es a = true -> reaches_root es a.
Proof.
  induction fuel as [|f IH]; intros a H; [discriminate|]. cbn [reachb] in H.
  destruct (find_ent es a) as [e|] eqn:Fe; [|discriminate].
  destruct (issuer_of e) as [p|] eqn:Ie.
  - eapply rr_step; eauto.
  - eapply rr_root; eauto.
Qed.

Lemma reachb_mono es : forall fuel a, reachb fuel es a = true -> reachb (S fuel) es a = true.
Proof.
  induction fuel as [|f IH]; intros a H; [discriminate|]. cbn [reachb] in *.
  destruct (find_ent es a) as [e|]; [|discriminate]. destruct (issuer_of e) as [p|]; [|reflexivity].
  apply IH. exact H.
Qed.

Lemma reachb_mono_le es a : forall m n, n <= m -> reachb n es a = true -> reachb m es a = true.
Proof. induction 1 as [|m Hle IH]; intros H; [exact H|]. apply reachb_mono. apply IH. exact H. Qed.

Lemma reachb_complete es a : reaches_root es a -> exists fuel, reachb fuel es a = true.
Proof.
  induction 1 as [a e Fe Ie|a e p Fe Ie _ [f IH]].
  - exists 1. cbn. rewrite Fe, Ie. reflexivity.
  - exists (S f). cbn [reachb]. rewrite Fe, Ie. exact IH.
Qed.

Theorem reachb_iff es a : reaches_root es a <-> exists fuel, reachb fuel es a = true.
Proof. split; [apply reachb_complete|intros [f H]; eapply reachb_sound; eauto]. Qed.

Lemma regenb_sound es s : forall fuel a, regenb fuel es s a = true -> regen es s a.
Proof.
  induction fuel as [|f IH]; intros a H; [discriminate|]. cbn [regenb] in H.
  destruct (find_ent es a) as [e|] eqn:Fe; [|discriminate].
  apply orb_true_iff in H as [H|H]; [apply orb_true_iff in H as [H|H]|].
  - eapply regen_all; eauto.
  - eapply regen_local; eauto.
  - destruct (issuer_of e) as [p|] eqn:Ie; [|discriminate]. eapply regen_issuer; eauto.
Qed.

Lemma regenb_mono es s : forall fuel a, regenb fuel es s a = true -> regenb (S fuel) es s a = true.
Proof.
  induction fuel as [|f IH]; intros a H; [discriminate|]. cbn [regenb] in *.
  destruct (find_ent es a) as [e|]; [|discriminate].
  apply orb_true_iff in H as [H|H]; [rewrite H; reflexivity|].
  destruct (issuer_of e) as [p|]; [|discriminate]. rewrite (IH p H). apply orb_true_r.
Qed.

Lemma regenb_complete es s a : regen es s a -> exists fuel, regenb fuel es s a = true.
Proof.
  induction 1 as [a e Fe Ha|a e p Fe Ie _ [f IH]|a e Fe Hl].
  - exists 1. cbn. rewrite Fe, Ha. reflexivity.
  - exists (S f). cbn [regenb]. rewrite Fe, Ie, IH. apply orb_true_r.
  - exists 1. cbn. rewrite Fe, Hl. rewrite orb_true_r. reflexivity.
Qed.

Theorem regenb_iff es s a : regen es s a <-> exists fuel, regenb fuel es s a = true.
Proof. split; [apply regenb_complete|intros [f H]; eapply regenb_sound; eauto]. Qed.
