From Coq Require Import List Arith Bool Lia.
From Gopki.Model Require Import Dir Plan Run.
From Gopki.Spec Require Import RegenSpec DirInv.
From Gopki.Proofs Require Import PlanProofs.
Import ListNotations.

(* ------------------------------------------------------------ set_file *)
Lemma set_file_aliases es a f : map e_alias (set_file es a f) = map e_alias es.
Proof.
  unfold set_file. rewrite map_map. apply map_ext. intros e.
  destruct (Nat.eqb (e_alias e) a); reflexivity.
Qed.

Lemma set_file_wf es a f : wf_dir es -> wf_dir (set_file es a f).
Proof. unfold wf_dir. rewrite set_file_aliases. auto. Qed.

Lemma find_ent_set_file es a f b :
  find_ent (set_file es a f) b =
  match find_ent es b with
  | Some e => Some (if Nat.eqb b a then mkEnt (e_alias e) (e_cfg e) (e_cfg_mtime e) f else e)
  | None => None
  end.
Proof.
  unfold find_ent, set_file. induction es as [|x es IH]; [reflexivity|].
  cbn [map find].
  destruct (Nat.eqb (e_alias x) a) eqn:Ea; cbn [e_alias].
  - destruct (Nat.eqb (e_alias x) b) eqn:Eb.
    + apply Nat.eqb_eq in Ea, Eb. subst. rewrite Nat.eqb_refl. reflexivity.
    + exact IH.
  - destruct (Nat.eqb (e_alias x) b) eqn:Eb.
    + apply Nat.eqb_eq in Eb. subst b. rewrite Ea. reflexivity.
    + exact IH.
Qed.

Lemma file_at_set_file es a f b : (exists e, find_ent es a = Some e) ->
  file_at (set_file es a f) b = if Nat.eqb b a then f else file_at es b.
Proof.
  intros (e & Fe). unfold file_at. rewrite find_ent_set_file.
  destruct (Nat.eqb b a) eqn:E.
  - apply Nat.eqb_eq in E. subst. rewrite Fe. reflexivity.
  - destruct (find_ent es b); reflexivity.
Qed.

(* entities keep alias, configuration and configuration mtime *)
Definition same_skeleton (es es' : list ent) : Prop :=
  Forall2 (fun e e' => e_alias e' = e_alias e /\ e_cfg e' = e_cfg e /\ e_cfg_mtime e' = e_cfg_mtime e) es es'.

Lemma same_skeleton_refl es : same_skeleton es es.
Proof. induction es; constructor; auto. Qed.

Lemma same_skeleton_trans a b c : same_skeleton a b -> same_skeleton b c -> same_skeleton a c.
Proof.
  unfold same_skeleton. intros H. revert c. induction H as [|x y l l' (A1 & A2 & A3) H IH]; intros c Hc.
  - inversion Hc. constructor.
  - inversion Hc as [|? z ? l'' (B1 & B2 & B3) H']; subst. constructor; [|apply IH; assumption].
    repeat split; congruence.
Qed.

Lemma same_skeleton_set_file es a f : same_skeleton es (set_file es a f).
Proof.
  unfold set_file. induction es as [|x es IH]; cbn; constructor; [|exact IH].
  destruct (Nat.eqb (e_alias x) a); cbn; auto.
Qed.

Lemma same_skeleton_aliases es es' : same_skeleton es es' -> map e_alias es' = map e_alias es.
Proof. induction 1 as [|x y l l' (A & _) H IH]; cbn; [reflexivity|]. rewrite A, IH. reflexivity. Qed.

Lemma same_skeleton_find es es' a : same_skeleton es es' ->
  match find_ent es a, find_ent es' a with
  | Some e, Some e' => e_alias e' = e_alias e /\ e_cfg e' = e_cfg e /\ e_cfg_mtime e' = e_cfg_mtime e
  | None, None => True
  | _, _ => False
  end.
Proof.
  unfold find_ent. induction 1 as [|x y l l' (A1 & A2 & A3) H IH]; cbn [find]; [exact I|].
  rewrite A1. destruct (Nat.eqb (e_alias x) a); [auto|exact IH].
Qed.

(* ------------------------------------------------------------ one generation *)
Definition gen_post (es' : list ent) (e : ent) (aold : file) (f : file) : Prop :=
  let c0 := e_cfg e in
  f_hash f = Some (hview_of c0) /\
  f_req f = f_req aold /\
  match f_key aold with
  | Some k => f_key f = Some k
  | None => match f_req aold with
            | Some _ => f_key f = None
            | None => exists id, f_key f = Some (mkKey id (g_kalg c0))
            end
  end /\
  exists c, f_cert f = Some c /\ c_subj c = g_subj c0 /\ c_vis c = g_vis c0 /\ c_blind c = g_blind c0 /\
    c_expired c = negb (g_until_future c0) /\
    c_pub c = match f_key f with Some k => k_id k | None => match f_req aold with Some r => r | None => 0 end end /\
    match g_issuer c0 with
    | None => exists k, f_key f = Some k /\ k_typ k = g_salg c0 /\ c_signer c = k_id k /\ c_iss c = g_subj c0
    | Some p => exists pc pk, f_cert (art es' p) = Some pc /\ f_key (art es' p) = Some pk /\
                              k_typ pk = g_salg c0 /\ c_signer c = k_id pk /\ c_iss c = c_subj pc
    end.

Lemma ktype_eqb_eq a b : ktype_eqb a b = true -> a = b.
Proof. destruct a, b; cbn; congruence. Qed.

Lemma generate_ok fn mem e now nk f nk' :
  generate fn mem e now nk = (ROk, Some f, nk') ->
  gen_post mem e (art mem (e_alias e)) f /\ f_mtime f = now /\ g_builds (e_cfg e) = true.
Proof.
  unfold generate. destruct (g_builds (e_cfg e)) eqn:Eb; cbn [negb]; [|discriminate].
  set (a := art mem (e_alias e)).
  destruct (f_key a) as [k|] eqn:Ek.
  - (* existing key *)
    destruct (g_issuer (e_cfg e)) as [p|] eqn:Ei.
    + destruct (f_cert (art mem p)) as [pc|] eqn:Epc; [|destruct fn; discriminate].
      destruct (f_key (art mem p)) as [pk|] eqn:Epk; [|discriminate].
      destruct (ktype_eqb (k_typ pk) (g_salg (e_cfg e))) eqn:Et; [|discriminate].
      intros H. inversion H; subst. split; [|split; reflexivity].
      unfold gen_post. cbn. rewrite Ek, Ei. repeat split.
      eexists. repeat split. exists pc, pk. repeat split; auto. apply ktype_eqb_eq. exact Et.
    + destruct (ktype_eqb (k_typ k) (g_salg (e_cfg e))) eqn:Et; [|discriminate].
      intros H. inversion H; subst. split; [|split; reflexivity].
      unfold gen_post. cbn. rewrite Ek, Ei. repeat split.
      eexists. repeat split. exists k. repeat split; auto. apply ktype_eqb_eq. exact Et.
  - destruct (f_req a) as [r|] eqn:Er.
    + (* request only *)
      destruct (g_issuer (e_cfg e)) as [p|] eqn:Ei; [|discriminate].
      destruct (f_cert (art mem p)) as [pc|] eqn:Epc; [|destruct fn; discriminate].
      destruct (f_key (art mem p)) as [pk|] eqn:Epk; [|discriminate].
      destruct (ktype_eqb (k_typ pk) (g_salg (e_cfg e))) eqn:Et; [|discriminate].
      intros H. inversion H; subst. split; [|split; reflexivity].
      unfold gen_post. cbn. rewrite Ek, Er, Ei. repeat split.
      eexists. repeat split. exists pc, pk. repeat split; auto. apply ktype_eqb_eq. exact Et.
    + (* fresh key *)
      destruct (g_issuer (e_cfg e)) as [p|] eqn:Ei.
      * destruct (f_cert (art mem p)) as [pc|] eqn:Epc; [|destruct fn; discriminate].
        destruct (f_key (art mem p)) as [pk|] eqn:Epk; [|discriminate].
        destruct (ktype_eqb (k_typ pk) (g_salg (e_cfg e))) eqn:Et; [|discriminate].
        intros H. inversion H; subst. split; [|split; reflexivity].
        unfold gen_post. cbn. rewrite Ek, Er, Ei. repeat split; [eexists; reflexivity|].
        eexists. repeat split. exists pc, pk. repeat split; auto. apply ktype_eqb_eq. exact Et.
      * cbn [k_typ]. destruct (ktype_eqb (g_kalg (e_cfg e)) (g_salg (e_cfg e))) eqn:Et; [|discriminate].
        intros H. inversion H; subst. split; [|split; reflexivity].
        unfold gen_post. cbn. rewrite Ek, Er, Ei. repeat split; [eexists; reflexivity|].
        eexists. repeat split. eexists. repeat split; auto. cbn. apply ktype_eqb_eq. exact Et.
Qed.

Lemma gen_post_transport es1 es2 e aold f :
  (forall p, g_issuer (e_cfg e) = Some p -> art es2 p = art es1 p) ->
  gen_post es1 e aold f -> gen_post es2 e aold f.
Proof.
  unfold gen_post. intros T (H1 & H2 & H3 & c & C1 & C2 & C3 & C4 & C5 & C6 & C7).
  repeat split; auto. exists c. repeat split; auto.
  destruct (g_issuer (e_cfg e)) as [p|]; [|exact C7]. rewrite (T p eq_refl). exact C7.
Qed.

(* ------------------------------------------------------------ order of the change list *)
Inductive issuers_first (es : list ent) : list alias -> Prop :=
| if_nil : issuers_first es []
| if_cons a rest :
    (forall e p, find_ent es a = Some e -> issuer_of e = Some p -> ~ In p (a :: rest)) ->
    issuers_first es rest -> issuers_first es (a :: rest).

Lemma issuers_first_of_index es ch : NoDup ch ->
  (forall i j x y e, nth_error ch i = Some x -> nth_error ch j = Some y ->
                     find_ent es y = Some e -> issuer_of e = Some x -> i < j) ->
  issuers_first es ch.
Proof.
  induction ch as [|a rest IH]; intros N H; constructor.
  - intros e p Fe Hi Hin. apply In_nth_error in Hin as (j & Hj).
    specialize (H j 0 p a e Hj eq_refl Fe Hi). lia.
  - apply IH; [inversion N; assumption|].
    intros i j x y e Hi Hj Fe Hiss. specialize (H (S i) (S j) x y e Hi Hj Fe Hiss). lia.
Qed.

Lemma issuers_first_skeleton es es' ch : same_skeleton es es' -> issuers_first es ch -> issuers_first es' ch.
Proof.
  intros S. induction 1 as [|a rest H _ IH]; constructor; [|exact IH].
  intros e' p Fe' Hi. pose proof (same_skeleton_find es es' a S) as F. rewrite Fe' in F.
  destruct (find_ent es a) as [e|] eqn:Fe; [|contradiction]. destruct F as (_ & F2 & _).
  apply (H e p eq_refl). unfold issuer_of in *. rewrite <- F2. exact Hi.
Qed.

Lemma art_set_file_other es a f b : b <> a -> art (set_file es a f) b = art es b.
Proof.
  intros Hne. unfold art. rewrite find_ent_set_file.
  destruct (find_ent es b) as [e|]; [|reflexivity].
  destruct (Nat.eqb b a) eqn:E; [apply Nat.eqb_eq in E; contradiction|reflexivity].
Qed.

Lemma art_of_file_at es a : art es a = import_file (file_at es a).
Proof. unfold art, file_at. destruct (find_ent es a); reflexivity. Qed.

(* ------------------------------------------------------------ BulkUpdate without faults *)
Lemma bulk_post fn : forall ch es clock nk idx wr es' clock' nk' w,
  wf_dir es -> NoDup ch -> issuers_first es ch ->
  bulk fn es ch clock nk idx None wr = (ROk, es', clock', nk', w) ->
  same_skeleton es es' /\ w = rev wr ++ ch /\ clock' = clock + length ch /\
  (forall a, ~ In a ch -> file_at es' a = file_at es a) /\
  (forall i a, nth_error ch i = Some a ->
     exists e f, find_ent es a = Some e /\ file_at es' a = Some f /\
                 gen_post es' e (art es a) f /\ f_mtime f = clock + S i).
Proof.
  induction ch as [|a rest IH]; intros es clock nk idx wr es' clock' nk' w W N O H.
  - cbn in H. inversion H; subst. repeat split.
    + apply same_skeleton_refl.
    + rewrite app_nil_r. reflexivity.
    + cbn. lia.
    + intros i a Hi. destruct i; discriminate.
  - cbn [bulk] in H.
    destruct (find_ent es a) as [e|] eqn:Fe; [|discriminate].
    destruct (generate fn es e (S clock) nk) as [[r fo] nk1] eqn:G.
    destruct r; try discriminate. destruct fo as [f|]; [|discriminate].
    inversion N as [|? ? Ha N']; subst. inversion O as [|? ? Hiss O']; subst.
    assert (e_alias e = a) as Ea by (apply find_ent_some in Fe; tauto).
    pose proof (generate_ok fn es e (S clock) nk f nk1 G) as (GP & Gm & _).
    set (es1 := set_file es a (Some f)) in *.
    assert (same_skeleton es es1) as S1 by apply same_skeleton_set_file.
    destruct (IH es1 (S clock) nk1 (S idx) (a :: wr) es' clock' nk' w) as (S2 & Ew & Ec & U & G2); auto.
    { apply set_file_wf. exact W. }
    { eapply issuers_first_skeleton; eauto. }
    split; [eapply same_skeleton_trans; eauto|].
    split; [rewrite Ew; cbn [rev]; rewrite <- app_assoc; reflexivity|].
    split; [cbn [length]; lia|].
    assert (forall b, ~ In b (a :: rest) -> file_at es' b = file_at es b) as U'.
    { intros b Hb. rewrite U by (intros Hin; apply Hb; right; exact Hin).
      unfold es1. rewrite file_at_set_file by eauto.
      destruct (Nat.eqb b a) eqn:E; [|reflexivity]. apply Nat.eqb_eq in E. exfalso. apply Hb. left. auto. }
    split; [exact U'|].
    intros i b Hi. destruct i as [|i].
    + cbn in Hi. inversion Hi; subst b. exists e, f. split; [exact Fe|]. split; [|split].
      * rewrite U by exact Ha. unfold es1. rewrite file_at_set_file by eauto. rewrite Nat.eqb_refl. reflexivity.
      * rewrite Ea in GP. apply (gen_post_transport es); [|exact GP].
        intros p Hp. rewrite !art_of_file_at. f_equal. apply U'.
        apply (Hiss e p Fe). exact Hp.
      * lia.
    + cbn in Hi. destruct (G2 i b Hi) as (e1 & f1 & Fe1 & Ff1 & GP1 & Gm1).
      assert (b <> a) as Hne by (intros ->; apply Ha; eapply nth_error_In; eauto).
      unfold es1 in Fe1. rewrite find_ent_set_file in Fe1.
      destruct (find_ent es b) as [eb|] eqn:Feb; [|discriminate].
      destruct (Nat.eqb b a) eqn:E; [apply Nat.eqb_eq in E; contradiction|].
      inversion Fe1; subst e1. exists eb, f1. split; [reflexivity|]. split; [exact Ff1|]. split; [|lia].
      unfold es1 in GP1. rewrite art_set_file_other in GP1 by exact Hne. exact GP1.
Qed.

(* ------------------------------------------------------------ a successful fault-free run *)
Definition Run := run true true.

Lemma all_valid_dec es : {all_valid es} + {exists e, In e es /\ g_valid (e_cfg e) = false}.
Proof.
  destruct (forallb (fun e => g_valid (e_cfg e)) es) eqn:E.
  - left. intros e He. rewrite forallb_forall in E. apply E. exact He.
  - right. assert (existsb (fun e => negb (g_valid (e_cfg e))) es = true) as X.
    { clear -E. induction es as [|x es IH]; [discriminate|]. cbn in *.
      destruct (g_valid (e_cfg x)); cbn in *; [apply IH; exact E|reflexivity]. }
    apply existsb_exists in X as (e & He & Hv). exists e. split; [exact He|].
    destruct (g_valid (e_cfg e)); [discriminate|reflexivity].
Qed.

Record ok_facts (d d' : dir) (s : strat) (w : list alias) : Prop := {
  of_forest : forest (d_ents d);
  of_valid : all_valid (d_ents d);
  of_skel : same_skeleton (d_ents d) (d_ents d');
  of_clock : d_clock d' = d_clock d + length w;
  of_nodup : NoDup w;
  of_regen : forall a, In a w <-> regen (d_ents d) s a;
  of_order : forall i j x y e, nth_error w i = Some x -> nth_error w j = Some y ->
                               find_ent (d_ents d) y = Some e -> issuer_of e = Some x -> i < j;
  of_untouched : forall a, ~ In a w -> file_at (d_ents d') a = file_at (d_ents d) a;
  of_written : forall i a, nth_error w i = Some a ->
     exists e f, find_ent (d_ents d) a = Some e /\ file_at (d_ents d') a = Some f /\
                 gen_post (d_ents d') e (art (d_ents d) a) f /\ f_mtime f = d_clock d + S i
}.

Lemma run_ok_facts d s d' w : wf_dir (d_ents d) -> Run d s None = (ROk, d', w) -> ok_facts d d' s w.
Proof.
  intros W H. unfold Run, run in H.
  destruct (is_consistent (d_ents d)) eqn:C; cbn [negb] in H; [|discriminate].
  assert (forest (d_ents d)) as F by (split; [exact W|apply is_consistent_iff; assumption]).
  destruct (plan true (d_ents d) s) as [ch|] eqn:P; [|discriminate].
  assert (all_valid (d_ents d)) as V.
  { destruct (all_valid_dec (d_ents d)) as [V|X]; [exact V|].
    rewrite (plan_invalid _ s F X) in P. discriminate. }
  destruct (plan_spec (d_ents d) s F V) as (ch' & P' & R & N & O).
  rewrite P in P'. inversion P'; subst ch'.
  destruct (bulk true (d_ents d) ch (d_clock d) (d_nextkey d) 0 None []) as [[[[r es'] clock'] nk'] w'] eqn:B.
  inversion H; subst r d' w'.
  destruct (bulk_post true ch (d_ents d) (d_clock d) (d_nextkey d) 0 [] es' clock' nk' w W N
              (issuers_first_of_index _ _ N O) B) as (S & Ew & Ec & U & G).
  cbn in Ew. subst w. constructor; cbn [d_ents d_clock]; auto.
Qed.

(* ------------------------------------------------------------ helpers *)
Lemma ktype_eqb_refl a : ktype_eqb a a = true.
Proof. destruct a; reflexivity. Qed.
Lemma opt_nat_eqb_refl a : opt_nat_eqb a a = true.
Proof. destruct a; cbn; [apply Nat.eqb_refl|reflexivity]. Qed.
Lemma hview_eqb_refl h : hview_eqb h h = true.
Proof. unfold hview_eqb. rewrite opt_nat_eqb_refl, !Nat.eqb_refl, !ktype_eqb_refl. reflexivity. Qed.
Lemma opt_nat_eqb_eq a b : opt_nat_eqb a b = true -> a = b.
Proof. destruct a, b; cbn; try discriminate; [rewrite Nat.eqb_eq; congruence|reflexivity]. Qed.
Lemma hview_eqb_eq a b : hview_eqb a b = true -> a = b.
Proof.
  unfold hview_eqb. intros H. repeat (apply andb_prop in H as [H ?]).
  destruct a, b; cbn in *. apply opt_nat_eqb_eq in H. apply Nat.eqb_eq in H3, H2.
  apply ktype_eqb_eq in H1, H0. congruence.
Qed.

Lemma skel_roots es es' : same_skeleton es es' -> roots es' = roots es.
Proof.
  unfold roots, issuer_of. induction 1 as [|x y l l' (A1 & A2 & A3) H IH]; [reflexivity|].
  cbn [filter]. rewrite A2. destruct (g_issuer (e_cfg x)); cbn [map]; rewrite ?A1, IH; reflexivity.
Qed.
Lemma skel_children es es' a : same_skeleton es es' -> children es' a = children es a.
Proof.
  unfold children, issuer_of. induction 1 as [|x y l l' (A1 & A2 & A3) H IH]; [reflexivity|].
  cbn [filter]. rewrite A2. destruct (g_issuer (e_cfg x)) as [p|]; [|exact IH].
  destruct (Nat.eqb p a); cbn [map]; rewrite ?A1, IH; reflexivity.
Qed.
Lemma skel_length es es' : same_skeleton es es' -> length es' = length es.
Proof. induction 1; cbn; congruence. Qed.
Lemma skel_count es es' : same_skeleton es es' -> forall fuel q n, count_loop fuel es' q n = count_loop fuel es q n.
Proof.
  intros S. induction fuel as [|f IH]; intros q n; [reflexivity|]. cbn [count_loop].
  destruct q as [|a q]; [reflexivity|]. rewrite (skel_children es es' a S). apply IH.
Qed.
Lemma skel_consistent es es' : same_skeleton es es' -> is_consistent es' = is_consistent es.
Proof.
  intros S. unfold is_consistent. rewrite (skel_length es es' S), (skel_roots es es' S), (skel_count es es' S). reflexivity.
Qed.
Lemma skel_wf es es' : same_skeleton es es' -> wf_dir es -> wf_dir es'.
Proof. unfold wf_dir. intros S. rewrite (same_skeleton_aliases es es' S). auto. Qed.
Lemma skel_valid es es' : same_skeleton es es' -> all_valid es -> all_valid es'.
Proof.
  intros S V. induction S as [|x y l l' (A1 & A2 & A3) H IH]; intros e He; [contradiction|].
  destruct He as [<-|He].
  - rewrite A2. apply V. left. reflexivity.
  - apply IH; [|exact He]. intros e' He'. apply V. right. exact He'.
Qed.

Lemma regen_none es s : s_all s = false ->
  (forall e, In e es -> local_reason es s e = false) -> forall a, ~ regen es s a.
Proof.
  intros Ha L a H. induction H as [a e Fe A|a e p Fe Hi Hp IH|a e Fe Hl].
  - congruence.
  - exact IH.
  - apply find_ent_some in Fe as [Fe _]. rewrite (L e Fe) in Hl. discriminate.
Qed.

Lemma import_file_idem f : import_file (Some (import_file f)) = import_file f.
Proof.
  destruct f as [f|]; cbn; [|reflexivity].
  destruct (f_key f) eqn:K, (f_req f) eqn:R; cbn; rewrite ?K, ?R; reflexivity.
Qed.

Lemma import_no_both x k : f_key (import_file x) = Some k -> f_req (import_file x) = None.
Proof.
  destruct x as [f|]; cbn; [|discriminate].
  destruct (f_key f) eqn:K, (f_req f) eqn:R; cbn; rewrite ?K, ?R; congruence.
Qed.

Lemma gen_post_import es' e x f : gen_post es' e (import_file x) f -> import_file (Some f) = f.
Proof.
  intros (_ & R & K & _). cbn.
  destruct (f_key (import_file x)) as [k|] eqn:Ek.
  - rewrite K. rewrite R, (import_no_both x k Ek). reflexivity.
  - destruct (f_req (import_file x)) as [r|] eqn:Er.
    + rewrite K. reflexivity.
    + destruct K as (id & ->). rewrite R. reflexivity.
Qed.

Lemma gen_post_material es' e x f : gen_post es' e (import_file x) f ->
  exists c, f_cert f = Some c /\ has_key_material f = true /\ c_expired c = negb (g_until_future (e_cfg e)).
Proof.
  intros (_ & R & K & c & C1 & _ & _ & _ & C5 & _). exists c. split; [exact C1|]. split; [|exact C5].
  unfold has_key_material.
  destruct (f_key (import_file x)) as [k|] eqn:Ek; [rewrite K; reflexivity|].
  destruct (f_req (import_file x)) as [r|] eqn:Er.
  - rewrite K, R. reflexivity.
  - destruct K as (id & ->). reflexivity.
Qed.

Definition clock_ok (d : dir) : Prop :=
  forall e, In e (d_ents d) -> e_cfg_mtime e <= d_clock d /\ mtime_of (e_file e) <= d_clock d.

Lemma file_at_find es a e : find_ent es a = Some e -> file_at es a = e_file e.
Proof. unfold file_at. intros ->. reflexivity. Qed.

(* ------------------------------------------------------------ C10: nothing left to do after a successful run *)
Lemma mtime_after d d' s w a : ok_facts d d' s w -> clock_ok d -> wf_dir (d_ents d) ->
  forall e, find_ent (d_ents d) a = Some e ->
  (forall i, nth_error w i = Some a -> mtime_of (file_at (d_ents d') a) = d_clock d + S i) /\
  (~ In a w -> mtime_of (file_at (d_ents d') a) <= d_clock d).
Proof.
  intros F C W e Fe. split.
  - intros i Hi. destruct (of_written _ _ _ _ F i a Hi) as (e0 & f & _ & Ff & _ & Hm). rewrite Ff. exact Hm.
  - intros Hn. rewrite (of_untouched _ _ _ _ F a Hn), (file_at_find _ _ _ Fe).
    apply C. apply find_ent_some in Fe. tauto.
Qed.

Lemma post_local_false d d' s w : wf_dir (d_ents d) -> clock_ok d -> ok_facts d d' s w ->
  forall e', In e' (d_ents d') -> local_reason (d_ents d') s e' = false.
Proof.
  intros W C F e' He'.
  pose proof (of_skel _ _ _ _ F) as S.
  assert (wf_dir (d_ents d')) as W' by (eapply skel_wf; eauto).
  set (a := e_alias e').
  pose proof (find_ent_in _ _ W' He') as Fe'. fold a in Fe'.
  pose proof (same_skeleton_find _ _ a S) as SF. rewrite Fe' in SF.
  destruct (find_ent (d_ents d) a) as [e|] eqn:Fe; [|contradiction]. destruct SF as (A1 & A2 & A3).
  assert (In e (d_ents d)) as He by (apply find_ent_some in Fe; tauto).
  (* the issuer-newer disjunct, common to both cases *)
  assert (forall p pe', issuer_of e' = Some p -> find_ent (d_ents d') p = Some pe' ->
            In a w -> Nat.ltb (mtime_of (e_file e')) (mtime_of (e_file pe')) = false) as IssW.
  { intros p pe' Hi Fp Hin. apply Nat.ltb_ge.
    apply In_nth_error in Hin as (i & Hi').
    rewrite <- (file_at_find _ _ _ Fe'), <- (file_at_find _ _ _ Fp).
    pose proof (same_skeleton_find _ _ p S) as SP. rewrite Fp in SP.
    destruct (find_ent (d_ents d) p) as [pe|] eqn:Fpe; [|contradiction].
    destruct (mtime_after d d' s w a F C W e Fe) as [Ma _]. rewrite (Ma i Hi').
    destruct (mtime_after d d' s w p F C W pe Fpe) as [Mp Mp'].
    destruct (in_dec Nat.eq_dec p w) as [Hp|Hp].
    - apply In_nth_error in Hp as (j & Hj). rewrite (Mp j Hj).
      assert (issuer_of e = Some p) as Hi0 by (unfold issuer_of in *; rewrite <- A2; exact Hi).
      pose proof (of_order _ _ _ _ F j i p a e Hj Hi' Fe Hi0). lia.
    - specialize (Mp' Hp). lia. }
  destruct (in_dec Nat.eq_dec a w) as [Hin|Hnin].
  - (* regenerated in this run *)
    destruct (In_nth_error _ _ Hin) as (i & Hi).
    destruct (of_written _ _ _ _ F i a Hi) as (e0 & f & Fe0 & Ff & GP & Hm).
    rewrite Fe in Fe0. inversion Fe0; subst e0.
    rewrite (file_at_find _ _ _ Fe') in Ff.
    rewrite art_of_file_at in GP.
    pose proof (gen_post_import _ _ _ _ GP) as Imp.
    destruct (gen_post_material _ _ _ _ GP) as (c & Cc & Km & Cx).
    destruct GP as (Hh & _).
    unfold local_reason. rewrite Ff, Imp.
    assert (key_material_missing f = false) as M1.
    { unfold key_material_missing, has_key_material in *. rewrite Cc. destruct (f_key f), (f_req f); auto; discriminate. }
    rewrite M1, Hh, A2, hview_eqb_refl, Cc, Cx. cbn [negb andb orb].
    replace (s_expired s && negb (g_until_future (e_cfg e)) && g_until_future (e_cfg e)) with false
      by (destruct (g_until_future (e_cfg e)); rewrite ?andb_false_r; reflexivity).
    rewrite !andb_false_r. cbn [orb].
    assert (Nat.ltb (mtime_of (Some f)) (e_cfg_mtime e') = false) as M2.
    { apply Nat.ltb_ge. cbn. rewrite Hm, A3. destruct (C e He). lia. }
    rewrite M2, andb_false_r. cbn [orb].
    destruct (issuer_of e') as [p|] eqn:Hi'; [|apply andb_false_r].
    destruct (find_ent (d_ents d') p) as [pe'|] eqn:Fp; [|apply andb_false_r].
    rewrite <- Ff. rewrite (IssW p pe' eq_refl Fp Hin). apply andb_false_r.
  - (* untouched *)
    assert (~ regen (d_ents d) s a) as NR by (rewrite <- (of_regen _ _ _ _ F); exact Hnin).
    assert (local_reason (d_ents d) s e = false) as L0.
    { destruct (local_reason (d_ents d) s e) eqn:L; [|reflexivity]. exfalso. apply NR. eapply regen_local; eauto. }
    assert (e_file e' = e_file e) as EF.
    { rewrite <- (file_at_find _ _ _ Fe'), <- (file_at_find _ _ _ Fe). apply (of_untouched _ _ _ _ F). exact Hnin. }
    rewrite <- L0. unfold local_reason. rewrite EF, A2, A3.
    unfold issuer_of in *. rewrite A2.
    destruct (g_issuer (e_cfg e)) as [p|] eqn:Hi; [|reflexivity].
    assert (~ In p w) as Hp.
    { intros Hp. apply NR. eapply regen_issuer; eauto. apply (of_regen _ _ _ _ F). exact Hp. }
    pose proof (same_skeleton_find _ _ p S) as SP.
    destruct (find_ent (d_ents d) p) as [pe|] eqn:Fpe, (find_ent (d_ents d') p) as [pe'|] eqn:Fpe'; try contradiction; [|reflexivity].
    assert (e_file pe' = e_file pe) as EP.
    { rewrite <- (file_at_find _ _ _ Fpe'), <- (file_at_find _ _ _ Fpe). apply (of_untouched _ _ _ _ F). exact Hp. }
    rewrite EP. reflexivity.
Qed.

Theorem run_idempotent d s d' w :
  wf_dir (d_ents d) -> clock_ok d -> s_all s = false ->
  Run d s None = (ROk, d', w) -> Run d' s None = (ROk, d', []).
Proof.
  intros W C A H.
  pose proof (run_ok_facts d s d' w W H) as F.
  pose proof (of_skel _ _ _ _ F) as S.
  assert (forest (d_ents d')) as F'.
  { split; [eapply skel_wf; eauto|]. apply is_consistent_iff; [eapply skel_wf; eauto|].
    rewrite (skel_consistent _ _ S). apply is_consistent_iff; [exact W|]. apply (of_forest _ _ _ _ F). }
  assert (all_valid (d_ents d')) as V' by (eapply skel_valid; eauto; apply (of_valid _ _ _ _ F)).
  destruct (plan_spec (d_ents d') s F' V') as (ch & P & R & _).
  assert (ch = []) as ->.
  { destruct ch as [|a ch]; [reflexivity|exfalso].
    apply (regen_none (d_ents d') s A (post_local_false d d' s w W C F) a). apply R. left. reflexivity. }
  unfold Run, run.
  assert (is_consistent (d_ents d') = true) as IC by (apply is_consistent_iff; [apply F'|apply F']).
  rewrite IC, P. cbn. destruct d'; reflexivity.
Qed.

(* ------------------------------------------------------------ C01 (chain part) / C14 *)
Definition all_inv3 (es : list ent) : Prop := forall a, inv3 (art es a) = true.

Lemma import_file_cert x : f_cert (import_file x) = match x with Some f => f_cert f | None => None end.
Proof. destruct x as [f|]; [|reflexivity]. cbn. destruct (f_key f) eqn:K, (f_req f) eqn:R; cbn; rewrite ?K; reflexivity. Qed.
Lemma import_file_hash x : f_hash (import_file x) = match x with Some f => f_hash f | None => None end.
Proof. destruct x as [f|]; [|reflexivity]. cbn. destruct (f_key f) eqn:K, (f_req f) eqn:R; cbn; rewrite ?K; reflexivity. Qed.
Lemma import_file_key x : f_key (import_file x) = match x with Some f => f_key f | None => None end.
Proof. destruct x as [f|]; [|reflexivity]. cbn. destruct (f_key f) eqn:K, (f_req f) eqn:R; cbn; rewrite ?K; reflexivity. Qed.
Lemma import_file_mtime x : f_mtime (import_file x) = mtime_of x.
Proof. destruct x as [f|]; [|reflexivity]. cbn. destruct (f_key f) eqn:K, (f_req f) eqn:R; cbn; reflexivity. Qed.

Lemma inv3_import f0 : inv3 f0 = true -> inv3 (import_file (Some f0)) = true.
Proof.
  unfold inv3. rewrite import_file_cert. destruct (f_cert f0) as [c|]; [|reflexivity].
  cbn [import_file]. destruct (f_key f0) as [k|] eqn:K, (f_req f0) as [r|] eqn:R; cbn; rewrite ?K, ?R; try tauto.
  intros H. apply andb_prop in H as [H _]. rewrite H. reflexivity.
Qed.

Lemma gen_post_inv3 es' e x f : gen_post es' e (import_file x) f -> inv3 f = true.
Proof.
  intros (_ & R & K & c & C1 & _ & _ & _ & _ & C6 & _). unfold inv3. rewrite C1.
  destruct (f_key (import_file x)) as [k|] eqn:Ek.
  - rewrite K in *. rewrite R, (import_no_both x k Ek), C6, Nat.eqb_refl. reflexivity.
  - destruct (f_req (import_file x)) as [r|] eqn:Er.
    + rewrite K in *. rewrite R, C6, Nat.eqb_refl. reflexivity.
    + destruct K as (id & K). rewrite K in *. rewrite R, C6, Nat.eqb_refl. reflexivity.
Qed.

Lemma post_inv3 d d' s w : ok_facts d d' s w -> all_inv3 (d_ents d) -> all_inv3 (d_ents d').
Proof.
  intros F I a. destruct (in_dec Nat.eq_dec a w) as [Hin|Hn].
  - apply In_nth_error in Hin as (i & Hi).
    destruct (of_written _ _ _ _ F i a Hi) as (e & f & _ & Ff & GP & _).
    rewrite art_of_file_at in GP. rewrite art_of_file_at, Ff, (gen_post_import _ _ _ _ GP).
    eapply gen_post_inv3; eauto.
  - rewrite art_of_file_at, (of_untouched _ _ _ _ F a Hn), <- art_of_file_at. apply I.
Qed.

Theorem regenerated_chain d s d' w : wf_dir (d_ents d) -> all_inv3 (d_ents d) ->
  Run d s None = (ROk, d', w) ->
  forall a, In a w -> exists e' c, find_ent (d_ents d') a = Some e' /\ cert_at (d_ents d') a = Some c /\
                                   chain_okb (d_ents d') e' c = true.
Proof.
  intros W I H a Hin.
  pose proof (run_ok_facts d s d' w W H) as F.
  pose proof (post_inv3 d d' s w F I) as I'.
  apply In_nth_error in Hin as (i & Hi).
  destruct (of_written _ _ _ _ F i a Hi) as (e & f & Fe & Ff & GP & _).
  pose proof (same_skeleton_find _ _ a (of_skel _ _ _ _ F)) as SF. rewrite Fe in SF.
  destruct (find_ent (d_ents d') a) as [e'|] eqn:Fe'; [|contradiction]. destruct SF as (_ & A2 & _).
  rewrite art_of_file_at in GP.
  destruct GP as (_ & _ & _ & c & C1 & C2 & _ & _ & _ & C6 & C7).
  exists e', c. split; [reflexivity|]. split; [unfold cert_at; rewrite Ff; exact C1|].
  unfold chain_okb, chain_with, issuer_of. rewrite A2.
  destruct (g_issuer (e_cfg e)) as [p|].
  - destruct C7 as (pc & pk & P1 & P2 & _ & P4 & P5).
    assert (cert_at (d_ents d') p = Some pc) as CP.
    { unfold cert_at. rewrite art_of_file_at, import_file_cert in P1.
      destruct (file_at (d_ents d') p); [exact P1|discriminate]. }
    rewrite CP. specialize (I' p). unfold inv3 in I'. rewrite P1, P2 in I'.
    apply andb_prop in I' as [I' _]. apply Nat.eqb_eq in I'. rewrite P4, P5, I', !Nat.eqb_refl. reflexivity.
  - destruct C7 as (k & K1 & _ & K3 & K4). rewrite K1 in C6.
    rewrite K3, C6, K4, C2, !Nat.eqb_refl. reflexivity.
Qed.

(* C14: an existing key is kept, and without a key an existing request is kept and no key appears *)
Theorem key_kept d s d' w a k : wf_dir (d_ents d) -> Run d s None = (ROk, d', w) ->
  f_key (art (d_ents d) a) = Some k ->
  f_key (art (d_ents d') a) = Some k /\
  (In a w -> exists c, cert_at (d_ents d') a = Some c /\ c_pub c = k_id k).
Proof.
  intros W H K. pose proof (run_ok_facts d s d' w W H) as F.
  destruct (in_dec Nat.eq_dec a w) as [Hin|Hn].
  - destruct (In_nth_error _ _ Hin) as (i & Hi).
    destruct (of_written _ _ _ _ F i a Hi) as (e & f & Fe & Ff & GP & _).
    pose proof GP as GP0. rewrite art_of_file_at in GP0. pose proof (gen_post_import _ _ _ _ GP0) as Imp.
    destruct GP as (_ & _ & K' & c & C1 & _ & _ & _ & _ & C6 & _). rewrite K in K'.
    split.
    + rewrite art_of_file_at, Ff, Imp. exact K'.
    + intros _. exists c. split; [unfold cert_at; rewrite Ff; exact C1|]. rewrite K' in C6. exact C6.
  - split; [|contradiction]. rewrite art_of_file_at, (of_untouched _ _ _ _ F a Hn), <- art_of_file_at. exact K.
Qed.

Theorem request_kept d s d' w a r : wf_dir (d_ents d) -> Run d s None = (ROk, d', w) ->
  f_key (art (d_ents d) a) = None -> f_req (art (d_ents d) a) = Some r ->
  f_key (art (d_ents d') a) = None /\ f_req (art (d_ents d') a) = Some r /\
  (In a w -> exists c, cert_at (d_ents d') a = Some c /\ c_pub c = r).
Proof.
  intros W H K R. pose proof (run_ok_facts d s d' w W H) as F.
  destruct (in_dec Nat.eq_dec a w) as [Hin|Hn].
  - destruct (In_nth_error _ _ Hin) as (i & Hi).
    destruct (of_written _ _ _ _ F i a Hi) as (e & f & Fe & Ff & GP & _).
    pose proof GP as GP0. rewrite art_of_file_at in GP0. pose proof (gen_post_import _ _ _ _ GP0) as Imp.
    destruct GP as (_ & R' & K' & c & C1 & _ & _ & _ & _ & C6 & _). rewrite K, R in K'. rewrite R in R'.
    rewrite art_of_file_at, Ff, Imp. split; [exact K'|]. split; [exact R'|].
    intros _. exists c. split; [unfold cert_at; rewrite Ff; exact C1|]. rewrite K', R in C6. exact C6.
  - rewrite art_of_file_at, (of_untouched _ _ _ _ F a Hn), <- art_of_file_at. split; [exact K|]. split; [exact R|contradiction].
Qed.

(* ------------------------------------------------------------ C12: convergence *)
Definition blind_free (es : list ent) : Prop := forall e, In e es -> g_blind (e_cfg e) = 0.

Lemma inv_ent_facts es clock e : inv_ent es clock e = true ->
  e_cfg_mtime e <= clock /\
  match e_file e with
  | None => True
  | Some f0 => let f := import_file (Some f0) in
               inv3 f0 = true /\ inv2 f = true /\ inv1 es f = true /\ f_mtime f0 <= clock
  end.
Proof.
  unfold inv_ent. intros H. apply andb_prop in H as [H1 H2]. apply Nat.leb_le in H2. split; [exact H2|].
  destruct (e_file e) as [f0|]; [|exact I].
  repeat (apply andb_prop in H1 as [H1 ?]). apply Nat.leb_le in H. auto.
Qed.

Lemma dir_inv_clock d : dir_inv d = true -> clock_ok d.
Proof.
  unfold dir_inv. rewrite forallb_forall. intros H e He. specialize (H e He).
  apply inv_ent_facts in H as [H1 H2]. split; [exact H1|].
  destruct (e_file e) as [f0|]; [destruct H2 as (_ & _ & _ & H2); exact H2|cbn; lia].
Qed.

Lemma dir_inv_inv3 d : dir_inv d = true -> all_inv3 (d_ents d).
Proof.
  unfold dir_inv. rewrite forallb_forall. intros H a. unfold art.
  destruct (find_ent (d_ents d) a) as [e|] eqn:Fe; [|reflexivity].
  apply find_ent_some in Fe as [He _]. specialize (H e He). apply inv_ent_facts in H as [_ H].
  destruct (e_file e) as [f0|]; [destruct H as (H & _); apply inv3_import; exact H|reflexivity].
Qed.

Lemma reaches_issuer_found es a e p : reaches_root es a -> find_ent es a = Some e -> issuer_of e = Some p ->
  exists pe, find_ent es p = Some pe.
Proof.
  intros R Fe Hi. inversion R as [? e1 F1 H1|? e1 p1 F1 H1 R1]; subst; rewrite Fe in F1; inversion F1; subst e1.
  - congruence.
  - rewrite Hi in H1. inversion H1; subst p1. inversion R1; eauto.
Qed.

Lemma chain_with_transfer es es' p c :
  (forall q, p = Some q -> cert_at es' q = cert_at es q) ->
  chain_with es' p c = chain_with es p c.
Proof. intros T. unfold chain_with. destruct p as [q|]; [|reflexivity]. rewrite (T q eq_refl). reflexivity. Qed.

Lemma escape_with_transfer es es' p f :
  (forall q, p = Some q ->
     match find_ent es q, find_ent es' q with
     | Some pe, Some pe' => e_file pe' = e_file pe
     | None, None => True
     | _, _ => False
     end) ->
  escape_with es' p f = escape_with es p f.
Proof.
  intros T. unfold escape_with. destruct p as [q|]; [|reflexivity]. specialize (T q eq_refl).
  destruct (find_ent es q) as [pe|], (find_ent es' q) as [pe'|]; try contradiction; [|reflexivity].
  rewrite T. reflexivity.
Qed.

Lemma has_material_import f0 : has_key_material (import_file (Some f0)) = has_key_material f0.
Proof. cbn. unfold has_key_material. destruct (f_key f0) eqn:K, (f_req f0) eqn:R; cbn; rewrite ?K, ?R; reflexivity. Qed.

Lemma missing_import f0 : key_material_missing (import_file (Some f0)) =
  match f_cert f0 with None => true | Some _ => negb (has_key_material f0) end.
Proof.
  unfold key_material_missing. rewrite import_file_cert. destruct (f_cert f0); [|reflexivity].
  cbn. unfold has_key_material. destruct (f_key f0) eqn:K, (f_req f0) eqn:R; cbn; rewrite ?K, ?R; reflexivity.
Qed.

(* an untouched entity under the default strategy *)
Lemma untouched_default es e a :
  find_ent es a = Some e -> ~ regen es default_strat a ->
  exists f0 c, e_file e = Some f0 /\ f_cert f0 = Some c /\ has_key_material f0 = true /\
    (forall h, f_hash f0 = Some h -> hview_eqb h (hview_of (e_cfg e)) = true) /\
    (forall p pe, issuer_of e = Some p -> find_ent es p = Some pe ->
       Nat.ltb (f_mtime f0) (mtime_of (e_file pe)) = false).
Proof.
  intros Fe NR.
  assert (local_reason es default_strat e = false) as L.
  { destruct (local_reason es default_strat e) eqn:L; [|reflexivity]. exfalso. apply NR. eapply regen_local; eauto. }
  unfold local_reason, default_strat in L. cbn [s_missing s_changed s_newer s_expired s_any s_all orb andb] in L.
  rewrite !orb_false_r in L.
  apply orb_false_iff in L as [L L3]. apply orb_false_iff in L as [L1 L2].
  destruct (e_file e) as [f0|] eqn:Ef; [|cbn in L1; discriminate].
  rewrite missing_import in L1. destruct (f_cert f0) as [c|] eqn:Ec; [|discriminate].
  exists f0, c. split; [reflexivity|]. split; [exact Ec|]. split; [destruct (has_key_material f0); [reflexivity|discriminate]|].
  split.
  - intros h Hh. rewrite import_file_hash, Hh in L2. destruct (hview_eqb h (hview_of (e_cfg e))); [reflexivity|discriminate].
  - intros p pe Hi Fp. rewrite Hi, Fp in L3. cbn [mtime_of] in L3. exact L3.
Qed.

Lemma cert_at_untouched d d' s w p : ok_facts d d' s w -> ~ In p w -> cert_at (d_ents d') p = cert_at (d_ents d) p.
Proof. intros F H. unfold cert_at. rewrite (of_untouched _ _ _ _ F p H). reflexivity. Qed.

Lemma gen_post_reflects es' e e' x f c : e_cfg e' = e_cfg e ->
  gen_post es' e x f -> f_cert f = Some c -> reflects e' c = true.
Proof.
  intros A (_ & _ & _ & c0 & C1 & C2 & C3 & C4 & _) Hc. rewrite C1 in Hc. inversion Hc; subst c0.
  unfold reflects. rewrite A, C2, C3, C4, !Nat.eqb_refl. reflexivity.
Qed.

Theorem converges_good d d' w : wf_dir (d_ents d) -> dir_inv d = true -> blind_free (d_ents d) ->
  Run d default_strat None = (ROk, d', w) -> good (d_ents d') = true.
Proof.
  intros W I BF H.
  pose proof (run_ok_facts d _ d' w W H) as F.
  pose proof (of_skel _ _ _ _ F) as S.
  assert (wf_dir (d_ents d')) as W' by (eapply skel_wf; eauto).
  unfold good. apply forallb_forall. intros e' He'.
  set (a := e_alias e').
  pose proof (find_ent_in _ _ W' He') as Fe'. fold a in Fe'.
  pose proof (same_skeleton_find _ _ a S) as SF. rewrite Fe' in SF.
  destruct (find_ent (d_ents d) a) as [e|] eqn:Fe; [|contradiction]. destruct SF as (A1 & A2 & A3).
  assert (In e (d_ents d)) as He by (apply find_ent_some in Fe; tauto).
  destruct (in_dec Nat.eq_dec a w) as [Hin|Hn].
  - (* regenerated *)
    destruct (regenerated_chain d _ d' w W (dir_inv_inv3 d I) H a Hin) as (e'' & c & Fe'' & Cc & Ch).
    rewrite Fe' in Fe''. inversion Fe''; subst e''.
    destruct (In_nth_error _ _ Hin) as (i & Hi).
    destruct (of_written _ _ _ _ F i a Hi) as (e0 & f & Fe0 & Ff & GP & _).
    rewrite Fe in Fe0. inversion Fe0; subst e0.
    rewrite (file_at_find _ _ _ Fe') in Ff.
    unfold cert_at in Cc. rewrite (file_at_find _ _ _ Fe'), Ff in Cc.
    pose proof GP as GP0. rewrite art_of_file_at in GP0.
    destruct (gen_post_material _ _ _ _ GP0) as (c1 & C1 & Km & _).
    unfold good_ent. rewrite Ff, Cc, Km. destruct GP as (Hh & GP'). rewrite Hh, A2, hview_eqb_refl, Ch.
    rewrite (gen_post_reflects (d_ents d') e e' (art (d_ents d) a) f c A2); [reflexivity| |exact Cc].
    split; [exact Hh|exact GP'].
  - (* untouched *)
    assert (~ regen (d_ents d) default_strat a) as NR by (rewrite <- (of_regen _ _ _ _ F); exact Hn).
    destruct (untouched_default _ _ _ Fe NR) as (f0 & c & Ef & Ec & Km & Hh & Hm).
    assert (e_file e' = Some f0) as Ef'.
    { rewrite <- (file_at_find _ _ _ Fe'), (of_untouched _ _ _ _ F a Hn), (file_at_find _ _ _ Fe). exact Ef. }
    unfold good_ent. rewrite Ef', Ec, Km. cbn [andb].
    destruct (f_hash f0) as [h|] eqn:Eh; [|reflexivity].
    specialize (Hh h eq_refl). rewrite A2, Hh. cbn [andb].
    (* invariant of the old state *)
    unfold dir_inv in I. rewrite forallb_forall in I. specialize (I e He).
    apply inv_ent_facts in I as [_ I]. rewrite Ef in I. cbn zeta in I. destruct I as (_ & I2 & I1 & _).
    apply hview_eqb_eq in Hh.
    (* reflects *)
    assert (reflects e' c = true) as Rf.
    { unfold inv2 in I2. rewrite import_file_hash, import_file_cert, Eh, Ec in I2.
      repeat (apply andb_prop in I2 as [I2 ?]). apply Nat.eqb_eq in I2, H0, H1.
      unfold reflects. rewrite A2, <- I2, <- H1, H0, Hh, (BF e He). cbn. rewrite !Nat.eqb_refl. reflexivity. }
    rewrite Rf. cbn [andb].
    (* chain *)
    unfold inv1 in I1. rewrite import_file_hash, import_file_cert, Eh, Ec, has_material_import, Km in I1.
    assert (h_issuer h = issuer_of e) as Hiss by (rewrite Hh; reflexivity).
    rewrite Hiss in I1.
    assert (escape_with (d_ents d) (issuer_of e) (import_file (Some f0)) = false) as NoEsc.
    { unfold escape_with. destruct (issuer_of e) as [p|] eqn:Hi; [|reflexivity].
      assert (reaches_root (d_ents d) a) as Ra.
      { assert (e_alias e = a) as Ea by (apply find_ent_some in Fe; tauto).
        rewrite <- Ea. apply (proj2 (of_forest _ _ _ _ F) e He). }
      destruct (reaches_issuer_found _ a e p Ra Fe Hi) as (pe & Fp).
      rewrite Fp.
      assert (~ regen (d_ents d) default_strat p) as NRp.
      { intros Rp. apply NR. eapply regen_issuer; eauto. }
      destruct (untouched_default _ _ _ Fp NRp) as (pf & pc & Epf & Epc & _).
      rewrite Epf, Epc. rewrite import_file_mtime. cbn [mtime_of].
      specialize (Hm p pe eq_refl Fp). rewrite Epf in Hm. exact Hm. }
    rewrite NoEsc, orb_false_r in I1.
    rewrite <- I1. unfold chain_okb.
    replace (issuer_of e') with (issuer_of e) by (unfold issuer_of; rewrite A2; reflexivity).
    apply chain_with_transfer.
    intros p Hi. apply (cert_at_untouched d d' _ w p F).
    intros Hp. apply NR. eapply regen_issuer; eauto. apply (of_regen _ _ _ _ F). exact Hp.
Qed.

