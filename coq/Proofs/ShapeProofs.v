(* C02, the shape rules: a certificate generated from a configuration without manipulations is version 3, its inner and outer
   signature AlgorithmIdentifiers are identical and carry NULL parameters exactly for the RSA schemes, and its serial number
   is non-negative and has at most 20 content octets (the configured serial is an int64, the drawn one is below 2^159). *)
From Coq Require Import List NArith ZArith Bool Lia.
From Coq.Strings Require Import Byte.
From Gopki.Model Require Import Bytes Base64 Der Asn1 Text Ext Rdn Time X509 Generate Current.
From Gopki.Proofs Require Import Asn1Proofs GenerateProofs.
Import ListNotations.

Theorem generated_shape fx sha1 c o iss t :
  gen_tcert fx cur_mfx sha1 c o iss = Some t -> cc_manip c = no_manip ->
  t_version t = 2%Z /\ t_inner t = t_outer t /\
  (exists so rsa, sig_oid (effective_sigalg c) = Some (so, rsa) /\
                  t_outer t = mkAlg so (if rsa then Some der_null else None)) /\
  ((0 <= ob_serial o)%Z -> (0 <= t_serial t)%Z) /\
  ((0 <= ob_serial o < 2 ^ 159)%Z -> (cc_serial c < 2 ^ 63)%Z -> (length (int_content (t_serial t)) <= 20)%nat).
Proof.
  unfold gen_tcert. intros H M. rewrite M in H. cbn [no_manip m_version m_outer_sigalg m_sigvalue m_tbs_sigalg m_tbs_pkalg m_tbs_pk manip_oid] in H.
  destruct ((cc_serial c <? 0)%Z || (9223372036854775807 <? cc_serial c)%Z) eqn:Esn; [discriminate|]. apply Bool.orb_false_elim in Esn as [Esn _]. apply Z.ltb_ge in Esn.
  destruct (parse_rdn (cc_subject c)); [|discriminate].
  destruct (to_time_struct _ _ _); [|discriminate].
  destruct (sig_oid (effective_sigalg c)) as [[so rsa]|] eqn:Eg; [|discriminate].
  destruct (uid_field fx (cc_issuer_uid c)); [|discriminate].
  destruct (uid_field fx (cc_subject_uid c)); [|discriminate].
  destruct (map_opt _ (cc_exts c)); [|discriminate].
  match goal with H : (if ?X then None else _) = Some _ |- _ => destruct X eqn:?; [discriminate H|] end.
  inversion H; subst; clear H. cbn [t_version t_inner t_outer t_serial or_default].
  split; [reflexivity|]. split; [reflexivity|].
  split.
  { exists so, rsa. split; [reflexivity|]. unfold mk_algid. cbn [cur_mfx fx_rsa_null]. rewrite andb_true_r. reflexivity. }
  split.
  - intros Ho. destruct (cc_serial c =? 0)%Z; lia.
  - intros Ho Hc. apply serial_octets. destruct (cc_serial c =? 0)%Z; [lia|].
    split; [lia|]. eapply Z.lt_trans; [exact Hc|]. apply Z.pow_lt_mono_r; lia.
Qed.
