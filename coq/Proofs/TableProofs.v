(* C05: the SubjectPublicKeyInfo algorithm the correspondence check demands for each configured key algorithm name is the one
   the documentation's table implies: rsaEncryption with NULL parameters for the four RSA names, id-ecPublicKey with the curve's
   OID for the ten curve names, and the default curve when the name is omitted.  Finite table, closed by evaluation. *)
From Coq Require Import List NArith ZArith Bool String.
From Coq.Strings Require Import Byte.
From Gopki.Model Require Import Bytes Base64 Der Asn1 Text Algs Ext X509 Current CaseLib.
Import ListNotations.

Definition spec_spki_alg (s : string) : option algid :=
  match (match s with ""%string => Some default_keyalg | _ => spec_keyalg s end) with
  | None => None
  | Some k => if is_rsa k then Some (mkAlg [1;2;840;113549;1;1;1]%N (Some der_null))
              else match curve_oid k with
                   | Some co => match der_oid co with Some t => Some (mkAlg [1;2;840;10045;2;1]%N (Some t)) | None => None end
                   | None => None
                   end
  end.

Definition algid_opt_eqb (a b : option algid) : bool :=
  match a, b with Some x, Some y => algid_eqb x y | None, None => true | _, _ => false end.

Theorem spki_algorithm_table :
  forallb (fun s => algid_opt_eqb (spki_alg_of_name (list_byte_of_string s)) (spec_spki_alg s)
                    && match spec_spki_alg s with Some _ => true | None => false end)
          (""%string :: key_names) = true.
Proof. vm_compute. reflexivity. Qed.

(* the fit test of cert.Sign as the check applies it: an RSA scheme needs an RSA signing key, an ECDSA scheme an EC one *)
Theorem signature_scheme_table :
  forallb (fun sg => forallb (fun k =>
      Bool.eqb (match Generate.sig_oid (list_byte_of_string sg) with
                | Some (_, rsa) => Bool.eqb rsa (key_is_rsa (list_byte_of_string k))
                | None => false end)
               (Bool.eqb (String.prefix "RSA" sg) (match spec_keyalg k with Some ka => is_rsa ka | None => false end)))
      key_names) sig_names = true.
Proof. vm_compute. reflexivity. Qed.
