From Coq Require Import List Arith NArith ZArith Bool Lia.
From Coq Require Import ZifyN ZifyBool ZifyNat.
From Coq.Strings Require Import Byte.
From Gopki.Model Require Import Bytes Base64 Der Asn1 Text Time.
From Gopki.Proofs Require Import BytesProofs X509Proofs.
Import ListNotations.
Open Scope N_scope.

(* "YYYY-MM-DD" *)
Definition fmt_ymd (y m d : N) : bytes := four_digits y ++ [n2b 45] ++ two_digits m ++ [n2b 45] ++ two_digits d.

Lemma atoi_two_sweep : forallb (fun n => match atoi (two_digits n) with Some v => (v =? Z.of_N n)%Z | None => false end) (below 100) = true.
Proof. vm_compute. reflexivity. Qed.
Lemma atoi_four_sweep : forallb (fun n => match atoi (four_digits n) with Some v => (v =? Z.of_N n)%Z | None => false end) (below (N.to_nat 10000)) = true.
Proof. vm_compute. reflexivity. Qed.

Lemma atoi_two n : n < 100 -> atoi (two_digits n) = Some (Z.of_N n).
Proof.
  intros H. pose proof atoi_two_sweep as S. rewrite forallb_forall in S. specialize (S n (below_in 100 n H)).
  destruct (atoi _) as [v|]; [|discriminate]. apply Z.eqb_eq in S. congruence.
Qed.
Lemma atoi_four n : n < 10000 -> atoi (four_digits n) = Some (Z.of_N n).
Proof.
  intros H. pose proof atoi_four_sweep as S. rewrite forallb_forall in S.
  specialize (S n (below_in (N.to_nat 10000) n ltac:(lia))).
  destruct (atoi _) as [v|]; [|discriminate]. apply Z.eqb_eq in S. congruence.
Qed.

Definition no_dash (l : bytes) : Prop := Forall (fun b => b2n b <> 45) l.

Lemma digit_no_dash n : b2n (digit n) <> 45.
Proof. unfold digit. rewrite b2n_n2b by lia. lia. Qed.
Lemma two_no_dash n : no_dash (two_digits n).
Proof. repeat constructor; apply digit_no_dash. Qed.
Lemma four_no_dash n : no_dash (four_digits n).
Proof. repeat constructor; apply digit_no_dash. Qed.

Lemma split_on_field a : forall rest cur, no_dash a ->
  split_on 45 (a ++ n2b 45 :: rest) cur = (rev cur ++ a) :: split_on 45 rest [].
Proof.
  induction a as [|x a IH]; intros rest cur H.
  - cbn [app split_on]. rewrite b2n_n2b by lia. cbn. rewrite app_nil_r. reflexivity.
  - inversion H as [|? ? Hx Ha]; subst. cbn [app split_on].
    replace (b2n x =? 45) with false by lia. rewrite IH by exact Ha. cbn [rev]. rewrite <- app_assoc. reflexivity.
Qed.

Lemma split_on_last a : forall cur, no_dash a -> split_on 45 a cur = [rev cur ++ a].
Proof.
  induction a as [|x a IH]; intros cur H; [cbn; rewrite app_nil_r; reflexivity|].
  inversion H as [|? ? Hx Ha]; subst. cbn [split_on]. replace (b2n x =? 45) with false by lia.
  rewrite IH by exact Ha. cbn [rev]. rewrite <- app_assoc. reflexivity.
Qed.

(* C04: a date written YYYY-MM-DD is read as that year, month and day (with the repaired layout) *)
Theorem parse_date_fmt y m d :
  y <= 9999 -> 1 <= m <= 12 -> 1 <= d -> (Z.of_N d <= days_in_month (Z.of_N y) (Z.of_N m))%Z ->
  parse_date false (fmt_ymd y m d) = Some (Z.of_N y, Z.of_N m, Z.of_N d).
Proof.
  intros Hy Hm Hd Hdm. unfold parse_date, fmt_ymd, split.
  assert (d <= 31) as Hd31.
  { unfold days_in_month in Hdm. destruct (Z.of_N m =? 2)%Z; [destruct (is_leap _); lia|].
    destruct ((Z.of_N m =? 4)%Z || (Z.of_N m =? 6)%Z || (Z.of_N m =? 9)%Z || (Z.of_N m =? 11)%Z); lia. }
  cbn [app]. rewrite (split_on_field (four_digits y)) by apply four_no_dash.
  rewrite (split_on_field (two_digits m)) by apply two_no_dash.
  rewrite (split_on_last (two_digits d)) by apply two_no_dash. cbn [rev app].
  rewrite atoi_four, !atoi_two by lia. cbn [length four_digits two_digits Nat.eqb andb negb].
  replace ((1 <=? Z.of_N m)%Z && (Z.of_N m <=? 12)%Z && (1 <=? Z.of_N d)%Z && (Z.of_N d <=? days_in_month (Z.of_N y) (Z.of_N m))%Z)
    with true by lia.
  reflexivity.
Qed.

(* F1: the layout as written reads 2030-03-04 as the 3rd of April, and rejects every day above 12 *)
Example C04_refuted_faithful :
  parse_date true (fmt_ymd 2030 3 4) = Some (2030, 4, 3)%Z /\ parse_date true (fmt_ymd 2030 1 31) = None.
Proof. vm_compute. split; reflexivity. Qed.

