(* C02/C04: the UTC conversion always yields a calendar-valid time, so the time round trip applies to
   every generated certificate whose validity the encoder accepts *)
From Coq Require Import List NArith ZArith Bool Lia.
From Coq Require Import ZifyN ZifyBool.
From Coq.Strings Require Import Byte.
From Gopki.Model Require Import Bytes Asn1 Time.
From Gopki.Proofs Require Import X509Proofs.
Open Scope Z_scope.
Ltac Zify.zify_post_hook ::= Z.div_mod_to_equations.

Lemma doy_range doe : 0 <= doe < 146097 ->
  let yoe := (doe - doe / 1460 + doe / 36524 - doe / 146096) / 365 in
  0 <= doe - (365 * yoe + yoe / 4 - yoe / 100) <= 365.
Proof. intros H yoe. subst yoe. lia. Qed.

Lemma civil_from_days_range z : let '(y, m, d) := civil_from_days z in 1 <= m <= 12 /\ 1 <= d <= 31.
Proof.
  unfold civil_from_days.
  set (z' := z + 719468). set (era := z' / 146097). set (doe := z' - era * 146097).
  assert (0 <= doe < 146097) as Hd by (subst doe era; lia).
  pose proof (doy_range doe Hd) as Hy. cbv zeta in Hy.
  set (yoe := (doe - doe / 1460 + doe / 36524 - doe / 146096) / 365) in *.
  set (doy := doe - (365 * yoe + yoe / 4 - yoe / 100)) in *.
  clearbody doy. set (mp := (5 * doy + 2) / 153).
  assert (0 <= mp <= 11) as Hmp by (subst mp; lia).
  destruct (mp <? 10) eqn:E; (split; [lia|subst mp; lia]).
Qed.

Theorem to_utc_valid w off t :
  der_time (civil_of_wall (to_utc w off)) = Some t -> valid_civil (civil_of_wall (to_utc w off)).
Proof.
  intros H. unfold to_utc in *.
  set (secs := days_from_civil (w_y w) (w_m w) (w_d w) * 86400 + w_sod w - off) in *.
  pose proof (civil_from_days_range (secs / 86400)) as R.
  destruct (civil_from_days (secs / 86400)) as [[y m] d]. destruct R as [Rm Rd].
  assert (0 <= secs mod 86400 < 86400) as Hs by lia.
  unfold civil_of_wall in *. cbn [w_y w_m w_d w_sod] in *. set (sod := secs mod 86400) in *. clearbody sod.
  unfold valid_civil. cbn [cv_year cv_month cv_day cv_hour cv_min cv_sec].
  assert ((Z.to_N y <= 9999)%N) as Hy.
  { unfold der_time in H. cbn [cv_year] in H.
    destruct ((1950 <=? Z.to_N y)%N && (Z.to_N y <? 2050)%N) eqn:E1; [lia|].
    destruct (Z.to_N y <=? 9999)%N eqn:E2; [lia|discriminate]. }
  repeat split; try lia.
Qed.
Print Assumptions to_utc_valid.
