From Coq Require Import List Bool Arith.
From Gopki.Model Require Import Validate.
From Gopki.Spec Require Import ValidateSpec.
Import ListNotations.

Section Proofs.
  Variable oid : Type.
  Variable oid_eqb : oid -> oid -> bool.
  Hypothesis oid_eqb_spec : forall a b, oid_eqb a b = true <-> a = b.

  Notation subseq := (subseq oid).
  Notation drop_until := (drop_until oid oid_eqb).
  Notation in_order := (in_order oid oid_eqb).
  Notation required_present := (required_present oid oid_eqb).

  Lemma oid_eqb_refl a : oid_eqb a a = true.
  Proof. apply oid_eqb_spec. reflexivity. Qed.

  Lemma subseq_tail x xs ys : subseq (x :: xs) ys -> subseq xs ys.
  Proof.
    intros H. remember (x :: xs) as l eqn:E. revert x xs E.
    induction H as [ys|a l' ys H IH|l' y ys H IH]; intros x xs E; [discriminate| |].
    - inversion E; subst. apply ss_skip. exact H.
    - apply ss_skip. eapply IH. exact E.
  Qed.

  Lemma drop_until_sound h : forall want ws, drop_until h want = Some ws ->
    forall hs, subseq hs (map fst ws) -> subseq (h :: hs) (map fst want).
  Proof.
    induction want as [|[o b] want IH]; intros ws H hs S; [discriminate|].
    cbn [drop_until] in H. cbn [map fst]. destruct (oid_eqb o h) eqn:E.
    - inversion H; subst. apply oid_eqb_spec in E. subst. apply ss_take. exact S.
    - apply ss_skip. eapply IH; eauto.
  Qed.

  Lemma in_order_sound : forall have want, in_order want have = true -> subseq have (map fst want).
  Proof.
    induction have as [|h hs IH]; intros want H; [apply ss_nil|].
    cbn [in_order] in H. destruct (drop_until h want) as [ws|] eqn:D; [|discriminate].
    eapply drop_until_sound; eauto.
  Qed.

  Lemma in_order_complete : forall have want, subseq have (map fst want) -> in_order want have = true.
  Proof.
    induction have as [|h hs IH]; intros want S; [reflexivity|].
    cbn [in_order]. revert S. induction want as [|[o b] want IHw]; intros S; [inversion S|].
    cbn [drop_until map fst] in *. destruct (oid_eqb o h) eqn:E.
    - apply IH. inversion S; subst; [assumption|]. eapply subseq_tail; eauto.
    - inversion S; subst.
      + rewrite oid_eqb_refl in E. discriminate.
      + apply IHw. assumption.
  Qed.

  Lemma required_present_spec want have :
    required_present want have = true <-> (forall o, In (o, false) want -> In o have).
  Proof.
    unfold required_present. rewrite forallb_forall. split.
    - intros H o Hin. specialize (H (o, false) Hin). cbn in H.
      apply existsb_exists in H as (x & Hx & E). apply oid_eqb_spec in E. subst. exact Hx.
    - intros H [o b] Hin. cbn. destruct b; [reflexivity|].
      apply existsb_exists. exists o. split; [apply H; exact Hin|apply oid_eqb_refl].
  Qed.

  (* C09: the repaired validation accepts exactly what the documentation promises,
     and (C03) hands the subject back untouched *)
  Theorem validate_fixed_spec attrs allow subject :
    (fst (validate_fixed oid oid_eqb attrs allow subject) = true <-> accepts oid attrs allow subject) /\
    snd (validate_fixed oid oid_eqb attrs allow subject) = subject.
  Proof.
    unfold validate_fixed, accepts. destruct attrs as [ats|]; [|split; [tauto|reflexivity]].
    destruct (resolve_all oid ats) as [want|] eqn:R; cbn [fst snd].
    - split; [|reflexivity]. rewrite andb_true_iff, orb_true_iff, required_present_spec. split.
      + intros [[A|A] B]; exists want; (split; [reflexivity|]); split; auto. right. apply in_order_sound. exact A.
      + intros (w & E & A & B). inversion E; subst w. split; [|exact B].
        destruct A as [A|A]; [left; exact A|right; apply in_order_complete; exact A].
    - split; [|reflexivity]. split; [discriminate|]. intros (w & E & _). discriminate.
  Qed.
End Proofs.

(* ---- the code as written violates the documented rule: three kernel-checked witnesses (F8), and F7 ---- *)
Definition CN := 3. Definition O_ := 10.
Definition req (o : nat) := mkPattr nat (Some o) false.
Definition opt (o : nat) := mkPattr nat (Some o) true.

(* profile [CN required, O required], subject "CN=x": accepted although O is missing *)
Example C09_refuted_prefix :
  fst (validate_faithful nat Nat.eqb (Some [req CN; req O_]) false [CN]) = true /\
  fst (validate_fixed nat Nat.eqb (Some [req CN; req O_]) false [CN]) = false.
Proof. vm_compute. split; reflexivity. Qed.

(* profile [CN optional, O required], subject "O=x": rejected although only an optional attribute is omitted *)
Example C09_refuted_optional_skip :
  fst (validate_faithful nat Nat.eqb (Some [opt CN; req O_]) false [O_]) = false /\
  fst (validate_fixed nat Nat.eqb (Some [opt CN; req O_]) false [O_]) = true.
Proof. vm_compute. split; reflexivity. Qed.

(* allowOther, profile [CN required], subject "O=x": accepted although CN is missing *)
Example C09_refuted_allow_other :
  fst (validate_faithful nat Nat.eqb (Some [req CN]) true [O_]) = true /\
  fst (validate_fixed nat Nat.eqb (Some [req CN]) true [O_]) = false.
Proof. vm_compute. split; reflexivity. Qed.

(* F7 / C03: the code as written hands back the subject reversed *)
Example C03_refuted_reversal :
  snd (validate_faithful nat Nat.eqb (Some [req CN; req O_]) false [O_; CN]) = [CN; O_].
Proof. vm_compute. reflexivity. Qed.
