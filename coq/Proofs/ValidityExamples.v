(* C04: the premises of the validity theorems are met by concrete, non-trivial blocks (so none of them is vacuous),
   and what they yield on those blocks. *)
From Coq Require Import List NArith ZArith Bool String.
From Coq.Strings Require Import Byte.
From Gopki.Model Require Import Bytes Der Asn1 Text Time.
From Gopki.Proofs Require Import ValidityProofs.
Import ListNotations.
Open Scope string_scope.
Open Scope Z_scope.

Definition now0 : wall := mkWall 2026 10 1 45296.

(* from + duration: leap-day start, the day carried into April as Go's AddDate does (March 39 = April 8) *)
Example block_from_duration :
  to_time_struct false (mkVal (str "2024-02-29") [] (str "1y1m10d")) now0
  = Some (mkValidity (mkWall 2024 2 29 0) (mkWall 2025 4 8 0) true true).
Proof. vm_compute. reflexivity. Qed.

(* until alone: the start is the time of the run, the end is midnight of the date *)
Example block_until_only :
  to_time_struct false (mkVal [] (str "2031-05-06") []) now0
  = Some (mkValidity now0 (mkWall 2031 5 6 0) true false).
Proof. vm_compute. reflexivity. Qed.

(* nothing: five years from the time of the run, to the second *)
Example block_empty :
  to_time_struct false (mkVal [] [] []) now0
  = Some (mkValidity now0 (mkWall 2031 10 1 45296) false false).
Proof. vm_compute. reflexivity. Qed.

(* until and duration exclude each other; a block that ends after 9999 is refused *)
Example block_refused :
  to_time_struct false (mkVal [] (str "2031-05-06") (str "1y")) now0 = None /\
  to_time_struct false (mkVal (str "9996-01-01") [] []) now0 = None /\
  to_time_struct false (mkVal (str "2024-02-30") [] []) now0 = None.
Proof. vm_compute. repeat split. Qed.

(* the hypothesis of C04_duration_is_calendar_addition holds for an ordinary start, and fails exactly where Go carries *)
Example calendar_addition_applies :
  (1 <= w_d (mkWall 2023 11 15 0) <= days_in_month (2023 + 1 + (11 - 1 + 14) / 12) ((11 - 1 + 14) mod 12 + 1)) /\
  add_date (mkWall 2023 11 15 0) 1 14 0 = mkWall 2026 1 15 0 /\
  ~ (w_d (mkWall 2023 1 31 0) <= days_in_month 2023 2).
Proof.
  split; [vm_compute; split; discriminate | split; [vm_compute; reflexivity | vm_compute; intros H; apply H; reflexivity]].
Qed.

(* the last UTCTime second and the first GeneralizedTime second *)
Example time_type_boundary :
  der_time (mkCivil 2049 12 31 23 59 59) = Some (Prim Univ 23 (str "491231235959Z")) /\
  der_time (mkCivil 2050 1 1 0 0 0) = Some (Prim Univ 24 (str "20500101000000Z")) /\
  der_time (mkCivil 1949 12 31 23 59 59) = Some (Prim Univ 24 (str "19491231235959Z")) /\
  der_time (mkCivil 10000 1 1 0 0 0) = None.
Proof. vm_compute. repeat split. Qed.
