(* C04: what CertValidity.toTimeStruct computes, case by case; which ASN.1 time type a year is written in;
   and that AddDate is calendar addition (year and month carried, the day kept while it exists in the target month,
   otherwise carried into the following month as Go's normalisation does). *)
From Coq Require Import List NArith ZArith Bool Lia.
From Coq Require Import ZifyN ZifyBool.
From Coq.Strings Require Import Byte.
From Gopki.Model Require Import Bytes Der Asn1 Time.
Import ListNotations.
Open Scope Z_scope.
Ltac Zify.zify_post_hook ::= Z.div_mod_to_equations.

(* ---------------- UTCTime through 2049, GeneralizedTime from 2050 ---------------- *)
Definition time_tail (c : civil) : bytes :=
  two_digits (cv_month c) ++ two_digits (cv_day c) ++ two_digits (cv_hour c)
  ++ two_digits (cv_min c) ++ two_digits (cv_sec c) ++ [n2b 90].

Theorem der_time_form c t : der_time c = Some t ->
  (cv_year c <= 9999)%N /\
  ((1950 <= cv_year c < 2050)%N -> t = Prim Univ 23 (two_digits (cv_year c mod 100) ++ time_tail c)) /\
  ((cv_year c < 1950 \/ 2050 <= cv_year c)%N -> t = Prim Univ 24 (four_digits (cv_year c) ++ time_tail c)).
Proof.
  unfold der_time, time_tail. intros H.
  destruct ((1950 <=? cv_year c)%N && (cv_year c <? 2050)%N) eqn:E.
  - inversion H; subst. split; [lia|]. split; [reflexivity|]. intros; lia.
  - destruct (cv_year c <=? 9999)%N eqn:E2; [|discriminate]. inversion H; subst.
    split; [lia|]. split; [intros; lia|reflexivity].
Qed.

(* the content is YYMMDDhhmmssZ resp. YYYYMMDDhhmmssZ: 13 resp. 15 octets, last one 'Z' *)
Theorem der_time_length c t : der_time c = Some t ->
  match t with
  | Prim Univ 23 b => List.length b = 13%nat /\ last b (n2b 0) = n2b 90
  | Prim Univ 24 b => List.length b = 15%nat /\ last b (n2b 0) = n2b 90
  | _ => False
  end.
Proof.
  unfold der_time. intros H.
  destruct ((1950 <=? cv_year c)%N && (cv_year c <? 2050)%N).
  - inversion H; subst. split; reflexivity.
  - destruct (cv_year c <=? 9999)%N; [|discriminate]. inversion H; subst. split; reflexivity.
Qed.

(* ---------------- the validity block, case by case ---------------- *)
Ltac fin :=
  cbn [vl_from vl_until vl_is_static] in *;
  repeat match goal with |- _ /\ _ => split end;
  try (intros; discriminate); try (intros C; contradiction C; reflexivity); try (intros; lia);
  try (intros; split; [reflexivity|]); try (intros; do 3 eexists; repeat split; eauto); auto.

Theorem validity_rules sw v now r : to_time_struct sw v now = Some r ->
  (v_from v = [] -> vl_from r = now /\ vl_is_static r = false) /\
  (v_from v <> [] -> exists y m d, parse_date sw (v_from v) = Some (y, m, d)
                                  /\ vl_from r = mkWall y m d 0 /\ vl_is_static r = true) /\
  (v_until v = [] -> v_duration v = [] -> vl_until r = add_date (vl_from r) 5 0 0) /\
  (v_until v <> [] -> v_duration v = [] /\ exists y m d, parse_date sw (v_until v) = Some (y, m, d)
                                  /\ vl_until r = mkWall y m d 0) /\
  (v_duration v <> [] -> v_until v = [] /\ exists y m d, parse_duration (v_duration v) = Some (y, m, d)
                                  /\ vl_until r = add_date (vl_from r) y m d) /\
  w_y (vl_until r) <= 9999.
Proof.
  unfold to_time_struct. destruct (to_time_struct_dates sw v now) as [r'|] eqn:D; [|discriminate].
  destruct (w_y (vl_until r') <=? 9999) eqn:Y; [|intros H; discriminate H]. intros H; injection H as Hr; subst r'.
  unfold to_time_struct_dates in D.
  destruct (v_from v) as [|b bs] eqn:Ef.
  - destruct (v_until v) as [|u us] eqn:Eu; destruct (v_duration v) as [|du dus] eqn:Ed.
    + injection D as <-. fin.
    + destruct (parse_duration (du :: dus)) as [[[y m] d]|] eqn:Pd; [|discriminate D].
      destruct ((y <=? 9999) && (m <=? 9999 * 12) && (d <=? 9999 * 366)); [|discriminate D].
      injection D as <-. fin.
    + destruct (parse_date sw (u :: us)) as [[[y m] d]|] eqn:Pu; [|discriminate D].
      injection D as <-. fin.
    + discriminate D.
  - destruct (parse_date sw (b :: bs)) as [[[fy fm] fd]|] eqn:Pf; [|discriminate D].
    destruct (v_until v) as [|u us] eqn:Eu; destruct (v_duration v) as [|du dus] eqn:Ed.
    + injection D as <-. fin.
    + destruct (parse_duration (du :: dus)) as [[[y m] d]|] eqn:Pd; [|discriminate D].
      destruct ((y <=? 9999) && (m <=? 9999 * 12) && (d <=? 9999 * 366)); [|discriminate D].
      injection D as <-. fin.
    + destruct (parse_date sw (u :: us)) as [[[y m] d]|] eqn:Pu; [|discriminate D].
      injection D as <-. fin.
    + discriminate D.
Qed.

(* ---------------- AddDate is calendar addition ---------------- *)
(* the Gregorian calendar repeats every 400 years = 146097 days *)
Lemma is_leap_shift r q : is_leap (r + 400 * q) = is_leap r.
Proof. unfold is_leap. lia. Qed.

Lemma days_in_month_shift r q m : days_in_month (r + 400 * q) m = days_in_month r m.
Proof. unfold days_in_month. rewrite is_leap_shift. reflexivity. Qed.

Lemma days_from_civil_shift r q m d : days_from_civil (r + 400 * q) m d = days_from_civil r m d + 146097 * q.
Proof. unfold days_from_civil. destruct (m <=? 2); lia. Qed.

Lemma civil_from_days_shift z q :
  civil_from_days (z + 146097 * q) = let '(y, m, d) := civil_from_days z in (y + 400 * q, m, d).
Proof.
  unfold civil_from_days.
  replace ((z + 146097 * q + 719468) / 146097) with ((z + 719468) / 146097 + q) by lia.
  replace (z + 146097 * q + 719468 - ((z + 719468) / 146097 + q) * 146097)
    with (z + 719468 - (z + 719468) / 146097 * 146097) by lia.
  set (doe := z + 719468 - (z + 719468) / 146097 * 146097).
  set (yoe := (doe - doe / 1460 + doe / 36524 - doe / 146096) / 365).
  set (doy := doe - (365 * yoe + yoe / 4 - yoe / 100)).
  set (mp := (5 * doy + 2) / 153).
  destruct ((if mp <? 10 then mp + 3 else mp - 9) <=? 2); f_equal; f_equal; lia.
Qed.

(* one full cycle, every day of it *)
Definition chk (y m d : Z) : bool :=
  let '(y', m', d') := civil_from_days (days_from_civil y m d) in
  negb (d <=? days_in_month y m) || ((y' =? y) && (m' =? m) && (d' =? d)).
Definition chkn (y m d : nat) : bool := chk (Z.of_nat y) (Z.of_nat m) (Z.of_nat d).

Lemma forallb_seq (f : nat -> bool) a n k : forallb f (seq a n) = true -> (a <= k < a + n)%nat -> f k = true.
Proof. intros H Hk. rewrite forallb_forall in H. apply H. apply in_seq. exact Hk. Qed.

Lemma forallb3 (f : nat -> nat -> nat -> bool) a1 n1 a2 n2 a3 n3 :
  forallb (fun x => forallb (fun y => forallb (fun z => f x y z) (seq a3 n3)) (seq a2 n2)) (seq a1 n1) = true ->
  forall x y z, (a1 <= x < a1 + n1)%nat -> (a2 <= y < a2 + n2)%nat -> (a3 <= z < a3 + n3)%nat -> f x y z = true.
Proof.
  intros H x y z Hx Hy Hz.
  pose proof (forallb_seq _ a1 n1 x H Hx) as H1. cbv beta in H1.
  pose proof (forallb_seq _ a2 n2 y H1 Hy) as H2. cbv beta in H2.
  exact (forallb_seq _ a3 n3 z H2 Hz).
Qed.

Lemma cycle_sweep :
  forallb (fun x => forallb (fun y => forallb (fun z => chkn x y z) (seq 1 31)) (seq 1 12)) (seq 0 400) = true.
Proof. vm_compute. reflexivity. Qed.

Lemma chk_cycle (y m d : nat) : (y < 400)%nat -> (1 <= m <= 12)%nat -> (1 <= d <= 31)%nat ->
  chk (Z.of_nat y) (Z.of_nat m) (Z.of_nat d) = true.
Proof.
  intros Hy Hm Hd. change (chkn y m d = true).
  apply (forallb3 chkn 0 400 1 12 1 31 cycle_sweep); lia.
Qed.

Lemma civil_roundtrip_cycle r m d : 0 <= r < 400 -> 1 <= m <= 12 -> 1 <= d <= days_in_month r m ->
  civil_from_days (days_from_civil r m d) = (r, m, d).
Proof.
  intros Hr Hm Hd.
  assert (d <= 31) as Hd31.
  { unfold days_in_month in Hd. destruct (m =? 2); [destruct (is_leap r); lia|].
    destruct ((m =? 4) || (m =? 6) || (m =? 9) || (m =? 11)); lia. }
  pose proof (chk_cycle (Z.to_nat r) (Z.to_nat m) (Z.to_nat d)) as C.
  rewrite !Z2Nat.id in C by lia.
  assert (chk r m d = true) as C2 by (apply C; lia). clear C.
  unfold chk in C2.
  destruct (civil_from_days (days_from_civil r m d)) as [[y' m'] d'].
  f_equal; [f_equal|]; lia.
Qed.

(* every date of the proleptic Gregorian calendar, any year (negative ones included) *)
Theorem civil_roundtrip y m d : 1 <= m <= 12 -> 1 <= d <= days_in_month y m ->
  civil_from_days (days_from_civil y m d) = (y, m, d).
Proof.
  intros Hm Hd. replace y with (y mod 400 + 400 * (y / 400)) in * by lia.
  rewrite days_in_month_shift in Hd. rewrite days_from_civil_shift, civil_from_days_shift.
  rewrite civil_roundtrip_cycle; [reflexivity| lia | exact Hm | exact Hd].
Qed.

(* N years and M months after a date is the same day of the month, M months on with the year carried - as long as that
   day exists there *)
Theorem add_date_calendar t dy dm :
  let m0 := w_m t - 1 + dm in
  let y1 := w_y t + dy + m0 / 12 in
  let m1 := m0 mod 12 + 1 in
  1 <= w_d t <= days_in_month y1 m1 ->
  add_date t dy dm 0 = mkWall y1 m1 (w_d t) (w_sod t).
Proof.
  intros m0 y1 m1 Hd. unfold add_date. fold m0. fold y1. fold m1.
  assert (1 <= m1 <= 12) as Hm by (unfold m1; lia).
  assert (days_from_civil y1 m1 1 + (w_d t + 0 - 1) = days_from_civil y1 m1 (w_d t)) as -> by (unfold days_from_civil; lia).
  rewrite civil_roundtrip by assumption. reflexivity.
Qed.

(* the default lifetime: five years to the day (29 February lands on 1 March, as in Go) *)
Corollary five_years_to_the_day t :
  1 <= w_m t <= 12 -> 1 <= w_d t <= days_in_month (w_y t + 5) (w_m t) ->
  add_date t 5 0 0 = mkWall (w_y t + 5) (w_m t) (w_d t) (w_sod t).
Proof.
  intros Hm Hd. pose proof (add_date_calendar t 5 0) as H. cbv zeta in H.
  replace (w_y t + 5 + (w_m t - 1 + 0) / 12) with (w_y t + 5) in H by lia.
  replace ((w_m t - 1 + 0) mod 12 + 1) with (w_m t) in H by lia.
  exact (H Hd).
Qed.

(* a day that does not exist in the target month is carried into the next one, as Go's normalisation does *)
Example add_date_carries :
  add_date (mkWall 2023 1 31 0) 0 1 0 = mkWall 2023 3 3 0 /\ add_date (mkWall 2024 1 31 0) 0 1 0 = mkWall 2024 3 2 0 /\
  add_date (mkWall 2024 2 29 0) 5 0 0 = mkWall 2029 3 1 0 /\ add_date (mkWall 2023 11 15 0) 0 14 20 = mkWall 2025 2 4 0.
Proof. vm_compute. repeat split. Qed.

(* ---------------- the converse: every day number is the day number of its date ---------------- *)
Definition chk2 (a b : nat) : bool :=
  let z := Z.of_nat a * 366 + Z.of_nat b in
  let '(y, m, d) := civil_from_days z in
  (days_from_civil y m d =? z) && (1 <=? m) && (m <=? 12) && (1 <=? d) && (d <=? days_in_month y m).

Lemma forallb2 (f : nat -> nat -> bool) a1 n1 a2 n2 :
  forallb (fun x => forallb (fun y => f x y) (seq a2 n2)) (seq a1 n1) = true ->
  forall x y, (a1 <= x < a1 + n1)%nat -> (a2 <= y < a2 + n2)%nat -> f x y = true.
Proof.
  intros H x y Hx Hy.
  pose proof (forallb_seq _ a1 n1 x H Hx) as H1. cbv beta in H1.
  exact (forallb_seq _ a2 n2 y H1 Hy).
Qed.

Lemma days_sweep : forallb (fun x => forallb (fun y => chk2 x y) (seq 0 366)) (seq 0 400) = true.
Proof. vm_compute. reflexivity. Qed.

Lemma days_roundtrip_cycle z : 0 <= z < 146097 ->
  let '(y, m, d) := civil_from_days z in
  days_from_civil y m d = z /\ 1 <= m <= 12 /\ 1 <= d <= days_in_month y m.
Proof.
  intros Hz.
  pose proof (forallb2 chk2 0 400 0 366 days_sweep (Z.to_nat (z / 366)) (Z.to_nat (z mod 366))) as C.
  assert (chk2 (Z.to_nat (z / 366)) (Z.to_nat (z mod 366)) = true) as C2 by (apply C; lia). clear C.
  unfold chk2 in C2. rewrite !Z2Nat.id in C2 by lia.
  replace (z / 366 * 366 + z mod 366) with z in C2 by lia.
  destruct (civil_from_days z) as [[y m] d]. lia.
Qed.

(* every day number, before and after the epoch: the date it is turned into is a calendar-valid one, and it is that date's number *)
Theorem days_roundtrip z :
  let '(y, m, d) := civil_from_days z in
  days_from_civil y m d = z /\ 1 <= m <= 12 /\ 1 <= d <= days_in_month y m.
Proof.
  assert (civil_from_days z = civil_from_days (z mod 146097 + 146097 * (z / 146097))) as E by (f_equal; lia).
  rewrite E, civil_from_days_shift. clear E.
  pose proof (days_roundtrip_cycle (z mod 146097) ltac:(lia)) as C.
  destruct (civil_from_days (z mod 146097)) as [[y m] d].
  rewrite days_from_civil_shift, days_in_month_shift. lia.
Qed.

(* AddDate with a day count: the result is a calendar-valid date exactly that many days after the month-shifted start *)
Theorem add_date_days t dy dm dd :
  let m0 := w_m t - 1 + dm in
  let y1 := w_y t + dy + m0 / 12 in
  let m1 := m0 mod 12 + 1 in
  let r := add_date t dy dm dd in
  days_from_civil (w_y r) (w_m r) (w_d r) = days_from_civil y1 m1 1 + (w_d t + dd - 1)
  /\ 1 <= w_m r <= 12 /\ 1 <= w_d r <= days_in_month (w_y r) (w_m r) /\ w_sod r = w_sod t.
Proof.
  intros m0 y1 m1. unfold add_date. fold m0. fold y1. fold m1.
  pose proof (days_roundtrip (days_from_civil y1 m1 1 + (w_d t + dd - 1))) as C.
  destruct (civil_from_days (days_from_civil y1 m1 1 + (w_d t + dd - 1))) as [[y m] d].
  cbn [w_y w_m w_d w_sod]. intuition.
Qed.
