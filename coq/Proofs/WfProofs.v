(* C02: the tree the certificate encoder builds only uses low-tag-number identifiers, so the strict
   DER layer's round trip (DerProofs.parse_enc) applies to it *)
From Coq Require Import List Arith NArith ZArith Bool Lia.
From Coq.Strings Require Import Byte.
From Gopki.Model Require Import Bytes Base64 Der Asn1 Text Ext Rdn X509.
From Gopki.Spec Require Import X509Spec.
From Gopki.Proofs Require Import BytesProofs DerProofs Asn1Proofs X509Proofs.
Import ListNotations.
Open Scope N_scope.

Definition alg_wf (a : algid) : Prop := forall p, al_params a = Some p -> wf p = true.
Definition params_wf (c : tcert) : Prop :=
  alg_wf (t_inner c) /\ alg_wf (sp_alg (t_spki c)) /\ alg_wf (t_outer c).

Lemma wfs_app a b : wfs (a ++ b) = wfs a && wfs b.
Proof. induction a as [|x a IH]; [reflexivity|]. cbn [app wfs]. rewrite IH, andb_assoc. reflexivity. Qed.

Lemma der_oid_wf a t : der_oid a = Some t -> wf t = true.
Proof. unfold der_oid. destruct (oid_content a); [|discriminate]. intros H. injection H as <-. reflexivity. Qed.

Lemma der_time_wf c t : der_time c = Some t -> wf t = true.
Proof.
  unfold der_time. destruct (_ && _); [intros H; injection H as <-; reflexivity|].
  destruct (_ <=? _); [|discriminate]. intros H; injection H as <-; reflexivity.
Qed.

Lemma enc_algid_wf a t : alg_wf a -> enc_algid a = Some t -> wf t = true.
Proof.
  intros W. unfold enc_algid. destruct (der_oid (al_oid a)) as [o|] eqn:Eo; [|discriminate].
  intros H. injection H as <-. unfold der_seq. rewrite wf_Cons. cbn [wfs].
  rewrite (der_oid_wf _ _ Eo). destruct (al_params a) as [p|] eqn:Ep; cbn [wfs]; [rewrite (W p Ep)|]; reflexivity.
Qed.

Lemma enc_rdn_wf r t : enc_rdn r = Some t -> wf t = true.
Proof.
  unfold enc_rdn. destruct (arcs_to_N (r_type r)) as [ns|]; [|discriminate].
  destruct (der_oid ns) as [o|] eqn:Eo; [|discriminate]. intros H. injection H as <-.
  unfold der_set, der_seq. rewrite wf_Cons. cbn [wfs]. rewrite wf_Cons. cbn [wfs]. rewrite (der_oid_wf _ _ Eo).
  destruct (r_value r) as [s|b]; [unfold der_auto_string; destruct (forallb _ s)|]; reflexivity.
Qed.

Lemma map_opt_wfs {A} (f : A -> option tlv) : (forall x t, f x = Some t -> wf t = true) ->
  forall l ts, map_opt f l = Some ts -> wfs ts = true.
Proof.
  intros Hf. induction l as [|x l IH]; intros ts M; cbn [map_opt] in M.
  - injection M as <-. reflexivity.
  - destruct (f x) as [t|] eqn:Ex; [|discriminate]. destruct (map_opt f l) as [r|]; [|discriminate].
    injection M as <-. cbn [wfs]. rewrite (Hf x t Ex), (IH r eq_refl). reflexivity.
Qed.

Lemma enc_name_wf n t : enc_name n = Some t -> wf t = true.
Proof.
  unfold enc_name. destruct (map_opt enc_rdn n) as [l|] eqn:M; [|discriminate]. intros H. injection H as <-.
  unfold der_seq. rewrite wf_Cons. rewrite (map_opt_wfs enc_rdn enc_rdn_wf n l M). reflexivity.
Qed.

Lemma enc_ext_wf e t : enc_ext e = Some t -> wf t = true.
Proof.
  unfold enc_ext. destruct (der_oid (x_oid e)) as [o|] eqn:Eo; [|discriminate]. intros H. injection H as <-.
  unfold der_seq. rewrite wf_Cons. cbn [app wfs]. rewrite (der_oid_wf _ _ Eo). destruct (x_crit e); reflexivity.
Qed.

Lemma enc_spki_wf s t : alg_wf (sp_alg s) -> enc_spki s = Some t -> wf t = true.
Proof.
  intros W. unfold enc_spki. destruct (enc_algid (sp_alg s)) as [a|] eqn:Ea; [|discriminate].
  intros H. injection H as <-. unfold der_seq. rewrite wf_Cons. cbn [wfs]. rewrite (enc_algid_wf _ _ W Ea). reflexivity.
Qed.

Theorem enc_cert_wf c t : params_wf c -> enc_cert c = Some t -> wf t = true.
Proof.
  intros (Wi & Ws & Wo) H. unfold enc_cert in H.
  destruct (enc_tbs c) as [tbs|] eqn:Et; [|discriminate].
  destruct (enc_algid (t_outer c)) as [outer|] eqn:Eo; [|discriminate]. injection H as <-.
  unfold enc_tbs in Et.
  destruct (enc_algid (t_inner c)) as [inner|] eqn:Ei; [|discriminate].
  destruct (enc_name (t_issuer c)) as [issuer|] eqn:Eis; [|discriminate].
  destruct (der_time (t_nb c)) as [nb|] eqn:Enb; [|discriminate].
  destruct (der_time (t_na c)) as [na|] eqn:Ena; [|discriminate].
  destruct (enc_name (t_subject c)) as [subject|] eqn:Es; [|discriminate].
  destruct (enc_spki (t_spki c)) as [sp|] eqn:Ep; [|discriminate].
  destruct (map_opt enc_ext (t_exts c)) as [exts|] eqn:Ex; [|discriminate]. injection Et as <-.
  pose proof (map_opt_wfs enc_ext enc_ext_wf _ _ Ex) as Wx.
  unfold der_seq at 1. rewrite wf_Cons. cbn [wfs]. rewrite (enc_algid_wf _ _ Wo Eo).
  unfold der_seq at 1. rewrite wf_Cons, !wfs_app. cbn [wfs].
  rewrite (enc_algid_wf _ _ Wi Ei), (enc_name_wf _ _ Eis), (enc_name_wf _ _ Es), (enc_spki_wf _ _ Ws Ep).
  unfold der_seq at 1. rewrite wf_Cons. cbn [wfs]. rewrite (der_time_wf _ _ Enb), (der_time_wf _ _ Ena).
  assert (wfs (if (t_version c =? 0)%Z then [] else [der_explicit 0 (der_int (t_version c))]) = true) as ->
    by (destruct (_ =? _)%Z; reflexivity).
  assert (forall tag u, tag < 31 -> wfs (enc_uid tag u) = true) as Wu
    by (intros tag u Ht; destruct u; cbn [enc_uid wfs wf]; [replace (tag <? 31) with true by lia|]; reflexivity).
  rewrite !wfs_app, !Wu by lia.
  assert (wfs (match exts with [] => [] | _ :: _ => [der_explicit 3 (der_seq exts)] end) = true) as ->.
  { destruct exts as [|e es]; [reflexivity|]. cbn [wfs]. unfold der_explicit, der_seq. rewrite !wf_Cons. cbn [wfs].
    rewrite wf_Cons. rewrite Wx. reflexivity. }
  reflexivity.
Qed.
Print Assumptions enc_cert_wf.

(* C02, assembled: a generated certificate is accepted by the strict parser, which returns exactly the
   typed certificate that was encoded; the only side condition left is the physical size bound of the
   definite-length form *)
Theorem generated_cert_parses c t : wf_tcert c -> params_wf c -> enc_cert c = Some t ->
  len_ok (blen (enc t)) -> parse_cert (enc t) = Some c.
Proof. intros W P E L. apply parse_cert_der; try assumption. exact (enc_cert_wf c t P E). Qed.
Print Assumptions generated_cert_parses.

(* ---- the generator's algorithm identifiers carry only NULL or nothing besides the observed key's ---- *)
From Gopki.Model Require Import Time Generate.

Lemma manip_oid_wf mfx s a : manip_oid mfx s = Some (Some a) -> alg_wf a.
Proof.
  unfold manip_oid. destruct s as [|b r]; [discriminate|].
  destruct (oid_from_string (b :: r)) as [zs|].
  - destruct (arcs_to_N zs) as [ns|]; [|discriminate]. intros H. injection H as <-. intros p Hp. discriminate.
  - destruct (fx_manip_err mfx); discriminate.
Qed.

Lemma mk_algid_wf mfx o rsa : alg_wf (mk_algid mfx o rsa).
Proof. intros p. unfold mk_algid. cbn [al_params]. destruct (rsa && fx_rsa_null mfx); [|discriminate]. intros H. injection H as <-. reflexivity. Qed.

Lemma or_default_wf mfx s oa d : manip_oid mfx s = Some oa -> alg_wf d -> alg_wf (or_default oa d).
Proof. destruct oa as [a|]; intros H Wd; [exact (manip_oid_wf _ _ _ H)|exact Wd]. Qed.

Theorem gen_params_wf fx mfx sha1 c o issuer t :
  gen_tcert fx mfx sha1 c o issuer = Some t -> alg_wf (sp_alg (ob_spki o)) -> params_wf t.
Proof.
  intros H Wk. unfold gen_tcert in H.
  destruct ((cc_serial c <? 0)%Z || (9223372036854775807 <? cc_serial c)%Z); [discriminate|].
  destruct (parse_rdn (cc_subject c)) as [subj|]; [|discriminate].
  destruct (to_time_struct _ _ _) as [val|]; [|discriminate].
  destruct (sig_oid _) as [[so rsa]|]; [|discriminate].
  destruct (match m_tbs_pk (cc_manip c) with [] => _ | _ => _ end) as [bits|]; [|discriminate].
  destruct (uid_field fx (cc_issuer_uid c)) as [iuid|]; [|discriminate].
  destruct (uid_field fx (cc_subject_uid c)) as [suid|]; [|discriminate].
  destruct (manip_oid mfx (m_tbs_sigalg (cc_manip c))) as [inner|] eqn:Ei; [|discriminate].
  destruct (manip_oid mfx (m_outer_sigalg (cc_manip c))) as [outer|] eqn:Eo; [|discriminate].
  destruct (manip_oid mfx (m_tbs_pkalg (cc_manip c))) as [pkalg|] eqn:Ep; [|discriminate].
  destruct (match m_sigvalue (cc_manip c) with [] => _ | _ => _ end) as [sigv|]; [|discriminate].
  destruct (map_opt _ (cc_exts c)) as [exts|]; [|discriminate]. match goal with H : (if ?X then None else _) = Some _ |- _ => destruct X eqn:?; [discriminate H|] end. injection H as <-.
  unfold params_wf. cbn [t_inner t_spki t_outer sp_alg].
  split; [|split].
  - exact (or_default_wf _ _ _ _ Ei (mk_algid_wf mfx so rsa)).
  - exact (or_default_wf _ _ _ _ Ep Wk).
  - exact (or_default_wf _ _ _ _ Eo (mk_algid_wf mfx so rsa)).
Qed.
Print Assumptions gen_params_wf.

From Gopki.Proofs Require Import TimeRangeProofs.

Lemma gen_times fx mfx sha1 c o issuer t : gen_tcert fx mfx sha1 c o issuer = Some t ->
  exists w1 w2, t_nb t = civil_of_wall (to_utc w1 (ob_off_from o)) /\ t_na t = civil_of_wall (to_utc w2 (ob_off_until o)).
Proof.
  intros H. unfold gen_tcert in H.
  destruct ((cc_serial c <? 0)%Z || (9223372036854775807 <? cc_serial c)%Z); [discriminate|].
  destruct (parse_rdn (cc_subject c)) as [subj|]; [|discriminate].
  destruct (to_time_struct _ _ _) as [val|]; [|discriminate].
  destruct (sig_oid _) as [[so rsa]|]; [|discriminate].
  destruct (match m_tbs_pk (cc_manip c) with [] => _ | _ => _ end) as [bits|]; [|discriminate].
  destruct (uid_field fx (cc_issuer_uid c)) as [iuid|]; [|discriminate].
  destruct (uid_field fx (cc_subject_uid c)) as [suid|]; [|discriminate].
  destruct (manip_oid mfx (m_tbs_sigalg (cc_manip c))) as [inner|]; [|discriminate].
  destruct (manip_oid mfx (m_outer_sigalg (cc_manip c))) as [outer|]; [|discriminate].
  destruct (manip_oid mfx (m_tbs_pkalg (cc_manip c))) as [pkalg|]; [|discriminate].
  destruct (match m_sigvalue (cc_manip c) with [] => _ | _ => _ end) as [sigv|]; [|discriminate].
  destruct (map_opt _ (cc_exts c)) as [exts|]; [|discriminate]. match goal with H : (if ?X then None else _) = Some _ |- _ => destruct X eqn:?; [discriminate H|] end. injection H as <-.
  eexists _, _. split; reflexivity.
Qed.

Lemma enc_cert_times c t : enc_cert c = Some t -> (exists a, der_time (t_nb c) = Some a) /\ (exists b, der_time (t_na c) = Some b).
Proof.
  unfold enc_cert, enc_tbs. destruct (enc_algid (t_inner c)); [|discriminate].
  destruct (enc_name (t_issuer c)); [|discriminate].
  destruct (der_time (t_nb c)) as [a|]; [|discriminate]. destruct (der_time (t_na c)) as [b|]; [|discriminate].
  intros _. split; eexists; reflexivity.
Qed.

(* C02 for every certificate the generator emits: the strict parser accepts the emitted bytes, consumes all of
   them, and returns exactly the typed certificate built from the configuration *)
Theorem C02_generated fx mfx sha1 cfg o issuer c t :
  gen_tcert fx mfx sha1 cfg o issuer = Some c -> alg_wf (sp_alg (ob_spki o)) ->
  enc_cert c = Some t -> len_ok (blen (enc t)) ->
  parse_cert (enc t) = Some c.
Proof.
  intros G Wk E L. apply generated_cert_parses; try assumption.
  - destruct (gen_times _ _ _ _ _ _ _ G) as (w1 & w2 & E1 & E2).
    destruct (enc_cert_times c t E) as [(a & Ha) (b & Hb)]. unfold wf_tcert. rewrite E1, E2 in *.
    split; eapply to_utc_valid; eassumption.
  - exact (gen_params_wf _ _ _ _ _ _ _ G Wk).
Qed.
Print Assumptions C02_generated.

(* ---- C05: the SubjectPublicKeyInfo algorithm of a key of each of the 14 supported types ---- *)
From Gopki.Model Require Import Algs Pkcs8.
Definition spki_alg (k : keyalg) : option algid :=
  if is_rsa k then Some (mkAlg oid_rsa_encryption (Some der_null))
  else match curve_oid k with
       | Some co => match der_oid co with Some t => Some (mkAlg oid_ec_public_key (Some t)) | None => None end
       | None => None
       end.

Theorem spki_alg_wf k a : spki_alg k = Some a -> alg_wf a.
Proof.
  unfold spki_alg. destruct (is_rsa k).
  - intros H. injection H as <-. intros p Hp. injection Hp as <-. reflexivity.
  - destruct (curve_oid k) as [co|]; [|discriminate]. destruct (der_oid co) as [t|] eqn:Et; [|discriminate].
    intros H. injection H as <-. intros p Hp. injection Hp as <-. exact (der_oid_wf _ _ Et).
Qed.

(* every supported key type has one *)
Theorem spki_alg_total : forallb (fun k => match spki_alg k with Some _ => true | None => false end)
  [P224; P256; P384; P521; BP256r1; BP384r1; BP512r1; BP256t1; BP384t1; BP512t1; RSA1024; RSA2048; RSA4096; RSA8192] = true.
Proof. vm_compute. reflexivity. Qed.
