(* Non-vacuity witnesses for theorems added late: concrete states that meet their hypotheses. *)
From Coq Require Import List Arith NArith ZArith Bool Lia.
From Coq.Strings Require Import Byte.
From Gopki.Model Require Import Bytes Base64 Der Asn1 Text Algs Pkcs8 Dir Plan Run Current.
From Gopki.Spec Require Import RegenSpec DirInv.
From Gopki.Proofs Require Import DerProofs Pkcs8Proofs PlanProofs WritesProofs.
Import ListNotations.

(* C17: a P-256 key with scalar 1 (a 65-octet stand-in for the public point) is written, is shorter than 2^31 octets and reads
   back; the reader accepts it as a key with 0 < d < order *)
Definition w_order (c : keyalg) : N := 115792089210356248762697446949407573529996955224135760342422259061068512044369%N.
Definition w_pub : bytes := n2b 4 :: repeat (n2b 7) 64.
Definition w_mult (c : keyalg) (d : N) : bytes := w_pub.

Example pkcs8_roundtrip_premises_hold :
  exists bs, marshal_pkcs8 (KEc P256 1 w_pub) = Some bs /\ go_len (blen bs) /\
             parse_pkcs8 w_mult w_order bs = Some (KEc P256 1 w_pub).
Proof.
  destruct (marshal_pkcs8 (KEc P256 1 w_pub)) as [bs|] eqn:E; [|vm_compute in E; discriminate].
  exists bs. split; [reflexivity|].
  assert (go_len (blen bs)) as L by (vm_compute in E; inversion E; subst; vm_compute; reflexivity).
  split; [exact L|].
  apply (pkcs8_ec_roundtrip w_mult w_order P256 1 w_pub 32 [1;2;840;10045;3;1;7]%N bs);
    try reflexivity; try exact E; try exact L;
    try (cbn; tauto); try (unfold w_order; lia); try (unfold w_order; apply N.leb_le; vm_compute; reflexivity).
Qed.

(* C11 at run level: one root without artifact, default flags: the run ends well and wrote exactly that root *)
Definition w_cfg : cfg := mkCfg None 1%nat 1%nat 0%nat EC EC true true true.
Definition w_dir : dir := mkDir [mkEnt 0%nat w_cfg 1%nat None] 1%nat 0%nat.

Example successful_run_exists :
  exists d' w, run cur_csr cur_nilcert w_dir default_strat None = (ROk, d', w) /\ w = [0%nat].
Proof. vm_compute. eauto. Qed.

Example successful_run_premises_hold : forest (d_ents w_dir) /\ all_valid (d_ents w_dir).
Proof.
  split.
  - split.
    + unfold wf_dir. cbn. constructor; [intros []|constructor].
    + intros e [<-|[]]. eapply rr_root; reflexivity.
  - intros e [<-|[]]. reflexivity.
Qed.
