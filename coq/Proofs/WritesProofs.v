(* C10 / C18 / C09: what a run may write.  For every run - any strategy, any fault - the aliases reported as written are
   planned ones, every artifact not reported as written is untouched, and configurations are never changed.  A refused
   hierarchy or a rejected entity leaves the directory exactly as it was. *)
From Coq Require Import List Arith Bool Lia.
From Gopki.Model Require Import Dir Plan Run.
From Gopki.Spec Require Import RegenSpec DirInv.
From Gopki.Proofs Require Import PlanProofs RunProofs.
Import ListNotations.

Lemma set_file_cfg es a f : map (fun e => (e_alias e, e_cfg e, e_cfg_mtime e)) (set_file es a f)
                            = map (fun e => (e_alias e, e_cfg e, e_cfg_mtime e)) es.
Proof. unfold set_file. rewrite map_map. apply map_ext. intros e. destruct (Nat.eqb (e_alias e) a); reflexivity. Qed.

Lemma file_at_set_file_ne es a f b : b <> a -> file_at (set_file es a f) b = file_at es b.
Proof.
  intros N. unfold file_at, find_ent, set_file.
  induction es as [|e es IH]; [reflexivity|]. cbn [map find].
  destruct (Nat.eqb (e_alias e) a) eqn:Ea; cbn [e_alias].
  - apply Nat.eqb_eq in Ea. destruct (Nat.eqb (e_alias e) b) eqn:Eb.
    + apply Nat.eqb_eq in Eb. congruence.
    + exact IH.
  - destruct (Nat.eqb (e_alias e) b); [reflexivity|exact IH].
Qed.

(* BulkUpdate: the written list extends the pending one by planned aliases only; everything else keeps its file; configurations
   and their modification times are those of the start *)
Lemma bulk_writes fn : forall ch es clock nk idx fault wr r es' clock' nk' w,
  bulk fn es ch clock nk idx fault wr = (r, es', clock', nk', w) ->
  exists w2, w = rev wr ++ w2 /\ incl w2 ch /\
             (forall a, ~ In a w2 -> file_at es' a = file_at es a) /\
             map (fun e => (e_alias e, e_cfg e, e_cfg_mtime e)) es' = map (fun e => (e_alias e, e_cfg e, e_cfg_mtime e)) es.
Proof.
  induction ch as [|a rest IH]; intros es clock nk idx fault wr r es' clock' nk' w H; cbn [bulk] in H.
  - inversion H; subst. exists []. rewrite app_nil_r. repeat split; auto. intros x Hx; inversion Hx.
  - assert (forall r0 c0 n0, (r0, es, c0, n0, rev wr) = (r, es', clock', nk', w) ->
              exists w2, w = rev wr ++ w2 /\ incl w2 (a :: rest) /\ (forall b, ~ In b w2 -> file_at es' b = file_at es b) /\
                         map (fun e => (e_alias e, e_cfg e, e_cfg_mtime e)) es' = map (fun e => (e_alias e, e_cfg e, e_cfg_mtime e)) es) as Stop.
    { intros r0 c0 n0 E. inversion E; subst. exists []. rewrite app_nil_r. repeat split; auto. intros x Hx; inversion Hx. }
    destruct (find_ent es a) as [e|] eqn:Fe; [|eapply Stop; exact H].
    destruct (generate fn es e (S clock) nk) as [[r0 fo] nk1] eqn:G.
    destruct r0; try (eapply Stop; exact H).
    destruct fo as [f|]; [|eapply Stop; exact H].
    assert (forall idx' es1, (forall b, b <> a -> file_at es1 b = file_at es b) ->
              map (fun e => (e_alias e, e_cfg e, e_cfg_mtime e)) es1 = map (fun e => (e_alias e, e_cfg e, e_cfg_mtime e)) es ->
              bulk fn es1 rest (S clock) nk1 idx' fault (a :: wr) = (r, es', clock', nk', w) ->
              exists w2, w = rev wr ++ w2 /\ incl w2 (a :: rest) /\ (forall b, ~ In b w2 -> file_at es' b = file_at es b) /\
                         map (fun e => (e_alias e, e_cfg e, e_cfg_mtime e)) es' = map (fun e => (e_alias e, e_cfg e, e_cfg_mtime e)) es) as Go.
    { intros idx' es1 U1 C1 H'. destruct (IH _ _ _ _ _ _ _ _ _ _ _ H') as (w2 & Ew & Hin & U & Cf).
      exists (a :: w2). split; [rewrite Ew; cbn [rev]; rewrite <- app_assoc; reflexivity|].
      split; [intros x [->|Hx]; [left; reflexivity|right; apply Hin; exact Hx]|].
      split; [|rewrite Cf; exact C1].
      intros b Hb. rewrite (U b) by (intros X; apply Hb; right; exact X).
      apply U1. intros ->. apply Hb. left. reflexivity. }
    assert (forall f', (r, es', clock', nk', w) = (RDied, set_file es a (Some f'), S clock, nk1, rev (a :: wr)) ->
              exists w2, w = rev wr ++ w2 /\ incl w2 (a :: rest) /\ (forall b, ~ In b w2 -> file_at es' b = file_at es b) /\
                         map (fun e => (e_alias e, e_cfg e, e_cfg_mtime e)) es' = map (fun e => (e_alias e, e_cfg e, e_cfg_mtime e)) es) as Die.
    { intros f' E. inversion E; subst. exists [a]. cbn [rev]. split; [reflexivity|].
      split; [intros x [->|[]]; left; reflexivity|]. split; [|apply set_file_cfg].
      intros b Hb. apply file_at_set_file_ne. intros ->. apply Hb. left. reflexivity. }
    destruct fault as [[k o]|].
    + destruct (Nat.eqb k idx).
      * destruct o.
        -- eapply Stop. exact H.
        -- apply (Die (torn_file k0 f)). symmetry. exact H.
        -- apply (Die f). symmetry. exact H.
      * eapply Go; [| |exact H]; [intros b Nb; apply file_at_set_file_ne; exact Nb|apply set_file_cfg].
    + eapply Go; [| |exact H]; [intros b Nb; apply file_at_set_file_ne; exact Nb|apply set_file_cfg].
Qed.

(* a whole run: every written alias is in the plan; artifacts of all other entities and every configuration are untouched *)
Theorem run_writes_only_planned fc fn d s fault r d' w :
  run fc fn d s fault = (r, d', w) ->
  (forall a, In a w -> exists ch, plan fc (d_ents d) s = Some ch /\ In a ch) /\
  (forall a, ~ In a w -> file_at (d_ents d') a = file_at (d_ents d) a) /\
  map (fun e => (e_alias e, e_cfg e, e_cfg_mtime e)) (d_ents d') = map (fun e => (e_alias e, e_cfg e, e_cfg_mtime e)) (d_ents d).
Proof.
  unfold run. intros H.
  destruct (is_consistent (d_ents d)); cbn [negb] in H.
  2:{ inversion H; subst. repeat split; auto. intros a []. }
  destruct (plan fc (d_ents d) s) as [ch|] eqn:P.
  2:{ inversion H; subst. repeat split; auto. intros a []. }
  destruct (bulk fn (d_ents d) ch (d_clock d) (d_nextkey d) 0 fault []) as [[[[r0 es'] clock'] nk'] w'] eqn:B.
  inversion H; subst r0 d' w'. cbn [d_ents].
  destruct (bulk_writes _ _ _ _ _ _ _ _ _ _ _ _ _ B) as (w2 & Ew & Hin & U & Cf). cbn [rev app] in Ew. subst w2.
  split; [intros a Ha; exists ch; split; [reflexivity|apply Hin; exact Ha]|]. split; [exact U|exact Cf].
Qed.

(* C18: a hierarchy that is not consistent is refused and nothing at all changes; C09: the same when planning fails *)
Theorem refused_run_changes_nothing fc fn d s fault :
  is_consistent (d_ents d) = false -> run fc fn d s fault = (RErr, d, []).
Proof. intros H. unfold run. rewrite H. reflexivity. Qed.

Theorem rejected_entity_changes_nothing fc fn d s fault :
  plan fc (d_ents d) s = None -> exists r, run fc fn d s fault = (r, d, []) /\ r = RErr.
Proof.
  intros H. unfold run. destruct (is_consistent (d_ents d)); cbn [negb]; [rewrite H|]; exists RErr; split; reflexivity.
Qed.

(* a run that ends well without a fault wrote every entity of its plan, in the plan's order *)
Lemma bulk_ok_writes_all fn : forall ch es clock nk idx wr es' clock' nk' w,
  bulk fn es ch clock nk idx None wr = (ROk, es', clock', nk', w) -> w = rev wr ++ ch.
Proof.
  induction ch as [|a rest IH]; intros es clock nk idx wr es' clock' nk' w H; cbn [bulk] in H.
  - inversion H; subst. rewrite app_nil_r. reflexivity.
  - destruct (find_ent es a) as [e|] eqn:Fe; [|discriminate H].
    destruct (generate fn es e (S clock) nk) as [[r0 fo] nk1] eqn:G.
    destruct r0; try discriminate H.
    destruct fo as [f|]; [|discriminate H].
    apply IH in H. rewrite H. cbn [rev]. rewrite <- app_assoc. reflexivity.
Qed.

Theorem successful_run_writes_the_plan fc fn d s d' w :
  run fc fn d s None = (ROk, d', w) -> plan fc (d_ents d) s = Some w.
Proof.
  unfold run. intros H.
  destruct (is_consistent (d_ents d)); cbn [negb] in H; [|discriminate H].
  destruct (plan fc (d_ents d) s) as [ch|]; [|discriminate H].
  destruct (bulk fn (d_ents d) ch (d_clock d) (d_nextkey d) 0 None []) as [[[[r es] clock] nk] w0] eqn:B.
  inversion H; subst. apply bulk_ok_writes_all in B. cbn [rev app] in B. subst. reflexivity.
Qed.

(* C11 at the level of whole runs: a fault-free run that ends well has regenerated exactly the entities the documented relation
   demands for its flags, each once, every issuer before its subjects *)
Theorem successful_run_regenerates_exactly fn d s d' w :
  forest (d_ents d) -> all_valid (d_ents d) ->
  run true fn d s None = (ROk, d', w) ->
  (forall a, In a w <-> regen (d_ents d) s a) /\ NoDup w /\
  (forall i j x y e, nth_error w i = Some x -> nth_error w j = Some y ->
                     find_ent (d_ents d) y = Some e -> issuer_of e = Some x -> i < j).
Proof.
  intros F V H. apply successful_run_writes_the_plan in H.
  destruct (plan_spec (d_ents d) s F V) as (ch & P & R & N & O).
  rewrite P in H. inversion H; subst. repeat split; try assumption; apply R.
Qed.
