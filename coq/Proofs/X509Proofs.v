From Coq Require Import List Arith NArith ZArith Bool Lia.
From Coq Require Import ZifyN ZifyBool ZifyNat.
From Coq.Strings Require Import Byte.
From Gopki.Model Require Import Bytes Base64 Der Asn1 Text Ext Rdn X509.
From Gopki.Spec Require Import X509Spec.
From Gopki.Proofs Require Import BytesProofs DerProofs Asn1Proofs.
Import ListNotations.
Open Scope N_scope.
Ltac Zify.zify_post_hook ::= Z.div_mod_to_equations.

(* ------------------------------------------------------------ decimal digits (finite sweeps) *)
Definition below (k : nat) : list N := map N.of_nat (seq 0 k).
Lemma below_in k n : n < N.of_nat k -> In n (below k).
Proof. intros H. unfold below. apply in_map_iff. exists (N.to_nat n). split; [lia|]. apply in_seq. lia. Qed.

Lemma two_digits_sweep :
  forallb (fun n => match two_digits n with [a; b] => match two a b with Some v => v =? n | None => false end | _ => false end) (below 100) = true.
Proof. vm_compute. reflexivity. Qed.

Lemma two_digits_ok n : n < 100 -> exists a b, two_digits n = [a; b] /\ two a b = Some n.
Proof.
  intros H. pose proof two_digits_sweep as S. rewrite forallb_forall in S.
  specialize (S n (below_in 100 n H)). unfold two_digits in *.
  eexists _, _. split; [reflexivity|]. destruct (two _ _) as [v|]; [|discriminate]. apply N.eqb_eq in S. congruence.
Qed.

Lemma four_digits_sweep :
  forallb (fun n => match digits_val (four_digits n) 0 with Some v => v =? n | None => false end) (below (N.to_nat 10000)) = true.
Proof. vm_compute. reflexivity. Qed.

Lemma four_digits_ok n : n < 10000 -> digits_val (four_digits n) 0 = Some n.
Proof.
  intros H. pose proof four_digits_sweep as S. rewrite forallb_forall in S.
  specialize (S n (below_in (N.to_nat 10000) n ltac:(lia))). destruct (digits_val _ _) as [v|]; [|discriminate].
  apply N.eqb_eq in S. congruence.
Qed.

(* ------------------------------------------------------------ time *)
Definition valid_civil (c : civil) : Prop :=
  cv_year c <= 9999 /\ 1 <= cv_month c <= 12 /\ 1 <= cv_day c <= 31 /\ cv_hour c < 24 /\ cv_min c < 60 /\ cv_sec c < 60.

Theorem time_roundtrip c t : valid_civil c -> der_time c = Some t -> dec_time t = Some c.
Proof.
  intros (Hy & Hm & Hd & Hh & Hi & Hs) H. unfold der_time in H.
  destruct (two_digits_ok (cv_month c)) as (m1 & m2 & Em & Dm); [lia|].
  destruct (two_digits_ok (cv_day c)) as (d1 & d2 & Ed & Dd); [lia|].
  destruct (two_digits_ok (cv_hour c)) as (h1 & h2 & Eh & Dh); [lia|].
  destruct (two_digits_ok (cv_min c)) as (i1 & i2 & Ei & Di); [lia|].
  destruct (two_digits_ok (cv_sec c)) as (s1 & s2 & Es & Ds); [lia|].
  assert (forall y, (if b2n (n2b 90) =? 90 then
            match two m1 m2, two d1 d2, two h1 h2, two i1 i2, two s1 s2 with
            | Some mo, Some d, Some h, Some mi, Some s =>
              if (1 <=? mo) && (mo <=? 12) && (1 <=? d) && (d <=? 31) && (h <? 24) && (mi <? 60) && (s <? 60)
              then Some (mkCivil y mo d h mi s) else None
            | _, _, _, _, _ => None end else None) =
          Some (mkCivil y (cv_month c) (cv_day c) (cv_hour c) (cv_min c) (cv_sec c))) as Tail.
  { intros y. rewrite b2n_n2b by lia. rewrite Dm, Dd, Dh, Di, Ds. cbn [N.eqb Pos.eqb].
    replace ((1 <=? cv_month c) && (cv_month c <=? 12) && (1 <=? cv_day c) && (cv_day c <=? 31)
             && (cv_hour c <? 24) && (cv_min c <? 60) && (cv_sec c <? 60)) with true by lia.
    reflexivity. }
  unfold two_digits in Em, Ed, Eh, Ei, Es.
  injection Em as <- <-. injection Ed as <- <-. injection Eh as <- <-. injection Ei as <- <-. injection Es as <- <-.
  destruct ((1950 <=? cv_year c) && (cv_year c <? 2050)) eqn:R.
  - injection H as <-. destruct (two_digits_ok (cv_year c mod 100)) as (y1 & y2 & Ey & Dy); [lia|].
    unfold two_digits in Ey. injection Ey as <- <-.
    cbn [dec_time]. rewrite Dy, Tail. f_equal. destruct c as [yr mo dy hr mi se]; cbn [cv_year cv_month cv_day cv_hour cv_min cv_sec] in *. f_equal.
    destruct (yr mod 100 <? 50) eqn:E; lia.
  - destruct (cv_year c <=? 9999) eqn:Y; [|discriminate]. injection H as <-.
    pose proof (four_digits_ok (cv_year c) ltac:(lia)) as F4. unfold four_digits in F4.
    cbn [dec_time]. rewrite F4, R, Tail. destruct c; reflexivity.
Qed.

(* ------------------------------------------------------------ components *)
Lemma map_opt_inverse {A B} (f : A -> option B) (g : B -> option A) l l' :
  map_opt f l = Some l' -> (forall x y, In x l -> f x = Some y -> g y = Some x) -> map_opt g l' = Some l.
Proof.
  revert l'. induction l as [|x l IH]; intros l' H K; cbn in H; [inversion H; reflexivity|].
  destruct (f x) as [y|] eqn:Fx; [|discriminate]. destruct (map_opt f l) as [t|] eqn:Ft; [|discriminate].
  inversion H; subst. cbn. rewrite (K x y (or_introl eq_refl) Fx).
  rewrite (IH t eq_refl); [reflexivity|]. intros x0 y0 Hin. apply K. right. exact Hin.
Qed.

Lemma dec_oid_der_oid a t : der_oid a = Some t -> dec_oid t = Some a.
Proof.
  unfold der_oid. destruct (oid_content a) as [c|] eqn:E; [|discriminate]. intros H. inversion H; subst.
  cbn. apply oid_roundtrip. exact E.
Qed.

Lemma dec_algid_enc a t : enc_algid a = Some t -> dec_algid t = Some a.
Proof.
  unfold enc_algid. destruct (der_oid (al_oid a)) as [o|] eqn:E; [|discriminate]. intros H. inversion H; subst.
  apply dec_oid_der_oid in E. destruct a as [oid [p|]]; cbn in *; rewrite E; reflexivity.
Qed.

Lemma arcs_to_N_inv zs ns : arcs_to_N zs = Some ns -> map Z.of_N ns = zs.
Proof.
  unfold arcs_to_N. revert ns. induction zs as [|z zs IH]; intros ns H; cbn in H; [inversion H; reflexivity|].
  destruct (0 <=? z)%Z eqn:E; [|discriminate].
  destruct (map_opt _ zs) as [t|] eqn:Et; [|discriminate]. inversion H; subst. cbn.
  rewrite (IH t eq_refl). f_equal. lia.
Qed.

Lemma dec_rdn_enc r t : enc_rdn r = Some t -> dec_rdn t = Some r.
Proof.
  unfold enc_rdn. destruct (arcs_to_N (r_type r)) as [ns|] eqn:En; [|discriminate].
  destruct (der_oid ns) as [o|] eqn:Eo; [|discriminate]. intros H. inversion H; subst.
  cbn [dec_rdn der_set der_seq]. rewrite (dec_oid_der_oid _ _ Eo).
  destruct r as [ty v]. cbn [r_type r_value] in *. rewrite (arcs_to_N_inv _ _ En).
  destruct v as [s|b]; cbn [dec_atv_value].
  - unfold der_auto_string. destruct (forallb is_printable_byte s) eqn:P; cbn [dec_atv_value]; rewrite P; reflexivity.
  - reflexivity.
Qed.

Lemma dec_name_enc n t : enc_name n = Some t -> dec_name t = Some n.
Proof.
  unfold enc_name. destruct (map_opt enc_rdn n) as [l|] eqn:E; [|discriminate]. intros H. inversion H; subst.
  cbn. eapply map_opt_inverse; [exact E|]. intros x y _ Hx. apply dec_rdn_enc. exact Hx.
Qed.

Lemma dec_bits_full_enc b : dec_bits_full (der_bits_full b) = Some b.
Proof.
  unfold der_bits_full, der_bits, dec_bits_full.
  replace ((8 - 8 * blen b mod 8) mod 8) with 0 by lia. rewrite b2n_n2b by lia. reflexivity.
Qed.

Lemma dec_spki_enc s t : enc_spki s = Some t -> dec_spki t = Some s.
Proof.
  unfold enc_spki. destruct (enc_algid (sp_alg s)) as [a|] eqn:E; [|discriminate]. intros H. inversion H; subst.
  cbn [dec_spki der_seq]. rewrite (dec_algid_enc _ _ E), dec_bits_full_enc. destruct s; reflexivity.
Qed.

Lemma dec_ext_enc e t : enc_ext e = Some t -> dec_ext t = Some e.
Proof.
  unfold enc_ext. destruct (der_oid (x_oid e)) as [o|] eqn:E; [|discriminate]. intros H. inversion H; subst.
  apply dec_oid_der_oid in E. destruct e as [oid crit v]. cbn [x_crit x_oid x_value] in *.
  destruct crit; cbn [app dec_ext der_seq der_octets].
  - unfold der_bool. cbn [dec_bool_true]. rewrite b2n_n2b by lia. cbn. rewrite E. reflexivity.
  - rewrite E. reflexivity.
Qed.

(* ------------------------------------------------------------ the certificate *)
Definition wf_tcert (c : tcert) : Prop := valid_civil (t_nb c) /\ valid_civil (t_na c).

Lemma dec_uid_enc tag u rest :
  (forall t x r, rest = Prim Ctx t x :: r -> tag < t) ->
  dec_uid tag (enc_uid tag u ++ rest) = Some (u, rest).
Proof.
  intros Hr. destruct u as [b|]; cbn [enc_uid app dec_uid].
  - rewrite N.eqb_refl, b2n_n2b by lia. reflexivity.
  - destruct rest as [|[c t x|c t k] r]; try reflexivity.
    destruct c; try reflexivity. destruct x as [|u b]; [reflexivity|].
    specialize (Hr t (u :: b) r eq_refl). cbn [dec_uid]. replace (t =? tag) with false by lia. reflexivity.
Qed.

Lemma dec_exts_enc exts l : map_opt enc_ext exts = Some l ->
  dec_exts (match l with [] => [] | _ => [der_explicit 3 (der_seq l)] end) = Some exts.
Proof.
  intros H. destruct l as [|e es].
  - destruct exts as [|x xs]; [reflexivity|]. cbn in H. destruct (enc_ext x); [|discriminate].
    destruct (map_opt enc_ext xs); discriminate.
  - cbn [dec_exts der_explicit der_seq]. eapply map_opt_inverse; [exact H|].
    intros x y _ Hx. apply dec_ext_enc. exact Hx.
Qed.

Theorem dec_cert_enc c t : wf_tcert c -> enc_cert c = Some t -> dec_cert t = Some c.
Proof.
  intros [Wb Wa] H. unfold enc_cert in H.
  destruct (enc_tbs c) as [tbs|] eqn:Et; [|discriminate].
  destruct (enc_algid (t_outer c)) as [outer|] eqn:Eo; [|discriminate].
  inversion H; subst t. clear H.
  unfold enc_tbs in Et.
  destruct (enc_algid (t_inner c)) as [inner|] eqn:Ei; [|discriminate].
  destruct (enc_name (t_issuer c)) as [issuer|] eqn:Eis; [|discriminate].
  destruct (der_time (t_nb c)) as [nb|] eqn:Enb; [|discriminate].
  destruct (der_time (t_na c)) as [na|] eqn:Ena; [|discriminate].
  destruct (enc_name (t_subject c)) as [subject|] eqn:Es; [|discriminate].
  destruct (enc_spki (t_spki c)) as [sp|] eqn:Ep; [|discriminate].
  destruct (map_opt enc_ext (t_exts c)) as [exts|] eqn:Ex; [|discriminate].
  inversion Et; subst tbs. clear Et.
  cbn [dec_cert der_seq]. rewrite (dec_algid_enc _ _ Eo), dec_bits_full_enc.
  assert (dec_tbs (Cons Univ 16
            ((if (t_version c =? 0)%Z then [] else [der_explicit 0 (der_int (t_version c))]) ++
             [der_int (t_serial c); inner; issuer; Cons Univ 16 [nb; na]; subject; sp] ++
             enc_uid 1 (t_iuid c) ++ enc_uid 2 (t_suid c) ++
             match exts with [] => [] | _ :: _ => [der_explicit 3 (Cons Univ 16 exts)] end)) =
          Some (t_version c, t_serial c, t_inner c, t_issuer c, t_nb c, t_na c, t_subject c, t_spki c,
                t_iuid c, t_suid c, t_exts c)) as T.
  { unfold dec_tbs.
    assert (forall rest,
      match dec_int (der_int (t_serial c)), dec_algid inner, dec_name issuer, dec_time nb, dec_time na,
            dec_name subject, dec_spki sp, dec_uid 1 rest with
      | Some serial, Some al, Some iss, Some t1, Some t2, Some subj, Some pk, Some (iuid, r1) =>
        Some (serial, al, iss, t1, t2, subj, pk, iuid, r1)
      | _, _, _, _, _, _, _, _ => None
      end = match dec_uid 1 rest with
            | Some (iuid, r1) => Some (t_serial c, t_inner c, t_issuer c, t_nb c, t_na c, t_subject c, t_spki c, iuid, r1)
            | None => None end) as Fields.
    { intros rest. unfold dec_int, der_int. rewrite int_roundtrip.
      rewrite (dec_algid_enc _ _ Ei), (dec_name_enc _ _ Eis), (time_roundtrip _ _ Wb Enb),
              (time_roundtrip _ _ Wa Ena), (dec_name_enc _ _ Es), (dec_spki_enc _ _ Ep).
      destruct (dec_uid 1 rest) as [[i r]|]; reflexivity. }
    set (tail := enc_uid 1 (t_iuid c) ++ enc_uid 2 (t_suid c) ++
                 match exts with [] => [] | _ :: _ => [der_explicit 3 (Cons Univ 16 exts)] end).
    assert (dec_uid 1 tail = Some (t_iuid c, enc_uid 2 (t_suid c) ++
                 match exts with [] => [] | _ :: _ => [der_explicit 3 (Cons Univ 16 exts)] end)) as U1.
    { unfold tail. apply dec_uid_enc. intros t x r E.
      destruct (t_suid c); cbn in E; [inversion E; lia|].
      destruct exts; cbn in E; discriminate. }
    assert (dec_uid 2 (enc_uid 2 (t_suid c) ++ match exts with [] => [] | _ :: _ => [der_explicit 3 (Cons Univ 16 exts)] end) =
            Some (t_suid c, match exts with [] => [] | _ :: _ => [der_explicit 3 (Cons Univ 16 exts)] end)) as U2.
    { apply dec_uid_enc. intros t x r E. destruct exts; cbn in E; discriminate. }
    pose proof (dec_exts_enc _ _ Ex) as DX. unfold der_seq in DX.
    destruct (t_version c =? 0)%Z eqn:V.
    - cbn [app]. unfold der_int at 1. cbn iota.
      unfold dec_int at 1. fold (der_int (t_serial c)).
      change (Prim Univ 2 (int_content (t_serial c))) with (der_int (t_serial c)).
      unfold dec_int, der_int in *. rewrite int_roundtrip.
      rewrite (dec_algid_enc _ _ Ei), (dec_name_enc _ _ Eis), (time_roundtrip _ _ Wb Enb),
              (time_roundtrip _ _ Wa Ena), (dec_name_enc _ _ Es), (dec_spki_enc _ _ Ep).
      fold tail. rewrite U1, U2, DX. repeat f_equal. lia.
    - cbn [app der_explicit]. unfold dec_int at 1, der_int at 1. rewrite int_roundtrip, V.
      unfold dec_int, der_int. rewrite int_roundtrip.
      rewrite (dec_algid_enc _ _ Ei), (dec_name_enc _ _ Eis), (time_roundtrip _ _ Wb Enb),
              (time_roundtrip _ _ Wa Ena), (dec_name_enc _ _ Es), (dec_spki_enc _ _ Ep).
      fold tail. rewrite U1, U2, DX. reflexivity. }
  unfold der_seq in *. cbn [app] in T. cbn [app]. rewrite T. destruct c; reflexivity.
Qed.

(* C02 (model side): the strict, independent parser reads back exactly the certificate that was encoded *)
Theorem parse_cert_der c t :
  wf_tcert c -> enc_cert c = Some t -> wf t = true -> len_ok (blen (enc t)) ->
  parse_cert (enc t) = Some c.
Proof.
  intros W E Wt L. unfold parse_cert, parse_all.
  pose proof (parse_enc t [] Wt L) as P. rewrite app_nil_r in P. rewrite P.
  apply dec_cert_enc; assumption.
Qed.

(* ... and whatever the strict DER layer accepts is re-encoded byte for byte (canonical form is unique) *)
Theorem parse_all_canonical bs t : parse_all bs = Some t -> enc t = bs.
Proof.
  unfold parse_all. destruct (parse bs) as [[t' r]|] eqn:P; [|discriminate].
  destruct r; [|discriminate]. intros H. inversion H; subst.
  apply enc_parse in P as [P _]. rewrite app_nil_r in P. symmetry. exact P.
Qed.
