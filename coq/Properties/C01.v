(* Property C01 - theorem statements only; every proof is `exact <lemma>` into Proofs/. *)
From Coq Require Import List Arith NArith ZArith Bool String.
From Coq.Strings Require Import Byte.
From Gopki.Model Require Import Bytes Base64 Pem Der Asn1 Text Algs Glue Pkcs8 Ext Rdn Time X509 Generate HashView Dir Plan Run Ops Cli Merge Validate Current.
From Gopki.Spec Require Import RegenSpec DirInv MergeSpec ValidateSpec X509Spec ExtSpec AdmissionSpec PolicySpec.
From Gopki.Proofs Require Import RunProofs ExtProofs PlanProofs WfProofs X509Proofs DerProofs Asn1Proofs TimeRangeProofs RdnProofs GenerateProofs ValidateProofs TimeProofs AlgsProofs Base64Proofs PolicyProofs MergeProofs CliProofs OpsProofs FaultProofs HistoryProofs HashViewProofs Pkcs8Proofs RecoverProofs PemTornProofs AdmissionProofs PemProofs GlueProofs.
From Gopki.Model Require Import Crypto.
Import ListNotations.

(* every entity written by a successful run verifies under, and names, its issuer's current certificate (its own when it has no issuer) *)
Theorem C01_regenerated_entities_chain :
  forall (d : dir) (s : strat) (d' : dir) (w : list alias),
    wf_dir (d_ents d) ->
    all_inv3 (d_ents d) ->
    run cur_csr cur_nilcert d s None = (ROk, d', w) ->
    forall a : alias,
    In a w ->
    exists (e' : ent) (c : certv),
      find_ent (d_ents d') a = Some e' /\
      cert_at (d_ents d') a = Some c /\ chain_okb (d_ents d') e' c = true.
Proof. exact regenerated_chain. Qed.
Print Assumptions C01_regenerated_entities_chain.

(* a hashed authority key id of a child equals the hashed subject key id of its issuer: both are SHA-1 of the issuer's public key bits *)
Theorem C01_aki_is_ski :
  forall (sha1 : bytes -> bytes) (c1 c2 : bool) (issuer_bits : bytes),
    exists t1 t2 : tlv,
      x_value (build_aki_hash sha1 c1 issuer_bits) = enc t1 /\
      x_value (build_ski_hash sha1 c2 issuer_bits) = enc t2 /\ spec_dec_aki t1 = Some (spec_dec_ski t2).
Proof. exact aki_is_ski. Qed.
Print Assumptions C01_aki_is_ski.

(* cert.Sign over abstract signature primitives: the signature in the certificate verifies, under the issuer's public key and
   with the scheme of the algorithm, over exactly the TBSCertificate bytes that are in the certificate; a signature algorithm
   that does not fit the signing key's type makes signing fail.  [sig_correct] is the only premise about the primitives. *)
Theorem C01_signature_verifies :
  forall (privkey pubkey : Type) (pub : privkey -> pubkey) (key_is_rsa : privkey -> bool)
         (sig_sign : bool * N -> privkey -> bytes -> N -> bytes) (sig_verify : bool * N -> pubkey -> bytes -> bytes -> bool),
    (forall alg k m r, fst alg = key_is_rsa k -> sig_verify alg (pub k) m (sig_sign alg k m r) = true) ->
    forall (c : tcert) (alg : bool * N) (k : privkey) (nonce : N) (c' : tcert),
      sign_cert privkey key_is_rsa sig_sign c alg k nonce = Some c' ->
      exists tbs, enc_tbs c' = Some tbs /\ sig_verify alg (pub k) (enc tbs) (t_sig c') = true /\ fst alg = key_is_rsa k.
Proof. exact sign_verifies. Qed.
Print Assumptions C01_signature_verifies.

Theorem C01_mismatching_algorithm_fails :
  forall (privkey : Type) (key_is_rsa : privkey -> bool) (sig_sign : bool * N -> privkey -> bytes -> N -> bytes)
         (c : tcert) (alg : bool * N) (k : privkey) (nonce : N),
    fst alg <> key_is_rsa k -> sign_cert privkey key_is_rsa sig_sign c alg k nonce = None.
Proof. exact sign_mismatch_fails. Qed.
Print Assumptions C01_mismatching_algorithm_fails.
