(* Property C02 - theorem statements only; every proof is `exact <lemma>` into Proofs/. *)
From Coq Require Import List Arith NArith ZArith Bool String.
From Coq.Strings Require Import Byte.
From Gopki.Proofs Require Import CanonProofs.
From Gopki.Model Require Import Bytes Base64 Pem Der Asn1 Text Algs Glue Pkcs8 Ext Rdn Time X509 Generate HashView Dir Plan Run Ops Cli Merge Validate Current.
From Gopki.Spec Require Import RegenSpec DirInv MergeSpec ValidateSpec X509Spec ExtSpec AdmissionSpec PolicySpec.
From Gopki.Proofs Require Import RunProofs ExtProofs PlanProofs WfProofs X509Proofs DerProofs Asn1Proofs TimeRangeProofs RdnProofs GenerateProofs ValidateProofs TimeProofs AlgsProofs Base64Proofs PolicyProofs MergeProofs CliProofs OpsProofs FaultProofs HistoryProofs HashViewProofs Pkcs8Proofs RecoverProofs PemTornProofs AdmissionProofs PemProofs GlueProofs.
From Gopki.Proofs Require Import ShapeProofs.
Import ListNotations.

(* every generated certificate is accepted by the strict parser, which reads back exactly the typed certificate *)
Theorem C02_generated_parses_back :
  forall (fx : fixes) (mfx : more_fixes) (sha1 : bytes -> bytes) (cfg : cert_cfg) 
      (o : observed) (issuer : option (list rdn * bytes)) (c : tcert) (t : tlv),
    gen_tcert fx mfx sha1 cfg o issuer = Some c ->
    alg_wf (sp_alg (ob_spki o)) ->
    enc_cert c = Some t -> len_ok (blen (enc t)) -> parse_cert (enc t) = Some c.
Proof. exact C02_generated. Qed.
Print Assumptions C02_generated_parses_back.

(* whatever the strict parser accepts re-encodes to the same bytes (every length, INTEGER, BOOLEAN, BIT STRING, OID and time is canonical) *)
Theorem C02_parse_is_canonical :
  forall (bs : bytes) (t : tlv), parse_all bs = Some t -> enc t = bs.
Proof. exact parse_all_canonical. Qed.
Print Assumptions C02_parse_is_canonical.

(* DER round trip, encoder side *)
Theorem C02_der_parse_enc :
  forall (x : tlv) (r : list byte),
    wf x = true -> len_ok (blen (enc x)) -> parse (enc x ++ r) = Some (x, r).
Proof. exact parse_enc. Qed.
Print Assumptions C02_der_parse_enc.

(* DER round trip, decoder side *)
Theorem C02_der_enc_parse :
  forall (bs : bytes) (x : tlv) (r : bytes), parse bs = Some (x, r) -> bs = enc x ++ r /\ wf x = true.
Proof. exact enc_parse. Qed.
Print Assumptions C02_der_enc_parse.

(* UTCTime / GeneralizedTime decode to the civil time that was encoded *)
Theorem C02_time_roundtrip :
  forall (c : civil) (t : tlv), valid_civil c -> der_time c = Some t -> dec_time t = Some c.
Proof. exact time_roundtrip. Qed.
Print Assumptions C02_time_roundtrip.

(* whenever the encoder accepts a validity time it is a valid calendar time *)
Theorem C02_validity_time_is_calendar_valid :
  forall (w : wall) (off : Z) (t : tlv),
    der_time (civil_of_wall (to_utc w off)) = Some t -> valid_civil (civil_of_wall (to_utc w off)).
Proof. exact to_utc_valid. Qed.
Print Assumptions C02_validity_time_is_calendar_valid.

(* a serial below 2^159 has at most 20 content octets *)
Theorem C02_serial_at_most_20_octets :
  forall z : Z, (0 <= z < 2 ^ 159)%Z -> Datatypes.length (int_content z) <= 20.
Proof. exact serial_octets. Qed.
Print Assumptions C02_serial_at_most_20_octets.

(* the shape rules for a configuration without manipulations: v3, inner = outer, NULL parameters exactly for the RSA schemes,
   serial non-negative and at most 20 content octets *)
Theorem C02_shape :
  forall (fx : fixes) (sha1 : bytes -> bytes) (c : cert_cfg) (o : observed) (iss : option (list rdn * bytes)) (t : tcert),
    gen_tcert fx cur_mfx sha1 c o iss = Some t -> cc_manip c = no_manip ->
    t_version t = 2%Z /\ t_inner t = t_outer t /\
    (exists so rsa, sig_oid (effective_sigalg c) = Some (so, rsa) /\ t_outer t = mkAlg so (if rsa then Some der_null else None)) /\
    ((0 <= ob_serial o)%Z -> (0 <= t_serial t)%Z) /\
    ((0 <= ob_serial o < 2 ^ 159)%Z -> (cc_serial c < 2 ^ 63)%Z -> (Datatypes.length (int_content (t_serial t)) <= 20)%nat).
Proof. exact generated_shape. Qed.
Print Assumptions C02_shape.

(* the decoder side of canonicity: whatever the independent strict parser accepts is the one canonical DER encoding of the typed
   certificate it returns - every INTEGER is minimal two's complement, every OID minimal base 128, BOOLEAN TRUE is FF and DEFAULT
   FALSE / v1 are omitted, BIT STRINGs carry no unused bits, times have the UTCTime / GeneralizedTime form their year demands -
   so decoding and re-encoding reproduces the input byte for byte *)
Theorem C02_accepted_means_canonical :
  forall (bs : bytes) (c : tcert), parse_cert bs = Some c -> cert_der c = Some bs.
Proof. exact parse_cert_canonical. Qed.
Print Assumptions C02_accepted_means_canonical.

Theorem C02_integer_canonical :
  forall (l : bytes) (z : Z), int_of_content l = Some z -> int_content z = l.
Proof. exact int_content_of_content. Qed.
Print Assumptions C02_integer_canonical.

Theorem C02_oid_canonical :
  forall (c : bytes) (arcs : list N), oid_of_content c = Some arcs -> oid_content arcs = Some c.
Proof. exact oid_content_of_content. Qed.
Print Assumptions C02_oid_canonical.

Theorem C02_time_canonical :
  forall (t : tlv) (c : civil), dec_time t = Some c -> der_time c = Some t.
Proof. exact der_time_of_dec_time. Qed.
Print Assumptions C02_time_canonical.
