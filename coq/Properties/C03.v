(* Property C03 - theorem statements only; every proof is `exact <lemma>` into Proofs/. *)
From Coq Require Import List Arith NArith ZArith Bool String.
From Coq.Strings Require Import Byte.
From Gopki.Model Require Import Bytes Base64 Pem Der Asn1 Text Algs Glue Pkcs8 Ext Rdn Time X509 Generate HashView Dir Plan Run Ops Cli Merge Validate Current.
From Gopki.Spec Require Import RegenSpec DirInv MergeSpec ValidateSpec X509Spec ExtSpec AdmissionSpec PolicySpec.
From Gopki.Proofs Require Import RunProofs ExtProofs PlanProofs WfProofs X509Proofs DerProofs Asn1Proofs TimeRangeProofs RdnProofs GenerateProofs ValidateProofs TimeProofs AlgsProofs Base64Proofs PolicyProofs MergeProofs CliProofs OpsProofs FaultProofs HistoryProofs HashViewProofs Pkcs8Proofs RecoverProofs PemTornProofs AdmissionProofs PemProofs GlueProofs.
From Gopki.Model Require Import Effective.
From Gopki.Proofs Require Import EffectiveProofs.
Import ListNotations.

(* a subject written in the documented grammar parses to exactly its pairs, one RDN each, in reverse order *)
Theorem C03_subject_grammar :
  forall ps : list (bytes * bytes),
    ps <> [] ->
    Forall good ps ->
    parse_rdn (render ps) = match map_opt rdn_of ps with
                            | Some l => Some (rev l)
                            | None => None
                            end.
Proof. exact parse_rdn_render. Qed.
Print Assumptions C03_subject_grammar.

(* subject, serial and unique ids of the generated certificate are the configured ones *)
Theorem C03_fields_from_config :
  forall (fx : fixes) (mfx : more_fixes) (sha1 : bytes -> bytes) (c : cert_cfg) 
      (o : observed) (iss : option (list rdn * bytes)) (t : tcert),
    gen_tcert fx mfx sha1 c o iss = Some t ->
    exists bits : bytes,
      map_opt
        (fun x : any_ext => build_ext fx sha1 x bits match iss with
                                                     | Some (_, b) => b
                                                     | None => bits
                                                     end) (cc_exts c) = Some (t_exts t) /\
      Datatypes.length (t_exts t) = Datatypes.length (cc_exts c) /\
      parse_rdn (cc_subject c) = Some (t_subject t) /\
      t_serial t = (if (cc_serial c =? 0)%Z then ob_serial o else cc_serial c) /\
      match cc_issuer_uid c with
      | [] => t_iuid t = None
      | b :: l => exists b0 : bytes, raw_of fx (b :: l) = Some b0 /\ t_iuid t = Some b0
      end /\
      match cc_subject_uid c with
      | [] => t_suid t = None
      | b :: l => exists b0 : bytes, raw_of fx (b :: l) = Some b0 /\ t_suid t = Some b0
      end /\ t_issuer t = match iss with
                          | Some (n, _) => n
                          | None => t_subject t
                          end.
Proof. exact gen_fields. Qed.
Print Assumptions C03_fields_from_config.

(* the result is the same whether or not a profile validated the subject: a profile never changes subject, serial or unique ids *)
Theorem C03_profile_independent :
  forall (p : option profile) (c c' : cert_cfg),
    effective p c = Some c' ->
    cc_subject c' = cc_subject c /\ cc_serial c' = cc_serial c /\ cc_issuer_uid c' = cc_issuer_uid c /\
    cc_subject_uid c' = cc_subject_uid c /\ cc_keyalg c' = cc_keyalg c /\ cc_sigalg c' = cc_sigalg c /\ cc_manip c' = cc_manip c.
Proof. exact effective_keeps_identity. Qed.
Print Assumptions C03_profile_independent.
