(* Property C04 - theorem statements only; every proof is `exact <lemma>` into Proofs/. *)
From Coq Require Import List Arith NArith ZArith Bool String.
From Coq.Strings Require Import Byte.
From Gopki.Model Require Import Bytes Base64 Pem Der Asn1 Text Algs Glue Pkcs8 Ext Rdn Time X509 Generate HashView Dir Plan Run Ops Cli Merge Validate Current.
From Gopki.Spec Require Import RegenSpec DirInv MergeSpec ValidateSpec X509Spec ExtSpec AdmissionSpec PolicySpec.
From Gopki.Proofs Require Import RunProofs ExtProofs PlanProofs WfProofs X509Proofs DerProofs Asn1Proofs TimeRangeProofs RdnProofs GenerateProofs ValidateProofs TimeProofs AlgsProofs Base64Proofs PolicyProofs MergeProofs CliProofs OpsProofs FaultProofs HistoryProofs HashViewProofs Pkcs8Proofs RecoverProofs PemTornProofs AdmissionProofs PemProofs GlueProofs.
From Gopki.Model Require Import Effective.
From Gopki.Proofs Require Import EffectiveProofs ValidityProofs.
Import ListNotations.

(* every valid calendar date written YYYY-MM-DD is read as that year, month and day *)
Theorem C04_date_parse :
  forall y m d : N,
    (y <= 9999)%N ->
    (1 <= m <= 12)%N ->
    (1 <= d)%N ->
    (Z.of_N d <= days_in_month (Z.of_N y) (Z.of_N m))%Z ->
    parse_date (negb (fx_date cur_mfx)) (fmt_ymd y m d) = Some (Z.of_N y, Z.of_N m, Z.of_N d).
Proof. exact parse_date_fmt. Qed.
Print Assumptions C04_date_parse.

(* UTC conversion yields a calendar-valid time for every zone offset *)
Theorem C04_validity_time_is_calendar_valid :
  forall (w : wall) (off : Z) (t : tlv),
    der_time (civil_of_wall (to_utc w off)) = Some t -> valid_civil (civil_of_wall (to_utc w off)).
Proof. exact to_utc_valid. Qed.
Print Assumptions C04_validity_time_is_calendar_valid.

(* the written time decodes to the instant that was computed *)
Theorem C04_time_roundtrip :
  forall (c : civil) (t : tlv), valid_civil c -> der_time c = Some t -> dec_time t = Some c.
Proof. exact time_roundtrip. Qed.
Print Assumptions C04_time_roundtrip.

(* a certificate with no validity block of its own takes its profile's, otherwise its own wins *)
Theorem C04_own_validity_wins_iff_set :
  forall (pr : profile) (c c' : cert_cfg),
    effective (Some pr) c = Some c' ->
    cc_validity c' = if validity_is_set (cc_validity c) then cc_validity c
                     else if validity_is_set (pr_validity pr) then pr_validity pr else cc_validity c.
Proof. exact effective_validity. Qed.
Print Assumptions C04_own_validity_wins_iff_set.

(* what the validity block means, case by case: without `from` the start is the time of the run, with it local midnight of
   that date; `until` is read the same way; a `duration` is calendar-added to the start; with neither the lifetime is five
   years; `until` and `duration` exclude each other; no accepted block ends after the year 9999 *)
Theorem C04_validity_block_rules :
  forall (v : validity_cfg) (now : wall) (r : validity),
    to_time_struct (negb (fx_date cur_mfx)) v now = Some r ->
    (v_from v = [] -> vl_from r = now /\ vl_is_static r = false) /\
    (v_from v <> [] -> exists y m d, parse_date (negb (fx_date cur_mfx)) (v_from v) = Some (y, m, d)
                                    /\ vl_from r = mkWall y m d 0 /\ vl_is_static r = true) /\
    (v_until v = [] -> v_duration v = [] -> vl_until r = add_date (vl_from r) 5 0 0) /\
    (v_until v <> [] -> v_duration v = [] /\ exists y m d, parse_date (negb (fx_date cur_mfx)) (v_until v) = Some (y, m, d)
                                    /\ vl_until r = mkWall y m d 0) /\
    (v_duration v <> [] -> v_until v = [] /\ exists y m d, parse_duration (v_duration v) = Some (y, m, d)
                                    /\ vl_until r = add_date (vl_from r) y m d) /\
    (w_y (vl_until r) <= 9999)%Z.
Proof. exact (validity_rules (negb (fx_date cur_mfx))). Qed.
Print Assumptions C04_validity_block_rules.

(* the day-count algorithms behind AddDate invert each other on every date of the proleptic Gregorian calendar, any year *)
Theorem C04_calendar_roundtrip :
  forall y m d : Z, (1 <= m <= 12)%Z -> (1 <= d <= days_in_month y m)%Z ->
    civil_from_days (days_from_civil y m d) = (y, m, d).
Proof. exact civil_roundtrip. Qed.
Print Assumptions C04_calendar_roundtrip.

(* calendar addition: N years and M months on is the same day of the month, M months later with the year carried,
   whenever that day exists there (otherwise it is carried into the following month: `add_date_carries`) *)
Theorem C04_duration_is_calendar_addition :
  forall (t : wall) (dy dm : Z),
    let m0 := (w_m t - 1 + dm)%Z in
    let y1 := (w_y t + dy + m0 / 12)%Z in
    let m1 := (m0 mod 12 + 1)%Z in
    (1 <= w_d t <= days_in_month y1 m1)%Z ->
    add_date t dy dm 0 = mkWall y1 m1 (w_d t) (w_sod t).
Proof. exact add_date_calendar. Qed.
Print Assumptions C04_duration_is_calendar_addition.

(* the default lifetime is five years to the day *)
Theorem C04_default_five_years :
  forall t : wall, (1 <= w_m t <= 12)%Z -> (1 <= w_d t <= days_in_month (w_y t + 5) (w_m t))%Z ->
    add_date t 5 0 0 = mkWall (w_y t + 5) (w_m t) (w_d t) (w_sod t).
Proof. exact five_years_to_the_day. Qed.
Print Assumptions C04_default_five_years.

(* UTCTime through 2049, GeneralizedTime from 2050 (and before 1950); nothing after 9999 is written *)
Theorem C04_time_type_by_year :
  forall (c : civil) (t : tlv), der_time c = Some t ->
    (cv_year c <= 9999)%N /\
    ((1950 <= cv_year c < 2050)%N -> t = Prim Univ 23 (two_digits (cv_year c mod 100) ++ time_tail c)) /\
    ((cv_year c < 1950 \/ 2050 <= cv_year c)%N -> t = Prim Univ 24 (four_digits (cv_year c) ++ time_tail c)).
Proof. exact der_time_form. Qed.
Print Assumptions C04_time_type_by_year.

Theorem C04_time_is_zulu_13_or_15_octets :
  forall (c : civil) (t : tlv), der_time c = Some t ->
    match t with
    | Prim Univ 23 b => List.length b = 13%nat /\ last b (n2b 0) = n2b 90
    | Prim Univ 24 b => List.length b = 15%nat /\ last b (n2b 0) = n2b 90
    | _ => False
    end.
Proof. exact der_time_length. Qed.
Print Assumptions C04_time_is_zulu_13_or_15_octets.

(* every day number, before and after the epoch, is turned into a calendar-valid date whose day number it is *)
Theorem C04_day_number_roundtrip :
  forall z : Z,
    let '(y, m, d) := civil_from_days z in
    days_from_civil y m d = z /\ (1 <= m <= 12)%Z /\ (1 <= d <= days_in_month y m)%Z.
Proof. exact days_roundtrip. Qed.
Print Assumptions C04_day_number_roundtrip.

(* a duration with days: the end is a calendar-valid date exactly (day of the month - 1 + D) days after the first of the
   month reached by adding the years and months, at the same time of day - for every start and every duration *)
Theorem C04_duration_days_exact :
  forall (t : wall) (dy dm dd : Z),
    let m0 := (w_m t - 1 + dm)%Z in
    let y1 := (w_y t + dy + m0 / 12)%Z in
    let m1 := (m0 mod 12 + 1)%Z in
    let r := add_date t dy dm dd in
    days_from_civil (w_y r) (w_m r) (w_d r) = (days_from_civil y1 m1 1 + (w_d t + dd - 1))%Z
    /\ (1 <= w_m r <= 12)%Z /\ (1 <= w_d r <= days_in_month (w_y r) (w_m r))%Z /\ w_sod r = w_sod t.
Proof. exact add_date_days. Qed.
Print Assumptions C04_duration_days_exact.
