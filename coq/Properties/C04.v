(* Property C04 - theorem statements only; every proof is `exact <lemma>` into Proofs/. *)
From Coq Require Import List Arith NArith ZArith Bool String.
From Coq.Strings Require Import Byte.
From Gopki.Model Require Import Bytes Base64 Pem Der Asn1 Text Algs Glue Pkcs8 Ext Rdn Time X509 Generate HashView Dir Plan Run Ops Cli Merge Validate Current.
From Gopki.Spec Require Import RegenSpec DirInv MergeSpec ValidateSpec X509Spec ExtSpec AdmissionSpec PolicySpec.
From Gopki.Proofs Require Import RunProofs ExtProofs PlanProofs WfProofs X509Proofs DerProofs Asn1Proofs TimeRangeProofs RdnProofs GenerateProofs ValidateProofs TimeProofs AlgsProofs Base64Proofs PolicyProofs MergeProofs CliProofs OpsProofs FaultProofs HistoryProofs HashViewProofs Pkcs8Proofs RecoverProofs PemTornProofs AdmissionProofs PemProofs GlueProofs.
From Gopki.Model Require Import Effective.
From Gopki.Proofs Require Import EffectiveProofs.
Import ListNotations.

(* every valid calendar date written YYYY-MM-DD is read as that year, month and day *)
Theorem C04_date_parse :
  forall y m d : N,
    (y <= 9999)%N ->
    (1 <= m <= 12)%N ->
    (1 <= d)%N ->
    (Z.of_N d <= days_in_month (Z.of_N y) (Z.of_N m))%Z ->
    parse_date (negb (fx_date cur_mfx)) (fmt_ymd y m d) = Some (Z.of_N y, Z.of_N m, Z.of_N d).
Proof. exact parse_date_fmt. Qed.
Print Assumptions C04_date_parse.

(* UTC conversion yields a calendar-valid time for every zone offset *)
Theorem C04_validity_time_is_calendar_valid :
  forall (w : wall) (off : Z) (t : tlv),
    der_time (civil_of_wall (to_utc w off)) = Some t -> valid_civil (civil_of_wall (to_utc w off)).
Proof. exact to_utc_valid. Qed.
Print Assumptions C04_validity_time_is_calendar_valid.

(* the written time decodes to the instant that was computed *)
Theorem C04_time_roundtrip :
  forall (c : civil) (t : tlv), valid_civil c -> der_time c = Some t -> dec_time t = Some c.
Proof. exact time_roundtrip. Qed.
Print Assumptions C04_time_roundtrip.

(* a certificate with no validity block of its own takes its profile's, otherwise its own wins *)
Theorem C04_own_validity_wins_iff_set :
  forall (pr : profile) (c c' : cert_cfg),
    effective (Some pr) c = Some c' ->
    cc_validity c' = if validity_is_set (cc_validity c) then cc_validity c
                     else if validity_is_set (pr_validity pr) then pr_validity pr else cc_validity c.
Proof. exact effective_validity. Qed.
Print Assumptions C04_own_validity_wins_iff_set.
