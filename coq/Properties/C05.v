(* Property C05 - theorem statements only; every proof is `exact <lemma>` into Proofs/. *)
From Coq Require Import List Arith NArith ZArith Bool String.
From Coq.Strings Require Import Byte.
From Gopki.Model Require Import Bytes Base64 Pem Der Asn1 Text Algs Glue Pkcs8 Ext Rdn Time X509 Generate HashView Dir Plan Run Ops Cli Merge Validate Current.
From Gopki.Spec Require Import RegenSpec DirInv MergeSpec ValidateSpec X509Spec ExtSpec AdmissionSpec PolicySpec.
From Gopki.Proofs Require Import RunProofs ExtProofs PlanProofs WfProofs X509Proofs DerProofs Asn1Proofs TimeRangeProofs RdnProofs GenerateProofs ValidateProofs TimeProofs AlgsProofs Base64Proofs PolicyProofs MergeProofs CliProofs OpsProofs FaultProofs HistoryProofs HashViewProofs Pkcs8Proofs RecoverProofs PemTornProofs AdmissionProofs PemProofs GlueProofs.
From Gopki.Model Require Import CaseLib.
From Gopki.Proofs Require Import TableProofs.
Import ListNotations.

(* each of the 14 key algorithm names denotes its documented curve / modulus length *)
Theorem C05_key_table :
  forall s : string, In s key_names -> keyalg_of_name cur_keytab s = spec_keyalg s /\ spec_keyalg s <> None.
Proof. exact key_table_repaired. Qed.
Print Assumptions C05_key_table.

(* an omitted signature algorithm is SHA-256 with the scheme of the entity's own key type *)
Theorem C05_default_signature_scheme :
  forall s : string,
    In s key_names ->
    default_sig_name s =
    match spec_keyalg s with
    | Some k => if is_rsa k then "RSAwithSHA256"%string else "ECDSAwithSHA256"%string
    | None => "ECDSAwithSHA256"%string
    end.
Proof. exact default_sig_scheme. Qed.
Print Assumptions C05_default_signature_scheme.

(* the SubjectPublicKeyInfo algorithm of every key type is a well-formed identifier *)
Theorem C05_spki_algorithm_wf :
  forall (k : keyalg) (a : algid), spki_alg k = Some a -> alg_wf a.
Proof. exact spki_alg_wf. Qed.
Print Assumptions C05_spki_algorithm_wf.

(* every one of the 14 key types has a SubjectPublicKeyInfo algorithm *)
Theorem C05_spki_algorithm_total :
  forallb (fun k : keyalg => match spki_alg k with
                               | Some _ => true
                               | None => false
                               end)
      [P224; P256; P384; P521; BP256r1; BP384r1; BP512r1; BP256t1; BP384t1; BP512t1; RSA1024; RSA2048;
       RSA4096; RSA8192] = true.
Proof. exact spki_alg_total. Qed.
Print Assumptions C05_spki_algorithm_total.

(* the SubjectPublicKeyInfo algorithm demanded for each of the 14 names and for the omitted name: rsaEncryption + NULL, or
   id-ecPublicKey + the documented curve's OID (finite table, closed by evaluation) *)
Theorem C05_spki_algorithm_table :
  forallb (fun s => algid_opt_eqb (spki_alg_of_name (list_byte_of_string s)) (spec_spki_alg s)
                    && match spec_spki_alg s with Some _ => true | None => false end)
          (""%string :: key_names) = true.
Proof. exact spki_algorithm_table. Qed.
Print Assumptions C05_spki_algorithm_table.

Theorem C05_signature_scheme_table :
  forallb (fun sg => forallb (fun k =>
      Bool.eqb (match sig_oid (list_byte_of_string sg) with
                | Some (_, rsa) => Bool.eqb rsa (key_is_rsa (list_byte_of_string k))
                | None => false end)
               (Bool.eqb (String.prefix "RSA" sg) (match spec_keyalg k with Some ka => is_rsa ka | None => false end)))
      key_names) sig_names = true.
Proof. exact signature_scheme_table. Qed.
Print Assumptions C05_signature_scheme_table.
