(* Property C06 - theorem statements only; every proof is `exact <lemma>` into Proofs/. *)
From Coq Require Import List Arith NArith ZArith Bool String.
From Coq.Strings Require Import Byte.
From Gopki.Model Require Import Bytes Base64 Pem Der Asn1 Text Algs Glue Pkcs8 Ext Rdn Time X509 Generate HashView Dir Plan Run Ops Cli Merge Validate Current.
From Gopki.Spec Require Import RegenSpec DirInv MergeSpec ValidateSpec X509Spec ExtSpec AdmissionSpec PolicySpec.
From Gopki.Proofs Require Import RunProofs ExtProofs PlanProofs WfProofs X509Proofs DerProofs Asn1Proofs TimeRangeProofs RdnProofs GenerateProofs ValidateProofs TimeProofs AlgsProofs Base64Proofs PolicyProofs MergeProofs CliProofs OpsProofs FaultProofs HistoryProofs HashViewProofs Pkcs8Proofs RecoverProofs PemTornProofs AdmissionProofs PemProofs GlueProofs.
From Gopki.Model Require Import Effective.
From Gopki.Proofs Require Import ExtFieldsProofs.
Import ListNotations.

(* the certificate's extension list is the compiled effective list, same length, same order *)
Theorem C06_extensions_in_order :
  forall (fx : fixes) (mfx : more_fixes) (sha1 : bytes -> bytes) (c : cert_cfg) 
      (o : observed) (iss : option (list rdn * bytes)) (t : tcert),
    gen_tcert fx mfx sha1 c o iss = Some t ->
    exists bits : bytes,
      map_opt
        (fun x : any_ext => build_ext fx sha1 x bits match iss with
                                                     | Some (_, b) => b
                                                     | None => bits
                                                     end) (cc_exts c) = Some (t_exts t) /\
      Datatypes.length (t_exts t) = Datatypes.length (cc_exts c) /\
      parse_rdn (cc_subject c) = Some (t_subject t) /\
      t_serial t = (if (cc_serial c =? 0)%Z then ob_serial o else cc_serial c) /\
      match cc_issuer_uid c with
      | [] => t_iuid t = None
      | b :: l => exists b0 : bytes, raw_of fx (b :: l) = Some b0 /\ t_iuid t = Some b0
      end /\
      match cc_subject_uid c with
      | [] => t_suid t = None
      | b :: l => exists b0 : bytes, raw_of fx (b :: l) = Some b0 /\ t_suid t = Some b0
      end /\ t_issuer t = match iss with
                          | Some (n, _) => n
                          | None => t_subject t
                          end.
Proof. exact gen_fields. Qed.
Print Assumptions C06_extensions_in_order.

(* base64 decoding inverts encoding for every byte string *)
Theorem C06_base64_roundtrip :
  forall l : bytes, b64_decode (b64_encode l) = Some l.
Proof. exact b64_decode_encode. Qed.
Print Assumptions C06_base64_roundtrip.

(* a !binary: raw value of any length is read back byte for byte *)
Theorem C06_raw_binary_any_length :
  forall payload : list byte,
    payload <> [] -> read_raw (binary_prefix ++ b64_encode payload) = Some payload.
Proof. exact read_raw_binary. Qed.
Print Assumptions C06_raw_binary_any_length.

(* each built extension carries the OID of its kind (the configured OID for custom extensions) and the configured critical flag *)
Theorem C06_oid_and_critical :
  forall (sha1 : bytes -> bytes) (x : any_ext) (bits ibits : bytes) (e : ext),
    build_ext cur_fx sha1 x bits ibits = Some e ->
    Some (x_oid e) = any_ext_oid x /\ x_crit e = cfg_crit x.
Proof. exact built_extension_oid_and_critical. Qed.
Print Assumptions C06_oid_and_critical.

(* a value given as raw is the extension's value byte for byte, for every extension kind *)
Theorem C06_raw_value_unchanged :
  forall (sha1 : bytes -> bytes) (x : any_ext) (bits ibits : bytes) (e : ext),
    cfg_raw x <> [] -> build_ext cur_fx sha1 x bits ibits = Some e -> raw_of cur_fx (cfg_raw x) = Some (x_value e).
Proof. exact raw_value_reaches_the_extension. Qed.
Print Assumptions C06_raw_value_unchanged.
