(* Property C07 - theorem statements only; every proof is `exact <lemma>` into Proofs/. *)
From Coq Require Import List Arith NArith ZArith Bool String.
From Coq.Strings Require Import Byte.
From Gopki.Model Require Import Bytes Base64 Pem Der Asn1 Text Algs Glue Pkcs8 Ext Rdn Time X509 Generate HashView Dir Plan Run Ops Cli Merge Validate Current.
From Gopki.Spec Require Import RegenSpec DirInv MergeSpec ValidateSpec X509Spec ExtSpec AdmissionSpec PolicySpec.
From Gopki.Proofs Require Import RunProofs ExtProofs PlanProofs WfProofs X509Proofs DerProofs Asn1Proofs TimeRangeProofs RdnProofs GenerateProofs ValidateProofs TimeProofs AlgsProofs Base64Proofs PolicyProofs MergeProofs CliProofs OpsProofs FaultProofs HistoryProofs HashViewProofs Pkcs8Proofs RecoverProofs PemTornProofs AdmissionProofs PemProofs GlueProofs.
Import ListNotations.

Theorem C07_basic_constraints :
  forall (crit ca : bool) (pl : Z),
    (0 <= pl)%Z ->
    exists t : tlv,
      x_value (build_bc crit ca pl) = enc t /\
      spec_dec_bc t = Some (ca, if (pl =? 0)%Z then None else Some pl) /\
      x_crit (build_bc crit ca pl) = crit.
Proof. exact bc_decodes. Qed.
Print Assumptions C07_basic_constraints.

Theorem C07_subject_key_id :
  forall (sha1 : bytes -> bytes) (crit : bool) (bits : bytes),
    exists t : tlv, x_value (build_ski_hash sha1 crit bits) = enc t /\ spec_dec_ski t = Some (sha1 bits).
Proof. exact ski_decodes. Qed.
Print Assumptions C07_subject_key_id.

Theorem C07_authority_key_id_hash :
  forall (sha1 : bytes -> bytes) (crit : bool) (bits : bytes),
    exists t : tlv,
      x_value (build_aki_hash sha1 crit bits) = enc t /\ spec_dec_aki t = Some (Some (sha1 bits)).
Proof. exact aki_hash_decodes. Qed.
Print Assumptions C07_authority_key_id_hash.

Theorem C07_authority_key_id_explicit :
  forall (crit : bool) (id : list byte),
    id <> [] -> exists t : tlv, x_value (build_aki_id crit id) = enc t /\ spec_dec_aki t = Some (Some id).
Proof. exact aki_id_decodes. Qed.
Print Assumptions C07_authority_key_id_explicit.

Theorem C07_extended_key_usage :
  forall (crit : bool) (content : list bytes) (e : ext),
    content <> [] ->
    build_eku crit content = Some e ->
    exists (t : tlv) (oids : list (list N)),
      x_value e = enc t /\
      spec_dec_eku t = Some oids /\ Datatypes.length oids = Datatypes.length content /\ x_crit e = crit.
Proof. exact eku_decodes. Qed.
Print Assumptions C07_extended_key_usage.

Theorem C07_authority_info_access :
  forall (crit : bool) (content : list bytes) (e : ext),
    build_aia crit content = Some e ->
    exists t : tlv,
      x_value e = enc t /\
      spec_dec_aia t = Some (map (fun u : bytes => (oid_ad_ocsp, GnUri u)) content) /\ x_crit e = crit.
Proof. exact aia_decodes. Qed.
Print Assumptions C07_authority_info_access.
(* the three kinds whose encoders had a repair switch, stated at the switches that describe /repo now *)
Theorem C07_key_usage :
  forall f : N, (f < 256)%N -> N.even f = true -> spec_dec_ku (ku_tlv cur_fx f) = Some f.
Proof. exact (fun f => ku_decodes cur_fx f eq_refl). Qed.
Print Assumptions C07_key_usage.

Theorem C07_subject_alt_name :
  forall (crit : bool) (content : list (bytes * bytes)) (e : ext),
    build_san cur_fx crit content = Some e ->
    exists (t : tlv) (names : list gen_name),
      x_value e = enc t /\ spec_dec_san t = Some names /\ map_opt (view_san_name cur_fx) content = Some names /\ x_crit e = crit.
Proof. exact (san_decodes cur_fx). Qed.
Print Assumptions C07_subject_alt_name.

Theorem C07_certificate_policies :
  forall (crit : bool) (content : list policy) (e : ext),
    content <> [] ->
    Forall policy_expressible content ->
    build_cp cur_fx crit content = Some e ->
    exists t : tlv, x_value e = enc t /\ spec_dec_cp t = map_opt view_policy content /\ x_crit e = crit.
Proof. exact (fun crit content e => cp_decodes cur_fx crit content e eq_refl). Qed.
Print Assumptions C07_certificate_policies.

(* recorded findings: the two configurations the current code cannot express (known_findings.json F5, F22) *)
Example C07_pathlen_zero_refuted :
  exists t : tlv, x_value (build_bc false true 0) = enc t /\ spec_dec_bc t = Some (true, None).
Proof. destruct (bc_decodes false true 0%Z ltac:(discriminate)) as (t & H1 & H2 & _). exists t. split; assumption. Qed.
Print Assumptions C07_pathlen_zero_refuted.
