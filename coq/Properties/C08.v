(* Property C08 - theorem statements only; every proof is `exact <lemma>` into Proofs/. *)
From Coq Require Import List Arith NArith ZArith Bool String.
From Coq.Strings Require Import Byte.
From Gopki.Model Require Import Bytes Base64 Pem Der Asn1 Text Algs Glue Pkcs8 Ext Rdn Time X509 Generate HashView Dir Plan Run Ops Cli Merge Validate Current.
From Gopki.Spec Require Import RegenSpec DirInv MergeSpec ValidateSpec X509Spec ExtSpec AdmissionSpec PolicySpec.
From Gopki.Proofs Require Import RunProofs ExtProofs PlanProofs WfProofs X509Proofs DerProofs Asn1Proofs TimeRangeProofs RdnProofs GenerateProofs ValidateProofs TimeProofs AlgsProofs Base64Proofs PolicyProofs MergeProofs CliProofs OpsProofs FaultProofs HistoryProofs HashViewProofs Pkcs8Proofs RecoverProofs PemTornProofs AdmissionProofs PemProofs GlueProofs.
From Gopki.Model Require Import Effective.
From Gopki.Proofs Require Import EffectiveProofs.
Import ListNotations.

(* the implementation's index bookkeeping computes exactly the documented rule, for every extension type and every pair of lists *)
Theorem C08_merge_refines_spec :
  forall (ext : Type) (oid_eqb json_eqb : ext -> ext -> bool) (prof : list (pext ext)) (cert : list ext),
    merge ext oid_eqb json_eqb prof cert = merge_spec ext oid_eqb json_eqb prof cert.
Proof. exact merge_refines_spec. Qed.
Print Assumptions C08_merge_refines_spec.

(* on whole configurations: the effective extension list is the documented merge of the real extension types *)
Theorem C08_effective_extensions :
  forall (pr : profile) (c c' : cert_cfg),
    effective (Some pr) c = Some c' ->
    cc_exts c' = merge_spec any_ext any_ext_oid_eqb any_ext_eqb (pr_exts pr) (cc_exts c).
Proof. exact effective_extensions_are_the_documented_merge. Qed.
Print Assumptions C08_effective_extensions.

(* a profile extension without content that remains in the effective list makes generation fail: never emitted empty, never dropped *)
Theorem C08_contentless_fails :
  forall (fx : fixes) (mfx : more_fixes) (sha1 : bytes -> bytes) (c : cert_cfg) (o : observed) (iss : option (list rdn * bytes)) (x : any_ext),
    In x (cc_exts c) -> contentless x = true -> gen_tcert fx mfx sha1 c o iss = None.
Proof. exact contentless_extension_fails_generation. Qed.
Print Assumptions C08_contentless_fails.
