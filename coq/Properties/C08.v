(* Property C08 - theorem statements only; every proof is `exact <lemma>` into Proofs/. *)
From Coq Require Import List Arith NArith ZArith Bool String.
From Coq.Strings Require Import Byte.
From Gopki.Model Require Import Bytes Base64 Pem Der Asn1 Text Algs Glue Pkcs8 Ext Rdn Time X509 Generate HashView Dir Plan Run Ops Cli Merge Validate Current.
From Gopki.Spec Require Import RegenSpec DirInv MergeSpec ValidateSpec X509Spec ExtSpec AdmissionSpec PolicySpec.
From Gopki.Proofs Require Import RunProofs ExtProofs PlanProofs WfProofs X509Proofs DerProofs Asn1Proofs TimeRangeProofs RdnProofs GenerateProofs ValidateProofs TimeProofs AlgsProofs Base64Proofs PolicyProofs MergeProofs CliProofs OpsProofs FaultProofs HistoryProofs HashViewProofs Pkcs8Proofs RecoverProofs PemTornProofs AdmissionProofs PemProofs GlueProofs.
Import ListNotations.

(* the implementation's index bookkeeping computes exactly the documented rule, for every extension type and every pair of lists *)
Theorem C08_merge_refines_spec :
  forall (ext : Type) (oid_eqb json_eqb : ext -> ext -> bool) (prof : list (pext ext)) (cert : list ext),
    merge ext oid_eqb json_eqb prof cert = merge_spec ext oid_eqb json_eqb prof cert.
Proof. exact merge_refines_spec. Qed.
Print Assumptions C08_merge_refines_spec.
