(* Property C09 - theorem statements only; every proof is `exact <lemma>` into Proofs/. *)
From Coq Require Import List Arith NArith ZArith Bool String.
From Coq.Strings Require Import Byte.
From Gopki.Model Require Import Bytes Base64 Pem Der Asn1 Text Algs Glue Pkcs8 Ext Rdn Time X509 Generate HashView Dir Plan Run Ops Cli Merge Validate Current.
From Gopki.Spec Require Import RegenSpec DirInv MergeSpec ValidateSpec X509Spec ExtSpec AdmissionSpec PolicySpec.
From Gopki.Proofs Require Import RunProofs ExtProofs PlanProofs WfProofs X509Proofs DerProofs Asn1Proofs TimeRangeProofs RdnProofs GenerateProofs ValidateProofs TimeProofs AlgsProofs Base64Proofs PolicyProofs MergeProofs CliProofs OpsProofs FaultProofs HistoryProofs HashViewProofs Pkcs8Proofs RecoverProofs PemTornProofs AdmissionProofs PemProofs GlueProofs.
From Gopki.Model Require Import Effective.
From Gopki.Proofs Require Import EffectiveProofs WritesProofs.
Import ListNotations.

(* Validate accepts exactly the documented subjects and returns the subject unchanged *)
Theorem C09_validate_spec :
  forall (oid : Type) (oid_eqb : oid -> oid -> bool),
    (forall a b : oid, oid_eqb a b = true <-> a = b) ->
    forall (attrs : option (list (pattr oid))) (allow : bool) (subject : list oid),
    (fst (validate_fixed oid oid_eqb attrs allow subject) = true <-> accepts oid attrs allow subject) /\
    snd (validate_fixed oid oid_eqb attrs allow subject) = subject.
Proof. exact validate_fixed_spec. Qed.
Print Assumptions C09_validate_spec.

(* a rejected entity makes planning fail, so nothing is generated *)
Theorem C09_rejected_aborts_plan :
  forall (es : list ent) (s : strat),
    forest es -> (exists e : ent, In e es /\ g_valid (e_cfg e) = false) -> plan cur_csr es s = None.
Proof. exact plan_invalid. Qed.
Print Assumptions C09_rejected_aborts_plan.

(* on whole configurations: an entity is rejected exactly when its subject does not parse or violates the documented rule *)
Theorem C09_rejects_iff :
  forall (pr : profile) (c : cert_cfg),
    effective (Some pr) c = None <->
    parse_rdn (cc_subject c) = None \/ exists subj, parse_rdn (cc_subject c) = Some subj /\ validate_subject pr subj = false.
Proof. exact effective_rejects_iff. Qed.
Print Assumptions C09_rejects_iff.

Theorem C09_subject_rule :
  forall (pr : profile) (subj : list rdn),
    validate_subject pr subj = true <->
    accepts (list Z) (match pr_attrs pr with
                      | None => None
                      | Some l => Some (map (fun a => mkPattr (list Z) (resolve_attr (fst a)) (snd a)) l)
                      end) (pr_allow_other pr) (map r_type subj).
Proof. exact validate_subject_is_the_rule. Qed.
Print Assumptions C09_subject_rule.

(* a rejected entity stops the run with an error before anything is generated: the directory is exactly what it was *)
Theorem C09_rejected_run_writes_nothing :
  forall (d : dir) (s : strat) (fault : option (nat * outcome)),
    plan cur_csr (d_ents d) s = None -> exists r, run cur_csr cur_nilcert d s fault = (r, d, []) /\ r = RErr.
Proof. exact (rejected_entity_changes_nothing cur_csr cur_nilcert). Qed.
Print Assumptions C09_rejected_run_writes_nothing.
