(* Property C10 - theorem statements only; every proof is `exact <lemma>` into Proofs/. *)
From Coq Require Import List Arith NArith ZArith Bool String.
From Coq.Strings Require Import Byte.
From Gopki.Model Require Import Bytes Base64 Pem Der Asn1 Text Algs Glue Pkcs8 Ext Rdn Time X509 Generate HashView Dir Plan Run Ops Cli Merge Validate Current.
From Gopki.Spec Require Import RegenSpec DirInv MergeSpec ValidateSpec X509Spec ExtSpec AdmissionSpec PolicySpec.
From Gopki.Proofs Require Import RunProofs ExtProofs PlanProofs WfProofs X509Proofs DerProofs Asn1Proofs TimeRangeProofs RdnProofs GenerateProofs ValidateProofs TimeProofs AlgsProofs Base64Proofs PolicyProofs MergeProofs CliProofs OpsProofs FaultProofs HistoryProofs HashViewProofs Pkcs8Proofs RecoverProofs PemTornProofs AdmissionProofs PemProofs GlueProofs.
From Gopki.Proofs Require Import WritesProofs.
Import ListNotations.

(* a second run with the same flags (not generate-all) right after a successful run writes nothing and changes nothing *)
Theorem C10_rerun_is_noop :
  forall (d : dir) (s : strat) (d' : dir) (w : list alias),
    wf_dir (d_ents d) ->
    clock_ok d -> s_all s = false -> run cur_csr cur_nilcert d s None = (ROk, d', w) -> run cur_csr cur_nilcert d' s None = (ROk, d', []).
Proof. exact run_idempotent. Qed.
Print Assumptions C10_rerun_is_noop.

(* at the command line, a replace without the answer y leaves the directory untouched *)
Theorem C10_no_consent_no_change :
  forall (a b : bool) (d : dir) (f : flags) (input : option bytes) (ch : list alias),
    is_consistent (d_ents d) = true ->
    s_any (strat_of_flags f) = true ->
    plan a (d_ents d) (strat_of_flags f) = Some ch ->
    existsb (replaces (d_ents d)) ch = true ->
    consent input = false -> cli_sign a b d f input = (CliAborted, d, []).
Proof. exact no_consent_no_change. Qed.
Print Assumptions C10_no_consent_no_change.

(* a run - any strategy, any fault - writes only artifacts of planned entities; every other artifact and every configuration
   (content and modification time) is what it was *)
Theorem C10_only_planned_artifacts_are_written :
  forall (d : dir) (s : strat) (fault : option (nat * outcome)) (r : result) (d' : dir) (w : list alias),
    run cur_csr cur_nilcert d s fault = (r, d', w) ->
    (forall a, In a w -> exists ch, plan cur_csr (d_ents d) s = Some ch /\ In a ch) /\
    (forall a, ~ In a w -> file_at (d_ents d') a = file_at (d_ents d) a) /\
    map (fun e => (e_alias e, e_cfg e, e_cfg_mtime e)) (d_ents d') = map (fun e => (e_alias e, e_cfg e, e_cfg_mtime e)) (d_ents d).
Proof. exact (run_writes_only_planned cur_csr cur_nilcert). Qed.
Print Assumptions C10_only_planned_artifacts_are_written.
