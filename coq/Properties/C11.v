(* Property C11 - theorem statements only; every proof is `exact <lemma>` into Proofs/. *)
From Coq Require Import List Arith NArith ZArith Bool String.
From Coq.Strings Require Import Byte.
From Gopki.Model Require Import Bytes Base64 Pem Der Asn1 Text Algs Glue Pkcs8 Ext Rdn Time X509 Generate HashView Dir Plan Run Ops Cli Merge Validate Current.
From Gopki.Spec Require Import RegenSpec DirInv MergeSpec ValidateSpec X509Spec ExtSpec AdmissionSpec PolicySpec.
From Gopki.Proofs Require Import RunProofs ExtProofs PlanProofs WfProofs X509Proofs DerProofs Asn1Proofs TimeRangeProofs RdnProofs GenerateProofs ValidateProofs TimeProofs AlgsProofs Base64Proofs PolicyProofs MergeProofs CliProofs OpsProofs FaultProofs HistoryProofs HashViewProofs Pkcs8Proofs RecoverProofs PemTornProofs AdmissionProofs PemProofs GlueProofs.
From Gopki.Proofs Require Import RegenBoolProofs.
Import ListNotations.

(* the change list is exactly the regen relation, duplicate-free, issuers first *)
Theorem C11_plan_iff_regen :
  forall (es : list ent) (s : strat),
    forest es ->
    all_valid es ->
    exists ch : list alias,
      plan cur_csr es s = Some ch /\
      (forall a : alias, In a ch <-> regen es s a) /\
      NoDup ch /\
      (forall (i j : nat) (x y : alias) (e : ent),
       nth_error ch i = Some x ->
       nth_error ch j = Some y -> find_ent es y = Some e -> issuer_of e = Some x -> i < j).
Proof. exact plan_spec. Qed.
Print Assumptions C11_plan_iff_regen.

(* the executable oracle the correspondence check uses for the regeneration relation is that relation *)
Theorem C11_regen_oracle :
  forall (es : list ent) (s : strat) (a : alias), regen es s a <-> exists fuel, regenb fuel es s a = true.
Proof. exact regenb_iff. Qed.
Print Assumptions C11_regen_oracle.

(* at the level of whole runs: a fault-free run that ends well has regenerated exactly the entities the relation demands for its
   flags, each once, every issuer before its subjects (this is what rule 7 of the lockstep check evaluates on the
   implementation's written set) *)
From Gopki.Proofs Require Import WritesProofs.
Theorem C11_successful_run_regenerates_exactly :
  forall (fn : bool) (d : dir) (s : strat) (d' : dir) (w : list alias),
    forest (d_ents d) ->
    all_valid (d_ents d) ->
    run cur_csr fn d s None = (ROk, d', w) ->
    (forall a : alias, In a w <-> regen (d_ents d) s a) /\
    NoDup w /\
    (forall (i j : nat) (x y : alias) (e : ent),
     nth_error w i = Some x ->
     nth_error w j = Some y -> find_ent (d_ents d) y = Some e -> issuer_of e = Some x -> i < j).
Proof. exact successful_run_regenerates_exactly. Qed.
Print Assumptions C11_successful_run_regenerates_exactly.
