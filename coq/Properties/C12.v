(* Property C12 - theorem statements only; every proof is `exact <lemma>` into Proofs/. *)
From Coq Require Import List Arith NArith ZArith Bool String.
From Coq.Strings Require Import Byte.
From Gopki.Model Require Import Bytes Base64 Pem Der Asn1 Text Algs Glue Pkcs8 Ext Rdn Time X509 Generate HashView Dir Plan Run Ops Cli Merge Validate Current.
From Gopki.Spec Require Import RegenSpec DirInv MergeSpec ValidateSpec X509Spec ExtSpec AdmissionSpec PolicySpec.
From Gopki.Proofs Require Import RunProofs ExtProofs PlanProofs WfProofs X509Proofs DerProofs Asn1Proofs TimeRangeProofs RdnProofs GenerateProofs ValidateProofs TimeProofs AlgsProofs Base64Proofs PolicyProofs MergeProofs CliProofs OpsProofs FaultProofs HistoryProofs HashViewProofs Pkcs8Proofs RecoverProofs PemTornProofs AdmissionProofs PemProofs GlueProofs.
Import ListNotations.

Theorem C12_default_run_converges :
  forall (d d' : dir) (w : list alias),
    wf_dir (d_ents d) ->
    dir_inv d = true ->
    blind_free (d_ents d) -> run cur_csr cur_nilcert d default_strat None = (ROk, d', w) -> DirInv.good (d_ents d') = true.
Proof. exact converges_good. Qed.
Print Assumptions C12_default_run_converges.

Theorem C12_operations_preserve_invariant :
  forall (d : dir) (o : op),
    wf_dir (d_ents d) -> dir_inv d = true -> op_ok d o -> dir_inv (apply_op d o) = true.
Proof. exact op_preserves_inv. Qed.
Print Assumptions C12_operations_preserve_invariant.

Theorem C12_runs_preserve_invariant :
  forall (d : dir) (s : strat) (fault : option (nat * outcome)) (r : result) (d' : dir) (w : list alias),
    wf_dir (d_ents d) ->
    dir_inv d = true -> blind_free (d_ents d) -> run cur_csr cur_nilcert d s fault = (r, d', w) -> dir_inv d' = true.
Proof. exact any_run_preserves_inv. Qed.
Print Assumptions C12_runs_preserve_invariant.

Theorem C12_history_invariant :
  forall (evs : list event) (d : dir), state_ok d -> hist_ok d evs -> state_ok (fold_left step evs d).
Proof. exact history_inv. Qed.
Print Assumptions C12_history_invariant.

(* after any admissible history a successful default run leaves a good directory, and the next run is a no-op *)
Theorem C12_history_converges :
  forall (evs : list event) (d0 d' : dir) (w : list alias),
    state_ok d0 ->
    hist_ok d0 evs ->
    run cur_csr cur_nilcert (fold_left step evs d0) default_strat None = (ROk, d', w) ->
    DirInv.good (d_ents d') = true /\ run cur_csr cur_nilcert d' default_strat None = (ROk, d', []).
Proof. exact history_converges. Qed.
Print Assumptions C12_history_converges.

(* a run started from the command line preserves the invariant as well *)
Theorem C12_command_line_preserves_invariant :
  forall (d : dir) (f : flags) (input : option bytes) (r : cli_result) (d' : dir) (w : list alias),
    wf_dir (d_ents d) -> dir_inv d = true -> blind_free (d_ents d) ->
    cli_sign cur_csr cur_nilcert d f input = (r, d', w) -> dir_inv d' = true.
Proof. exact cli_preserves_inv. Qed.
Print Assumptions C12_command_line_preserves_invariant.
