(* Property C13 - theorem statements only; every proof is `exact <lemma>` into Proofs/. *)
From Coq Require Import List Arith NArith ZArith Bool String.
From Coq.Strings Require Import Byte.
From Gopki.Model Require Import Bytes Base64 Pem Der Asn1 Text Algs Glue Pkcs8 Ext Rdn Time X509 Generate HashView Dir Plan Run Ops Cli Merge Validate Current.
From Gopki.Spec Require Import RegenSpec DirInv MergeSpec ValidateSpec X509Spec ExtSpec AdmissionSpec PolicySpec.
From Gopki.Proofs Require Import RunProofs ExtProofs PlanProofs WfProofs X509Proofs DerProofs Asn1Proofs TimeRangeProofs RdnProofs GenerateProofs ValidateProofs TimeProofs AlgsProofs Base64Proofs PolicyProofs MergeProofs CliProofs OpsProofs FaultProofs HistoryProofs HashViewProofs Pkcs8Proofs RecoverProofs PemTornProofs AdmissionProofs PemProofs GlueProofs.
Import ListNotations.

(* equal pre-images imply equal certificate-relevant content *)
Theorem C13_hash_sensitive :
  forall c1 c2 : content,
    HashView.hview cur_hview c1 = HashView.hview cur_hview c2 -> relevant_of c1 = relevant_of c2.
Proof. exact hview_sensitive. Qed.
Print Assumptions C13_hash_sensitive.

Theorem C13_hash_ignores_alias_profile :
  forall (fixed : bool) (c : content) (a p : bytes),
    HashView.hview fixed
      {|
        ct_alias := a;
        ct_profile := p;
        ct_serial := ct_serial c;
        ct_iuid := ct_iuid c;
        ct_suid := ct_suid c;
        ct_subject := ct_subject c;
        ct_issuer := ct_issuer c;
        ct_from := ct_from c;
        ct_until := ct_until c;
        ct_is_static := ct_is_static c;
        ct_is_set := ct_is_set c;
        ct_until_static := ct_until_static c;
        ct_duration := ct_duration c;
        ct_keyalg := ct_keyalg c;
        ct_sigalg := ct_sigalg c;
        ct_exts := ct_exts c;
        ct_manip := ct_manip c
      |} = HashView.hview fixed c.
Proof. exact hview_ignores_alias_profile. Qed.
Print Assumptions C13_hash_ignores_alias_profile.

Theorem C13_hash_ignores_relative_times :
  forall (fixed : bool) (c : content) (f u : wall),
    ct_is_static c = false ->
    ct_until_static c = false ->
    HashView.hview fixed
      {|
        ct_alias := ct_alias c;
        ct_profile := ct_profile c;
        ct_serial := ct_serial c;
        ct_iuid := ct_iuid c;
        ct_suid := ct_suid c;
        ct_subject := ct_subject c;
        ct_issuer := ct_issuer c;
        ct_from := f;
        ct_until := u;
        ct_is_static := false;
        ct_is_set := ct_is_set c;
        ct_until_static := false;
        ct_duration := ct_duration c;
        ct_keyalg := ct_keyalg c;
        ct_sigalg := ct_sigalg c;
        ct_exts := ct_exts c;
        ct_manip := ct_manip c
      |} = HashView.hview fixed c.
Proof. exact hview_ignores_relative_times. Qed.
Print Assumptions C13_hash_ignores_relative_times.
