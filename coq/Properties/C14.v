(* Property C14 - theorem statements only; every proof is `exact <lemma>` into Proofs/. *)
From Coq Require Import List Arith NArith ZArith Bool String.
From Coq.Strings Require Import Byte.
From Gopki.Model Require Import Bytes Base64 Pem Der Asn1 Text Algs Glue Pkcs8 Ext Rdn Time X509 Generate HashView Dir Plan Run Ops Cli Merge Validate Current.
From Gopki.Spec Require Import RegenSpec DirInv MergeSpec ValidateSpec X509Spec ExtSpec AdmissionSpec PolicySpec.
From Gopki.Proofs Require Import RunProofs ExtProofs PlanProofs WfProofs X509Proofs DerProofs Asn1Proofs TimeRangeProofs RdnProofs GenerateProofs ValidateProofs TimeProofs AlgsProofs Base64Proofs PolicyProofs MergeProofs CliProofs OpsProofs FaultProofs HistoryProofs HashViewProofs Pkcs8Proofs RecoverProofs PemTornProofs AdmissionProofs PemProofs GlueProofs.
Import ListNotations.

Theorem C14_key_kept :
  forall (d : dir) (s : strat) (d' : dir) (w : list alias) (a : alias) (k : key),
    wf_dir (d_ents d) ->
    run cur_csr cur_nilcert d s None = (ROk, d', w) ->
    f_key (art (d_ents d) a) = Some k ->
    f_key (art (d_ents d') a) = Some k /\
    (In a w -> exists c : certv, cert_at (d_ents d') a = Some c /\ c_pub c = k_id k).
Proof. exact key_kept. Qed.
Print Assumptions C14_key_kept.

Theorem C14_request_kept :
  forall (d : dir) (s : strat) (d' : dir) (w : list alias) (a : alias) (r : nat),
    wf_dir (d_ents d) ->
    run cur_csr cur_nilcert d s None = (ROk, d', w) ->
    f_key (art (d_ents d) a) = None ->
    f_req (art (d_ents d) a) = Some r ->
    f_key (art (d_ents d') a) = None /\
    f_req (art (d_ents d') a) = Some r /\
    (In a w -> exists c : certv, cert_at (d_ents d') a = Some c /\ c_pub c = r).
Proof. exact request_kept. Qed.
Print Assumptions C14_request_kept.

Theorem C14_pkcs8_ec_roundtrip :
  forall (base_mult : keyalg -> N -> bytes) (order : keyalg -> N) (c : keyalg) 
      (d : N) (pub : bytes) (w : nat) (co : list N) (bs : bytes),
    In c ec_curves ->
    scalar_width c = Some w ->
    curve_oid c = Some co ->
    (0 < d)%N ->
    (d < order c)%N ->
    (order c <= 256 ^ N.of_nat w)%N ->
    marshal_pkcs8 (KEc c d pub) = Some bs ->
    (blen bs < 2147483648)%N -> parse_pkcs8 base_mult order bs = Some (KEc c d (base_mult c d)).
Proof. exact pkcs8_ec_roundtrip. Qed.
Print Assumptions C14_pkcs8_ec_roundtrip.

Theorem C14_pkcs8_rsa_roundtrip :
  forall (base_mult : keyalg -> N -> bytes) (order : keyalg -> N) (n e d p q dp dq qinv : N)
      (bs : bytes),
    marshal_pkcs8 (KRsa n e d p q dp dq qinv) = Some bs ->
    (blen bs < 2147483648)%N -> parse_pkcs8 base_mult order bs = Some (KRsa n e d p q dp dq qinv).
Proof. exact pkcs8_rsa_roundtrip. Qed.
Print Assumptions C14_pkcs8_rsa_roundtrip.
