(* Property C15 - theorem statements only; every proof is `exact <lemma>` into Proofs/. *)
From Coq Require Import List Arith NArith ZArith Bool String.
From Coq.Strings Require Import Byte.
From Gopki.Model Require Import Bytes Base64 Pem Der Asn1 Text Algs Glue Pkcs8 Ext Rdn Time X509 Generate HashView Dir Plan Run Ops Cli Merge Validate Current.
From Gopki.Spec Require Import RegenSpec DirInv MergeSpec ValidateSpec X509Spec ExtSpec AdmissionSpec PolicySpec.
From Gopki.Proofs Require Import RunProofs ExtProofs PlanProofs WfProofs X509Proofs DerProofs Asn1Proofs TimeRangeProofs RdnProofs GenerateProofs ValidateProofs TimeProofs AlgsProofs Base64Proofs PolicyProofs MergeProofs CliProofs OpsProofs FaultProofs HistoryProofs HashViewProofs Pkcs8Proofs RecoverProofs PemTornProofs AdmissionProofs PemProofs GlueProofs.
Import ListNotations.

Theorem C15_faulty_run_preserves_invariant :
  forall (d : dir) (s : strat) (fault : option (nat * outcome)) (r : result) (d' : dir) (w : list alias),
    wf_dir (d_ents d) ->
    dir_inv d = true -> blind_free (d_ents d) -> run cur_csr cur_nilcert d s fault = (r, d', w) -> dir_inv d' = true.
Proof. exact any_run_preserves_inv. Qed.
Print Assumptions C15_faulty_run_preserves_invariant.

Theorem C15_write_error_reported :
  forall (d : dir) (s : strat) (k : nat) (r : result) (d' : dir) (w : list alias),
    run cur_csr cur_nilcert d s (Some (k, FailNoWrite)) = (r, d', w) -> r = ROk -> run cur_csr cur_nilcert d s None = (ROk, d', w).
Proof. exact write_error_reported. Qed.
Print Assumptions C15_write_error_reported.

Theorem C15_crash_then_recover_then_noop :
  forall (d : dir) (s : strat) (fault : option (nat * outcome)) (r : result) (d1 : dir) (w : list alias),
    wf_dir (d_ents d) ->
    dir_inv d = true ->
    blind_free (d_ents d) ->
    forest (d_ents d) ->
    all_valid (d_ents d) ->
    generable (d_ents d) ->
    run cur_csr cur_nilcert d s fault = (r, d1, w) ->
    exists (d2 : dir) (w2 : list alias),
      run cur_csr cur_nilcert d1 default_strat None = (ROk, d2, w2) /\
      DirInv.good (d_ents d2) = true /\ run cur_csr cur_nilcert d2 default_strat None = (ROk, d2, []).
Proof. exact crash_recovery. Qed.
Print Assumptions C15_crash_then_recover_then_noop.

Theorem C15_default_run_succeeds :
  forall d : dir,
    forest (d_ents d) ->
    all_valid (d_ents d) ->
    generable (d_ents d) -> exists (d' : dir) (w : list alias), run cur_csr cur_nilcert d default_strat None = (ROk, d', w).
Proof. exact default_run_succeeds. Qed.
Print Assumptions C15_default_run_succeeds.

Theorem C15_torn_file_reads_complete_blocks :
  forall (h : bytes) (bl : list (bytes * bytes)) (u : bytes),
    Forall blk_ok bl -> undecodable u -> fst (read_pem (hash_line h ++ export bl ++ u)) = bl.
Proof. exact torn_file_reads_complete_blocks. Qed.
Print Assumptions C15_torn_file_reads_complete_blocks.

Theorem C15_torn_tail_undecodable :
  forall ty : bytes,
    ty_ok ty ->
    (forall u : list byte, Forall (fun b : byte => is_nl b = false) u -> undecodable u) /\
    undecodable (begin_tail ++ (ty ++ dash5) ++ [nl]) /\
    (forall (c : byte) (v' : list byte),
     plain c = true -> Forall body_char v' -> undecodable (begin_tail ++ (ty ++ dash5) ++ nl :: c :: v')) /\
    (forall (c : byte) (A' w : list byte),
     plain c = true ->
     Forall body_char (c :: A') ->
     Forall line_char w ->
     Datatypes.length w < Datatypes.length end_tail ->
     undecodable (begin_tail ++ (ty ++ dash5) ++ nl :: (c :: A') ++ nl :: w)) /\
    (forall (c : byte) (A' x : list byte),
     plain c = true ->
     Forall body_char (c :: A') ->
     Forall line_char x ->
     Datatypes.length x < Datatypes.length ty + 5 ->
     undecodable (begin_tail ++ (ty ++ dash5) ++ nl :: (c :: A') ++ nl :: end_tail ++ x)).
Proof. exact torn_tail_undecodable. Qed.
Print Assumptions C15_torn_tail_undecodable.

Theorem C15_torn_last_newline :
  forall (f : nat) (ty der : bytes) (c : byte) (A' : list byte),
    plain c = true ->
    Forall body_char (c :: A') ->
    ty_ok ty ->
    Forall (fun b : byte => b2n b <> 58%N) ty ->
    pem_body (c :: A') = Some der ->
    after_type f ty ((c :: A') ++ nl :: end_tail ++ ty ++ dash5) = Some (ty, der, []).
Proof. exact torn_last_newline. Qed.
Print Assumptions C15_torn_last_newline.
