(* Property C16 - theorem statements only; every proof is `exact <lemma>` into Proofs/. *)
From Coq Require Import List Arith NArith ZArith Bool String.
From Coq.Strings Require Import Byte.
From Gopki.Model Require Import Bytes Base64 Pem Der Asn1 Text Algs Glue Pkcs8 Ext Rdn Time X509 Generate HashView Dir Plan Run Ops Cli Merge Validate Current.
From Gopki.Spec Require Import RegenSpec DirInv MergeSpec ValidateSpec X509Spec ExtSpec AdmissionSpec PolicySpec.
From Gopki.Proofs Require Import RunProofs ExtProofs PlanProofs WfProofs X509Proofs DerProofs Asn1Proofs TimeRangeProofs RdnProofs GenerateProofs ValidateProofs TimeProofs AlgsProofs Base64Proofs PolicyProofs MergeProofs CliProofs OpsProofs FaultProofs HistoryProofs HashViewProofs Pkcs8Proofs RecoverProofs PemTornProofs AdmissionProofs PemProofs GlueProofs.
Import ListNotations.


(* an admission extension decodes, with the CommonPKI AdmissionSyntax decoder written from the specification, to exactly the
   configured tree (authorities with their GeneralName kind, naming authorities, profession infos with every optional member) *)
Theorem C16_admission_decodes :
  forall (crit : bool) (a : admission) (e : ext),
    build_admission cur_fx crit a = Some e ->
    exists (t : tlv) (v : s_adm),
      x_value e = enc t /\ spec_dec_admission t = Some v /\ view_admission cur_fx a = Some v /\ x_crit e = crit.
Proof. exact (admission_decodes cur_fx eq_refl). Qed.
Print Assumptions C16_admission_decodes.
