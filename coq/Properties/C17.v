(* Property C17 - theorem statements only; every proof is `exact <lemma>` into Proofs/. *)
From Coq Require Import List Arith NArith ZArith Bool String.
From Coq.Strings Require Import Byte.
From Gopki.Model Require Import Bytes Base64 Pem Der Asn1 Text Algs Glue Pkcs8 Ext Rdn Time X509 Generate HashView Dir Plan Run Ops Cli Merge Validate Current.
From Gopki.Spec Require Import RegenSpec DirInv MergeSpec ValidateSpec X509Spec ExtSpec AdmissionSpec PolicySpec.
From Gopki.Proofs Require Import RunProofs ExtProofs PlanProofs WfProofs X509Proofs DerProofs Asn1Proofs TimeRangeProofs RdnProofs GenerateProofs ValidateProofs TimeProofs AlgsProofs Base64Proofs PolicyProofs MergeProofs CliProofs OpsProofs FaultProofs HistoryProofs HashViewProofs Pkcs8Proofs RecoverProofs PemTornProofs AdmissionProofs PemProofs GlueProofs.
Import ListNotations.

Theorem C17_pkcs8_ec_roundtrip :
  forall (base_mult : keyalg -> N -> bytes) (order : keyalg -> N) (c : keyalg) 
      (d : N) (pub : bytes) (w : nat) (co : list N) (bs : bytes),
    In c ec_curves ->
    scalar_width c = Some w ->
    curve_oid c = Some co ->
    (0 < d)%N ->
    (d < order c)%N ->
    (order c <= 256 ^ N.of_nat w)%N ->
    marshal_pkcs8 (KEc c d pub) = Some bs ->
    (* Go's encoding/asn1 refuses lengths of 2^31 and more *)
    (blen bs < 2147483648)%N -> parse_pkcs8 base_mult order bs = Some (KEc c d (base_mult c d)).
Proof. exact pkcs8_ec_roundtrip. Qed.
Print Assumptions C17_pkcs8_ec_roundtrip.

Theorem C17_pkcs8_rsa_roundtrip :
  forall (base_mult : keyalg -> N -> bytes) (order : keyalg -> N) (n e d p q dp dq qinv : N)
      (bs : bytes),
    marshal_pkcs8 (KRsa n e d p q dp dq qinv) = Some bs ->
    (blen bs < 2147483648)%N -> parse_pkcs8 base_mult order bs = Some (KRsa n e d p q dp dq qinv).
Proof. exact pkcs8_rsa_roundtrip. Qed.
Print Assumptions C17_pkcs8_rsa_roundtrip.

Theorem C17_pem_file_roundtrip :
  forall (h ty : bytes) (der : list byte) (bl : list (bytes * bytes)),
    ty_ok ty ->
    der <> [] ->
    Forall blk_ok bl -> read_pem (hash_line h ++ export ((ty, der) :: bl)) = ((ty, der) :: bl, true).
Proof. exact read_pem_export. Qed.
Print Assumptions C17_pem_file_roundtrip.

Theorem C17_pem_plain_roundtrip :
  forall bl : list (bytes * bytes), Forall blk_ok bl -> read_pem (export bl) = (bl, true).
Proof. exact read_pem_plain. Qed.
Print Assumptions C17_pem_plain_roundtrip.

(* input that is not a valid key is rejected: whatever the parser accepts - the parser being a transcription of how Go's
   struct-directed encoding/asn1 reads the PKCS#8 and ECPrivateKey structures, laxities included - is an EC key on one of the ten
   supported curves whose scalar lies between 1 and the group order - 1 (public point recomputed from it), or an RSA key record of
   non-negative numbers *)
Theorem C17_accepts_only_supported_keys :
  forall (base_mult : keyalg -> N -> bytes) (order : keyalg -> N) (bs : bytes) (k : privkey),
    parse_pkcs8 base_mult order bs = Some k ->
    match k with
    | KEc c d pub => In c ec_curves /\ exists w, scalar_width c = Some w /\ (0 < d)%N /\ (d < order c)%N /\ pub = base_mult c d
    | KRsa _ _ _ _ _ _ _ _ => True
    end.
Proof. exact parse_accepts_only_supported_keys. Qed.
Print Assumptions C17_accepts_only_supported_keys.
