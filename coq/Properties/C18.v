(* Property C18 - theorem statements only; every proof is `exact <lemma>` into Proofs/. *)
From Coq Require Import List Arith NArith ZArith Bool String.
From Coq.Strings Require Import Byte.
From Gopki.Model Require Import Bytes Base64 Pem Der Asn1 Text Algs Glue Pkcs8 Ext Rdn Time X509 Generate HashView Dir Plan Run Ops Cli Merge Validate Current.
From Gopki.Spec Require Import RegenSpec DirInv MergeSpec ValidateSpec X509Spec ExtSpec AdmissionSpec PolicySpec.
From Gopki.Proofs Require Import RunProofs ExtProofs PlanProofs WfProofs X509Proofs DerProofs Asn1Proofs TimeRangeProofs RdnProofs GenerateProofs ValidateProofs TimeProofs AlgsProofs Base64Proofs PolicyProofs MergeProofs CliProofs OpsProofs FaultProofs HistoryProofs HashViewProofs Pkcs8Proofs RecoverProofs PemTornProofs AdmissionProofs PemProofs GlueProofs.
From Gopki.Proofs Require Import RegenBoolProofs WritesProofs.
From Gopki.Model Require Import Names.
From Gopki.Proofs Require Import NamesProofs.
Import ListNotations.

(* the consistency check accepts exactly the hierarchies in which every entity reaches a root *)
Theorem C18_consistent_iff :
  forall es : list ent,
    wf_dir es -> is_consistent es = true <-> (forall e : ent, In e es -> reaches_root es (e_alias e)).
Proof. exact is_consistent_iff. Qed.
Print Assumptions C18_consistent_iff.

Theorem C18_reach_oracle :
  forall (es : list ent) (a : alias), reaches_root es a <-> exists fuel, reachb fuel es a = true.
Proof. exact reachb_iff. Qed.
Print Assumptions C18_reach_oracle.

(* a refused hierarchy: the run fails before a single file is written, the directory is exactly what it was *)
Theorem C18_refused_run_changes_nothing :
  forall (d : dir) (s : strat) (fault : option (nat * outcome)),
    is_consistent (d_ents d) = false -> run cur_csr cur_nilcert d s fault = (RErr, d, []).
Proof. exact (refused_run_changes_nothing cur_csr cur_nilcert). Qed.
Print Assumptions C18_refused_run_changes_nothing.

(* an entity without explicit alias is called after the base name of its configuration file, in whatever sub-directory (directory and
   base name may contain dots), and its artifact is <config path without extension>.pem *)
Theorem C18_alias_is_base_name :
  forall dir base ext : bytes,
    no_byte 47 base -> no_byte 47 ext -> no_byte 46 ext ->
    alias_of_path (dir ++ slash :: base ++ dot :: ext) = GOk base /\
    artifact_path (dir ++ slash :: base ++ dot :: ext) = GOk (dir ++ slash :: base ++ str ".pem").
Proof. exact alias_in_subdirectory. Qed.
Print Assumptions C18_alias_is_base_name.

Theorem C18_alias_in_top_directory :
  forall base ext : bytes,
    no_byte 47 base -> no_byte 47 ext -> no_byte 46 ext ->
    alias_of_path (base ++ dot :: ext) = GOk base /\ artifact_path (base ++ dot :: ext) = GOk (base ++ str ".pem").
Proof. exact alias_in_top_directory. Qed.
Print Assumptions C18_alias_in_top_directory.
