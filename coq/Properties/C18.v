(* Property C18 - theorem statements only; every proof is `exact <lemma>` into Proofs/. *)
From Coq Require Import List Arith NArith ZArith Bool String.
From Coq.Strings Require Import Byte.
From Gopki.Model Require Import Bytes Base64 Pem Der Asn1 Text Algs Glue Pkcs8 Ext Rdn Time X509 Generate HashView Dir Plan Run Ops Cli Merge Validate.
From Gopki.Spec Require Import RegenSpec DirInv MergeSpec ValidateSpec X509Spec ExtSpec AdmissionSpec PolicySpec.
From Gopki.Proofs Require Import RunProofs ExtProofs PlanProofs WfProofs X509Proofs DerProofs Asn1Proofs TimeRangeProofs RdnProofs GenerateProofs ValidateProofs TimeProofs AlgsProofs Base64Proofs PolicyProofs MergeProofs CliProofs OpsProofs FaultProofs HistoryProofs HashViewProofs Pkcs8Proofs RecoverProofs PemTornProofs AdmissionProofs PemProofs GlueProofs.
Import ListNotations.

(* the consistency check accepts exactly the hierarchies in which every entity reaches a root *)
Theorem C18_consistent_iff :
  forall es : list ent,
    wf_dir es -> is_consistent es = true <-> (forall e : ent, In e es -> reaches_root es (e_alias e)).
Proof. exact is_consistent_iff. Qed.
Print Assumptions C18_consistent_iff.
