(* Property C19 - theorem statements only; every proof is `exact <lemma>` into Proofs/. *)
From Coq Require Import List Arith NArith ZArith Bool String.
From Coq.Strings Require Import Byte.
From Gopki.Model Require Import Bytes Base64 Pem Der Asn1 Text Algs Glue Pkcs8 Ext Rdn Time X509 Generate HashView Dir Plan Run Ops Cli Merge Validate Current.
From Gopki.Spec Require Import RegenSpec DirInv MergeSpec ValidateSpec X509Spec ExtSpec AdmissionSpec PolicySpec.
From Gopki.Proofs Require Import RunProofs ExtProofs PlanProofs WfProofs X509Proofs DerProofs Asn1Proofs TimeRangeProofs RdnProofs GenerateProofs ValidateProofs TimeProofs AlgsProofs Base64Proofs PolicyProofs MergeProofs CliProofs OpsProofs FaultProofs HistoryProofs HashViewProofs Pkcs8Proofs RecoverProofs PemTornProofs AdmissionProofs PemProofs GlueProofs.
Import ListNotations.

Theorem C19_manipulations_exact :
  forall (fx : fixes) (mfx : more_fixes) (sha1 : bytes -> bytes) (c : cert_cfg) 
      (o : observed) (iss : option (list rdn * bytes)) (t : tcert),
    gen_tcert fx mfx sha1 c o iss = Some t ->
    (forall t0 : tcert,
     gen_tcert fx mfx sha1 (strip c) o iss = Some t0 ->
     t_serial t = t_serial t0 /\
     t_issuer t = t_issuer t0 /\
     t_subject t = t_subject t0 /\
     t_nb t = t_nb t0 /\
     t_na t = t_na t0 /\
     t_iuid t = t_iuid t0 /\
     t_suid t = t_suid t0 /\
     t_version t = match m_version (cc_manip c) with
                   | Some v => v
                   | None => t_version t0
                   end /\
     (m_tbs_sigalg (cc_manip c) = [] -> t_inner t = t_inner t0) /\
     (m_outer_sigalg (cc_manip c) = [] -> t_outer t = t_outer t0) /\
     (m_tbs_pkalg (cc_manip c) = [] -> sp_alg (t_spki t) = sp_alg (t_spki t0)) /\
     (m_tbs_pk (cc_manip c) = [] -> sp_bits (t_spki t) = sp_bits (t_spki t0)) /\
     (m_sigvalue (cc_manip c) = [] -> t_sig t = t_sig t0) /\
     (m_tbs_pk (cc_manip c) = [] -> t_exts t = t_exts t0)) /\
    (forall s : bytes, m_tbs_pk (cc_manip c) = s -> s <> [] -> raw_of fx s = Some (sp_bits (t_spki t))) /\
    (forall s : bytes, m_sigvalue (cc_manip c) = s -> s <> [] -> raw_of fx s = Some (t_sig t)).
Proof. exact manipulations_exact. Qed.
Print Assumptions C19_manipulations_exact.
