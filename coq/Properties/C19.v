(* Property C19 - theorem statements only; every proof is `exact <lemma>` into Proofs/. *)
From Coq Require Import List Arith NArith ZArith Bool String.
From Coq.Strings Require Import Byte.
From Gopki.Model Require Import Bytes Base64 Pem Der Asn1 Text Algs Glue Pkcs8 Ext Rdn Time X509 Generate HashView Dir Plan Run Ops Cli Merge Validate Current.
From Gopki.Spec Require Import RegenSpec DirInv MergeSpec ValidateSpec X509Spec ExtSpec AdmissionSpec PolicySpec.
From Gopki.Proofs Require Import RunProofs ExtProofs PlanProofs WfProofs X509Proofs DerProofs Asn1Proofs TimeRangeProofs RdnProofs GenerateProofs ValidateProofs TimeProofs AlgsProofs Base64Proofs PolicyProofs MergeProofs CliProofs OpsProofs FaultProofs HistoryProofs HashViewProofs Pkcs8Proofs RecoverProofs PemTornProofs AdmissionProofs PemProofs GlueProofs.
Import ListNotations.

Theorem C19_manipulations_exact :
  forall (fx : fixes) (mfx : more_fixes) (sha1 : bytes -> bytes) (c : cert_cfg) 
      (o : observed) (iss : option (list rdn * bytes)) (t : tcert),
    gen_tcert fx mfx sha1 c o iss = Some t ->
    (forall t0 : tcert,
     gen_tcert fx mfx sha1 (strip c) o iss = Some t0 ->
     t_serial t = t_serial t0 /\
     t_issuer t = t_issuer t0 /\
     t_subject t = t_subject t0 /\
     t_nb t = t_nb t0 /\
     t_na t = t_na t0 /\
     t_iuid t = t_iuid t0 /\
     t_suid t = t_suid t0 /\
     t_version t = match m_version (cc_manip c) with
                   | Some v => v
                   | None => t_version t0
                   end /\
     (m_tbs_sigalg (cc_manip c) = [] -> t_inner t = t_inner t0) /\
     (m_outer_sigalg (cc_manip c) = [] -> t_outer t = t_outer t0) /\
     (m_tbs_pkalg (cc_manip c) = [] -> sp_alg (t_spki t) = sp_alg (t_spki t0)) /\
     (m_tbs_pk (cc_manip c) = [] -> sp_bits (t_spki t) = sp_bits (t_spki t0)) /\
     (m_sigvalue (cc_manip c) = [] -> t_sig t = t_sig t0) /\
     (m_tbs_pk (cc_manip c) = [] -> t_exts t = t_exts t0)) /\
    (forall s : bytes, m_tbs_pk (cc_manip c) = s -> s <> [] -> raw_of fx s = Some (sp_bits (t_spki t))) /\
    (forall s : bytes, m_sigvalue (cc_manip c) = s -> s <> [] -> raw_of fx s = Some (t_sig t)).
Proof. exact manipulations_exact. Qed.
Print Assumptions C19_manipulations_exact.

(* a manipulation that names an algorithm puts exactly that object identifier, without parameters, into the field it names;
   a version manipulation puts exactly that number.  Stated at the switches that describe /repo now (F18 repaired: a value
   that is no object identifier is an error and never gets this far). *)
Theorem C19_named_algorithms_exact :
  forall (sha1 : bytes -> bytes) (c : cert_cfg) (o : observed) (iss : option (list rdn * bytes)) (t : tcert),
    gen_tcert cur_fx cur_mfx sha1 c o iss = Some t ->
    (forall s, m_tbs_sigalg (cc_manip c) = s -> s <> [] ->
       exists zs ns, oid_from_string s = Some zs /\ arcs_to_N zs = Some ns /\ t_inner t = mkAlg ns None) /\
    (forall s, m_outer_sigalg (cc_manip c) = s -> s <> [] ->
       exists zs ns, oid_from_string s = Some zs /\ arcs_to_N zs = Some ns /\ t_outer t = mkAlg ns None) /\
    (forall s, m_tbs_pkalg (cc_manip c) = s -> s <> [] ->
       exists zs ns, oid_from_string s = Some zs /\ arcs_to_N zs = Some ns /\ sp_alg (t_spki t) = mkAlg ns None) /\
    (forall v, m_version (cc_manip c) = Some v -> t_version t = v).
Proof. exact (fun sha1 c o iss t => manipulated_oids_exact cur_fx cur_mfx sha1 c o iss t eq_refl). Qed.
Print Assumptions C19_named_algorithms_exact.

(* outer manipulations leave the signed bytes untouched: the to-be-signed part is the same whatever the outer signature
   algorithm and the signature value are set to (so the issuer's signature, made before they are applied, covers it) *)
Theorem C19_outer_manipulations_leave_signed_bytes :
  forall (fx : fixes) (mfx : more_fixes) (sha1 : bytes -> bytes) (c : cert_cfg) (x y : bytes)
         (o : observed) (iss : option (list rdn * bytes)) (t t' : tcert),
    gen_tcert fx mfx sha1 c o iss = Some t ->
    gen_tcert fx mfx sha1 (with_outer c x y) o iss = Some t' ->
    enc_tbs t = enc_tbs t'.
Proof. exact outer_manipulations_leave_tbs. Qed.
Print Assumptions C19_outer_manipulations_leave_signed_bytes.
