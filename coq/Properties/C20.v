(* Property C20 - theorem statements only; every proof is `exact <lemma>` into Proofs/. *)
From Coq Require Import List Arith NArith ZArith Bool String.
From Coq.Strings Require Import Byte.
From Gopki.Model Require Import Bytes Base64 Pem Der Asn1 Text Algs Glue Pkcs8 Ext Rdn Time X509 Generate HashView Dir Plan Run Ops Cli Merge Validate Current.
From Gopki.Spec Require Import RegenSpec DirInv MergeSpec ValidateSpec X509Spec ExtSpec AdmissionSpec PolicySpec.
From Gopki.Proofs Require Import RunProofs ExtProofs PlanProofs WfProofs X509Proofs DerProofs Asn1Proofs TimeRangeProofs RdnProofs GenerateProofs ValidateProofs TimeProofs AlgsProofs Base64Proofs PolicyProofs MergeProofs CliProofs OpsProofs FaultProofs HistoryProofs HashViewProofs Pkcs8Proofs RecoverProofs PemTornProofs AdmissionProofs PemProofs GlueProofs.
Import ListNotations.

Theorem C20_no_consent_no_change :
  forall (a b : bool) (d : dir) (f : flags) (input : option bytes) (ch : list alias),
    is_consistent (d_ents d) = true ->
    s_any (strat_of_flags f) = true ->
    plan a (d_ents d) (strat_of_flags f) = Some ch ->
    existsb (replaces (d_ents d)) ch = true ->
    consent input = false -> cli_sign a b d f input = (CliAborted, d, []).
Proof. exact no_consent_no_change. Qed.
Print Assumptions C20_no_consent_no_change.

Theorem C20_stored_hash_never_panics :
  forall content : bytes, stored_hash_text cur_hash_marker content <> GPanic.
Proof. exact stored_hash_never_panics. Qed.
Print Assumptions C20_stored_hash_never_panics.

Theorem C20_custom_oid_never_panics :
  forall s : bytes, custom_oid cur_custom_oid s <> GPanic.
Proof. exact custom_oid_never_panics. Qed.
Print Assumptions C20_custom_oid_never_panics.
