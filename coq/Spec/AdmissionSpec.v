(* C16: strict decoder for the CommonPKI (ISIS-MTT) AdmissionSyntax, transcribed from Common PKI v2.0, part 1:

   AdmissionSyntax ::= SEQUENCE { admissionAuthority GeneralName OPTIONAL, contentsOfAdmissions SEQUENCE OF Admissions }
   Admissions      ::= SEQUENCE { admissionAuthority [0] EXPLICIT GeneralName OPTIONAL,
                                  namingAuthority    [1] EXPLICIT NamingAuthority OPTIONAL,
                                  professionInfos    SEQUENCE OF ProfessionInfo }
   NamingAuthority ::= SEQUENCE { namingAuthorityId OBJECT IDENTIFIER OPTIONAL, namingAuthorityUrl IA5String OPTIONAL,
                                  namingAuthorityText DirectoryString OPTIONAL }
   ProfessionInfo  ::= SEQUENCE { namingAuthority [0] EXPLICIT NamingAuthority OPTIONAL,
                                  professionItems SEQUENCE OF DirectoryString, professionOIDs SEQUENCE OF OBJECT IDENTIFIER OPTIONAL,
                                  registrationNumber PrintableString OPTIONAL, addProfessionInfo OCTET STRING OPTIONAL }

   Leniency (documented behaviour of the tool): an empty professionItems / professionInfos list is omitted. *)
From Coq Require Import List NArith ZArith Bool.
From Coq.Strings Require Import Byte.
From Gopki.Model Require Import Bytes Base64 Der Asn1 Text Ext Rdn X509.
From Gopki.Spec Require Import X509Spec ExtSpec.
Import ListNotations.
Open Scope N_scope.

Record s_naming := mkSn { sn_oid : option (list N); sn_url : option bytes; sn_text : option bytes }.
Record s_pinfo := mkSp { sp_naming : option s_naming; sp_items : list bytes; sp_oids : list (list N);
                         sp_reg : option bytes; sp_add : option bytes }.
Record s_adms := mkSa { sa_auth : option gen_name; sa_naming : option s_naming; sa_infos : list s_pinfo }.
Record s_adm := mkSm { sm_auth : option gen_name; sm_list : list s_adms }.

(* take an optional leading element *)
Definition take_opt {A} (p : tlv -> option A) (l : list tlv) : option A * list tlv :=
  match l with
  | t :: r => match p t with Some a => (Some a, r) | None => (None, l) end
  | [] => (None, [])
  end.

Definition p_ia5 (t : tlv) : option bytes :=
  match t with Prim Univ 22 s => if forallb (fun b => b2n b <? 128) s then Some s else None | _ => None end.
Definition p_utf8 (t : tlv) : option bytes := match t with Prim Univ 12 s => Some s | _ => None end.
Definition p_printable (t : tlv) : option bytes := match t with Prim Univ 19 s => Some s | _ => None end.
Definition p_octets (t : tlv) : option bytes := match t with Prim Univ 4 s => Some s | _ => None end.

Definition dec_naming (t : tlv) : option s_naming :=
  match t with
  | Cons Univ 16 l =>
    let '(o, l1) := take_opt dec_oid l in
    let '(u, l2) := take_opt p_ia5 l1 in
    let '(x, l3) := take_opt p_utf8 l2 in
    match l3 with [] => Some (mkSn o u x) | _ => None end
  | _ => None
  end.

Definition p_explicit {A} (tag : N) (p : tlv -> option A) (t : tlv) : option A :=
  match t with Cons Ctx g [x] => if g =? tag then p x else None | _ => None end.

Definition p_items (t : tlv) : option (list bytes) :=
  match t with Cons Univ 16 (x :: xs) => map_opt p_utf8 (x :: xs) | _ => None end.
Definition p_oids (t : tlv) : option (list (list N)) :=
  match t with Cons Univ 16 (x :: xs) => map_opt dec_oid (x :: xs) | _ => None end.

Definition dec_pinfo (t : tlv) : option s_pinfo :=
  match t with
  | Cons Univ 16 l =>
    let '(na, l1) := take_opt (p_explicit 0 dec_naming) l in
    let '(it, l2) := take_opt p_items l1 in
    let '(oi, l3) := take_opt p_oids l2 in
    let '(rg, l4) := take_opt p_printable l3 in
    let '(ad, l5) := take_opt p_octets l4 in
    match l5 with
    | [] => Some (mkSp na (match it with Some x => x | None => [] end) (match oi with Some x => x | None => [] end) rg ad)
    | _ => None
    end
  | _ => None
  end.

Definition p_pinfos (t : tlv) : option (list s_pinfo) :=
  match t with Cons Univ 16 (x :: xs) => map_opt dec_pinfo (x :: xs) | _ => None end.

Definition dec_adms (t : tlv) : option s_adms :=
  match t with
  | Cons Univ 16 l =>
    let '(au, l1) := take_opt (p_explicit 0 dec_gen_name) l in
    let '(na, l2) := take_opt (p_explicit 1 dec_naming) l1 in
    let '(pi, l3) := take_opt p_pinfos l2 in
    match l3 with [] => Some (mkSa au na (match pi with Some x => x | None => [] end)) | _ => None end
  | _ => None
  end.

Definition spec_dec_admission (t : tlv) : option s_adm :=
  match t with
  | Cons Univ 16 l =>
    let '(au, l1) := take_opt dec_gen_name l in
    match l1 with
    | [Cons Univ 16 adms] => match map_opt dec_adms adms with Some a => Some (mkSm au a) | None => None end
    | _ => None
    end
  | _ => None
  end.
