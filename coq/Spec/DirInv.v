(* Declarative predicates on directory states: chains, the goal state of a default run, the history invariant. *)
From Coq Require Import List Arith Bool.
From Gopki.Model Require Import Dir Plan Run.
From Gopki.Spec Require Import RegenSpec.
Import ListNotations.

Definition file_at (es : list ent) (a : alias) : option file :=
  match find_ent es a with Some e => e_file e | None => None end.

Definition cert_at (es : list ent) (a : alias) : option certv :=
  match file_at es a with Some f => f_cert f | None => None end.

(* C01: a certificate verifies under, and names, the current certificate of issuer [p] (itself when [p] is None) *)
Definition chain_with (es : list ent) (p : option alias) (c : certv) : bool :=
  match p with
  | None => Nat.eqb (c_signer c) (c_pub c) && Nat.eqb (c_iss c) (c_subj c)
  | Some p => match cert_at es p with
              | Some pc => Nat.eqb (c_signer c) (c_pub pc) && Nat.eqb (c_iss c) (c_subj pc)
              | None => false
              end
  end.
Definition chain_okb (es : list ent) (e : ent) (c : certv) : bool := chain_with es (issuer_of e) c.

Definition reflects (e : ent) (c : certv) : bool :=
  Nat.eqb (c_subj c) (g_subj (e_cfg e)) && Nat.eqb (c_vis c) (g_vis (e_cfg e)) && Nat.eqb (c_blind c) (g_blind (e_cfg e)).

Definition has_key_material (f : file) : bool :=
  match f_key f, f_req f with None, None => false | _, _ => true end.

(* what a default run must leave behind (C12) *)
Definition good_ent (es : list ent) (e : ent) : bool :=
  match e_file e with
  | None => false
  | Some f =>
    match f_cert f with
    | None => false
    | Some c =>
      has_key_material f &&
      match f_hash f with
      | None => true
      | Some h => hview_eqb h (hview_of (e_cfg e)) && reflects e c && chain_okb es e c
      end
    end
  end.
Definition good (es : list ent) : bool := forallb (good_ent es) es.

(* the history invariant *)
Definition inv3 (f : file) : bool :=
  match f_cert f with
  | None => true
  | Some c => (match f_key f with Some k => Nat.eqb (c_pub c) (k_id k) | None => true end)
              && (match f_req f with Some r => Nat.eqb (c_pub c) r | None => true end)
  end.

Definition inv2 (f : file) : bool :=
  match f_hash f, f_cert f with
  | Some h, Some c => Nat.eqb (h_subj h) (c_subj c) && Nat.eqb (h_vis h) (c_vis c) && Nat.eqb (c_blind c) 0
  | _, _ => true
  end.

(* the issuer named by the stored hash has no certificate, or its file is newer than [f] *)
Definition escape_with (es : list ent) (p : option alias) (f : file) : bool :=
  match p with
  | None => false
  | Some p => match find_ent es p with
              | None => true
              | Some pe => match e_file pe with
                           | None => true
                           | Some pf => match f_cert pf with
                                        | None => true
                                        | Some _ => Nat.ltb (f_mtime f) (f_mtime pf)
                                        end
                           end
              end
  end.

(* I1 speaks about the issuer recorded in the stored hash line, so that configuration edits cannot affect it *)
Definition inv1 (es : list ent) (f : file) : bool :=
  match f_hash f, f_cert f with
  | Some h, Some c =>
    if has_key_material f
    then chain_with es (h_issuer h) c || escape_with es (h_issuer h) f
    else true
  | _, _ => true
  end.

Definition inv_ent (es : list ent) (clock : nat) (e : ent) : bool :=
  match e_file e with
  | None => true
  | Some f0 => let f := import_file (Some f0) in
               inv3 f0 && inv2 f && inv1 es f && Nat.leb (f_mtime f0) clock
  end && Nat.leb (e_cfg_mtime e) clock.

Definition dir_inv (d : dir) : bool := forallb (inv_ent (d_ents d) (d_clock d)) (d_ents d).
