(* C07: strict decoders for the RFC 5280 / RFC 6960 extension values, written from the RFCs. They work on the
   TLV tree of the extnValue (obtained with the strict DER parser). *)
From Coq Require Import List NArith ZArith Bool.
From Coq.Strings Require Import Byte.
From Gopki.Model Require Import Bytes Base64 Der Asn1 Text Ext Rdn X509.
From Gopki.Spec Require Import X509Spec.
Import ListNotations.
Open Scope N_scope.

(* KeyUsage ::= BIT STRING (named bit list): DER removes trailing zero bits; flags as the first octet's value *)
Definition spec_dec_ku (t : tlv) : option N :=
  match t with
  | Prim Univ 3 [u] => if b2n u =? 0 then Some 0 else None
  | Prim Univ 3 [u; b] =>
    let unused := b2n u in let v := b2n b in
    if (unused <? 8) && negb (v =? 0) && (v mod (2 ^ unused) =? 0) && N.odd (v / 2 ^ unused) then Some v else None
  | _ => None
  end.

(* BasicConstraints ::= SEQUENCE { cA BOOLEAN DEFAULT FALSE, pathLenConstraint INTEGER (0..MAX) OPTIONAL } *)
Definition spec_dec_bc (t : tlv) : option (bool * option Z) :=
  match t with
  | Cons Univ 16 [] => Some (false, None)
  | Cons Univ 16 [x] =>
    if dec_bool_true x then Some (true, None)
    else match dec_int x with Some z => if (0 <=? z)%Z then Some (false, Some z) else None | None => None end
  | Cons Univ 16 [x; y] =>
    if dec_bool_true x then match dec_int y with Some z => if (0 <=? z)%Z then Some (true, Some z) else None | None => None end
    else None
  | _ => None
  end.

Definition spec_dec_eku (t : tlv) : option (list (list N)) :=
  match t with Cons Univ 16 (x :: xs) => map_opt dec_oid (x :: xs) | _ => None end.

Definition spec_dec_aki (t : tlv) : option (option bytes) :=
  match t with
  | Cons Univ 16 [] => Some None
  | Cons Univ 16 [Prim Ctx 0 id] => Some (Some id)
  | _ => None
  end.

Definition spec_dec_ski (t : tlv) : option bytes :=
  match t with Prim Univ 4 id => Some id | _ => None end.

Inductive gen_name := GnRfc822 (s : bytes) | GnDns (s : bytes) | GnUri (s : bytes) | GnIp (b : bytes).
Definition dec_gen_name (t : tlv) : option gen_name :=
  match t with
  | Prim Ctx 1 s => Some (GnRfc822 s)
  | Prim Ctx 2 s => Some (GnDns s)
  | Prim Ctx 6 s => Some (GnUri s)
  | Prim Ctx 7 b => if (length b =? 4)%nat || (length b =? 16)%nat then Some (GnIp b) else None
  | _ => None
  end.
Definition spec_dec_san (t : tlv) : option (list gen_name) :=
  match t with Cons Univ 16 l => map_opt dec_gen_name l | _ => None end.

Definition spec_dec_aia (t : tlv) : option (list (list N * gen_name)) :=
  match t with
  | Cons Univ 16 l =>
    map_opt (fun ad => match ad with
                       | Cons Univ 16 [m; loc] => match dec_oid m, dec_gen_name loc with
                                                  | Some o, Some g => Some (o, g) | _, _ => None end
                       | _ => None end) l
  | _ => None
  end.

Definition spec_dec_null (t : tlv) : bool := match t with Prim Univ 5 [] => true | _ => false end.
