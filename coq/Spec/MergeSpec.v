(* C08: the documented inheritance / override rule, as a recursion over marked certificate positions. *)
From Coq Require Import List Arith Bool.
From Gopki.Model Require Import Merge.
Import ListNotations.

Section Spec.
  Variable ext : Type.
  Variable oid_eqb : ext -> ext -> bool.
  Variable json_eqb : ext -> ext -> bool.

  Inductive mark := Free | Matched | Placed.

  (* first Free position with the same OID: returns the extension and the list with that position re-marked *)
  Fixpoint take_first (p : ext) (m : mark) (cert : list (ext * mark)) : option (ext * list (ext * mark)) :=
    match cert with
    | [] => None
    | (c, Free) :: rest =>
      if oid_eqb p c then Some (c, (c, m) :: rest)
      else match take_first p m rest with
           | Some (x, rest') => Some (x, (c, Free) :: rest')
           | None => None
           end
    | cm :: rest => match take_first p m rest with
                    | Some (x, rest') => Some (x, cm :: rest')
                    | None => None
                    end
    end.

  Fixpoint spec_loop (prof : list (pext ext)) (cert : list (ext * mark)) : list ext * list (ext * mark) :=
    match prof with
    | [] => ([], cert)
    | pe :: rest =>
      let p := pe_ext ext pe in
      if pe_override ext pe then
        match take_first p Placed cert with
        | Some (c, cert') => let '(o, fin) := spec_loop rest cert' in (c :: o, fin)
        | None => let '(o, fin) := spec_loop rest cert in ((if pe_optional ext pe then o else p :: o), fin)
        end
      else
        match take_first p Matched cert with
        | Some (c, cert') => let '(o, fin) := spec_loop rest cert' in ((if json_eqb c p then o else p :: o), fin)
        | None => let '(o, fin) := spec_loop rest cert in ((if pe_optional ext pe then o else p :: o), fin)
        end
    end.

  Definition merge_spec (prof : list (pext ext)) (cert : list ext) : list ext :=
    let '(o, fin) := spec_loop prof (map (fun c => (c, Free)) cert) in
    o ++ map fst (filter (fun cm => match snd cm with Placed => false | _ => true end) fin).
End Spec.
