(* C07: certificatePolicies (RFC 5280 section 4.2.1.4), decoder written from the RFC's ASN.1 *)
From Coq Require Import List NArith ZArith Bool.
From Coq.Strings Require Import Byte.
From Gopki.Model Require Import Bytes Der Asn1 Text Ext.
From Gopki.Spec Require Import X509Spec.
Import ListNotations.
Open Scope N_scope.

Fixpoint arcs_eqb (a b : list N) : bool :=
  match a, b with
  | [], [] => true
  | x :: a', y :: b' => (x =? y) && arcs_eqb a' b'
  | _, _ => false
  end.

Inductive qual_view :=
| QvCps (uri : bytes)
| QvNotice (ref : option (bytes * list Z)) (text : option bytes).

(* DisplayText ::= CHOICE { ia5String, visibleString, bmpString, utf8String } *)
Definition dec_display_text (t : tlv) : option bytes :=
  match t with
  | Prim Univ 12 s => Some s | Prim Univ 22 s => Some s | Prim Univ 26 s => Some s | Prim Univ 30 s => Some s
  | _ => None
  end.

(* NoticeReference ::= SEQUENCE { organization DisplayText, noticeNumbers SEQUENCE OF INTEGER } *)
Definition spec_dec_notice_ref (t : tlv) : option (bytes * list Z) :=
  match t with
  | Cons Univ 16 [org; Cons Univ 16 nums] =>
    match dec_display_text org, map_opt dec_int nums with
    | Some o, Some ns => Some (o, ns)
    | _, _ => None
    end
  | _ => None
  end.

(* UserNotice ::= SEQUENCE { noticeRef NoticeReference OPTIONAL, explicitText DisplayText OPTIONAL } *)
Definition spec_dec_user_notice (t : tlv) : option (option (bytes * list Z) * option bytes) :=
  match t with
  | Cons Univ 16 [] => Some (None, None)
  | Cons Univ 16 [x] =>
    match spec_dec_notice_ref x with
    | Some r => Some (Some r, None)
    | None => match dec_display_text x with Some s => Some (None, Some s) | None => None end
    end
  | Cons Univ 16 [x; y] =>
    match spec_dec_notice_ref x, dec_display_text y with
    | Some r, Some s => Some (Some r, Some s)
    | _, _ => None
    end
  | _ => None
  end.

(* PolicyQualifierInfo ::= SEQUENCE { policyQualifierId OBJECT IDENTIFIER, qualifier ANY DEFINED BY policyQualifierId }
   -- the qualifier member is mandatory *)
Definition spec_dec_qual (t : tlv) : option qual_view :=
  match t with
  | Cons Univ 16 [i; q] =>
    match dec_oid i with
    | Some o =>
      if arcs_eqb o oid_qt_cps then match q with Prim Univ 22 s => Some (QvCps s) | _ => None end
      else if arcs_eqb o oid_qt_unotice
           then match spec_dec_user_notice q with Some (r, s) => Some (QvNotice r s) | None => None end
           else None
    | None => None
    end
  | _ => None
  end.

(* PolicyInformation ::= SEQUENCE { policyIdentifier OID, policyQualifiers SEQUENCE SIZE (1..MAX) OF ... OPTIONAL } *)
Definition spec_dec_policy (t : tlv) : option (list N * list qual_view) :=
  match t with
  | Cons Univ 16 [i] => match dec_oid i with Some o => Some (o, []) | None => None end
  | Cons Univ 16 [i; Cons Univ 16 (q :: qs)] =>
    match dec_oid i, map_opt spec_dec_qual (q :: qs) with
    | Some o, Some l => Some (o, l)
    | _, _ => None
    end
  | _ => None
  end.

(* certificatePolicies ::= SEQUENCE SIZE (1..MAX) OF PolicyInformation *)
Definition spec_dec_cp (t : tlv) : option (list (list N * list qual_view)) :=
  match t with Cons Univ 16 (p :: ps) => map_opt spec_dec_policy (p :: ps) | _ => None end.
