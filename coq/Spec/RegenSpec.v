(* Declarative side of C11 / C18: which entities a run must regenerate, and what a well-formed hierarchy is. *)
From Coq Require Import List Arith Bool.
From Gopki.Model Require Import Dir Plan.
Import ListNotations.

Definition wf_dir (es : list ent) : Prop := NoDup (map e_alias es).

(* following issuer links ends in a root: no dangling issuer, no cycle, no self-loop *)
Inductive reaches_root (es : list ent) : alias -> Prop :=
| rr_root a e : find_ent es a = Some e -> issuer_of e = None -> reaches_root es a
| rr_step a e p : find_ent es a = Some e -> issuer_of e = Some p -> reaches_root es p -> reaches_root es a.

Definition forest (es : list ent) : Prop :=
  wf_dir es /\ forall e, In e es -> reaches_root es (e_alias e).

(* the five flag conditions of the statement, as one disjunction *)
Definition key_material_missing (f : file) : bool :=
  match f_cert f with None => true | Some _ =>
    match f_key f, f_req f with None, None => true | _, _ => false end end.

Definition local_reason (es : list ent) (s : strat) (e : ent) : bool :=
  let f := import_file (e_file e) in
  (s_missing s && key_material_missing f)
  || (s_changed s && match f_hash f with Some h => negb (hview_eqb h (hview_of (e_cfg e))) | None => false end)
  || (s_newer s && Nat.ltb (mtime_of (e_file e)) (e_cfg_mtime e))
  || (s_expired s && match f_cert f with Some c => c_expired c | None => false end && g_until_future (e_cfg e))
  || (s_any s && match issuer_of e with
                 | Some p => match find_ent es p with
                             | Some pe => Nat.ltb (mtime_of (e_file e)) (mtime_of (e_file pe))
                             | None => false
                             end
                 | None => false
                 end).

Inductive regen (es : list ent) (s : strat) : alias -> Prop :=
| regen_all a e : find_ent es a = Some e -> s_all s = true -> regen es s a
| regen_issuer a e p : find_ent es a = Some e -> issuer_of e = Some p -> regen es s p -> regen es s a
| regen_local a e : find_ent es a = Some e -> local_reason es s e = true -> regen es s a.

(* executable counterparts, used as search oracles by the correspondence check (and proved equivalent to the
   relations above in Proofs/RegenBoolProofs.v) *)
Fixpoint reachb (fuel : nat) (es : list ent) (a : alias) : bool :=
  match fuel with
  | O => false
  | S f => match find_ent es a with
           | None => false
           | Some e => match issuer_of e with
                       | None => true
                       | Some p => reachb f es p
                       end
           end
  end.

Fixpoint regenb (fuel : nat) (es : list ent) (s : strat) (a : alias) : bool :=
  match fuel with
  | O => false
  | S f => match find_ent es a with
           | None => false
           | Some e => s_all s || local_reason es s e
                       || match issuer_of e with Some p => regenb f es s p | None => false end
           end
  end.
