(* C09: what the documentation promises about profile subject constraints. *)
From Coq Require Import List Bool.
From Gopki.Model Require Import Validate.
Import ListNotations.

Section Spec.
  Variable oid : Type.
  Variable oid_eqb : oid -> oid -> bool.
  Hypothesis oid_eqb_spec : forall a b, oid_eqb a b = true <-> a = b.

  (* [xs] is an in-order subsequence of [ys] *)
  Inductive subseq : list oid -> list oid -> Prop :=
  | ss_nil ys : subseq [] ys
  | ss_take x xs ys : subseq xs ys -> subseq (x :: xs) (x :: ys)
  | ss_skip xs y ys : subseq xs ys -> subseq xs (y :: ys).

  (* subject types in written order = reverse of DER order *)
  Definition accepts (attrs : option (list (pattr oid))) (allow : bool) (subject : list oid) : Prop :=
    match attrs with
    | None => True
    | Some ats =>
      exists want, resolve_all oid ats = Some want /\
        (allow = true \/ subseq (rev subject) (map fst want)) /\
        (forall o, In (o, false) want -> In o (rev subject))
    end.
End Spec.
