(* An independent, strict X.509 certificate parser written from RFC 5280 section 4.1 (the "independent parser"
   of C02). It accepts canonical DER only: [parse_cert bs = Some c] implies [cert_der c = Some bs]. *)
From Coq Require Import List NArith ZArith Bool.
From Coq.Strings Require Import Byte.
From Gopki.Model Require Import Bytes Base64 Der Asn1 Text Ext Rdn X509.
Import ListNotations.
Open Scope N_scope.

Definition dec_oid (t : tlv) : option (list N) :=
  match t with Prim Univ 6 c => oid_of_content c | _ => None end.

Definition dec_int (t : tlv) : option Z :=
  match t with Prim Univ 2 c => int_of_content c | _ => None end.

Definition dec_bool_true (t : tlv) : bool :=
  match t with Prim Univ 1 [b] => b2n b =? 255 | _ => false end.

(* BIT STRING with no unused bits *)
Definition dec_bits_full (t : tlv) : option bytes :=
  match t with Prim Univ 3 (u :: b) => if b2n u =? 0 then Some b else None | _ => None end.

Definition dec_algid (t : tlv) : option algid :=
  match t with
  | Cons Univ 16 [o] => match dec_oid o with Some a => Some (mkAlg a None) | None => None end
  | Cons Univ 16 [o; p] => match dec_oid o with Some a => Some (mkAlg a (Some p)) | None => None end
  | _ => None
  end.

(* attribute values: PrintableString iff all characters are printable, else UTF8String; OCTET STRING for raw *)
Definition dec_atv_value (t : tlv) : option atv_value :=
  match t with
  | Prim Univ 19 s => if forallb is_printable_byte s then Some (AvString s) else None
  | Prim Univ 12 s => if forallb is_printable_byte s then None else Some (AvString s)
  | Prim Univ 4 b => Some (AvRaw b)
  | _ => None
  end.

Definition dec_rdn (t : tlv) : option rdn :=
  match t with
  | Cons Univ 17 [Cons Univ 16 [o; v]] =>
    match dec_oid o, dec_atv_value v with
    | Some a, Some x => Some (mkRdn (map Z.of_N a) x)
    | _, _ => None
    end
  | _ => None
  end.

Definition dec_name (t : tlv) : option (list rdn) :=
  match t with Cons Univ 16 l => map_opt dec_rdn l | _ => None end.

Definition digit_val (b : byte) : option N :=
  let n := b2n b in if (48 <=? n) && (n <=? 57) then Some (n - 48) else None.
Fixpoint digits_val (l : bytes) (acc : N) : option N :=
  match l with
  | [] => Some acc
  | b :: r => match digit_val b with Some d => digits_val r (acc * 10 + d) | None => None end
  end.
Definition two (a b : byte) : option N := digits_val [a; b] 0.

Definition dec_time (t : tlv) : option civil :=
  let tail (l : bytes) (y : N) : option civil :=
      match l with
      | [m1; m2; d1; d2; h1; h2; i1; i2; s1; s2; z] =>
        if b2n z =? 90 then
          match two m1 m2, two d1 d2, two h1 h2, two i1 i2, two s1 s2 with
          | Some mo, Some d, Some h, Some mi, Some s =>
            if (1 <=? mo) && (mo <=? 12) && (1 <=? d) && (d <=? 31) && (h <? 24) && (mi <? 60) && (s <? 60)
            then Some (mkCivil y mo d h mi s) else None
          | _, _, _, _, _ => None
          end
        else None
      | _ => None
      end in
  match t with
  | Prim Univ 23 (y1 :: y2 :: rest) =>
    match two y1 y2 with
    | Some yy => tail rest (if yy <? 50 then 2000 + yy else 1900 + yy)
    | None => None
    end
  | Prim Univ 24 (y1 :: y2 :: y3 :: y4 :: rest) =>
    match digits_val [y1; y2; y3; y4] 0 with
    | Some y => if (1950 <=? y) && (y <? 2050) then None else tail rest y   (* DER/RFC 5280: UTCTime must be used *)
    | None => None
    end
  | _ => None
  end.

Definition dec_spki (t : tlv) : option spki :=
  match t with
  | Cons Univ 16 [a; b] =>
    match dec_algid a, dec_bits_full b with
    | Some al, Some bits => Some (mkSpki al bits)
    | _, _ => None
    end
  | _ => None
  end.

Definition dec_ext (t : tlv) : option ext :=
  match t with
  | Cons Univ 16 [o; Prim Univ 4 v] =>
    match dec_oid o with Some a => Some (mkExt a false v) | None => None end
  | Cons Univ 16 [o; c; Prim Univ 4 v] =>
    if dec_bool_true c then match dec_oid o with Some a => Some (mkExt a true v) | None => None end
    else None                                     (* DEFAULT FALSE must be omitted *)
  | _ => None
  end.

(* optional tail of the TBSCertificate: [1] issuerUniqueID, [2] subjectUniqueID, [3] extensions, in this order *)
Definition dec_uid (tag : N) (l : list tlv) : option (option bytes * list tlv) :=
  match l with
  | Prim Ctx t (u :: b) :: r =>
    if t =? tag then (if b2n u =? 0 then Some (Some b, r) else None) else Some (None, l)
  | _ => Some (None, l)
  end.

Definition dec_exts (l : list tlv) : option (list ext) :=
  match l with
  | [] => Some []
  | [Cons Ctx 3 [Cons Univ 16 (e :: es)]] => map_opt dec_ext (e :: es)    (* SIZE (1..MAX) *)
  | _ => None
  end.

Definition dec_tbs (t : tlv) : option (Z * Z * algid * list rdn * civil * civil * list rdn * spki * option bytes * option bytes * list ext) :=
  match t with
  | Cons Univ 16 l =>
    let '(ver, l1) := match l with
                      | Cons Ctx 0 [v] :: r => (match dec_int v with
                                                | Some z => if (z =? 0)%Z then None else Some z   (* DEFAULT v1 omitted *)
                                                | None => None end, r)
                      | _ => (Some 0%Z, l)
                      end in
    match ver, l1 with
    | Some version, ser :: inner :: iss :: Cons Univ 16 [nb; na] :: subj :: sp :: rest =>
      match dec_int ser, dec_algid inner, dec_name iss, dec_time nb, dec_time na, dec_name subj, dec_spki sp,
            dec_uid 1 rest with
      | Some serial, Some al, Some issuer, Some t1, Some t2, Some subject, Some pk, Some (iuid, r1) =>
        match dec_uid 2 r1 with
        | Some (suid, r2) =>
          match dec_exts r2 with
          | Some exts => Some (version, serial, al, issuer, t1, t2, subject, pk, iuid, suid, exts)
          | None => None
          end
        | None => None
        end
      | _, _, _, _, _, _, _, _ => None
      end
    | _, _ => None
    end
  | _ => None
  end.

Definition dec_cert (t : tlv) : option tcert :=
  match t with
  | Cons Univ 16 [tbs; outer; sg] =>
    match dec_tbs tbs, dec_algid outer, dec_bits_full sg with
    | Some (version, serial, al, issuer, t1, t2, subject, pk, iuid, suid, exts), Some o, Some s =>
      Some (mkTcert version serial al issuer t1 t2 subject pk iuid suid exts o s)
    | _, _, _ => None
    end
  | _ => None
  end.

Definition parse_cert (bs : bytes) : option tcert :=
  match parse_all bs with Some t => dec_cert t | None => None end.
