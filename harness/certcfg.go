package main

// Structured certificate configurations: one Go value renders both to the YAML/JSON text the real code reads
// and to the Gallina term the Coq model evaluates, so the two sides are fed from a single source.

import (
	"encoding/hex"
	"encoding/json"
	"fmt"
	"math/big"
	"sort"
	"strings"
)

type UserNotice struct {
	Org     string
	Numbers []int64
	HasNums bool
	Text    string
}
type Qualifier struct {
	Cps    string
	Notice *UserNotice
}
type Policy struct {
	Oid      string
	Quals    []Qualifier
	HasQuals bool
}
type Naming struct{ Oid, Url, Text string }
type ProfInfo struct {
	Naming  *Naming
	Items   []string
	Oids    []string
	RegNum  string
	AddInfo string
}
type Admissions struct {
	Auth   *[2]string
	Naming *Naming
	Infos  []ProfInfo
}
type Admission struct {
	Auth *[2]string
	List []Admissions
}

type Ext struct {
	Kind       string // ski ku san bc cp aia aki eku adm ocsp custom
	Raw        string
	Crit       int // -1 omitted, 0 false, 1 true
	HasContent bool
	Str        string      // ski content / aki id
	List       []string    // ku, eku, aia
	Names      [][2]string // san
	Ca         bool
	HasCa      bool
	PathLen    int64
	HasPl      bool
	Pols       []Policy
	Adm        *Admission
	Oid        string // custom
}

type Manip struct {
	Version  *int64
	Outer    string
	SigValue string
	Inner    string
	PkAlg    string
	Pk       string
}

type Validity struct{ From, Until, Duration string }

type PExt struct {
	Ext      Ext
	Optional bool
	Override bool
}
type PAttr struct {
	Name     string
	Optional bool
}
type Profile struct {
	Name       string
	Validity   Validity
	AllowOther bool
	HasAttrs   bool
	Attrs      []PAttr
	Exts       []PExt
}

type Cfg struct {
	Alias      string
	Subject    string
	Issuer     string
	Profile    string
	Serial     int64
	SerialBig  string // a serial number beyond int64, written into the file as a plain number
	IssuerUID  string
	SubjectUID string
	Validity   Validity
	KeyAlg     string
	SigAlg     string
	Exts       []Ext
	Manip      Manip
}

// ---------------------------------------------------------------- text form (ordered maps -> JSON or block YAML)

type kv struct {
	k string
	v any
}
type omap []kv

func (o omap) MarshalJSON() ([]byte, error) {
	var sb strings.Builder
	sb.WriteByte('{')
	for i, e := range o {
		if i > 0 {
			sb.WriteByte(',')
		}
		kb, _ := json.Marshal(e.k)
		vb, err := json.Marshal(e.v)
		if err != nil {
			return nil, err
		}
		sb.Write(kb)
		sb.WriteByte(':')
		sb.Write(vb)
	}
	sb.WriteByte('}')
	return []byte(sb.String()), nil
}

func critKV(c int) omap {
	if c < 0 {
		return nil
	}
	return omap{{"critical", c == 1}}
}

func gnMap(g *[2]string) omap {
	if g[0] == "-" { // the entry has no "type" key at all (the schema requires neither key)
		return omap{{"name", g[1]}}
	}
	return omap{{"type", g[0]}, {"name", g[1]}}
}
func namingMap(n *Naming) omap {
	o := omap{}
	if n.Oid != "" {
		o = append(o, kv{"oid", n.Oid})
	}
	if n.Url != "" {
		o = append(o, kv{"url", n.Url})
	}
	if n.Text != "" {
		o = append(o, kv{"text", n.Text})
	}
	return o
}

var kindName = map[string]string{"ski": "subjectKeyIdentifier", "ku": "keyUsage", "san": "subjectAlternativeName", "bc": "basicConstraints",
	"cp": "certificatePolicies", "aia": "authorityInformationAccess", "aki": "authorityKeyIdentifier", "eku": "extendedKeyUsage",
	"adm": "admission", "ocsp": "ocspNoCheck", "custom": "custom"}

func (e Ext) body() omap {
	b := omap{}
	if e.Kind == "custom" {
		b = append(b, kv{"oid", e.Oid})
	}
	b = append(b, critKV(e.Crit)...)
	if e.Raw != "" {
		b = append(b, kv{"raw", e.Raw})
	}
	if !e.HasContent {
		return b
	}
	switch e.Kind {
	case "ski":
		b = append(b, kv{"content", e.Str})
	case "ku", "eku":
		l := e.List
		if l == nil {
			l = []string{}
		}
		b = append(b, kv{"content", l})
	case "aia":
		l := []omap{}
		for _, u := range e.List {
			l = append(l, omap{{"ocsp", u}})
		}
		b = append(b, kv{"content", l})
	case "san":
		l := []omap{}
		for _, n := range e.Names {
			n := n
			l = append(l, gnMap(&n))
		}
		b = append(b, kv{"content", l})
	case "bc":
		c := omap{}
		if e.HasCa {
			c = append(c, kv{"ca", e.Ca})
		}
		if e.HasPl {
			c = append(c, kv{"pathLen", e.PathLen})
		}
		b = append(b, kv{"content", c})
	case "aki":
		b = append(b, kv{"content", omap{{"id", e.Str}}})
	case "cp":
		l := []omap{}
		for _, p := range e.Pols {
			pm := omap{{"oid", p.Oid}}
			if p.HasQuals {
				ql := []omap{}
				for _, q := range p.Quals {
					if q.Notice != nil {
						un := omap{}
						if q.Notice.Org != "" {
							un = append(un, kv{"organization", q.Notice.Org})
						}
						if q.Notice.HasNums {
							n := q.Notice.Numbers
							if n == nil {
								n = []int64{}
							}
							un = append(un, kv{"numbers", n})
						}
						if q.Notice.Text != "" {
							un = append(un, kv{"text", q.Notice.Text})
						}
						ql = append(ql, omap{{"userNotice", un}})
					} else {
						ql = append(ql, omap{{"cps", q.Cps}})
					}
				}
				pm = append(pm, kv{"qualifiers", ql})
			}
			l = append(l, pm)
		}
		b = append(b, kv{"content", l})
	case "adm":
		c := omap{}
		if e.Adm.Auth != nil {
			c = append(c, kv{"admissionAuthority", gnMap(e.Adm.Auth)})
		}
		al := []omap{}
		for _, a := range e.Adm.List {
			am := omap{}
			if a.Auth != nil {
				am = append(am, kv{"admissionAuthority", gnMap(a.Auth)})
			}
			if a.Naming != nil {
				am = append(am, kv{"namingAuthority", namingMap(a.Naming)})
			}
			pl := []omap{}
			for _, p := range a.Infos {
				pm := omap{}
				if p.Naming != nil {
					pm = append(pm, kv{"namingAuthority", namingMap(p.Naming)})
				}
				items := p.Items
				if items == nil {
					items = []string{}
				}
				pm = append(pm, kv{"professionItems", items})
				if p.Oids != nil {
					pm = append(pm, kv{"professionOids", p.Oids})
				}
				if p.RegNum != "" {
					pm = append(pm, kv{"registrationNumber", p.RegNum})
				}
				if p.AddInfo != "" {
					pm = append(pm, kv{"addProfessionInfo", p.AddInfo})
				}
				pl = append(pl, pm)
			}
			am = append(am, kv{"professionInfos", pl})
			al = append(al, am)
		}
		c = append(c, kv{"admissions", al})
		b = append(b, kv{"content", c})
	}
	return b
}

func (e Ext) item() omap { return omap{{kindName[e.Kind], e.body()}} }

func (v Validity) omap() omap {
	o := omap{}
	if v.From != "" {
		o = append(o, kv{"from", v.From})
	}
	if v.Until != "" {
		o = append(o, kv{"until", v.Until})
	}
	if v.Duration != "" {
		o = append(o, kv{"duration", v.Duration})
	}
	return o
}
func (v Validity) set() bool { return v.From != "" || v.Until != "" || v.Duration != "" }

func (c Cfg) tree() omap {
	o := omap{{"version", 1}, {"subject", c.Subject}}
	if c.Alias != "" {
		o = append(o, kv{"alias", c.Alias})
	}
	if c.Issuer != "" {
		o = append(o, kv{"issuer", c.Issuer})
	}
	if c.Profile != "" {
		o = append(o, kv{"profile", c.Profile})
	}
	if c.SerialBig != "" {
		o = append(o, kv{"serialNumber", json.Number(c.SerialBig)})
	} else if c.Serial != 0 {
		o = append(o, kv{"serialNumber", c.Serial})
	}
	if c.IssuerUID != "" {
		o = append(o, kv{"issuerUniqueId", c.IssuerUID})
	}
	if c.SubjectUID != "" {
		o = append(o, kv{"subjectUniqueId", c.SubjectUID})
	}
	if c.Validity.set() {
		o = append(o, kv{"validity", c.Validity.omap()})
	}
	if c.KeyAlg != "" {
		o = append(o, kv{"keyAlgorithm", c.KeyAlg})
	}
	if c.SigAlg != "" {
		o = append(o, kv{"signatureAlgorithm", c.SigAlg})
	}
	if len(c.Exts) > 0 {
		l := []omap{}
		for _, e := range c.Exts {
			l = append(l, e.item())
		}
		o = append(o, kv{"extensions", l})
	}
	m := omap{}
	if c.Manip.Version != nil {
		m = append(m, kv{".version", *c.Manip.Version})
	}
	if c.Manip.Outer != "" {
		m = append(m, kv{".signatureAlgorithm", c.Manip.Outer})
	}
	if c.Manip.SigValue != "" {
		m = append(m, kv{".signatureValue", c.Manip.SigValue})
	}
	if c.Manip.Inner != "" {
		m = append(m, kv{".tbs.signature", c.Manip.Inner})
	}
	if c.Manip.PkAlg != "" {
		m = append(m, kv{".tbs.subjectPublicKey.algorithm", c.Manip.PkAlg})
	}
	if c.Manip.Pk != "" {
		m = append(m, kv{".tbs.subjectPublicKey.subjectPublicKey", c.Manip.Pk})
	}
	if len(m) > 0 {
		o = append(o, kv{"manipulations", m})
	}
	return o
}

func (p Profile) tree() omap {
	o := omap{{"version", 1}, {"name", p.Name}}
	if p.HasAttrs || p.AllowOther {
		sa := omap{}
		if p.HasAttrs {
			l := []omap{}
			for _, a := range p.Attrs {
				am := omap{{"attribute", a.Name}}
				if a.Optional {
					am = append(am, kv{"optional", true})
				}
				l = append(l, am)
			}
			sa = append(sa, kv{"attributes", l})
		}
		if p.AllowOther {
			sa = append(sa, kv{"allowOther", true})
		}
		o = append(o, kv{"subjectAttributes", sa})
	}
	if p.Validity.set() {
		o = append(o, kv{"validity", p.Validity.omap()})
	}
	if len(p.Exts) > 0 {
		l := []omap{}
		for _, e := range p.Exts {
			it := e.Ext.item()
			if e.Optional {
				it = append(it, kv{"optional", true})
			}
			if e.Override {
				it = append(it, kv{"override", true})
			}
			l = append(l, it)
		}
		o = append(o, kv{"extensions", l})
	}
	return o
}

func jsonText(t omap) string { b, _ := json.Marshal(t); return string(b) }

// block-style YAML of the same tree (strings always double-quoted, JSON escapes are valid YAML escapes)
func yamlText(v any, indent int, sb *strings.Builder) {
	pad := strings.Repeat("  ", indent)
	switch x := v.(type) {
	case omap:
		if len(x) == 0 {
			sb.WriteString(" {}\n")
			return
		}
		sb.WriteString("\n")
		for _, e := range x {
			kb, _ := json.Marshal(e.k)
			sb.WriteString(pad + string(kb) + ":")
			yamlText(e.v, indent+1, sb)
		}
	case []omap:
		if len(x) == 0 {
			sb.WriteString(" []\n")
			return
		}
		sb.WriteString("\n")
		for _, it := range x {
			sb.WriteString(pad + "-")
			yamlText(it, indent+1, sb)
		}
	default:
		b, _ := json.Marshal(x)
		sb.WriteString(" " + string(b) + "\n")
	}
}
func yamlOf(t omap) string {
	var sb strings.Builder
	for _, e := range t {
		kb, _ := json.Marshal(e.k)
		sb.WriteString(string(kb) + ":")
		yamlText(e.v, 1, &sb)
	}
	return sb.String()
}

// ---------------------------------------------------------------- Gallina form

func cqB(s string) string { return cqBytes([]byte(s)) }

// long strings are cut into pieces: Coq's string notation recurses once per character
func cqBytes(b []byte) string {
	if len(b) <= 1000 {
		return `(B "` + hex.EncodeToString(b) + `")`
	}
	var parts []string
	for i := 0; i < len(b); i += 1000 {
		j := i + 1000
		if j > len(b) {
			j = len(b)
		}
		parts = append(parts, `B "`+hex.EncodeToString(b[i:j])+`"`)
	}
	return "(" + strings.Join(parts, " ++ ") + ")"
}
func cqBool(b bool) string {
	if b {
		return "true"
	}
	return "false"
}
func cqZ(z int64) string { return fmt.Sprintf("(%d)%%Z", z) }
func cqList[T any](l []T, f func(T) string) string {
	s := make([]string, len(l))
	for i, x := range l {
		s[i] = f(x)
	}
	return "[" + strings.Join(s, "; ") + "]"
}
func cqOptList[T any](has bool, l []T, f func(T) string) string {
	if !has {
		return "None"
	}
	return "(Some " + cqList(l, f) + ")"
}
func cqGn(g *[2]string) string {
	if g == nil {
		return "([], [])"
	}
	return "(" + cqB(gnType(g[0])) + ", " + cqB(g[1]) + ")"
}

// "-" stands for "no type key in the file", which Go reads as the empty string
func gnType(t string) string {
	if t == "-" {
		return ""
	}
	return t
}
func cqNaming(n *Naming) string {
	if n == nil {
		n = &Naming{}
	}
	return "(mkNaming " + cqB(n.Oid) + " " + cqB(n.Url) + " " + cqB(n.Text) + ")"
}

func (e Ext) Coq() string {
	raw, crit := cqB(e.Raw), cqBool(e.Crit == 1)
	hc := e.HasContent
	switch e.Kind {
	case "ski":
		s := ""
		if hc {
			s = e.Str
		}
		return fmt.Sprintf("(XSki %s %s %s)", raw, crit, cqB(s))
	case "ku":
		return fmt.Sprintf("(XKu %s %s %s)", raw, crit, cqOptList(hc, e.List, cqB))
	case "eku":
		return fmt.Sprintf("(XEku %s %s %s)", raw, crit, cqOptList(hc, e.List, cqB))
	case "aia":
		return fmt.Sprintf("(XAia %s %s %s)", raw, crit, cqOptList(hc, e.List, cqB))
	case "san":
		return fmt.Sprintf("(XSan %s %s %s)", raw, crit, cqOptList(hc, e.Names, func(n [2]string) string { return "(" + cqB(gnType(n[0])) + ", " + cqB(n[1]) + ")" }))
	case "bc":
		if !hc {
			return fmt.Sprintf("(XBc %s %s None)", raw, crit)
		}
		return fmt.Sprintf("(XBc %s %s (Some (%s, %s)))", raw, crit, cqBool(e.HasCa && e.Ca), cqZ(e.PathLen))
	case "aki":
		s := ""
		if hc {
			s = e.Str
		}
		return fmt.Sprintf("(XAki %s %s %s)", raw, crit, cqB(s))
	case "cp":
		return fmt.Sprintf("(XCp %s %s %s)", raw, crit, cqOptList(hc, e.Pols, func(p Policy) string {
			return "(mkPol " + cqB(p.Oid) + " " + cqOptList(p.HasQuals, p.Quals, func(q Qualifier) string {
				if q.Notice != nil {
					return "(mkQual [] (Some (mkUn " + cqB(q.Notice.Org) + " " + cqOptList(q.Notice.HasNums, q.Notice.Numbers, cqZ) + " " + cqB(q.Notice.Text) + ")))"
				}
				return "(mkQual " + cqB(q.Cps) + " None)"
			}) + ")"
		}))
	case "adm":
		if !hc {
			return fmt.Sprintf("(XAdm %s %s None)", raw, crit)
		}
		return fmt.Sprintf("(XAdm %s %s (Some (mkAdm %s %s)))", raw, crit, cqGn(e.Adm.Auth), cqList(e.Adm.List, func(a Admissions) string {
			return "(mkAdms " + cqGn(a.Auth) + " " + cqNaming(a.Naming) + " " + cqList(a.Infos, func(p ProfInfo) string {
				return "(mkPi " + cqNaming(p.Naming) + " " + cqList(p.Items, cqB) + " " + cqList(p.Oids, cqB) + " " + cqB(p.RegNum) + " " + cqB(p.AddInfo) + ")"
			}) + ")"
		}))
	case "ocsp":
		return fmt.Sprintf("(XOcsp %s %s)", raw, crit)
	case "custom":
		return fmt.Sprintf("(XCustom %s %s %s)", cqB(e.Oid), raw, crit)
	}
	panic("kind " + e.Kind)
}

func (v Validity) Coq() string {
	return "(mkVal " + cqB(v.From) + " " + cqB(v.Until) + " " + cqB(v.Duration) + ")"
}

func (m Manip) Coq() string {
	v := "None"
	if m.Version != nil {
		v = "(Some " + cqZ(*m.Version) + ")"
	}
	return "(mkManip " + v + " " + cqB(m.Outer) + " " + cqB(m.SigValue) + " " + cqB(m.Inner) + " " + cqB(m.PkAlg) + " " + cqB(m.Pk) + ")"
}

func (c Cfg) Coq() string {
	serial := cqZ(c.Serial)
	if c.SerialBig != "" {
		// the number the text denotes (1e3 and 1.0 are numbers too); anything that is not a whole number counts as 0 = unset
		serial = "(0)%Z"
		if f, _, err := big.ParseFloat(c.SerialBig, 10, 4096, big.ToNearestEven); err == nil && f.IsInt() {
			z, _ := f.Int(nil)
			serial = "(" + z.String() + ")%Z"
		}
	}
	return "(mkCertCfg " + cqB(c.Subject) + " " + serial + " " + cqB(c.IssuerUID) + " " + cqB(c.SubjectUID) + " " + c.Validity.Coq() + " " +
		cqB(c.KeyAlg) + " " + cqB(c.SigAlg) + " " + cqList(c.Exts, Ext.Coq) + " " + c.Manip.Coq() + ")"
}

func (p *Profile) Coq() string {
	if p == nil {
		return "None"
	}
	return "(Some (mkProfile " + p.Validity.Coq() + " " + cqBool(p.AllowOther) + " " +
		cqOptList(p.HasAttrs, p.Attrs, func(a PAttr) string { return "(" + cqB(a.Name) + ", " + cqBool(a.Optional) + ")" }) + " " +
		cqList(p.Exts, func(e PExt) string {
			return "(mkPext _ " + e.Ext.Coq() + " " + cqBool(e.Optional) + " " + cqBool(e.Override) + ")"
		}) + "))"
}

func sortedKeys[V any](m map[string]V) []string {
	k := make([]string, 0, len(m))
	for x := range m {
		k = append(k, x)
	}
	sort.Strings(k)
	return k
}
