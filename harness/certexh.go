package main

// Exhaustive / boundary parts of the certificate stream, per focus.

import (
	"bytes"
	"encoding/asn1"
	"encoding/pem"
	"fmt"
	"math/big"
	"os"
	"strings"
	"time"

	"github.com/wokdav/gopki/generator/cert"
)

func batch(tag string, root Cfg, subs []Cfg) { batchP(tag, root, subs, nil) }

// [profs]: the profiles the subordinates reference by name (sub i uses profs[j] when subs[i].Profile == profs[j].Name)
func batchP(tag string, root Cfg, subs []Cfg, profs []*Profile) {
	ents := []entity{{name: "root", cfg: root}}
	defer func() {
		// BulkUpdate stops at the first failing entity; run what came after it in a fresh directory
		if k := batchFailed; k > 0 && k < len(subs) {
			batchFailed = -1
			batchP(tag+"+", root, subs[k:], profs)
		}
	}()
	batchFailed = -1
	for i, s := range subs {
		s.Issuer = "root"
		if s.SigAlg == "" && !strings.HasPrefix(tag, "c05") {
			if strings.HasPrefix(root.KeyAlg, "RSA") {
				s.SigAlg = "RSAwithSHA256"
			} else {
				s.SigAlg = "ECDSAwithSHA256"
			}
		}
		e := entity{name: fmt.Sprintf("s%05d", i), cfg: s, json: i%5 == 4}
		if kf, ok := suppliedKeys[s.Subject]; ok {
			e.keyfile, e.keyPoint = kf.file, kf.point
		}
		for _, p := range profs {
			if p.Name == s.Profile {
				e.profile = p
			}
		}
		e.dangling = s.Profile != "" && e.profile == nil
		ents = append(ents, e)
	}
	var used []*Profile
	for _, p := range profs {
		for _, e := range ents {
			if e.profile == p || (e.dangling && strings.EqualFold(e.cfg.Profile, p.Name)) {
				used = append(used, p)
				break
			}
		}
	}
	batchFailed = runHierarchy(tag, ents, used) // index in ents; ents[k] = subs[k-1], so the rest is subs[k:]
}

var batchFailed = -1

// private keys supplied as pre-existing artifact files, by subject of the entity that uses them
var suppliedKeys = map[string]struct{ file, point []byte }{}

// a subordinate whose key is supplied: the first scalar (counting up from [start]) whose public point has a leading zero octet in
// X (which = 0) or in Y (which = 1) - about one key in 256 has one, and encoders that drop or misplace it only fail there
func zeroCoordinateSub(curve string, which int, start int64) Cfg {
	c := curveByName[curve]
	bl := (c.Params().BitSize + 7) / 8
	for d := start; ; d++ {
		k := ecKey(curve, big.NewInt(d))
		co := k.X
		if which == 1 {
			co = k.Y
		}
		if len(co.Bytes()) < bl {
			der, _ := cert.MarshalPKCS8PrivateKey(k)
			var o bytes.Buffer
			pem.Encode(&o, &pem.Block{Type: "PRIVATE KEY", Bytes: der})
			s := plainSub(int(d))
			s.Subject = fmt.Sprintf("CN=supplied %s key %d coordinate %d", curve, d, which)
			s.KeyAlg = curve
			suppliedKeys[s.Subject] = struct{ file, point []byte }{o.Bytes(), pointBytes(k.Curve, k.X, k.Y)}
			return s
		}
	}
}

func plainRoot() Cfg {
	return Cfg{Subject: "CN=Root, O=Acme", KeyAlg: "P-256", SigAlg: "ECDSAwithSHA256", Validity: Validity{From: "2020-01-01", Until: "2040-01-01"}}
}
func plainSub(i int) Cfg {
	return Cfg{Subject: fmt.Sprintf("CN=sub %d", i), KeyAlg: "P-256", Validity: Validity{From: "2021-03-04", Until: "2031-05-06"}}
}

func exhaustiveCert(g *gen) {
	step := func(quick, thor int) int {
		if thorough() {
			return thor
		}
		return quick
	}
	switch g.focus {
	case "c02":
		batch("c02-zero-coordinate", plainRoot(), []Cfg{zeroCoordinateSub("P-224", 0, 2), zeroCoordinateSub("brainpoolP256r1", 1, 2), zeroCoordinateSub("brainpoolP384t1", 0, 2), zeroCoordinateSub("P-521", 1, 2)})
		var subs []Cfg
		for _, n := range []int{1, 63, 64, 126, 127, 128, 129, 254, 255, 256, 257, 1000} {
			s := plainSub(n)
			s.Subject = "CN=" + strings.Repeat("n", n) + ", O=" + strings.Repeat("ö", n/2+1)
			subs = append(subs, s)
		}
		for _, y := range []int{1950, 1999, 2049, 2050, 2199} {
			for _, md := range []string{"01-01", "12-31", "02-28", "06-15"} {
				s := plainSub(y)
				s.Validity = Validity{From: fmt.Sprintf("%04d-%s", y, md), Until: fmt.Sprintf("%04d-%s", y+1, md)}
				subs = append(subs, s)
			}
		}
		for _, sn := range []int64{1, 127, 128, 255, 256, 65535, 65536, 1<<31 - 1, 1 << 31, 1<<63 - 1} {
			s := plainSub(int(sn % 1000))
			s.Serial = sn
			subs = append(subs, s)
		}
		for i := 0; i < 40; i++ { // random serials: each must be non-negative and at most 20 octets
			subs = append(subs, plainSub(1000+i))
		}
		batch("c02-exh", plainRoot(), subs)
		// negative serials pass the schema; they must be configuration errors, never negative INTEGERs (F24)
		for _, sn := range []int64{-1, -128, -129, -9223372036854775808} {
			s := plainSub(int(-(sn % 1000)))
			s.Serial = sn
			batch(fmt.Sprintf("c02-negative-serial-%d", sn), plainRoot(), []Cfg{s})
		}
		// cross-family hierarchies: inner and outer identifiers under a signer of the other family
		for _, rk := range []string{"RSA-1024", "P-256", "brainpoolP256r1"} {
			r := plainRoot()
			r.KeyAlg = rk
			r.SigAlg = map[bool]string{true: "RSAwithSHA256", false: "ECDSAwithSHA384"}[strings.HasPrefix(rk, "RSA")]
			var ss []Cfg
			for i, sk := range []string{"RSA-1024", "P-224", "P-384", "brainpoolP384r1", ""} {
				s := plainSub(i)
				s.KeyAlg = sk
				ss = append(ss, s)
			}
			batch("c02-cross-"+rk, r, ss)
		}
	case "c03":
		var subs []Cfg
		for _, k := range attrKeys {
			for _, v := range []string{"x", "Grüße", "A*B", "with space", "日本"} {
				s := plainSub(0)
				s.Subject = k + "=" + v + ", CN=tail"
				subs = append(subs, s)
			}
		}
		for n := 0; n <= 300; n += step(7, 1) {
			s := plainSub(n)
			if n > 0 {
				s.SubjectUID = binary(g.bytesN(n))
				s.IssuerUID = binary(g.bytesN(300 - n + 1))
			} else {
				s.SubjectUID, s.IssuerUID = "!empty", "!null"
			}
			subs = append(subs, s)
		}
		batch("c03-exh", plainRoot(), subs)
	case "c04":
		var subs []Cfg
		years := []int{1950, 1999, 2000, 2024, 2049, 2050, 2100, 2200}
		if !thorough() {
			years = []int{1999, 2024, 2050}
		}
		for _, y := range years {
			for m := 1; m <= 12; m++ {
				for d := 1; d <= 31; d++ {
					if !thorough() && d > 3 && d < 28 && (d+m)%5 != 0 {
						continue
					}
					s := plainSub(d)
					s.Validity = Validity{From: fmt.Sprintf("%04d-%02d-%02d", y, m, d), Duration: []string{"1y", "1m", "30d", "1y1m", "2y6m10d"}[(m+d)%5]}
					subs = append(subs, s)
					if (m+d)%7 == 0 {
						s2 := plainSub(d)
						s2.Validity = Validity{From: "1950-01-01", Until: fmt.Sprintf("%04d-%02d-%02d", y, m, d)}
						subs = append(subs, s2)
					}
				}
			}
			batch(fmt.Sprintf("c04-grid-%d", y), plainRoot(), subs)
			subs = nil
		}
		for _, f := range []string{"2024-02-29", "2000-02-29", "2023-01-31", "2024-01-31", "2024-03-31", "2024-12-31", "2049-12-31"} {
			for _, du := range []string{"1y", "1m", "1y1m", "2y6m10d", "4y", "4y1m", "11m", "12m", "13m", "1d", "365d", "366d", "1y365d", "0y1m0d", "400d", "99y11m30d"} {
				s := plainSub(0)
				s.Validity = Validity{From: f, Duration: du}
				subs = append(subs, s)
			}
		}
		batch("c04-carry", plainRoot(), subs)
		// duration components beyond what X.509 dates can reach must be configuration errors, not wrapped-around dates (F25)
		for i, du := range []string{"99999999999999999999y", "9223372036854775807d", "10000y", "119989m", "3659635d", "9999y", "1y9223372036854775807m"} {
			s := plainSub(i)
			s.Validity = Validity{From: "2024-02-29", Duration: du}
			batch(fmt.Sprintf("c04-duration-range-%d", i), plainRoot(), []Cfg{s})
		}
		// the end of the validity itself must stay within what X.509 (and the hashed JSON form) can express (F28): start date plus
		// duration, and start date plus the default lifetime
		for i, v := range []Validity{{From: "9999-12-31", Duration: "1d"}, {From: "9999-12-30", Duration: "1d"}, {From: "9000-01-01", Duration: "1000y"}, {From: "9000-01-01", Duration: "999y11m30d"},
			{From: "2024-01-01", Duration: "9999y"}, {From: "9996-01-01"}, {From: "9994-12-31"}, {From: "9999-01-01", Until: "9999-12-31"}} {
			s := plainSub(i)
			s.Validity = v
			batch(fmt.Sprintf("c04-end-range-%d", i), plainRoot(), []Cfg{s})
		}
		// entities that are built seconds after the configurations were read (slow key generation in front of them): an end date
		// without a start date stays that date, a duration counts from the moment of reading/building consistently
		if tz := os.Getenv("TZ"); tz == "" || tz == "UTC" {
			slowRoot := plainRoot()
			slowRoot.KeyAlg, slowRoot.SigAlg = "RSA-4096", "RSAwithSHA256"
			var late []Cfg
			for i := 0; i < 2; i++ {
				s := plainSub(900 + i)
				s.KeyAlg = "RSA-4096"
				late = append(late, s)
			}
			for i, v := range []Validity{{Until: "2040-06-15"}, {Duration: "3y"}, {}, {Until: "2031-03-09"}} {
				s := plainSub(910 + i)
				s.Validity = v
				late = append(late, s)
			}
			inh := plainSub(920)
			inh.Validity = Validity{}
			inh.Profile = "plate"
			late = append(late, inh)
			batchP("c04-late", slowRoot, late, []*Profile{{Name: "plate", Validity: Validity{Until: "2044-04-04"}}})
		}
		c04Instants()
	case "c05":
		{
			// supplied keys whose public point has a leading zero octet in one coordinate, on every curve
			var subs []Cfg
			for _, cv := range ecKeys {
				subs = append(subs, zeroCoordinateSub(cv, 0, 2), zeroCoordinateSub(cv, 1, 2))
			}
			batch("c05-zero-coordinate", plainRoot(), subs)
		}
		keys := allKeys
		if !thorough() {
			keys = allKeys[:13] // RSA-8192 only in the thorough tier
		}
		// roots: key x (8 algorithms + omitted)
		for _, k := range keys {
			if !thorough() && k == "RSA-4096" {
				r := plainRoot()
				r.KeyAlg, r.SigAlg = k, ""
				batch("c05-root-"+k, r, nil)
				continue
			}
			for _, s := range append([]string{""}, allSigs...) {
				r := plainRoot()
				r.KeyAlg, r.SigAlg = k, s
				batch("c05-root-"+k+"-"+s, r, nil)
			}
		}
		// subordinates of every key type under issuers of every key type
		for _, rk := range keys {
			if rk == "RSA-4096" || rk == "RSA-8192" {
				continue
			}
			r := plainRoot()
			r.KeyAlg = rk
			r.SigAlg = map[bool]string{true: "RSAwithSHA512", false: "ECDSAwithSHA512"}[strings.HasPrefix(rk, "RSA")]
			var ss []Cfg
			for i, sk := range append([]string{""}, keys...) {
				if sk == "RSA-4096" || sk == "RSA-8192" || (sk == "RSA-2048" && !thorough() && rk != "P-256") {
					continue
				}
				for _, sa := range []string{"", fitting(g, rk)} {
					s := plainSub(i)
					s.KeyAlg, s.SigAlg = sk, sa
					ss = append(ss, s)
				}
			}
			batch("c05-sub-under-"+rk, r, ss)
		}
	case "c06":
		var subs []Cfg
		for n := 1; n <= 1100; n += step(9, 1) {
			s := plainSub(n)
			s.Exts = []Ext{{Kind: "custom", Oid: "1.2.3.4", Raw: binary(g.bytesN(n)), Crit: n%3 - 1}}
			subs = append(subs, s)
		}
		for _, n := range []int{4095, 4096, 4097, 65535, 65536} {
			s := plainSub(n)
			s.Exts = []Ext{{Kind: "ku", Raw: binary(g.bytesN(n)), Crit: -1}}
			subs = append(subs, s)
		}
		// payloads whose base64 text starts with every alphabet character
		for c := 0; c < 64; c++ {
			b := g.bytesN(6)
			b[0] = byte(c << 2)
			s := plainSub(c)
			s.Exts = []Ext{{Kind: "custom", Oid: "1.2.3.5", Raw: binary(b), Crit: -1}}
			s.SubjectUID = binary(b)
			subs = append(subs, s)
		}
		for _, k := range allKinds {
			for crit := -1; crit <= 1; crit++ {
				for _, raw := range []string{"", "!null", "!empty", "!binary:AQIDBA=="} {
					e := g.ext(k)
					for e.Raw != "" && k != "custom" { // want the content form here
						e = g.ext(k)
					}
					e.Crit = crit
					if raw != "" {
						e.Raw, e.HasContent = raw, false
					} else if k == "custom" {
						continue
					}
					s := plainSub(len(subs))
					s.Exts = []Ext{e}
					subs = append(subs, s)
				}
			}
		}
		batch("c06-exh", plainRoot(), subs)
	case "c08":
		// the documented merge rule through the configuration files: every shape of one or two profile entries over keyUsage and
		// extendedKeyUsage (with content / content-less, optional, override) against every short certificate list over the same two
		// kinds and a custom extension; ten subordinates per directory, each with its own profile file
		kuP := Ext{Kind: "ku", HasContent: true, List: []string{"digitalSignature"}, Crit: 1}
		ekuP := Ext{Kind: "eku", HasContent: true, List: []string{"serverAuth"}, Crit: -1}
		kuC := Ext{Kind: "ku", HasContent: true, List: []string{"keyCertSign", "crlSign"}, Crit: 0}
		ekuC := Ext{Kind: "eku", HasContent: true, List: []string{"clientAuth"}, Crit: 1}
		cust := Ext{Kind: "custom", Oid: "1.2.3.9", Raw: "!null", Crit: -1}
		var slots [][]PExt
		for _, base := range []Ext{kuP, ekuP} {
			sl := []PExt{}
			for _, content := range []bool{true, false} {
				for _, opt := range []bool{false, true} {
					for _, ovr := range []bool{false, true} {
						e := base
						if !content {
							e = Ext{Kind: base.Kind, Crit: base.Crit}
						}
						sl = append(sl, PExt{Ext: e, Optional: opt, Override: ovr})
					}
				}
			}
			slots = append(slots, sl)
		}
		var plists [][]PExt
		for _, a := range slots[0] {
			plists = append(plists, []PExt{a})
			for _, b := range slots[1] {
				if thorough() || (a.Optional == b.Optional) || !a.Ext.HasContent || !b.Ext.HasContent {
					plists = append(plists, []PExt{a, b}, []PExt{b, a})
				}
			}
		}
		for _, b := range slots[1] {
			plists = append(plists, []PExt{b})
		}
		clists := [][]Ext{{}, {kuC}, {ekuC}, {kuC, ekuC}, {ekuC, kuC}, {cust, kuC}, {cust, ekuC, kuC}}
		var subs []Cfg
		var profs []*Profile
		flush := func() {
			if len(subs) > 0 {
				batchP("c08-exh", plainRoot(), subs, profs)
				apiMode = true
				batchP("c08-exh-api", plainRoot(), subs, profs)
				apiMode = false
				subs, profs = nil, nil
			}
		}
		n := 0
		for _, pl := range plists {
			for _, cl := range clists {
				n++
				p := &Profile{Name: fmt.Sprintf("p%d", n), Exts: append([]PExt{}, pl...)}
				c := plainSub(n)
				c.Profile = p.Name
				c.Exts = append([]Ext{}, cl...)
				subs = append(subs, c)
				profs = append(profs, p)
				if len(subs) == 10 {
					flush()
				}
			}
		}
		flush()
		// twins: entities whose own configurations are identical (same subject, key type, validity, extension list) and that differ
		// only in the profile they name - each takes its own profile's extensions and validity, whatever was merged for the other
		{
			var ss []Cfg
			var ps []*Profile
			for k := 0; k+1 < len(plists) && k < 14; k++ {
				pa := &Profile{Name: fmt.Sprintf("twa%d", k), Exts: append([]PExt{}, plists[k]...), Validity: Validity{From: "2022-02-02", Until: "2032-02-02"}}
				pb := &Profile{Name: fmt.Sprintf("twb%d", k), Exts: append([]PExt{}, plists[k+1]...), Validity: Validity{From: "2023-03-03", Duration: "3y"}}
				ps = append(ps, pa, pb)
				for _, pn := range []string{pa.Name, pb.Name} {
					c := plainSub(700 + k)
					c.Exts = append([]Ext{}, clists[k%len(clists)]...)
					if k%2 == 1 {
						c.Validity = Validity{}
					}
					c.Profile = pn
					ss = append(ss, c)
				}
			}
			batchP("c08-twins", plainRoot(), ss, ps)
		}
		// several certificates under ONE profile whose certificatePolicies entry holds a user notice with an empty number list: the
		// profile stays what it was while its certificates are built one after the other (library path) or all at once (files)
		{
			mk := func(hasNums bool) Ext {
				return Ext{Kind: "cp", HasContent: true, Crit: -1, Pols: []Policy{{Oid: "1.2.3.4", HasQuals: true,
					Quals: []Qualifier{{Notice: &UserNotice{Org: "Org", HasNums: hasNums, Numbers: []int64{}, Text: "T"}}}}}}
			}
			shared := &Profile{Name: "pshared", Exts: []PExt{{Ext: mk(true)}}}
			var ss []Cfg
			for i, own := range [][]Ext{nil, {mk(true)}, {mk(false)}, nil, {mk(true)}} {
				c := plainSub(800 + i)
				c.Profile = shared.Name
				c.Exts = own
				ss = append(ss, c)
			}
			batchP("c08-shared-profile", plainRoot(), ss, []*Profile{shared})
			apiMode = true
			batchP("c08-shared-profile-api", plainRoot(), ss, []*Profile{shared})
			apiMode = false
		}
	case "c07":
		var subs []Cfg
		for f := 0; f < 128; f++ {
			e := Ext{Kind: "ku", Crit: f%3 - 1, HasContent: true}
			for b := 0; b < 7; b++ {
				if f&(1<<b) != 0 {
					e.List = append(e.List, kuFlags[b])
				}
			}
			s := plainSub(f)
			s.Exts = []Ext{e}
			subs = append(subs, s)
		}
		for pl := 1; pl <= 256; pl += step(5, 1) {
			for _, ca := range []int{0, 1, 2} {
				e := Ext{Kind: "bc", Crit: 1, HasContent: true, HasPl: true, PathLen: int64(pl)}
				if ca > 0 {
					e.HasCa, e.Ca = true, ca == 2
				}
				s := plainSub(pl)
				s.Exts = []Ext{e}
				subs = append(subs, s)
			}
		}
		for _, ca := range []int{0, 1, 2} {
			e := Ext{Kind: "bc", Crit: 0, HasContent: true}
			if ca > 0 {
				e.HasCa, e.Ca = true, ca == 2
			}
			s := plainSub(ca)
			s.Exts = []Ext{e}
			subs = append(subs, s)
		}
		// SAN lists over {mail, dns, ip} up to length 3
		kinds := []string{"mail", "dns", "ip"}
		for _, l := range lists(3, 3) {
			e := Ext{Kind: "san", Crit: -1, HasContent: true}
			for _, k := range l {
				e.Names = append(e.Names, g.generalName(kinds[k]))
			}
			s := plainSub(len(l))
			s.Exts = []Ext{e}
			subs = append(subs, s)
		}
		for _, ip := range []string{"0.0.0.0", "255.255.255.255", "256.1.1.1", "1.2.3", "1.2.3.4.5", "-1.2.3.4", "a.b.c.d", "300.1.2.3",
			// octets spelled with leading zeros are decimal (010 is ten, 077 seventy-seven); prefixes and separators of other bases are not numbers
			"192.168.001.010", "10.0.0.077", "010.008.09.0", "1.2.3.0377", "00000000000000000000001.2.3.4", "+1.2.3.4", "0x10.1.1.1", "1.0b1.1.1", "1_0.1.1.1", "0o7.1.1.1", "1.2.3.0255"} {
			s := plainSub(0)
			s.Exts = []Ext{{Kind: "san", Crit: -1, HasContent: true, Names: [][2]string{{"ip", ip}}}}
			subs = append(subs, s)
		}
		for n := 1; n <= 64; n += step(3, 1) {
			s := plainSub(n)
			s.Exts = []Ext{{Kind: "aki", Crit: -1, HasContent: true, Str: binary(g.bytesN(n))}, {Kind: "ski", Crit: -1, HasContent: true, Str: "hash"}, {Kind: "aki", Crit: 1, HasContent: true, Str: "hash"}}
			subs = append(subs, s)
		}
		// policies: every qualifier shape, including mixed kinds inside one policy
		quals := []Qualifier{{Cps: "http://cps.example/a"}, {Notice: &UserNotice{Text: "t"}}, {Notice: &UserNotice{Org: "Org", HasNums: true, Numbers: []int64{1, 2}}},
			{Notice: &UserNotice{Org: "Org", HasNums: true, Numbers: nil, Text: "both"}}, {Notice: &UserNotice{HasNums: true, Numbers: []int64{7}}}, {Notice: &UserNotice{Org: "OnlyOrg"}}}
		for _, ql := range lists(len(quals), 2) {
			p := Policy{Oid: "1.2.3.4", HasQuals: true}
			for _, q := range ql {
				p.Quals = append(p.Quals, quals[q])
			}
			s := plainSub(len(ql))
			s.Exts = []Ext{{Kind: "cp", Crit: -1, HasContent: true, Pols: []Policy{{Oid: "2.5.29.32.0"}, p, {Oid: "1.2.3.5", HasQuals: true, Quals: []Qualifier{quals[0]}}}}}
			subs = append(subs, s)
		}
		for _, l := range lists(7, 2) {
			e := Ext{Kind: "eku", Crit: -1, HasContent: true}
			for _, k := range l {
				if k < 6 {
					e.List = append(e.List, ekuNames[k])
				} else {
					e.List = append(e.List, g.oid())
				}
			}
			s := plainSub(len(l))
			s.Exts = []Ext{e, {Kind: "aia", Crit: -1, HasContent: true, List: []string{"http://ocsp.example", "http://o2.example/x"}[:len(l)]}, {Kind: "ocsp", Crit: len(l) - 1}}
			subs = append(subs, s)
		}
		batch("c07-exh", plainRoot(), subs)
		knownWitnesses()
	case "c16":
		var subs []Cfg
		gns := []*[2]string{nil, {"dns", "auth.example"}, {"mail", "a@auth.example"}, {"url", "http://auth.example"}, {"ip", "10.1.2.3"}}
		namings := []*Naming{nil, {Oid: "1.2.276.0.76.4"}, {Url: "http://na.example"}, {Text: "Nämen"}, {Oid: "1.2.3", Url: "http://u", Text: "T"}}
		for a1, g1 := range gns {
			for a2, g2 := range gns {
				for ni, na := range namings {
					if !thorough() && (a1+a2+ni)%3 != 0 {
						continue
					}
					adm := &Admission{Auth: g1}
					for k := 0; k <= (a1+ni)%3; k++ {
						ad := Admissions{Auth: g2, Naming: na}
						for j := 0; j <= (a2+k)%3; j++ {
							pi := ProfInfo{Items: []string{"Ärztin", "X"}[:1+(j%2)]}
							m := a1 + 2*a2 + 3*ni + j + k // optional members of the profession info
							if m&1 != 0 {
								pi.Naming = namings[1+(m%4)]
							}
							if m&2 != 0 {
								pi.Oids = []string{"1.2.276.0.76.4.30", "1.2.276.0.76.4.31"}[:1+(m%2)]
							}
							if m&4 != 0 {
								pi.RegNum = "1-2-3"
							}
							if m&8 != 0 || (j == 0 && k == 0) {
								pi.AddInfo = []string{"!binary:3q2+7w==", "!null", "!binary:AQID"}[m%3]
							}
							ad.Infos = append(ad.Infos, pi)
						}
						adm.List = append(adm.List, ad)
					}
					s := plainSub(len(subs))
					s.Exts = []Ext{{Kind: "adm", Crit: (a1 % 3) - 1, HasContent: true, Adm: adm}}
					subs = append(subs, s)
				}
			}
		}
		// string-type violations must be errors
		s := plainSub(0)
		s.Exts = []Ext{{Kind: "adm", Crit: -1, HasContent: true, Adm: &Admission{List: []Admissions{{Naming: &Naming{Url: "http://ü.example"}, Infos: []ProfInfo{{Items: []string{"x"}}}}}}}}
		subs = append(subs, s)
		s = plainSub(1)
		s.Exts = []Ext{{Kind: "adm", Crit: -1, HasContent: true, Adm: &Admission{List: []Admissions{{Infos: []ProfInfo{{Items: []string{"x"}, RegNum: "nö"}}}}}}}
		subs = append(subs, s)
		batch("c16-exh", plainRoot(), subs)
	case "c19":
		{
			// two profiles whose names differ only in capitalisation and a reference spelled in a third way: an unknown profile
			a := &Profile{Name: "TLS-Server", Exts: []PExt{{Ext: Ext{Kind: "custom", Oid: "1.2.3.4.1", Raw: "!null", Crit: -1}}}}
			b := &Profile{Name: "tls-server", Exts: []PExt{{Ext: Ext{Kind: "custom", Oid: "1.2.3.4.2", Raw: "!empty", Crit: -1}}}}
			w := plainSub(1)
			w.Profile = "TLS-SERVER"
			ok := plainSub(2)
			ok.Profile = "tls-server"
			batchP("c19-profile-name-case", plainRoot(), []Cfg{ok, w}, []*Profile{a, b})
		}
		{
			// witness of the recorded finding F29 (an arc of 2^31 and more is written but cannot be read back)
			w := plainSub(0)
			w.Exts = []Ext{{Kind: "custom", Oid: "1.2.3.4294967296", Raw: "!null", Crit: -1}}
			batch("c19-f29-witness", plainRoot(), []Cfg{w})
		}
		{
			// the identifiers of real algorithms as manipulation values: they are written as given (an identifier alone, no parameters
			// added, whatever algorithm it names), inner and outer independently of each other
			var subs []Cfg
			for i, oid := range []string{"1.2.840.113549.1.1.5", "1.2.840.113549.1.1.11", "1.2.840.113549.1.1.12", "1.2.840.113549.1.1.13", "1.2.840.113549.1.1.10",
				"1.2.840.10045.4.3.2", "1.2.840.10045.4.3.4", "1.2.840.113549.1.1.1", "1.2.840.10045.2.1"} {
				a := plainSub(300 + i)
				a.Serial = int64(3000 + i)
				a.Manip.Inner = oid
				b := plainSub(320 + i)
				b.Serial = int64(3200 + i)
				b.Manip.Outer = oid
				c := plainSub(340 + i)
				c.Serial = int64(3400 + i)
				c.Manip.PkAlg = oid
				subs = append(subs, a, b, c)
			}
			batch("c19-real-oids", plainRoot(), subs)
			rsaRoot := plainRoot()
			rsaRoot.KeyAlg, rsaRoot.SigAlg = "RSA-2048", "RSAwithSHA256"
			batch("c19-real-oids-rsa", rsaRoot, subs[:12])
		}
		vals := Manip{Outer: "1.2.3.4", SigValue: "!binary:AQIDBA==", Inner: "1.2.3.11", PkAlg: "1.5.1.3", Pk: "!binary:BAECAwQ="}
		three := int64(3)
		for _, rootToo := range []bool{false, true} {
			var subs []Cfg
			for m := 0; m < 64; m++ {
				s := plainSub(m)
				s.Serial = int64(1000 + m)
				s.Exts = []Ext{{Kind: "ski", Crit: -1, HasContent: true, Str: "hash"}, {Kind: "aki", Crit: -1, HasContent: true, Str: "hash"}}
				if m&1 != 0 {
					s.Manip.Version = &three
				}
				if m&2 != 0 {
					s.Manip.Outer = vals.Outer
				}
				if m&4 != 0 {
					s.Manip.SigValue = vals.SigValue
				}
				if m&8 != 0 {
					s.Manip.Inner = vals.Inner
				}
				if m&16 != 0 {
					s.Manip.PkAlg = vals.PkAlg
				}
				if m&32 != 0 {
					s.Manip.Pk = vals.Pk
				}
				subs = append(subs, s)
			}
			r := plainRoot()
			if rootToo {
				// the same manipulations on self-signed roots, one hierarchy each
				for m := 1; m < 64; m += 3 {
					rr := subs[m]
					rr.Subject = fmt.Sprintf("CN=manipulated root %d", m)
					rr.SigAlg = "ECDSAwithSHA256"
					batch(fmt.Sprintf("c19-root-%d", m), rr, nil)
				}
				// values that do not convert must be configuration errors
				bad := plainSub(0)
				bad.Manip.Outer = "not.an.oid"
				bad2 := plainSub(1)
				bad2.Manip.Inner = "1.2.99999999999999999999999"
				bad3 := plainSub(2)
				bad3.Manip.Pk = "!binary:%%%"
				batch("c19-bad", r, []Cfg{bad, bad2, bad3})
			} else {
				batch("c19-subsets", r, subs)
			}
		}
	}
}

// witnesses of the recorded findings (known_findings.json); they stay in the stream so that the findings are re-observed on
// every run and a repair shows up as "not reproduced"
// c04Instants hands instants straight to cert.NewCertificateContext, as a run without `from` does with the time of the run: in
// zones with daylight saving, on both passes of the hour the local clocks show twice, at the edges of the skipped hour, with
// fractions of a second and with a monotonic reading.  Both validity times must be the instants handed in, in UTC, and survive
// the DER encoding to the second.  Checked with the standard library alone.
func c04Instants() {
	zones := []string{"UTC", "Europe/Berlin", "America/New_York", "Australia/Sydney", "America/St_Johns", "Pacific/Chatham", "Asia/Tokyo", "Australia/Lord_Howe"}
	total, wrong, first := 0, 0, ""
	check := func(zone string, t time.Time) {
		total++
		na := t.AddDate(5, 0, 0)
		ctx := cert.NewCertificateContext(nil, nil, t, na)
		nb, naGot := ctx.Validity.NotBefore, ctx.Validity.NotAfter
		bad := ""
		if nb.Unix() != t.Unix() || naGot.Unix() != na.Unix() {
			bad = fmt.Sprintf("notBefore %s / notAfter %s", nb.Format(time.RFC3339), naGot.Format(time.RFC3339))
		} else if _, off := nb.Zone(); off != 0 {
			bad = "validity kept in a zone other than UTC"
		} else if der, err := asn1.Marshal(ctx.Validity); err != nil {
			bad = "validity does not encode: " + err.Error()
		} else {
			var back struct{ NotBefore, NotAfter time.Time }
			if _, err := asn1.Unmarshal(der, &back); err != nil || back.NotBefore.Unix() != t.Unix() || back.NotAfter.Unix() != na.Unix() {
				bad = fmt.Sprintf("encoded validity reads back as %s / %s", back.NotBefore.UTC().Format(time.RFC3339), back.NotAfter.UTC().Format(time.RFC3339))
			}
		}
		if bad != "" {
			wrong++
			if first == "" {
				first = fmt.Sprintf("zone %s, instant %s (= %s): %s", zone, t.Format(time.RFC3339Nano), t.UTC().Format(time.RFC3339), bad)
			}
		}
	}
	for _, z := range zones {
		loc, err := time.LoadLocation(z)
		if err != nil {
			fmt.Fprintf(out, "NOTE c04-instants: zone %s not available: %v\n", z, err)
			continue
		}
		for _, year := range []int{2024, 2031, 2049} {
			start := time.Date(year, 1, 1, 0, 0, 0, 0, time.UTC)
			_, prev := start.In(loc).Zone()
			for h := 1; h < 366*24; h++ {
				t := start.Add(time.Duration(h) * time.Hour)
				if _, off := t.In(loc).Zone(); off != prev {
					prev = off
					// every quarter of an hour from three hours before the change to three hours after it
					for q := -12; q <= 12; q++ {
						u := t.Add(time.Duration(q) * 15 * time.Minute)
						check(z, u.In(loc))
						check(z, u.Add(123456789*time.Nanosecond).In(loc))
					}
				}
			}
			check(z, time.Date(year, 6, 15, 12, 0, 0, 999999999, loc))
		}
		check(z, time.Now().In(loc))
	}
	check("Local", time.Now())
	if wrong > 0 {
		fmt.Fprintf(out, "SELFFAIL c04-instants: %d of %d instants handed to NewCertificateContext are not the validity times it records (first: %s)\n", wrong, total, first)
	}
	fmt.Fprintf(out, "NOTE c04-instants: %d instants around every offset change of %d zones in 2024, 2031 and 2049, %d wrong\n", total, len(zones), wrong)
}

func knownWitnesses() {
	s1 := plainSub(1)
	s1.Exts = []Ext{{Kind: "bc", Crit: 1, HasContent: true, HasCa: true, Ca: true, HasPl: true, PathLen: 0}}
	s2 := plainSub(2)
	s2.Exts = []Ext{{Kind: "cp", Crit: -1, HasContent: true, Pols: []Policy{{Oid: "1.2.3.4", HasQuals: true, Quals: []Qualifier{{Notice: &UserNotice{}}}}}}}
	batch("c07-known-findings", plainRoot(), []Cfg{s1, s2})
}
