package main

// Generators for the certificate-level stream.  One PRNG (seeded from VERIF_SEED); every stream first emits its
// exhaustive / boundary part and then random structured cases.  "focus" selects what a property needs most.

import (
	"encoding/base64"
	"fmt"
	"math/rand"
	"strings"
	"sync"

	"github.com/wokdav/gopki/generator/config"
)

func init() {
	for _, f := range []string{"c02", "c03", "c04", "c05", "c06", "c07", "c08", "c16", "c19"} {
		f := f
		streams["cert-"+f] = func() { streamCert(f) }
	}
}

type gen struct {
	r     *rand.Rand
	focus string
}

func (g *gen) pick(l ...string) string { return l[g.r.Intn(len(l))] }
func (g *gen) chance(pct int) bool     { return g.r.Intn(100) < pct }
func (g *gen) bytesN(n int) []byte {
	b := make([]byte, n)
	g.r.Read(b)
	return b
}
func binary(b []byte) string { return "!binary:" + base64.StdEncoding.EncodeToString(b) }

var ecKeys = []string{"P-224", "P-256", "P-384", "P-521", "brainpoolP256r1", "brainpoolP384r1", "brainpoolP512r1", "brainpoolP256t1", "brainpoolP384t1", "brainpoolP512t1"}
var allKeys = append(append([]string{}, ecKeys...), "RSA-1024", "RSA-2048", "RSA-4096", "RSA-8192")
var ecSigs = []string{"ECDSAwithSHA1", "ECDSAwithSHA256", "ECDSAwithSHA384", "ECDSAwithSHA512"}
var rsaSigs = []string{"RSAwithSHA1", "RSAwithSHA256", "RSAwithSHA384", "RSAwithSHA512"}
var allSigs = append(append([]string{}, rsaSigs...), ecSigs...)
var kuFlags = []string{"digitalSignature", "nonRepudiation", "keyEncipherment", "dataEncipherment", "keyAgreement", "keyCertSign", "crlSign"}
var ekuNames = []string{"serverAuth", "clientAuth", "codeSigning", "emailProtection", "timeStamping", "OCSPSigning"}
var attrKeys = []string{"CN", "O", "OU", "C", "L", "ST", "STREET", "POSTALCODE", "SERIALNUMBER", "1.2.3.4", "2.5.4.99", "0.9.2342.19200300.100.1.25"}
var attrVals = []string{"x", " ", "Smith\\, John", "a\\,b", "Müller\\,  Söhne GmbH", "Acme Ltd.", "Grüße", "日本語", "O'Neil (x)", "a_b@c", "A*B", "A&B", "with  two spaces", "semi;colon", "plus+slash/", "emoji 😀", "q?:.-", "1234",
	// RFC 4514 hex form: a PrintableString TLV is taken as that string, anything else is carried as octets (not spliced in)
	"#130568656c6c6f", "#0c0568656c6c6f", "#4D7943657274", "#0c810568656c6c6f", "#0c0568656c6c6f00", "#3003020101", "#04023031", "#ff"}

func (g *gen) crit() int { return g.r.Intn(3) - 1 }

func (g *gen) value() string {
	v := attrVals[g.r.Intn(len(attrVals))]
	switch g.r.Intn(12) {
	case 0:
		v = strings.Repeat("a", g.pickInt(126, 127, 128, 129, 130, 200, 255, 256, 257))
	case 1:
		v = strings.Repeat("ü", g.pickInt(63, 64, 65, 127, 128))
	}
	return v
}
func (g *gen) pickInt(l ...int) int { return l[g.r.Intn(len(l))] }

// subject in the documented grammar; also returns the attribute keys in written order
func (g *gen) subject(n int) (string, []string) {
	var parts, keys []string
	for i := 0; i < n; i++ {
		k := attrKeys[g.r.Intn(len(attrKeys))]
		keys = append(keys, k)
		sep := "="
		parts = append(parts, k+sep+g.value())
	}
	return strings.Join(parts, g.pick(", ", ",", ", ", " , ")), keys
}

func (g *gen) rawPayloadLen() int {
	if g.chance(50) {
		return g.pickInt(1, 2, 3, 4, 5, 47, 48, 49, 127, 128, 255, 256, 300, 766, 767, 768, 769, 770, 1023, 1024, 1025, 1500)
	}
	return 1 + g.r.Intn(1100)
}

func (g *gen) raw() string {
	switch g.r.Intn(6) {
	case 0:
		return "!null"
	case 1:
		return "!empty"
	}
	return binary(g.bytesN(g.rawPayloadLen()))
}

func (g *gen) oid() string {
	if g.chance(7) {
		// arcs around what an int can hold: the largest fits, the next ones must be refused (not wrapped, not dropped)
		return fmt.Sprintf("1.2.3.%s.5", g.pick("9223372036854775807", "9223372036854775808", "18446744073709551615", "18446744073709551616", "4294967296", "2147483648"))
	}
	if g.chance(6) {
		// arcs written with leading zeros are decimal numbers like any other (010 is ten, 08 is eight)
		return fmt.Sprintf("1.2.%s.%s", g.pick("010", "0064", "08", "019", "007", "00"), g.pick("4", "0017", "09"))
	}
	switch g.r.Intn(4) {
	case 0:
		return fmt.Sprintf("1.2.%d.%d", g.r.Intn(300), g.r.Int63n(1<<40))
	case 1:
		return fmt.Sprintf("2.%d.%d", g.r.Intn(1000), g.r.Int63())
	case 2:
		return fmt.Sprintf("0.%d.127.128.16383.16384", g.r.Intn(40))
	}
	return fmt.Sprintf("1.3.6.1.4.1.%d", g.r.Intn(1<<31))
}

func (g *gen) generalName(kinds ...string) [2]string {
	t := kinds[g.r.Intn(len(kinds))]
	if g.chance(3) {
		return [2]string{"-", "typeless.example"} // an entry without a "type" key
	}
	// values that are the zero value of their Go type (all-zero address, empty text) are names like any other
	if g.chance(12) {
		if t == "ip" {
			// zero-padded octets are decimal as well
			return [2]string{t, g.pick("0.0.0.0", "0.0.0.1", "1.0.0.0", "255.255.255.255", "192.168.010.001", "010.008.019.077", "000.001.002.003")}
		}
		if g.chance(40) {
			return [2]string{t, ""}
		}
	}
	switch t {
	case "mail":
		return [2]string{t, g.pick("a@b.example", "very.long.local.part+tag@sub.example.org", "x@y")}
	case "dns":
		return [2]string{t, strings.Repeat("x", g.pickInt(1, 5, 120, 130)) + ".example"}
	case "ip":
		return [2]string{t, fmt.Sprintf("%d.%d.%d.%d", g.r.Intn(256), g.r.Intn(256), g.r.Intn(256), g.r.Intn(256))}
	case "url":
		return [2]string{t, "http://auth.example/" + strings.Repeat("p", g.r.Intn(20))}
	}
	return [2]string{t, "x"}
}

func (g *gen) naming() *Naming {
	n := &Naming{}
	if g.chance(55) {
		n.Oid = g.oid()
	}
	if g.chance(55) {
		n.Url = "http://na.example/" + g.pick("", "a", "long/path/x")
	}
	if g.chance(55) {
		n.Text = g.pick("NA", "Nämensgeber", "Ärztekammer")
	}
	return n
}

func (g *gen) admission() *Admission {
	a := &Admission{}
	if g.chance(60) {
		gn := g.generalName("dns", "mail", "url", "ip")
		a.Auth = &gn
	}
	for i, n := 0, 1+g.r.Intn(3); i < n; i++ {
		ad := Admissions{}
		if g.chance(50) {
			gn := g.generalName("dns", "mail", "url", "ip")
			ad.Auth = &gn
		}
		if g.chance(55) {
			ad.Naming = g.naming()
		}
		for j, k := 0, g.r.Intn(4); j < k; j++ {
			pi := ProfInfo{}
			if g.chance(45) {
				pi.Naming = g.naming()
			}
			for x, y := 0, g.r.Intn(4); x < y; x++ {
				pi.Items = append(pi.Items, g.pick("Arzt", "Ärztin", "Apotheker", "X"))
			}
			if g.chance(45) {
				pi.Oids = []string{}
				for x, y := 0, g.r.Intn(4); x < y; x++ {
					pi.Oids = append(pi.Oids, fmt.Sprintf("1.2.276.0.76.4.%d", g.r.Intn(300)))
				}
			}
			if g.chance(45) {
				pi.RegNum = g.pick("1-2-3", "REG 4711", "A/B.C")
			}
			if g.chance(45) {
				pi.AddInfo = g.pick("!binary:AQID", "!null", "!empty", binary(g.bytesN(1+g.r.Intn(40))))
			}
			ad.Infos = append(ad.Infos, pi)
		}
		a.List = append(a.List, ad)
	}
	return a
}

func (g *gen) policy() Policy {
	p := Policy{Oid: g.oid()}
	if g.chance(60) {
		p.HasQuals = true
		for i, n := 0, g.pickInt(0, 1, 1, 2, 3); i < n; i++ {
			if g.chance(50) {
				p.Quals = append(p.Quals, Qualifier{Cps: "http://cps.example/" + strings.Repeat("p", g.pickInt(0, 1, 100, 200))})
			} else {
				un := &UserNotice{}
				if g.chance(60) {
					un.Org = g.pick("Org", "Örg")
				}
				if g.chance(60) {
					un.HasNums = true
					for x, y := 0, g.r.Intn(4); x < y; x++ {
						un.Numbers = append(un.Numbers, int64(g.pickInt(0, 1, 127, 128, 255, 256, 70000)))
					}
				}
				if g.chance(60) {
					un.Text = g.pick("hello", "grüß dich")
				}
				if un.Org == "" && !un.HasNums && un.Text == "" {
					un.Text = "t" // the empty notice is a recorded finding (F22), not generated here
				}
				p.Quals = append(p.Quals, Qualifier{Notice: un})
			}
		}
	}
	return p
}

func (g *gen) ext(kinds ...string) Ext {
	k := kinds[g.r.Intn(len(kinds))]
	e := Ext{Kind: k, Crit: g.crit(), HasContent: true}
	if k != "custom" && k != "ocsp" && g.chance(12) {
		e.HasContent = false
		e.Raw = g.raw()
		return e
	}
	switch k {
	case "ski":
		e.Str = "hash"
		if g.chance(15) {
			e.Str = binary(g.bytesN(1 + g.r.Intn(30)))
		}
	case "ku":
		for _, f := range kuFlags {
			if g.chance(40) {
				e.List = append(e.List, f)
			}
		}
		g.r.Shuffle(len(e.List), func(i, j int) { e.List[i], e.List[j] = e.List[j], e.List[i] })
	case "san":
		for i, n := 0, g.r.Intn(5); i < n; i++ {
			e.Names = append(e.Names, g.generalName("mail", "dns", "ip"))
		}
	case "bc":
		if g.chance(75) {
			e.HasCa, e.Ca = true, g.chance(60)
		}
		if g.chance(70) {
			e.HasPl = true
			e.PathLen = int64(g.pickInt(1, 2, 3, 127, 128, 255, 256, 70000))
		}
	case "cp":
		for i, n := 0, 1+g.r.Intn(3); i < n; i++ {
			e.Pols = append(e.Pols, g.policy())
		}
	case "aia":
		for i, n := 0, g.r.Intn(4); i < n; i++ {
			e.List = append(e.List, fmt.Sprintf("http://ocsp%d.example/%s", i, strings.Repeat("q", g.r.Intn(5))))
		}
	case "aki":
		e.Str = "hash"
		if g.chance(40) {
			e.Str = binary(g.bytesN(g.pickInt(1, 2, 20, 32, 64)))
		}
	case "eku":
		for i, n := 0, g.r.Intn(5); i < n; i++ {
			if g.chance(70) {
				e.List = append(e.List, ekuNames[g.r.Intn(len(ekuNames))])
			} else {
				e.List = append(e.List, g.oid())
			}
		}
	case "adm":
		e.Adm = g.admission()
	case "ocsp":
		e.HasContent = false
		if g.chance(15) {
			e.Raw = g.raw()
		}
	case "custom":
		e.HasContent = false
		e.Oid = g.pick("1.2.3."+fmt.Sprint(g.r.Intn(100000)), "2.5.29.15", "2.5.29.17", g.oid())
		e.Raw = g.raw()
	}
	return e
}

var allKinds = []string{"ski", "ku", "san", "bc", "cp", "aia", "aki", "eku", "adm", "ocsp", "custom"}

func (g *gen) validity() Validity {
	years := []int{1950, 1951, 1999, 2000, 2024, 2030, 2049, 2050, 2051, 2100, 2199, 2200}
	date := func() string {
		y := years[g.r.Intn(len(years))]
		m := 1 + g.r.Intn(12)
		d := 1 + g.r.Intn(daysIn(y, m))
		if g.chance(15) {
			m, d = 2, daysIn(y, 2)
		}
		if g.chance(10) {
			d = daysIn(y, m)
		}
		return fmt.Sprintf("%04d-%02d-%02d", y, m, d)
	}
	durs := []string{"5y", "1y2m3d", "13m", "400d", "1m31d", "0d", "1y", "1m", "1d", "1y1m", "2y6m10d", "12m", "36m", "10y11m30d", "366d", "1y1d", "4y1m", "99y", "0y0m1d", "11m30d"}
	switch g.r.Intn(7) {
	case 0:
		return Validity{}
	case 1:
		return Validity{From: date(), Until: date()}
	case 2:
		return Validity{From: date(), Duration: durs[g.r.Intn(len(durs))]}
	case 3:
		return Validity{Duration: durs[g.r.Intn(len(durs))]}
	case 4:
		return Validity{Until: date()}
	case 5:
		return Validity{From: date()}
	}
	// leap-day starts with carries
	return Validity{From: g.pick("2024-02-29", "2000-02-29", "2096-02-29", "2023-01-31", "2024-01-31", "2049-12-31", "2024-10-31", "2024-08-31"), Duration: durs[g.r.Intn(len(durs))]}
}

func daysIn(y, m int) int {
	switch m {
	case 2:
		if y%4 == 0 && (y%100 != 0 || y%400 == 0) {
			return 29
		}
		return 28
	case 4, 6, 9, 11:
		return 30
	}
	return 31
}

func (g *gen) keyAlg() string {
	switch g.focus {
	case "c05":
		k := allKeys[g.r.Intn(len(allKeys))]
		if k == "RSA-8192" || k == "RSA-4096" || (k == "RSA-2048" && !thorough() && g.chance(80)) {
			k = "RSA-1024" // the big moduli are covered once each by the exhaustive part
		}
		return k
	}
	if g.chance(12) {
		return "RSA-1024"
	}
	if g.chance(8) {
		return ""
	}
	return ecKeys[g.r.Intn(len(ecKeys))]
}

func fitting(g *gen, signerKey string) string {
	if strings.HasPrefix(signerKey, "RSA") {
		return rsaSigs[g.r.Intn(4)]
	}
	return ecSigs[g.r.Intn(4)]
}

func (g *gen) manip() Manip {
	m := Manip{}
	if g.chance(50) {
		v := int64(g.pickInt(0, 1, 2, 3, -1, 127, 128, 70000))
		m.Version = &v
	}
	if g.chance(50) {
		m.Outer = g.pick("1.2.3.4", "1.2.840.113549.1.1.11", "1.2.840.10045.4.3.2", g.oid())
	}
	if g.chance(50) {
		m.SigValue = g.pick("!binary:AQIDBA==", "!empty", "!null", binary(g.bytesN(1+g.r.Intn(80))))
	}
	if g.chance(50) {
		m.Inner = g.pick("1.2.3.11", "1.2.840.113549.1.1.5", g.oid())
	}
	if g.chance(50) {
		m.PkAlg = g.pick("1.5.1.3", "1.2.840.10045.2.1", g.oid())
	}
	if g.chance(50) {
		m.Pk = g.pick("!binary:AQIDBA==", "!empty", binary(g.bytesN(1+g.r.Intn(100))))
	}
	return m
}

// a profile for [c]: mostly satisfiable; extension entries partly copied from the certificate's own list
func (g *gen) profileFor(name string, c *Cfg, keys []string) *Profile {
	p := &Profile{Name: name}
	if g.chance(50) {
		p.Validity = g.validity()
	}
	if g.chance(60) {
		p.HasAttrs = true
		// the subject's keys in order, with extra optional entries interleaved; sometimes damaged
		// (the profile schema admits only these names; PC, DC, T, UID, MAIL pass the schema but are unknown to the attribute table)
		schemaNames := map[string]bool{"C": true, "CN": true, "ST": true, "L": true, "STREET": true, "O": true, "OU": true, "SERIALNUMBER": true}
		for _, k := range keys {
			if g.chance(25) {
				p.Attrs = append(p.Attrs, PAttr{Name: g.pick("C", "CN", "ST", "L", "STREET", "O", "OU", "SERIALNUMBER"), Optional: true})
			}
			if schemaNames[k] {
				p.Attrs = append(p.Attrs, PAttr{Name: k, Optional: g.chance(30)})
			}
		}
		if g.chance(12) {
			p.Attrs = append(p.Attrs, PAttr{Name: g.pick("CN", "O", "DC", "UID", "PC"), Optional: g.chance(50)})
		}
		if len(p.Attrs) == 0 { // the schema demands at least one entry
			p.Attrs = append(p.Attrs, PAttr{Name: g.pick("CN", "O", "C"), Optional: g.chance(70)})
		}
		if g.chance(8) && len(p.Attrs) > 1 {
			p.Attrs[0], p.Attrs[1] = p.Attrs[1], p.Attrs[0]
		}
		p.AllowOther = g.chance(25)
	}
	for i, n := 0, g.r.Intn(4); i < n; i++ {
		pe := PExt{Optional: g.chance(40), Override: g.chance(40)}
		switch {
		case len(c.Exts) > 0 && g.chance(35):
			pe.Ext = c.Exts[g.r.Intn(len(c.Exts))] // identical to a certificate extension
		case len(c.Exts) > 0 && g.chance(50):
			// same kind as a certificate extension, different content
			k := c.Exts[g.r.Intn(len(c.Exts))].Kind
			pe.Ext = g.ext(k)
		default:
			pe.Ext = g.ext("ski", "ku", "bc", "eku", "aia", "san", "custom", "ocsp")
		}
		if g.chance(15) || (g.focus == "c08" && g.chance(30)) { // content-less profile entry (legal in a profile)
			pe.Ext = Ext{Kind: g.pick("san", "ku", "bc", "eku"), Crit: -1}
			if len(c.Exts) > 0 && g.chance(60) {
				pe.Ext.Kind = c.Exts[g.r.Intn(len(c.Exts))].Kind
				if pe.Ext.Kind == "custom" || pe.Ext.Kind == "ocsp" {
					pe.Ext.Kind = "ku"
				}
			}
		}
		p.Exts = append(p.Exts, pe)
	}
	return p
}

func (g *gen) cfg(name string) (Cfg, []string) {
	n := 1 + g.r.Intn(4)
	if g.focus == "c03" {
		n = 1 + g.r.Intn(8)
	}
	subj, keys := g.subject(n)
	c := Cfg{Subject: subj, KeyAlg: g.keyAlg()}
	if g.chance(35) {
		c.Serial = []int64{1, 127, 128, 255, 256, 32767, 32768, 1<<63 - 1, 1 << 62, 4294967296, 9007199254740993, 1234567890123456789, 9223372036854775296}[g.r.Intn(13)]
	} else if g.chance(5) {
		// beyond what the configuration's integer type holds: must be refused, not wrapped
		c.SerialBig = g.pick("9223372036854775808", "18446744073709551615", "18446744073709551616", "340282366920938463463374607431768211456")
	}
	if g.chance(25) {
		c.IssuerUID = g.pick("!empty", "!null", "!binary:AQIDBA==", binary(g.bytesN(g.r.Intn(300)+1)))
	}
	if g.chance(25) {
		c.SubjectUID = g.pick("!empty", "!binary:/w==", binary(g.bytesN(g.r.Intn(300)+1)))
	}
	if g.chance(60) || g.focus == "c04" {
		c.Validity = g.validity()
	}
	kinds := allKinds
	maxExt := 5
	switch g.focus {
	case "c06":
		maxExt = 12
	case "c07":
		kinds = []string{"ski", "ku", "san", "bc", "cp", "aia", "aki", "eku", "ocsp"}
	case "c16":
		kinds = []string{"adm", "adm", "adm", "ku"}
		maxExt = 3
	case "c03", "c04", "c05":
		maxExt = 2
	}
	for i, k := 0, g.r.Intn(maxExt+1); i < k; i++ {
		c.Exts = append(c.Exts, g.ext(kinds...))
	}
	if g.focus == "c19" && g.chance(85) {
		c.Manip = g.manip()
	} else if g.chance(4) {
		v := int64(g.pickInt(0, 1, 3))
		c.Manip.Version = &v
	}
	return c, keys
}

func (g *gen) hierarchy(i int) ([]entity, []*Profile) {
	root, rk := g.cfg("root")
	sub, sk := g.cfg("sub")
	sub.Issuer = "root"
	// signature algorithms: mostly fitting the signer, sometimes omitted, sometimes deliberately wrong
	switch {
	case g.chance(80):
		root.SigAlg = fitting(g, root.KeyAlg)
	case g.chance(50):
		root.SigAlg = ""
	default:
		root.SigAlg = allSigs[g.r.Intn(8)]
	}
	switch {
	case g.chance(80):
		sub.SigAlg = fitting(g, root.KeyAlg)
	case g.chance(50):
		sub.SigAlg = ""
	default:
		sub.SigAlg = allSigs[g.r.Intn(8)]
	}
	var profiles []*Profile
	ents := []entity{{name: "root", cfg: root, json: g.chance(25)}, {name: "sub", cfg: sub, json: g.chance(25)}}
	pchance := 35
	if g.focus == "c03" || g.focus == "c06" || g.focus == "c04" {
		pchance = 60
	}
	if g.focus == "c08" {
		pchance = 100
	}
	if g.chance(pchance) {
		p := g.profileFor("psub", &ents[1].cfg, sk)
		ents[1].cfg.Profile, ents[1].profile = "psub", p
		profiles = append(profiles, p)
	}
	if len(profiles) == 1 && g.chance(6) {
		// two profiles whose names differ only in capitalisation, and a reference spelled in a third way
		twin := *profiles[0]
		twin.Name = "PSub"
		twin.Exts = append([]PExt{{Ext: Ext{Kind: "custom", Oid: "1.2.3.4.5.6.7", Raw: "!null", Crit: -1}}}, twin.Exts...)
		profiles = append(profiles, &twin)
		ents[1].cfg.Profile, ents[1].dangling = "PSUB", true
	}
	if g.chance(pchance / 2) {
		p := g.profileFor("proot", &ents[0].cfg, rk)
		ents[0].cfg.Profile, ents[0].profile = "proot", p
		profiles = append(profiles, p)
	}
	return ents, profiles
}

func streamCert(focus string) {
	g := &gen{r: rand.New(rand.NewSource(seed*7919 + int64(len(focus))*31 + int64(focus[2]))), focus: focus}
	n := 110
	if thorough() {
		n = 1500
	}
	exhaustiveCert(g)
	if focus == "c16" {
		concurrentAdmissions(g)
	}
	for i := 0; i < n; i++ {
		ents, profs := g.hierarchy(i)
		runHierarchy(fmt.Sprintf("%s-%d-%d", focus, seed, i), ents, profs)
		if focus == "c08" {
			apiMode = true
			runHierarchy(fmt.Sprintf("%s-%d-%d-api", focus, seed, i), ents, profs)
			apiMode = false
		}
	}
}

// The admission encoder under concurrent use of the library (several certificates built at once in one process): every
// extension built while others are being built is byte for byte the extension the same configuration yields when built alone.
func concurrentAdmissions(g *gen) {
	build := func(text string) (string, error) {
		v, err := config.ParseConfig(strings.NewReader(text))
		if err != nil {
			return "", err
		}
		cc, ok := v.(*config.CertificateContent)
		if !ok {
			return "", fmt.Errorf("not a certificate configuration")
		}
		var sb strings.Builder
		for _, x := range cc.Extensions {
			b, err := x.Builder()
			if err != nil {
				return "", err
			}
			e, err := b.Compile(nil)
			if err != nil {
				return "", err
			}
			fmt.Fprintf(&sb, "%v|%v|%x;", e.Id, e.Critical, e.Value)
		}
		return sb.String(), nil
	}
	var texts, want []string
	for len(texts) < 16 {
		e := g.ext("adm")
		if !e.HasContent {
			continue
		}
		c := Cfg{Subject: "CN=concurrent", Exts: []Ext{e}}
		t := yamlOf(c.tree())
		w, err := build(t)
		if err != nil {
			continue // (string-type violations and the like: not what this part is about)
		}
		texts, want = append(texts, t), append(want, w)
	}
	rounds := 250
	if thorough() {
		rounds = 4000
	}
	var mu sync.Mutex
	wrong, total, first := 0, 0, ""
	var wg sync.WaitGroup
	for w := 0; w < 16; w++ {
		wg.Add(1)
		go func(w int) {
			defer wg.Done()
			defer func() {
				if r := recover(); r != nil {
					mu.Lock()
					wrong++
					if first == "" {
						first = fmt.Sprint("panic: ", r)
					}
					mu.Unlock()
				}
			}()
			for r := 0; r < rounds; r++ {
				i := (w + r) % len(texts)
				got, err := build(texts[i])
				mu.Lock()
				total++
				if err != nil || got != want[i] {
					wrong++
					if first == "" {
						first = fmt.Sprintf("configuration %d: %v", i, err)
					}
				}
				mu.Unlock()
			}
		}(w)
	}
	wg.Wait()
	if wrong > 0 {
		fmt.Fprintf(out, "SELFFAIL c16-concurrent: %d of %d admission extensions built while others were being built differ from the same extension built alone (first: %s)\n", wrong, total, first)
	}
	fmt.Fprintf(out, "NOTE c16-concurrent: %d admission extensions built in 16 goroutines, %d differ\n", total, wrong)
}
