package main

// Certificate-level stream: small hierarchies (root, subordinate, optional profiles) are written as config files
// into an in-memory directory, the real Open / PlanBulkUpdate / BulkUpdate produce the artifacts, and for every
// entity one case is emitted: the structured configuration, the observed random material (serial, public key,
// signature, time), the SHA-1 transcript and the certificate bytes (or the fact that none was produced).
// Independent checks done here with the Go standard library (never gopki code): signature verification over the
// raw TBS bytes, issuer/subject DN bytes, SHA-1 key identifiers, key size.  Their failures are SELFFAIL lines.

import (
	"bytes"
	"crypto"
	"crypto/ecdsa"
	"crypto/elliptic"
	"crypto/rsa"
	"crypto/sha1"
	"crypto/sha256"
	"crypto/sha512"
	"crypto/x509"
	"encoding/asn1"
	"encoding/pem"
	"fmt"
	"io/fs"
	"math/big"
	"os"
	"regexp"
	"strings"
	"testing/fstest"
	"time"

	"github.com/keybase/go-crypto/brainpool"
	"github.com/wokdav/gopki/generator/config"
	"github.com/wokdav/gopki/generator/db"
	"github.com/wokdav/gopki/generator/db/filesystem"
	"github.com/wokdav/gopki/logging"
)

type entity struct {
	name     string
	cfg      Cfg
	profile  *Profile
	json     bool   // write as .json instead of .yaml
	artifact []byte // pre-existing artifact file (an imported issuer): the entity itself is not generated and yields no case
	keyfile  []byte // pre-existing artifact file that holds only a private key: the certificate is generated for that key
	keyPoint []byte // the public point of that key (04 || X || Y, fixed width), computed by the harness
	dangling bool   // the configuration names a profile no file defines (only look-alikes in other capitalisation exist): must be refused
}

// a dotted object identifier with an arc of at least 2^31 (ten digits and more; 2147483648 is the smallest)
var bigArc = regexp.MustCompile(`[0-9]\.(2147483(6(4[89]|[5-9][0-9])|[7-9][0-9]{2})|21474[89][0-9]{5}|2147[5-9][0-9]{6}|214[89][0-9]{7}|21[5-9][0-9]{8}|2[2-9][0-9]{9}|[3-9][0-9]{9}|[0-9]{11,})([^0-9]|$)`)

// zone offset (seconds east) of local midnight of a YYYY-MM-DD date, 0 when the text is not such a date
func localOffsetOf(date string) int64 {
	off, _ := localOffset(date)
	return off
}

// The offset with which Go turns local midnight of that date into an instant: wall clock minus instant.  (Not the zone in force
// AT that instant: when midnight falls into the gap of a daylight-saving transition - Tokyo, 7 May 1950 - the two differ.)
func localOffset(date string) (int64, bool) {
	t, err := time.ParseInLocation("2006-01-02", date, time.Local)
	if err != nil {
		return 0, false
	}
	u, _ := time.Parse("2006-01-02", date)
	return int64(u.Sub(t) / time.Second), true
}

// the validity block that applies: the entity's own, else its profile's
func effValidity(e entity) Validity {
	if e.cfg.Validity.From != "" || e.cfg.Validity.Until != "" || e.cfg.Validity.Duration != "" || e.profile == nil {
		return e.cfg.Validity
	}
	return e.profile.Validity
}

// the hierarchy is built through the library calls AddProfile / AddAndSign on an empty database instead of from files
var apiMode bool

type rawCert struct {
	TBS    asn1.RawValue
	Alg    asn1.RawValue
	SigVal asn1.BitString
}

type observed struct {
	der      []byte
	tbs      []byte
	serial   *big.Int
	issuer   []byte
	subject  []byte
	nb, na   time.Time
	spki     []byte
	spkiBits []byte
	sig      []byte
	outerAlg []byte
	exts     []byte
}

func splitTLV(b []byte) (asn1.RawValue, []byte, error) {
	var rv asn1.RawValue
	rest, err := asn1.Unmarshal(b, &rv)
	return rv, rest, err
}

func children(b []byte) ([]asn1.RawValue, error) {
	var out []asn1.RawValue
	for len(b) > 0 {
		rv, rest, err := splitTLV(b)
		if err != nil {
			return nil, err
		}
		out = append(out, rv)
		b = rest
	}
	return out, nil
}

func parseTime(rv asn1.RawValue) (time.Time, error) {
	s := string(rv.Bytes)
	if rv.Tag == 23 {
		t, err := time.Parse("060102150405Z", s)
		if err != nil {
			return t, err
		}
		if t.Year() >= 2050 {
			t = t.AddDate(-100, 0, 0)
		}
		return t, nil
	}
	return time.Parse("20060102150405Z", s)
}

func observe(der []byte) (*observed, error) {
	o := &observed{der: der}
	var rc rawCert
	if _, err := asn1.Unmarshal(der, &rc); err != nil {
		return nil, err
	}
	o.tbs = rc.TBS.FullBytes
	o.sig = rc.SigVal.Bytes
	o.outerAlg = rc.Alg.FullBytes
	ch, err := children(rc.TBS.Bytes)
	if err != nil || len(ch) < 6 {
		return nil, fmt.Errorf("tbs: %v", err)
	}
	i := 0
	if ch[0].Class == 2 && ch[0].Tag == 0 {
		i = 1
	}
	if len(ch) < i+6 {
		return nil, fmt.Errorf("tbs too short")
	}
	o.serial = new(big.Int)
	if _, err := asn1.Unmarshal(ch[i].FullBytes, &o.serial); err != nil {
		return nil, err
	}
	o.issuer = ch[i+2].FullBytes
	val, err := children(ch[i+3].Bytes)
	if err != nil || len(val) != 2 {
		return nil, fmt.Errorf("validity")
	}
	if o.nb, err = parseTime(val[0]); err != nil {
		return nil, err
	}
	if o.na, err = parseTime(val[1]); err != nil {
		return nil, err
	}
	o.subject = ch[i+4].FullBytes
	o.spki = ch[i+5].FullBytes
	sp, err := children(ch[i+5].Bytes)
	if err != nil || len(sp) != 2 || len(sp[1].Bytes) < 1 {
		return nil, fmt.Errorf("spki")
	}
	o.spkiBits = sp[1].Bytes[1:]
	for _, c := range ch[i+6:] {
		if c.Class == 2 && c.Tag == 3 {
			o.exts = c.Bytes
		}
	}
	return o, nil
}

func pemBlocks(data []byte) map[string][]byte {
	m := map[string][]byte{}
	for {
		var p *pem.Block
		p, data = pem.Decode(data)
		if p == nil {
			return m
		}
		if _, ok := m[p.Type]; !ok {
			m[p.Type] = p.Bytes
		}
	}
}

func hashFor(alg string) crypto.Hash {
	switch {
	case strings.HasSuffix(alg, "SHA1"):
		return crypto.SHA1
	case strings.HasSuffix(alg, "SHA384"):
		return crypto.SHA384
	case strings.HasSuffix(alg, "SHA512"):
		return crypto.SHA512
	}
	return crypto.SHA256
}

func digest(h crypto.Hash, b []byte) []byte {
	switch h {
	case crypto.SHA1:
		d := sha1.Sum(b)
		return d[:]
	case crypto.SHA384:
		d := sha512.Sum384(b)
		return d[:]
	case crypto.SHA512:
		d := sha512.Sum512(b)
		return d[:]
	}
	d := sha256.Sum256(b)
	return d[:]
}

var curveByName = map[string]elliptic.Curve{"P-224": elliptic.P224(), "P-256": elliptic.P256(), "P-384": elliptic.P384(), "P-521": elliptic.P521(), "": elliptic.P256(),
	"brainpoolP256r1": brainpool.P256r1(), "brainpoolP384r1": brainpool.P384r1(), "brainpoolP512r1": brainpool.P512r1(),
	"brainpoolP256t1": brainpool.P256t1(), "brainpoolP384t1": brainpool.P384t1(), "brainpoolP512t1": brainpool.P512t1()}
var rsaBits = map[string]int{"RSA-1024": 1024, "RSA-2048": 2048, "RSA-4096": 4096, "RSA-8192": 8192}

// public key of the named algorithm from SubjectPublicKey bits; also checks the size the name promises
func pubFromBits(keyAlg string, bits []byte) (crypto.PublicKey, error) {
	if n, ok := rsaBits[keyAlg]; ok || keyAlg == "RSA-*" {
		var pk struct {
			N *big.Int
			E int
		}
		if _, err := asn1.Unmarshal(bits, &pk); err != nil {
			return nil, err
		}
		if keyAlg != "RSA-*" && pk.N.BitLen() != n {
			return nil, fmt.Errorf("modulus has %d bits, configured %s", pk.N.BitLen(), keyAlg)
		}
		return &rsa.PublicKey{N: pk.N, E: pk.E}, nil
	}
	c, ok := curveByName[keyAlg]
	if !ok {
		return nil, fmt.Errorf("unknown key algorithm %q", keyAlg)
	}
	bl := (c.Params().BitSize + 7) / 8
	if len(bits) != 1+2*bl || bits[0] != 4 {
		return nil, fmt.Errorf("point has %d octets, curve %s needs %d", len(bits), keyAlg, 1+2*bl)
	}
	x, y := new(big.Int).SetBytes(bits[1:1+bl]), new(big.Int).SetBytes(bits[1+bl:])
	if !c.IsOnCurve(x, y) {
		return nil, fmt.Errorf("point is not on %s", keyAlg)
	}
	return &ecdsa.PublicKey{Curve: c, X: x, Y: y}, nil
}

func verifySig(pub crypto.PublicKey, sigAlg string, tbs, sig []byte) error {
	h := hashFor(sigAlg)
	d := digest(h, tbs)
	switch k := pub.(type) {
	case *rsa.PublicKey:
		if !strings.HasPrefix(sigAlg, "RSA") {
			return fmt.Errorf("RSA key, algorithm %s", sigAlg)
		}
		return rsa.VerifyPKCS1v15(k, h, d, sig)
	case *ecdsa.PublicKey:
		if !strings.HasPrefix(sigAlg, "ECDSA") {
			return fmt.Errorf("EC key, algorithm %s", sigAlg)
		}
		var rs struct{ R, S *big.Int }
		if _, err := asn1.Unmarshal(sig, &rs); err != nil {
			return err
		}
		if !ecdsa.Verify(k, d, rs.R, rs.S) {
			return fmt.Errorf("ECDSA verification failed")
		}
		return nil
	}
	return fmt.Errorf("unknown key")
}

func effSig(c Cfg) string {
	if c.SigAlg != "" {
		return c.SigAlg
	}
	if strings.HasPrefix(c.KeyAlg, "RSA") {
		return "RSAwithSHA256"
	}
	return "ECDSAwithSHA256"
}

var caseNo int

// runs one hierarchy through the real code and emits a case per entity
func runHierarchy(tag string, ents []entity, profiles []*Profile) int {
	m := fstest.MapFS{".": &fstest.MapFile{Mode: 0777 | fs.ModeDir}}
	t0 := time.Now().Add(-time.Hour)
	put := func(name, text string) { m[name] = &fstest.MapFile{Data: []byte(text), Mode: 0644, ModTime: t0} }
	for i, p := range profiles {
		if apiMode {
			break
		}
		if i%2 == 0 {
			put("profiles/"+p.Name+".yaml", yamlOf(p.tree()))
		} else {
			put("profiles/"+p.Name+".json", jsonText(p.tree()))
		}
	}
	for _, e := range ents {
		if apiMode {
			break
		}
		if e.json {
			put(e.name+".json", jsonText(e.cfg.tree()))
		} else {
			text := yamlOf(e.cfg.tree())
			if len(text)%5 == 0 {
				// the same file as saved by an editor on Windows: CRLF line ends
				text = strings.ReplaceAll(text, "\n", "\r\n")
			} else if len(text)%5 == 1 {
				text = "# written by hand\n\n" + text + "\n\n# end\n" // comments and blank lines
			}
			put(e.name+".yaml", text)
		}
		if e.artifact != nil {
			m[e.name+".pem"] = &fstest.MapFile{Data: e.artifact, Mode: 0644, ModTime: t0.Add(time.Minute)}
		}
		if e.keyfile != nil && !apiMode {
			m[e.name+".pem"] = &fstest.MapFile{Data: e.keyfile, Mode: 0644, ModTime: t0.Add(time.Minute)}
		}
	}
	status := "ok"
	func() {
		defer func() {
			if r := recover(); r != nil {
				status = fmt.Sprint("PANIC ", r)
			}
		}()
		d := filesystem.NewFilesystemDatabase(filesystem.NewMapFs(m))
		if err := d.Open(); err != nil {
			status = "open: " + err.Error()
			return
		}
		if apiMode {
			// the library path: profiles and entities are handed to an empty database one by one (AddProfile, AddAndSign)
			for _, p := range profiles {
				v, err := config.ParseConfig(strings.NewReader(yamlOf(p.tree())))
				if err != nil {
					continue // as with files: a profile that does not parse is skipped; whoever references it fails later
				}
				var pp config.CertificateProfile
				switch t := v.(type) {
				case *config.CertificateProfile:
					pp = *t
				case config.CertificateProfile:
					pp = t
				}
				if err := d.AddProfile(pp); err != nil {
					status = "update: " + err.Error()
					return
				}
			}
			for _, e := range ents {
				v, err := config.ParseConfig(strings.NewReader(yamlOf(e.cfg.tree())))
				if err != nil {
					status = "update: '" + e.name + "' does not parse: " + err.Error()
					return
				}
				cc, ok := v.(*config.CertificateContent)
				if !ok {
					if c2, ok2 := v.(config.CertificateContent); ok2 {
						cc = &c2
					} else {
						status = "update: '" + e.name + "' is not a certificate configuration"
						return
					}
				}
				cc.Alias = e.name
				if _, err := db.AddAndSign(d, *cc, false); err != nil {
					status = "update: '" + e.name + "': " + err.Error()
					return
				}
			}
			return
		}
		plan, err := db.PlanBulkUpdate(d, db.UpdateMissing|db.UpdateChanged)
		if err != nil {
			status = "plan: " + err.Error()
			return
		}
		if _, err = db.BulkUpdate(d, plan); err != nil {
			status = "update: " + err.Error()
		}
	}()
	if status == "ok" && !apiMode {
		// C10 at the byte level: the same flags again, on what the run left behind, find nothing to do - whatever the
		// configurations hold (manipulations, raw extensions, unique ids, profiles, imported issuers)
		func() {
			defer func() {
				if r := recover(); r != nil {
					fmt.Fprintf(out, "SELFFAIL %s: planning a second run panicked: %v\n", tag, r)
				}
			}()
			var why bytes.Buffer
			logging.Initialize(logging.LevelDebug, &why, &why)
			defer logging.Initialize(logging.LevelNone, nil, nil)
			d2 := filesystem.NewFilesystemDatabase(filesystem.NewMapFs(m))
			if err := d2.Open(); err != nil {
				fmt.Fprintf(out, "SELFFAIL %s: the directory the successful run left behind is refused: %v\n", tag, err)
				return
			}
			plan2, err := db.PlanBulkUpdate(d2, db.UpdateMissing|db.UpdateChanged)
			logging.Initialize(logging.LevelNone, nil, nil)
			reason := ""
			for _, l := range strings.Split(why.String(), "\n") {
				if strings.Contains(l, "reason:") || strings.Contains(l, "WARN") || strings.Contains(l, "ERROR") || strings.Contains(l, "rror") || strings.Contains(l, "can.t") {
					reason += " | " + l
				}
			}
			if len(reason) > 600 {
				reason = reason[:600]
			}
			if err != nil {
				fmt.Fprintf(out, "SELFFAIL %s: planning a second run with the same flags fails: %v\n", tag, err)
			} else if len(plan2) > 0 {
				// recorded finding F29: an object identifier arc of 2^31 or more can be written but not read back (Go's asn1 decoder
				// stops at int32), so the artifact counts as missing on every later run
				known := ""
				if strings.Contains(why.String(), "base 128 integer too large") {
					for _, e := range ents {
						if bigArc.MatchString(jsonText(e.cfg.tree())) {
							known = " (F29)"
						}
						if e.profile != nil && bigArc.MatchString(jsonText(e.profile.tree())) {
							known = " (F29)"
						}
					}
				}
				fmt.Fprintf(out, "SELFFAIL %s: a second run with the same flags right after the successful one plans %d change(s), first: %s%s%s\n", tag, len(plan2), plan2[0].Alias, known, reason)
			}
		}()
	}
	if os.Getenv("VERIF_DEBUG") != "" && strings.Contains(status, "unknown profile") {
		for _, p := range profiles {
			debugParse(p.Name, jsonText(p.tree()))
		}
	}
	if strings.HasPrefix(status, "PANIC") {
		fmt.Fprintf(out, "SELFFAIL %s panic in the real code: %s :: %s\n", tag, status, jsonText(ents[len(ents)-1].cfg.tree()))
	}
	obs := map[string]*observed{}
	for _, e := range ents {
		if f, ok := m[e.name+".pem"]; ok {
			if der, ok := pemBlocks(f.Data)["CERTIFICATE"]; ok {
				if o, err := observe(der); err == nil {
					obs[e.name] = o
				} else {
					fmt.Fprintf(out, "SELFFAIL %s certificate of %s is not even a TLV structure: %v\n", tag, e.name, err)
				}
			}
		}
	}
	byName := map[string]entity{}
	for _, e := range ents {
		byName[e.name] = e
	}
	planFailed := strings.HasPrefix(status, "plan:") || strings.HasPrefix(status, "open:")
	firstFailed := -1
	for ei, e := range ents {
		if firstFailed >= 0 && !planFailed {
			break // BulkUpdate stops at the first error: later entities were never attempted
		}
		if e.artifact != nil {
			continue
		}
		if e.dangling {
			// profile names are identifiers: a reference that matches no defined name exactly is an unknown profile
			if obs[e.name] != nil {
				fmt.Fprintf(out, "SELFFAIL %s %s: a certificate was written although the configuration references profile %q, which no file defines (defined: look-alikes in other capitalisation)\n", tag, e.name, e.cfg.Profile)
			}
			if firstFailed < 0 {
				firstFailed = ei
			}
			continue
		}
		o := obs[e.name]
		var issuerEnt *entity
		if e.cfg.Issuer != "" {
			ie := byName[e.cfg.Issuer]
			issuerEnt = &ie
		}
		// an entity whose issuer produced no certificate is never attempted; nor is anything when planning failed
		if o == nil && issuerEnt != nil && obs[issuerEnt.name] == nil {
			continue
		}
		if o == nil && planFailed && !strings.Contains(status, "'"+e.name+"'") {
			continue
		}
		if o == nil && firstFailed < 0 {
			firstFailed = ei
		}
		caseNo++
		signerKey := e.cfg.KeyAlg
		issuerTerm := "None"
		var issuerBits []byte
		if issuerEnt != nil {
			signerKey = issuerEnt.cfg.KeyAlg
			issuerBits = obs[issuerEnt.name].spkiBits
			issuerTerm = "(Some (" + cqB(issuerEnt.cfg.Subject) + ", " + cqBytes(issuerBits) + "))"
		}
		expect := "None"
		// (no certificate: the zone offsets the model needs for explicit dates are taken from Go's time package directly)
		obsTerm := fmt.Sprintf("(mkObs 1%%Z (spki_of (B \"3059301306072a8648ce3d020106082a8648ce3d030107034200040000000000000000000000000000000000000000000000000000000000000000000000000000000000000000000000000000000000000000000000000000000000\")) [] (mkWall 2025 1 1 0) %s %s)",
			cqZ(localOffsetOf(effValidity(e).From)), cqZ(localOffsetOf(effValidity(e).Until)))
		sha := "[]"
		if o != nil {
			expect = "(Some " + cqBytes(o.der) + ")"
			_, offNb := o.nb.In(time.Local).Zone()
			_, offNa := o.na.In(time.Local).Zone()
			// explicit dates: the offset Go converted them with (see localOffset)
			if x, ok := localOffset(effValidity(e).From); ok {
				offNb = int(x)
			}
			if x, ok := localOffset(effValidity(e).Until); ok {
				offNa = int(x)
			}
			nl := o.nb.In(time.Local)
			obsTerm = fmt.Sprintf("(mkObs %s (spki_of %s) %s (mkWall %d %d %d %d) %s %s)", cqZbig(o.serial), cqBytes(o.spki), cqBytes(o.sig),
				nl.Year(), int(nl.Month()), nl.Day(), nl.Hour()*3600+nl.Minute()*60+nl.Second(), cqZ(int64(offNb)), cqZ(int64(offNa)))
			if issuerBits == nil {
				issuerBits = o.spkiBits
			}
			s1, s2 := sha1.Sum(o.spkiBits), sha1.Sum(issuerBits)
			sha = "[(" + cqBytes(o.spkiBits) + ", " + cqBytes(s1[:]) + "); (" + cqBytes(issuerBits) + ", " + cqBytes(s2[:]) + ")]"
			selfChecks(tag, e, issuerEnt, o, obs)
		}
		st := ""
		if o == nil {
			st = " status=" + status
		}
		fmt.Fprintf(out, "CASE %d %s %s %s :: %s%s\n", caseNo, tag, e.name, map[bool]string{true: "cert", false: "nocert"}[o != nil], jsonText(e.cfg.tree()), st)
		fmt.Fprintf(out, "COQ (true, mkCase %s %s %s %s %s %s %s)\n", e.profile.Coq(), e.cfg.Coq(), obsTerm, issuerTerm, cqB(signerKey), sha, expect)
	}
	return firstFailed
}

func cqZbig(z *big.Int) string { return "(" + z.String() + ")%Z" }

// C07 statements the byte-level model cannot flag because it reproduces the code faithfully: a configured path length of
// zero, and a user notice without any member (recorded findings F5 and F22)
func knownFindingChecks(tag string, e entity, o *observed) {
	for _, x := range e.cfg.Exts {
		if x.Kind == "bc" && x.HasContent && x.HasPl && x.PathLen == 0 {
			if c, err := x509.ParseCertificate(o.der); err != nil || !(c.MaxPathLen == 0 && c.MaxPathLenZero) {
				fmt.Fprintf(out, "SELFFAIL %s %s: basicConstraints was configured with pathLen 0 but the certificate carries no pathLenConstraint (F5)\n", tag, e.name)
			}
		}
		if x.Kind == "cp" && x.HasContent {
			for _, p := range x.Pols {
				for _, q := range p.Quals {
					if q.Notice != nil && q.Notice.Org == "" && !q.Notice.HasNums && q.Notice.Text == "" {
						fmt.Fprintf(out, "SELFFAIL %s %s: an empty userNotice is emitted as a PolicyQualifierInfo without qualifier body, which RFC 5280 does not allow (F22)\n", tag, e.name)
					}
				}
			}
		}
	}
}

// checks made with the standard library only
func selfChecks(tag string, e entity, issuer *entity, o *observed, obs map[string]*observed) {
	knownFindingChecks(tag, e, o)
	if e.keyPoint != nil && e.cfg.Manip.Pk == "" && !bytes.Equal(o.spkiBits, e.keyPoint) {
		fmt.Fprintf(out, "SELFFAIL %s %s: the certificate does not carry the public key of the private key that was supplied (%d octets, expected %d: 04 || X || Y with both coordinates at full width)\n", tag, e.name, len(o.spkiBits), len(e.keyPoint))
	}
	if e.cfg.Manip.Pk != "" || e.cfg.Manip.PkAlg != "" {
		// the certified key is deliberately not the entity's key
	} else if _, err := pubFromBits(e.cfg.KeyAlg, o.spkiBits); err != nil {
		fmt.Fprintf(out, "SELFFAIL %s %s: generated key does not match keyAlgorithm %q: %v\n", tag, e.name, e.cfg.KeyAlg, err)
	}
	signerAlg, signerBits, wantIssuer := e.cfg.KeyAlg, o.spkiBits, o.subject
	if issuer != nil {
		io := obs[issuer.name]
		signerAlg, signerBits, wantIssuer = issuer.cfg.KeyAlg, io.spkiBits, io.subject
		if issuer.artifact != nil && strings.HasPrefix(signerAlg, "RSA-") {
			signerAlg = "RSA-*" // a key another tool wrote: the configured name says nothing about its size
		}
		if issuer.cfg.Manip.Pk != "" || issuer.cfg.Manip.PkAlg != "" {
			return // issuer certificate carries a manipulated key: chain statements do not apply
		}
	} else if e.cfg.Manip.Pk != "" || e.cfg.Manip.PkAlg != "" {
		signerBits = nil
	}
	if !bytes.Equal(o.issuer, wantIssuer) {
		fmt.Fprintf(out, "SELFFAIL %s %s: issuer DN bytes differ from the issuer certificate's subject DN bytes\n", tag, e.name)
	}
	if e.cfg.Manip.SigValue == "" && signerBits != nil {
		pub, err := pubFromBits(signerAlg, signerBits)
		if err == nil {
			err = verifySig(pub, effSig(e.cfg), o.tbs, o.sig)
		}
		if err != nil {
			fmt.Fprintf(out, "SELFFAIL %s %s: signature does not verify over the TBS bytes with %s under the issuer key: %v\n", tag, e.name, effSig(e.cfg), err)
		}
	}
}
