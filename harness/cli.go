package main

// Command-line stream (C10 consent, C11 flag mapping, native file system): histories on a real temporary directory in
// which every run is an invocation of the built gopki binary with a random flag set and a scripted answer at the prompt.
// Same observables and the same Coq-side replay as the in-memory histories; the step is C <flags> <input>.

import (
	"bytes"
	"fmt"
	"math/rand"
	"os"
	"os/exec"
	"path/filepath"
	"sort"
	"strings"
	"testing/fstest"
	"time"
)

func init() { streams["cli"] = streamCli }

func tick() { time.Sleep(12 * time.Millisecond) } // file times come from the kernel's coarse clock

func readTree(root string, ents []dent) fstest.MapFS {
	m := fstest.MapFS{}
	for i, e := range ents {
		if !e.present {
			continue
		}
		if b, err := os.ReadFile(filepath.Join(root, e.pemPath(i))); err == nil {
			m[e.pemPath(i)] = &fstest.MapFile{Data: b}
		}
	}
	return m
}

var havePrlimit = func() bool { _, err := exec.LookPath("prlimit"); return err == nil }()

func streamCli() {
	n := 70
	if thorough() {
		n = 800
	}
	bin := os.Getenv("VERIF_GOPKI_BIN")
	if bin == "" {
		bin = "/verif/build/gopki"
	}
	if _, err := os.Stat(bin); err != nil {
		fmt.Fprintf(os.Stderr, "gopki binary %s missing\n", bin)
		os.Exit(3)
	}
	base := os.Getenv("VERIF_SCRATCH")
	if base == "" {
		base = "/verif/build"
	}
	answers := []struct {
		in  *string
		coq string
	}{{ptr("y\n"), ""}, {ptr("Y\n"), ""}, {ptr(" y \n"), ""}, {ptr("n\n"), ""}, {ptr("\n"), ""}, {ptr("yes\n"), ""}, {nil, "None"}, {ptr("y"), ""}, {ptr("N\n"), ""}, {ptr("yy\n"), ""}}
	for h := 0; h < n; h++ {
		rng := rand.New(rand.NewSource(seed*999331 + int64(h)))
		root, err := os.MkdirTemp(base, "cli-")
		if err != nil {
			fmt.Fprintln(os.Stderr, err)
			os.Exit(3)
		}
		ne := 3
		ents := make([]dent, ne)
		// a forest in which an issuer may well sort after its subject (the directory is walked in index order)
		perm := rng.Perm(ne)
		for k, i := range perm {
			ents[i].issuer = -1
			if k > 0 && rng.Intn(5) != 0 {
				ents[i].issuer = perm[rng.Intn(k)]
			}
			ents[i].vstyle = rng.Intn(5)
			ents[i].layout = rng.Intn(3)
		}
		// half of the histories run the tool in another time zone: the dates in the configurations are local midnights
		env := os.Environ()
		dirLoc = time.UTC
		if h%2 == 1 {
			if loc, err := time.LoadLocation("Europe/Berlin"); err == nil {
				dirLoc = loc
				env = append(env, "TZ=Europe/Berlin")
			}
		} else {
			env = append(env, "TZ=UTC")
		}
		nuser := 0
		forceAll := false
		profVersion, profStrict, profExpired = 0, false, false
		order = map[int]int{}
		var ops, obs []string
		prev := map[int]fileView{}
		// some configuration files are symbolic links to files kept elsewhere (shared between directories): edits go to the target,
		// and it is the target's modification time that counts
		ext := root + "-ext"
		linked := map[int]bool{}
		for i := range ents {
			linked[i] = rng.Intn(3) == 0
		}
		putcfg := func(i int) {
			tick()
			p := filepath.Join(root, ents[i].cfgPath(i))
			os.MkdirAll(filepath.Dir(p), 0755)
			if linked[i] {
				os.MkdirAll(ext, 0755)
				target := filepath.Join(ext, fmt.Sprintf("e%d.yaml", i))
				os.WriteFile(target, []byte(ents[i].yaml(i)), 0644)
				if _, err := os.Lstat(p); err != nil {
					os.Symlink(target, p)
				}
				return
			}
			os.WriteFile(p, []byte(ents[i].yaml(i)), 0644)
		}
		record := func(code int, w []string) {
			o, cur := observeDir(readTree(root, ents), prev, ents)
			prev = cur
			obs = append(obs, fmt.Sprintf("(%d, [%s], %s)", code, strings.Join(w, ";"), o))
		}
		os.WriteFile(filepath.Join(root, "README.txt"), []byte("unrelated\n"), 0644)
		steps := ne + 3 + rng.Intn(6)
		for s := 0; s < steps; s++ {
			i := rng.Intn(ne)
			if s < ne {
				i = s
				ents[i].present = true
				order[i] = len(order)
				putcfg(i)
				ops = append(ops, fmt.Sprintf("U (OpAdd (mkEnt %d %s 0 None))", i, ents[i].coq()))
				record(0, nil)
				continue
			}
			r := rng.Intn(100)
			if forceAll {
				r = 0
			}
			switch {
			case r < 55:
				// flags: mostly the defaults (-m -c), otherwise any of the 32 combinations
				fm, fa, fe, fo, fc := true, false, false, false, true
				if rng.Intn(3) == 0 {
					fm, fa, fe, fo, fc = rng.Intn(2) == 1, rng.Intn(4) == 0, rng.Intn(2) == 1, rng.Intn(2) == 1, rng.Intn(2) == 1
				}
				ans := answers[rng.Intn(len(answers))]
				if forceAll {
					// right after the user put an artifact of their own in place: regenerate everything and consent, so that the
					// (often much longer) file is overwritten by a shorter one
					fa, ans, forceAll = true, answers[0], false
				}
				args := []string{}
				switch rng.Intn(4) { // logging flags do not change what is generated
				case 0:
					args = append(args, "-d")
				case 1:
					args = append(args, "-v")
				}
				args = append(args, "sign")
				if rng.Intn(2) == 0 || !fm {
					args = append(args, fmt.Sprintf("--generate-missing=%v", fm))
				}
				if fa {
					args = append(args, "-a")
				}
				if fe {
					args = append(args, "--generate-expired")
				}
				if fo {
					args = append(args, "-o")
				}
				if rng.Intn(2) == 0 || !fc {
					args = append(args, fmt.Sprintf("--generate-changed=%v", fc))
				}
				// the directory argument in one of the ways a user may spell it: as is, with a trailing slash, relative to the
				// working directory, or through a symbolic link and back ("<link>/../<dir>", resolved by the kernel, not textually)
				dirArg := root
				cmdDir := ""
				switch rng.Intn(6) {
				case 0:
					dirArg = root + "/"
				case 1:
					dirArg, cmdDir = "./"+filepath.Base(root), filepath.Dir(root)
				case 2:
					dirArg, cmdDir = ".", root
				case 3, 4:
					// <root>-far/deep is a directory elsewhere and <root>-links/lnk points at it; <root>-far/<base> is a link to the real
					// directory.  "<root>-links/lnk/../<base>" therefore reaches root when the kernel resolves it, whereas a textual
					// clean-up of "lnk/.." would end in <root>-links/<base>, which does not exist
					far := filepath.Join(root+"-far", "deep")
					links := root + "-links"
					os.MkdirAll(far, 0755)
					os.MkdirAll(links, 0755)
					os.Remove(filepath.Join(links, "lnk"))
					os.Remove(filepath.Join(root+"-far", filepath.Base(root)))
					if os.Symlink(far, filepath.Join(links, "lnk")) == nil && os.Symlink(root, filepath.Join(root+"-far", filepath.Base(root))) == nil {
						dirArg = filepath.Join(links, "lnk") + "/../" + filepath.Base(root)
					}
				}
				args = append(args, dirArg)
				before := map[string][]byte{}
				filepath.Walk(root, func(p string, info os.FileInfo, err error) error {
					if err == nil && !info.IsDir() {
						b, _ := os.ReadFile(p)
						before[p] = b
					}
					return nil
				})
				tick()
				cmd := exec.Command(bin, args...)
				cmd.Dir = cmdDir
				// what the environment may look like: no usable scratch directory, few processors
				runEnv := append([]string{}, env...)
				if rng.Intn(3) == 0 {
					runEnv = append(runEnv, "TMPDIR=/nonexistent/scratch")
				}
				if k := rng.Intn(8); k >= 1 && k <= 5 {
					runEnv = append(runEnv, fmt.Sprintf("GOMAXPROCS=%d", k))
				}
				cmd.Env = runEnv
				inCoq := "None"
				if ans.in != nil {
					cmd.Stdin = strings.NewReader(*ans.in)
					if strings.HasSuffix(*ans.in, "\n") {
						inCoq = "(Some " + cqB(*ans.in) + ")"
					} // else: end of input before a newline, which ReadString reports as an error
				} else {
					cmd.Stdin = strings.NewReader("")
				}
				var so bytes.Buffer
				cmd.Stdout, cmd.Stderr = &so, &so
				err := cmd.Run()
				exit := 0
				if ee, ok := err.(*exec.ExitError); ok {
					exit = ee.ExitCode()
				} else if err != nil {
					exit = 99
				}
				text := so.String()
				code := 1
				switch {
				case strings.Contains(text, "nothing to do"):
					code = 5
				case strings.Contains(text, "can't open as filesystem database"):
					code = 6
				case strings.Contains(text, "can't determine necessary tasks"):
					code = 7
				case strings.Contains(text, "Abort due to missing user consent"):
					code = 8
				case strings.Contains(text, "error during database update"):
					code = 2
				case strings.Contains(text, "panic:") || exit > 1:
					code = 3
				}
				if (code == 1 || code == 5 || code == 8) != (exit == 0) {
					fmt.Fprintf(out, "SELFFAIL cli-%d-%d step %d: exit status %d does not fit the outcome %d (%q)\n", seed, h, s, exit, code, text)
				}
				tick()
				var w []int
				after := map[string][]byte{}
				filepath.Walk(root, func(p string, info os.FileInfo, err error) error {
					if err == nil && !info.IsDir() {
						b, _ := os.ReadFile(p)
						after[p] = b
					}
					return nil
				})
				for p, b := range after {
					old, had := before[p]
					if had && bytes.Equal(old, b) {
						continue
					}
					rel, _ := filepath.Rel(root, p)
					if pr := artifactProblem(b); pr != "" && code == 1 {
						fmt.Fprintf(out, "SELFFAIL cli-%d-%d step %d: the artifact %q written by the run holds %s\n", seed, h, s, rel, pr)
					}
					found := false
					for j, e := range ents {
						if e.present && e.pemPath(j) == rel {
							w = append(w, j)
							found = true
						}
					}
					if !found {
						fmt.Fprintf(out, "SELFFAIL cli-%d-%d step %d: the command line run created or modified %q, which is not an artifact of any entity\n", seed, h, s, rel)
					}
				}
				for p := range before {
					if _, ok := after[p]; !ok {
						fmt.Fprintf(out, "SELFFAIL cli-%d-%d step %d: the command line run removed %q\n", seed, h, s, p)
					}
				}
				sort.Ints(w)
				ws := make([]string, len(w))
				for k, x := range w {
					ws[k] = fmt.Sprint(x)
				}
				ops = append(ops, fmt.Sprintf("C (mkFlags %s %s %s %s %s) %s", bs(fm), bs(fa), bs(fe), bs(fo), bs(fc), inCoq))
				record(code, ws)
				continue
			case r < 59 && havePrlimit:
				// a run (answer y) under an operating-system limit on file sizes: the first artifact the tool writes is cut after
				// 512 octets and the write fails - a torn write on the real file system, inside the operating system's write call
				fm, fc := true, true
				fa := rng.Intn(3) == 0
				args := []string{"--fsize=512", "--", bin, "sign"}
				if fa {
					args = append(args, "-a")
				}
				args = append(args, root)
				tick()
				before := map[string][]byte{}
				filepath.Walk(root, func(p string, info os.FileInfo, err error) error {
					if err == nil && !info.IsDir() {
						b, _ := os.ReadFile(p)
						before[p] = b
					}
					return nil
				})
				cmd := exec.Command("prlimit", args...)
				cmd.Env = env
				cmd.Stdin = strings.NewReader("y\n")
				var so bytes.Buffer
				cmd.Stdout, cmd.Stderr = &so, &so
				cmd.Run()
				text := so.String()
				tick()
				// which files changed, and which parts of the torn one survive (read off the bytes with encoding/pem)
				var w []int
				kh, kc, kk, kr := false, false, false, false
				for j, e := range ents {
					if !e.present {
						continue
					}
					p := filepath.Join(root, e.pemPath(j))
					b, err := os.ReadFile(p)
					old, had := before[p]
					if err != nil || (had && bytes.Equal(old, b)) {
						continue
					}
					w = append(w, j)
					if len(b) > 512 {
						fmt.Fprintf(out, "SELFFAIL cli-%d-%d step %d: the write of %q was cut by the operating system after 512 octets, yet the file holds %d octets: what was written was laid over the old content instead of replacing it\n", seed, h, s, e.pemPath(j), len(b))
					}
					if len(b) <= 512 && len(w) == 1 {
						kh = bytes.HasPrefix(b, []byte("#HASH:")) && bytes.IndexByte(b, '\n') >= 0
						bl := pemBlocks(b)
						_, kc = bl["CERTIFICATE"]
						_, kk = bl["PRIVATE KEY"]
						_, kr = bl["CERTIFICATE REQUEST"]
					}
				}
				code := 1
				switch {
				case strings.Contains(text, "nothing to do"):
					code = 5
				case strings.Contains(text, "can't open as filesystem database"):
					code = 6
				case strings.Contains(text, "can't determine necessary tasks"):
					code = 7
				case strings.Contains(text, "panic:"):
					code = 3
				case len(w) > 0:
					code = 4 // the run ended at the failed write (reported as an error, or the process was ended by SIGXFSZ)
				}
				sort.Ints(w)
				ws := make([]string, len(w))
				for k, x := range w {
					ws[k] = fmt.Sprint(x)
				}
				ops = append(ops, fmt.Sprintf("CF (mkFlags %s %s false false %s) (mkKeep %s %s %s %s)", bs(fm), bs(fa), bs(fc), bs(kh), bs(kc), bs(kk), bs(kr)))
				record(code, ws)
				continue
			case r < 70:
				ents[i].subj++
				putcfg(i)
				ops = append(ops, fmt.Sprintf("U (OpEditCfg %d %s)", i, ents[i].coq()))
			case r < 80:
				if ents[i].vis < 5 {
					ents[i].vis++
				} else {
					ents[i].subj++
				}
				putcfg(i)
				ops = append(ops, fmt.Sprintf("U (OpEditCfg %d %s)", i, ents[i].coq()))
			case r < 84:
				putcfg(i)
				ops = append(ops, fmt.Sprintf("U (OpTouchCfg %d)", i))
			case r < 92: // an artifact of the user's own (sometimes with tens of kilobytes of text around the blocks)
				tick()
				nuser++
				data, term := userArtifact(rng, nuser)
				p := filepath.Join(root, ents[i].pemPath(i))
				os.MkdirAll(filepath.Dir(p), 0755)
				os.WriteFile(p, data, 0644)
				os.Chmod(p, []os.FileMode{0644, 0600, 0664, 0666, 0640}[rng.Intn(5)]) // whatever umask the user's tools ran under
				ops = append(ops, fmt.Sprintf("U (OpReplaceUser %d %s)", i, term))
				forceAll = rng.Intn(2) == 0
			default:
				tick()
				os.Remove(filepath.Join(root, ents[i].pemPath(i)))
				ops = append(ops, fmt.Sprintf("U (OpDeleteFile %d)", i))
			}
			record(0, nil)
		}
		os.RemoveAll(root)
		os.RemoveAll(ext)
		os.RemoveAll(root + "-links")
		os.RemoveAll(root + "-far")
		dirLoc = time.UTC
		fmt.Fprintf(out, "CASE cli-%d-%d %d steps :: %s\n", seed, h, len(ops), strings.Join(ops, "; "))
		fmt.Fprintf(out, "COQ ([%s], [%s])\n", strings.Join(ops, "; "), strings.Join(obs, "; "))
	}
}
