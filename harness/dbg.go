package main

import (
	"testing/fstest"

	"fmt"
	"github.com/wokdav/gopki/generator/db"
	"github.com/wokdav/gopki/generator/db/filesystem"
	"os"
	"strings"

	"github.com/wokdav/gopki/generator/config"
)

func debugParse(name, text string) {
	_, err := config.ParseConfig(strings.NewReader(text))
	if err != nil {
		fmt.Fprintf(os.Stderr, "PARSE %s: %v\n%s\n", name, err, text)
	}
}

// a plain default run over an in-memory directory (used to obtain real artifacts)
func runPlain(m fstest.MapFS) error {
	d := filesystem.NewFilesystemDatabase(filesystem.NewMapFs(m))
	if err := d.Open(); err != nil {
		return err
	}
	plan, err := db.PlanBulkUpdate(d, db.UpdateMissing|db.UpdateChanged)
	if err != nil {
		return err
	}
	_, err = db.BulkUpdate(d, plan)
	return err
}
