package main

import (
	"fmt"
	"os"
	"strings"

	"github.com/wokdav/gopki/generator/config"
)

func debugParse(name, text string) {
	_, err := config.ParseConfig(strings.NewReader(text))
	if err != nil {
		fmt.Fprintf(os.Stderr, "PARSE %s: %v\n%s\n", name, err, text)
	}
}
