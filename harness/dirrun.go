package main

// Directory-level lockstep stream (C10, C12, C14, C15, C01 chain part): random histories of user operations and
// sign runs (optionally with a write fault) on an in-memory file system with a logical clock.  After every step
// the observable projection of the directory is printed next to the operation list in Gallina syntax; Coq
// evaluates the same history on the model (Model/DirCaseLib.v) and lists the steps that differ.
// Everything observed comes from the files themselves: block presence, key equality, signature verification and
// DN bytes checked with crypto/x509 - never from gopki's in-memory state.

import (
	"bytes"
	"crypto"
	"crypto/ecdsa"
	"crypto/elliptic"
	crand "crypto/rand"
	"crypto/x509"
	"crypto/x509/pkix"
	"encoding/asn1"
	"encoding/pem"
	"fmt"
	"github.com/ghodss/yaml"
	"io/fs"
	"math/big"
	"math/rand"
	"os"
	"sort"
	"strings"
	"testing/fstest"
	"time"

	"github.com/wokdav/gopki/generator/db"
	"github.com/wokdav/gopki/generator/db/filesystem"
)

func init() {
	streams["dirrun"] = func() { streamDirrun(false) }
	streams["dirfault"] = func() { streamDirrun(true) }
}

type dfault struct {
	at             int // index of the faulty write, -1 = none
	kind           int // 0 = error without writing, 1 = torn then die, 2 = complete then die, 3 = cut at a byte offset then die
	kh, kc, kk, kr bool
	frac           float64 // kind 3: where the file is cut, as a fraction of its length
	edge           int     // kind 3: >= 0: cut next to a structural boundary instead (hash line, BEGIN/END lines), which one and how far from it
	cutAt, cutLen  int     // kind 3: what happened
}

type lfs struct {
	m      fstest.MapFS
	clock  *int64
	writes *[]string
	flt    *dfault
}

func keepBlocks(data []byte, kh, kc, kk, kr bool) []byte {
	var o bytes.Buffer
	if kh {
		if ix := bytes.IndexByte(data, '\n'); ix >= 0 && bytes.HasPrefix(data, []byte("#HASH:")) {
			o.Write(data[:ix+1])
		}
	}
	for {
		var p *pem.Block
		p, data = pem.Decode(data)
		if p == nil {
			break
		}
		if (p.Type == "CERTIFICATE" && kc) || (p.Type == "PRIVATE KEY" && kk) || (p.Type == "CERTIFICATE REQUEST" && kr) {
			pem.Encode(&o, p)
		}
	}
	return o.Bytes()
}

var dirBase = time.Date(2025, 1, 1, 0, 0, 0, 0, time.UTC)

// one tick of the logical clock is 7 ms: distinct ticks must stay distinct for the tool (a change that rounds file times to
// seconds merges them and shows up as a difference)
func dtm(c int64) time.Time                         { return dirBase.Add(time.Duration(c) * 7 * time.Millisecond) }
func (l lfs) FS() fs.FS                             { return l.m }
func (l lfs) Stat(name string) (os.FileInfo, error) { return l.m.Stat(name) }
func (l lfs) WriteFile(name string, content []byte) error {
	*l.clock++
	idx := len(*l.writes)
	if l.flt.at == idx && l.flt.kind == 0 {
		l.flt.at = -2
		return fmt.Errorf("injected write error")
	}
	if l.flt.at == idx && l.flt.kind == 1 {
		content = keepBlocks(content, l.flt.kh, l.flt.kc, l.flt.kk, l.flt.kr)
	}
	if l.flt.at == idx && l.flt.kind == 3 {
		// the write stops at an arbitrary byte offset; which parts survive is read off the truncated bytes with the standard
		// library's PEM decoder (not with gopki) and handed to the model as the set of blocks kept
		l.flt.cutLen = len(content)
		l.flt.cutAt = int(l.flt.frac * float64(len(content)+1))
		if l.flt.edge >= 0 {
			// inside the hash line, or within three bytes of where a line of dashes starts or ends
			bounds := []int{0, 6, bytes.IndexByte(content, '\n'), bytes.IndexByte(content, '\n') + 1}
			for off := 0; ; {
				ix := bytes.Index(content[off:], []byte("-----"))
				if ix < 0 {
					break
				}
				bounds = append(bounds, off+ix, off+ix+5)
				off += ix + 5
			}
			b := bounds[l.flt.edge%len(bounds)]
			if l.flt.edge%len(bounds) == 1 {
				b = 6 + (l.flt.edge/len(bounds))%30 // anywhere inside the base64 text of the hash line
			} else {
				b += (l.flt.edge/len(bounds))%7 - 3
			}
			if b < 0 {
				b = 0
			}
			l.flt.cutAt = b
		}
		if l.flt.cutAt > len(content) {
			l.flt.cutAt = len(content)
		}
		content = content[:l.flt.cutAt]
		l.flt.kh = bytes.HasPrefix(content, []byte("#HASH:")) && bytes.IndexByte(content, '\n') >= 0
		bl := pemBlocks(content)
		_, l.flt.kc = bl["CERTIFICATE"]
		_, l.flt.kk = bl["PRIVATE KEY"]
		_, l.flt.kr = bl["CERTIFICATE REQUEST"]
	}
	l.m[name] = &fstest.MapFile{Data: content, Mode: 0644, ModTime: dtm(*l.clock)}
	*l.writes = append(*l.writes, name)
	if l.flt.at == idx {
		panic("DIE")
	}
	return nil
}
func (l lfs) DeleteFile(name string) error { delete(l.m, name); return nil }

type dent struct {
	issuer    int // -1 = root
	subj, vis int
	present   bool
	krsa      bool // configured key algorithm is RSA
	srsa      bool // configured signature algorithm needs an RSA signer
	prof      bool // references the shared profile profiles/shared.yaml
	vstyle    int  // validity block style, constant over the history
	vver      int  // edits of the validity block within its style (another end date / duration)
	serial    bool // the configuration fixes a serial number (two entities may fix the same one: serial numbers are not aliases)
	sver      int  // edits of that serial number (neighbouring 17- and 19-digit values)
	layout    int  // 0: e<i>.yaml, 1: sub/e<i>.yml, 2: deep/er/e<i>.json-free yaml with explicit alias in x<i>.yaml
}

func (e dent) stem(i int) string {
	switch e.layout {
	// every path starts with e<i>, so that the directory walk (lexical) meets the entities in index order, which is the
	// order of the model's entity list; the order matters for what has been written when a run stops at an error
	case 1:
		return fmt.Sprintf("e%dsub/e%d", i, i)
	case 2:
		return fmt.Sprintf("e%dx/deep/x%d", i, i)
	}
	return fmt.Sprintf("e%d", i)
}
func (e dent) cfgPath(i int) string {
	switch e.layout {
	case 1:
		return e.stem(i) + ".yml"
	case 3:
		return e.stem(i) + ".json" // (sorts before the artifact e<i>.pem in a directory walk, unlike .yaml / .yml)
	case 4:
		return e.stem(i) + ".YAML"
	}
	return e.stem(i) + ".yaml"
}
func (e dent) pemPath(i int) string { return e.stem(i) + ".pem" }

// version of the shared profile: it contributes one non-optional extension 1.2.4.<profVersion> to every entity that references it
var profVersion int

// further states of the shared profile: it demands an attribute (O) no entity has - every entity that references it is then
// rejected and the whole run must be refused -, and it carries a validity that has already ended, which entities without a
// validity block of their own inherit
var profStrict, profExpired bool

func profileYaml() string {
	s := "version: 1\nname: shared\n"
	if profExpired {
		s += "validity:\n  from: 2020-01-01\n  duration: 1y\n"
	}
	if profStrict {
		s += "subjectAttributes:\n  allowOther: false\n  attributes:\n    - attribute: CN\n    - attribute: O\n"
	}
	return s + fmt.Sprintf("extensions:\n  - custom:\n      oid: 1.2.4.%d\n      raw: \"!empty\"\n", profVersion)
}

// the configuration file's text: block YAML, or the same tree as JSON for a .json file
func (e dent) yaml(i int) string {
	t := e.yamlText(i)
	if e.layout == 3 {
		if j, err := yaml.YAMLToJSON([]byte(t)); err == nil {
			return string(j)
		}
	}
	return t
}

func (e dent) yamlText(i int) string {
	s := fmt.Sprintf("version: 1\nsubject: CN=e%d v%d\n", i, e.subj)
	if e.prof {
		s += "profile: shared\n"
	}
	if e.layout == 2 {
		s += fmt.Sprintf("alias: e%d\n", i)
	}
	if e.serial {
		s += fmt.Sprintf("serialNumber: %d\n", e.serialNo(i))
	}
	switch e.vstyle {
	case 0:
		s += fmt.Sprintf("validity:\n  from: 2024-01-01\n  until: %d-01-01\n", 2090+e.vver)
	case 1:
		s += fmt.Sprintf("validity:\n  until: %d-02-03\n", 2091+e.vver)
	case 2:
		s += fmt.Sprintf("validity:\n  duration: %s\n", relDuration(e.vver))
	case 3:
	case 4:
		s += fmt.Sprintf("validity:\n  from: 2024-02-29\n  duration: 40y%dm\n", 1+e.vver)
	case 5: // expired on purpose (a test certificate): explicit start, short duration, end in the past
		s += fmt.Sprintf("validity:\n  from: 2020-01-01\n  duration: 1y%dd\n", e.vver)
	}
	s += fmt.Sprintf("extensions:\n  - custom:\n      oid: 1.2.3.%d\n      raw: \"!null\"\n", e.vis)
	if e.issuer >= 0 {
		s += fmt.Sprintf("issuer: e%d\n", e.issuer)
	}
	if e.krsa {
		s += "keyAlgorithm: RSA-1024\n"
	} else {
		s += "keyAlgorithm: P-256\n"
	}
	if e.srsa {
		s += "signatureAlgorithm: RSAwithSHA256\n"
	} else {
		s += "signatureAlgorithm: ECDSAwithSHA256\n"
	}
	return s
}

// run-relative durations, all of different length (the abstract model equates "other text" with "other certificate")
func relDuration(v int) string {
	if v%2 == 1 {
		return fmt.Sprintf("%dm", (30+v)*12)
	}
	return fmt.Sprintf("%dy", 30+v)
}

// the zone in which the tool reads the dates of the configuration files (the process's local zone)
var dirLoc = time.UTC

// expected end of validity (ok = false: run-relative, only the length is known)
func (e dent) wantNotAfter() (time.Time, bool) {
	if e.prof && profExpired && e.vstyle == 3 {
		return time.Date(2021, 1, 1, 0, 0, 0, 0, dirLoc), true
	}
	switch e.vstyle {
	case 0:
		return time.Date(2090+e.vver, 1, 1, 0, 0, 0, 0, dirLoc), true
	case 1:
		return time.Date(2091+e.vver, 2, 3, 0, 0, 0, 0, dirLoc), true
	case 4:
		return time.Date(2024, 2, 29, 0, 0, 0, 0, dirLoc).AddDate(40, 1+e.vver, 0), true
	case 5:
		return time.Date(2020, 1, 1, 0, 0, 0, 0, dirLoc).AddDate(1, 0, e.vver), true
	}
	return time.Time{}, false
}

// length of a run-relative validity applied to a start date
func (e dent) relEnd(from time.Time) (time.Time, bool) {
	if e.vstyle == 3 && !(e.prof && profExpired) {
		return from.AddDate(5, 0, 0), true // no validity anywhere: five years from the moment of the run
	}
	if e.vstyle != 2 {
		return time.Time{}, false
	}
	ymd := [3]int{30 + e.vver, 0, 0}
	return from.AddDate(ymd[0], ymd[1], ymd[2]), true
}

// the configured serial number: small and shared between some entities, long for others - an edit moves it to its neighbour, which
// differs only in the last digit (values that a detour through floating point would merge)
func (e dent) serialNo(i int) int64 {
	return []int64{1000, 1234567890123456789, 1000, 6148914691236517205, 9007199254740993}[i%5] + int64(e.sver)
}

func ktn(r bool) string {
	if r {
		return "RSA"
	}
	return "EC"
}
func (e dent) coq() string {
	iss := "None"
	if e.issuer >= 0 {
		iss = fmt.Sprintf("(Some %d)", e.issuer)
	}
	// the visible content as one small number (the model's fields are unary naturals: the tag is a mixed-radix code of the
	// bounded edit counters, not a sum of large multiples)
	pv := 0
	if e.prof {
		pv = profVersion%6 + 1
	}
	inheritsExpired := e.prof && profExpired && e.vstyle == 3
	vis := e.vis%6 + 6*(e.vver%4) + 24*(e.sver%4) + 96*pv
	if inheritsExpired {
		vis += 672
	}
	return fmt.Sprintf("(mkCfg %s %d %d 0 %s %s %s %s true)", iss, e.subj, vis, ktn(e.krsa), ktn(e.srsa), bs(!(e.prof && profStrict)), bs(e.vstyle != 5 && !inheritsExpired))
}

// a certificate and key of the user's own, as other tools write them; returns the file and the model's (certificate, key) term
func userArtifact(rng *rand.Rand, nuser int) ([]byte, string) {
	k, _ := ecdsa.GenerateKey(elliptic.P256(), crand.Reader)
	variant := rng.Intn(8)
	if variant == 0 || variant == 1 {
		// a key whose scalar starts with a zero octet, stored without it (as older OpenSSL wrote such keys)
		sc := make([]byte, 31)
		crand.Read(sc)
		sc[0] |= 1
		k = ecKey("P-256", new(big.Int).SetBytes(sc))
	}
	expired := rng.Intn(5) == 0
	na := time.Now().Add(20 * 365 * 24 * time.Hour)
	if expired {
		na = time.Now().Add(-30 * time.Minute)
	}
	tmpl := &x509.Certificate{SerialNumber: big.NewInt(int64(7000 + nuser)), Subject: pkix.Name{CommonName: fmt.Sprintf("user %d", nuser)},
		NotBefore: time.Now().Add(-time.Hour), NotAfter: na, IsCA: true, BasicConstraintsValid: true}
	der, _ := x509.CreateCertificate(crand.Reader, tmpl, tmpl, k.Public(), k)
	kder, _ := x509.MarshalPKCS8PrivateKey(k)
	if variant == 0 || variant == 1 {
		kder = handPkcs8("P-256", k.D, 31, k, 0, true, false)
	}
	var o bytes.Buffer
	if variant == 2 || variant == 3 {
		// explanatory text in front of the blocks, as `openssl pkcs12` writes it; up to 70 KB of it
		n := 1 + rng.Intn(40)
		if variant == 3 {
			n = 300 + rng.Intn(1200)
		}
		for j := 0; j < n; j++ {
			fmt.Fprintf(&o, "Bag Attributes\n    friendlyName: user %d line %d\n    localKeyID: 01 02 03\n", nuser, j)
		}
	}
	if variant == 4 {
		pem.Encode(&o, &pem.Block{Type: "PRIVATE KEY", Bytes: kder})
		pem.Encode(&o, &pem.Block{Type: "CERTIFICATE", Bytes: der})
	} else {
		pem.Encode(&o, &pem.Block{Type: "CERTIFICATE", Bytes: der})
		pem.Encode(&o, &pem.Block{Type: "PRIVATE KEY", Bytes: kder})
	}
	if rng.Intn(3) == 0 {
		o.WriteString("\n") // a trailing blank line, as editors leave it
	}
	return o.Bytes(), fmt.Sprintf("(mkCert %d 0 0 %d %d %d %s) (mkKey %d EC)", 800+nuser, 800+nuser, 900+nuser, 900+nuser, bs(expired), 900+nuser)
}

// what the tool writes is a hash line and at most one block of each kind, nothing else: leftovers of an earlier, longer file
// (or a second certificate) would be read back instead of what was just written
func artifactProblem(data []byte) string {
	if bytes.HasPrefix(data, []byte("#HASH:")) {
		if ix := bytes.IndexByte(data, '\n'); ix >= 0 {
			data = data[ix+1:]
		}
	}
	count := map[string]int{}
	for {
		var p *pem.Block
		p, data = pem.Decode(data)
		if p == nil {
			break
		}
		count[p.Type]++
	}
	if len(bytes.TrimSpace(data)) != 0 {
		return fmt.Sprintf("%d bytes that are not PEM blocks", len(data))
	}
	for t, n := range count {
		if n > 1 {
			return fmt.Sprintf("%d blocks of type %s", n, t)
		}
	}
	return ""
}

type fileView struct {
	hash      bool
	crt       *x509.Certificate
	key       crypto.Signer
	req       *x509.CertificateRequest
	keyDER    []byte
	reqDER    []byte
	hasKeyBlk bool
}

func viewOf(data []byte) fileView {
	// a hash line counts when the marker is followed by a newline (a line cut before its end carries no hash for the tool)
	v := fileView{}
	if ix := bytes.Index(data, []byte("#HASH:")); ix >= 0 && bytes.IndexByte(data[ix:], '\n') >= 0 {
		v.hash = true
	}
	for {
		var p *pem.Block
		p, data = pem.Decode(data)
		if p == nil {
			return v
		}
		switch p.Type {
		case "CERTIFICATE":
			if v.crt == nil {
				v.crt, _ = x509.ParseCertificate(p.Bytes)
				if v.crt == nil {
					v.crt = &x509.Certificate{}
				}
			}
		case "PRIVATE KEY":
			k, err := x509.ParsePKCS8PrivateKey(p.Bytes)
			if err == nil && v.key == nil {
				v.key, _ = k.(crypto.Signer)
				v.keyDER = p.Bytes
			}
		case "CERTIFICATE REQUEST":
			if v.req == nil {
				v.req, _ = x509.ParseCertificateRequest(p.Bytes)
				if v.req == nil {
					v.req = &x509.CertificateRequest{}
				}
				v.reqDER = p.Bytes
			}
		}
	}
}

func bs(x bool) string {
	if x {
		return "true"
	}
	return "false"
}

type pubEq interface{ Equal(x crypto.PublicKey) bool }
type privEq interface {
	Equal(x crypto.PrivateKey) bool
}

// the same private key, however it is encoded (gopki re-writes a key file in its own fixed-width form)
func sameKey(a, b crypto.Signer) bool {
	if x, ok := a.(privEq); ok {
		return x.Equal(b)
	}
	return false
}

func observeDir(m fstest.MapFS, prev map[int]fileView, ents []dent) (string, map[int]fileView) {
	var sb []string
	cur := map[int]fileView{}
	for i, e := range ents {
		if !e.present {
			continue
		}
		f, ok := m[e.pemPath(i)]
		if !ok {
			sb = append(sb, fmt.Sprintf("(%d, [])", i))
			continue
		}
		cur[i] = viewOf(f.Data)
	}
	for i, e := range ents {
		v, ok := cur[i]
		if !e.present || !ok {
			continue
		}
		match, chain, mreq, keysame, reqsame, refl := false, false, false, false, false, false
		if v.crt != nil && v.crt.Raw != nil {
			// does the certificate show the subject and the extension of the entity's current configuration?
			want := fmt.Sprintf("e%d v%d", i, e.subj)
			hasExt, hasProf, anyProf := false, false, false
			for _, x := range v.crt.Extensions {
				if x.Id.String() == fmt.Sprintf("1.2.3.%d", e.vis) {
					hasExt = true
				}
				if strings.HasPrefix(x.Id.String(), "1.2.4.") {
					anyProf = true
					if x.Id.String() == fmt.Sprintf("1.2.4.%d", profVersion) {
						hasProf = true
					}
				}
			}
			refl = v.crt.Subject.CommonName == want && hasExt && ((e.prof && hasProf) || (!e.prof && !anyProf))
			if wa, ok := e.wantNotAfter(); ok && !v.crt.NotAfter.Equal(wa) {
				refl = false
			}
			if e.serial && (v.crt.SerialNumber == nil || v.crt.SerialNumber.Cmp(big.NewInt(e.serialNo(i))) != 0) {
				refl = false // the configured serial number is the certificate's, whatever the key material came from
			}
			if wa, ok := e.relEnd(v.crt.NotBefore); ok && !v.crt.NotAfter.Equal(wa) {
				refl = false
			}
		}
		if v.crt != nil && v.key != nil && v.crt.PublicKey != nil {
			if pk, ok := v.crt.PublicKey.(pubEq); ok {
				match = pk.Equal(v.key.Public())
			}
		}
		if v.crt != nil && v.req != nil && v.crt.PublicKey != nil && v.req.PublicKey != nil {
			if pk, ok := v.crt.PublicKey.(pubEq); ok {
				mreq = pk.Equal(v.req.PublicKey)
			}
		}
		if v.crt != nil && v.crt.Raw != nil {
			ic := v.crt
			if e.issuer >= 0 {
				ic = nil
				if e.issuer < len(ents) && ents[e.issuer].present {
					if pv, ok := cur[e.issuer]; ok {
						ic = pv.crt
					}
				}
			}
			if ic != nil && ic.Raw != nil {
				chain = ic.CheckSignature(v.crt.SignatureAlgorithm, v.crt.RawTBSCertificate, v.crt.Signature) == nil && bytes.Equal(v.crt.RawIssuer, ic.RawSubject)
			}
		}
		if p, ok := prev[i]; ok {
			keysame = v.key != nil && p.key != nil && sameKey(v.key, p.key)
			reqsame = v.req != nil && p.req != nil && bytes.Equal(v.reqDER, p.reqDER)
		}
		sb = append(sb, fmt.Sprintf("(%d, [%s;%s;%s;%s;%s;%s;%s;%s;%s;%s])", i, bs(v.hash), bs(v.crt != nil), bs(v.key != nil), bs(v.req != nil), bs(match), bs(chain), bs(mreq), bs(keysame), bs(reqsame), bs(refl)))
	}
	// the model lists entities in the order they were added; ours is by index, which is the order of addition
	sort.Slice(sb, func(a, b int) bool {
		var x, y int
		fmt.Sscanf(sb[a], "(%d,", &x)
		fmt.Sscanf(sb[b], "(%d,", &y)
		return order[x] < order[y]
	})
	return "[" + strings.Join(sb, "; ") + "]", cur
}

var order map[int]int // entity index -> position in the model's entity list

func snapshotNonPem(m fstest.MapFS) map[string]string {
	s := map[string]string{}
	for k, v := range m {
		s[k] = string(v.Data)
	}
	return s
}

func streamDirrun(faults bool) {
	n := 400
	if thorough() {
		n = 4000
	}
	for h := 0; h < n; h++ {
		oneHistory(h, faults)
	}
}

func oneHistory(h int, faults bool) {
	rng := rand.New(rand.NewSource(seed*1000003 + int64(h)*2 + int64(b01(faults))))
	var clock int64
	var writes []string
	m := fstest.MapFS{".": &fstest.MapFile{Mode: 0777 | fs.ModeDir}}
	m["README.txt"] = &fstest.MapFile{Data: []byte("not a config\n"), Mode: 0644, ModTime: dtm(0)}
	m["notes.yaml"] = &fstest.MapFile{Data: []byte("just: a yaml file without version\n"), Mode: 0644, ModTime: dtm(0)}
	m["sub/stray.pem"] = &fstest.MapFile{Data: []byte("-----BEGIN CERTIFICATE-----\nAAAA\n-----END CERTIFICATE-----\n"), Mode: 0644, ModTime: dtm(0)}
	flt := dfault{at: -1, edge: -1}
	l := lfs{m, &clock, &writes, &flt}
	ne := 3 + rng.Intn(3)
	ents := make([]dent, ne)
	for i := range ents {
		ents[i].issuer = -1
		if i > 0 && rng.Intn(6) != 0 {
			ents[i].issuer = rng.Intn(i)
		}
		ents[i].krsa = rng.Intn(6) == 0
		ents[i].prof = rng.Intn(3) == 0
		ents[i].vstyle = rng.Intn(5)
		if rng.Intn(9) == 0 {
			ents[i].vstyle = 5
		}
		ents[i].layout = rng.Intn(5)
		ents[i].serial = rng.Intn(3) == 0
		if ents[i].prof && rng.Intn(2) == 0 {
			ents[i].vstyle = 3 // no validity of its own: the profile's applies
		}
	}
	for i := range ents {
		signer := i
		if ents[i].issuer >= 0 {
			signer = ents[i].issuer
		}
		ents[i].srsa = ents[signer].krsa
		if rng.Intn(14) == 0 {
			ents[i].srsa = !ents[i].srsa
		}
	}
	order = map[int]int{}
	nreq, nuser := 0, 0
	profVersion, profStrict, profExpired = 0, false, rng.Intn(3) == 0 // a third of the histories start with a profile whose validity has ended
	m["profiles/shared.yaml"] = &fstest.MapFile{Data: []byte(profileYaml()), Mode: 0644, ModTime: dtm(0)}
	var ops, obs []string
	prev := map[int]fileView{}
	putcfg := func(i int) {
		clock++
		m[ents[i].cfgPath(i)] = &fstest.MapFile{Data: []byte(ents[i].yaml(i)), Mode: 0644, ModTime: dtm(clock)}
	}
	record := func(res string, w []string) {
		o, cur := observeDir(m, prev, ents)
		prev = cur
		code := map[string]int{"-": 0, "ok": 1, "err": 2, "panic": 3, "died": 4, "refused": 6}[res]
		obs = append(obs, fmt.Sprintf("(%d, [%s], %s)", code, strings.Join(w, ";"), o))
	}
	steps := ne + 3 + rng.Intn(9)
	lastStrat, lastOk := -1, false
	forceDefault := false
	for s := 0; s < steps; s++ {
		i := rng.Intn(ne)
		r := rng.Intn(100)
		// add the entities first, in order
		if s < ne {
			i = s
			ents[i].present = true
			order[i] = len(order)
			putcfg(i)
			ops = append(ops, fmt.Sprintf("U (OpAdd (mkEnt %d %s 0 None))", i, ents[i].coq()))
			record("-", nil)
			continue
		}
		if !ents[i].present {
			r = 0 // only runs make sense
		}
		if forceDefault {
			r = 0
		}
		switch {
		case r < 42:
			strat := []int{9, 9, 9, 9, 1, 8, 4, 13, 25, 12, 5, 16, 2, 11, 10, 6, 14, 3}[rng.Intn(18)]
			if forceDefault {
				strat, forceDefault = 9, false // the default flags right after an edit of a validity block only
			} else if lastOk && rng.Intn(2) == 0 {
				strat = lastStrat // "again with the same flags right after a successful run"
			}
			writes = nil
			res := "ok"
			flt = dfault{at: -1, edge: -1}
			fs_ := "None"
			faulty := faults && rng.Intn(100) < 45
			faultAt := -1
			if faulty {
				flt = dfault{at: rng.Intn(ne), kind: rng.Intn(4), kh: rng.Intn(2) == 1, kc: rng.Intn(2) == 1, kk: rng.Intn(2) == 1, kr: rng.Intn(2) == 1, frac: rng.Float64(), edge: rng.Intn(2000) - 1000}
				faultAt = flt.at
			}
			before := snapshotNonPem(m)
			func() {
				defer func() {
					if rec := recover(); rec != nil {
						if rec == "DIE" {
							res = "died"
						} else {
							res = "panic"
						}
					}
				}()
				d := filesystem.NewFilesystemDatabase(l)
				if err := d.Open(); err != nil {
					res = "refused"
					return
				}
				plan, err := db.PlanBulkUpdate(d, db.UpdateStrategy(strat))
				if err != nil {
					res = "err"
					return
				}
				if _, err = db.BulkUpdate(d, plan); err != nil {
					res = "err"
				}
			}()
			var w []string
			written := map[string]bool{}
			for _, name := range writes {
				written[name] = true
				found := false
				for j, e := range ents {
					if e.present && e.pemPath(j) == name {
						w = append(w, fmt.Sprint(j))
						found = true
					}
				}
				if !found {
					fmt.Fprintf(out, "SELFFAIL dirrun-%d-%d step %d: the run wrote %q, which is not the artifact path of any entity\n", seed, h, s, name)
				}
			}
			if res == "ok" {
				for name := range written {
					if f, ok := m[name]; ok {
						if pr := artifactProblem(f.Data); pr != "" {
							fmt.Fprintf(out, "SELFFAIL dirrun-%d-%d step %d: the artifact %q written by the run holds %s\n", seed, h, s, name, pr)
						}
					}
				}
			}
			for k, v := range before {
				if cur, ok := m[k]; !written[k] && (!ok || string(cur.Data) != v) {
					fmt.Fprintf(out, "SELFFAIL dirrun-%d-%d step %d: file %q was modified or removed by the run although it was not reported as written\n", seed, h, s, k)
				}
			}
			for k := range m {
				if _, ok := before[k]; !ok && !written[k] {
					fmt.Fprintf(out, "SELFFAIL dirrun-%d-%d step %d: file %q was created by the run\n", seed, h, s, k)
				}
			}
			if faulty {
				// (for a cut at a byte offset the kept blocks are known only now; when the faulty write was never reached they do not matter)
				oc := []string{"FailNoWrite", "", "DoneThenDie", ""}[flt.kind]
				if flt.kind == 1 || flt.kind == 3 {
					oc = fmt.Sprintf("(Torn (mkKeep %s %s %s %s))", bs(flt.kh), bs(flt.kc), bs(flt.kk), bs(flt.kr))
				}
				fs_ = fmt.Sprintf("(Some (%d, %s))", faultAt, oc)
			}
			ops = append(ops, fmt.Sprintf("R (mkStrat %s %s %s %s %s) %s", bs(strat&1 != 0), bs(strat&2 != 0), bs(strat&4 != 0), bs(strat&8 != 0), bs(strat&16 != 0), fs_))
			record(res, w)
			lastStrat, lastOk = strat, res == "ok" && !faulty
			continue
		case r < 52:
			if ents[i].serial && ents[i].sver < 3 && rng.Intn(2) == 0 {
				ents[i].sver++ // only the serial number changes
				forceDefault = lastOk || rng.Intn(2) == 0
			} else {
				ents[i].subj++
			}
			putcfg(i)
			ops = append(ops, fmt.Sprintf("U (OpEditCfg %d %s)", i, ents[i].coq()))
		case r < 62:
			if rng.Intn(2) == 0 && ents[i].vstyle != 3 && ents[i].vver < 3 {
				ents[i].vver++ // only the validity block changes
				forceDefault = lastOk || rng.Intn(2) == 0
			} else if ents[i].vis < 5 {
				ents[i].vis++
			} else {
				ents[i].subj++
			}
			putcfg(i)
			ops = append(ops, fmt.Sprintf("U (OpEditCfg %d %s)", i, ents[i].coq()))
		case r < 66: // change the issuer (may create a cycle or a self-loop: the run must then be refused)
			ents[i].issuer = rng.Intn(ne+1) - 1
			if ents[i].issuer >= 0 && !ents[ents[i].issuer].present {
				ents[i].issuer = -1
			}
			putcfg(i)
			ops = append(ops, fmt.Sprintf("U (OpEditCfg %d %s)", i, ents[i].coq()))
		case r < 69:
			putcfg(i)
			ops = append(ops, fmt.Sprintf("U (OpTouchCfg %d)", i))
		case r < 71: // the entity starts or stops referencing the shared profile (an edit of its own file)
			ents[i].prof = !ents[i].prof
			putcfg(i)
			ops = append(ops, fmt.Sprintf("U (OpEditCfg %d %s)", i, ents[i].coq()))
		case r < 76: // the shared profile is edited: one file changes, every entity that references it has a new effective configuration
			clock++
			switch rng.Intn(4) {
			case 0:
				profStrict = !profStrict
			case 1:
				profExpired = !profExpired
			default:
				if profVersion < 5 {
					profVersion++
				} else {
					profStrict = !profStrict
				}
			}
			m["profiles/shared.yaml"] = &fstest.MapFile{Data: []byte(profileYaml()), Mode: 0644, ModTime: dtm(clock)}
			var l []string
			for j := range ents {
				if ents[j].present && ents[j].prof {
					l = append(l, fmt.Sprintf("(%d, %s)", j, ents[j].coq()))
				}
			}
			ops = append(ops, "U (OpEditProfile ["+strings.Join(l, "; ")+"])")
			record("-", nil)
			lastOk = false
			continue
		case r < 80:
			clock++
			delete(m, ents[i].pemPath(i))
			ops = append(ops, fmt.Sprintf("U (OpDeleteFile %d)", i))
		case r < 81: // the entity is removed altogether (its subordinates now name an issuer nobody defines)
			clock++
			delete(m, ents[i].pemPath(i))
			delete(m, ents[i].cfgPath(i))
			ents[i].present = false
			delete(prev, i)
			ops = append(ops, fmt.Sprintf("U (OpRemove %d)", i))
		case r < 85:
			clock++
			nreq++
			k, _ := ecdsa.GenerateKey(elliptic.P256(), crand.Reader)
			tmpl := &x509.CertificateRequest{Subject: pkix.Name{CommonName: "req"}}
			if rng.Intn(2) == 0 {
				// two attributes, not in the order a DER SET OF would sort them into (a request is kept byte for byte, never re-encoded)
				tmpl.Attributes = []pkix.AttributeTypeAndValueSET{
					{Type: asn1.ObjectIdentifier{1, 2, 840, 113549, 1, 9, 8}, Value: [][]pkix.AttributeTypeAndValue{{{Type: asn1.ObjectIdentifier{2, 5, 4, 3}, Value: "second"}}}},
					{Type: asn1.ObjectIdentifier{1, 2, 840, 113549, 1, 9, 2}, Value: [][]pkix.AttributeTypeAndValue{{{Type: asn1.ObjectIdentifier{2, 5, 4, 3}, Value: "first"}}}},
				}
			}
			der, _ := x509.CreateCertificateRequest(crand.Reader, tmpl, k)
			var o bytes.Buffer
			pem.Encode(&o, &pem.Block{Type: "CERTIFICATE REQUEST", Bytes: der})
			m[ents[i].pemPath(i)] = &fstest.MapFile{Data: o.Bytes(), Mode: 0644, ModTime: dtm(clock)}
			ops = append(ops, fmt.Sprintf("U (OpSupplyCsr %d %d)", i, 500+nreq))
		case r < 91: // the user replaces the artifact by an own certificate and key, without hash line
			clock++
			nuser++
			data, term := userArtifact(rng, nuser)
			m[ents[i].pemPath(i)] = &fstest.MapFile{Data: data, Mode: 0644, ModTime: dtm(clock)}
			ops = append(ops, fmt.Sprintf("U (OpReplaceUser %d %s)", i, term))
		default:
			clock++
			name := ents[i].pemPath(i)
			kh, kc, kk, kr := rng.Intn(2) == 1, rng.Intn(2) == 1, rng.Intn(2) == 1, rng.Intn(2) == 1
			if kh && kc && (kk || kr) {
				// keeping hash line, certificate and key material only re-stamps the artifact ("touch x.pem"): excluded
				// from the histories of C12, no modification-time based tool can see through it
				kh = false
			}
			if f, ok := m[name]; ok {
				m[name] = &fstest.MapFile{Data: keepBlocks(f.Data, kh, kc, kk, kr), Mode: 0644, ModTime: dtm(clock)}
			}
			ops = append(ops, fmt.Sprintf("U (OpTear %d (mkKeep %s %s %s %s))", i, bs(kh), bs(kc), bs(kk), bs(kr)))
		}
		lastOk = false
		record("-", nil)
	}
	kind := "dirrun"
	if faults {
		kind = "dirfault"
	}
	fmt.Fprintf(out, "CASE %s-%d-%d %d entities %d steps :: %s\n", kind, seed, h, ne, len(ops), strings.Join(ops, "; "))
	fmt.Fprintf(out, "COQ ([%s], [%s])\n", strings.Join(ops, "; "), strings.Join(obs, "; "))
}
