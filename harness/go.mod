module verifharness

go 1.20

require (
	github.com/ghodss/yaml v1.0.0
	github.com/keybase/go-crypto v0.0.0-20200123153347-de78d2cb44f4
	github.com/wokdav/gopki v0.0.0
)

require (
	github.com/santhosh-tekuri/jsonschema v1.2.4 // indirect
	gopkg.in/yaml.v2 v2.4.0 // indirect
)

replace github.com/wokdav/gopki => /repo
