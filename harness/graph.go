package main

// C18: every issuer assignment on n entities through the real FsDb.Open over an in-memory directory.
// G lines: see ocaml/driver.ml.  The harness also checks by itself that a refused directory is left untouched.

import (
	"fmt"
	"io/fs"
	"strings"
	"testing/fstest"
	"time"

	"github.com/wokdav/gopki/generator/db"
	"github.com/wokdav/gopki/generator/db/filesystem"
)

func init() { streams["graph"] = streamGraph }

func snapshot(m fstest.MapFS) string {
	var sb strings.Builder
	names := make([]string, 0, len(m))
	for k := range m {
		names = append(names, k)
	}
	sortStrings(names)
	for _, k := range names {
		fmt.Fprintf(&sb, "%s=%x;", k, m[k].Data)
	}
	return sb.String()
}

func sortStrings(a []string) {
	for i := 1; i < len(a); i++ {
		for j := i; j > 0 && a[j] < a[j-1]; j-- {
			a[j], a[j-1] = a[j-1], a[j]
		}
	}
}

func graphCase(issuers []int, dup bool) { graphCase2(issuers, b01(dup)) }

// dup: 0 none, 1 a second file resolving to an existing alias, 3/4 the same inside one directory (same stem, other suffix),
// 2 two config files with different aliases but the same stem
// (a.yaml / a.yml): they would share one artifact file and must be refused as well (F20)
func graphCase2(issuers []int, dupKind int) {
	dup := dupKind == 1
	m := fstest.MapFS{".": &fstest.MapFile{Mode: 0777 | fs.ModeDir}}
	t0 := time.Now().Add(-time.Hour)
	for k, i := range issuers {
		y := fmt.Sprintf("version: 1\nsubject: CN=e%d\n", k)
		switch {
		case i == 99:
			y += "issuer: nobody\n"
		case i >= 0:
			y += fmt.Sprintf("issuer: e%d\n", i)
		}
		dir := []string{"", "sub/", "sub/deeper/"}[k%3]
		m[fmt.Sprintf("%se%d.yaml", dir, k)] = &fstest.MapFile{Data: []byte(y), Mode: 0644, ModTime: t0}
	}
	if dup {
		// a second file resolving to the alias e0 through an explicit alias
		m["other/x.yaml"] = &fstest.MapFile{Data: []byte("version: 1\nalias: e0\nsubject: CN=dup\n"), Mode: 0644, ModTime: t0}
	}
	if dupKind == 3 { // same directory, same stem, same (implicit) alias, different suffix
		m["twin/t.yaml"] = &fstest.MapFile{Data: []byte("version: 1\nsubject: CN=twin one\n"), Mode: 0644, ModTime: t0}
		m["twin/t.yml"] = &fstest.MapFile{Data: []byte("version: 1\nsubject: CN=twin two\n"), Mode: 0644, ModTime: t0}
	}
	if dupKind == 4 { // the same with an explicit alias and suffixes in different case
		m["twin/ca.json"] = &fstest.MapFile{Data: []byte(`{"version": 1, "alias": "shared", "subject": "CN=twin one"}`), Mode: 0644, ModTime: t0}
		m["twin/ca.YAML"] = &fstest.MapFile{Data: []byte("version: 1\nalias: shared\nsubject: CN=twin two\n"), Mode: 0644, ModTime: t0}
	}
	if dupKind == 2 {
		m["twin/t.yaml"] = &fstest.MapFile{Data: []byte("version: 1\nalias: twin-one\nsubject: CN=twin one\n"), Mode: 0644, ModTime: t0}
		m["twin/t.yml"] = &fstest.MapFile{Data: []byte("version: 1\nalias: twin-two\nsubject: CN=twin two\n"), Mode: 0644, ModTime: t0}
	}
	before := snapshot(m)
	d := filesystem.NewFilesystemDatabase(filesystem.NewMapFs(m))
	opened := 0
	func() {
		defer func() {
			if r := recover(); r != nil {
				opened = 7
			}
		}()
		if err := d.Open(); err == nil {
			opened = 1
			return
		}
		// a refused hierarchy: planning and signing must not be possible / must not write
		if plan, err := db.PlanBulkUpdate(d, db.UpdateAll); err == nil {
			db.BulkUpdate(d, plan)
		}
	}()
	if opened != 1 && snapshot(m) != before {
		opened = 8 // refused but files changed
	}
	is := make([]string, len(issuers))
	for k, i := range issuers {
		is[k] = fmt.Sprint(i)
	}
	fmt.Fprintf(out, "G %s|%d|%d\n", strings.Join(is, ","), dupKind, opened)
}

func streamGraph() {
	maxn := 4
	if thorough() {
		maxn = 6
	}
	for n := 1; n <= maxn; n++ {
		// issuer of entity k in {-1 root, 0..n-1, 99 dangling}
		vals := []int{-1, 99}
		for j := 0; j < n; j++ {
			vals = append(vals, j)
		}
		cur := make([]int, n)
		var rec func(k int)
		rec = func(k int) {
			if k == n {
				graphCase(append([]int{}, cur...), false)
				return
			}
			for _, v := range vals {
				cur[k] = v
				rec(k + 1)
			}
		}
		rec(0)
	}
	// larger shapes: a chain of 40, a fan of 60, the same with the root turned into a cycle member / a dangling issuer
	for _, n := range []int{40, 60} {
		chain := make([]int, n)
		fan := make([]int, n)
		for j := range chain {
			chain[j], fan[j] = j-1, 0
		}
		fan[0] = -1
		graphCase(append([]int{}, chain...), false)
		graphCase(append([]int{}, fan...), false)
		chain[0] = n - 1
		graphCase(append([]int{}, chain...), false)
		chain[0] = 99
		graphCase(append([]int{}, chain...), false)
		fan[n-1] = n - 1
		graphCase(append([]int{}, fan...), false)
	}
	// duplicate alias on otherwise valid forests
	graphCase([]int{-1}, true)
	graphCase([]int{-1, 0}, true)
	graphCase([]int{-1, 0, 1}, true)
	graphCase([]int{-1, -1, 0, 1}, true)
	for _, k := range []int{3, 4} {
		graphCase2([]int{-1}, k)
		graphCase2([]int{-1, 0}, k)
	}
	graphCase2([]int{-1}, 2)
	graphCase2([]int{-1, 0, 1}, 2)
	graphCase2([]int{-1, -1, 0, 1}, 2)
}
