package main

// C20: hostile values in the slots of schema-valid configurations, hostile artifact files, and byte-level mutations of
// the repository's own example and test corpora.  Every stage of the real code runs under recover(); a panic is a
// SELFFAIL.  Where the configuration still parses, the case also goes to the Coq model, which must predict
// "certificate with these bytes" or "error" alike (certificate stream, focus c20).

import (
	"fmt"
	"io/fs"
	"math/rand"
	"os"
	"path/filepath"
	"strings"
	"testing/fstest"
	"time"

	"github.com/wokdav/gopki/generator/config"
	"github.com/wokdav/gopki/generator/db"
	"github.com/wokdav/gopki/generator/db/filesystem"
)

func init() {
	streams["cert-c20"] = streamHostileCfg
	streams["hostile-files"] = streamHostileFiles
}

var hostileOids = []string{"1.2.99999999999999999999999", "1.2.-3", "1..2", "3.1", "1", "1.2.", ".1.2", "1.40", "0.40", "2.999.1", "1.2.18446744073709551616",
	"1.2.9223372036854775807", "1.2.9223372036854775808", "1.2.2147483648", "1.2.4294967296", "1.2.3.4.5.6.7.8.9.10.11.12.13.14.15.16.17.18.19.20", "2.5.29.15", "0.0", "1.2.00003", "1.2.+3"}
var hostileDates = []string{"2024-02-30", "0000-01-01", "9999-12-31", "2024-13-01", "2024-00-10", "2023-02-29", "2024-2-3", "20240203", "2024-02-03T00:00:00Z", "1949-12-31", "0001-01-01"}
var hostileDurations = []string{"99999999999999999999y", "9223372036854775807d", "0d", "0y0m0d", "1y1y", "d", "1", "1m1y", "100000y", "292277026597y"}
var hostileRaws = []string{"!binary:", "!binary:%%%", "!binary:QQ", "!binary:QQ=", "!binary:QQ==\n", "!bogus", "binary:AQID", "!binary: AQID", "!BINARY:AQID", "!null ", "!empty!", "!binary:====", "!binary:AQIDBA==AQID"}
var hostileSubjects = []string{"CN=", "=x", "CN=a,,O=b", "CN=#", "CN=#zz", "CN=#13", "CN=#1301", "CN=#130141", "CN=#0c0141", "CN=#1303414243", "CN=#30", "CN=\\,", "CN=a\\", "CN=a=b", "CN", ",", " ", "CN= x ", "1.2.99999999999999999999=x",
	"CN=#13ff41", "CN=#13814141", "3.1=x", "1=x", "CN=a\\,b, O=c", "cn=lower", "CN=" + strings.Repeat("x", 4000)} // (List.rev in the model is quadratic: longer strings only cost evaluation time)
var hostileIPs = []string{"256.1.1.1", "1.2.3", "1.2.3.4.5", "-1.2.3.4", "a.b.c.d", "300.1.2.3", "1.2.3.999999999999999999999", "", "::1", "1.2.3.4 ", "01.02.03.04"}

func ptr[T any](v T) *T { return &v }

// one hostile replacement in a configuration produced by the random generator
func (g *gen) poison(c *Cfg) string {
	for try := 0; try < 20; try++ {
		switch g.r.Intn(16) {
		case 0:
			c.Subject = hostileSubjects[g.r.Intn(len(hostileSubjects))]
			return "subject"
		case 1:
			c.Validity = Validity{From: hostileDates[g.r.Intn(len(hostileDates))], Until: g.pick("2030-01-01", hostileDates[g.r.Intn(len(hostileDates))])}
			return "validity dates"
		case 2:
			c.Validity = Validity{From: g.pick("", "2024-02-29"), Duration: hostileDurations[g.r.Intn(len(hostileDurations))]}
			return "duration"
		case 3:
			c.Validity = Validity{From: "2024-01-01", Until: "2025-01-01", Duration: "1y"}
			return "until and duration"
		case 4:
			c.Serial = []int64{-1, -9223372036854775808, 9223372036854775807, -128, -129}[g.r.Intn(5)]
			return "serial"
		case 5:
			c.IssuerUID = hostileRaws[g.r.Intn(len(hostileRaws))]
			return "issuerUniqueId"
		case 6:
			c.SubjectUID = hostileRaws[g.r.Intn(len(hostileRaws))]
			return "subjectUniqueId"
		case 7:
			c.Exts = append(c.Exts, Ext{Kind: "custom", Oid: hostileOids[g.r.Intn(len(hostileOids))], Raw: "!null", Crit: -1})
			return "custom oid"
		case 8:
			c.Exts = append(c.Exts, Ext{Kind: g.pick("ku", "san", "bc", "custom", "aki", "ski"), Oid: "1.2.3", Raw: hostileRaws[g.r.Intn(len(hostileRaws))], Crit: -1})
			return "raw value"
		case 9:
			c.Exts = append(c.Exts, Ext{Kind: "eku", HasContent: true, Crit: -1, List: []string{"serverAuth", hostileOids[g.r.Intn(len(hostileOids))]}})
			return "eku oid"
		case 10:
			c.Exts = append(c.Exts, Ext{Kind: "cp", HasContent: true, Crit: -1, Pols: []Policy{{Oid: hostileOids[g.r.Intn(len(hostileOids))]}}})
			return "policy oid"
		case 11:
			c.Exts = append(c.Exts, Ext{Kind: "san", HasContent: true, Crit: -1, Names: [][2]string{{"ip", hostileIPs[g.r.Intn(len(hostileIPs))]}}})
			return "san ip"
		case 12:
			m := Manip{}
			switch g.r.Intn(4) {
			case 0:
				m.Outer = hostileOids[g.r.Intn(len(hostileOids))]
			case 1:
				m.Inner = hostileOids[g.r.Intn(len(hostileOids))]
			case 2:
				m.PkAlg = hostileOids[g.r.Intn(len(hostileOids))]
			case 3:
				m.Pk = hostileRaws[g.r.Intn(len(hostileRaws))]
			}
			c.Manip = m
			return "manipulation"
		case 13:
			c.Exts = append(c.Exts, Ext{Kind: "adm", HasContent: true, Crit: -1, Adm: &Admission{Auth: &[2]string{"ip", hostileIPs[g.r.Intn(len(hostileIPs))]},
				List: []Admissions{{Naming: &Naming{Oid: hostileOids[g.r.Intn(len(hostileOids))]}, Infos: []ProfInfo{{Items: []string{"x"}, Oids: []string{hostileOids[g.r.Intn(len(hostileOids))]}, AddInfo: hostileRaws[g.r.Intn(len(hostileRaws))]}}}}}})
			return "admission members"
		case 14:
			c.Exts = append(c.Exts, Ext{Kind: "aki", HasContent: true, Crit: -1, Str: g.pick("nohash", "HASH", "", "!binary:", "!binary:%%")})
			return "aki id"
		case 15:
			c.Exts = append(c.Exts, Ext{Kind: "bc", HasContent: true, Crit: -1, HasPl: true, PathLen: []int64{-1, 2147483648, 9223372036854775807}[g.r.Intn(3)]})
			return "pathLen"
		}
	}
	return "none"
}

// every hostile value once in every slot it applies to (on a plain subordinate)
func hostileSweep() []func(c *Cfg) string {
	var fs []func(c *Cfg) string
	add := func(slot string, f func(c *Cfg)) { fs = append(fs, func(c *Cfg) string { f(c); return slot }) }
	for _, v := range hostileSubjects {
		v := v
		add("subject", func(c *Cfg) { c.Subject = v })
	}
	for _, v := range hostileDates {
		v := v
		add("from", func(c *Cfg) { c.Validity = Validity{From: v, Until: "2030-01-01"} })
		add("until", func(c *Cfg) { c.Validity = Validity{From: "2020-01-01", Until: v} })
	}
	for _, v := range hostileDates {
		v := v
		add("from-alone", func(c *Cfg) { c.Validity = Validity{From: v} })                    // the default lifetime is added to it
		add("from-plus-day", func(c *Cfg) { c.Validity = Validity{From: v, Duration: "1d"} }) // may cross the year 9999
	}
	add("duration-to-year-10000", func(c *Cfg) { c.Validity = Validity{From: "2024-01-01", Duration: "9999y"} })
	add("duration-to-year-10000", func(c *Cfg) { c.Validity = Validity{From: "9000-01-01", Duration: "11999m"} })
	for _, v := range hostileDurations {
		v := v
		add("duration", func(c *Cfg) { c.Validity = Validity{From: "2024-02-29", Duration: v} })
		add("duration-relative", func(c *Cfg) { c.Validity = Validity{Duration: v} })
	}
	for _, v := range hostileRaws {
		v := v
		add("issuerUniqueId", func(c *Cfg) { c.IssuerUID = v })
		add("raw", func(c *Cfg) { c.Exts = []Ext{{Kind: "ku", Raw: v, Crit: -1}} })
		add("custom-raw", func(c *Cfg) { c.Exts = []Ext{{Kind: "custom", Oid: "1.2.3", Raw: v, Crit: -1}} })
		add("manip-pk", func(c *Cfg) { c.Manip = Manip{Pk: v} })
		add("manip-sig", func(c *Cfg) { c.Manip = Manip{SigValue: v} })
		add("addProfessionInfo", func(c *Cfg) {
			c.Exts = []Ext{{Kind: "adm", HasContent: true, Crit: -1, Adm: &Admission{List: []Admissions{{Infos: []ProfInfo{{Items: []string{"x"}, AddInfo: v}}}}}}}
		})
		add("aki-id", func(c *Cfg) { c.Exts = []Ext{{Kind: "aki", HasContent: true, Crit: -1, Str: v}} })
		add("ski-content", func(c *Cfg) { c.Exts = []Ext{{Kind: "ski", HasContent: true, Crit: -1, Str: v}} })
	}
	for _, v := range hostileOids {
		v := v
		add("custom-oid", func(c *Cfg) { c.Exts = []Ext{{Kind: "custom", Oid: v, Raw: "!null", Crit: -1}} })
		add("eku-oid", func(c *Cfg) { c.Exts = []Ext{{Kind: "eku", HasContent: true, Crit: -1, List: []string{v}}} })
		add("policy-oid", func(c *Cfg) { c.Exts = []Ext{{Kind: "cp", HasContent: true, Crit: -1, Pols: []Policy{{Oid: v}}}} })
		add("manip-outer", func(c *Cfg) { c.Manip = Manip{Outer: v} })
		add("manip-inner", func(c *Cfg) { c.Manip = Manip{Inner: v} })
		add("manip-pkalg", func(c *Cfg) { c.Manip = Manip{PkAlg: v} })
		add("naming-oid", func(c *Cfg) {
			c.Exts = []Ext{{Kind: "adm", HasContent: true, Crit: -1, Adm: &Admission{List: []Admissions{{Naming: &Naming{Oid: v}, Infos: []ProfInfo{{Items: []string{"x"}}}}}}}}
		})
		add("profession-oid", func(c *Cfg) {
			c.Exts = []Ext{{Kind: "adm", HasContent: true, Crit: -1, Adm: &Admission{List: []Admissions{{Infos: []ProfInfo{{Items: []string{"x"}, Oids: []string{v}}}}}}}}
		})
		add("subject-attribute-oid", func(c *Cfg) { c.Subject = v + "=x" })
	}
	for _, v := range hostileIPs {
		v := v
		add("san-ip", func(c *Cfg) { c.Exts = []Ext{{Kind: "san", HasContent: true, Crit: -1, Names: [][2]string{{"ip", v}}}} })
		add("admission-ip", func(c *Cfg) {
			c.Exts = []Ext{{Kind: "adm", HasContent: true, Crit: -1, Adm: &Admission{Auth: &[2]string{"ip", v}, List: []Admissions{{Infos: []ProfInfo{{Items: []string{"x"}}}}}}}}
		})
	}
	for _, v := range []int64{-1, -9223372036854775808, 9223372036854775807, -128, -129} {
		v := v
		add("serial", func(c *Cfg) { c.Serial = v })
	}
	for _, v := range []string{"9223372036854775808", "18446744073709551615", "18446744073709551616", "-9223372036854775809", "1e3", "1.0", "12345678901234567890123456789012345678901234567890"} {
		v := v
		add("serial-text", func(c *Cfg) { c.SerialBig = v })
	}
	// general names without a "type" key (the schema requires neither key), alone and between well-formed entries
	add("san-typeless", func(c *Cfg) {
		c.Exts = []Ext{{Kind: "san", HasContent: true, Crit: -1, Names: [][2]string{{"-", "other.example.org"}}}}
	})
	add("san-typeless-second", func(c *Cfg) {
		c.Exts = []Ext{{Kind: "san", HasContent: true, Crit: -1, Names: [][2]string{{"dns", "a.example"}, {"-", "b.example"}, {"mail", "c@d.example"}}}}
	})
	add("admission-typeless", func(c *Cfg) {
		c.Exts = []Ext{{Kind: "adm", HasContent: true, Crit: -1, Adm: &Admission{Auth: &[2]string{"-", "x"}, List: []Admissions{{Auth: &[2]string{"-", "y"}, Infos: []ProfInfo{{Items: []string{"x"}}}}}}}}
	})
	// the empty string (and a blank) in every string slot of the extension schemas
	for _, v := range []string{"", " "} {
		v := v
		add("empty cps", func(c *Cfg) {
			c.Exts = []Ext{{Kind: "cp", HasContent: true, Crit: -1, Pols: []Policy{{Oid: "1.2.3.4", HasQuals: true, Quals: []Qualifier{{Cps: v}}}}}}
		})
		add("empty policy oid", func(c *Cfg) { c.Exts = []Ext{{Kind: "cp", HasContent: true, Crit: -1, Pols: []Policy{{Oid: v}}}} })
		add("empty ocsp", func(c *Cfg) { c.Exts = []Ext{{Kind: "aia", HasContent: true, Crit: -1, List: []string{v}}} })
		add("empty eku", func(c *Cfg) { c.Exts = []Ext{{Kind: "eku", HasContent: true, Crit: -1, List: []string{v}}} })
		add("empty ku flag", func(c *Cfg) { c.Exts = []Ext{{Kind: "ku", HasContent: true, Crit: -1, List: []string{v}}} })
		add("empty san name", func(c *Cfg) {
			c.Exts = []Ext{{Kind: "san", HasContent: true, Crit: -1, Names: [][2]string{{"dns", v}, {"mail", v}}}}
		})
		add("empty san type", func(c *Cfg) { c.Exts = []Ext{{Kind: "san", HasContent: true, Crit: -1, Names: [][2]string{{v, "x"}}}} })
		add("empty ski", func(c *Cfg) { c.Exts = []Ext{{Kind: "ski", HasContent: true, Crit: -1, Str: v}} })
		add("empty custom oid", func(c *Cfg) { c.Exts = []Ext{{Kind: "custom", Oid: v, Raw: "!null", Crit: -1}} })
		add("empty notice members", func(c *Cfg) {
			c.Exts = []Ext{{Kind: "cp", HasContent: true, Crit: -1, Pols: []Policy{{Oid: "1.2.3.4", HasQuals: true, Quals: []Qualifier{{Notice: &UserNotice{Org: v, Text: v, HasNums: true}}}}}}}
		})
		add("empty admission strings", func(c *Cfg) {
			c.Exts = []Ext{{Kind: "adm", HasContent: true, Crit: -1, Adm: &Admission{Auth: &[2]string{"dns", v}, List: []Admissions{{Naming: &Naming{Oid: v, Url: v, Text: v},
				Infos: []ProfInfo{{Items: []string{v}, Oids: []string{v}, RegNum: v, AddInfo: v}}}}}}}
		})
		add("empty key algorithm", func(c *Cfg) { c.KeyAlg = v })
		add("empty signature algorithm", func(c *Cfg) { c.SigAlg = v })
	}
	for _, v := range []int64{-1, 2147483648, 9223372036854775807} {
		v := v
		add("pathLen", func(c *Cfg) { c.Exts = []Ext{{Kind: "bc", HasContent: true, Crit: -1, HasPl: true, PathLen: v}} })
	}
	return fs
}

func streamHostileCfg() {
	g := &gen{r: rand.New(rand.NewSource(seed*104729 + 20)), focus: "c20"}
	n := 250
	if thorough() {
		n = 5000
	}
	sweep := hostileSweep()
	for i := 0; i < n+len(sweep); i++ {
		var ents []entity
		var profs []*Profile
		var which int
		var slot string
		var benign Cfg
		if i < len(sweep) {
			ents = []entity{{name: "root", cfg: plainRoot()}, {name: "sub", cfg: plainSub(i)}}
			ents[1].cfg.Issuer, ents[1].cfg.SigAlg = "root", "ECDSAwithSHA256"
			which = 1
			benign = ents[1].cfg
			slot = sweep[i](&ents[1].cfg)
		} else {
			ents, profs = g.hierarchy(i)
			which = g.r.Intn(2)
			benign = ents[which].cfg
			slot = g.poison(&ents[which].cfg)
		}
		_ = slot
		text := jsonText(ents[which].cfg.tree())
		// the hostile value as an *edit*: the entity already has an artifact (and a stored hash) from its previous configuration
		// when the hostile text arrives; planning under every kind of flag must not panic (F28 was found this way)
		runHostileEdit(fmt.Sprintf("c20-%d-%d-edit[%s]", seed, i, slot), ents, profs, which, benign, text)
		// does the configuration still pass parsing and the schema?  If not it is skipped with a warning: no model case
		parsed := true
		func() {
			defer func() {
				if r := recover(); r != nil {
					fmt.Fprintf(out, "SELFFAIL c20-%d-%d: ParseConfig panicked on a hostile %s: %v :: %s\n", seed, i, slot, r, text)
					parsed = false
				}
			}()
			if _, err := config.ParseConfig(strings.NewReader(text)); err != nil {
				parsed = false
			}
		}()
		if !parsed {
			fmt.Fprintf(out, "NOTE c20-%d-%d hostile %s rejected at parse time\n", seed, i, slot)
			// still run the directory: the file must be skipped, nothing may panic
			ents[which].cfg.Subject = "CN=placeholder" // the model is not consulted for this entity
			runHostileDir(fmt.Sprintf("c20-%d-%d", seed, i), ents, profs, which, text)
			continue
		}
		runHierarchy(fmt.Sprintf("c20-%d-%d[%s]", seed, i, slot), ents, profs)
	}
}

// the directory with one config replaced by [text]; only panics are of interest
func runHostileDir(tag string, ents []entity, profs []*Profile, which int, text string) {
	m := fstest.MapFS{".": &fstest.MapFile{Mode: 0777 | fs.ModeDir}}
	t0 := time.Now().Add(-time.Hour)
	for _, p := range profs {
		m["profiles/"+p.Name+".yaml"] = &fstest.MapFile{Data: []byte(yamlOf(p.tree())), Mode: 0644, ModTime: t0}
	}
	for i, e := range ents {
		data := yamlOf(e.cfg.tree())
		if i == which {
			data = text
		}
		m[e.name+".yaml"] = &fstest.MapFile{Data: []byte(data), Mode: 0644, ModTime: t0}
	}
	runGuarded(tag, m, 9)
}

func runHostileEdit(tag string, ents []entity, profs []*Profile, which int, benign Cfg, text string) {
	m := fstest.MapFS{".": &fstest.MapFile{Mode: 0777 | fs.ModeDir}}
	t0 := time.Now().Add(-time.Hour)
	for _, p := range profs {
		m["profiles/"+p.Name+".yaml"] = &fstest.MapFile{Data: []byte(yamlOf(p.tree())), Mode: 0644, ModTime: t0}
	}
	for i, e := range ents {
		c := e.cfg
		if i == which {
			c = benign
		}
		m[e.name+".yaml"] = &fstest.MapFile{Data: []byte(yamlOf(c.tree())), Mode: 0644, ModTime: t0}
	}
	if runGuarded(tag+"/before", m, 9) != "ok" {
		return // the unedited hierarchy does not build (random hierarchies may be unsatisfiable): nothing to edit
	}
	m[ents[which].name+".yaml"] = &fstest.MapFile{Data: []byte(text), Mode: 0644, ModTime: time.Now()}
	for _, strat := range []int{9, 2, 4, 8, 16} {
		// on a copy, so that every strategy meets the same state
		c := fstest.MapFS{}
		for k, v := range m {
			cp := *v
			c[k] = &cp
		}
		runGuarded(tag, c, strat)
	}
}

func runGuarded(tag string, m fstest.MapFS, strat int) string {
	status := "ok"
	func() {
		defer func() {
			if r := recover(); r != nil {
				status = "panic"
				var names []string
				for k := range m {
					names = append(names, k)
				}
				fmt.Fprintf(out, "SELFFAIL %s: the real code panicked (strategy %d): %v :: files %v\n", tag, strat, r, names)
			}
		}()
		d := filesystem.NewFilesystemDatabase(filesystem.NewMapFs(m))
		if err := d.Open(); err != nil {
			status = "open-error"
			return
		}
		plan, err := db.PlanBulkUpdate(d, db.UpdateStrategy(strat))
		if err != nil {
			status = "plan-error"
			return
		}
		if _, err = db.BulkUpdate(d, plan); err != nil {
			status = "update-error"
		}
	}()
	return status
}

// hostile artifact files and mutated corpora
func streamHostileFiles() {
	rng := rand.New(rand.NewSource(seed*7 + 20))
	n := 0
	hist := map[string]int{}
	// 1. the hash-line scanner: every arrangement of marker / newline / text pieces, also goes to the model (H cases)
	pieces := []string{"#HASH:", "\n", "QUJD", "#HASH", ":", "-----BEGIN CERTIFICATE-----\n", "AAAA\n", "-----END CERTIFICATE-----\n", " ", "#HASH:QUJD\n", "\r\n", "=", "x"}
	count := 600
	if thorough() {
		count = 20000
	}
	for i := 0; i < count; i++ {
		var sb strings.Builder
		for k, l := 0, rng.Intn(7); k < l; k++ {
			sb.WriteString(pieces[rng.Intn(len(pieces))])
		}
		hashCase(fmt.Sprintf("hash-%d", i), []byte(sb.String()))
		n++
	}
	for _, s := range []string{"", "#HASH:", "#HASH:\n", "\n#HASH:QUJD\n", "x#HASH:QUJD\n", "#HASH:QUJD", "#HASH:QUJD\n#HASH:REVG\n", "\n\n\n#HASH:QUJD\n", "AAAA\n#HASH:QUJD\n", "#HASH:%%%\n"} {
		hashCase("hash-fixed", []byte(s))
		n++
	}
	// 2. byte-level mutations of the repository's own examples and test vectors as config / profile / artifact files
	repo := os.Getenv("VERIF_REPO")
	if repo == "" {
		repo = "/repo"
	}
	var corpus [][]byte
	filepath.WalkDir(repo, func(p string, d fs.DirEntry, err error) error {
		if err != nil || d.IsDir() {
			if d != nil && d.IsDir() && d.Name() == ".git" {
				return filepath.SkipDir
			}
			return nil
		}
		if strings.HasSuffix(p, ".yaml") || strings.HasSuffix(p, ".yml") || (strings.HasSuffix(p, ".json") && !strings.Contains(p, "_test")) {
			if b, err := os.ReadFile(p); err == nil && len(b) < 20000 {
				corpus = append(corpus, b)
			}
		}
		return nil
	})
	// a real artifact to mutate
	m0 := fstest.MapFS{".": &fstest.MapFile{Mode: 0777 | fs.ModeDir}}
	m0["root.yaml"] = &fstest.MapFile{Data: []byte("version: 1\nsubject: CN=root\n"), Mode: 0644, ModTime: time.Now().Add(-time.Hour)}
	m0["sub.yaml"] = &fstest.MapFile{Data: []byte("version: 1\nsubject: CN=sub\nissuer: root\n"), Mode: 0644, ModTime: time.Now().Add(-time.Hour)}
	runPlain(m0)
	rootPem, subPem := m0["root.pem"].Data, m0["sub.pem"].Data
	muts := 400
	if thorough() {
		muts = 20000
	}
	mutate := func(b []byte) []byte {
		c := append([]byte{}, b...)
		for k, l := 0, 1+rng.Intn(4); k < l && len(c) > 0; k++ {
			switch rng.Intn(5) {
			case 0:
				c[rng.Intn(len(c))] = byte(rng.Intn(256))
			case 1:
				at := rng.Intn(len(c))
				c = append(c[:at], c[at+1:]...)
			case 2:
				at := rng.Intn(len(c) + 1)
				ins := []string{"\n", ":", "- ", "  ", "#HASH:", "!binary:", "{", "]", "\"", "0", "99999999999999999999", "\x00", "é"}[rng.Intn(13)]
				c = append(append(append([]byte{}, c[:at]...), ins...), c[at:]...)
			case 3:
				c = c[:rng.Intn(len(c)+1)]
			case 4:
				a, b2 := rng.Intn(len(c)), rng.Intn(len(c))
				c[a], c[b2] = c[b2], c[a]
			}
		}
		return c
	}
	for i := 0; i < muts && len(corpus) > 0; i++ {
		m := fstest.MapFS{".": &fstest.MapFile{Mode: 0777 | fs.ModeDir}}
		t0 := time.Now().Add(-time.Hour)
		m["root.yaml"] = &fstest.MapFile{Data: []byte("version: 1\nsubject: CN=root\n"), Mode: 0644, ModTime: t0}
		m["sub.yaml"] = &fstest.MapFile{Data: []byte("version: 1\nsubject: CN=sub\nissuer: root\n"), Mode: 0644, ModTime: t0}
		m["root.pem"] = &fstest.MapFile{Data: rootPem, Mode: 0644, ModTime: t0.Add(time.Minute)}
		m["sub.pem"] = &fstest.MapFile{Data: subPem, Mode: 0644, ModTime: t0.Add(2 * time.Minute)}
		kind := rng.Intn(4)
		switch kind {
		case 0:
			m[[]string{"x.yaml", "x.yml", "x.json", "X.YAML"}[rng.Intn(4)]] = &fstest.MapFile{Data: mutate(corpus[rng.Intn(len(corpus))]), Mode: 0644, ModTime: t0}
		case 1:
			m["root.pem"] = &fstest.MapFile{Data: mutate(rootPem), Mode: 0644, ModTime: t0.Add(time.Minute)}
		case 2:
			m["sub.pem"] = &fstest.MapFile{Data: mutate(subPem), Mode: 0644, ModTime: t0.Add(2 * time.Minute)}
		case 3:
			m["sub.yaml"] = &fstest.MapFile{Data: mutate(m["sub.yaml"].Data), Mode: 0644, ModTime: t0}
		}
		st := runGuarded(fmt.Sprintf("mutated-%d-kind%d", i, kind), m, []int{9, 16, 1, 13, 31}[rng.Intn(5)])
		hist[fmt.Sprintf("kind%d/%s", kind, st)]++
		n++
	}
	// 3. every combination of artifact blocks x strategy for a two-tier hierarchy
	for mr := 0; mr < 16; mr++ {
		for ms := 0; ms < 16; ms++ {
			for _, strat := range []int{9, 1, 8, 16, 0, 31, 4, 2} {
				m := fstest.MapFS{".": &fstest.MapFile{Mode: 0777 | fs.ModeDir}}
				t0 := time.Now().Add(-time.Hour)
				m["root.yaml"] = &fstest.MapFile{Data: []byte("version: 1\nsubject: CN=root\n"), Mode: 0644, ModTime: t0}
				m["sub.yaml"] = &fstest.MapFile{Data: []byte("version: 1\nsubject: CN=sub\nissuer: root\n"), Mode: 0644, ModTime: t0}
				if mr != 0 {
					m["root.pem"] = &fstest.MapFile{Data: keepBlocks(rootPem, mr&1 != 0, mr&2 != 0, mr&4 != 0, false), Mode: 0644, ModTime: t0.Add(time.Minute)}
				}
				if ms != 0 {
					m["sub.pem"] = &fstest.MapFile{Data: keepBlocks(subPem, ms&1 != 0, ms&2 != 0, ms&4 != 0, false), Mode: 0644, ModTime: t0.Add(2 * time.Minute)}
				}
				st := runGuarded(fmt.Sprintf("blocks-%d-%d-s%d", mr, ms, strat), m, strat)
				hist["blocks/"+st]++
				n++
			}
		}
	}
	fmt.Fprintf(out, "SUMMARY cases=%d outcomes=%v\n", n, hist)
}

func hashCase(tag string, content []byte) {
	m := fstest.MapFS{".": &fstest.MapFile{Mode: 0777 | fs.ModeDir}}
	m["e.yaml"] = &fstest.MapFile{Data: []byte("version: 1\nsubject: CN=e\n"), Mode: 0644, ModTime: time.Now().Add(-time.Hour)}
	m["e.pem"] = &fstest.MapFile{Data: content, Mode: 0644, ModTime: time.Now().Add(-time.Minute)}
	res := "HPanic"
	func() {
		defer func() {
			if r := recover(); r != nil {
				fmt.Fprintf(out, "SELFFAIL %s: Open panicked on an artifact file: %v :: %q\n", tag, r, content)
			}
		}()
		d := filesystem.NewFilesystemDatabase(filesystem.NewMapFs(m))
		if err := d.Open(); err != nil {
			res = "HErr"
			return
		}
		md, _ := d.GetMetadata("e")
		if md == nil || md.LastConfigHash == nil {
			res = "HNone"
		} else {
			res = "(HSome " + cqBytes(md.LastConfigHash) + ")"
		}
	}()
	fmt.Fprintf(out, "CASE %s %q -> %s\n", tag, content, strings.SplitN(res, " ", 2)[0])
	fmt.Fprintf(out, "COQ H mkHashCase %s %s\n", cqBytes(content), res)
}
