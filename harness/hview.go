package main

// C13: pairs of configurations through the real ParseConfig / Validate / Merge / HashSum.  Each pair is either an edit the
// generator knows to change the generated certificate (hash must change) or a difference that is not certificate
// relevant (alias, profile name, text form, parse time, defaults written out: hash must stay).  The Coq model decides
// equality of the two hash pre-images for the same pair.

import (
	"bytes"
	"fmt"
	"math/rand"
	"strings"
	"time"

	"github.com/wokdav/gopki/generator/config"
)

func init() {
	streams["hview"] = func() { streamHviewSel("") }
	// only the pairs that edit one member inside an admission (run under C16: a stale admission extension after such an edit)
	streams["hview-adm"] = func() { streamHviewSel("adm") }
}

// one admission tree with every optional member present; [edit] changes exactly one member inside it
func admTree(edit int) *Admission {
	v := func(k int, a, b string) string {
		if k == edit {
			return b
		}
		return a
	}
	return &Admission{
		Auth: &[2]string{"dns", v(0, "authority.example", "other-authority.example")},
		List: []Admissions{{
			Auth:   &[2]string{"mail", v(1, "kammer@a.example", "kammer@b.example")},
			Naming: &Naming{Oid: v(2, "1.2.276.0.76.4.1", "1.2.276.0.76.4.2"), Url: v(3, "http://na.example/a", "http://na.example/b"), Text: v(4, "Kammer A", "Kammer B")},
			Infos: []ProfInfo{{
				Naming:  &Naming{Url: v(5, "http://pi.example/a", "http://pi.example/b"), Text: v(6, "Beruf A", "Beruf B")},
				Items:   []string{"Arzt", v(7, "Apotheker", "Apothekerin")},
				Oids:    []string{v(8, "1.2.276.0.76.4.30", "1.2.276.0.76.4.31")},
				RegNum:  v(9, "1-2-3", "1-2-4"),
				AddInfo: v(10, "!binary:AQID", "!binary:AQIE"),
			}, {
				Items: []string{v(11, "Zahnarzt", "Zahnärztin")},
			}},
		}, {
			Infos: []ProfInfo{{Items: []string{v(12, "X", "Y")}, RegNum: v(13, "", "R")}},
		}},
	}
}

type hside struct {
	alias, issuer string
	cfg           Cfg
	prof          *Profile
	json          bool
}

func (s hside) hash() ([]byte, time.Time, error) {
	c := s.cfg
	c.Alias, c.Issuer = s.alias, s.issuer
	if s.prof != nil {
		c.Profile = s.prof.Name
	}
	text := yamlOf(c.tree())
	if s.json {
		text = jsonText(c.tree())
	}
	now := time.Now()
	v, err := config.ParseConfig(strings.NewReader(text))
	if err != nil {
		return nil, now, err
	}
	cc, ok := v.(*config.CertificateContent)
	if !ok {
		if c2, ok2 := v.(config.CertificateContent); ok2 {
			cc = &c2
		} else {
			return nil, now, fmt.Errorf("not a certificate config: %T", v)
		}
	}
	if cc.Alias == "" {
		cc.Alias = s.alias
	}
	eff := cc
	if s.prof != nil {
		pt := yamlOf(s.prof.tree())
		pv, err := config.ParseConfig(strings.NewReader(pt))
		if err != nil {
			return nil, now, err
		}
		var pp config.CertificateProfile
		switch t := pv.(type) {
		case *config.CertificateProfile:
			pp = *t
		case config.CertificateProfile:
			pp = t
		default:
			return nil, now, fmt.Errorf("not a profile: %T", pv)
		}
		if !config.Validate(pp, *cc) {
			return nil, now, fmt.Errorf("does not validate")
		}
		eff, err = config.Merge(pp, *cc)
		if err != nil {
			return nil, now, err
		}
	}
	return eff.HashSum(), now, nil
}

func (s hside) coq(now time.Time) string {
	pn := ""
	if s.prof != nil {
		pn = s.prof.Name
	}
	l := now.In(time.Local)
	return fmt.Sprintf("(mkHside %s %s %s %s %s (mkWall %d %d %d %d))", cqB(s.alias), cqB(pn), cqB(s.issuer), s.prof.Coq(), s.cfg.Coq(),
		l.Year(), int(l.Month()), l.Day(), l.Hour()*3600+l.Minute()*60+l.Second())
}

func emitPair(tag string, a, b hside, relevant bool) {
	ha, na, ea := a.hash()
	hb, nb, eb := b.hash()
	impl := "None"
	if ea == nil && eb == nil {
		impl = "(Some " + bs(bytes.Equal(ha, hb)) + ")"
	}
	fmt.Fprintf(out, "CASE %s relevant=%v :: A %s :: B %s\n", tag, relevant, jsonText(a.cfg.tree()), jsonText(b.cfg.tree()))
	fmt.Fprintf(out, "COQ mkHashPair %s %s %s %s\n", a.coq(na), b.coq(nb), bs(relevant), impl)
}

func clonePol(p []Policy) []Policy {
	o := make([]Policy, len(p))
	for i, x := range p {
		o[i] = x
		o[i].Quals = append([]Qualifier{}, x.Quals...)
	}
	return o
}

func streamHviewSel(only string) {
	g := &gen{r: rand.New(rand.NewSource(seed*15485863 + 13)), focus: "c13"}
	n := 70
	if thorough() {
		n = 1500
	}
	for i := 0; i < n; i++ {
		c, keys := g.cfg("e")
		c.SigAlg = fitting(g, c.KeyAlg)
		c.Manip = Manip{}
		var prof *Profile
		if g.chance(50) {
			prof = g.profileFor("p1", &c, keys)
			if prof.HasAttrs { // keep it satisfiable: this stream is about hashing, not validation
				prof.AllowOther = true
				for k := range prof.Attrs {
					prof.Attrs[k].Optional = true
					if prof.Attrs[k].Name == "DC" || prof.Attrs[k].Name == "UID" || prof.Attrs[k].Name == "PC" {
						prof.Attrs[k].Name = "CN"
					}
				}
			}
		}
		base := hside{alias: "e", issuer: g.pick("", "root"), cfg: c, prof: prof}
		tag := fmt.Sprintf("hview-%d-%d", seed, i)
		// ---- one member inside an admission differs (the admission sits in the certificate's list or in the profile's)
		if i%2 == 0 || only == "adm" {
			for k := 0; k <= 13; k++ {
				if !thorough() && only != "adm" && (k+i/2)%4 != 0 {
					continue
				}
				a, b := base, base
				ea := Ext{Kind: "adm", HasContent: true, Crit: -1, Adm: admTree(-1)}
				eb := Ext{Kind: "adm", HasContent: true, Crit: -1, Adm: admTree(k)}
				if prof != nil && k%2 == 1 {
					pa, pb := *prof, *prof
					pa.Exts = append(append([]PExt{}, prof.Exts...), PExt{Ext: ea})
					pb.Exts = append(append([]PExt{}, prof.Exts...), PExt{Ext: eb})
					a.prof, b.prof = &pa, &pb
				} else {
					a.cfg.Exts = append(append([]Ext{}, base.cfg.Exts...), ea)
					b.cfg.Exts = append(append([]Ext{}, base.cfg.Exts...), eb)
				}
				emitPair(fmt.Sprintf("%s-adm-inner-%d", tag, k), a, b, true)
			}
		}
		if only == "adm" {
			continue
		}
		// ---- differences that are not certificate relevant
		same := base
		emitPair(tag+"-reparse", base, same, false)
		same.alias = "other-alias"
		emitPair(tag+"-alias", base, same, false)
		same = base
		same.json = true
		emitPair(tag+"-json-form", base, same, false)
		if prof != nil {
			p2 := *prof
			p2.Name = "renamed-profile"
			same = base
			same.prof = &p2
			emitPair(tag+"-profile-name", base, same, false)
		}
		if c.KeyAlg == "" {
			same = base
			same.cfg.KeyAlg = "P-256"
			emitPair(tag+"-default-key-written-out", base, same, false)
		}
		// ---- single edits that change the certificate
		edit := func(name string, f func(s *hside) bool) {
			e := base
			e.cfg.Exts = append([]Ext{}, base.cfg.Exts...)
			if base.prof != nil {
				p := *base.prof
				p.Exts = append([]PExt{}, base.prof.Exts...)
				e.prof = &p
			}
			if f(&e) {
				emitPair(tag+"-"+name, base, e, true)
			}
		}
		edit("subject", func(s *hside) bool { s.cfg.Subject += ", OU=edited"; return true })
		edit("subject-value", func(s *hside) bool { s.cfg.Subject = strings.Replace(s.cfg.Subject, "=", "=z", 1); return true })
		edit("issuer", func(s *hside) bool { s.issuer = "another-ca"; return true })
		edit("serial", func(s *hside) bool {
			if s.cfg.Serial > 1<<62 {
				s.cfg.Serial -= 17
			} else {
				s.cfg.Serial += 17
			}
			return true
		})
		edit("issuer-uid", func(s *hside) bool { s.cfg.IssuerUID = "!binary:ZWRpdGVk"; return true })
		edit("subject-uid", func(s *hside) bool { s.cfg.SubjectUID = "!binary:ZWRpdGVk"; return true })
		edit("key-alg", func(s *hside) bool {
			if s.cfg.KeyAlg == "P-384" {
				s.cfg.KeyAlg = "P-521"
			} else {
				s.cfg.KeyAlg = "P-384"
			}
			return !strings.HasPrefix(base.cfg.KeyAlg, "RSA")
		})
		edit("sig-alg", func(s *hside) bool {
			if strings.HasSuffix(s.cfg.SigAlg, "SHA384") {
				s.cfg.SigAlg = strings.Replace(s.cfg.SigAlg, "SHA384", "SHA512", 1)
			} else {
				s.cfg.SigAlg = s.cfg.SigAlg[:strings.Index(s.cfg.SigAlg, "SHA")] + "SHA384"
			}
			return true
		})
		ownValidity := base.cfg.Validity.set()
		edit("validity-from", func(s *hside) bool { s.cfg.Validity.From = "2031-07-09"; return base.cfg.Validity.From != "2031-07-09" })
		edit("validity-until", func(s *hside) bool {
			s.cfg.Validity.Until, s.cfg.Validity.Duration = "2077-07-07", ""
			return base.cfg.Validity.Until != "2077-07-07"
		})
		edit("validity-duration", func(s *hside) bool {
			s.cfg.Validity.Until, s.cfg.Validity.Duration = "", "7y7m7d"
			return base.cfg.Validity.Duration != "7y7m7d"
		})
		if ownValidity {
			edit("validity-removed", func(s *hside) bool {
				s.cfg.Validity = Validity{}
				// without a block of its own the certificate takes the profile's, else now + 5 years: a different certificate unless
				// that happens to be what it had
				return s.prof == nil || !s.prof.Validity.set() || s.prof.Validity != base.cfg.Validity
			})
		}
		if prof != nil && !ownValidity {
			edit("profile-validity", func(s *hside) bool {
				s.prof.Validity = Validity{From: "2033-03-03", Duration: "3y"}
				return base.prof.Validity != s.prof.Validity
			})
		}
		edit("manip-version", func(s *hside) bool { v := int64(1); s.cfg.Manip.Version = &v; return true })
		edit("manip-outer", func(s *hside) bool { s.cfg.Manip.Outer = "1.2.3.4"; return true })
		edit("manip-sigvalue", func(s *hside) bool { s.cfg.Manip.SigValue = "!binary:AQID"; return true })
		edit("manip-inner", func(s *hside) bool { s.cfg.Manip.Inner = "1.2.3.11"; return true })
		edit("manip-pkalg", func(s *hside) bool { s.cfg.Manip.PkAlg = "1.5.1.3"; return true })
		edit("manip-pk", func(s *hside) bool { s.cfg.Manip.Pk = "!binary:BAECAw=="; return true })
		edit("ext-added", func(s *hside) bool {
			s.cfg.Exts = append(s.cfg.Exts, Ext{Kind: "custom", Oid: "1.2.3.77", Raw: "!null", Crit: -1})
			return true
		})
		edit("ext-added-front", func(s *hside) bool {
			s.cfg.Exts = append([]Ext{{Kind: "custom", Oid: "1.2.3.78", Raw: "!empty", Crit: 1}}, s.cfg.Exts...)
			return true
		})
		// the same raw value under another extension kind: another OID in the certificate (F14)
		{
			a, b := base, base
			a.cfg.Exts = append(append([]Ext{}, base.cfg.Exts...), Ext{Kind: "ku", Raw: "!binary:AwIBBg==", Crit: -1})
			b.cfg.Exts = append(append([]Ext{}, base.cfg.Exts...), Ext{Kind: "eku", Raw: "!binary:AwIBBg==", Crit: -1})
			emitPair(tag+"-ext-kind-swap", a, b, true)
		}
		// an end date or a duration without start date is certificate relevant although the start is "now" (F13)
		{
			a, b := base, base
			a.cfg.Validity, b.cfg.Validity = Validity{Until: "2061-01-01"}, Validity{Until: "2062-02-02"}
			emitPair(tag+"-until-without-from", a, b, true)
			a.cfg.Validity, b.cfg.Validity = Validity{Duration: "3y"}, Validity{Duration: "4y"}
			emitPair(tag+"-duration-without-from", a, b, true)
			// durations that are nearly, but not, the same length (a change that reduces a duration to days with 30-day months and
			// 365-day years makes them collide)
			for _, pr := range [][2]string{{"12m", "360d"}, {"1m", "30d"}, {"1y", "365d"}, {"2y", "730d"}, {"1y1m", "395d"}, {"24m", "720d"}} {
				if i%3 == 0 || thorough() {
					a.cfg.Validity, b.cfg.Validity = Validity{Duration: pr[0]}, Validity{Duration: pr[1]}
					emitPair(tag+"-duration-near-"+pr[0]+"-"+pr[1], a, b, true)
				}
			}
		}
		// an edit to a validity whose end lies beyond the year 9999: the configuration must be refused, not hashed (F28: the hash
		// function panicked on such a date once the entity had an artifact)
		if i%4 == 0 || thorough() {
			for k, v := range []Validity{{From: "9999-12-31", Duration: "1d"}, {From: "2024-01-01", Duration: "9999y"}, {From: "9997-06-01"}} {
				a, b := base, base
				b.cfg.Validity = v
				emitPair(fmt.Sprintf("%s-end-beyond-9999-%d", tag, k), a, b, true)
			}
		}
		// a validity inherited from the profile: its end date / duration is certificate relevant with and without a start date
		{
			mk := func(v Validity) hside {
				s := base
				s.cfg.Validity = Validity{}
				s.prof = &Profile{Name: "pv", Validity: v}
				return s
			}
			emitPair(tag+"-inherited-duration", mk(Validity{Duration: "2y"}), mk(Validity{Duration: "3y"}), true)
			emitPair(tag+"-inherited-until", mk(Validity{Until: "2051-01-01"}), mk(Validity{Until: "2052-02-02"}), true)
			emitPair(tag+"-inherited-until-to-duration", mk(Validity{Until: "2051-01-01"}), mk(Validity{Duration: "9y"}), true)
			emitPair(tag+"-inherited-from-duration", mk(Validity{From: "2030-01-01", Duration: "2y"}), mk(Validity{From: "2030-01-01", Duration: "3y"}), true)
			emitPair(tag+"-inherited-same", mk(Validity{Duration: "2y"}), mk(Validity{Duration: "2y"}), false)
			emitPair(tag+"-inherited-duration-near", mk(Validity{Duration: "12m"}), mk(Validity{Duration: "360d"}), true)
		}
		// a second extension with an OID that is already present, and an edit of the first of two equal-OID extensions
		edit("ext-duplicate-oid", func(s *hside) bool {
			s.cfg.Exts = append(s.cfg.Exts, Ext{Kind: "custom", Oid: "1.2.3.99", Raw: "!null", Crit: -1}, Ext{Kind: "custom", Oid: "1.2.3.99", Raw: "!empty", Crit: -1})
			return true
		})
		if len(base.cfg.Exts) > 0 && base.prof == nil {
			k := g.r.Intn(len(base.cfg.Exts))
			edit("ext-removed", func(s *hside) bool {
				s.cfg.Exts = append(append([]Ext{}, s.cfg.Exts[:k]...), s.cfg.Exts[k+1:]...)
				return true
			})
			edit("ext-critical", func(s *hside) bool {
				if s.cfg.Exts[k].Crit == 1 {
					s.cfg.Exts[k].Crit = 0
				} else {
					s.cfg.Exts[k].Crit = 1
				}
				return true
			})
			// omitted and false are the same flag
			samec := base
			samec.cfg.Exts = append([]Ext{}, base.cfg.Exts...)
			if samec.cfg.Exts[k].Crit == -1 {
				samec.cfg.Exts[k].Crit = 0
				emitPair(tag+"-critical-false-written-out", base, samec, false)
			}
			edit("ext-kind", func(s *hside) bool {
				e := s.cfg.Exts[k]
				if e.Raw == "" || e.Kind == "custom" || e.Kind == "ocsp" {
					return false
				}
				// same raw value under another kind: another OID in the certificate
				if e.Kind == "ku" {
					s.cfg.Exts[k].Kind = "eku"
				} else {
					s.cfg.Exts[k].Kind = "ku"
				}
				return true
			})
			edit("ext-content", func(s *hside) bool {
				e := &s.cfg.Exts[k]
				if !e.HasContent {
					if e.Raw == "!null" {
						e.Raw = "!empty"
					} else {
						e.Raw = "!null"
					}
					return true
				}
				switch e.Kind {
				case "ku":
					if len(e.List) > 0 && e.List[0] == "crlSign" {
						e.List = append([]string{"keyCertSign"}, e.List...)
					} else {
						e.List = append([]string{"crlSign"}, e.List...)
					}
					// adding a flag that is already set does not change the certificate
					for _, f := range base.cfg.Exts[k].List {
						if f == e.List[0] {
							return false
						}
					}
				case "eku", "aia":
					e.List = append(append([]string{}, e.List...), "1.2.3.4.5")
					if e.Kind == "aia" {
						e.List[len(e.List)-1] = "http://edited.example"
					}
				case "san":
					e.Names = append(append([][2]string{}, e.Names...), [2]string{"dns", "edited.example"})
				case "bc":
					e.HasPl, e.PathLen = true, e.PathLen+1
				case "cp":
					e.Pols = append(clonePol(e.Pols), Policy{Oid: "1.2.3.4.5.6"})
				case "aki", "ski":
					e.Str = "!binary:ZWRpdGVk"
				case "adm":
					a := *e.Adm
					a.List = append(append([]Admissions{}, a.List...), Admissions{Infos: []ProfInfo{{Items: []string{"edited"}}}})
					e.Adm = &a
				default:
					return false
				}
				return true
			})
			if len(base.cfg.Exts) > 1 {
				edit("ext-order", func(s *hside) bool {
					a, b := 0, len(s.cfg.Exts)-1
					s.cfg.Exts[a], s.cfg.Exts[b] = s.cfg.Exts[b], s.cfg.Exts[a]
					return s.cfg.Exts[a].Coq() != s.cfg.Exts[b].Coq()
				})
			}
		}
		if prof != nil {
			edit("profile-ext-added", func(s *hside) bool {
				s.prof.Exts = append(s.prof.Exts, PExt{Ext: Ext{Kind: "custom", Oid: "1.2.3.4.88", Raw: "!null", Crit: -1}})
				return true
			})
		}
	}
}
