package main

// C01 with imported issuers: the issuer's artifact (certificate and key, no hash line) was made by another tool
// (crypto/x509 here) and gopki only signs below it.  The subject DN of the imported certificate uses PrintableString,
// UTF8String for printable text, or genuinely non-ASCII text.

import (
	"bytes"
	"crypto/ecdsa"
	"crypto/elliptic"
	crand "crypto/rand"
	"crypto/rsa"
	"crypto/x509"
	"crypto/x509/pkix"
	"encoding/asn1"
	"encoding/pem"
	"fmt"
	"math/big"
	"time"
)

func init() {
	streams["cert-c01"] = streamImported
	streams["cert-c01rsa"] = streamImportedRSA
}

func importedArtifact(cn string, utf8 bool, curve elliptic.Curve) []byte {
	k, _ := ecdsa.GenerateKey(curve, crand.Reader)
	tag := asn1.TagPrintableString
	if utf8 {
		tag = asn1.TagUTF8String
	}
	val, _ := asn1.MarshalWithParams(cn, map[int]string{asn1.TagPrintableString: "printable", asn1.TagUTF8String: "utf8"}[tag])
	rdn, _ := asn1.Marshal([]pkix.RelativeDistinguishedNameSET{{{Type: asn1.ObjectIdentifier{2, 5, 4, 3}, Value: asn1.RawValue{FullBytes: val}}}})
	tmpl := &x509.Certificate{SerialNumber: big.NewInt(4711), RawSubject: rdn, NotBefore: time.Now().Add(-time.Hour), NotAfter: time.Now().Add(20 * 365 * 24 * time.Hour),
		IsCA: true, BasicConstraintsValid: true, KeyUsage: x509.KeyUsageCertSign}
	der, err := x509.CreateCertificate(crand.Reader, tmpl, tmpl, k.Public(), k)
	if err != nil {
		panic(err)
	}
	kder, _ := x509.MarshalPKCS8PrivateKey(k)
	var o bytes.Buffer
	pem.Encode(&o, &pem.Block{Type: "CERTIFICATE", Bytes: der})
	pem.Encode(&o, &pem.Block{Type: "PRIVATE KEY", Bytes: kder})
	return o.Bytes()
}

// importedRSAArtifact: a self-signed root with an RSA key of the given modulus length, as another tool would have written it
func importedRSAArtifact(cn string, bits int) []byte {
	k, err := rsa.GenerateKey(crand.Reader, bits)
	if err != nil {
		panic(err)
	}
	val, _ := asn1.MarshalWithParams(cn, "printable")
	rdn, _ := asn1.Marshal([]pkix.RelativeDistinguishedNameSET{{{Type: asn1.ObjectIdentifier{2, 5, 4, 3}, Value: asn1.RawValue{FullBytes: val}}}})
	tmpl := &x509.Certificate{SerialNumber: big.NewInt(4712), RawSubject: rdn, NotBefore: time.Now().Add(-time.Hour), NotAfter: time.Now().Add(20 * 365 * 24 * time.Hour),
		IsCA: true, BasicConstraintsValid: true, KeyUsage: x509.KeyUsageCertSign, SignatureAlgorithm: x509.SHA256WithRSA}
	der, err := x509.CreateCertificate(crand.Reader, tmpl, tmpl, k.Public(), k)
	if err != nil {
		panic(err)
	}
	kder, _ := x509.MarshalPKCS8PrivateKey(k)
	var o bytes.Buffer
	pem.Encode(&o, &pem.Block{Type: "CERTIFICATE", Bytes: der})
	pem.Encode(&o, &pem.Block{Type: "PRIVATE KEY", Bytes: kder})
	return o.Bytes()
}

func streamImportedRSA() {
	// issuers whose RSA modulus is not a whole number of octets long (no key gopki generates is like that): the signature is as
	// many octets as the modulus needs and is written as a BIT STRING without unused bits
	for ri, bits := range []int{2047, 2041, 1031, 2048} {
		root := Cfg{Subject: "CN=Imported RSA Root", KeyAlg: "RSA-2048", SigAlg: "RSAwithSHA256"}
		var subs []entity
		for j := 0; j < 4; j++ {
			s := plainSub(j)
			s.Issuer, s.SigAlg = "root", []string{"RSAwithSHA256", "RSAwithSHA384", "RSAwithSHA512", "RSAwithSHA1"}[j]
			s.Exts = []Ext{{Kind: "aki", Crit: -1, HasContent: true, Str: "hash"}, {Kind: "ski", Crit: -1, HasContent: true, Str: "hash"}}
			subs = append(subs, entity{name: fmt.Sprintf("s%d", j), cfg: s})
		}
		ents := append([]entity{{name: "root", cfg: root, artifact: importedRSAArtifact("Imported RSA Root", bits)}}, subs...)
		runHierarchy(fmt.Sprintf("c01-imported-rsa-%d[%d bit modulus]", ri+1, bits), ents, nil)
	}
}

func streamImported() {
	i := 0
	for _, cv := range []struct {
		name string
		c    elliptic.Curve
	}{{"P-256", elliptic.P256()}, {"P-384", elliptic.P384()}, {"P-521", elliptic.P521()}} {
		for _, v := range []struct {
			cn   string
			utf8 bool
		}{{"Imported Root", false}, {"Imported Root", true}, {"Wurzel Grüße", true}} {
			i++
			root := Cfg{Subject: "CN=" + v.cn, KeyAlg: cv.name, SigAlg: "ECDSAwithSHA256"}
			var subs []entity
			for j := 0; j < 3; j++ {
				s := plainSub(j)
				s.Issuer, s.SigAlg = "root", []string{"ECDSAwithSHA256", "ECDSAwithSHA384", "ECDSAwithSHA512"}[j]
				s.Exts = []Ext{{Kind: "aki", Crit: -1, HasContent: true, Str: "hash"}, {Kind: "ski", Crit: -1, HasContent: true, Str: "hash"}}
				subs = append(subs, entity{name: fmt.Sprintf("s%d", j), cfg: s})
			}
			ents := append([]entity{{name: "root", cfg: root, artifact: importedArtifact(v.cn, v.utf8, cv.c)}}, subs...)
			runHierarchy(fmt.Sprintf("c01-imported-%d[%s utf8=%v]", i, v.cn, v.utf8), ents, nil)
		}
	}
}
