package main

// C17 streams.
// pkcs8: keys with chosen scalars on all ten curves and RSA keys are written by gopki's MarshalPKCS8PrivateKey and read
//        back by its ParsePKCS8PrivateKey; the Coq model must produce the same bytes and parse them to the same key;
//        for RSA and NIST curves crypto/x509 must accept gopki's bytes as the same key and gopki must accept crypto/x509's;
//        mutated and foreign encodings go through both parsers (model and gopki) and must be classified alike.
// pem:   artifact files with every combination of hash line / certificate / key / request, truncated at every offset
//        and with separator characters inserted, through Go's pem.Decode loop, cert.ReadPem and the directory import.

import (
	"bytes"
	"crypto/ecdsa"
	"crypto/elliptic"
	crand "crypto/rand"
	"crypto/rsa"
	"crypto/x509"
	"crypto/x509/pkix"
	"encoding/asn1"
	"encoding/hex"
	"encoding/pem"
	"fmt"
	"io/fs"
	"math/big"
	"math/rand"
	"strings"
	"testing/fstest"
	"time"

	"github.com/wokdav/gopki/generator/cert"
	"github.com/wokdav/gopki/generator/db/filesystem"
)

func init() {
	streams["pkcs8"] = streamPkcs8
	streams["pem"] = streamPem
}

var coqCurve = map[string]string{"P-224": "P224", "P-256": "P256", "P-384": "P384", "P-521": "P521", "brainpoolP256r1": "BP256r1", "brainpoolP384r1": "BP384r1",
	"brainpoolP512r1": "BP512r1", "brainpoolP256t1": "BP256t1", "brainpoolP384t1": "BP384t1", "brainpoolP512t1": "BP512t1"}

func cqN(z *big.Int) string { return "(" + z.String() + ")%N" }

func pointBytes(c elliptic.Curve, x, y *big.Int) []byte {
	bl := (c.Params().BitSize + 7) / 8
	b := make([]byte, 1+2*bl)
	b[0] = 4
	x.FillBytes(b[1 : 1+bl])
	y.FillBytes(b[1+bl:])
	return b
}

func ecKey(name string, d *big.Int) *ecdsa.PrivateKey {
	c := curveByName[name]
	x, y := c.ScalarBaseMult(d.Bytes())
	return &ecdsa.PrivateKey{PublicKey: ecdsa.PublicKey{Curve: c, X: x, Y: y}, D: d}
}

func coqKey(k any) (string, string) {
	switch t := k.(type) {
	case *ecdsa.PrivateKey:
		name := ""
		for n, c := range curveByName {
			if n != "" && c.Params().Name == t.Curve.Params().Name && c.Params().N.Cmp(t.Curve.Params().N) == 0 {
				name = n
			}
		}
		if name == "" {
			return "", ""
		}
		return fmt.Sprintf("(KEc %s %s %s)", coqCurve[name], cqN(t.D), cqBytes(pointBytes(t.Curve, t.X, t.Y))), cqN(t.Curve.Params().N)
	case *rsa.PrivateKey:
		t.Precompute()
		return fmt.Sprintf("(KRsa %s %s %s %s %s %s %s %s)", cqN(t.N), cqN(big.NewInt(int64(t.E))), cqN(t.D), cqN(t.Primes[0]), cqN(t.Primes[1]),
			cqN(t.Precomputed.Dp), cqN(t.Precomputed.Dq), cqN(t.Precomputed.Qinv)), "0%N"
	}
	return "", ""
}

func optBytes(b []byte, err error) string {
	if err != nil {
		return "None"
	}
	return "(Some " + cqBytes(b) + ")"
}

func keysEqual(a, b any) bool {
	switch x := a.(type) {
	case *ecdsa.PrivateKey:
		y, ok := b.(*ecdsa.PrivateKey)
		return ok && x.D.Cmp(y.D) == 0 && x.X.Cmp(y.X) == 0 && x.Y.Cmp(y.Y) == 0 && x.Curve.Params().N.Cmp(y.Curve.Params().N) == 0
	case *rsa.PrivateKey:
		y, ok := b.(*rsa.PrivateKey)
		return ok && x.N.Cmp(y.N) == 0 && x.D.Cmp(y.D) == 0 && x.E == y.E
	}
	return false
}

func keyCase(tag string, k any) {
	term, order := coqKey(k)
	der, err := cert.MarshalPKCS8PrivateKey(k)
	fmt.Fprintf(out, "CASE %s\n", tag)
	fmt.Fprintf(out, "COQ K mkKeyCase %s %s %s\n", term, optBytes(der, err), order)
	if err != nil {
		fmt.Fprintf(out, "SELFFAIL %s: MarshalPKCS8PrivateKey failed: %v\n", tag, err)
		return
	}
	back, err := cert.ParsePKCS8PrivateKey(der)
	if err != nil || !keysEqual(k, back) {
		fmt.Fprintf(out, "SELFFAIL %s: key written by gopki is not read back as the same key (%v)\n", tag, err)
	}
	// the PEM form as well
	var buf bytes.Buffer
	pem.Encode(&buf, &pem.Block{Type: "PRIVATE KEY", Bytes: der})
	if pc, err := cert.ReadPem(buf.Bytes()); err != nil || !keysEqual(k, pc.PrivateKey) {
		fmt.Fprintf(out, "SELFFAIL %s: key does not survive the PEM round trip (%v)\n", tag, err)
	}
	interop := false
	switch t := k.(type) {
	case *rsa.PrivateKey:
		interop = true
	case *ecdsa.PrivateKey:
		n := t.Curve.Params().Name
		interop = n == "P-224" || n == "P-256" || n == "P-384" || n == "P-521"
	}
	if interop {
		std, err := x509.ParsePKCS8PrivateKey(der)
		if err != nil || !keysEqual(k, std) {
			fmt.Fprintf(out, "SELFFAIL %s: crypto/x509 does not accept gopki's PKCS#8 as the same key (%v)\n", tag, err)
		}
		sder, err := x509.MarshalPKCS8PrivateKey(k)
		if err == nil {
			parseCase(tag+"/stdlib-form", sder, k)
			if g, err := cert.ParsePKCS8PrivateKey(sder); err != nil || !keysEqual(k, g) {
				fmt.Fprintf(out, "SELFFAIL %s: gopki does not accept crypto/x509's PKCS#8 as the same key (%v)\n", tag, err)
			}
		}
	}
}

var orderFn = "(fun c => match c with P224 => 26959946667150639794667015087019625940457807714424391721682722368061%N | P256 => 115792089210356248762697446949407573529996955224135760342422259061068512044369%N | P384 => 39402006196394479212279040100143613805079739270465446667946905279627659399113263569398956308152294913554433653942643%N | P521 => 6864797660130609714981900799081393217269435300143305409394463459185543183397655394245057746333217197532963996371363321113864768612440380340372808892707005449%N | BP256r1 | BP256t1 => 76884956397045344220809746629001649092737531784414529538755519063063536359079%N | BP384r1 | BP384t1 => 21659270770119316173069236842332604979796116387017648600075645274821611501358515537962695117368903252229601718723941%N | BP512r1 | BP512t1 => 8948962207650232551656602815159153422162609644098354511344597187200057010413418528378981730643524959857451398370029280583094215613882043973354392115544169%N | _ => 0%N end)"

// arbitrary bytes through gopki's parser and the model's; [hint] supplies the public point for the scalar inside
func parseCase(tag string, der []byte, hint any) {
	hostile := !strings.HasSuffix(tag, "/stdlib-form")
	k, err := func() (k any, err error) {
		defer func() {
			if r := recover(); r != nil {
				err = fmt.Errorf("PANIC %v", r)
			}
		}()
		return cert.ParsePKCS8PrivateKey(der)
	}()
	if err != nil && strings.HasPrefix(err.Error(), "PANIC") {
		fmt.Fprintf(out, "SELFFAIL %s: ParsePKCS8PrivateKey panicked: %v\n", tag, err)
	}
	res := "None"
	pub := "[]"
	if err == nil {
		t, _ := coqKey(k)
		if t == "" {
			t = "(KRsa 0 0 0 0 0 0 0 0)" // a key type the model does not know: counts as acceptance of something unsupported
		}
		res = "(Some " + t + ")"
		if ek, ok := k.(*ecdsa.PrivateKey); ok {
			pub = cqBytes(pointBytes(ek.Curve, ek.X, ek.Y))
			// the curve arithmetic oracle is computed here from the scalar with the harness's own curve table, not taken from what
			// gopki returned: a public point that does not belong to the scalar shows up as a difference
			for n, c := range curveByName {
				if n != "" && c.Params().Name == ek.Curve.Params().Name && c.Params().N.Cmp(ek.Curve.Params().N) == 0 && ek.D.Sign() > 0 {
					ref := ecKey(n, ek.D)
					pub = cqBytes(pointBytes(ref.Curve, ref.X, ref.Y))
				}
			}
		}
	} else if ek, ok := hint.(*ecdsa.PrivateKey); ok {
		pub = cqBytes(pointBytes(ek.Curve, ek.X, ek.Y))
	}
	fmt.Fprintf(out, "CASE %s %v\n", tag, err == nil)
	fmt.Fprintf(out, "COQ P mkParseCase %s %s %s %s %s\n", bs(hostile), cqBytes(der), pub, orderFn, res)
}

func streamPkcs8() {
	rng := rand.New(rand.NewSource(seed))
	names := []string{"P-224", "P-256", "P-384", "P-521", "brainpoolP256r1", "brainpoolP384r1", "brainpoolP512r1", "brainpoolP256t1", "brainpoolP384t1", "brainpoolP512t1"}
	per := 6
	if thorough() {
		per = 60
	}
	for _, n := range names {
		c := curveByName[n]
		N := c.Params().N
		bl := (N.BitLen() + 7) / 8
		scalars := []*big.Int{big.NewInt(1), big.NewInt(2), new(big.Int).Sub(N, big.NewInt(1)), big.NewInt(255), big.NewInt(256)}
		for z := 1; z <= 3; z++ { // values with z leading zero octets
			b := make([]byte, bl-z)
			rng.Read(b)
			b[0] |= 1
			scalars = append(scalars, new(big.Int).SetBytes(b))
		}
		for i := 0; i < per; i++ {
			d := new(big.Int).Rand(rng, new(big.Int).Sub(N, big.NewInt(1)))
			scalars = append(scalars, d.Add(d, big.NewInt(1)))
		}
		for i, d := range scalars {
			keyCase(fmt.Sprintf("pkcs8-%s-%d", n, i), ecKey(n, d))
		}
		// rejected: scalar = n, n+1; over-long scalars; wrong version; unknown curve; embedded parameters; truncations
		good := ecKey(n, scalars[len(scalars)-1])
		gd, _ := cert.MarshalPKCS8PrivateKey(good)
		for i, d := range []*big.Int{N, new(big.Int).Add(N, big.NewInt(1)), big.NewInt(0)} {
			parseCase(fmt.Sprintf("pkcs8-%s-badscalar-%d", n, i), handPkcs8(n, d, bl, good, 0, true, false), good)
		}
		parseCase("pkcs8-"+n+"-longscalar-zeros", handPkcs8(n, good.D, bl+2, good, 0, true, false), good)
		// scalars with leading zero octets, written without them (older OpenSSL): tolerated, and still the same key
		for z := 1; z <= 3; z++ {
			b := make([]byte, bl-z)
			rng.Read(b)
			b[0] |= 1
			sk := ecKey(n, new(big.Int).SetBytes(b))
			parseCase(fmt.Sprintf("pkcs8-%s-stripped-%d", n, z), handPkcs8(n, sk.D, bl-z, sk, 0, true, false), sk)
		}
		parseCase("pkcs8-"+n+"-inner-params", handPkcs8(n, good.D, bl, good, 0, true, true), good)
		parseCase("pkcs8-"+n+"-inner-params-only", handPkcs8(n, good.D, bl, good, 0, false, true), good)
		parseCase("pkcs8-"+n+"-no-params", handPkcs8(n, good.D, bl, good, 0, false, false), good)
		parseCase("pkcs8-"+n+"-version1", handPkcs8(n, good.D, bl, good, 1, true, false), good)
		for _, cut := range []int{1, 2, len(gd) / 2, len(gd) - 1} {
			parseCase(fmt.Sprintf("pkcs8-%s-cut-%d", n, cut), gd[:cut], good)
		}
		parseCase("pkcs8-"+n+"-trailing", append(append([]byte{}, gd...), 0), good)
		for i := 0; i < per; i++ {
			m := append([]byte{}, gd...)
			m[rng.Intn(len(m))] ^= byte(1 << rng.Intn(8))
			parseCase(fmt.Sprintf("pkcs8-%s-flip-%d", n, i), m, good)
		}
	}
	// every single-bit flip of one key (quick: two curves; thorough: all ten), so that each place where Go's struct-directed
	// asn1 parser is laxer or stricter than a strict DER reader is visited
	flipCurves := []string{"P-224", "brainpoolP256r1"}
	if thorough() {
		flipCurves = names
	}
	for _, n := range flipCurves {
		c := curveByName[n]
		d := new(big.Int).Rand(rng, new(big.Int).Sub(c.Params().N, big.NewInt(2)))
		good := ecKey(n, d.Add(d, big.NewInt(1)))
		gd, _ := cert.MarshalPKCS8PrivateKey(good)
		limit := len(gd)
		if !thorough() && limit > 60 {
			// the scalar and point octets are data; quick visits the structural head and the region around the [1] wrapper
			limit = 60
		}
		for i := 0; i < len(gd); i++ {
			bl := (c.Params().N.BitLen() + 7) / 8
			structural := i < limit || (i >= 33+bl-2 && i < 33+bl+8)
			if !structural && !thorough() {
				continue
			}
			for b := 0; b < 8; b++ {
				m := append([]byte{}, gd...)
				m[i] ^= byte(1 << b)
				parseCase(fmt.Sprintf("pkcs8-%s-bit-%d.%d", n, i, b), m, good)
			}
		}
	}
	// hand-made structures around the optional members and the places where trailing data may sit
	for _, n := range []string{"P-256", "brainpoolP384t1"} {
		c := curveByName[n]
		bl := (c.Params().N.BitLen() + 7) / 8
		d := new(big.Int).Rand(rng, new(big.Int).Sub(c.Params().N, big.NewInt(2)))
		good := ecKey(n, d.Add(d, big.NewInt(1)))
		for _, q := range quirkKeys(n, good, bl) {
			parseCase("pkcs8-"+n+"-quirk-"+q.name, q.der, good)
		}
	}
	bits := []int{1024, 1536, 2048}
	if thorough() {
		bits = append(bits, 3072, 4096)
	}
	for _, b := range bits {
		k, _ := rsa.GenerateKey(crand.Reader, b)
		keyCase(fmt.Sprintf("pkcs8-RSA-%d", b), k)
		gd, _ := cert.MarshalPKCS8PrivateKey(k)
		parseCase(fmt.Sprintf("pkcs8-RSA-%d-cut", b), gd[:len(gd)-3], k)
	}
	for _, g := range [][]byte{{}, {0x30, 0x00}, []byte("not DER at all"), {0x30, 0x03, 0x02, 0x01, 0x00}} {
		parseCase("pkcs8-garbage", g, nil)
	}
}

// hand-assembled PKCS#8 for an EC key (RFC 5208 / RFC 5915), with the variations other tools produce
func handPkcs8(name string, d *big.Int, width int, pub *ecdsa.PrivateKey, version int, outerParams, innerParams bool) []byte {
	curveOid := map[string]asn1.ObjectIdentifier{"P-224": {1, 3, 132, 0, 33}, "P-256": {1, 2, 840, 10045, 3, 1, 7}, "P-384": {1, 3, 132, 0, 34}, "P-521": {1, 3, 132, 0, 35},
		"brainpoolP256r1": {1, 3, 36, 3, 3, 2, 8, 1, 1, 7}, "brainpoolP384r1": {1, 3, 36, 3, 3, 2, 8, 1, 1, 11}, "brainpoolP512r1": {1, 3, 36, 3, 3, 2, 8, 1, 1, 13},
		"brainpoolP256t1": {1, 3, 36, 3, 3, 2, 8, 1, 1, 8}, "brainpoolP384t1": {1, 3, 36, 3, 3, 2, 8, 1, 1, 12}, "brainpoolP512t1": {1, 3, 36, 3, 3, 2, 8, 1, 1, 14}}[name]
	sc := make([]byte, width)
	db := d.Bytes()
	if len(db) > width {
		sc = db
	} else {
		copy(sc[width-len(db):], db)
	}
	type ecPriv struct {
		Version int
		Key     []byte
		Params  asn1.ObjectIdentifier `asn1:"optional,explicit,tag:0"`
		Pub     asn1.BitString        `asn1:"optional,explicit,tag:1"`
	}
	inner := ecPriv{Version: 1, Key: sc, Pub: asn1.BitString{Bytes: pointBytes(pub.Curve, pub.X, pub.Y), BitLength: 8 * len(pointBytes(pub.Curve, pub.X, pub.Y))}}
	if innerParams {
		inner.Params = curveOid
	}
	ib, _ := asn1.Marshal(inner)
	alg := pkix.AlgorithmIdentifier{Algorithm: asn1.ObjectIdentifier{1, 2, 840, 10045, 2, 1}}
	if outerParams {
		pb, _ := asn1.Marshal(curveOid)
		alg.Parameters = asn1.RawValue{FullBytes: pb}
	}
	ob, _ := asn1.Marshal(struct {
		Version int
		Alg     pkix.AlgorithmIdentifier
		Key     []byte
	}{version, alg, ib})
	return ob
}

type quirk struct {
	name string
	der  []byte
}

// DER by hand: tlv(tag, parts...) with a definite minimal length
func tlv(tag byte, parts ...[]byte) []byte {
	var c []byte
	for _, p := range parts {
		c = append(c, p...)
	}
	return tlvLen(tag, len(c), c)
}

// the header announces [l] octets, whatever the content holds
func tlvLen(tag byte, l int, c []byte) []byte {
	out := []byte{tag}
	switch {
	case l < 128:
		out = append(out, byte(l))
	case l < 256:
		out = append(out, 0x81, byte(l))
	default:
		out = append(out, 0x82, byte(l>>8), byte(l))
	}
	return append(out, c...)
}

func quirkKeys(name string, good *ecdsa.PrivateKey, bl int) []quirk {
	curveOid := map[string]asn1.ObjectIdentifier{"P-256": {1, 2, 840, 10045, 3, 1, 7}, "brainpoolP384t1": {1, 3, 36, 3, 3, 2, 8, 1, 1, 12}}[name]
	otherOid := asn1.ObjectIdentifier{1, 3, 132, 0, 34} // P-384
	oidB, _ := asn1.Marshal(curveOid)
	otherB, _ := asn1.Marshal(otherOid)
	ecpk, _ := asn1.Marshal(asn1.ObjectIdentifier{1, 2, 840, 10045, 2, 1})
	sc := make([]byte, bl)
	good.D.FillBytes(sc)
	pub := append([]byte{0}, pointBytes(good.Curve, good.X, good.Y)...)
	v0 := []byte{2, 1, 0}
	v1 := []byte{2, 1, 1}
	null := []byte{5, 0}
	bits := tlv(3, pub)
	a1 := tlv(0xa1, bits)
	a0 := tlv(0xa0, oidB)
	outer := func(ver, alg, inner []byte, tail ...[]byte) []byte {
		return tlv(0x30, append([][]byte{ver, alg, tlv(4, inner)}, tail...)...)
	}
	algStd := tlv(0x30, ecpk, oidB)
	inner := func(parts ...[]byte) []byte { return tlv(0x30, append([][]byte{v1, tlv(4, sc)}, parts...)...) }
	std := inner(a1)
	var qs []quirk
	add := func(n string, d []byte) { qs = append(qs, quirk{n, d}) }
	add("standard", outer(v0, algStd, std))
	// trailing material
	add("inner-trailing-null", outer(v0, algStd, inner(a1, null)))
	add("inner-trailing-null-octet", outer(v0, algStd, inner(a1, null, []byte{0})))
	add("inner-trailing-garbage", outer(v0, algStd, inner(a1, []byte{0xff, 0xff, 0xff})))
	add("inner-null-instead-of-a1", outer(v0, algStd, inner(null)))
	add("inner-null-octet-instead-of-a1", outer(v0, algStd, inner(null, []byte{0})))
	add("inner-nothing-optional", outer(v0, algStd, inner()))
	add("outer-trailing-null", outer(v0, algStd, std, null))
	add("outer-trailing-garbage", outer(v0, algStd, std, []byte{0xff}))
	add("after-inner-sequence", outer(v0, algStd, append(append([]byte{}, std...), 1, 2, 3)))
	add("after-outer-sequence", append(outer(v0, algStd, std), 0xde, 0xad))
	// the [1] wrapper
	for _, dl := range []int{-4, -1, 1, 4, 60} {
		add(fmt.Sprintf("a1-length%+d", dl), outer(v0, algStd, tlv(0x30, v1, tlv(4, sc), tlvLen(0xa1, len(bits)+dl, bits))))
	}
	add("a1-empty", outer(v0, algStd, inner([]byte{0xa1, 0})))
	add("a1-primitive", outer(v0, algStd, inner(tlv(0x81, bits))))
	add("a1-holds-null", outer(v0, algStd, inner(tlv(0xa1, null))))
	add("a1-holds-constructed-bits", outer(v0, algStd, inner(tlv(0xa1, tlv(0x23, pub)))))
	add("a1-bits-shorter", outer(v0, algStd, tlv(0x30, v1, tlv(4, sc), tlv(0xa1, tlvLen(3, len(pub)-2, pub)))))
	add("a1-bits-longer", outer(v0, algStd, tlv(0x30, v1, tlv(4, sc), tlv(0xa1, tlvLen(3, len(pub)+2, pub)))))
	add("a1-bits-padding-7", outer(v0, algStd, inner(tlv(0xa1, tlv(3, append([]byte{7}, pub[1:]...))))))
	add("a1-bits-padding-8", outer(v0, algStd, inner(tlv(0xa1, tlv(3, append([]byte{8}, pub[1:]...))))))
	add("a1-bits-empty", outer(v0, algStd, inner(tlv(0xa1, tlv(3)))))
	add("a1-twice", outer(v0, algStd, inner(a1, a1)))
	// elements in the high-tag-number form where an optional member may stand
	add("high-tag-element", outer(v0, algStd, inner([]byte{0xbf, 0x21, 0x02, 0x05, 0x00})))
	add("high-tag-then-a1", outer(v0, algStd, inner([]byte{0x5f, 0x81, 0x00, 0x00}, a1)))
	add("high-tag-below-31", outer(v0, algStd, inner([]byte{0x1f, 0x05, 0x00})))
	add("high-tag-leading-80", outer(v0, algStd, inner([]byte{0x9f, 0x80, 0x21, 0x00})))
	add("high-tag-six-octets", outer(v0, algStd, inner([]byte{0x1f, 0x81, 0x81, 0x81, 0x81, 0x81, 0x01, 0x00})))
	add("high-tag-five-octets-large", outer(v0, algStd, inner([]byte{0x1f, 0x8f, 0xff, 0xff, 0xff, 0x7f, 0x00})))
	add("high-tag-five-octets", outer(v0, algStd, inner([]byte{0x1f, 0x87, 0xff, 0xff, 0xff, 0x7f, 0x00, 0x00})))
	add("high-tag-truncated", outer(v0, algStd, inner([]byte{0xbf})))
	add("high-tag-no-length", outer(v0, algStd, inner([]byte{0xbf, 0x21})))
	// the embedded public key is not consulted: a point that lies on the curve but belongs to another scalar changes nothing
	{
		other := ecKey(name, new(big.Int).Add(good.D, big.NewInt(1)))
		opub := append([]byte{0}, pointBytes(other.Curve, other.X, other.Y)...)
		add("a1-point-of-another-key", outer(v0, algStd, inner(tlv(0xa1, tlv(3, opub)))))
		add("a1-point-compressed", outer(v0, algStd, inner(tlv(0xa1, tlv(3, append([]byte{0, 2}, opub[2:2+(len(opub)-2)/2]...))))))
	}
	// the [0] wrapper
	add("a0-and-a1", outer(v0, algStd, inner(a0, a1)))
	add("a1-then-a0", outer(v0, algStd, inner(a1, a0)))
	add("a0-empty", outer(v0, algStd, inner([]byte{0xa0, 0}, a1)))
	add("a0-holds-integer", outer(v0, algStd, inner(tlv(0xa0, v1), a1)))
	add("a0-other-curve-outer-wins", outer(v0, algStd, inner(tlv(0xa0, otherB), a1)))
	add("a0-bad-oid", outer(v0, algStd, inner(tlv(0xa0, []byte{6, 2, 0x2a, 0x80}), a1)))
	add("a0-oid-leading-80", outer(v0, algStd, inner(tlv(0xa0, []byte{6, 3, 0x2a, 0x80, 0x01}), a1)))
	add("a0-length-1", outer(v0, algStd, tlv(0x30, v1, tlv(4, sc), tlvLen(0xa0, 1, oidB), a1)))
	add("a0-length-big", outer(v0, algStd, tlv(0x30, v1, tlv(4, sc), tlvLen(0xa0, 100, oidB), a1)))
	// outer parameters
	add("no-outer-params-inner-a0", outer(v0, tlv(0x30, ecpk), inner(a0, a1)))
	add("no-outer-params-no-inner", outer(v0, tlv(0x30, ecpk), std))
	add("outer-null-params-inner-a0", outer(v0, tlv(0x30, ecpk, null), inner(a0, a1)))
	add("outer-null-params-inner-other", outer(v0, tlv(0x30, ecpk, null), inner(tlv(0xa0, otherB), a1)))
	add("outer-two-params", outer(v0, tlv(0x30, ecpk, oidB, otherB), std))
	add("outer-two-params-other-first", outer(v0, tlv(0x30, ecpk, otherB, oidB), std))
	add("outer-params-truncated", outer(v0, tlv(0x30, ecpk, tlvLen(6, len(oidB)+3, oidB[2:])), std))
	add("outer-params-sequence", outer(v0, tlv(0x30, ecpk, tlv(0x30, oidB)), inner(a0, a1)))
	add("outer-unknown-curve", outer(v0, tlv(0x30, ecpk, []byte{6, 3, 0x2a, 3, 4}), inner(a0, a1)))
	add("outer-bad-oid-params", outer(v0, tlv(0x30, ecpk, []byte{6, 2, 0x2a, 0x80}), inner(a0, a1)))
	add("alg-oid-unknown", outer(v0, tlv(0x30, []byte{6, 3, 0x2a, 3, 4}, oidB), std))
	add("alg-not-sequence", outer(v0, tlv(0x31, ecpk, oidB), std))
	// versions and integers
	add("outer-version-5", outer([]byte{2, 1, 5}, algStd, std))
	add("outer-version-negative", outer([]byte{2, 1, 0xff}, algStd, std))
	add("outer-version-nonminimal", outer([]byte{2, 2, 0, 0}, algStd, std))
	add("outer-version-9-octets", outer([]byte{2, 9, 1, 0, 0, 0, 0, 0, 0, 0, 0}, algStd, std))
	add("outer-version-empty", outer([]byte{2, 0}, algStd, std))
	add("inner-version-nonminimal", outer(v0, algStd, tlv(0x30, []byte{2, 2, 0, 1}, tlv(4, sc), a1)))
	add("inner-version-0", outer(v0, algStd, tlv(0x30, v0, tlv(4, sc), a1)))
	add("inner-version-2", outer(v0, algStd, tlv(0x30, []byte{2, 1, 2}, tlv(4, sc), a1)))
	// the scalar
	add("scalar-constructed", outer(v0, algStd, tlv(0x30, v1, tlv(0x24, tlv(4, sc)), a1)))
	add("scalar-empty", outer(v0, algStd, tlv(0x30, v1, tlv(4), a1)))
	add("scalar-short", outer(v0, algStd, tlv(0x30, v1, tlv(4, sc[len(sc)-5:]), a1)))
	add("key-octets-not-ec", outer(v0, algStd, []byte{0x30, 0}))
	add("key-octets-empty", outer(v0, algStd, nil))
	// lengths
	add("long-form-short-length", append([]byte{0x30, 0x81, 5}, []byte{2, 1, 0, 5, 0}...))
	add("indefinite-length", append([]byte{0x30, 0x80}, outer(v0, algStd, std)[2:]...))
	return qs
}

// ---------------------------------------------------------------- PEM container

func pemCase(tag string, data []byte, valid [][]byte) {
	rest := data
	var blocks []string
	for {
		var p *pem.Block
		p, rest = pem.Decode(rest)
		if p == nil {
			break
		}
		blocks = append(blocks, "("+cqB(p.Type)+", "+cqBytes(p.Bytes)+")")
	}
	clean := len(rest) == 0
	pc, err := cert.ReadPem(data)
	// the directory import
	m := fstest.MapFS{".": &fstest.MapFile{Mode: 0777 | fs.ModeDir}}
	m["e.yaml"] = &fstest.MapFile{Data: []byte("version: 1\nsubject: CN=e\n"), Mode: 0644, ModTime: time.Now().Add(-time.Hour)}
	m["e.pem"] = &fstest.MapFile{Data: data, Mode: 0644, ModTime: time.Now().Add(-time.Minute)}
	d := filesystem.NewFilesystemDatabase(filesystem.NewMapFs(m))
	ic, ik, ir := false, false, false
	func() {
		defer func() {
			if r := recover(); r != nil {
				fmt.Fprintf(out, "SELFFAIL %s: Open panicked on this artifact file: %v :: %s\n", tag, r, hex.EncodeToString(data))
			}
		}()
		if err := d.Open(); err == nil {
			if a, _ := d.GetBuildArtifact("e"); a != nil {
				ic, ik, ir = a.Certificate != nil, a.PrivateKey != nil, a.Request != nil
			}
		}
	}()
	var vs []string
	for _, v := range valid {
		vs = append(vs, cqBytes(v))
	}
	fmt.Fprintf(out, "CASE %s blocks=%d clean=%v\n", tag, len(blocks), clean)
	fmt.Fprintf(out, "COQ M mkPemCase %s [%s] %s [%s] ((%s, %s, %s), %s) (%s, %s, %s)\n", cqBytes(data), strings.Join(blocks, "; "), bs(clean), strings.Join(vs, "; "),
		bs(pc.Certificate != nil), bs(pc.PrivateKey != nil), bs(pc.Request != nil), bs(err != nil), bs(ic), bs(ik), bs(ir))
}

func streamPem() {
	rng := rand.New(rand.NewSource(seed))
	// real objects: a certificate and key written by gopki, a request made with crypto/x509
	m := fstest.MapFS{".": &fstest.MapFile{Mode: 0777 | fs.ModeDir}}
	m["e.yaml"] = &fstest.MapFile{Data: []byte("version: 1\nsubject: CN=e\nkeyAlgorithm: P-224\n"), Mode: 0644, ModTime: time.Now().Add(-time.Hour)}
	runPlain(m)
	full := m["e.pem"].Data
	bl := pemBlocks(full)
	k, _ := ecdsa.GenerateKey(elliptic.P256(), crand.Reader)
	reqDer, _ := x509.CreateCertificateRequest(crand.Reader, &x509.CertificateRequest{Subject: pkix.Name{CommonName: "req"}}, k)
	valid := [][]byte{bl["CERTIFICATE"], bl["PRIVATE KEY"], reqDer}
	hashLine := full[:bytes.IndexByte(full, '\n')+1]
	enc := func(ty string, der []byte) []byte {
		var b bytes.Buffer
		pem.Encode(&b, &pem.Block{Type: ty, Bytes: der})
		return b.Bytes()
	}
	parts := [][]byte{hashLine, enc("CERTIFICATE", bl["CERTIFICATE"]), enc("PRIVATE KEY", bl["PRIVATE KEY"]), enc("CERTIFICATE REQUEST", reqDer)}
	// all 2^4 combinations, in the exported order and with key/request/certificate permuted
	for mask := 0; mask < 16; mask++ {
		var f []byte
		for i, p := range parts {
			if mask&(1<<i) != 0 {
				f = append(f, p...)
			}
		}
		pemCase(fmt.Sprintf("pem-combo-%d", mask), f, valid)
	}
	pemCase("pem-order-kcr", append(append(append([]byte{}, parts[2]...), parts[1]...), parts[3]...), valid)
	pemCase("pem-order-rkc", append(append(append(append([]byte{}, parts[0]...), parts[3]...), parts[2]...), parts[1]...), valid)
	pemCase("pem-ec-key-type", append(append([]byte{}, parts[1]...), enc("EC PRIVATE KEY", bl["PRIVATE KEY"])...), valid)
	pemCase("pem-unknown-type", append(append([]byte{}, enc("X509 CRL", []byte{1, 2, 3})...), parts[1]...), valid)
	// truncation at every offset (quick: every 3rd) of the complete file and of certificate+request
	files := [][]byte{full, append(append(append([]byte{}, parts[0]...), parts[1]...), parts[3]...)}
	step := 3
	if thorough() {
		step = 1
	}
	for fi, f := range files {
		for n := 0; n <= len(f); n += step {
			pemCase(fmt.Sprintf("pem-trunc-%d-%d", fi, n), f[:n], valid)
		}
	}
	// separator characters inserted at random offsets; CRLF line ends; trailing bytes
	seps := []byte{' ', '\t', '\r', '\n', '-', ':', '='}
	nins := 250
	if thorough() {
		nins = 4000
	}
	for i := 0; i < nins; i++ {
		at := rng.Intn(len(full) + 1)
		c := seps[rng.Intn(len(seps))]
		f := append(append(append([]byte{}, full[:at]...), c), full[at:]...)
		pemCase(fmt.Sprintf("pem-insert-%d-%q", at, c), f, valid)
	}
	pemCase("pem-crlf", bytes.ReplaceAll(full, []byte("\n"), []byte("\r\n")), valid)
	for _, tail := range []string{"\n", " ", "\n\n", "x", "-----", "\n-----BEGIN "} {
		pemCase(fmt.Sprintf("pem-tail-%q", tail), append(append([]byte{}, full...), tail...), valid)
	}
	pemCase("pem-headers", []byte(strings.Replace(string(parts[1]), "-----\n", "-----\nProc-Type: 4,ENCRYPTED\n\n", 1)), valid)
}
