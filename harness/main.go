// Correspondence harness: drives the real gopki code (the module replaced by /repo's working tree) and prints,
// per generated case, the input together with the implementation's observable result.  The lines are consumed
// by the extracted Coq model (ocaml/driver) or turned into a cases.v that Coq evaluates with vm_compute.
//
// usage: harness <stream> <quick|thorough> [seed]
package main

import (
	"bufio"
	"fmt"
	"os"
	"strconv"

	"github.com/wokdav/gopki/logging"
)

var out *bufio.Writer
var tier = "quick"
var seed int64 = 1

func thorough() bool { return tier == "thorough" }

func main() {
	logging.Initialize(logging.LevelNone, nil, nil)
	out = bufio.NewWriterSize(os.Stdout, 1<<20)
	defer out.Flush()
	if len(os.Args) < 2 {
		fmt.Fprintln(os.Stderr, "usage: harness <stream> <quick|thorough> [seed]")
		os.Exit(2)
	}
	if len(os.Args) > 2 {
		tier = os.Args[2]
	}
	if len(os.Args) > 3 {
		s, err := strconv.ParseInt(os.Args[3], 10, 64)
		if err == nil {
			seed = s
		}
	}
	f, ok := streams[os.Args[1]]
	if !ok {
		fmt.Fprintln(os.Stderr, "unknown stream", os.Args[1])
		os.Exit(2)
	}
	f()
}

var streams = map[string]func(){}
