package main

// C18, names: files with unusual names (dots, upper case suffixes, nested directories with dots, blanks, non-ASCII) next to
// decoys that must be ignored; which of them become entities, under which alias, and where a run writes their artifacts.

import (
	"fmt"
	"io/fs"
	"strings"
	"testing/fstest"
	"time"

	"github.com/wokdav/gopki/generator/db"
	"github.com/wokdav/gopki/generator/db/filesystem"
)

func init() { streams["names"] = streamNames }

func streamNames() {
	configs := []string{"e.yaml", "E.YAML", "My.Cert.yml", "a.b.c.json", "x.YmL", "sub.dir/e1.yaml", "deep/er.dir/with.dots/n.JSON", "sp ace/na me.yaml",
		"ünï/cödé.yaml", "dash-_+/x=y.yaml", "UPPER/CASE.Json", "one/two/three/four/five.yml", "trailing.dot./z.yaml", "yaml/yaml.yaml", "k.yaml.json",
		// letters whose lower-case form has another UTF-8 length (a name is cut at a byte offset): dotted I, capital sharp s, Kelvin and
		// Angstrom signs, A and T with stroke
		"ca/İzmir-Root.yaml", "GROẞE.YAML", "KK-Å.yml", "ȺȾ.json", "İİİ/Ⱥ.yaml"}
	decoys := []string{"notes.txt", "data.yamlx", "x.yaml.bak", "cert.pem", "yamlfile", "sub.dir/readme.md", "json/noext", "e.yaml~", "E.YAML.orig"}
	for round, explicit := range []bool{false, true} {
		m := fstest.MapFS{".": &fstest.MapFile{Mode: 0777 | fs.ModeDir}}
		t0 := time.Now().Add(-time.Hour)
		for i, p := range configs {
			y := fmt.Sprintf("version: 1\nsubject: CN=cfg %d\n", i)
			if strings.HasSuffix(strings.ToLower(p), ".json") {
				y = fmt.Sprintf(`{"version": 1, "subject": "CN=cfg %d"}`, i)
				if explicit && i%2 == 0 {
					y = fmt.Sprintf(`{"version": 1, "alias": "explicit-%d", "subject": "CN=cfg %d"}`, i, i)
				}
			} else if explicit && i%2 == 0 {
				y += fmt.Sprintf("alias: explicit-%d\n", i)
			}
			m[p] = &fstest.MapFile{Data: []byte(y), Mode: 0644, ModTime: t0}
		}
		for i, p := range decoys {
			// decoys hold perfectly valid configuration text: only their name keeps them out
			m[p] = &fstest.MapFile{Data: []byte(fmt.Sprintf("version: 1\nsubject: CN=decoy %d\n", i)), Mode: 0644, ModTime: t0}
		}
		before := map[string]string{}
		for k, v := range m {
			before[k] = string(v.Data)
		}
		var writes []string
		var clock int64
		flt := dfault{at: -1, edge: -1}
		l := lfs{m, &clock, &writes, &flt}
		d := filesystem.NewFilesystemDatabase(l)
		aliasOfCN := map[string]string{}
		status := "ok"
		func() {
			defer func() {
				if r := recover(); r != nil {
					status = fmt.Sprint("panic: ", r)
				}
			}()
			if err := d.Open(); err != nil {
				status = "open: " + err.Error()
				return
			}
			for _, a := range d.RootEntities() {
				c, _ := d.GetConfig(a)
				if c != nil && len(c.Subject) > 0 && len(c.Subject[0]) > 0 {
					aliasOfCN[fmt.Sprint(c.Subject[0][0].Value)] = a
				}
			}
			plan, err := db.PlanBulkUpdate(d, db.UpdateMissing|db.UpdateChanged)
			if err != nil {
				status = "plan: " + err.Error()
				return
			}
			if _, err = db.BulkUpdate(d, plan); err != nil {
				status = "update: " + err.Error()
			}
		}()
		if status != "ok" {
			fmt.Fprintf(out, "SELFFAIL names-%d: the directory of well-formed configurations was not processed: %s\n", round, status)
		}
		pemOfCN := map[string]string{}
		for _, w := range writes {
			if c := viewOf(m[w].Data).crt; c != nil {
				pemOfCN[c.Subject.CommonName] = w
			}
		}
		for k, v := range before {
			if string(m[k].Data) != v {
				fmt.Fprintf(out, "SELFFAIL names-%d: file %q was modified\n", round, k)
			}
		}
		emit := func(p, cn, expl string) {
			seen := "None"
			if a, ok := aliasOfCN[cn]; ok {
				seen = "(Some (" + cqB(a) + ", " + cqB(pemOfCN[cn]) + "))"
			}
			fmt.Fprintf(out, "CASE names-%d %q explicit=%q -> alias %q, artifact %q\n", round, p, expl, aliasOfCN[cn], pemOfCN[cn])
			fmt.Fprintf(out, "COQ N mkNameCase %s %s %s\n", cqB(p), cqB(expl), seen)
		}
		for i, p := range configs {
			expl := ""
			if explicit && i%2 == 0 {
				expl = fmt.Sprintf("explicit-%d", i)
			}
			emit(p, fmt.Sprintf("cfg %d", i), expl)
		}
		for i, p := range decoys {
			emit(p, fmt.Sprintf("decoy %d", i), "")
		}
	}
}
