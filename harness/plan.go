package main

// C11: decision table for db.PlanBulkUpdate over a synthetic db.Database with FsDb's getter semantics.
// Line format: see ocaml/driver.ml (P lines).

import (
	"fmt"
	"math/rand"
	"strings"
	"sync"
	"time"

	"github.com/wokdav/gopki/generator/cert"
	"github.com/wokdav/gopki/generator/config"
	"github.com/wokdav/gopki/generator/db"
)

func init() { streams["plan"] = streamPlan }

type pent struct {
	issuer      int // -1 = root
	cfgT, fileT int
	art         int // 0 absent, 1 cert+key, 2 cert+request, 3 key only, 4 cert only, 5 request only
	hash        int // 0 none, 1 equal, 2 different
	exp         int // 0 not expired/future until, 1 expired/future until, 2 expired/past until, 3 not expired/past until
	valid       bool
}

type sdb struct {
	n    int
	ents []pent
	cfg  []*config.CertificateContent
	meta []*db.Metadata
	art  []*db.BuildArtifact
	prof *config.CertificateProfile
}

func aliasOf(i int) string { return fmt.Sprintf("e%d", i) }
func idx(a string) int {
	var i int
	if _, err := fmt.Sscanf(a, "e%d", &i); err != nil {
		return -1
	}
	return i
}

func (s *sdb) Open() error      { return nil }
func (s *sdb) Close() error     { return nil }
func (s *sdb) NumEntities() int { return s.n }
func (s *sdb) RootEntities() []string {
	var r []string
	for i, e := range s.ents {
		if e.issuer < 0 {
			r = append(r, aliasOf(i))
		}
	}
	return r
}
func (s *sdb) GetSubscribers(a string) []string {
	var r []string
	p := idx(a)
	for i, e := range s.ents {
		if e.issuer == p {
			r = append(r, aliasOf(i))
		}
	}
	return r
}
func (s *sdb) AddProfile(config.CertificateProfile) error { return nil }
func (s *sdb) GetProfile(n string) (*config.CertificateProfile, error) {
	if n == "strict" {
		return s.prof, nil
	}
	return nil, nil
}
func (s *sdb) PutConfig(string, config.CertificateContent) error { return nil }
func (s *sdb) GetConfig(a string) (*config.CertificateContent, error) {
	i := idx(a)
	if i < 0 || i >= s.n {
		return nil, nil
	}
	return s.cfg[i], nil
}
func (s *sdb) PutBuildArtifact(string, db.BuildArtifact) error { return nil }
func (s *sdb) GetBuildArtifact(a string) (*db.BuildArtifact, error) {
	i := idx(a)
	if i < 0 || i >= s.n {
		return nil, nil
	}
	return s.art[i], nil
}
func (s *sdb) Delete(string) error { return nil }
func (s *sdb) GetMetadata(a string) (*db.Metadata, error) {
	i := idx(a)
	if i < 0 || i >= s.n {
		return nil, nil
	}
	c := *s.meta[i]
	return &c, nil
}

var planBase = time.Date(2025, 1, 1, 0, 0, 0, 0, time.UTC)

func ptm(c int) time.Time {
	if c == 0 {
		return time.Time{}
	}
	return planBase.Add(time.Duration(c) * time.Second)
}

func b01(x bool) int {
	if x {
		return 1
	}
	return 0
}

var cnOnly, _ = config.ParseRDNSequence("CN=x")
var oOnly, _ = config.ParseRDNSequence("O=x")

// builds the synthetic database, runs the real planner, returns the case line
func planRow(ents []pent, strat int) string {
	now := time.Now()
	s := &sdb{n: len(ents), ents: ents}
	s.prof = &config.CertificateProfile{Name: "strict", SubjectAttributes: config.ProfileSubjectAttributes{Attributes: []config.ProfileSubjectAttribute{{Attribute: "CN"}}}}
	var es []string
	for i, e := range ents {
		c := &config.CertificateContent{Alias: aliasOf(i), Subject: cnOnly, Profile: "strict"}
		if !e.valid {
			c.Subject = oOnly
		}
		if e.issuer >= 0 {
			c.Issuer = aliasOf(e.issuer)
		}
		untilFuture := e.exp == 0 || e.exp == 1
		expired := e.exp == 1 || e.exp == 2
		if untilFuture {
			c.Validity.Until = now.Add(100 * 24 * time.Hour)
		} else {
			c.Validity.Until = now.Add(-24 * time.Hour)
		}
		c.Validity.IsSet, c.Validity.IsStatic = true, true
		c.Validity.From = now.Add(-1000 * 24 * time.Hour)
		m := &db.Metadata{LastConfigUpdate: ptm(e.cfgT)}
		a := &db.BuildArtifact{}
		hasCert := e.art == 1 || e.art == 2 || e.art == 4
		hasKey := e.art == 1 || e.art == 3
		hasReq := e.art == 2 || e.art == 5
		if hasCert {
			a.Certificate = &cert.Certificate{}
			if expired {
				a.Certificate.TBSCertificate.Validity.NotAfter = now.Add(-time.Hour)
			} else {
				a.Certificate.TBSCertificate.Validity.NotAfter = now.Add(24 * time.Hour)
			}
		}
		if hasKey {
			a.PrivateKey = struct{}{}
		}
		if hasReq {
			a.Request = &cert.CertificateRequest{}
		}
		fileT, hash := e.fileT, e.hash
		if e.art == 0 {
			fileT, hash = 0, 0
		}
		m.LastBuild = ptm(fileT)
		// the stored hash is the hash of the *effective* configuration, which here equals the configuration
		// (the profile has no extensions and no validity)
		switch hash {
		case 1:
			m.LastConfigHash = c.HashSum()
		case 2:
			m.LastConfigHash = []byte{1, 2, 3}
		}
		s.cfg = append(s.cfg, c)
		s.meta = append(s.meta, m)
		s.art = append(s.art, a)
		es = append(es, fmt.Sprintf("%d,%d,%d,%d,%d,%d,%d,%d,%d,%d,%d,%d", i, e.issuer, e.cfgT, b01(untilFuture), b01(e.valid),
			b01(e.art != 0), hash, b01(hasCert), b01(expired), b01(hasKey), b01(hasReq), fileT))
	}
	res := "-"
	func() {
		defer func() {
			if r := recover(); r != nil {
				res = "PANIC"
			}
		}()
		plan, err := db.PlanBulkUpdate(s, db.UpdateStrategy(strat))
		if err == nil {
			as := []string{}
			for _, ch := range plan {
				as = append(as, strings.TrimPrefix(ch.Alias, "e"))
			}
			res = strings.Join(as, ",")
			// Change type must say whether a certificate is replaced
			for _, ch := range plan {
				i := idx(ch.Alias)
				hasCert := ents[i].art == 1 || ents[i].art == 2 || ents[i].art == 4
				if (ch.Change == db.ChangeReplace) != hasCert {
					res += ",T" // wrong change type marker -> mismatch
				}
			}
		}
	}()
	return fmt.Sprintf("P %d|%s|%s\n", strat, strings.Join(es, ";"), res)
}

func localStates() []pent {
	var l []pent
	for art := 0; art <= 5; art++ {
		for hash := 0; hash <= 2; hash++ {
			if art == 0 && hash != 0 {
				continue
			}
			for exp := 0; exp <= 3; exp++ {
				if (art == 0 || art == 3 || art == 5) && exp != 0 && exp != 2 {
					continue // no certificate: only the configured end matters
				}
				l = append(l, pent{art: art, hash: hash, exp: exp, valid: true})
			}
		}
	}
	return l
}

func streamPlan() {
	ls := localStates()
	// 1. single entity, full: local state x (cfgT <,=,> fileT) x 32 strategies
	for _, e := range ls {
		for _, ct := range []int{1, 2, 3} {
			for st := 0; st < 32; st++ {
				e2 := e
				e2.issuer, e2.fileT, e2.cfgT = -1, 2, ct
				out.WriteString(planRow([]pent{e2}, st))
			}
		}
	}
	// 2. issuer/subject pair: both local states x 27 time relations x 32 strategies (quick: every 6th row)
	type job struct {
		a, b pent
	}
	rows := make(chan []string, 64)
	var wg sync.WaitGroup
	jobs := make(chan job, 64)
	step := 6
	if thorough() {
		step = 1
	}
	for w := 0; w < 16; w++ {
		wg.Add(1)
		go func() {
			defer wg.Done()
			for j := range jobs {
				var buf []string
				k := 0
				for _, f0 := range []int{2, 3} {
					for _, f1 := range []int{2, 3} {
						if f0 == 3 && f1 == 3 {
							continue
						}
						for d0 := -1; d0 <= 1; d0++ {
							for d1 := -1; d1 <= 1; d1++ {
								for st := 0; st < 32; st++ {
									k++
									if (k+j.a.art+j.b.hash)%step != 0 {
										continue
									}
									a, b := j.a, j.b
									a.issuer, a.fileT, a.cfgT = -1, f0, f0+d0
									b.issuer, b.fileT, b.cfgT = 0, f1, f1+d1
									buf = append(buf, planRow([]pent{a, b}, st))
								}
							}
						}
					}
				}
				rows <- buf
			}
		}()
	}
	go func() {
		for _, a := range ls {
			for _, b := range ls {
				jobs <- job{a, b}
			}
		}
		close(jobs)
		wg.Wait()
		close(rows)
	}()
	for buf := range rows {
		for _, r := range buf {
			out.WriteString(r)
		}
	}
	// 3. forests of up to 5 entities (every shape reachable by "issuer has a smaller index"), random local states,
	//    including profile violations (planning must fail)
	rng := rand.New(rand.NewSource(seed))
	n := 60000
	if thorough() {
		n = 600000
	}
	for i := 0; i < n; i++ {
		k := 2 + rng.Intn(4)
		ents := make([]pent, k)
		for j := range ents {
			ents[j] = ls[rng.Intn(len(ls))]
			ents[j].issuer = -1
			if j > 0 && rng.Intn(5) != 0 {
				ents[j].issuer = rng.Intn(j)
			}
			ents[j].fileT = 1 + rng.Intn(4)
			ents[j].cfgT = 1 + rng.Intn(4)
			ents[j].valid = rng.Intn(60) != 0
		}
		st := rng.Intn(32)
		if rng.Intn(3) == 0 {
			st = []int{9, 1, 8, 4, 2, 13}[rng.Intn(6)]
		}
		out.WriteString(planRow(ents, st))
	}
	// 4. larger hierarchies: long chains, wide fans and random forests of 20-60 entities (a bound on depth, queue length or
	//    recursion in the planner would show here)
	big := 200
	if thorough() {
		big = 3000
	}
	for i := 0; i < big; i++ {
		k := 20 + rng.Intn(41)
		ents := make([]pent, k)
		shape := i % 4
		for j := range ents {
			ents[j] = ls[rng.Intn(len(ls))]
			if rng.Intn(3) != 0 {
				ents[j] = ls[0]
			}
			ents[j].issuer = -1
			switch {
			case j == 0:
			case shape == 0:
				ents[j].issuer = j - 1 // one chain
			case shape == 1:
				ents[j].issuer = 0 // one fan
			case shape == 2:
				ents[j].issuer = rng.Intn(j)
			default:
				if rng.Intn(8) != 0 {
					w := 3
					if j < w {
						w = j
					}
					ents[j].issuer = j - 1 - rng.Intn(w)
				}
			}
			ents[j].fileT = 1 + rng.Intn(4)
			ents[j].cfgT = 1 + rng.Intn(4)
			ents[j].valid = true
		}
		out.WriteString(planRow(ents, []int{9, 1, 8, 4, 2, 13, 16, 12}[rng.Intn(8)]))
	}
}
