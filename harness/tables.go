package main

// Exhaustive small-scope tables for config.Merge (C08) and config.Validate (C09).

import (
	"fmt"
	"io/fs"
	"math/rand"
	"strings"
	"testing/fstest"
	"time"

	"github.com/wokdav/gopki/generator/config"
	v1 "github.com/wokdav/gopki/generator/config/v1"
	"github.com/wokdav/gopki/generator/db"
	"github.com/wokdav/gopki/generator/db/filesystem"
)

func init() {
	streams["merge"] = streamMerge
	streams["validate"] = streamValidate
}

var attrNames = []string{"CN", "O", "C", "1.2.3.4", "L"}

func lists(alpha, maxlen int) [][]int {
	all := [][]int{{}}
	prev := [][]int{{}}
	for l := 1; l <= maxlen; l++ {
		var cur [][]int
		for _, p := range prev {
			for a := 0; a < alpha; a++ {
				cur = append(cur, append(append([]int{}, p...), a))
			}
		}
		all = append(all, cur...)
		prev = cur
	}
	return all
}

func join(l []int) string {
	s := make([]string, len(l))
	for i, x := range l {
		s[i] = fmt.Sprint(x)
	}
	return strings.Join(s, ",")
}

// six extension symbols over two OIDs (keyUsage's 2.5.29.15 is shared by a custom extension)
func mkExt(sym int) config.ExtensionConfig {
	switch sym / 2 {
	case 0:
		return v1.KeyUsage{Content: []string{[]string{"crlSign", "keyCertSign"}[sym%2]}}
	case 1:
		return v1.CustomExtension{OidStr: "1.2.3", Raw: []string{"!null", "!empty"}[sym%2]}
	default:
		return v1.CustomExtension{OidStr: "2.5.29.15", Raw: []string{"!null", "!empty"}[sym%2]}
	}
}

var extKeys []string

func symOf(e config.ExtensionConfig) int {
	k := fmt.Sprintf("%#v", e)
	for s, x := range extKeys {
		if x == k {
			return s
		}
	}
	return 99
}

func mergeCase(p, c []int) {
	pe := make([]config.ProfileExtension, len(p))
	for i, x := range p {
		pe[i] = config.ProfileExtension{ExtensionConfig: mkExt(x % 6), ExtensionProfile: config.ExtensionProfile{Optional: (x/6)%2 == 1, Override: (x/12)%2 == 1}}
	}
	// spare capacity, so that an in-place filter or append inside Merge would show in the caller's array
	ce := make([]config.ExtensionConfig, len(c), len(c)+4)
	for i, x := range c {
		ce[i] = mkExt(x)
	}
	prof := config.CertificateProfile{Name: "p", Extensions: pe}
	cont := config.CertificateContent{Alias: "a", Extensions: ce}
	res, err := config.Merge(prof, cont)
	if err != nil {
		fmt.Fprintf(out, "M %s|%s|ERR|1\n", join(p), join(c))
		return
	}
	r := make([]int, 0, len(res.Extensions))
	for _, e := range res.Extensions {
		r = append(r, symOf(e))
	}
	// inputs untouched?
	pure := len(prof.Extensions) == len(p) && len(cont.Extensions) == len(c)
	for i, x := range p {
		if pure && (symOf(pe[i].ExtensionConfig) != x%6 || pe[i].Optional != ((x/6)%2 == 1) || pe[i].Override != ((x/12)%2 == 1)) {
			pure = false
		}
	}
	for i, x := range c {
		if pure && symOf(ce[i]) != x {
			pure = false
		}
	}
	ps := "1"
	if !pure {
		ps = "0"
	}
	fmt.Fprintf(out, "M %s|%s|%s|%s\n", join(p), join(c), join(r), ps)
}

func streamMerge() {
	for s := 0; s < 6; s++ {
		extKeys = append(extKeys, fmt.Sprintf("%#v", mkExt(s)))
	}
	pl, cl := 2, 3
	if thorough() {
		pl, cl = 3, 4
	}
	for _, p := range lists(24, pl) {
		for _, c := range lists(6, cl) {
			mergeCase(p, c)
		}
	}
	// random longer lists
	rng := rand.New(rand.NewSource(seed))
	n := 20000
	if thorough() {
		n = 300000
	}
	for i := 0; i < n; i++ {
		p := make([]int, 3+rng.Intn(6))
		for j := range p {
			p[j] = rng.Intn(24)
		}
		c := make([]int, 3+rng.Intn(6))
		for j := range c {
			c[j] = rng.Intn(6)
		}
		mergeCase(p, c)
	}
}

// attribute symbol = 2*type + optional; type 0..4 = attrNames, 9 = a name the attribute table lacks ("DC")
func validateCase(ao int, p []int, nilAttrs bool, s []int) {
	attrs := make([]config.ProfileSubjectAttribute, len(p))
	for i, x := range p {
		name := "DC"
		if x/2 < len(attrNames) {
			name = attrNames[x/2]
		}
		attrs[i] = config.ProfileSubjectAttribute{Attribute: name, Optional: x%2 == 1}
	}
	if nilAttrs {
		attrs = nil
	}
	parts := make([]string, len(s))
	for i, t := range s {
		parts[i] = attrNames[t] + "=v"
	}
	rdn, err := config.ParseRDNSequence(strings.Join(parts, ", "))
	if err != nil {
		panic(err)
	}
	before := fmt.Sprint(rdn)
	ok := config.Validate(config.CertificateProfile{SubjectAttributes: config.ProfileSubjectAttributes{AllowOther: ao == 1, Attributes: attrs}}, config.CertificateContent{Subject: rdn})
	r, same := 0, 0
	if ok {
		r = 1
	}
	if fmt.Sprint(rdn) == before {
		same = 1
	}
	ps := join(p)
	if nilAttrs {
		ps = "nil"
	}
	fmt.Fprintf(out, "V %d|%s|%s|%d|%d\n", ao, ps, join(s), r, same)
}

// the same decision reached through an open database: the entity is built under a lenient profile, the profile is then replaced
// (AddProfile) by the one of the case, and the next run is planned with "generate all" - it must be refused exactly when the
// subject does not validate, before anything is generated
func validateSessionCase(ao int, p []int, s []int) {
	attrs := make([]config.ProfileSubjectAttribute, len(p))
	for i, x := range p {
		name := "DC"
		if x/2 < len(attrNames) {
			name = attrNames[x/2]
		}
		attrs[i] = config.ProfileSubjectAttribute{Attribute: name, Optional: x%2 == 1}
	}
	parts := make([]string, len(s))
	for i, t := range s {
		parts[i] = attrNames[t] + "=v"
	}
	m := fstest.MapFS{".": &fstest.MapFile{Mode: 0777 | fs.ModeDir}}
	t0 := time.Now().Add(-time.Hour)
	m["e.yaml"] = &fstest.MapFile{Data: []byte("version: 1\nsubject: " + strings.Join(parts, ", ") + "\nprofile: p\nkeyAlgorithm: P-256\n"), Mode: 0644, ModTime: t0}
	m["p.yaml"] = &fstest.MapFile{Data: []byte("version: 1\nname: p\n"), Mode: 0644, ModTime: t0}
	r := -1
	func() {
		defer func() {
			if rec := recover(); rec != nil {
				fmt.Fprintf(out, "SELFFAIL validate-session %d|%s|%s: panic %v\n", ao, join(p), join(s), rec)
			}
		}()
		d := filesystem.NewFilesystemDatabase(filesystem.NewMapFs(m))
		if err := d.Open(); err != nil {
			fmt.Fprintf(out, "SELFFAIL validate-session %d|%s|%s: open: %v\n", ao, join(p), join(s), err)
			return
		}
		plan, err := db.PlanBulkUpdate(d, db.UpdateMissing)
		if err == nil {
			_, err = db.BulkUpdate(d, plan)
		}
		if err != nil {
			fmt.Fprintf(out, "SELFFAIL validate-session %d|%s|%s: first run under the lenient profile failed: %v\n", ao, join(p), join(s), err)
			return
		}
		before := string(m["e.pem"].Data)
		if err := d.AddProfile(config.CertificateProfile{Name: "p", SubjectAttributes: config.ProfileSubjectAttributes{AllowOther: ao == 1, Attributes: attrs}}); err != nil {
			fmt.Fprintf(out, "SELFFAIL validate-session %d|%s|%s: AddProfile: %v\n", ao, join(p), join(s), err)
			return
		}
		plan, err = db.PlanBulkUpdate(d, db.UpdateAll)
		if err != nil {
			r = 0
			if !strings.Contains(err.Error(), "validate") {
				fmt.Fprintf(out, "NOTE validate-session %d|%s|%s: refused with another error: %v\n", ao, join(p), join(s), err)
			}
			if string(m["e.pem"].Data) != before {
				fmt.Fprintf(out, "SELFFAIL validate-session %d|%s|%s: the refused run changed the artifact\n", ao, join(p), join(s))
			}
			return
		}
		r = 1
		if _, err = db.BulkUpdate(d, plan); err != nil {
			fmt.Fprintf(out, "NOTE validate-session %d|%s|%s: accepted, generation failed: %v\n", ao, join(p), join(s), err)
		}
	}()
	if r >= 0 {
		fmt.Fprintf(out, "V %d|%s|%s|%d|1\n", ao, join(p), join(s), r)
	}
}

func validateSequenceCase(ao int, p []int, subjects [][]int) {
	attrs := make([]config.ProfileSubjectAttribute, len(p))
	for i, x := range p {
		name := "DC"
		if x/2 < len(attrNames) {
			name = attrNames[x/2]
		}
		attrs[i] = config.ProfileSubjectAttribute{Attribute: name, Optional: x%2 == 1}
	}
	m := fstest.MapFS{".": &fstest.MapFile{Mode: 0777 | fs.ModeDir}}
	d := filesystem.NewFilesystemDatabase(filesystem.NewMapFs(m))
	if err := d.Open(); err != nil {
		return
	}
	if err := d.AddProfile(config.CertificateProfile{Name: "p", SubjectAttributes: config.ProfileSubjectAttributes{AllowOther: ao == 1, Attributes: attrs}}); err != nil {
		fmt.Fprintf(out, "SELFFAIL validate-sequence: AddProfile: %v\n", err)
		return
	}
	for k, s := range subjects {
		parts := make([]string, len(s))
		for i, t := range s {
			parts[i] = attrNames[t] + "=v"
		}
		r := -1
		func() {
			defer func() {
				if rec := recover(); rec != nil {
					fmt.Fprintf(out, "SELFFAIL validate-sequence %d|%s|%s: panic %v\n", ao, join(p), join(s), rec)
				}
			}()
			v, err := config.ParseConfig(strings.NewReader("version: 1\nsubject: " + strings.Join(parts, ", ") + "\nprofile: p\nkeyAlgorithm: P-256\n"))
			if err != nil {
				return
			}
			cc, ok := v.(*config.CertificateContent)
			if !ok {
				return
			}
			cc.Alias = fmt.Sprintf("e%d", k)
			art, err := db.AddAndSign(d, *cc, false)
			if err != nil {
				r = 0
				if !strings.Contains(err.Error(), "validate") {
					fmt.Fprintf(out, "NOTE validate-sequence %d|%s|%s: refused with another error: %v\n", ao, join(p), join(s), err)
					r = -1
				}
				return
			}
			r = 1
			// what was built names the subject as written (a judgement, accepted or not, leaves the subject alone)
			if art != nil && art.Certificate != nil {
				var want []string
				for i := len(parts) - 1; i >= 0; i-- { // the certificate lists the attributes in reverse written order
					want = append(want, strings.SplitN(parts[i], "=", 2)[0])
				}
				var got []string
				for _, rdn := range art.Certificate.TBSCertificate.Subject {
					for _, atv := range rdn {
						name := atv.Type.String()
						for short, oid := range map[string]string{"CN": "2.5.4.3", "O": "2.5.4.10", "C": "2.5.4.6", "L": "2.5.4.7"} {
							if oid == name {
								name = short
							}
						}
						got = append(got, name)
					}
				}
				if strings.Join(got, ",") != strings.Join(want, ",") {
					fmt.Fprintf(out, "SELFFAIL validate-sequence %d|%s|%s: the certificate built after earlier judgements lists the subject attributes as %v, the configuration says %v (reversed)\n", ao, join(p), join(s), got, want)
				}
			}
		}()
		if r >= 0 {
			fmt.Fprintf(out, "V %d|%s|%s|%d|1\n", ao, join(p), join(s), r)
		}
	}
}

func streamValidate() {
	sl := 4
	if thorough() {
		sl = 5
	}
	subs := lists(5, sl)[1:]
	for _, ao := range []int{0, 1} {
		for _, s := range subs {
			validateCase(ao, nil, true, s)
		}
		for _, p := range lists(8, 3) {
			for _, s := range subs {
				validateCase(ao, p, false, s)
			}
		}
	}
	rng := rand.New(rand.NewSource(seed))
	n := 30000
	if thorough() {
		n = 300000
	}
	for i := 0; i < n; i++ {
		p := make([]int, 4+rng.Intn(2))
		for j := range p {
			p[j] = rng.Intn(8)
			if rng.Intn(12) == 0 {
				p[j] = 18 + rng.Intn(2) // unknown attribute name
			}
		}
		s := make([]int, 1+rng.Intn(6))
		for j := range s {
			s[j] = rng.Intn(5)
		}
		ao := rng.Intn(2)
		validateCase(ao, p, false, s)
		if i%100 == 0 {
			validateSessionCase(ao, p, s)
		}
	}
	// long attribute lists (a profile may list an attribute type many times, e.g. several OU): positions beyond 64
	for k := 0; k < 40; k++ {
		n := 60 + rng.Intn(12)
		p := make([]int, n)
		for j := range p {
			p[j] = 2*(1+rng.Intn(4)) + 1 // optional O / C / 1.2.3.4 / L
		}
		p[n-1-rng.Intn(3)] = 0 // a required CN near the end
		s := make([]int, 1+rng.Intn(3))
		for j := range s {
			s[j] = 1 + rng.Intn(4)
		}
		if k%2 == 0 {
			s = append(s, 0)
		}
		validateCase(rng.Intn(2), p, false, s)
	}
	// several entities judged one after the other in one open database under one profile: every verdict is the one of the
	// profile as it was given (a rejection must not leave anything behind that changes the next verdict)
	for k := 0; k < 60; k++ {
		ao := rng.Intn(2)
		p := make([]int, 1+rng.Intn(3))
		for j := range p {
			p[j] = rng.Intn(8)
		}
		var subjects [][]int
		for n := 0; n < 5; n++ {
			s := make([]int, 1+rng.Intn(3))
			for j := range s {
				s[j] = rng.Intn(5)
			}
			subjects = append(subjects, s)
		}
		validateSequenceCase(ao, p, subjects)
	}
	// short profiles through the session path as well
	for _, ao := range []int{0, 1} {
		for _, p := range lists(8, 2)[1:] {
			for _, s := range lists(5, 2)[1:] {
				validateSessionCase(ao, p, s)
			}
		}
	}
}
