#!/bin/sh
# Extract the model (coqc must run in the target directory) and build the driver.
set -e
cd "$(dirname "$0")"
coqc -Q ../coq/Model Gopki.Model -Q ../coq/Spec Gopki.Spec ../coq/Extract/Extract.v >/dev/null
rm -f ../coq/Extract/Extract.vo ../coq/Extract/Extract.glob ../coq/Extract/.Extract.aux ../coq/Extract/Extract.vok ../coq/Extract/Extract.vos
ocamlfind ocamlopt -O2 -w -a model.mli model.ml driver.ml -o driver 2>/dev/null || ocamlfind ocamlopt -w -a model.mli model.ml driver.ml -o driver
