(* Correspondence driver: reads one case per line from stdin, evaluates the extracted Coq model (and the
   specification oracle where it is a separate definition), prints only disagreements and a final count line.
   The implementation's observable result travels inside the case line, written by the Go harness.

   M <p1,p2,..>|<c1,c2,..>|<r1,r2,..>|<pure 0/1>    config.Merge; profile symbol = ext + 6*optional + 12*override
   V <allow 0/1>|<a1,..>|<s1,..>|<0/1>|<subject unchanged 0/1>   config.Validate; attr symbol = 2*type+optional
                                                     (type 9 = a name the table does not know)
   P <strat 0..31>|<ent;ent;..>|<plan: - or a1,a2,..>   db.PlanBulkUpdate over a synthetic database
        ent = alias,issuer(-1 none),cfgT,untilFuture,valid,file(0/1),hash(0 none,1 equal,2 different),
              cert(0/1),expired(0/1),key(0/1),req(0/1),fileT
   G <i1,i2,..>|<dupalias 0/1>|<opened 0/1>          FsDb.Open over a directory; issuer i_k of entity k: -1 root,
                                                     j = entity j, 99 = a name nobody defines

   output: MISMATCH <line> model=<..> [spec=<..>]   |   BADLINE <line>   |   DONE cases=<n> mismatches=<m> *)
open Model

let rec nat_of_int n = if n <= 0 then O else S (nat_of_int (n - 1))
let rec int_of_nat = function O -> 0 | S n -> 1 + int_of_nat n
let ints s = if s = "" then [] else List.map int_of_string (String.split_on_char ',' s)
let show l = String.concat "," (List.map string_of_int l)
let oid_class s = match s / 2 with 0 -> 0 | 1 -> 1 | _ -> 0
let oid_eqb a b = oid_class a = oid_class b
let json_eqb (a : int) b = a = b

let ent_of_string s =
  match ints s with
  | [alias; issuer; cfgt; untilf; valid; hasfile; hash; cert; expired; key; req; filet] ->
    let iss = if issuer < 0 then None else Some (nat_of_int issuer) in
    let cfg = { g_issuer = iss; g_subj = nat_of_int alias; g_vis = O; g_blind = O; g_kalg = EC; g_salg = EC;
                g_valid = valid = 1; g_until_future = untilf = 1; g_builds = true } in
    let hv vis = { h_issuer = iss; h_subj = nat_of_int alias; h_vis = nat_of_int vis; h_kalg = EC; h_salg = EC } in
    let file =
      if hasfile = 0 then None
      else Some { f_hash = (match hash with 0 -> None | 1 -> Some (hv 0) | _ -> Some (hv 7));
                  f_cert = (if cert = 1 then Some { c_subj = nat_of_int alias; c_vis = O; c_blind = O; c_iss = O;
                                                    c_pub = nat_of_int alias; c_signer = O; c_expired = expired = 1 } else None);
                  f_key = (if key = 1 then Some { k_id = nat_of_int alias; k_typ = EC } else None);
                  f_req = (if req = 1 then Some (nat_of_int (50 + alias)) else None);
                  f_mtime = nat_of_int filet } in
    { e_alias = nat_of_int alias; e_cfg = cfg; e_cfg_mtime = nat_of_int cfgt; e_file = file }
  | _ -> failwith "ent"

let strat_of_int s = { s_missing = s land 1 <> 0; s_expired = s land 2 <> 0; s_newer = s land 4 <> 0;
                       s_changed = s land 8 <> 0; s_all = s land 16 <> 0 }

let plan_str = function None -> "-" | Some l -> show (List.map int_of_nat l)

let () =
  let n = ref 0 and bad = ref 0 in
  let mismatch line rest = incr bad; if !bad <= 2000 then Printf.printf "MISMATCH %s %s\n" line rest in
  (try while true do
    let line = input_line stdin in
    if String.length line < 2 then () else begin
    incr n;
    let body = String.sub line 2 (String.length line - 2) in
    try
    match line.[0], String.split_on_char '|' body with
    | 'M', [p; c; r; pure] ->
      let prof = List.map (fun x -> { pe_ext = x mod 6; pe_optional = (x / 6) mod 2 = 1; pe_override = (x / 12) mod 2 = 1 }) (ints p) in
      let cert = ints c in
      let m = merge oid_eqb json_eqb prof cert and sp = merge_spec oid_eqb json_eqb prof cert in
      if m <> ints r || sp <> ints r || pure <> "1" then
        mismatch line (Printf.sprintf "model=%s spec=%s pure_expected=1" (show m) (show sp))
    | 'V', [a; p; s; r; same] ->
      let attrs = if p = "nil" then None
        else Some (List.map (fun x -> { pa_oid = (if x / 2 = 9 then None else Some (x / 2)); pa_optional = x mod 2 = 1 }) (ints p)) in
      let subj = List.rev (ints s) in   (* the model takes DER order *)
      let (f, subj') = validate_current (fun x y -> x = y) attrs (a = "1") subj in
      let (g, _) = validate_fixed (fun x y -> x = y) attrs (a = "1") subj in
      let impl = r = "1" in
      let same_model = subj' = subj in
      if f <> impl || same_model <> (same = "1") then
        mismatch line (Printf.sprintf "model=%b spec=%b subject_unchanged_model=%b" f g same_model)
    | 'P', [st; es; r] ->
      let ents = List.map ent_of_string (List.filter (fun x -> x <> "") (String.split_on_char ';' es)) in
      let s = strat_of_int (int_of_string st) in
      let m = plan_str (plan_current ents s) in
      if m <> r then begin
        (* specification oracle: the regen relation, entity by entity *)
        let fuel = nat_of_int (List.length ents + 1) in
        let want = List.filter (fun e -> regenb fuel ents s e.e_alias) ents in
        mismatch line (Printf.sprintf "model=%s spec_regen_set={%s}" m (show (List.map (fun e -> int_of_nat e.e_alias) want)))
      end
    | 'G', [is; dup; opened] ->
      let issuers = ints is in
      let ents = List.mapi (fun k i ->
        { e_alias = nat_of_int k;
          e_cfg = { g_issuer = (if i < 0 then None else Some (nat_of_int i)); g_subj = O; g_vis = O; g_blind = O; g_kalg = EC;
                    g_salg = EC; g_valid = true; g_until_future = true; g_builds = true };
          e_cfg_mtime = O; e_file = None }) issuers in
      let m = is_consistent ents && dup = "0" in   (* dup 1: alias collision, 2: artifact path collision; both must be refused *)
      let fuel = nat_of_int (List.length ents + 1) in
      let sp = List.for_all (fun e -> reachb fuel ents e.e_alias) ents && dup = "0" in
      if m <> (opened = "1") || sp <> (opened = "1") then mismatch line (Printf.sprintf "model=%b spec=%b" m sp)
    | _ -> incr bad; Printf.printf "BADLINE %s\n" line
    with Failure _ | Invalid_argument _ -> incr bad; Printf.printf "BADLINE %s\n" line
    end
  done with End_of_file -> ());
  Printf.printf "DONE cases=%d mismatches=%d\n" !n !bad
