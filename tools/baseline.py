#!/usr/bin/env python3
"""Runs the repository's pinned test suite with the verif guard OFF and compares with /root/.vp/BASELINE.json.
exit 0 iff every stable_pass test passes."""
import json, os, subprocess, sys
repo = os.environ.get("VERIF_REPO", "/repo")
env = dict(os.environ, GOFLAGS="-mod=mod", GOPROXY="off", GOSUMDB="off", GOTOOLCHAIN="local")
p = subprocess.run(["go", "test", "-json", "-vet=off", "-count=1", "-timeout", "25m", "./..."], cwd=repo, env=env, capture_output=True, text=True)
passed = set()
failed = set()
for l in p.stdout.splitlines():
    try: e = json.loads(l)
    except Exception: continue
    if e.get("Test") and e.get("Action") in ("pass", "fail"):
        (passed if e["Action"] == "pass" else failed).add(e["Package"] + "::" + e["Test"])
base = json.load(open("/root/.vp/BASELINE.json"))["stable_pass"] if os.path.exists("/root/.vp/BASELINE.json") else sorted(passed)
missing = [t for t in base if t not in passed]
print("baseline %d, passed %d, failed %d, baseline tests not passing: %d" % (len(base), len(passed), len(failed), len(missing)))
for t in missing[:20]: print("  NOT PASSING", t)
sys.exit(1 if missing else 0)
