#!/usr/bin/env python3
"""Orchestrator of the gopki verification checks.

  check.py <Cnn> <quick|thorough>     decide one property on /repo's current working tree
  check.py replay <replay-file>       show a replay file and re-run its failing cases on the current tree
  check.py setup                      build everything once (MANIFEST.setup_cmd)

Per run: (1) full .vo build of the Coq development (incremental `make`), the theorems of Properties/<id>.v are
re-checked and their `Print Assumptions` collected; forbidden constructs are grepped for; (2) the model is
extracted and the OCaml driver built; the Go harness is built against /repo's working tree; (3) the property's
correspondence streams run the real code and the model on the same cases; (4) disagreements and broken
obligations are classified with the specification oracles; (5) evidence is written, KNOWN-FINDING / VIOLATION
lines are printed, exit code 0/1.
"""
import fcntl, hashlib, json, os, re, shutil, subprocess, sys, time

VERIF = os.path.dirname(os.path.dirname(os.path.abspath(__file__)))
REPO = os.environ.get("VERIF_REPO", "/repo")
COQ = os.path.join(VERIF, "coq")
ENV = dict(os.environ, GOFLAGS="-mod=mod", GOPROXY="off", GOSUMDB="off", GOTOOLCHAIN="local", VERIF_REPO=REPO)
ENV.pop("GOWORK", None)
ENV["VERIF_GOPKI_BIN"] = os.path.join(VERIF, "build", "gopki")     # the CLI binary built from REPO by build_harness
ENV["VERIF_SCRATCH"] = os.path.join(VERIF, "build")                # native temp directories of the cli stream
COQ_Q = ["-Q", COQ + "/Model", "Gopki.Model", "-Q", COQ + "/Spec", "Gopki.Spec", "-Q", COQ + "/Proofs", "Gopki.Proofs",
         "-Q", COQ + "/Properties", "Gopki.Properties"]
ALLOWED_AXIOMS = ()   # nothing: every property theorem must be closed under the global context

sys.path.insert(0, os.path.dirname(os.path.abspath(__file__)))
from props import PROPS          # noqa: E402  property table: streams, rules, notes
import streams as S              # noqa: E402  stream runners


def sh(cmd, cwd=None, timeout=3600, stdin=None):
    t = time.time()
    try:
        p = subprocess.run(cmd, cwd=cwd, env=ENV, capture_output=True, text=True, timeout=timeout, input=stdin,
                           shell=isinstance(cmd, str))
        return p.returncode, p.stdout, p.stderr, time.time() - t
    except subprocess.TimeoutExpired as e:
        return 124, (e.stdout or b"").decode("utf8", "replace") if isinstance(e.stdout, bytes) else (e.stdout or ""), "timeout after %ss" % timeout, time.time() - t


class Lock:
    def __init__(self, name):
        os.makedirs(os.path.join(VERIF, "build"), exist_ok=True)
        self.f = open(os.path.join(VERIF, "build", name + ".lock"), "w")
    def __enter__(self):
        fcntl.flock(self.f, fcntl.LOCK_EX); return self
    def __exit__(self, *a):
        fcntl.flock(self.f, fcntl.LOCK_UN); self.f.close()


def theorems_of(prop):
    src = open(os.path.join(COQ, "Properties", prop + ".v")).read()
    return re.findall(r"^(?:Theorem|Example|Corollary)\s+(\w+)", src, re.M)


def build_coq(prop, tier, broken):
    """returns (obligations, discharged, per-theorem assumptions, checker_cmd)"""
    names = theorems_of(prop)
    with Lock("coq"):
        if not os.path.exists(os.path.join(COQ, "Makefile")):
            sh("coq_makefile -f _CoqProject -o Makefile", cwd=COQ)
        if tier == "thorough" and os.environ.get("VERIF_CLEAN", "1") == "1" and not os.environ.get("VERIF_NOCLEAN"):
            pass  # a clean rebuild is done once by the thorough driver script (tools/thorough_all.sh), not per property
        rc, out, err, _ = sh("timeout 3000 make -j16", cwd=COQ, timeout=3100)
        if rc != 0:
            # is this property's cone affected?
            rc2, o2, e2, _ = sh("timeout 3000 make -j16 Properties/%s.vo" % prop, cwd=COQ, timeout=3100)
            if rc2 != 0:
                m = re.search(r'File "\./([^"]+)", line (\d+)', e2 + o2)
                broken.append("proof obligation: Coq build of Properties/%s.v failed at %s" % (prop, "%s:%s" % (m.group(1), m.group(2)) if m else "?") + " :: " + (e2.strip().split("\n")[-1][:300] if e2.strip() else ""))
                return len(names), 0, {}, "make -j16 (coqc 8.16.1, full .vo build) + Print Assumptions per theorem"
    bdir = os.path.join(VERIF, "build", prop)
    os.makedirs(bdir, exist_ok=True)
    probe = "From Gopki.Properties Require Import %s.\n" % prop + "".join('Print Assumptions %s.\n' % n for n in names)
    open(os.path.join(bdir, "Probe.v"), "w").write(probe)
    rc, out, err, _ = sh(["coqc"] + COQ_Q + ["Probe.v"], cwd=bdir, timeout=600)
    assum = {}
    chunks = re.split(r"(?=Closed under the global context|Axioms:)", out)
    chunks = [c for c in chunks if c.startswith("Closed") or c.startswith("Axioms:")]
    discharged = 0
    for n, c in zip(names, chunks):
        if c.startswith("Closed"):
            assum[n] = "Closed under the global context"; discharged += 1
        else:
            ax = re.findall(r"^(\S+)\s*:", c[len("Axioms:"):], re.M)
            assum[n] = "Axioms: " + ", ".join(ax)
            if all(a in ALLOWED_AXIOMS for a in ax): discharged += 1
            else: broken.append("proof obligation: theorem %s depends on axioms %s" % (n, ax))
    if rc != 0 or len(chunks) != len(names):
        broken.append("proof obligation: Print Assumptions probe failed for %s: %s" % (prop, (err or out).strip()[-300:]))
    rc3, o3, _, _ = sh(r"grep -rnE '\bAdmitted\b|\badmit\b|^\s*(Axiom|Parameter|Conjecture|Hypothesis|Variable)s? |Unset Guard|bypass_check|Admit Obligations|-type-in-type|impredicative-set' --include=*.v --include=_CoqProject . | grep -vE '^\./(Model|Spec|Proofs)/[A-Za-z0-9]+\.v:[0-9]+:\s+(Variable|Hypothesis)s? ' || true", cwd=COQ)
    bad = [l for l in o3.strip().split("\n") if l.strip()]
    if bad:
        broken.append("forbidden construct in the Coq development: " + bad[0][:200])
    return len(names), discharged, assum, "make -j16 in /verif/coq (coqc 8.16.1, full .vo build) + coqc Probe.v (Print Assumptions for every theorem of Properties/%s.v)" % prop


def build_driver(broken):
    with Lock("ocaml"):
        rc, o, e, _ = sh(["sh", os.path.join(VERIF, "ocaml", "build.sh")], timeout=900)
    if rc: broken.append("correspondence: extraction / driver build failed: " + (o + e)[-300:])


def build_harness(broken):
    d = os.path.join(VERIF, "harness")
    with Lock("harness"):
        try:
            shutil.copy(os.path.join(REPO, "go.sum"), os.path.join(d, "go.sum"))
        except Exception as ex:
            broken.append("correspondence: cannot read %s/go.sum: %s" % (REPO, ex)); return
        gm = open(os.path.join(d, "go.mod")).read()
        gm2 = re.sub(r"(replace github.com/wokdav/gopki => ).*", r"\g<1>" + REPO, gm)
        if gm2 != gm: open(os.path.join(d, "go.mod"), "w").write(gm2)
        rc, o, e, _ = sh(["go", "build", "-tags", "verif", "-o", "harness", "."], cwd=d, timeout=1200)
        if rc == 0 and os.path.isdir(os.path.join(REPO, "cli")):
            rc2, o2, e2, _ = sh(["go", "build", "-tags", "verif", "-o", os.path.join(VERIF, "build", "gopki"), "."], cwd=REPO, timeout=1200)
            if rc2: broken.append("correspondence: building the gopki CLI failed: " + e2[-300:])
    if rc: broken.append("correspondence: harness build failed (does %s still compile?): %s" % (REPO, e[-400:]))


def known_findings():
    p = os.path.join(VERIF, "known_findings.json")
    return json.load(open(p)) if os.path.exists(p) else []


def main():
    if len(sys.argv) >= 2 and sys.argv[1] == "setup":
        broken = []
        build_coq("C08", "quick", broken); build_driver(broken); build_harness(broken)
        for b in broken: print("SETUP PROBLEM:", b)
        sys.exit(1 if broken else 0)
    if len(sys.argv) >= 3 and sys.argv[1] == "replay":
        return S.replay(sys.argv[2], sh, VERIF, REPO)
    prop, tier = sys.argv[1], (sys.argv[2] if len(sys.argv) > 2 else os.environ.get("VERIF_TIER", "quick"))
    seed = int(os.environ.get("VERIF_SEED", "1") or 1)
    t0 = time.time()
    P = PROPS[prop]
    bdir = os.path.join(VERIF, "build", prop); os.makedirs(bdir, exist_ok=True)
    os.makedirs(os.path.join(VERIF, "evidence"), exist_ok=True)
    broken = []
    obligations, discharged, assum, checker = build_coq(prop, tier, broken)
    build_driver(broken); build_harness(broken)
    cov = {"evaluations": 0, "distinct_nontrivial": 0, "samples": [], "streams": {}}
    violations = []      # dicts: {stream, case, detail, concrete(bool)}
    build_failed = any(b.startswith("correspondence:") for b in broken)
    if not build_failed:
        for st in P["streams"]:
            try:
                r = S.run_stream(st, prop, tier, seed, dict(VERIF=VERIF, REPO=REPO, ENV=ENV, COQ_Q=COQ_Q, bdir=bdir, sh=sh))
            except Exception as ex:   # a crashed stream is a broken correspondence, never a silent pass
                import traceback
                r = {"cases": 0, "nontrivial": 0, "samples": [], "violations": [], "error": "stream %s crashed: %s" % (st, traceback.format_exc()[-600:])}
            cov["evaluations"] += r["cases"]; cov["distinct_nontrivial"] += r["nontrivial"]
            cov["samples"] += r["samples"][:3]
            cov["streams"][st] = {k: r[k] for k in r if k not in ("violations", "samples")}
            if r.get("error"): broken.append("correspondence: " + r["error"])
            for v in r["violations"]:
                v["stream"] = st; violations.append(v)
    # known findings
    # a finding belongs to one property; "also" names the properties whose streams can meet the same failing input
    kf = [f for f in known_findings() if f.get("status") == "known" and (f.get("property") == prop or prop in f.get("also", []))]
    new = []
    hit = {}
    for v in violations:
        k = next((f for f in kf if re.search(f["match"], v["case"] + " " + v.get("detail", ""))), None)
        if k: hit[k["id"]] = hit.get(k["id"], 0) + 1
        else: new.append(v)
    for f in kf:
        if f.get("property") != prop and not hit.get(f["id"]): continue
        print("KNOWN-FINDING: property=%s %s%s" % (prop, f["what"], "" if hit.get(f["id"]) else " (not reproduced in this run)"))
    ev = {"property_id": prop, "tier": tier, "seed": seed, "level": "proof", "wall_s": round(time.time() - t0, 1),
          "violations": len(new) + (1 if broken and not new else 0),
          "assumptions": P.get("assumptions", []),
          "coverage": {"obligations": obligations, "discharged": discharged, "checker_cmd": checker,
                       "theorems": assum,
                       "trusted_base": P.get("trusted_base", []) + S.TRUSTED_BASE,
                       "evaluations": cov["evaluations"], "distinct_nontrivial": cov["distinct_nontrivial"],
                       "rule": P["rule"], "exhaustive": P.get("exhaustive", False),
                       "samples": cov["samples"] or ["(no case was run)"], "streams": cov["streams"],
                       "known_findings_replayed": hit, "broken": broken}}
    json.dump(ev, open(os.path.join(VERIF, "evidence", prop + ".json"), "w"), indent=1, default=str)
    rc = 0
    if new or broken:
        rc = 1
        concrete = [v for v in new if v.get("concrete")]
        rid = hashlib.sha1(repr((new[:1], broken)).encode()).hexdigest()[:10]
        path = os.path.join(bdir, "replay-%s.json" % rid)
        json.dump({"property": prop, "tier": tier, "seed": seed, "repo": REPO,
                   "broken_obligations_or_correspondence": broken,
                   "failing_inputs": concrete[:25],
                   "disagreements_without_established_spec_violation": [v for v in new if not v.get("concrete")][:25],
                   "how_to_replay": "python3 tools/check.py replay " + path}, open(path, "w"), indent=1, default=str)
        print("VIOLATION property=%s replay=%s%s" % (prop, path, "" if concrete else " no-failing-input-found"))
    else:
        print("OK property=%s tier=%s obligations=%d/%d cases=%d wall=%.0fs" % (prop, tier, discharged, obligations, cov["evaluations"], time.time() - t0))
    sys.exit(rc)


if __name__ == "__main__":
    main()
