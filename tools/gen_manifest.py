#!/usr/bin/env python3
"""Writes MANIFEST.json from tools/props.py + the text table below (run by hand after editing; the result is committed)."""
import json, os, sys
sys.path.insert(0, os.path.dirname(os.path.abspath(__file__)))
from props import PROPS
from manifest_text import TEXT, NOT_YET
checks = []
for pid in sorted(PROPS):
    t = TEXT[pid]
    checks.append({"property_id": pid, "quick_cmd": "python3 tools/check.py %s quick" % pid, "thorough_cmd": "python3 tools/check.py %s thorough" % pid,
                   "evidence_file": "evidence/%s.json" % pid, "replay_cmd_template": "python3 tools/check.py replay {path}", "engine": "coq-model+correspondence",
                   "level_claimed": {"category": "proof", "text": t["level"], "design_ref": "DESIGN.md section 6, " + pid},
                   "level_note": t["note"], "technique": t["technique"]})
m = {"version": 1,
     "setup_cmd": "python3 tools/check.py setup",
     "hooks": {"guard": "verif", "enable": "go build -tags verif (no guarded file exists: every observation point is reachable through gopki's public API)",
               "baseline_off_cmd": "python3 tools/baseline.py", "source_commits": [], "add_only": True},
     "engines": [{"name": "coq-model+correspondence", "path": "coq/ ocaml/ harness/ tools/", "serves_properties": sorted(PROPS),
                  "kind_free_text": "hand-written executable Gallina model of gopki with per-property theorems (Coq 8.16.1), tied to /repo on every run by a differential "
                                    "correspondence check: Go harness on the real code vs the extracted / vm_compute-evaluated model on the same inputs"}],
     "checks": checks,
     "not_applicable": [{"property_id": p, "reason": r} for p, r in sorted(NOT_YET.items()) if p not in PROPS],
     "notes": "See DESIGN.md. Checks honour VERIF_SEED and VERIF_REPO (default /repo). known_findings.json lists recorded findings and repaired defects."}
json.dump(m, open(os.path.join(os.path.dirname(os.path.dirname(os.path.abspath(__file__))), "MANIFEST.json"), "w"), indent=1)
print(len(checks), "checks,", len(m["not_applicable"]), "not yet claimed")
