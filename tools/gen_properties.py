#!/usr/bin/env python3
"""One-off generator used while porting: writes coq/Properties/Cnn.v from `Check` output (statement text) so that
each property file restates its theorems in full and closes them with `exact <lemma>`.  The generated files are
committed and from then on edited by hand; this script is kept for reference only."""
import re, sys, json
out = open('/tmp/chk2.out').read()
stm = {}
for m in re.finditer(r'^(\w+)\n     : (.*?)(?=^\w+\n     : |\Z)', out, re.S | re.M):
    stm[m.group(1)] = m.group(2).rstrip()
HEADER = open('/tmp/chk2.v').read().split('Set Printing')[0]
props = json.load(open(sys.argv[1]))
for pid, ths in props.items():
    lines = ["(* Property %s - theorem statements only; every proof is `exact <lemma>` into Proofs/. *)" % pid, HEADER.strip(), ""]
    for new, lemma, comment in ths:
        if comment: lines.append("(* %s *)" % comment)
        body = "\n".join("  " + l[5:] if l.startswith("     ") else "  " + l for l in stm[lemma].split("\n"))
        lines += ["Theorem %s :\n%s.\nProof. exact %s. Qed.\nPrint Assumptions %s.\n" % (new, body, lemma, new)]
    open('/verif/coq/Properties/%s.v' % pid, 'w').write("\n".join(lines))
