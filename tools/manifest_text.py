TEXT = {
 "C08": {"technique": "Coq refinement proof (merge = merge_spec, induction on the profile list) + exhaustive differential correspondence",
         "level": "Theorem C08_merge_refines_spec: the model of config.Merge (index bookkeeping as in the code) equals the documented rule for every extension type and all lists, unbounded. "
                  "The model is tied to the code by running config.Merge and the extracted model on every small list pair and on random longer ones; input purity is compared before/after.",
         "note": "trusted: Coq kernel, extraction (ExtrOcamlBasic), Go harness; the correspondence is exhaustive only up to the stated list lengths; generation failure of content-less extensions is covered by the certificate stream (C06)"},
 "C09": {"technique": "Coq proof (validate = documented acceptance rule; rejected entity aborts planning) + exhaustive differential correspondence",
         "level": "Theorems C09_validate_spec (Validate accepts exactly: in-order subsequence unless allowOther, every non-optional attribute present; subject returned unchanged) and "
                  "C09_rejected_aborts_plan, for all profiles and subjects. Tie: config.Validate vs the extracted model on all profiles <= 3 x subjects <= 4/5 and random longer ones.",
         "note": "trusted: Coq kernel, extraction, Go harness; attribute-name resolution is modelled as a table lookup (unknown names reject)"},
 "C11": {"technique": "Coq proof (plan = regen relation, issuers first, by BFS invariant over forests) + exhaustive decision-table correspondence",
         "level": "Theorem C11_plan_iff_regen: for every forest and every strategy the planned list is exactly the documented regeneration relation, duplicate-free, every issuer before its subjects. "
                  "Tie: db.PlanBulkUpdate over a synthetic db.Database vs the extracted model on the full single-entity table, the issuer/subject pair table and random forests.",
         "note": "trusted: Coq kernel, extraction, Go harness with its synthetic Database; expiry is an abstract boolean (time.Now comparisons are exercised, not modelled)"},
 "C18": {"technique": "Coq proof (consistency check accepts iff every entity reaches a root; counting argument on the BFS) + exhaustive issuer-graph correspondence",
         "level": "Theorem C18_consistent_iff for all directories with unique aliases. Tie: FsDb.Open on an in-memory directory for every issuer assignment on <= 4 (quick) / <= 6 (thorough) entities, "
                  "duplicate aliases, and a byte-for-byte snapshot comparison after every refusal.",
         "note": "trusted: Coq kernel, extraction, Go harness; YAML parsing and alias derivation are exercised through the real Open, not modelled in this stream"},
}
NOT_YET = {p: "check under construction in this session (model and theorems exist in coq/, correspondence stream not yet registered)" for p in
           ["C01", "C02", "C03", "C04", "C05", "C06", "C07", "C10", "C12", "C13", "C14", "C15", "C16", "C17", "C19", "C20"]}

BYTE_NOTE = ("trusted: Coq kernel; the harness (Go generators, TLV splitter, stdlib crypto checks); encoding/asn1 conventions are modelled (GoAsn1-style combinators in Model/Asn1.v, X509.v) and tied byte-exactly on every generated certificate; "
             "random material (serial, key, signature, clock) is observed from the implementation's output and fed to the model")
TEXT.update({
 "C02": {"technique": "Coq proofs (DER round trips D1/D2, strict X.509 parser accepts every generated certificate and reads back the typed value; calendar range by lia) + byte-exact differential correspondence",
         "level": "Theorems C02_generated_parses_back, C02_parse_is_canonical, DER/time round trips, serial bound: for every configuration and oracle draw the model's certificate is canonical DER that the independent strict parser maps back to the same typed certificate. "
                  "Tie: the model must reproduce every certificate the real code writes byte for byte; the extracted strict parser and the C02 shape rules run on the implementation's bytes.", "note": BYTE_NOTE},
 "C03": {"technique": "Coq proofs (subject grammar parse = written pairs reversed; generated fields = configured fields) + byte-exact differential correspondence with and without profiles",
         "level": "Theorems C03_subject_grammar and C03_fields_from_config for all subjects in the documented grammar / all configurations. Tie: byte-exact certificates for subjects over every short name, custom OIDs and non-ASCII values, with and without constraining profiles, serial and unique-id boundaries.", "note": BYTE_NOTE},
 "C04": {"technique": "Coq proofs (date parsing for every valid calendar date, UTC conversion calendar-valid for every offset by lia, time round trip) + byte-exact correspondence over date grids x zones",
         "level": "Theorems C04_date_parse, C04_validity_time_is_calendar_valid, C04_time_roundtrip over all dates/offsets. Tie: notBefore/notAfter bytes of real certificates for month/day grids, carrying durations, certificate/profile validity combinations under four (thorough: eight) TZ settings.",
         "note": BYTE_NOTE + "; Go's AddDate/Date normalisation is modelled (Time.add_date), zone offsets are an oracle transcript from Go's time package"},
 "C05": {"technique": "Coq proofs over the finite name tables (lifted vm_compute sweeps) + exhaustive 14 x 9 table correspondence through real configs",
         "level": "Theorems C05_key_table, C05_default_signature_scheme, C05_spki_algorithm_* over the full (finite) schema enums. Tie: every key algorithm x every signature algorithm (and omitted) for roots, every subject key type under every issuer key type; SPKI algorithm/curve compared with the table, key size measured.",
         "note": BYTE_NOTE + "; key generation itself is an oracle (crypto/*, keybase brainpool)"},
 "C06": {"technique": "Coq proofs (extension list = compiled effective list in order; base64 round trip by induction; raw values of any length) + byte-exact correspondence over payload lengths and merged lists",
         "level": "Theorems C06_extensions_in_order, C06_base64_roundtrip, C06_raw_binary_any_length for all lists / all payloads. Tie: byte-exact certificates for payload lengths 1..1100 and up to 64 KiB, every kind x critical x raw form, lists of 0-12 extensions, profile-merged lists incl. content-less entries (must fail).", "note": BYTE_NOTE},
 "C07": {"technique": "Coq proofs: one decoder-inverts-encoder theorem per extension kind against RFC 5280/6960 decoders written independently (Spec/ExtSpec.v, PolicySpec.v) + byte-exact correspondence",
         "level": "Theorems C07_* for keyUsage (all 2^7 sets), basicConstraints, SKI, AKI (hash / explicit), EKU, SAN, AIA, certificatePolicies. Tie: byte-exact extension values inside real certificates for all key-usage subsets, ca x pathLen, SAN lists, key ids 1..64 octets, all qualifier shapes.",
         "note": BYTE_NOTE + "; recorded findings F5 (pathLen 0 cannot be expressed) and F22 (empty userNotice) are excluded from the generators and kept in known_findings.json"},
 "C16": {"technique": "Coq proof (admission encoder inverted by a CommonPKI AdmissionSyntax decoder written from the specification) + byte-exact correspondence over admission trees",
         "level": "Theorem C16_admission_decodes for every admission tree. Tie: byte-exact admission extension values for systematic trees (authority kinds x naming authorities x optional-member subsets) and random ones; string-type violations must be errors.", "note": BYTE_NOTE},
 "C19": {"technique": "Coq proof (manipulated certificate = unmanipulated one with exactly the named fields replaced) + byte-exact correspondence over all 64 subsets + stdlib signature verification",
         "level": "Theorem C19_manipulations_exact for all configurations. Tie: byte-exact certificates for all 2^6 subsets of manipulation keys on subordinates and roots; the signature is verified with the standard library over the raw (manipulated) TBS bytes; values that do not convert must be errors.", "note": BYTE_NOTE},
})
for _p in list(NOT_YET):
    if _p in TEXT: del NOT_YET[_p]
