TEXT = {
 "C08": {"technique": "Coq refinement proof (merge = merge_spec, induction on the profile list) + exhaustive differential correspondence",
         "level": "Theorem C08_merge_refines_spec: the model of config.Merge (index bookkeeping as in the code) equals the documented rule for every extension type and all lists, unbounded. "
                  "The model is tied to the code by running config.Merge and the extracted model on every small list pair and on random longer ones; input purity is compared before/after.",
         "note": "trusted: Coq kernel, extraction (ExtrOcamlBasic), Go harness; the correspondence is exhaustive only up to the stated list lengths; generation failure of content-less extensions is covered by the certificate stream (C06)"},
 "C09": {"technique": "Coq proof (validate = documented acceptance rule; rejected entity aborts planning) + exhaustive differential correspondence",
         "level": "Theorems C09_validate_spec (Validate accepts exactly: in-order subsequence unless allowOther, every non-optional attribute present; subject returned unchanged) and "
                  "C09_rejected_aborts_plan, for all profiles and subjects. Tie: config.Validate vs the extracted model on all profiles <= 3 x subjects <= 4/5 and random longer ones.",
         "note": "trusted: Coq kernel, extraction, Go harness; attribute-name resolution is modelled as a table lookup (unknown names reject)"},
 "C11": {"technique": "Coq proof (plan = regen relation, issuers first, by BFS invariant over forests) + exhaustive decision-table correspondence",
         "level": "Theorem C11_plan_iff_regen: for every forest and every strategy the planned list is exactly the documented regeneration relation, duplicate-free, every issuer before its subjects. "
                  "Tie: db.PlanBulkUpdate over a synthetic db.Database vs the extracted model on the full single-entity table, the issuer/subject pair table and random forests.",
         "note": "trusted: Coq kernel, extraction, Go harness with its synthetic Database; expiry is an abstract boolean (time.Now comparisons are exercised, not modelled)"},
 "C18": {"technique": "Coq proof (consistency check accepts iff every entity reaches a root; counting argument on the BFS) + exhaustive issuer-graph correspondence",
         "level": "Theorem C18_consistent_iff for all directories with unique aliases. Tie: FsDb.Open on an in-memory directory for every issuer assignment on <= 4 (quick) / <= 6 (thorough) entities, "
                  "duplicate aliases, and a byte-for-byte snapshot comparison after every refusal.",
         "note": "trusted: Coq kernel, extraction, Go harness; YAML parsing and alias derivation are exercised through the real Open, not modelled in this stream"},
}
NOT_YET = {p: "check under construction in this session (model and theorems exist in coq/, correspondence stream not yet registered)" for p in
           ["C01", "C02", "C03", "C04", "C05", "C06", "C07", "C10", "C12", "C13", "C14", "C15", "C16", "C17", "C19", "C20"]}

BYTE_NOTE = ("trusted: Coq kernel; the harness (Go generators, TLV splitter, stdlib crypto checks); encoding/asn1 conventions are modelled (GoAsn1-style combinators in Model/Asn1.v, X509.v) and tied byte-exactly on every generated certificate; "
             "random material (serial, key, signature, clock) is observed from the implementation's output and fed to the model")
TEXT.update({
 "C02": {"technique": "Coq proofs (DER round trips D1/D2, strict X.509 parser accepts every generated certificate and reads back the typed value; calendar range by lia) + byte-exact differential correspondence",
         "level": "Theorems C02_generated_parses_back, C02_parse_is_canonical, DER/time round trips, serial bound: for every configuration and oracle draw the model's certificate is canonical DER that the independent strict parser maps back to the same typed certificate. "
                  "Tie: the model must reproduce every certificate the real code writes byte for byte; the extracted strict parser and the C02 shape rules run on the implementation's bytes.", "note": BYTE_NOTE},
 "C03": {"technique": "Coq proofs (subject grammar parse = written pairs reversed; generated fields = configured fields) + byte-exact differential correspondence with and without profiles",
         "level": "Theorems C03_subject_grammar and C03_fields_from_config for all subjects in the documented grammar / all configurations. Tie: byte-exact certificates for subjects over every short name, custom OIDs and non-ASCII values, with and without constraining profiles, serial and unique-id boundaries.", "note": BYTE_NOTE},
 "C04": {"technique": "Coq proofs (date parsing for every valid calendar date, UTC conversion calendar-valid for every offset by lia, time round trip) + byte-exact correspondence over date grids x zones",
         "level": "Theorems C04_date_parse, C04_validity_time_is_calendar_valid, C04_time_roundtrip over all dates/offsets. Tie: notBefore/notAfter bytes of real certificates for month/day grids, carrying durations, certificate/profile validity combinations under four (thorough: eight) TZ settings.",
         "note": BYTE_NOTE + "; Go's AddDate/Date normalisation is modelled (Time.add_date), zone offsets are an oracle transcript from Go's time package"},
 "C05": {"technique": "Coq proofs over the finite name tables (lifted vm_compute sweeps) + exhaustive 14 x 9 table correspondence through real configs",
         "level": "Theorems C05_key_table, C05_default_signature_scheme, C05_spki_algorithm_* over the full (finite) schema enums. Tie: every key algorithm x every signature algorithm (and omitted) for roots, every subject key type under every issuer key type; SPKI algorithm/curve compared with the table, key size measured.",
         "note": BYTE_NOTE + "; key generation itself is an oracle (crypto/*, keybase brainpool)"},
 "C06": {"technique": "Coq proofs (extension list = compiled effective list in order; base64 round trip by induction; raw values of any length) + byte-exact correspondence over payload lengths and merged lists",
         "level": "Theorems C06_extensions_in_order, C06_base64_roundtrip, C06_raw_binary_any_length for all lists / all payloads. Tie: byte-exact certificates for payload lengths 1..1100 and up to 64 KiB, every kind x critical x raw form, lists of 0-12 extensions, profile-merged lists incl. content-less entries (must fail).", "note": BYTE_NOTE},
 "C07": {"technique": "Coq proofs: one decoder-inverts-encoder theorem per extension kind against RFC 5280/6960 decoders written independently (Spec/ExtSpec.v, PolicySpec.v) + byte-exact correspondence",
         "level": "Theorems C07_* for keyUsage (all 2^7 sets), basicConstraints, SKI, AKI (hash / explicit), EKU, SAN, AIA, certificatePolicies. Tie: byte-exact extension values inside real certificates for all key-usage subsets, ca x pathLen, SAN lists, key ids 1..64 octets, all qualifier shapes.",
         "note": BYTE_NOTE + "; recorded findings F5 (pathLen 0 cannot be expressed) and F22 (empty userNotice) are excluded from the generators and kept in known_findings.json"},
 "C16": {"technique": "Coq proof (admission encoder inverted by a CommonPKI AdmissionSyntax decoder written from the specification) + byte-exact correspondence over admission trees",
         "level": "Theorem C16_admission_decodes for every admission tree. Tie: byte-exact admission extension values for systematic trees (authority kinds x naming authorities x optional-member subsets) and random ones; string-type violations must be errors.", "note": BYTE_NOTE},
 "C19": {"technique": "Coq proof (manipulated certificate = unmanipulated one with exactly the named fields replaced) + byte-exact correspondence over all 64 subsets + stdlib signature verification",
         "level": "Theorem C19_manipulations_exact for all configurations. Tie: byte-exact certificates for all 2^6 subsets of manipulation keys on subordinates and roots; the signature is verified with the standard library over the raw (manipulated) TBS bytes; values that do not convert must be errors.", "note": BYTE_NOTE},
})
for _p in list(NOT_YET):
    if _p in TEXT: del NOT_YET[_p]

DIR_NOTE = ("trusted: Coq kernel; the harness (in-memory Filesystem with a logical clock and fault injection, projection of files to observables with crypto/x509 and encoding/pem); "
            "the abstract directory model (aliases, key identities, hash pre-images, modification-time order) is tied to the code by lockstep comparison after every step of random histories; "
            "there is no formal refinement between the byte level and the abstract level beyond shared definitions")
TEXT.update({
 "C01": {"technique": "Coq proof over the directory model (every regenerated entity chains to its issuer's current certificate, by the BFS-order invariant; hashed AKI = issuer's hashed SKI) + lockstep histories and stdlib signature verification",
         "level": "Theorems C01_regenerated_entities_chain (all directories, all strategies) and C01_aki_is_ski. Tie: after every run of random histories the chain flag (signature under the issuer's current certificate, issuer DN bytes = subject DN bytes, "
                  "checked with crypto/x509) is compared with the model and rule 1 is evaluated on the implementation's files; the certificate stream verifies signatures for all key / signature algorithm pairs with the standard library and compares SHA-1 key identifiers.",
         "note": DIR_NOTE + "; signature arithmetic is an oracle; known finding F19 (issuer DN re-encoded for imported issuers with foreign string types) is recorded in known_findings.json"},
 "C10": {"technique": "Coq proof (idempotence of every non-generate-all strategy from every directory state under the clock hypothesis; no consent, no change) + lockstep histories with repeated runs and write-set checks",
         "level": "Theorems C10_rerun_is_noop and C10_no_consent_no_change for all directory states. Tie: random histories in which successful runs are repeated with the same flags; the harness file system records every write and compares all other files before/after; "
                  "rule 2 is evaluated on the implementation's observations.", "note": DIR_NOTE + "; the CLI prompt is modelled (Cli.v) and proved, the binary itself is exercised only by the C20/C10 CLI smoke cases"},
 "C12": {"technique": "Coq proof by invariant over histories (DirInv preserved by every admissible user operation and every run, default run reaches the goal state) + lockstep histories",
         "level": "Theorems C12_history_invariant / C12_history_converges: for every history of admissible operations and (possibly failing) runs, a successful default run leaves every entity with certificate and key material, hashed certificates reflecting the current configuration and chaining; the next run is a no-op. "
                  "Tie: lockstep comparison of random histories (edits, touches, deletions, tears, requests, user-supplied artifacts, runs under 12 strategies) and rule 3 on the implementation's files.", "note": DIR_NOTE},
 "C13": {"technique": "Coq proof (equal hash pre-images imply equal certificate-relevant content; pre-image independent of alias, profile name and run-relative times) + differential comparison of configuration pairs through the real HashSum",
         "level": "Theorems C13_hash_sensitive, C13_hash_ignores_alias_profile, C13_hash_ignores_relative_times for all contents. Tie: for every generated pair (irrelevant difference or single certificate-changing edit) the model's pre-image equality must equal the equality of the real SHA-1 sums, "
                  "and the generator's own labelling gives the stability / sensitivity verdict; dirrun adds 'second run finds nothing changed'.", "note": "trusted: Coq kernel, harness; SHA-1 and encoding/json are not modelled (pre-image = structured value)"},
 "C14": {"technique": "Coq proof over the directory model (existing key / key-less request kept by every run, new certificate carries its public key) + PKCS#8 round-trip proofs + lockstep histories with key-identity flags",
         "level": "Theorems C14_key_kept, C14_request_kept, C14_pkcs8_*_roundtrip. Tie: lockstep histories compare 'same key as before', 'same request as before', 'certificate matches key / request' after every step (RSA and EC keys, user-supplied keys and requests, trailing bytes in artifact files); rule 4 on the implementation's files.", "note": DIR_NOTE},
 "C15": {"technique": "Coq proof (any write fault preserves DirInv; write error never reported as success; on a generable hierarchy crash -> default run succeeds and is good -> next run is a no-op; torn files read as complete blocks) + lockstep histories with injected faults",
         "level": "Theorems C15_faulty_run_preserves_invariant, C15_write_error_reported, C15_crash_then_recover_then_noop and the byte-level C15_torn_* theorems. Tie: 45% of the runs of the fault stream fail their k-th WriteFile (error / any block subset then death / complete then death); "
                  "results, writes and all flags of the faulty run and of the recovery runs are compared with the model; rules 3 and 5 on the implementation's files; the pem stream checks truncation at every offset against the model's pem.Decode.", "note": DIR_NOTE + "; os.WriteFile semantics of a real disk are out of scope"},
 "C17": {"technique": "Coq proofs (PKCS#8 round trip for every scalar on all ten curves and every RSA key; PEM file of any block list reads back as exactly those blocks) + byte-exact differential correspondence of writer, parser and PEM reader, stdlib interop",
         "level": "Theorems C17_pkcs8_ec_roundtrip, C17_pkcs8_rsa_roundtrip, C17_pem_file_roundtrip, C17_pem_plain_roundtrip. Tie: gopki's PKCS#8 bytes must equal the model's, gopki's parser and the model's must classify hand-assembled, truncated and bit-flipped encodings alike, "
                  "crypto/x509 must accept gopki's output and vice versa (RSA, NIST curves); the model's pem.Decode is compared with Go's on >700 hostile files.", "note": "trusted: Coq kernel, harness; curve arithmetic is an oracle; acceptance by crypto/x509 is differential evidence only (partial)"},
 "C20": {"technique": "Coq proofs for the glue where panics originated (stored-hash slicing, custom OID conversion, consent path; issuer-without-certificate is an error result in the run model) + model-checked hostile-value stream + recover()-guarded mutation streams",
         "level": "Theorems C20_stored_hash_never_panics, C20_custom_oid_never_panics, C20_no_consent_no_change. Tie: hostile values in every slot of parsing configurations go through the byte-level model (certificate or error must be predicted alike), the stored-hash scanner is compared with the model on thousands of marker arrangements, "
                  "corpus mutations and all artifact-block x strategy combinations run under recover(); panics in fault histories are a compared result code.", "note": "trusted: Coq kernel, harness; partial: YAML, JSON-schema, encoding/asn1 and encoding/pem are third-party / stdlib code whose freedom from panics is explored, not proved"},
})
for _p in list(NOT_YET):
    if _p in TEXT: del NOT_YET[_p]
