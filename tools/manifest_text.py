TEXT = {
 "C08": {"technique": "Coq refinement proof (merge = merge_spec, induction on the profile list) + exhaustive differential correspondence",
         "level": "Theorem C08_merge_refines_spec: the model of config.Merge (index bookkeeping as in the code) equals the documented rule for every extension type and all lists, unbounded. "
                  "The model is tied to the code by running config.Merge and the extracted model on every small list pair and on random longer ones; input purity is compared before/after.",
         "note": "trusted: Coq kernel, extraction (ExtrOcamlBasic), Go harness; the correspondence is exhaustive only up to the stated list lengths; generation failure of content-less extensions is covered by the certificate stream (C06)"},
 "C09": {"technique": "Coq proof (validate = documented acceptance rule; rejected entity aborts planning) + exhaustive differential correspondence",
         "level": "Theorems C09_validate_spec (Validate accepts exactly: in-order subsequence unless allowOther, every non-optional attribute present; subject returned unchanged) and "
                  "C09_rejected_aborts_plan, for all profiles and subjects. Tie: config.Validate vs the extracted model on all profiles <= 3 x subjects <= 4/5 and random longer ones.",
         "note": "trusted: Coq kernel, extraction, Go harness; attribute-name resolution is modelled as a table lookup (unknown names reject)"},
 "C11": {"technique": "Coq proof (plan = regen relation, issuers first, by BFS invariant over forests) + exhaustive decision-table correspondence",
         "level": "Theorem C11_plan_iff_regen: for every forest and every strategy the planned list is exactly the documented regeneration relation, duplicate-free, every issuer before its subjects. "
                  "Tie: db.PlanBulkUpdate over a synthetic db.Database vs the extracted model on the full single-entity table, the issuer/subject pair table and random forests.",
         "note": "trusted: Coq kernel, extraction, Go harness with its synthetic Database; expiry is an abstract boolean (time.Now comparisons are exercised, not modelled)"},
 "C18": {"technique": "Coq proof (consistency check accepts iff every entity reaches a root; counting argument on the BFS) + exhaustive issuer-graph correspondence",
         "level": "Theorem C18_consistent_iff for all directories with unique aliases. Tie: FsDb.Open on an in-memory directory for every issuer assignment on <= 4 (quick) / <= 6 (thorough) entities, "
                  "duplicate aliases, and a byte-for-byte snapshot comparison after every refusal.",
         "note": "trusted: Coq kernel, extraction, Go harness; YAML parsing and alias derivation are exercised through the real Open, not modelled in this stream"},
}
NOT_YET = {p: "check under construction in this session (model and theorems exist in coq/, correspondence stream not yet registered)" for p in
           ["C01", "C02", "C03", "C04", "C05", "C06", "C07", "C10", "C12", "C13", "C14", "C15", "C16", "C17", "C19", "C20"]}
