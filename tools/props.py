"""Property table: which correspondence streams tie each property's model to the code, and how cases are counted."""

PROPS = {
 "C08": {"streams": ["merge"], "exhaustive": True,
         "rule": "config.Merge on every profile list (length <= 2 quick / <= 3 thorough; 24 symbols = 6 extensions x optional x override) "
                 "x every certificate list (length <= 3 / <= 4; 6 symbols over two OIDs incl. keyUsage and a custom extension on keyUsage's OID), "
                 "plus random lists of length 3-8; the inputs are compared before/after the call; "
                 "non-trivial = profile and certificate list both non-empty; distinct = distinct case line",
         "assumptions": ["equality of extension configurations is the equality of their Go values (%#v), as in the JSON image Merge compares"]},
 "C09": {"streams": ["validate"], "exhaustive": True,
         "rule": "config.Validate on every attribute list (length <= 3; 4 types x optional) and the nil list x allowOther x every subject "
                 "(length 1..4 quick / 1..5 thorough over 5 types incl. one foreign), plus random profiles of length 4-5 with attribute names "
                 "the table lacks; the subject is compared before/after; non-trivial = non-empty profile list",
         "assumptions": []},
 "C11": {"streams": ["plan"], "exhaustive": True,
         "rule": "db.PlanBulkUpdate over a synthetic db.Database: single entity: every local state (artifact x hash x expiry) x cfg/file time relation x 32 strategies; "
                 "issuer/subject pair: both local states x 27 time relations x 32 strategies (every 6th row in quick, all in thorough); random forests of 2-5 entities; "
                 "non-trivial = at least one artifact present",
         "assumptions": ["the synthetic database answers like FsDb (nil metadata for unknown aliases, empty artifact for known entities)"]},
 "C18": {"streams": ["graph"], "exhaustive": True,
         "rule": "FsDb.Open over an in-memory directory for every issuer assignment (root / any entity incl. itself / undefined name) on 1..4 entities "
                 "(quick) / 1..6 (thorough), plus duplicate aliases; a refused directory must be byte-identical afterwards; non-trivial = at least 2 entities",
         "assumptions": []},
}
