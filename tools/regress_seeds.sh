#!/bin/bash
# regress_seeds.sh: every kept seeded change (seeded/*/patch.diff) against the quick check of its property, on a scratch worktree
# of /repo's HEAD and a private copy of /verif (tools/try_seed_wt.sh) - /repo itself is left alone.  One line per change; a line
# that does not say VIOLATION is a change the checks no longer report.  Takes about two and a half hours for 115 changes.
cd "$(dirname "$0")/.."
for d in seeded/*/; do
  id=$(basename $d); prop=$(python3 -c "import json;print(json.load(open('$d/meta.json'))['property'])")
  res=$(SEED_COPY=${SEED_COPY:-/tmp/vcopyR} SEED_WT=${SEED_WT:-/tmp/seedwtR} KEEP=1 bash tools/try_seed_wt.sh $PWD/$d/patch.diff $prop 2>&1 | grep -E "^(VIOLATION|OK|patch)" | head -1 | cut -c1-140)
  echo "$id on $prop: $res"
done
rm -rf ${SEED_COPY:-/tmp/vcopyR}
