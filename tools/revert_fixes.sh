#!/bin/bash
# revert_fixes.sh: for every "fix:" commit of /repo, check out a scratch worktree with exactly that commit reverted and run the
# check of the property it belongs to (from known_findings.json).  Runs on a private copy of /verif so that it does not disturb
# checks running in /verif.  Output: one line per fix.  Used to validate the machinery, not registered anywhere.
set -u
COPY=${1:-/tmp/vcopy}; WT=${2:-/tmp/rv}
rm -rf $COPY; mkdir -p $COPY; rsync -a --exclude build --exclude .git /verif/ $COPY/
git -C /repo worktree remove --force $WT 2>/dev/null; git -C /repo worktree add -q --detach $WT HEAD
python3 - <<PY > $COPY/fixlist.txt
import json
for f in json.load(open('/verif/known_findings.json')):
    if f['status']=='fixed': print(f['id'], f['property'], f['commit'])
PY
while read id prop commit; do
  git -C $WT checkout -q -- . ; git -C $WT clean -fdq
  if ! git -C $WT revert --no-commit $commit >/dev/null 2>&1; then
     git -C $WT revert --abort 2>/dev/null; git -C $WT checkout -q -- .
     if ! (git -C /repo diff $commit^ $commit | git -C $WT apply -R 2>/dev/null); then echo "$id $prop $commit: CANNOT-REVERT"; continue; fi
  fi
  res=$(cd $COPY && VERIF_REPO=$WT timeout 1500 python3 tools/check.py $prop quick 2>&1 | grep -E "^(VIOLATION|OK)" | head -1)
  echo "$id $prop $commit: $res"
  git -C $WT revert --abort 2>/dev/null; git -C $WT checkout -q -- . ; git -C $WT reset -q --hard HEAD
done < $COPY/fixlist.txt
git -C /repo worktree remove --force $WT
